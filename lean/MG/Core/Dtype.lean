/-!
# M7 — dtypes, NumPy-2 (NEP 50) promotion, MyGrad's operand casting, and the construction lattice

Import-free, total and executable.  Two parts:

* **promotion / forward dtype** (property C03): the twelve real dtypes MyGrad admits, NumPy's
  `promote_types` and n-ary `result_type` on them, operand kinds with NEP-50 *weak* Python scalars,
  MyGrad's operand-casting pipeline (`Tensor._op`: every non-tensor operand becomes
  `Tensor(var, constant=True, copy=False)`, i.e. a Python scalar is a 0-d bool/int64/float64 *array*
  before the ufunc sees it), the loop selection of the representative ufunc classes, the `dtype=`
  keyword, the constant/dtype gate of the result tensor, and the broadcasting rule.
* **construction / conversion** (property C17): the decision functions of `mygrad.tensor`, `Tensor(...)`,
  `astensor`, `asarray`, `Tensor.astype`, `Tensor.copy` and the creation routines over the finite lattice
  input-kind × dtype × dtype-argument × constant × copy × ndmin-relation × tracking switch.

Both parts are run against the implementation, cell by cell, by `harness/props/c17.py` and
`harness/props/c03.py` through `MG/IO/DtypeIO.lean`.
-/

namespace MG.Dtype

/-! ## Finite enumerations (so that `∀ x, P x` over the lattice is decidable without any library) -/

class Enum (α : Type) where
  all : List α
  complete : ∀ a : α, a ∈ all

instance decForallEnum {α : Type} [Enum α] (p : α → Prop) [DecidablePred p] : Decidable (∀ a, p a) :=
  decidable_of_iff (∀ a ∈ (Enum.all : List α), p a)
    ⟨fun h a => h a (Enum.complete a), fun h a _ => h a⟩

instance decExistsEnum {α : Type} [Enum α] (p : α → Prop) [DecidablePred p] : Decidable (∃ a, p a) :=
  decidable_of_iff (∃ a ∈ (Enum.all : List α), p a)
    ⟨fun ⟨a, _, h⟩ => ⟨a, h⟩, fun ⟨a, h⟩ => ⟨a, Enum.complete a, h⟩⟩

/-- Bool-valued exhaustive check ⇒ universal statement (kernel-friendly: `List.all` over the enumeration) -/
theorem forall_of_all {α : Type} [Enum α] (p : α → Bool) (h : (Enum.all : List α).all p = true) :
    ∀ a, p a = true :=
  fun a => List.all_eq_true.mp h a (Enum.complete a)

theorem forall2_of_all {α β : Type} [Enum α] [Enum β] (p : α → β → Bool)
    (h : ((Enum.all : List α).all fun a => (Enum.all : List β).all (p a)) = true) : ∀ a b, p a b = true :=
  fun a b => forall_of_all (p a) (forall_of_all _ h a) b

instance : Enum Bool := ⟨[false, true], by intro x; cases x <;> decide⟩

instance {α : Type} [Enum α] : Enum (Option α) :=
  ⟨none :: (Enum.all : List α).map some, by
    intro a
    cases a with
    | none => exact List.mem_cons_self ..
    | some a => exact List.mem_cons_of_mem _ (List.mem_map.mpr ⟨a, Enum.complete a, rfl⟩)⟩

/-! ## The real dtypes -/

/-- the real dtypes MyGrad admits (`bool`, signed / unsigned integers, floats) -/
inductive DT where
  | bool | i8 | i16 | i32 | i64 | u8 | u16 | u32 | u64 | f16 | f32 | f64
  deriving DecidableEq, Repr, Inhabited

instance : Enum DT :=
  ⟨[.bool, .i8, .i16, .i32, .i64, .u8, .u16, .u32, .u64, .f16, .f32, .f64], by
    intro a; cases a <;> decide⟩

inductive Kind where
  | b | u | i | f
  deriving DecidableEq, Repr, Inhabited

def DT.kind : DT → Kind
  | .bool => .b
  | .i8 | .i16 | .i32 | .i64 => .i
  | .u8 | .u16 | .u32 | .u64 => .u
  | .f16 | .f32 | .f64 => .f

def DT.bits : DT → Nat
  | .bool => 8
  | .i8 | .u8 => 8
  | .i16 | .u16 | .f16 => 16
  | .i32 | .u32 | .f32 => 32
  | .i64 | .u64 | .f64 => 64

def DT.isFloat (d : DT) : Bool := d.kind == .f

def intOf (n : Nat) : DT :=
  if n ≤ 8 then .i8 else if n ≤ 16 then .i16 else if n ≤ 32 then .i32 else .i64
def uintOf (n : Nat) : DT :=
  if n ≤ 8 then .u8 else if n ≤ 16 then .u16 else if n ≤ 32 then .u32 else .u64
def floatOf (n : Nat) : DT :=
  if n ≤ 16 then .f16 else if n ≤ 32 then .f32 else .f64

/-- bits of the smallest float that holds every value of the dtype (`int8 → float16`, `int16 → float32`,
wider integers → `float64`); a float needs itself -/
def DT.floatNeed (d : DT) : Nat :=
  match d.kind with
  | .f => d.bits
  | .b => 16
  | _ => if d.bits ≤ 8 then 16 else if d.bits ≤ 16 then 32 else 64

/-- `numpy.promote_types` on the real dtypes -/
def promote (a b : DT) : DT :=
  match a.kind, b.kind with
  | .b, _ => b
  | _, .b => a
  | .f, _ => floatOf (max a.bits b.floatNeed)
  | _, .f => floatOf (max a.floatNeed b.bits)
  | .i, .i => intOf (max a.bits b.bits)
  | .u, .u => uintOf (max a.bits b.bits)
  | .u, .i => if a.bits < b.bits then b else if a.bits = 64 then .f64 else intOf (2 * a.bits)
  | .i, .u => if b.bits < a.bits then a else if b.bits = 64 then .f64 else intOf (2 * b.bits)

/-- n-ary `numpy.result_type` of *strong* dtypes.  NumPy does **not** fold `promote_types` from the left
(`result_type(int8, uint8, float16)` is `float16`, the left fold gives `float32`): once a float takes
part every integer only contributes the float it needs. -/
def resultStrong : List DT → Option DT
  | [] => none
  | d :: ds =>
    let l := d :: ds
    if l.any DT.isFloat then some (floatOf (l.foldl (fun m x => max m x.floatNeed) 0))
    else some (ds.foldl promote d)

/-! ## casting rules (`numpy.can_cast`) -/

inductive Casting where
  | safe | sameKind | any      -- `casting="unsafe"` (a Lean keyword, hence `any`)
  deriving DecidableEq, Repr, Inhabited

instance : Enum Casting := ⟨[.safe, .sameKind, .any], by intro x; cases x <;> decide⟩

def Kind.rank : Kind → Nat
  | .b => 0 | .u => 1 | .i => 2 | .f => 3

def canCast (c : Casting) (a b : DT) : Bool :=
  match c with
  | .any => true
  | .safe => promote a b == b
  | .sameKind => promote a b == b || a.kind.rank ≤ b.kind.rank

/-! ## Operand kinds and NEP 50 -/

/-- what an operand of a MyGrad function can be.  `tensorNd`/`tensor0d`: a `Tensor` holding an n-d / 0-d
array; the three Python scalars are *weak* for NumPy 2. -/
inductive OKind where
  | tensorNd | tensor0d | arrNd | arr0d | npScalar | pyBool | pyInt | pyFloat
  deriving DecidableEq, Repr, Inhabited

instance : Enum OKind :=
  ⟨[.tensorNd, .tensor0d, .arrNd, .arr0d, .npScalar, .pyBool, .pyInt, .pyFloat], by
    intro a; cases a <;> decide⟩

/-- an operand: its kind and the dtype of its data (ignored for Python scalars) -/
structure Operand where
  kind : OKind
  dt : DT
  deriving DecidableEq, Repr, Inhabited

def OKind.isPy : OKind → Bool
  | .pyBool | .pyInt | .pyFloat => true
  | _ => false

/-- how NumPy's promotion sees an operand.  A Python `bool` is *not* weak: it is `np.bool_`. -/
inductive Seen where
  | strong (d : DT) | weakInt | weakFloat
  deriving DecidableEq, Repr, Inhabited

/-- a weak scalar resolved to its default dtype (`int64` / `float64`) -/
def Seen.default : Seen → Seen
  | .weakInt => .strong .i64
  | .weakFloat => .strong .f64
  | s => s

/-- the NumPy call "on the underlying arrays": a tensor is replaced by its `.data` -/
def Operand.seen (o : Operand) : Seen :=
  match o.kind with
  | .pyBool => .strong .bool
  | .pyInt => .weakInt
  | .pyFloat => .weakFloat
  | _ => .strong o.dt

def strongs : List Seen → List DT
  | [] => []
  | .strong d :: l => d :: strongs l
  | _ :: l => strongs l

/-- NumPy-2 `result_type` of a list of operands (NEP 50): promote the strong dtypes; a weak float
lifts a non-float result to the default float, a weak int lifts `bool` to the default int; weak
scalars alone resolve to the defaults `int64` / `float64`. -/
def resultSeen (l : List Seen) : Option DT :=
  let wf := l.any (· == .weakFloat)
  let wi := l.any (· == .weakInt)
  match resultStrong (strongs l) with
  | none => if wf then some .f64 else if wi then some .i64 else none
  | some s =>
    if wf && !s.isFloat then some .f64
    else if wi && s == .bool then some .i64
    else some s

def npResultTypeN (l : List Operand) : Option DT := resultSeen (l.map Operand.seen)

/-- binary case; total (two operands always have a result type) -/
def npResultType (a b : Operand) : DT := (npResultTypeN [a, b]).getD .f64

/-! ## MyGrad's operand casting (`Tensor._op`, tensor_base.py:1088-1091)

```
tensor_vars = tuple(cls(var, constant=True, copy=False) if not isinstance(var, Tensor) else var ...)
```
`np.asarray(2.0)` is a 0-d float64 array, `np.asarray(2)` 0-d int64, `np.asarray(True)` 0-d bool; a NumPy
scalar becomes a 0-d array of its dtype.  The ufunc then receives `.data` of every tensor, so no weak
operand is left. -/
def castOperand (o : Operand) : Operand :=
  match o.kind with
  | .pyBool => ⟨.arr0d, .bool⟩
  | .pyInt => ⟨.arr0d, .i64⟩
  | .pyFloat => ⟨.arr0d, .f64⟩
  | .npScalar => ⟨.arr0d, o.dt⟩
  | .tensorNd => ⟨.arrNd, o.dt⟩
  | .tensor0d => ⟨.arr0d, o.dt⟩
  | .arrNd | .arr0d => o

def mgResultTypeN (l : List Operand) : Option DT := npResultTypeN (l.map castOperand)
def mgResultType (a b : Operand) : DT := npResultType (castOperand a) (castOperand b)

/-! ### values of cast Python scalars -/

/-- a Python scalar value (floats are represented by an opaque payload: `np.asarray(x)` stores the very
same IEEE double) -/
inductive PyVal where
  | bool (b : Bool) | int (n : Int) | float (bits : Nat)
  deriving DecidableEq, Repr

/-- the 0-d array `np.asarray(v)` holds: dtype and value; `none` = not a real-dtype array
(Python ints beyond 64 bits become `object` arrays, which `Tensor.__init__` rejects while tracking) -/
def castPy : PyVal → Option (DT × PyVal)
  | .bool b => some (.bool, .bool b)
  | .int n =>
    -- int64 range, then uint64 range
    if -9223372036854775808 ≤ n ∧ n < 9223372036854775808 then some (.i64, .int n)
    else if 9223372036854775808 ≤ n ∧ n < 18446744073709551616 then some (.u64, .int n)
    else none
  | .float x => some (.f64, .float x)

/-! ## ufunc classes: which loop NumPy selects for a resolved input dtype -/

inductive Err where
  | typeError | valueError
  deriving DecidableEq, Repr, Inhabited

/-- representative classes of the ufuncs MyGrad wraps, by output dtype as a function of the
promoted input dtype:
`arith` add, multiply, maximum, minimum, absolute · `noBool` subtract, negative, positive ·
`divide` true_divide · `float` sqrt, exp, log, sin …, arctan2, logaddexp · `toI8` power, square,
reciprocal (bool → int8) · `compare` the comparison operators -/
inductive OpClass where
  | arith | noBool | divide | float | toI8 | compare
  deriving DecidableEq, Repr, Inhabited

instance : Enum OpClass :=
  ⟨[.arith, .noBool, .divide, .float, .toI8, .compare], by intro x; cases x <;> decide⟩

/-- output dtype of the loop chosen for promoted input dtype `d` -/
def loopOut (c : OpClass) (d : DT) : Except Err DT :=
  match c with
  | .arith => .ok d
  | .noBool => if d == .bool then .error .typeError else .ok d
  | .divide => if d.isFloat then .ok d else .ok .f64
  | .float => .ok (floatOf d.floatNeed)
  | .toI8 => if d == .bool then .ok .i8 else .ok d
  | .compare => .ok .bool

/-- input dtype of the loop whose *output* is `t` (used when `dtype=t` is passed) -/
def loopIn (c : OpClass) (t : DT) : Except Err DT :=
  match c with
  | .arith => .ok t
  | .noBool | .toI8 => if t == .bool then .error .typeError else .ok t
  | .divide | .float => if t.isFloat then .ok t else .error .typeError
  | .compare => .error .typeError   -- not modelled: MyGrad's comparisons take no `dtype=`

/-- may NumPy pass an operand to a loop of input dtype `t` (ufunc casting rule `same_kind`)?
A weak Python int goes to every integer or float dtype, a weak float to every float dtype. -/
def seenCastable (s : Seen) (t : DT) : Bool :=
  match s with
  | .strong d => canCast .sameKind d t
  | .weakInt => t != .bool
  | .weakFloat => t.isFloat

/-- the loop of a float-only ufunc (`sqrt`, `exp`, `arctan2`, `logaddexp`, …; loops `e`, `f`, `d` only): NumPy
takes the first loop to which **every operand by itself** casts safely — so `int8` with `uint8` is float16
although their promoted type `int16` would need float32.  Weak scalars: a Python float next to non-float
operands, or a Python int next to bools only (→ default int), select the `d` loop; otherwise they do not
contribute. -/
def floatLoop (l : List Seen) : DT :=
  let ss := strongs l
  if ss.isEmpty then .f64
  else if l.any (· == .weakFloat) && !ss.any DT.isFloat then .f64
  else if l.any (· == .weakInt) && ss.all (· == .bool) then .f64
  else floatOf (ss.foldl (fun m x => max m x.floatNeed) 0)

/-- result dtype of a ufunc of class `c` as NumPy computes it for the operands as *it* sees them,
with optional `dtype=` -/
def ufuncSeen (c : OpClass) (l : List Seen) (kw : Option DT) : Except Err DT :=
  match kw with
  | none =>
    match c with
    | .float => if l.isEmpty then .error .typeError else .ok (floatLoop l)
    | _ =>
      match resultSeen l with
      | none => .error .typeError
      | some d => loopOut c d
  | some t =>
    match loopIn c t with
    | .error e => .error e
    | .ok tin =>
      -- a *lone* Python scalar (unary ufunc) is converted with `np.asarray` first: no weak handling
      let l' := match l with
        | [x] => [x.default]
        | _ => l
      if l'.all (seenCastable · tin) then .ok t else .error .typeError

def npUfunc (c : OpClass) (l : List Operand) (kw : Option DT) : Except Err DT :=
  ufuncSeen c (l.map Operand.seen) kw

/-- `mgForward op args := kernel op (castOperands args)` -/
def mgUfuncDtype (c : OpClass) (l : List Operand) (kw : Option DT) : Except Err DT :=
  npUfunc c (l.map castOperand) kw

/-! ## Extended dtypes for construction: the real ones plus representatives of the non-real ones -/

inductive DTy where
  | real (d : DT) | c64 | c128 | obj
  deriving DecidableEq, Repr, Inhabited

instance : Enum DTy :=
  ⟨(Enum.all : List DT).map .real ++ [.c64, .c128, .obj], by
    intro a
    cases a with
    | real d => exact List.mem_append_left _ (List.mem_map.mpr ⟨d, Enum.complete d, rfl⟩)
    | c64 => decide
    | c128 => decide
    | obj => decide⟩

/-- `issubclass(dtype, np.floating)` -/
def DTy.isFloat : DTy → Bool
  | .real d => d.isFloat
  | _ => false

/-- `issubclass(dtype, (np.integer, np.bool_))` — `CONSTANT_ONLY_DTYPES` -/
def DTy.isIntOrBool : DTy → Bool
  | .real d => !d.isFloat
  | _ => false

def DTy.isReal : DTy → Bool
  | .real _ => true
  | _ => false

/-- `numpy.can_cast` from a real dtype into the extended ones (`ndarray.astype(dtype, casting=…)`) -/
def canCastY (c : Casting) (a : DT) : DTy → Bool
  | .real b => canCast c a b
  | .c64 => match c with
    | .any => true | .sameKind => true | .safe => canCast .safe a .f32
  | .c128 => match c with
    | .any => true | .sameKind => true | .safe => canCast .safe a .f64
  | .obj => true

/-! ## The constant / dtype gate of `Tensor.__init__` (tensor_base.py:802-843) -/

/-- the `constant` argument: `None`, `True`, `False`, or something that is not a bool -/
inductive CArg where
  | none | t | f | bad
  deriving DecidableEq, Repr, Inhabited

instance : Enum CArg := ⟨[.none, .t, .f, .bad], by intro x; cases x <;> decide⟩

/-- ```
if constant is not None and not isinstance(constant, bool): raise TypeError
...
is_float = issubclass(dtype, np.floating)
if not is_float and _track.TRACK_GRAPH:
    if not issubclass(dtype, CONSTANT_ONLY_DTYPES): raise TypeError
    elif constant is False: raise ValueError
if constant is None: constant = not is_float
```
returns the `constant` flag of the new tensor -/
def gate (track : Bool) (dt : DTy) (c : CArg) : Except Err Bool :=
  if c == .bad then .error .typeError
  else if !dt.isFloat && track && !dt.isIntOrBool then .error .typeError
  else if !dt.isFloat && track && c == .f then .error .valueError
  else
    match c with
    | .t => .ok true
    | .f => .ok false
    | _ => .ok (!dt.isFloat)

/-- the tensor a ufunc call returns (`Tensor._op`): dtype from the kernel, `constant` from the graph
(`tracked`: all operands constant ⇒ `True`, else by dtype; untracked: by dtype), then the gate.
`allConst`: every operand is a constant tensor or a non-tensor. -/
def mgUfunc (track : Bool) (c : OpClass) (l : List Operand) (kw : Option DT) (carg : CArg)
    (allConst : Bool) : Except Err (DT × Bool) :=
  match mgUfuncDtype c l kw with
  | .error e => .error e
  | .ok d =>
    (gate track (.real d) (if carg == .none && track && allConst then CArg.t else carg)).map fun k => (d, k)

/-! ## Construction lattice -/

/-- kinds of objects handed to `tensor` / `Tensor` / `astensor` / `asarray` -/
inductive SrcKind where
  | pyBool | pyInt | pyFloat | list | nested
  | arrOwn | arrView | arrRO | arr0d | npScalar | tensor
  deriving DecidableEq, Repr, Inhabited

instance : Enum SrcKind :=
  ⟨[.pyBool, .pyInt, .pyFloat, .list, .nested, .arrOwn, .arrView, .arrRO, .arr0d,
    .npScalar, .tensor], by intro x; cases x <;> decide⟩

/-- does the object own array memory that `np.asarray` can hand back without copying? -/
def SrcKind.hasBuffer : SrcKind → Bool
  | .arrOwn | .arrView | .arrRO | .arr0d | .tensor => true
  | _ => false

/-- public state of a source tensor -/
structure TState where
  const : Bool
  hasCreator : Bool   -- `.creator is not None`
  hasGrad : Bool      -- `.grad is not None`
  ownGrad : Bool      -- `._grad is not None`: what `Tensor.copy` duplicates
  hasBase : Bool      -- `.base is not None`
  deriving DecidableEq, Repr, Inhabited

instance : Enum TState :=
  ⟨(Enum.all : List Bool).flatMap fun a => (Enum.all : List Bool).flatMap fun b =>
    (Enum.all : List Bool).flatMap fun c => (Enum.all : List Bool).flatMap fun d =>
    (Enum.all : List Bool).map fun e => ⟨a, b, c, d, e⟩, by
    intro ⟨a, b, c, d, e⟩
    cases a <;> cases b <;> cases c <;> cases d <;> cases e <;> decide⟩

structure Src where
  kind : SrcKind
  dt : DTy            -- dtype of `np.asarray(x)`
  ts : TState         -- meaningful for `kind = tensor` only
  deriving DecidableEq, Repr, Inhabited

/-- relation of the `ndmin` argument to the number of dimensions of the input:
negative · `0 ≤ ndmin ≤ ndim` · `ndmin > ndim` · not an integer -/
inductive NdRel where
  | neg | le | gt | bad
  deriving DecidableEq, Repr, Inhabited

instance : Enum NdRel := ⟨[.neg, .le, .gt, .bad], by intro x; cases x <;> decide⟩

/-- what the result is, relative to the input -/
inductive Ident where
  | same      -- the very same Python object
  | shares    -- a new object whose array shares memory with the input
  | fresh     -- a new object with its own memory
  deriving DecidableEq, Repr, Inhabited

structure Res where
  ident : Ident
  dt : DTy
  const : Bool
  hasCreator : Bool
  hasGrad : Bool
  hasBase : Bool
  extended : Bool     -- dimensions were prepended to reach `ndmin`
  deriving DecidableEq, Repr, Inhabited

def dtMatches (s : DTy) : Option DTy → Bool
  | none => true
  | some d => d == s

def outDt (s : DTy) : Option DTy → DTy
  | none => s
  | some d => d

/-- `arr_like.constant is constant` / `constant is None` -/
def constOk (c : CArg) (k : Bool) : Bool :=
  match c with
  | .none => true
  | .t => k
  | .f => !k
  | .bad => false

/-- `Tensor(x, dtype=, constant=, copy=, ndmin=)` under NumPy 2 (tensor_base.py:802-859):
`copy=False` → `np.asarray(x, dtype)` (+ prepended axes by indexing), else `np.array(x, dtype, copy=True,
ndmin)`; then the gate.  A new tensor never has a creator, a gradient or a base. -/
def tensorInit (track : Bool) (s : Src) (dtype : Option DTy) (c : CArg) (copy : Bool) (nd : NdRel) :
    Except Err Res :=
  if c == .bad then .error .typeError
  else if nd == .bad then .error .typeError
  else
    (gate track (outDt s.dt dtype) c).map fun k =>
      { ident := if !copy && s.kind.hasBuffer && dtMatches s.dt dtype then .shares else .fresh
        dt := outDt s.dt dtype, const := k, hasCreator := false, hasGrad := false, hasBase := false
        extended := nd == .gt }

/-- the pass-through of `mygrad.tensor` hands back the tensor itself -/
def passSame (s : Src) : Res :=
  { ident := .same, dt := s.dt, const := s.ts.const, hasCreator := s.ts.hasCreator
    hasGrad := s.ts.hasGrad, hasBase := s.ts.hasBase, extended := false }

/-- `Tensor._op(GetItem, arr_like, op_args=((None,)*k,), constant=arr_like.constant)`: tracked — a view with
creator and base; untracked — `cls(op_out, constant=…)`: no creator, no base.  The input's `constant` flag is
handed on explicitly in both modes -/
def passView (track : Bool) (s : Src) : Except Err Res :=
  (gate track s.dt (if s.ts.const then CArg.t else CArg.f)).map fun k =>
    { ident := .shares, dt := s.dt, const := k, hasCreator := track
      hasGrad := track && s.ts.hasGrad, hasBase := track, extended := true }

/-- the condition of the pass-through branch of `mygrad.tensor` -/
def passes (s : Src) (dtype : Option DTy) (c : CArg) (copy : Bool) : Bool :=
  s.kind == .tensor && !copy && constOk c s.ts.const && dtMatches s.dt dtype

/-- `mygrad.tensor(arr_like, dtype, constant=, copy=, ndmin=)` (tensor_base.py:255-270): the
pass-through branch for a tensor with `copy=False` whose dtype and constant already agree returns the
tensor itself, or — if `ndmin` asks for more dimensions — the view `arr_like[(None,)*k]`, an ordinary
`GetItem` op (so: a creator and a base when tracking, none otherwise; `constant` re-inferred). -/
def tensorFn (track : Bool) (s : Src) (dtype : Option DTy) (c : CArg) (copy : Bool) (nd : NdRel) :
    Except Err Res :=
  if passes s dtype c copy then
    match nd with
    | .bad => .error .typeError
    | .gt => passView track s
    | _ => .ok (passSame s)
  else tensorInit track s dtype c copy nd

/-- `astensor(t, dtype, constant=) = tensor(t, dtype, constant=constant, copy=False, ndmin=0)` -/
def astensorFn (track : Bool) (s : Src) (dtype : Option DTy) (c : CArg) : Except Err Res :=
  tensorFn track s dtype c false .le

/-! ### `mygrad.asarray` -/

inductive Order where
  | none | c | f | a | k
  deriving DecidableEq, Repr, Inhabited
instance : Enum Order := ⟨[.none, .c, .f, .a, .k], by intro x; cases x <;> decide⟩

/-- memory layout of the input's array: C-contiguous only, F-contiguous only, both (1-d / 0-d), neither -/
inductive Layout where
  | c | f | both | neither
  deriving DecidableEq, Repr, Inhabited
instance : Enum Layout := ⟨[.c, .f, .both, .neither], by intro x; cases x <;> decide⟩

def orderOk : Order → Layout → Bool
  | .c, .c | .c, .both => true
  | .c, _ => false
  | .f, .f | .f, .both => true
  | .f, _ => false
  | _, _ => true

/-- `asarray(a, dtype, order)`: `a.data` for a tensor, then `np.asarray`.  `same` here means: the very
array object (`a` itself, or `t.data`); anything else is a fresh array. -/
def asarrayFn (s : Src) (dtype : Option DTy) (o : Order) (lay : Layout) : Ident × DTy :=
  (if s.kind.hasBuffer && dtMatches s.dt dtype && orderOk o lay then .same else .fresh, outDt s.dt dtype)

/-! ### `Tensor.astype` and `Tensor.copy` -/

/-- ```
cast_data = self.data.astype(dtype=dtype, casting=casting, copy=copy)
if cast_data is self.data and (constant is None or self.constant is constant): return self
return type(self)(cast_data, copy=False, constant=constant)
``` -/
def astypeFn (track : Bool) (sdt : DT) (ts : TState) (target : DTy) (casting : Casting) (copy : Bool)
    (c : CArg) : Except Err Res :=
  if !canCastY casting sdt target then .error .typeError
  else if !copy && target == .real sdt && constOk c ts.const then
    .ok { ident := .same, dt := .real sdt, const := ts.const, hasCreator := ts.hasCreator
          hasGrad := ts.hasGrad, hasBase := ts.hasBase, extended := false }
  else
    (gate track target c).map fun k =>
      { ident := if !copy && target == .real sdt then .shares else .fresh, dt := target, const := k
        hasCreator := false, hasGrad := false, hasBase := false, extended := false }

/-- ```
copy = Tensor(np.copy(self.data), constant=(self.constant if constant is None else constant))
copy._grad = np.copy(self._grad) if self._grad is not None else None
``` -/
def copyFn (track : Bool) (sdt : DT) (ts : TState) (c : CArg) : Except Err Res :=
  (gate track (.real sdt) (if c == .none then (if ts.const then CArg.t else CArg.f) else c)).map fun k =>
    { ident := .fresh, dt := .real sdt, const := k, hasCreator := false, hasGrad := ts.ownGrad
      hasBase := false, extended := false }

/-! ### creation routines: default dtype when `dtype` is not passed (tensor_creation/funcs.py) -/

inductive Routine where
  | empty | ones | zeros            -- default `np.float32` (documented difference from NumPy)
  | eye | identity                  -- default `float`
  | full | arange | linspace | logspace | geomspace   -- `dtype=None` forwarded: NumPy infers
  | emptyLike | onesLike | zerosLike | fullLike       -- `dtype=None` forwarded: the prototype's dtype
  deriving DecidableEq, Repr, Inhabited

instance : Enum Routine :=
  ⟨[.empty, .ones, .zeros, .eye, .identity, .full, .arange, .linspace, .logspace, .geomspace,
    .emptyLike, .onesLike, .zerosLike, .fullLike], by intro x; cases x <;> decide⟩

/-- dtype MyGrad passes to the NumPy namesake when the caller gives none (`none` = NumPy infers) -/
def Routine.default : Routine → Option DT
  | .empty | .ones | .zeros => some .f32
  | .eye | .identity => some .f64
  | _ => none

/-- NumPy's own default for the namesake -/
def Routine.npDefault : Routine → Option DT
  | .empty | .ones | .zeros | .eye | .identity => some .f64
  | _ => none

/-- result dtype and constant flag of `routine(..., dtype=dtype, constant=c)`; `inferred` is the dtype
NumPy infers from the other arguments.  `_like` routines resolve `constant` from the prototype
(`_resolve_constant`): a constant-tensor or non-tensor prototype gives `constant=True`. -/
def Routine.isLike (r : Routine) : Bool :=
  r == .emptyLike || r == .onesLike || r == .zerosLike || r == .fullLike

def creationDt (r : Routine) (dtype : Option DTy) (inferred : DTy) : DTy :=
  match dtype with
  | some d => d
  | none => match r.default with
    | some d => .real d
    | none => inferred

def creationFn (track : Bool) (r : Routine) (dtype : Option DTy) (inferred : DTy) (c : CArg)
    (protoNonConstTensor : Bool) : Except Err (DTy × Bool) :=
  (gate track (creationDt r dtype inferred)
    (if r.isLike && c == .none && !protoNonConstTensor then CArg.t else c)).map fun k =>
      (creationDt r dtype inferred, k)

/-! ## Broadcasting of shapes (right-aligned; a dimension of 1 stretches) -/

def bdim (a b : Nat) : Option Nat :=
  if a = b then some a else if a = 1 then some b else if b = 1 then some a else none

/-- on reversed shapes (last axis first) -/
def bcastRev : List Nat → List Nat → Option (List Nat)
  | [], l => some l
  | l, [] => some l
  | a :: as, b :: bs =>
    match bdim a b, bcastRev as bs with
    | some d, some r => some (d :: r)
    | _, _ => none

def broadcast (a b : List Nat) : Option (List Nat) :=
  (bcastRev a.reverse b.reverse).map List.reverse

end MG.Dtype
