import MG.Core.Engine
/-!
# M4 — in-place operations: placeholders, `DuplicatingGraph`, `mirror_tensor`,
`reroute_ops_through`, `Tensor._in_place_op`

Mirrors `/repo/src/mygrad/_utils/duplicating_graph.py` and `Tensor._in_place_op`
(`tensor_base.py`) with graph tracking on.
-/

namespace MG.Eng
open MG.ND

/-- `mirror_tensor(target, source)`: the target *object* takes over the source's whole state -/
def mirror (h : Heap) (target source : Nat) : Heap := h.setT target (h.t source)

/-- `reroute_ops_through(target, source)`: every op listed in `source._ops` that has `source`
among its variables now has `target` there -/
def reroute (h : Heap) (target source : Nat) : Heap :=
  (h.t source).ops.foldl (fun h f =>
    let o := h.op f
    h.setOp f { o with vars := o.vars.map fun v => if v = source then target else v }) h

/-- `make_placeholder_tensor(original, base=…)`; fails with `AssertionError` when the original
holds a gradient -/
def makePlaceholder (h : Heap) (original : Nat) (base : Option Nat) : Except Err (Heap × Nat) :=
  if (h.t original).grad.isSome then .error .assertion
  else
    let (h, p) := h.fresh
    let h := mirror h p original
    let h := h.modT p ({ · with base := base })
    .ok (reroute h p original, p)

/-- the tensors a tensor object holds *strong* references to: the variables of its creator, and its base -/
def strongSucc (h : Heap) (t : Nat) : List Nat :=
  let tt := h.t t
  (match tt.creator with
    | some f => (h.op f).vars
    | none => []) ++
  (match tt.base with
    | some b => [b]
    | none => [])

/-- Tensors kept alive by strong references from the given roots (the tensors the program still
holds): `_creator` → `variables`, and `_base`.  `_view_children` and `_ops` are weak. -/
def liveSet (h : Heap) (roots : List Nat) : List Nat :=
  let rec go (fuel : Nat) (front : List Nat) (seen : List Nat) : List Nat :=
    match fuel with
    | 0 => seen
    | fuel + 1 =>
      match front with
      | [] => seen
      | t :: r =>
        if seen.contains t then go fuel r seen
        else go fuel (strongSucc h t ++ r) (t :: seen)
  go (4 * h.next + 8) roots []

/-- iteration over a `WeakRefIterable`: only living referents -/
def liveChildren (h : Heap) (live : List Nat) (t : Nat) : List Nat :=
  (h.t t).vchildren.filter live.contains

/-- `is_view_child(base, tensor)`: `tensor` is reachable from `base` through live recorded view children -/
def reachesViaViews (h : Heap) (live : List Nat) : Nat → Nat → Nat → Bool
  | 0, _, _ => false
  | fuel + 1, b, t => (liveChildren h live b).any fun c => c == t || reachesViaViews h live fuel c t

/-- the recorded (live) view children of `t` that still are views of `t`'s family; a child that was since
disconnected — it became its own base — is skipped by `_duplicate_graph` -/
def familyChildren (h : Heap) (live : List Nat) (t : Nat) : List Nat :=
  let root := ((h.t t).base).getD t
  (liveChildren h live t).filter fun c => (h.t c).base == some root

/-- a node of the duplicating graph -/
structure Node where
  tensor : Nat
  placeholder : Nat
  parent : Option Nat
  deriving Repr, Inhabited

/-- `DuplicatingGraph._duplicate_graph`: placeholders for all views downstream of `tensor` (DFS);
returns nodes in creation order.  A failure (a view that still holds a gradient makes
`make_placeholder_tensor` assert) happens *outside* the guarded region of `_in_place_op`: the heap as it is at
that moment — with the placeholders created so far already routed into the graph — is what remains. -/
def duplicate (fuel : Nat) (h : Heap) (live : List Nat) (basePh : Nat) (tensor : Nat)
    (nodes : List Node) : Except (Err × Heap) (Heap × List Node) :=
  match fuel with
  | 0 => .ok (h, nodes)
  | fuel + 1 =>
    let children := familyChildren h live tensor
    if children.isEmpty then .ok (h, nodes)
    else
      let r : Except (Err × Heap) (Heap × List Node) := children.foldlM (fun (acc : Heap × List Node) child =>
        -- child.null_grad(): a gradient of the pre-mutation view is discarded
        let h0 := acc.1.modT child ({ · with grad := none, viewGrad := none })
        match makePlaceholder h0 child (some basePh) with
        | .error e => Except.error (e, h0)
        | .ok (h, p) => duplicate fuel h live basePh child (acc.2 ++ [Node.mk child p (some tensor)])) (h, nodes)
      match r with
      | .error e => .error e
      | .ok (h, nodes) =>
        let phOf (t : Nat) : Nat := ((nodes.find? fun n => n.tensor = t).map (·.placeholder)).getD t
        let me := phOf tensor
        .ok (h.modT me ({ · with vchildren := children.map phOf }), nodes)

structure DupGraph where
  nodes : List Node               -- base first
  deriving Repr, Inhabited

def DupGraph.base (g : DupGraph) : Node := g.nodes.headD default
def DupGraph.node? (g : DupGraph) (t : Nat) : Option Node :=
  g.nodes.find? fun n => n.tensor = t ∨ n.placeholder = t
def DupGraph.placeholderIfExists (g : DupGraph) (t : Nat) : Nat :=
  match g.node? t with
  | some n => n.placeholder
  | none => t

/-- `DuplicatingGraph(base)` -/
def mkDupGraph (h : Heap) (live : List Nat) (base : Nat) : Except (Err × Heap) (Heap × DupGraph) :=
  -- base.null_grad()
  let h := h.modT base ({ · with grad := none, viewGrad := none })
  match makePlaceholder h base (h.t base).base with
  | .error e => .error (e, h)
  | .ok (h, p) =>
    match duplicate h.fuel h live p base [⟨base, p, none⟩] with
    | .error e => .error e
    | .ok (h, nodes) => .ok (h, ⟨nodes⟩)

/-- `__iter__`: DFS over the *placeholders'* view children, starting at the base placeholder -/
def DupGraph.dfs (g : DupGraph) (h : Heap) : List Node :=
  let rec go (fuel : Nat) (p : Nat) : List Node :=
    match fuel with
    | 0 => []
    | fuel + 1 =>
      match g.node? p with
      | none => []
      | some n => n :: (h.t p).vchildren.flatMap (go fuel)
  go h.fuel g.base.placeholder

/-- `get_path_to_base(tensor)`: `[leaf, parent, …, base]` -/
def DupGraph.pathToBase (g : DupGraph) (t : Nat) : List Node :=
  let rec go (fuel : Nat) (t : Nat) : List Node :=
    match fuel with
    | 0 => []
    | fuel + 1 =>
      match g.node? t with
      | none => []
      | some n => match n.parent with
        | none => [g.base]
        | some p => n :: go fuel p
  go (g.nodes.length + 1) t

/-- `restore_old_graph` -/
def DupGraph.restore (g : DupGraph) (h : Heap) : Heap :=
  (g.dfs h).foldl (fun h n =>
    let h := reroute h n.tensor n.placeholder
    if (h.t n.placeholder).base.isSome then h.modT n.tensor ({ · with base := some g.base.tensor }) else h) h

/-- the view function recorded in a tensor's creator (`_replay_op`'s op and arguments) -/
def replayFn (h : Heap) (t : Nat) : Option (ViewFn × Option Bool) :=
  match (h.t t).creator with
  | none => none
  | some f => match (h.op f).kind with
    | .view vf => some (vf, (h.op f).forceConst)
    | _ => none

/-- value to be written by an `out=` call (ufunc result, or SetItem's value), its target
positions inside the out window (logical, flat) and which of them are written -/
def outWrite (kind : Kind) (args : List Val) (outSh : Shape) (old : List Int)
    (whereMask : Option (Shape × List Bool)) : Except Err (List Int) :=
  match kind with
  | .setitem key =>
    match key.select outSh, args with
    | .ok (selSh, ps), [_, b] =>
      -- NumPy strips leading length-1 axes of the value when it has more axes than the selection
      let rec strip (sh : Shape) (k : Nat) : Shape :=
        match k, sh with
        | k + 1, 1 :: r => strip r k
        | _, sh => sh
      let bsh := strip b.1 (b.1.length - selSh.length)
      match broadcastVal (bsh, b.2) selSh with
      | .ok bv => .ok ((List.zip ps bv.2).foldl (fun acc (p, v) => acc.set p v) old)
      | .error _ => .error .valueError
    | .error e, _ => .error e
    | _, _ => .error .other
  | k =>
    match evalKind k args with
    | .error e => .error e
    | .ok v =>
      match broadcastVal v outSh with
      | .error _ => .error .valueError
      | .ok v =>
        match whereMask with
        | none => .ok v.2
        | some m => match broadcastMask m outSh with
          | .error _ => .error .valueError
          | .ok mk => .ok ((List.zip (List.zip v.2 old) mk).map fun ((n, o), k) => if k then n else o)

/-- `Tensor._op(Op, *inputs, out=<ndarray>)`: like `opStep` for a non-view result that is
written into the window `out` -/
def opStepOut (h : Heap) (kind : Kind) (inputs : List Operand) (constant : Option Bool)
    (whereMask : Option (Shape × List Bool)) (out : Arr) : Except Err (Heap × Nat) :=
  let (h, vars) := wrapOperands h inputs
  let userTensors := inputs.filterMap fun | .t i => some i | _ => none
  match outWrite kind (vars.map fun i => h.val (h.t i).data) out.d.shape (h.read out) whereMask with
  | .error e => .error e
  | .ok vals =>
    let h := h.write out vals
    let h := userTensors.foldl (fun h v =>
      let tv := h.t v
      let h := if tv.base.isSome ∧ tv.creator.isNone then h.modT v ({ · with base := none }) else h
      h.modT v ({ · with grad := none, viewGrad := none })) h
    let c : Bool := match constant with
      | some c => c
      | none => !(vars.any fun v => !(h.t v).const)
    let (h, f) := h.fresh
    let h := h.setOp f { kind := kind, vars := vars, whereMask := whereMask }
    let h := vars.foldl (fun h v => h.modT v fun t => { t with ops := f :: t.ops }) h
    let (h, o) := h.fresh
    .ok (h.setT o { data := out, const := c, creator := some f }, o)

/-- attach the heap at the point of failure to an error -/
def withHeap {α} (h : Heap) : Except Err α → Except (Err × Heap) α
  | .ok a => .ok a
  | .error e => .error (e, h)

/-- `_op(UnView, base_placeholder, mutant_view, mutant_base_data=…, view_fn_sequence=…)` -/
def opStepUnview (h : Heap) (basePh pmv : Nat) (chain : List ViewFn) (mutArr : Arr) : Heap × Nat :=
  let vars := [basePh, pmv]
  let h := vars.foldl (fun h v =>
    let tv := h.t v
    let h := if tv.base.isSome ∧ tv.creator.isNone then h.modT v ({ · with base := none }) else h
    h.modT v ({ · with grad := none, viewGrad := none })) h
  let c : Bool := !(vars.any fun v => !(h.t v).const)
  let (h, f) := h.fresh
  let h := h.setOp f { kind := .unview chain mutArr.d.strides, vars := vars }
  let h := vars.foldl (fun h v => h.modT v fun t => { t with ops := f :: t.ops }) h
  let (h, o) := h.fresh
  (h.setT o { data := mutArr, const := c, creator := some f }, o)

/-- re-create every view of the mutated base, parents before children, and mirror each into the
public tensor object it replaces -/
def recreateViews (h : Heap) (nodes : List Node) : Except (Err × Heap) Heap :=
  nodes.foldlM (fun h n =>
    match n.parent with
    | none => .ok h
    | some parent =>
      match replayFn h n.tensor with
      | none =>
        -- a stale view child whose creator is no longer a view op (it was itself the target of an in-place
        -- update after its base's graph had been cleared): `_replay_op` then re-applies that non-view op
        .error (if (h.t n.tensor).creator.isSome then .unmodelled else .other, h)
      | some (vf, fc) =>
        match opStep h (.view vf) [.t parent] fc with
        | .error e => .error (e, h)
        | .ok (h, view) =>
          let h := mirror h n.tensor view
          -- the temporary `view` object dies: drop it from the weak containers
          let h := h.modT parent fun t =>
            { t with vchildren := (t.vchildren.filter (· ≠ view)) ++ [n.tensor] }
          .ok { h with tens := h.tens.filter fun p => p.1 ≠ view }) h

/-- `np.broadcast_to` (its result is read-only) -/
def ViewFn.isBroadcastTo : ViewFn → Bool
  | .broadcastTo _ => true
  | _ => false

/-- the bookkeeping `_in_place_op` does on `self` before the graph is duplicated:
`self.null_grad(_clear_view_info=True)`, then the disconnected-view rule -/
def inPlacePrelude (h : Heap) (live : List Nat) (self : Nat) : Heap :=
  -- self.null_grad(_clear_view_info=True)
  let h := h.modT self fun t =>
    { t with grad := none, viewGrad := none,
             base := if t.base.isSome ∧ t.creator.isNone then none else t.base }
  -- if self._base is not None and not is_view_child(base=self._base, tensor=self): self._base = None
  match (h.t self).base with
  | some b => if (reachesViaViews h live h.fuel b self) then h else h.modT self ({ · with base := none })
  | none => h

/-- the window of the copied base that the in-place target occupies: walk base → `self`, replaying the
placeholders' view ops on the copy -/
def inPlaceTarget (h : Heap) (g : DupGraph) (self : Nat) (mutArr : Arr) : Except Err (Arr × List ViewFn) :=
  let path := (g.pathToBase self).reverse.drop 1
  path.foldlM (fun (acc : Arr × List ViewFn) n =>
    match replayFn h n.placeholder with
    | none => .error (if (h.t n.placeholder).creator.isSome then .unmodelled else .other)  -- DisconnectedView
    | some (vf, _) =>
      match vf.apply acc.1.d with
      | .error e => .error e
      | .ok (d', true) => .ok (⟨acc.1.buf, d'⟩, acc.2 ++ [vf])
      | .ok (_, false) => .error .assertion)     -- replay on the copy did not give a view
    (mutArr, [])

/-- everything `_in_place_op` does once the placeholder graph `g` exists -/
def inPlaceMutate (h : Heap) (g : DupGraph) (self : Nat) (selfIsBase : Bool) (kind : Kind)
    (inputs : List Operand) (constant : Option Bool) (whereMask : Option (Shape × List Bool)) :
    Except (Err × Heap) Heap := do
  -- mutant_base = graph.base.tensor.copy()
  let bt := h.t g.base.tensor
  let (h, mutArr) := h.copyArrK bt.data
  let mutConst := bt.const
  -- `graph.get_path_to_base(self)` raises KeyError when `self` is not in the graph
  if (g.node? self).isNone then throw (.other, h)
  let (target, chain) ← withHeap h (inPlaceTarget h g self mutArr)
  -- `np.broadcast_to` yields a read-only view, and the copy of a natively read-only base is made read-only
  -- (`mutant_base.data.flags.writeable = base.data.flags.writeable or …`): writing raises inside the guarded call
  if chain.any ViewFn.isBroadcastTo || h.ro.contains bt.data.buf then
    throw (.valueError, g.restore h)
  let inputs' := inputs.map fun
    | .t i => Operand.t (g.placeholderIfExists i)
    | x => x
  -- the guarded call: on failure the old graph is restored
  let (h, pmv) ← match opStepOut h kind inputs' constant whereMask target with
    | .error e => .error (e, g.restore h)
    | .ok r => pure r
  let h := h.modT pmv ({ · with const := mutConst })
  -- ApplyMask for `where=`
  let (h, pmv) ← match whereMask with
    | none => pure (h, pmv)
    | some m =>
      match g.node? self with
      | none => .error (.other, h)
      | some ns => withHeap h (opStep h (.applyMask m) [.t pmv, .t ns.placeholder])
  -- connect the public base to the placeholder graph
  let (h, mutantBase) :=
    if selfIsBase then (h, pmv) else opStepUnview h g.base.placeholder pmv chain mutArr
  let h := mirror h g.base.tensor mutantBase
  let h := { h with tens := h.tens.filter fun p => p.1 ≠ mutantBase }
  recreateViews h (g.dfs h)

/-- `Tensor._in_place_op(Op, *inputs, constant=…)` with tracking on.  An error carries the heap
as the failed call leaves it. -/
def inPlaceOp (h : Heap) (roots : List Nat) (self : Nat) (kind : Kind) (inputs : List Operand)
    (constant : Option Bool := none) (whereMask : Option (Shape × List Bool) := none) :
    Except (Err × Heap) Heap := do
  let live := liveSet h roots
  let h := inPlacePrelude h live self
  let selfIsBase := (h.t self).base.isNone
  let baseId := ((h.t self).base).getD self
  let (h, g) ← mkDupGraph h live baseId
  inPlaceMutate h g self selfIsBase kind inputs constant whereMask

end MG.Eng
