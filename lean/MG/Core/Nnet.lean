/-!
# M9 — `sliding_window_view`, `conv_nd`, `max_pool`: guards, shapes, strides, values

Model of `mygrad/nnet/layers/utils.py` (`sliding_window_view`), `conv.py` (`conv_nd`, `ConvND.__call__`)
and `pooling.py` (`MaxPoolND.__call__`) *as the code is*.

Conventions.
* All quantities are `Int` (the code computes with Python/NumPy integers; a negative or zero window,
  step, dilation or padding is an input the guards must reject).
* The model is *per windowed axis*: `window_shape`, `step`, `dilation` (and `padding`) are given as
  one record per trailing axis, i.e. the argument sequences have equal length `k` and `k ≤ arr.ndim`
  by construction.  Scalars (`step=2`, `dilation=None`) are expanded to length-`k` sequences exactly as
  lines 146-148, 172-176 of utils.py do; with `dilation=None` the `w*d > x` guard is skipped by the code,
  which is equivalent because then `d = 1` and `w > x` was already rejected.
  `swvSeq` is the sequence-level front end: it mirrors the guards on the *lengths* of `window_shape`,
  `step`, `dilation` (l.134, l.150-152, l.182-184) and then hands per-axis records to `swv`.
* Strides are in *elements*: the code multiplies every element stride by `nbyte = arr.itemsize`
  (l.206, since commit e458ff4; before, `arr.strides[-1]` was used, which is not the item size for arrays
  such as `a[:, None]` or `row.T` that NumPy nevertheless flags C-contiguous).
* Memory is a flat function `Mem := Int → Int` (element offset ↦ value); the element `arr[idx]` of a
  C-contiguous array of shape `sh` is `mem (dot idx (cstrides sh))`; the element `v[idx]` of an
  `as_strided` view is `mem (dot idx v.strides)`.

Import-free, total, executable (run by `MG/Driver.lean` against the implementation).
-/

namespace MG.Nnet

/-- exception classes the modelled code raises -/
inductive Err where
  | typeError | valueError | assertionError | indexError
  deriving DecidableEq, Repr, Inhabited

def Err.name : Err → String
  | .typeError => "TypeError"
  | .valueError => "ValueError"
  | .assertionError => "AssertionError"
  | .indexError => "IndexError"

/-- one windowed (trailing) axis of `sliding_window_view`: axis size, window, step, dilation -/
structure Ax where
  x : Int
  w : Int
  s : Int
  d : Int
  deriving DecidableEq, Repr, Inhabited

/-- what `as_strided(arr, shape=…, strides=…, writeable=False)` is called with -/
structure View where
  shape : List Int
  strides : List Int
  writeable : Bool
  deriving DecidableEq, Repr, Inhabited

def prod : List Int → Int
  | [] => 1
  | x :: xs => x * prod xs

/-- element strides of a C-contiguous array: `tuple(np.cumprod(arr.shape[:0:-1])[::-1]) + (1,)` (l.207) -/
def cstrides : List Int → List Int
  | [] => []
  | _ :: xs => prod xs :: cstrides xs

/-- Σ idx[i] * strides[i] — the element offset addressed by a multi-index -/
def dot : List Int → List Int → Int
  | i :: is, s :: ss => i * s + dot is ss
  | _, _ => 0

/-- extent of a dilated window: `(w - 1) * d + 1` -/
def ext (w d : Int) : Int := (w - 1) * d + 1

/-- number of window placements along one axis (l.222): `(x - ((w - 1) * d + 1)) // s + 1` -/
def grid (a : Ax) : Int := (a.x - ext a.w a.d) / a.s + 1

/-- the guards of `sliding_window_view` in the order the code evaluates them; `none` = all pass.
l.128 `TypeError` (window not positive), l.150 `ValueError` (step), l.156 (window > axis),
l.180 (dilation not positive), l.188 (`w * d > x`).  With no windowed axis at all the code fails
later: `arr.strides[-1]` raises `IndexError` for a 0-d array (l.204), otherwise NumPy refuses
`win_stride[-0:] *= dilation` / `win_stride[-0:] * step` with a broadcasting `ValueError` (l.210/214). -/
def swvGuard (batch : List Int) (axes : List Ax) : Option Err :=
  if !(axes.all fun a => decide (0 < a.w)) then some .typeError
  else if !(axes.all fun a => decide (0 < a.s)) then some .valueError
  else if axes.any (fun a => decide (a.x < a.w)) then some .valueError
  else if !(axes.all fun a => decide (0 < a.d)) then some .valueError
  else if axes.any (fun a => decide (a.x < a.w * a.d)) then some .valueError
  else if axes.isEmpty then (if batch.isEmpty then some .indexError else some .valueError)
  else none

/-- `sliding_window_view(arr, window, step, dilation)` for `arr.shape = batch ++ axes.map x`:
the shape and strides handed to `as_strided` (l.201-228). -/
def swv (batch : List Int) (axes : List Ax) : Except Err View :=
  match swvGuard batch axes with
  | some e => .error e
  | none =>
    let cs := cstrides (batch ++ axes.map (·.x))          -- win_stride (l.207)
    let front := cs.take batch.length
    let sc := cs.drop batch.length                        -- win_stride[-len(step):]
    let stepStride := List.zipWith (· * ·) sc (axes.map (·.s))              -- l.210
    let winStride := front ++ List.zipWith (· * ·) sc (axes.map (·.d))      -- l.213-215
    .ok { shape := axes.map grid ++ batch ++ axes.map (·.w)                 -- l.222-226
          strides := stepStride ++ winStride                                -- l.221 (× itemsize)
          writeable := false }

/-- position along each windowed axis addressed by grid index `g` and in-window index `k`:
`g * step + k * dilation` -/
def pos : List Int → List Int → List Ax → List Int
  | g :: gs, k :: ks, a :: as => (g * a.s + k * a.d) :: pos gs ks as
  | _, _, _ => []

/-- per-axis records from the trailing axis sizes and the three argument sequences -/
def mkAxes : List Int → List Int → List Int → List Int → List Ax
  | x :: xs, w :: ws, s :: ss, d :: ds => ⟨x, w, s, d⟩ :: mkAxes xs ws ss ds
  | _, _, _, _ => []

/-- `sliding_window_view(arr, window_shape, step, dilation)` on argument *sequences* (`step` an int is the
sequence `(step,)*k`, `dilation=None` is `none`): the guards on the lengths, then `swv`.
l.128 `TypeError` for a non-positive window entry comes first; l.134 `len(window_shape) > arr.ndim`,
l.150-152 `len(step) != len(window_shape)` and l.182-184 `len(dilation) != len(window_shape)` are all
`ValueError`s, as is every later guard, so their relative order is not observable. -/
def swvSeq (shape window step : List Int) (dil : Option (List Int)) : Except Err View :=
  if !(window.all fun w => decide (0 < w)) then .error .typeError
  else if shape.length < window.length then .error .valueError
  else if step.length ≠ window.length then .error .valueError
  else if (dil.getD (window.map fun _ => 1)).length ≠ window.length then .error .valueError
  else
    swv (shape.take (shape.length - window.length))
      (mkAxes (shape.drop (shape.length - window.length)) window step (dil.getD (window.map fun _ => 1)))

/-! ## memory, multi-indices -/

abbrev Mem := Int → Int

/-- element `arr[idx]` of a C-contiguous array of shape `sh` stored at offset 0 of `mem` -/
def arrGet (mem : Mem) (sh idx : List Int) : Int := mem (dot idx (cstrides sh))

/-- element `v[idx]` of an `as_strided` view -/
def viewGet (mem : Mem) (v : View) (idx : List Int) : Int := mem (dot idx v.strides)

/-- all multi-indices of a shape in C order -/
def indices : List Int → List (List Int)
  | [] => [[]]
  | n :: ns => (List.range n.toNat).flatMap fun (i : Nat) => (indices ns).map ((i : Int) :: ·)

/-- maximum of a non-empty list (`0` for the empty list, which no accepted configuration produces) -/
def maxL : List Int → Int
  | [] => 0
  | x :: xs => xs.foldl max x

/-- a flat row-major buffer as memory -/
def memOf (buf : List Int) : Mem := fun off => if 0 ≤ off then buf.getD off.toNat 0 else 0

/-- does a view address an offset outside `[0, size)`?  (executable; the theorem `swv_in_bounds`
says an accepted view never does) -/
def viewOOB (v : View) (size : Int) : Bool :=
  (indices v.shape).any fun idx => let o := dot idx v.strides; decide (o < 0) || decide (size ≤ o)

/-! ## `conv_nd` -/

/-- one convolved axis: data size, filter size, stride, padding, dilation -/
structure CAx where
  x : Int
  w : Int
  s : Int
  p : Int
  d : Int
  deriving DecidableEq, Repr, Inhabited

/-- the axis as `sliding_window_view` sees it after symmetric zero padding -/
def CAx.padded (a : CAx) : Ax := ⟨a.x + 2 * a.p, a.w, a.s, a.d⟩

/-- `out_shape = (x + 2p - ((w-1)d + 1)) / s + 1` must be an integer and `> 0` (conv.py l.63-67) -/
def CAx.tiles (a : CAx) : Bool :=
  decide ((a.x + 2 * a.p - ext a.w a.d) % a.s = 0) && decide (0 < (a.x + 2 * a.p - ext a.w a.d) / a.s + 1)

/-- guards of `conv_nd` (l.373-387: `ValueError`s) and `ConvND.__call__` (l.41-61 `assert`s, l.67 `ValueError`)
in code order, for `x.shape = (n, c, x₀…)`, `w.shape = (f, cw, w₀…)`. -/
def convGuard (c cw : Int) (axes : List CAx) : Option Err :=
  if axes.isEmpty then some .valueError                       -- x.ndim < 3
  else if c ≠ cw then some .valueError
  else if !(axes.all fun a => decide (1 ≤ a.d)) then some .assertionError
  else if !(axes.all fun a => decide (0 ≤ a.p)) then some .assertionError
  else if !(axes.all fun a => decide (1 ≤ a.s)) then some .assertionError
  else if !(axes.all CAx.tiles) then some .valueError
  else none

def sumL : List Int → Int
  | [] => 0
  | x :: xs => x + sumL xs

/-- the windowed view `conv_nd` contracts over (l.86): `sliding_window_view(pad(x), w_shape, stride, dilation)` -/
def convView (n c cw : Int) (axes : List CAx) : Except Err View :=
  match convGuard c cw axes with
  | some e => .error e
  | none => swv [n, c] (axes.map CAx.padded)

/-- shape of the padded data -/
def convPShape (n c : Int) (axes : List CAx) : List Int := [n, c] ++ axes.map fun a => a.x + 2 * a.p

/-- shape of the result: `(N, F, G0, …)` -/
def convOutShape (n f : Int) (axes : List CAx) : List Int := [n, f] ++ axes.map fun a => grid a.padded

/-- `np.tensordot(w, windowed, axes=[[1..k+1],[k+1..2k+1]])` at index `(f, g…, n)` (l.97):
contraction of the filter bank with the window view over `(C, W0, …)`.
`xmem` holds the padded data, `wmem` the C-contiguous filter bank of shape `(F, c, ws…)`. -/
def convTdot (xmem : Mem) (v : View) (wmem : Mem) (c : Int) (ws : List Int)
    (f : Int) (g : List Int) (n : Int) : Int :=
  sumL ((indices (c :: ws)).map fun ck =>
    wmem (dot (f :: ck) (cstrides (f :: c :: ws))) * viewGet xmem v (g ++ n :: ck))

/-- `np.moveaxis(conv_out, -1, 0)` (l.102): `(F, G…, N) → (N, F, G…)` -/
def convImplGet (xmem : Mem) (v : View) (wmem : Mem) (c : Int) (ws : List Int) : List Int → Int
  | n :: f :: g => convTdot xmem v wmem c ws f g n
  | _ => 0

/-- the documented formula, naively: `out[n,f,g…] = Σ_{c,k…} w[f,c,k…] · xpad[n,c,g·s+k·d …]` -/
def convNaiveGet (xmem : Mem) (n c : Int) (axes : List CAx) (wmem : Mem) (ws : List Int) : List Int → Int
  | n' :: f :: g =>
    sumL ((indices (c :: ws)).map fun ck =>
      match ck with
      | c' :: k =>
        wmem (dot (f :: ck) (cstrides (f :: c :: ws))) *
          arrGet xmem (convPShape n c axes) (n' :: c' :: pos g k (axes.map CAx.padded))
      | [] => 0)
  | _ => 0

/-- zero-padded data as a flat buffer (`np.pad(x, ((0,0),(0,0),(p,p)…))`; executable, for the driver) -/
def padBuf (n c : Int) (axes : List CAx) (xbuf : List Int) : List Int :=
  let xsh := [n, c] ++ axes.map (·.x)
  let pads := [0, 0] ++ axes.map (·.p)
  (indices (convPShape n c axes)).map fun idx =>
    let src := List.zipWith (· - ·) idx pads
    if (List.zip src xsh).all (fun (i, m) => decide (0 ≤ i) && decide (i < m)) then
      memOf xbuf (dot src (cstrides xsh)) else 0

/-- `conv_nd` on integer data: result shape and row-major values, computed as the code does -/
def convImpl (n c cw f : Int) (axes : List CAx) (xbuf wbuf : List Int) :
    Except Err (List Int × List Int) :=
  match convView n c cw axes with
  | .error e => .error e
  | .ok v =>
    let xmem := memOf (if sumL (axes.map (·.p)) = 0 then xbuf else padBuf n c axes xbuf)
    let ws := axes.map (·.w)
    .ok (convOutShape n f axes,
         (indices (convOutShape n f axes)).map (convImplGet xmem v (memOf wbuf) c ws))

/-- the naive evaluation over the same domain (rejects exactly when `convView` does) -/
def convNaive (n c cw f : Int) (axes : List CAx) (xbuf wbuf : List Int) :
    Except Err (List Int × List Int) :=
  match convView n c cw axes with
  | .error e => .error e
  | .ok _ =>
    let xmem := memOf (if sumL (axes.map (·.p)) = 0 then xbuf else padBuf n c axes xbuf)
    let ws := axes.map (·.w)
    .ok (convOutShape n f axes,
         (indices (convOutShape n f axes)).map (convNaiveGet xmem n c axes (memOf wbuf) ws))

/-! ## `max_pool` -/

/-- one pooled axis: data size, pool size, stride -/
structure PAx where
  x : Int
  w : Int
  s : Int
  deriving DecidableEq, Repr, Inhabited

def PAx.toAx (a : PAx) : Ax := ⟨a.x, a.w, a.s, 1⟩

/-- `out_shape = (x - w) / s + 1` must be an integer and `> 0` (pooling.py l.79-81) -/
def PAx.tiles (a : PAx) : Bool :=
  decide ((a.x - a.w) % a.s = 0) && decide (0 < (a.x - a.w) / a.s + 1)

/-- guards of `MaxPoolND.__call__`: l.52-56 `assert`s on `pool`, l.66 `assert` on `stride`, l.81 `ValueError` -/
def poolGuard (axes : List PAx) : Option Err :=
  if !(axes.all fun a => decide (0 < a.w)) then some .assertionError
  else if !(axes.all fun a => decide (1 ≤ a.s)) then some .assertionError
  else if !(axes.all PAx.tiles) then some .valueError
  else none

/-- the windowed view `max_pool` reduces (l.93): `sliding_window_view(x, pool, stride)` -/
def poolView (batch : List Int) (axes : List PAx) : Except Err View :=
  match poolGuard axes with
  | some e => .error e
  | none => swv batch (axes.map PAx.toAx)

def poolOutShape (batch : List Int) (axes : List PAx) : List Int :=
  batch ++ axes.map fun a => grid a.toAx

/-- `.max(axis=pool_axes)` of the window view at index `(g…, n…)` -/
def poolMaxed (mem : Mem) (v : View) (ws : List Int) (g nidx : List Int) : Int :=
  maxL ((indices ws).map fun k => viewGet mem v (g ++ nidx ++ k))

/-- `maxed.transpose(axes[-num_no_pool:] + axes[:-num_no_pool])` (l.97): `(G…, N…) → (N…, G…)` -/
def poolImplGet (mem : Mem) (v : View) (nBatch : Nat) (ws : List Int) (idx : List Int) : Int :=
  poolMaxed mem v ws (idx.drop nBatch) (idx.take nBatch)

/-- the documented formula, naively: `out[n…, g…] = max_k x[n…, g·s + k]` -/
def poolNaiveGet (mem : Mem) (batch : List Int) (axes : List PAx) (idx : List Int) : Int :=
  maxL ((indices (axes.map (·.w))).map fun k =>
    arrGet mem (batch ++ axes.map (·.x))
      (idx.take batch.length ++ pos (idx.drop batch.length) k (axes.map PAx.toAx)))

def maxPoolImpl (batch : List Int) (axes : List PAx) (buf : List Int) :
    Except Err (List Int × List Int) :=
  match poolView batch axes with
  | .error e => .error e
  | .ok v =>
    .ok (poolOutShape batch axes,
         (indices (poolOutShape batch axes)).map
           (poolImplGet (memOf buf) v batch.length (axes.map (·.w))))

def maxPoolNaive (batch : List Int) (axes : List PAx) (buf : List Int) :
    Except Err (List Int × List Int) :=
  match poolView batch axes with
  | .error e => .error e
  | .ok _ =>
    .ok (poolOutShape batch axes,
         (indices (poolOutShape batch axes)).map (poolNaiveGet (memOf buf) batch axes))

/-- values of the window view itself, row-major (for the correspondence on `sliding_window_view`) -/
def swvValues (batch : List Int) (axes : List Ax) (buf : List Int) :
    Except Err (View × List Int) :=
  match swv batch axes with
  | .error e => .error e
  | .ok v => .ok (v, (indices v.shape).map (viewGet (memOf buf) v))

end MG.Nnet
