/-!
# M5 — the memory guard: `mygrad/_utils/lock_management.py` over a small NumPy heap

Import-free, total and executable.  Mirrors the code *as it is*:

* `_array_counter`  (`Counter`: array id ↦ number of live ops holding a lock; missing key reads 0),
* `_array_tracker`  (array id ↦ weak reference to the locked array),
* `_views_waiting_for_unlock` (`defaultdict(set)`: base id ↦ ids of views that wait for the base),
* `array_is_tracked`, `lock_arr_writeability` (with `force_lock`), `unique_arrs_and_bases`,
  `_release_lock_on_arr_writeability`, `release_writeability_lock_on_op` (iterates *live* refs only),
  `force_lock_tensor_and_creators`,
* the way `Tensor._op` uses them (`tensor_base.py`): lock the inputs bases-first, run the op, lock the
  output (and an `out=` target's base), register `weakref.finalize(f, release…, refs)`; release on exception.

The three tables are keyed by the *array id* (`id(arr)`, an address that CPython re-uses once the array is
dead), whereas weak references and `arr.base` refer to *objects*.  The heap therefore keeps objects in a
list (object index = creation index, never re-used) and every object carries its id `aid`.

NumPy's rule (M2) used by the protocol: `arr.flags.writeable = True` on a non-owning array is refused
(`ValueError`) while its base is read-only.
-/

namespace MG.Lock

/-! ## finite maps as association lists -/

abbrev Tab (α : Type) := List (Nat × α)

def lookup {α : Type} (k : Nat) : Tab α → Option α
  | [] => none
  | (k', v) :: m => if k' = k then some v else lookup k m

def erase {α : Type} (k : Nat) : Tab α → Tab α
  | [] => []
  | (k', v) :: m => if k' = k then erase k m else (k', v) :: erase k m

def insert {α : Type} (k : Nat) (v : α) (m : Tab α) : Tab α := (k, v) :: erase k m

/-- `Counter.__getitem__` : a missing key reads 0 (and is not inserted) -/
def cget (m : Tab Nat) (k : Nat) : Nat := (lookup k m).getD 0

/-- the set stored under a key of the `defaultdict(set)`, `∅` when the key is absent -/
def wget (m : Tab (List Nat)) (k : Nat) : List Nat := (lookup k m).getD []

/-- `waiting[k].add(v)` (creates the key) -/
def wadd (k v : Nat) (m : Tab (List Nat)) : Tab (List Nat) :=
  if (wget m k).contains v then insert k (wget m k) m else insert k (wget m k ++ [v]) m

/-- `waiting[k].remove(v)` (the key stays) -/
def wremove (k v : Nat) (m : Tab (List Nat)) : Tab (List Nat) :=
  insert k ((wget m k).filter (· != v)) m

/-! ## the heap -/

/-- A NumPy array object.  `orig` and `entered` are *ghost* fields (never read by the protocol):
`orig` is the flag the array would have had if MyGrad had never locked anything (a view inherits it from
the array it is taken from — the brief's convention for views taken while the owner is locked), `entered`
records that `lock_arr_writeability` has counted the array at least once. -/
structure Arr where
  aid : Nat
  base : Option Nat
  writeable : Bool
  alive : Bool
  orig : Bool
  entered : Bool
  deriving DecidableEq, Repr, Inhabited

structure State where
  arrs : List Arr
  counter : Tab Nat
  tracker : Tab Nat
  waiting : Tab (List Nat)
  /-- the `refs` (`WeakRefIterable`) of every registered, not yet run finalizer (plus ops still executing) -/
  holds : List (List Nat)
  deriving Repr, Inhabited

def init : State := ⟨[], [], [], [], []⟩

def isAlive (s : State) (o : Nat) : Bool :=
  match s.arrs[o]? with
  | some a => a.alive
  | none => false

def wOf (s : State) (o : Nat) : Bool :=
  match s.arrs[o]? with
  | some a => a.writeable
  | none => false

def aidOf (s : State) (o : Nat) : Nat :=
  match s.arrs[o]? with
  | some a => a.aid
  | none => 0

def modArr (s : State) (o : Nat) (f : Arr → Arr) : State :=
  { s with arrs := s.arrs.modify o f }

/-- `array_is_tracked(arr)`: `id(arr) in _array_tracker and _array_tracker[id(arr)]() is not None` -/
def isTracked (s : State) (o : Nat) : Bool :=
  match s.arrs[o]? with
  | none => false
  | some a =>
    match lookup a.aid s.tracker with
    | none => false
    | some t => isAlive s t

/-- `arr.flags.writeable = True` under NumPy's rule; a refused assignment (`ValueError`) leaves the
state unchanged (the only call site that can be refused swallows the exception). -/
def trySetWriteable (s : State) (o : Nat) : State :=
  match s.arrs[o]? with
  | none => s
  | some a =>
    match a.base with
    | none => modArr s o (fun a => { a with writeable := true })
    | some b => if wOf s b then modArr s o (fun a => { a with writeable := true }) else s

/-- `lock_arr_writeability(arr, force_lock)` -/
def lock (s : State) (o : Nat) (force : Bool) : State :=
  match s.arrs[o]? with
  | none => s
  | some a =>
    let tr := isTracked s o
    let baseUntracked := match a.base with
      | none => true
      | some b => !isTracked s b
    if !tr && !force && !a.writeable && baseUntracked then
      s   -- natively read-only: don't do anything
    else
      let s1 : State :=
        if tr then { s with counter := insert a.aid (cget s.counter a.aid + 1) s.counter }
        else { s with tracker := insert a.aid o s.tracker, counter := insert a.aid 1 s.counter }
      modArr s1 o (fun a => { a with writeable := false, entered := true })

/-- the loop `for view_arr_id in tuple(_views_waiting_for_unlock[arr_id])` of the release function -/
def unlockViews (bid : Nat) : List Nat → State → State
  | [], s => s
  | v :: vs, s =>
    if 0 < cget s.counter v then unlockViews bid vs s   -- view involved in new op
    else
      let s1 : State := { s with waiting := wremove bid v s.waiting }
      match lookup v s1.tracker with
      | none => unlockViews bid vs s1                      -- KeyError
      | some t =>
        let s2 : State := { s1 with tracker := erase v s1.tracker }
        if isAlive s2 t then unlockViews bid vs (trySetWriteable s2 t)
        else unlockViews bid vs s2                        -- dead weak reference

/-- the branch "we no longer need to track the array": `arr.flags.writeable = True`, drop the tracker
entry, and clear `_views_waiting_for_unlock` when nothing is tracked any more -/
def unlockSelf (s : State) (o : Nat) (a : Arr) : State :=
  let s2 := trySetWriteable s o
  let s3 : State := { s2 with tracker := erase a.aid s2.tracker }
  if s3.tracker.isEmpty && !s3.waiting.isEmpty then { s3 with waiting := [] } else s3

/-- first half of `_release_lock_on_arr_writeability`: the counter and the array's own flag -/
def releaseSelf (s : State) (o : Nat) (a : Arr) : State :=
  let n := cget s.counter a.aid
  if n = 1 then
    let s' : State := { s with counter := erase a.aid s.counter }
    match a.base with
    | none => unlockSelf s' o a
    | some b =>
      if wOf s' b then unlockSelf s' o a
      else { s' with waiting := wadd (aidOf s' b) a.aid s'.waiting }   -- view waits for its base
  else if 1 < n then { s with counter := insert a.aid (n - 1) s.counter }
  else s

/-- `_release_lock_on_arr_writeability(arr)` -/
def release (s : State) (o : Nat) : State :=
  match s.arrs[o]? with
  | none => s
  | some a =>
    let s1 := releaseSelf s o a
    if a.base.isNone && wOf s1 o && (lookup a.aid s1.waiting).isSome then
      let s2 := unlockViews a.aid (wget s1.waiting a.aid) s1
      if (wget s2.waiting a.aid).isEmpty then { s2 with waiting := erase a.aid s2.waiting } else s2
    else s1

/-- `release_writeability_lock_on_op(arr_refs)`: iterating a `WeakRefIterable` yields live referents only -/
def releaseOnOp : List Nat → State → State
  | [], s => s
  | o :: os, s => if isAlive s o then releaseOnOp os (release s o) else releaseOnOp os s

/-- `unique_arrs_and_bases(tensors)` on the tensors' data arrays: unique by id, a base before its view -/
def uniqAux (s : State) : List Nat → List Nat → List Nat
  | [], _ => []
  | o :: os, seen =>
    match s.arrs[o]? with
    | none => uniqAux s os seen
    | some a =>
      if seen.contains a.aid then uniqAux s os seen
      else
        match a.base with
        | none => o :: uniqAux s os (a.aid :: seen)
        | some b =>
          if seen.contains (aidOf s b) then o :: uniqAux s os (a.aid :: seen)
          else b :: o :: uniqAux s os (a.aid :: aidOf s b :: seen)

def uniqueArrsAndBases (s : State) (ins : List Nat) : List Nat := uniqAux s ins []

def lockAll : List Nat → State → State
  | [], s => s
  | o :: os, s => lockAll os (lock s o false)

/-- `lock_arr_writeability(tensor.data, force_lock=True)` of `force_lock_tensor_and_creators` -/
def lockForced (s : State) : Option Nat → State
  | none => s
  | some o => lock s o true

/-! ## events -/

inductive Event where
  /-- a new array object appears at address `aid` (an `idReused` event when `aid` belonged to a dead
  array).  `base` is the owner of its memory; `w` its flag, `orig` the ghost original flag. -/
  | newArr (aid : Nat) (base : Option Nat) (w orig : Bool)
  /-- `Tensor._op` / `force_lock_tensor_and_creators`: lock `unique_arrs_and_bases(ins)`; the op now holds them -/
  | opCreated (ins : List Nat)
  /-- `lock(out.base)?; lock(out)` resp. `lock(tensor.data, force_lock=True)`, appended to the refs of
  hold `k`; then `finalize(f, release…, refs)` -/
  | opExtend (k : Nat) (outs : List Nat) (forced : Option Nat)
  /-- the finalizer of hold `k` runs (op garbage-collected, graph cleared, or the op raised) -/
  | opFinalized (k : Nat)
  | arrayDied (o : Nat)
  deriving Repr, DecidableEq

def aidInUse (s : State) (aid : Nat) : Bool := s.arrs.any (fun a => a.alive && a.aid == aid)

def hasAliveView (s : State) (o : Nat) : Bool := s.arrs.any (fun a => a.alive && a.base == some o)

/-- one event; `none` = the event is physically impossible in that state (dead or unknown operands,
address in use, a base that does not own its memory, an owner born with a flag other than its own, …) -/
def step (s : State) : Event → Option State
  | .newArr aid base w orig =>
    let baseOk := match base with
      | none => w == orig
      | some b => isAlive s b && (match s.arrs[b]? with | some ba => ba.base.isNone | none => false)
    if !aidInUse s aid && baseOk && (orig || !w) then
      some { s with arrs := s.arrs ++ [⟨aid, base, w, true, orig, false⟩] }
    else none
  | .opCreated ins =>
    if ins.all (isAlive s) then
      let u := uniqueArrsAndBases s ins
      let s1 := lockAll u s
      some { s1 with holds := s1.holds ++ [u] }
    else none
  | .opExtend k outs forced =>
    match s.holds[k]? with
    | none => none
    | some h =>
      if (outs ++ forced.toList).all (isAlive s) then
        let s1 := lockForced (lockAll outs s) forced
        some { s1 with holds := s1.holds.set k (h ++ (outs ++ forced.toList)) }
      else none
  | .opFinalized k =>
    match s.holds[k]? with
    | none => none
    | some h => some (releaseOnOp h { s with holds := s.holds.eraseIdx k })
  | .arrayDied o =>
    if isAlive s o && !hasAliveView s o then some (modArr s o (fun a => { a with alive := false }))
    else none

def run (s : State) : List Event → Option State
  | [] => some s
  | e :: es =>
    match step s e with
    | none => none
    | some s' => run s' es

/-! ## named hypotheses about histories (decidable, evaluated by the harness on the real code) -/

/-- no table mentions the address -/
def aidClean (s : State) (aid : Nat) : Bool :=
  (lookup aid s.counter).isNone && (lookup aid s.tracker).isNone && (lookup aid s.waiting).isNone &&
    s.waiting.all (fun p => !p.2.contains aid)

/-- `H_fresh`: a new array never gets an address for which a table entry lingers -/
def Hfresh (s : State) : Event → Bool
  | .newArr aid _ _ _ => aidClean s aid
  | _ => true

/-- `H_flags`: a view's original flag is its owner's (no read-only view of a writeable owner, no
writeable view of an owner that was made read-only afterwards) -/
def Hflags (s : State) : Event → Bool
  | .newArr _ (some b) _ orig => match s.arrs[b]? with
    | some ba => orig == ba.orig
    | none => false
  | _ => true

/-- an output array is writeable, owns its memory, or its base is already among the op's refs -/
def outsOk (s : State) : List Nat → List Nat → Bool
  | _, [] => true
  | refs, o :: os =>
    (match s.arrs[o]? with
     | some a => a.writeable || a.base.isNone || (match a.base with | some b => refs.contains b | none => true)
     | none => false) && outsOk s (refs ++ [o]) os

/-- `H_outs`: the call pattern of `Tensor._op` for output arrays -/
def Houts (s : State) : Event → Bool
  | .opExtend k outs _ =>
    match s.holds[k]? with
    | some h => outsOk s h outs
    | none => false
  | _ => true

/-- `H_force`: only arrays whose original flag is writeable are force-locked (the in-place machinery
force-locks fresh copies only) -/
def Hforce (s : State) : Event → Bool
  | .opExtend _ _ (some o) => match s.arrs[o]? with
    | some a => a.orig
    | none => false
  | _ => true

def Hall (s : State) (e : Event) : Bool := Hfresh s e && Hflags s e && Houts s e && Hforce s e

/-- number of live holds on object `o` (with multiplicity) -/
def cntH (hs : List (List Nat)) (o : Nat) : Nat :=
  match hs with
  | [] => 0
  | h :: hs => h.count o + cntH hs o

end MG.Lock
