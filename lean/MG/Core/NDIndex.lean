/-!
# M1 — shapes, C-order (un)ravelling, strided descriptors, basic indexing, view-or-copy reshape,
broadcasting and `reduce_broadcast`

Import-free, total and executable.  Mirrors the NumPy index semantics MyGrad relies on; it is
compared against NumPy itself by the harness (`harness/props/c04.py`, `c06.py`).
-/

namespace MG.ND

abbrev Shape := List Nat

def size (s : Shape) : Nat := s.foldr (· * ·) 1

/-- C-order (row-major) strides, in elements -/
def cstrides : Shape → List Nat
  | [] => []
  | _ :: s => size s :: cstrides s

/-- flat C-order index → multi-index -/
def unravel : Shape → Nat → List Nat
  | [], _ => []
  | _ :: s, i => (i / size s) :: unravel s (i % size s)

/-- multi-index → flat C-order index -/
def ravel : Shape → List Nat → Nat
  | _ :: s, i :: is => i * size s + ravel s is
  | _, _ => 0

def dotI : List Int → List Nat → Int
  | s :: ss, i :: is => s * (i : Int) + dotI ss is
  | _, _ => 0

/-- a strided window into a flat buffer: NumPy's (data pointer offset, shape, strides) in elements -/
structure Desc where
  off : Nat
  shape : Shape
  strides : List Int
  deriving DecidableEq, Repr, Inhabited

def Desc.contig (off : Nat) (s : Shape) : Desc := ⟨off, s, (cstrides s).map Int.ofNat⟩

/-- buffer position of the element at a multi-index -/
def Desc.pos (d : Desc) (idx : List Nat) : Nat := ((d.off : Int) + dotI d.strides idx).toNat

/-- buffer positions of all elements in logical C-order -/
def Desc.positions (d : Desc) : List Nat :=
  (List.range (size d.shape)).map fun i => d.pos (unravel d.shape i)

def Desc.isCContig (d : Desc) : Bool := d.strides == (cstrides d.shape).map Int.ofNat

/-- F-order (column-major) strides, in elements -/
def fstridesFrom (acc : Nat) : Shape → List Nat
  | [] => []
  | n :: s => acc :: fstridesFrom (acc * n) s

def fstrides (s : Shape) : List Nat := fstridesFrom 1 s

/-- strides of NumPy's `order='K'` copy of an array with the given shape and strides
(`PyArray_NewLikeArray` with `NPY_KEEPORDER`): the axes are sorted by decreasing |stride| (ties keep
the axis order) and the copy is contiguous in that axis order.  For C- and F-contiguous prototypes
this gives C and F strides on every axis of length ≠ 1. -/
def korderStrides (shape : Shape) (strides : List Int) : List Int :=
  let axes := (List.range shape.length).map fun k => (k, (strides.getD k 0).natAbs)
  let perm := (axes.mergeSort fun a b => a.2 > b.2 || (a.2 == b.2 && a.1 ≤ b.1)).map (·.1)
  let (out, _) := perm.reverse.foldl (fun (acc : List Int × Nat) ax =>
    (acc.1.set ax (acc.2 : Int), acc.2 * shape.getD ax 1)) (List.replicate shape.length (0 : Int), 1)
  out

/-! ## basic indexing -/

inductive Ix where
  | int (i : Int)
  | slice (start stop : Option Int) (step : Int)
  | newaxis
  | ellipsis
  deriving DecidableEq, Repr, Inhabited

/-- CPython's `PySlice_AdjustIndices` (with the `None` defaults of `PySlice_Unpack`):
returns `(start, length)`; `step ≠ 0` is checked by the caller -/
def sliceAdjust (n : Nat) (start stop : Option Int) (step : Int) : Int × Nat :=
  let n' : Int := n
  let clip (v : Int) : Int :=
    if v < 0 then (if v + n' < 0 then (if step < 0 then -1 else 0) else v + n')
    else if v ≥ n' then (if step < 0 then n' - 1 else n')
    else v
  let st := match start with
    | none => if step < 0 then n' - 1 else 0
    | some v => clip v
  let sp := match stop with
    | none => if step < 0 then -1 else n'
    | some v => clip v
  let len : Int :=
    if step < 0 then (if sp < st then (st - sp - 1) / (-step) + 1 else 0)
    else (if st < sp then (sp - st - 1) / step + 1 else 0)
  (st, len.toNat)

inductive IxErr where
  | indexError      -- out of bounds / too many indices
  | valueError      -- slice step 0
  deriving DecidableEq, Repr

/-- number of array axes consumed by an index tuple -/
def ixConsumed (ixs : List Ix) : Nat :=
  (ixs.filter fun i => match i with | .int _ => true | .slice .. => true | _ => false).length

/-- expand the (single) ellipsis, and pad with full slices -/
def expandEllipsis (ndim : Nat) (ixs : List Ix) : Except IxErr (List Ix) :=
  let nE := (ixs.filter (· == .ellipsis)).length
  let c := ixConsumed ixs
  if nE > 1 then .error .indexError
  else if c > ndim then .error .indexError
  else
    let fill := List.replicate (ndim - c) (Ix.slice none none 1)
    if nE = 1 then
      .ok (ixs.flatMap fun i => if i == .ellipsis then fill else [i])
    else .ok (ixs ++ fill)

/-- apply an ellipsis-free index list to (offset, shape, strides) -/
def applyIx : List Ix → Int → Shape → List Int → Except IxErr (Int × Shape × List Int)
  | [], off, [], [] => .ok (off, [], [])
  | .newaxis :: r, off, sh, st =>
    match applyIx r off sh st with
    | .ok (o, s, t) => .ok (o, 1 :: s, 0 :: t)
    | .error e => .error e
  | .int i :: r, off, n :: sh, k :: st =>
    let i' := if i < 0 then i + n else i
    if i' < 0 ∨ i' ≥ n then .error .indexError
    else applyIx r (off + i' * k) sh st
  | .slice a b c :: r, off, n :: sh, k :: st =>
    if c = 0 then .error .valueError
    else
      let (s0, len) := sliceAdjust n a b c
      match applyIx r (if len = 0 then off else off + s0 * k) sh st with
      | .ok (o, s, t) => .ok (o, len :: s, (k * c) :: t)
      | .error e => .error e
  | _, _, _, _ => .error .indexError

/-- `arr[ixs]` for a basic index: always a view -/
def Desc.index (d : Desc) (ixs : List Ix) : Except IxErr Desc :=
  match expandEllipsis d.shape.length ixs with
  | .error e => .error e
  | .ok ixs' =>
    match applyIx ixs' d.off d.shape d.strides with
    | .ok (o, s, t) => .ok ⟨o.toNat, s, t⟩
    | .error e => .error e

/-! ## transposes and friends -/

def getD' {α} [Inhabited α] (l : List α) (i : Nat) : α := l.getD i default

/-- is `p` a permutation of `0..n-1` -/
def isPerm (n : Nat) (p : List Nat) : Bool :=
  p.length == n && (List.range n).all fun i => p.contains i

/-- `np.transpose(a, axes)`: `out.shape[i] = a.shape[axes[i]]` -/
def Desc.transpose (d : Desc) (axes : List Nat) : Option Desc :=
  if isPerm d.shape.length axes then
    some ⟨d.off, axes.map (getD' d.shape), axes.map (getD' d.strides)⟩
  else none

def Desc.T (d : Desc) : Desc := ⟨d.off, d.shape.reverse, d.strides.reverse⟩

def swapList (n i j : Nat) : List Nat :=
  (List.range n).map fun k => if k = i then j else if k = j then i else k

/-- `np.moveaxis(a, src, dst)` as a permutation -/
def moveList (n src dst : Nat) : List Nat :=
  let rest := (List.range n).filter (· ≠ src)
  rest.take dst ++ [src] ++ rest.drop dst

def insertAt {α} (l : List α) (i : Nat) (x : α) : List α := l.take i ++ [x] ++ l.drop i
def removeAt {α} (l : List α) (i : Nat) : List α := l.take i ++ l.drop (i + 1)

def Desc.expandDims (d : Desc) (ax : Nat) : Option Desc :=
  if ax ≤ d.shape.length then some ⟨d.off, insertAt d.shape ax 1, insertAt d.strides ax 0⟩ else none

def Desc.squeeze (d : Desc) (ax : Nat) : Option Desc :=
  if d.shape.getD ax 0 = 1 then some ⟨d.off, removeAt d.shape ax, removeAt d.strides ax⟩ else none

/-! ## broadcasting -/

/-- NumPy's broadcast of two shapes (right-aligned) -/
def broadcastShapes (a b : Shape) : Option Shape :=
  let n := max a.length b.length
  let a' := List.replicate (n - a.length) 1 ++ a
  let b' := List.replicate (n - b.length) 1 ++ b
  (List.zip a' b').mapM fun (x, y) =>
    if x = y then some x else if x = 1 then some y else if y = 1 then some x else none

/-- can `src` be broadcast *to* exactly `dst` -/
def broadcastableTo (src dst : Shape) : Bool :=
  src.length ≤ dst.length &&
    (List.zip (List.replicate (dst.length - src.length) 1 ++ src) dst).all fun (x, y) => x = y || x = 1

/-- `np.broadcast_to(a, shape)` as a view: stride 0 on stretched axes -/
def Desc.broadcastTo (d : Desc) (dst : Shape) : Option Desc :=
  if broadcastableTo d.shape dst then
    let k := dst.length - d.shape.length
    let sh := List.replicate k 1 ++ d.shape
    let st := List.replicate k (0 : Int) ++ d.strides
    some ⟨d.off, dst, (List.zip (List.zip sh st) dst).map fun ((x, s), y) => if x = y then s else 0⟩
  else none

/-- for every flat index of `dst`, the flat index of the `src` element broadcast there -/
def broadcastIndex (src dst : Shape) : List Nat :=
  let k := dst.length - src.length
  (List.range (size dst)).map fun i =>
    let idx := (unravel dst i).drop k
    ravel src ((List.zip idx src).map fun (j, n) => if n = 1 then 0 else j)

/-! ## reshape: NumPy's `_attempt_nocopy_reshape` -/

/-- inner loop: grow `np`/`op` until they match; returns (nj, oj) or none when running out -/
def matchDims (fuel : Nat) (newd oldd : List Nat) (np op nj oj : Nat) : Option (Nat × Nat) :=
  match fuel with
  | 0 => none
  | f + 1 =>
    if np = op then some (nj, oj)
    else if np < op then
      match newd[nj]? with
      | some x => matchDims f newd oldd (np * x) op (nj + 1) oj
      | none => none
    else
      match oldd[oj]? with
      | some x => matchDims f newd oldd np (op * x) nj (oj + 1)
      | none => none

def setAt {α} (l : List α) (i : Nat) (x : α) : List α := l.set i x

/-- fill `newstrides[ni..nj-1]` in C order given the stride of the last merged old axis -/
def fillStrides (newd : List Nat) (ns : List Int) (ni nj : Nat) (last : Int) : List Int :=
  -- newstrides[nj-1] = last; newstrides[k-1] = newstrides[k] * newd[k]
  let rec go (k : Nat) (cur : Int) (ns : List Int) (fuel : Nat) : List Int :=
    match fuel with
    | 0 => ns
    | f + 1 =>
      let ns := setAt ns k cur
      if k ≤ ni then ns else go (k - 1) (cur * (newd.getD k 1 : Nat)) ns f
  go (nj - 1) last ns (nj - ni + 1)

def nocopyLoop (fuel : Nat) (newd oldd : List Nat) (olds : List Int) (ns : List Int)
    (ni oi : Nat) : Option (List Int × Nat) :=
  match fuel with
  | 0 => none
  | f + 1 =>
    if ni < newd.length ∧ oi < oldd.length then
      match matchDims (newd.length + oldd.length + 2) newd oldd (newd.getD ni 1) (oldd.getD oi 1) (ni + 1) (oi + 1) with
      | none => none
      | some (nj, oj) =>
        -- can old axes oi..oj-1 be merged?
        let ok := (List.range (oj - 1 - oi)).all fun t =>
          let k := oi + t
          olds.getD k 0 == (oldd.getD (k + 1) 1 : Nat) * olds.getD (k + 1) 0
        if !ok then none
        else
          let ns := fillStrides newd ns ni nj (olds.getD (oj - 1) 0)
          nocopyLoop f newd oldd olds ns nj oj
    else some (ns, ni)

/-- `a.reshape(newshape)` without copying, if NumPy can do it (C order); `none` = must copy.
Sizes are assumed equal and non-zero (checked by the caller). -/
def Desc.reshapeNoCopy (d : Desc) (newd : Shape) : Option Desc :=
  if d.isCContig then some ⟨d.off, newd, (cstrides newd).map Int.ofNat⟩
  else
    -- drop old axes of length 1
    let pairs := (List.zip d.shape d.strides).filter fun (n, _) => n ≠ 1
    let oldd := pairs.map (·.1)
    let olds := pairs.map (·.2)
    let ns0 : List Int := List.replicate newd.length 0
    match nocopyLoop (newd.length + oldd.length + 2) newd oldd olds ns0 0 0 with
    | none => none
    | some (ns, ni) =>
      let last : Int := if ni ≥ 1 then ns.getD (ni - 1) 1 else 1
      let ns := (List.range newd.length).map fun k => if k < ni then ns.getD k 0 else last
      some ⟨d.off, newd, ns⟩

/-- resolve a single `-1` in a reshape target -/
def resolveShape (total : Nat) (target : List Int) : Option Shape :=
  let known := (target.filter (· ≥ 0)).foldl (fun a x => a * x.toNat) 1
  let nneg := (target.filter (· < 0)).length
  if nneg = 0 then
    if known = total then some (target.map Int.toNat) else none
  else if nneg = 1 ∧ target.all (· ≥ -1) then
    if known = 0 then none
    else if total % known = 0 then some (target.map fun x => if x < 0 then total / known else x.toNat)
    else none
  else none

/-! ## axis sums (on logical C-order element lists) -/

/-- sum over one axis of a C-order list with the given shape -/
def sumAxis (sh : Shape) (ax : Nat) (xs : List Int) (keepdims : Bool) : Shape × List Int :=
  let outSh := if keepdims then sh.set ax 1 else removeAt sh ax
  let redSh := sh.set ax 1
  let n := sh.getD ax 1
  let vals := (List.range (size redSh)).map fun o =>
    let idx := unravel redSh o
    (List.range n).foldl (fun acc j => acc + xs.getD (ravel sh (idx.set ax j)) 0) 0
  (outSh, vals)

/-- `mygrad._utils.reduce_broadcast(grad, var_shape)` exactly as coded: first sum away the leading
extra axes, then sum (keepdims) over every axis where the sizes differ. `none` = the ValueError
branch (`grad.ndim < len(var_shape)`). -/
def reduceBroadcast (gsh : Shape) (g : List Int) (vsh : Shape) : Option (Shape × List Int) :=
  if gsh = vsh then some (gsh, g)
  else if gsh.length < vsh.length then none
  else
    let extra := gsh.length - vsh.length
    let (sh1, g1) := (List.range extra).foldl (fun (p : Shape × List Int) _ => sumAxis p.1 0 p.2 false) (gsh, g)
    let axes := (List.range sh1.length).filter fun n => sh1.getD n 0 ≠ vsh.getD n 0
    some (axes.foldl (fun (p : Shape × List Int) ax => sumAxis p.1 ax p.2 true) (sh1, g1))

end MG.ND
