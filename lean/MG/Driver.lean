import MG.IO.CtxIO
import MG.IO.LockIO
import MG.IO.EngIO
import MG.IO.SaveLoadIO
import MG.IO.DtypeIO
import MG.IO.NnetIO
import MG.IO.LinearIO
/-!
Line-protocol driver: `lake env lean --run MG/Driver.lean < ops.txt`.
One statement per line in, one observation per line out.  The first token selects the model.
-/
open MG

structure DState where
  ctx : Ctx.State := Ctx.init
  lock : Lock.State := Lock.init
  eng : Eng.DS := {}

def step (d : DState) (line : String) : DState × String :=
  match (line.trimAscii.toString.splitOn " ").filter (· ≠ "") with
  | "ctx" :: rest => let (c, o) := Ctx.handle d.ctx rest; ({ d with ctx := c }, o)
  | "io" :: rest => (d, SaveLoad.handle rest)
  | "dtype" :: rest => (d, Dtype.handle rest)
  | "nnet" :: rest => (d, Nnet.handle rest)
  | "eng" :: rest => let (e, o) := Eng.handle d.eng rest; ({ d with eng := e }, o)
  | "lin" :: rest => (d, Lin.handle rest)
  | "lock" :: rest => let (l, o) := Lock.handle d.lock rest; ({ d with lock := l }, o)
  | _ => (d, "bad-op")

partial def loop (h : IO.FS.Stream) (out : IO.FS.Stream) (d : DState) : IO Unit := do
  let line ← h.getLine
  if line.isEmpty then return ()
  let (d', o) := step d line
  out.putStrLn o
  loop h out d'

def main : IO Unit := do
  loop (← IO.getStdin) (← IO.getStdout) {}
