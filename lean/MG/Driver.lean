import MG.IO.CtxIO
/-!
Line-protocol driver: `lake env lean --run MG/Driver.lean < ops.txt`.
One statement per line in, one observation per line out.  The first token selects the model.
-/
open MG

structure DState where
  ctx : Ctx.State := Ctx.init

def step (d : DState) (line : String) : DState × String :=
  match (line.trimAscii.toString.splitOn " ").filter (· ≠ "") with
  | "ctx" :: rest => let (c, o) := Ctx.handle d.ctx rest; ({ d with ctx := c }, o)
  | _ => (d, "bad-op")

partial def loop (h : IO.FS.Stream) (out : IO.FS.Stream) (d : DState) : IO Unit := do
  let line ← h.getLine
  if line.isEmpty then return ()
  let (d', o) := step d line
  out.putStrLn o
  loop h out d'

def main : IO Unit := do
  loop (← IO.getStdin) (← IO.getStdout) {}
