import MG.Proofs.Lemmas.BackLoop
/-!
# C14 — seeding `backward` and the shape of every stored gradient

Property theorems about the engine model.  The dtype clause of the property is not expressible in
the `Int`-valued model and is decided by the direct predicate of `harness/props/c14.py`.
-/
namespace MG.C14
open MG.Eng MG.ND

/-- **seed_none_is_vjp_of_sum.**  `L.backward()` seeds `L` with exactly what `L.sum().backward()`
sends to `L`: the VJP of `sum` (all axes) applied to the scalar seed `1`. -/
theorem seed_none_is_vjp_of_sum (h : Heap) (L : Nat) (kd : Bool) :
    vjp h { kind := .sum none kd, vars := [L] } 0 ([], [1]) = seedVal (shapeOf h L) .none := by
  simp [vjp, seedVal, shapeOf, Heap.val]

/-- **seed_rule.**  `L.backward(g)`: a well-formed `g` of `L`'s shape is used as it is; any other
`g` is broadcast to `L`'s shape if (and only if) it can be broadcast *to* that shape; everything
else is rejected with a `ValueError`. -/
theorem seed_rule (sh : Shape) (v : Val) (hwf : v.2.length = size v.1) :
    (v.1 = sh → seedVal sh (.val v) = .ok v) ∧
    (v.1 ≠ sh → broadcastableTo v.1 sh = true → seedVal sh (.val v) = broadcastVal v sh) ∧
    (v.1 ≠ sh → broadcastableTo v.1 sh = false → seedVal sh (.val v) = .error .valueError) := by
  refine ⟨fun he => ?_, fun hne hb => ?_, fun hne hb => ?_⟩
  · simp [seedVal, hwf, he]
  · simp [seedVal, hwf, hne, broadcastVal, hb]
  · simp [seedVal, hwf, hne, broadcastVal, hb]

/-- a broadcast seed has `L`'s shape and element count -/
theorem seed_shape (sh : Shape) (seed : Seed) (g : Val) (hs : seedVal sh seed = .ok g) :
    g.1 = sh ∧ g.2.length = size sh := by
  cases seed with
  | none =>
    simp only [seedVal, Except.ok.injEq] at hs
    subst hs
    simp
  | val v =>
    simp only [seedVal] at hs
    split at hs
    · cases hs
    · rename_i hlen
      split at hs
      · rename_i he
        simp only [Except.ok.injEq] at hs
        subst hs
        exact ⟨he, by rw [← he]; simpa using hlen⟩
      · unfold broadcastVal at hs
        by_cases hb : broadcastableTo v.1 sh = true
        · simp only [hb, ite_true, Except.ok.injEq] at hs
          subst hs
          simp [broadcastIndex]
        · simp [hb] at hs

/-- fold of gradient-nulling leaves every gradient either untouched or `none` -/
theorem null_fold_grads (ts : List Nat) (h : Heap) (t : Nat) :
    ((ts.foldl (fun h t => h.modT t ({ · with grad := none, viewGrad := none })) h).t t).grad = none ∨
    ((ts.foldl (fun h t => h.modT t ({ · with grad := none, viewGrad := none })) h).t t).grad = (h.t t).grad := by
  induction ts generalizing h with
  | nil => exact Or.inr rfl
  | cons x xs ih =>
    simp only [List.foldl_cons]
    rcases ih (h.modT x ({ · with grad := none, viewGrad := none })) with h1 | h1
    · exact Or.inl h1
    · by_cases htx : t = x
      · subst htx
        left
        rw [h1]
        simp
      · right
        rw [h1, t_modT_ne _ _ _ _ htx]

/-- **bad_seed_rejected_no_write.**  If the seed is rejected, `backward` raises and the heap it leaves
behind has no gradient that was not there before: every tensor's `_grad` is either what it was or
`None` (the traversal nulls the gradients of the tensors it touches before the seed is examined);
no tensor, buffer or op is otherwise changed. -/
theorem bad_seed_rejected_no_write (h : Heap) (L : Nat) (seed : Seed) (e : Err)
    (hL : (h.t L).const = false) (touched topo : List Nat)
    (hcol : collect (startOver h L).fuel (startOver h L) L [] [] = some (touched, topo))
    (hbad : seedVal (h.t L).data.d.shape seed = .error e) :
    ∃ h', backward h L seed = .error (e, h') ∧ h'.bufs = h.bufs ∧ h'.ops = h.ops ∧
      ∀ t, (h'.t t).grad = none ∨ (h'.t t).grad = (h.t t).grad := by
  refine ⟨touched.foldl (fun h t => h.modT t ({ · with grad := none, viewGrad := none })) (startOver h L), ?_, ?_, ?_, ?_⟩
  · simp [backward, hL, hcol, hbad]
  · exact (foldl_modT_bufs touched id (fun _ x => { x with grad := none, viewGrad := none }) _).trans (startOver_bufs h L)
  · have hops : ∀ (ts : List Nat) (h0 : Heap),
        (ts.foldl (fun h t => h.modT t ({ · with grad := none, viewGrad := none })) h0).ops = h0.ops := by
      intro ts
      induction ts with
      | nil => intro h0; rfl
      | cons x xs ih =>
        intro h0
        simp only [List.foldl_cons]
        rw [ih]; rfl
    rw [hops, startOver_ops]
  · intro t
    have := null_fold_grads touched (startOver h L) t
    simpa using this

/-- **stored_grads_have_tensor_shape.**  When the back-propagation loop completes, every gradient it
has accumulated — for every tensor, whatever mixture of broadcasting, where-masks, views and
repeated use produced its contributions — has exactly that tensor's shape and element count. -/
theorem stored_grads_have_tensor_shape (h : Heap) (L : Nat) (g : Val) (topo : List Nat) (gr : GMap)
    (hn : topo.Nodup) (hg : g.1 = shapeOf h L ∧ g.2.length = size (shapeOf h L))
    (hrun : backLoop h topo [(L, g)] = (gr, none)) :
    ∀ t v, lookup t gr = some v → v.1 = shapeOf h t ∧ v.2.length = size (shapeOf h t) := by
  have hw0 : WFG h [(L, g)] := by
    intro t v hv
    simp only [lookup] at hv
    split at hv
    · rename_i heq
      cases hv
      exact heq ▸ hg
    · cases hv
  exact (backLoop_run h topo hn topo [(L, g)] gr (fun x hx => hx) hw0 hrun).1

/-! ## `backward(seed)` on a tensor without a creator (a leaf, or a former view whose base lingers) -/

theorem startOver_graphless (h : Heap) (L : Nat) (hcr : (h.t L).creator = none) :
    ((startOver h L).t L).base = none := by
  unfold startOver
  cases hbb : (h.t L).base with
  | none => simp [hbb]
  | some b => simp [hbb, hcr]

theorem clearGraph_graphless (h : Heap) (L : Nat) (hb : (h.t L).base = none) (hcr : (h.t L).creator = none) :
    clearGraph h.fuel h L = h.modT L (fun x => { x with vchildren := [], ops := [] }) := by
  simp [Heap.fuel, clearGraph, hb, hcr]

/-- **seeded_graphless_terminal.**  `backward(seed)` on a non-constant tensor that has no creator — a leaf, or a
former view whose graph an earlier `backward` cleared while its base lingers — completes, stores the (broadcast)
seed as that tensor's gradient and leaves it without a base, so that its public `.grad` *is* the seed: the same
gradient `(L*g).sum().backward()` gives it. -/
theorem seeded_graphless_terminal (h : Heap) (L : Nat) (seed : Seed) (g : Val)
    (hc : (h.t L).const = false) (hcr : (h.t L).creator = none)
    (hs : seedVal (h.t L).data.d.shape seed = .ok g) :
    ∃ h', backward h L seed = .ok h' ∧ (h'.t L).base = none ∧ (h'.t L).grad = some g ∧
      (gradProp h'.fuel h' L).2 = some g := by
  have hb1 := startOver_graphless h L hcr
  have hc1 : ((startOver h L).t L).const = false := by simp [hc]
  have hcr1 : ((startOver h L).t L).creator = none := by simp [hcr]
  unfold backward
  simp only [hc, Bool.false_eq_true, if_false]
  generalize startOver h L = h1 at hb1 hc1 hcr1 ⊢
  have hcol : collect h1.fuel h1 L [] [] = some ([L], [L]) := by
    simp [Heap.fuel, collect, hc1, Heap.inp, hcr1]
  simp only [hcol, hs, List.foldl_cons, List.foldl_nil]
  have hcr2 : ((h1.modT L ({ · with grad := none, viewGrad := none })).t L).creator = none := by simp [hcr1]
  simp only [backwardGrads, hcr2, Option.isNone_none, if_true]
  have e3 : storeGrads (h1.modT L ({ · with grad := none, viewGrad := none })) [(L, g)]
      = ((h1.modT L ({ · with grad := none, viewGrad := none })).fresh.1).modT L
          ({ · with grad := some g, gradObj := (h1.modT L ({ · with grad := none, viewGrad := none })).fresh.2 }) := rfl
  rw [e3]
  generalize hh3 : ((h1.modT L ({ · with grad := none, viewGrad := none })).fresh.1).modT L
          ({ · with grad := some g, gradObj := (h1.modT L ({ · with grad := none, viewGrad := none })).fresh.2 }) = h3
  have b3 : (h3.t L).base = none := by subst hh3; simp [hb1]
  have c3 : (h3.t L).creator = none := by subst hh3; simp [hcr1]
  have g3 : (h3.t L).grad = some g := by subst hh3; simp
  rw [clearGraph_graphless h3 L b3 c3]
  refine ⟨_, rfl, by simp [b3], by simp [g3], ?_⟩
  simp [gradProp, Heap.fuel, gradPropObj, b3, g3]

/-! ## Non-vacuity -/

/-- a former view (base `0` lingers, no creator) of shape (2,) seeded with a scalar-shaped array -/
example :
    let h : Heap := (({} : Heap).setT 0 { data := ⟨0, Desc.contig 0 [4]⟩, const := false }).setT 1
      { data := ⟨0, ⟨0, [2], [2]⟩⟩, const := false, base := some 0 }
    (h.t 1).const = false ∧ (h.t 1).creator = none ∧ (h.t 1).base = some 0 ∧
      seedVal (h.t 1).data.d.shape (.val ([1], [3])) = .ok ([2], [3, 3]) := by decide

example : seedVal [2, 3] (.val ([3], [1, 2, 3])) = .ok ([2, 3], [1, 2, 3, 1, 2, 3]) := by decide
example : seedVal [2, 3] (.val ([2], [1, 2])) = .error .valueError := by decide
example : seedVal [2] (.val ([3, 2], [1, 2, 3, 4, 5, 6])) = .error .valueError := by decide

end MG.C14
