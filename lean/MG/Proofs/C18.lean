import MG.Core.SaveLoad

/-!
# C18 — save/load round-trips a tensor's data, dtype and gradient

Property theorems only.  Model: `MG/Core/SaveLoad.lean` (tied to `mygrad._io` and the `.grad` /
`backward` code of `Tensor` by the correspondence check `harness/props/c18.py`).

* `save_is_frame` — for **every** tensor: `save` changes nothing but the `_view_grad` cache of a view,
  and what `.grad` shows is the same before and after (and the archive is the same if saved again).
* `load_save_data` — for **every** tensor: data, shape and dtype come back (no hypothesis).
* `load_save_grad_none` — for **every** tensor without a gradient the loaded tensor has none.
* The gradient clause is **false of the code as written** for a tensor whose stored gradient does not
  have the tensor's own shape: `load` re-seeds the gradient through `backward(grad)`, which broadcasts or
  raises.  Such a tensor is reachable today (the hidden-state sequence returned by `mygrad.nnet.layers.gru`,
  defect F5: `.grad.shape == (T,N,D)` for a tensor of shape `(T+1,N,D)`).  Hence
  `load_save_roundtrip_statement` (full strength), `load_save_roundtrip_neg` (witness replayed by the
  harness on the implementation) and `load_save_roundtrip_partial` under the named hypothesis `H_grad_wf`
  (the stored gradient is a float array of the tensor's dtype and shape — the harness evaluates it on every
  tensor it generates).
-/

namespace MG.C18
open MG.SaveLoad

/-- `load(save(t))` succeeds and returns equal data (values, shape, dtype) and an equal gradient
    (values, shape, dtype — or `None`). -/
def RoundTrips (t : Tensor) : Prop :=
  ∃ t', load (save t).2 = .ok t' ∧ t'.data = t.data ∧ t'.gradProp = t.gradProp

/-- the gradient `.grad` shows, if any, is a float array with the tensor's dtype and shape -/
def H_grad_wf (t : Tensor) : Prop :=
  ∀ g, t.gradProp = some g → t.data.dtype.isFloat = true ∧ g.dtype = t.data.dtype ∧ g.shape = t.data.shape

/-- the full-strength statement of the property's first half -/
def load_save_roundtrip_statement : Prop := ∀ t : Tensor, RoundTrips t

theorem save_archive (t : Tensor) : (save t).2 = ⟨t.data, t.gradProp⟩ := rfl

theorem gradProp_mkTensor (a : Arr) : (mkTensor a).gradProp = none := rfl

/-! ### reading `.grad` is idempotent and writes only the cache -/

theorem readGrad_frame (t : Tensor) : t.readGrad.1 = { t with viewGrad := t.readGrad.1.viewGrad } := by
  obtain ⟨data, constant, grad_, base, viewGrad, creator, ops, writeable⟩ := t
  cases base with
  | none => rfl
  | some b =>
    obtain ⟨bg, rp, bc⟩ := b
    cases bc with
    | true => rfl
    | false =>
    cases constant with
    | true => rfl
    | false =>
    cases bg with
    | none =>
      cases viewGrad with
      | none => rfl
      | some c => obtain ⟨g, s⟩ := c; rfl
    | some s' =>
      cases creator with
      | none =>
        cases viewGrad with
        | none => rfl
        | some c =>
          obtain ⟨g, s⟩ := c
          by_cases h : s = s' <;> simp [Tensor.readGrad, h]
      | some cr =>
        cases viewGrad with
        | none => rfl
        | some c =>
          obtain ⟨g, s⟩ := c
          by_cases h : s = s' <;> simp [Tensor.readGrad, h]

theorem readGrad_idem (t : Tensor) : t.readGrad.1.readGrad.2 = t.readGrad.2 := by
  obtain ⟨data, constant, grad_, base, viewGrad, creator, ops, writeable⟩ := t
  cases base with
  | none => rfl
  | some b =>
    obtain ⟨bg, rp, bc⟩ := b
    cases bc with
    | true => rfl
    | false =>
    cases constant with
    | true => rfl
    | false =>
    cases bg with
    | none =>
      cases viewGrad with
      | none => rfl
      | some c => obtain ⟨g, s⟩ := c; rfl
    | some s' =>
      cases creator with
      | none =>
        cases viewGrad with
        | none => rfl
        | some c =>
          obtain ⟨g, s⟩ := c
          by_cases h : s = s' <;> simp [Tensor.readGrad, h]
      | some cr =>
        cases rp with
        | none =>
          cases viewGrad with
          | none => rfl
          | some c =>
            obtain ⟨g, s⟩ := c
            by_cases h : s = s' <;> simp [Tensor.readGrad, h]
        | some r =>
          cases viewGrad with
          | none => simp [Tensor.readGrad]
          | some c =>
            obtain ⟨g, s⟩ := c
            by_cases h : s = s' <;> simp [Tensor.readGrad, h]

/-- **C18 (second half), all tensors.**  Saving leaves the tensor's data, constant flag, stored gradient,
    base link, creator, consumers and array writeability untouched (only the `_view_grad` cache of a view may
    be filled), `.grad` reads the same before and after, and saving again writes the same archive. -/
theorem save_is_frame (t : Tensor) :
    (save t).1 = { t with viewGrad := (save t).1.viewGrad } ∧
    (save t).1.gradProp = t.gradProp ∧
    (save (save t).1).2 = (save t).2 := by
  have h1 : (save t).1 = t.readGrad.1 := rfl
  refine ⟨?_, ?_, ?_⟩
  · rw [h1]; exact readGrad_frame t
  · rw [h1]; exact readGrad_idem t
  · rw [save_archive, save_archive, h1]
    have hd : t.readGrad.1.data = t.data := by rw [readGrad_frame t]
    have hg : t.readGrad.1.gradProp = t.gradProp := readGrad_idem t
    rw [hd, hg]

/-- non-vacuity: a view with a live creator whose base has a gradient — `save` fills the cache and nothing else -/
example :
    let v : Tensor := { data := ⟨[2, 3], [2], .f64⟩, constant := false, grad_ := none,
                        base := some ⟨some 7, some ⟨[4, 6], [2], .f64⟩, false⟩, viewGrad := none,
                        creator := some 1, ops := [5], writeable := false }
    (save v).1.viewGrad = some (⟨[4, 6], [2], .f64⟩, 7) ∧ (save v).1.creator = some 1 ∧
      (save v).1.ops = [5] ∧ (save v).2.grad = some ⟨[4, 6], [2], .f64⟩ := by decide

/-! ### load ∘ save -/

/-- **data / shape / dtype, all tensors**: whenever `load(save(t))` returns, the data array is `t`'s. -/
theorem load_save_data (t t' : Tensor) (h : load (save t).2 = .ok t') : t'.data = t.data := by
  rw [save_archive] at h
  unfold load at h
  simp only at h
  cases hg : t.gradProp with
  | none =>
    rw [hg] at h
    simp only [Except.ok.injEq] at h
    rw [← h]; rfl
  | some g =>
    rw [hg] at h
    simp only [backwardSeed] at h
    split at h
    · simp only [Except.ok.injEq] at h
      rw [← h]; rfl
    · split at h
      · simp only [Except.ok.injEq] at h
        rw [← h]; rfl
      · split at h
        · simp only [Except.ok.injEq] at h
          rw [← h]; rfl
        · cases h

/-- **no gradient, all tensors**: a tensor whose `.grad` is `None` loads as a tensor whose `.grad` is `None`. -/
theorem load_save_grad_none (t : Tensor) (h : t.gradProp = none) :
    ∃ t', load (save t).2 = .ok t' ∧ t'.data = t.data ∧ t'.gradProp = none := by
  refine ⟨mkTensor t.data, ?_, rfl, rfl⟩
  rw [save_archive, h]; rfl

/-- **C18 (first half) under `H_grad_wf`.** -/
theorem load_save_roundtrip_partial (t : Tensor) (hw : H_grad_wf t) : RoundTrips t := by
  unfold RoundTrips
  cases hg : t.gradProp with
  | none =>
    obtain ⟨t', h1, h2, h3⟩ := load_save_grad_none t hg
    exact ⟨t', h1, h2, h3⟩
  | some g =>
    obtain ⟨hf, hd, hs⟩ := hw g hg
    refine ⟨clearGraph { mkTensor t.data with grad_ := some g }, ?_, rfl, rfl⟩
    rw [save_archive, hg]
    simp only [load, backwardSeed, mkTensor, hf, Bool.not_true, Bool.false_eq_true, ↓reduceIte, hs]
    obtain ⟨gv, gs, gd⟩ := g
    simp only at hd hs
    subst hd hs
    rfl

/-- non-vacuity of `load_save_roundtrip_partial`: a float32 view with a view-gradient, in a live graph -/
example :
    let v : Tensor := { data := ⟨[2, 3], [2], .f32⟩, constant := false, grad_ := none,
                        base := some ⟨some 7, some ⟨[4, 6], [2], .f32⟩, false⟩, viewGrad := none,
                        creator := some 1, ops := [5], writeable := false }
    H_grad_wf v ∧ v.gradProp = some ⟨[4, 6], [2], .f32⟩ := by
  refine ⟨?_, by decide⟩
  intro g hg
  have : g = ⟨[4, 6], [2], .f32⟩ := by
    have h : (some g : Option Arr) = some ⟨[4, 6], [2], .f32⟩ := by rw [← hg]; decide
    exact Option.some.inj h
  subst this
  decide

/-- the witness: a tensor of shape `(3,1,2)` whose stored gradient has shape `(2,1,2)` (what
    `gru(...)` returns after `backward`, F5) — `load` raises `ValueError`. -/
def witness : Tensor :=
  { data := ⟨[0, 0, 1, 2, 3, 4], [3, 1, 2], .f64⟩, constant := false,
    grad_ := some ⟨[1, 1, 1, 1], [2, 1, 2], .f64⟩, base := none, viewGrad := none,
    creator := none, ops := [], writeable := true }

theorem witness_load_raises : load (save witness).2 = .error .valueError := by rfl

/-- a second way out of `H_grad_wf`: shape `(2,1,2)` with a stored gradient of shape `(1,1,2)` — `load`
    *succeeds* and silently broadcasts the gradient to a different shape. -/
def witness2 : Tensor :=
  { data := ⟨[0, 0, 1, 2], [2, 1, 2], .f64⟩, constant := false,
    grad_ := some ⟨[5, 7], [1, 1, 2], .f64⟩, base := none, viewGrad := none,
    creator := none, ops := [], writeable := true }

theorem witness2_load_broadcasts :
    (load (save witness2).2).toOption.bind (·.gradProp) = some ⟨[5, 7, 5, 7], [2, 1, 2], .f64⟩ := by decide

/-- **The full statement is false of the code as written** (witness: `witness`). -/
theorem load_save_roundtrip_neg : ¬ load_save_roundtrip_statement := by
  intro h
  obtain ⟨t', h1, _, _⟩ := h witness
  rw [witness_load_raises] at h1
  cases h1

/-- an integer tensor is constant, so `backward(grad)` stores nothing: a `grad` entry in the archive is dropped -/
theorem load_int_drops_grad (a g : Arr) (h : a.dtype.isFloat = false) :
    load ⟨a, some g⟩ = .ok (mkTensor a) := by
  simp [load, backwardSeed, mkTensor, h, clearGraph]

/-- the loaded tensor's constant flag is the dtype default, whatever `t.constant` was -/
theorem load_constant_default (t t' : Tensor) (h : load (save t).2 = .ok t') :
    t'.constant = !t.data.dtype.isFloat := by
  rw [save_archive] at h
  unfold load at h
  simp only at h
  cases hg : t.gradProp with
  | none =>
    rw [hg] at h
    simp only [Except.ok.injEq] at h
    rw [← h]; rfl
  | some g =>
    rw [hg] at h
    simp only [backwardSeed] at h
    split at h
    · simp only [Except.ok.injEq] at h
      rw [← h]; rfl
    · split at h
      · simp only [Except.ok.injEq] at h
        rw [← h]; rfl
      · split at h
        · simp only [Except.ok.injEq] at h
          rw [← h]; rfl
        · cases h

end MG.C18
