import MG.Proofs.Lemmas.LockEv

/-!
# C08 — memory guard: arrays in a live graph are read-only, and restored afterwards

Property theorems only.  Model: `MG/Core/Lock.lean` (M5; tied to `mygrad/_utils/lock_management.py` and
the locking calls of `Tensor._op` by the correspondence check `harness/props/c08.py`, which replays the
events recorded on the implementation).  Helper lemmas: `MG/Proofs/Lemmas/Lock*.lean`.

All theorems are by induction over *all* histories of events (`Reach`): any length, any order of
`newArr` / `opCreated` / `opExtend` / `opFinalized` / `arrayDied`, including arrays that die while an op
still holds them and addresses that are re-used (`newArr` at the address of a dead array).

Three clauses of the property are **false of the code as written** once a history leaves the named
hypotheses; each `…_neg` theorem proves that from a concrete witness, which the harness replays on the
implementation:

* `H_fresh` (no address re-use while a table entry lingers): a view that waits for its base dies, a new
  view gets its address; the old base's release pops the new view's tracker entry (NumPy refuses to make
  it writeable: its own base is still locked) and the view stays read-only for ever;
* `H_flags` (a view's original flag is its owner's): an explicitly read-only view of a writeable owner
  is made writeable when its op is released; a writeable view of an owner that was made read-only
  afterwards waits for a base that is never released.
-/

namespace MG.C08
open MG.Lock

/-- states reachable by histories all of whose events satisfy the hypothesis `H` -/
inductive Reach (H : State → Event → Bool) : State → Prop
  | init : Reach H Lock.init
  | step {s s' : State} {e : Event} : Reach H s → H s e = true → Lock.step s e = some s' → Reach H s'

def Htrue : State → Event → Bool := fun _ _ => true
/-- everything but `H_fresh` -/
def HnoFresh (s : State) (e : Event) : Bool := Hflags s e && Houts s e && Hforce s e
/-- everything but `H_flags` -/
def HnoFlags (s : State) (e : Event) : Bool := Hfresh s e && Houts s e && Hforce s e

theorem Reach.mono {H H' : State → Event → Bool} (h : ∀ s e, H s e = true → H' s e = true) {s : State}
    (hr : Reach H s) : Reach H' s := by
  induction hr with
  | init => exact Reach.init
  | step _ hH hs ih => exact Reach.step ih (h _ _ hH) hs

/-- run a history, checking the hypothesis at every event -/
def runH (H : State → Event → Bool) (s : State) : List Event → Option State
  | [] => some s
  | e :: es => if H s e then (match Lock.step s e with
      | some s' => runH H s' es
      | none => none) else none

theorem reach_of_runH {H : State → Event → Bool} : ∀ (evs : List Event) (s s' : State),
    Reach H s → runH H s evs = some s' → Reach H s' := by
  intro evs
  induction evs with
  | nil => intro s s' hr h; simp only [runH, Option.some.injEq] at h; rw [← h]; exact hr
  | cons e es ih =>
    intro s s' hr h
    unfold runH at h
    by_cases hH : H s e = true
    · simp only [hH, ↓reduceIte] at h
      cases hs : Lock.step s e with
      | none => simp [hs] at h
      | some s1 => rw [hs] at h; exact ih s1 s' (Reach.step hr hH hs) h
    · simp [hH] at h

/-! ## the invariant is kept by every event -/

theorem ginv_init : GInv Lock.init := by
  refine ⟨?_, by intro h hh; simp [Lock.init] at hh⟩
  constructor <;> intros <;> simp_all [Lock.init, isAlive, lookup, wget]

theorem step_ginv {s s' : State} {e : Event} (hG : GInv s) (hH : Hall s e = true) (hs : Lock.step s e = some s') :
    GInv s' := by
  unfold Hall at hH
  simp only [Bool.and_eq_true] at hH
  obtain ⟨⟨⟨hFresh, hFlags⟩, hOuts⟩, hForce⟩ := hH
  cases e with
  | newArr aid base w orig =>
    simp only [Lock.step, Option.ite_none_right_eq_some, Option.some.injEq] at hs
    obtain ⟨hc, hs⟩ := hs
    rw [← hs]
    simp only [Bool.and_eq_true, Bool.not_eq_eq_eq_not, Bool.not_true, Bool.or_eq_true] at hc
    obtain ⟨⟨hc1, hc2⟩, hc3⟩ := hc
    refine newArr_inv hG aid base w orig hc1 ?_ ?_ hFresh
    · cases base with
      | none => simpa using hc2
      | some b =>
        simp only [Bool.and_eq_true] at hc2
        obtain ⟨hba, hbb⟩ := hc2
        simp only [Hflags] at hFlags
        cases hsb : s.arrs[b]? with
        | none => simp [hsb] at hbb
        | some ba =>
          rw [hsb] at hbb hFlags
          refine ⟨hba, by simpa [baseOf, hsb] using hbb, ?_⟩
          simp only [origOf, hsb]
          simpa using hFlags
    · intro ho
      rcases hc3 with h | h
      · rw [ho] at h; cases h
      · simpa using h
  | opCreated ins =>
    simp only [Lock.step, Option.ite_none_right_eq_some, Option.some.injEq] at hs
    obtain ⟨hc, hs⟩ := hs
    rw [← hs]
    exact opCreated_ginv hG ins hc
  | opExtend k outs forced =>
    simp only [Lock.step] at hs
    cases hk : s.holds[k]? with
    | none => simp [hk] at hs
    | some h =>
      simp only [hk, Option.ite_none_right_eq_some, Option.some.injEq] at hs
      obtain ⟨hc, hs⟩ := hs
      rw [← hs]
      refine opExtend_ginv hG k h outs forced hk hc ?_ ?_
      · simpa [Houts, hk] using hOuts
      · intro o ho
        rw [ho] at hForce
        simp only [Hforce] at hForce
        cases hso : s.arrs[o]? with
        | none => simp [hso] at hForce
        | some a => rw [hso] at hForce; simpa [origOf, hso] using hForce
  | opFinalized k =>
    simp only [Lock.step] at hs
    cases hk : s.holds[k]? with
    | none => simp [hk] at hs
    | some h =>
      simp only [hk, Option.some.injEq] at hs
      rw [← hs]
      exact opFinalized_ginv hG k h hk
  | arrayDied o =>
    simp only [Lock.step, Option.ite_none_right_eq_some, Option.some.injEq] at hs
    obtain ⟨hc, hs⟩ := hs
    rw [← hs]
    simp only [Bool.and_eq_true, Bool.not_eq_eq_eq_not, Bool.not_true] at hc
    exact ⟨die_inv hG.inv (hasAliveView_false hc.2), by
      intro h hh x hx
      show x < (modArr s o _).arrs.length
      rw [length_modArr]
      exact hG.bound h hh x hx⟩

theorem reach_ginv {s : State} (hr : Reach Hall s) : GInv s := by
  induction hr with
  | init => exact ginv_init
  | step _ hH hs ih => exact step_ginv ih hH hs

/-! ## the property clauses -/

/-- *while locked*: the counter of every live array is the number of live op-holds on it (0 for natively
read-only arrays, which are never counted), and an array held by a live op — or with a positive
counter — is read-only -/
def GuardProp (s : State) : Prop :=
  ∀ (o : Nat) (a : Arr), s.arrs[o]? = some a → a.alive = true →
    (a.orig = true → cget s.counter a.aid = cntH s.holds o) ∧
    (a.orig = false → cget s.counter a.aid = 0) ∧
    (0 < cntH s.holds o → a.writeable = false) ∧
    (0 < cget s.counter a.aid → a.writeable = false)

/-- *restored afterwards*: an array that entered an op and is no longer held by any live op (nor is its
base) carries its original flag -/
def RestoreProp (s : State) : Prop :=
  ∀ (o : Nat) (a : Arr), s.arrs[o]? = some a → a.alive = true → a.entered = true → cntH s.holds o = 0 →
    (∀ b, a.base = some b → cntH s.holds b = 0) → a.writeable = a.orig

/-- arrays that were read-only beforehand stay read-only -/
def NativeRoProp (s : State) : Prop :=
  ∀ (o : Nat) (a : Arr), s.arrs[o]? = some a → a.alive = true → a.orig = false → a.writeable = false

def guard_inv_statement : Prop := ∀ s, Reach Htrue s → GuardProp s
def restore_at_quiescence_statement : Prop := ∀ s, Reach Htrue s → RestoreProp s
def never_unlocks_native_readonly_statement : Prop := ∀ s, Reach Htrue s → NativeRoProp s

private theorem acc {s : State} {o : Nat} {a : Arr} (hs : s.arrs[o]? = some a) :
    isAlive s o = a.alive ∧ aidOf s o = a.aid ∧ baseOf s o = a.base ∧ origOf s o = a.orig ∧
    wOf s o = a.writeable ∧ enteredOf s o = a.entered := by
  simp [isAlive, aidOf, baseOf, origOf, wOf, enteredOf, hs]

theorem guardProp_of_ginv {s : State} (hG : GInv s) : GuardProp s := by
  intro o a hs ha
  obtain ⟨e1, e2, _, e4, e5, _⟩ := acc hs
  have hal : isAlive s o = true := by rw [e1]; exact ha
  cases ho : a.orig with
  | false =>
    obtain ⟨r1, r2, _⟩ := hG.inv.ro o hal (by rw [e4]; exact ho)
    rw [e2] at r2; rw [e5] at r1
    refine ⟨(fun h => by cases h), fun _ => r2, fun _ => r1, fun _ => r1⟩
  | true =>
    have hoo : origOf s o = true := by rw [e4]; exact ho
    have r1 := hG.inv.rwCnt o hal hoo
    have r2 := hG.inv.rwLocked o hal hoo
    rw [e2] at r1 r2; rw [e5] at r2
    refine ⟨fun _ => r1, (fun h => by cases h), fun h => (r2 (by omega)).2, fun h => (r2 h).2⟩

theorem restoreProp_of_ginv {s : State} (hG : GInv s) : RestoreProp s := by
  intro o a hs ha hent h0 hb0
  obtain ⟨e1, e2, e3, e4, e5, e6⟩ := acc hs
  have hal : isAlive s o = true := by rw [e1]; exact ha
  cases ho : a.orig with
  | false =>
    have := (hG.inv.ro o hal (by rw [e4]; exact ho)).1
    rw [e5] at this; exact this
  | true =>
    have hoo : origOf s o = true := by rw [e4]; exact ho
    have hc : cget s.counter (aidOf s o) = 0 := by rw [hG.inv.rwCnt o hal hoo]; exact h0
    rcases tracker_cases hG.inv hal with h | h
    · have := hG.inv.rwFree o hal hoo h (Or.inl (by rw [e6]; exact hent))
      rw [e5] at this; exact this
    · obtain ⟨_, b, hb, _, hpos | hF⟩ := hG.inv.rwWait o hal hoo h hc
      · exfalso
        obtain ⟨hba, _, hbo⟩ := hG.inv.baseOk o b hal hb
        rw [hoo] at hbo
        rw [hG.inv.rwCnt b hba hbo] at hpos
        have := hb0 b (by rw [← e3]; exact hb)
        omega
      · exact hF.elim

theorem nativeRoProp_of_ginv {s : State} (hG : GInv s) : NativeRoProp s := by
  intro o a hs ha ho
  obtain ⟨e1, _, _, e4, e5, _⟩ := acc hs
  have := (hG.inv.ro o (by rw [e1]; exact ha) (by rw [e4]; exact ho)).1
  rw [e5] at this; exact this

/-- **guard_inv.**  In every state reachable by a history that satisfies the named hypotheses, for every
live array: `counter = number of live op-holds` and `held ⇒ read-only`. -/
theorem guard_inv_partial (s : State) (hr : Reach Hall s) : GuardProp s :=
  guardProp_of_ginv (reach_ginv hr)

/-- **restore_at_quiescence.**  For every order of finalizations, clears and deaths: once no live op
holds an array (and its base), its flag is the original one. -/
theorem restore_at_quiescence_partial (s : State) (hr : Reach Hall s) : RestoreProp s :=
  restoreProp_of_ginv (reach_ginv hr)

/-- **never_unlocks_native_readonly.** -/
theorem never_unlocks_native_readonly_partial (s : State) (hr : Reach Hall s) : NativeRoProp s :=
  nativeRoProp_of_ginv (reach_ginv hr)

/-! ## the full statements are false of the code as written: witnesses -/

/-- does the history run (under `H`) to a state in which array `o` violates `RestoreProp`? -/
def restoreViolated (H : State → Event → Bool) (evs : List Event) (o : Nat) : Bool :=
  match runH H Lock.init evs with
  | none => false
  | some s =>
    match s.arrs[o]? with
    | none => false
    | some a => a.alive && a.entered && cntH s.holds o == 0 &&
        (match a.base with
         | none => true
         | some b => cntH s.holds b == 0) && (a.writeable != a.orig)

def nativeRoViolated (H : State → Event → Bool) (evs : List Event) (o : Nat) : Bool :=
  match runH H Lock.init evs with
  | none => false
  | some s =>
    match s.arrs[o]? with
    | none => false
    | some a => a.alive && !a.orig && a.writeable

def counterViolated (H : State → Event → Bool) (evs : List Event) (o : Nat) : Bool :=
  match runH H Lock.init evs with
  | none => false
  | some s =>
    match s.arrs[o]? with
    | none => false
    | some a => a.alive && a.orig && (cget s.counter a.aid != cntH s.holds o)

theorem not_restore_of_witness {H : State → Event → Bool} {evs : List Event} {o : Nat}
    (h : restoreViolated H evs o = true) : ¬ ∀ s, Reach H s → RestoreProp s := by
  intro hall
  unfold restoreViolated at h
  cases hrun : runH H Lock.init evs with
  | none => simp [hrun] at h
  | some s =>
    rw [hrun] at h
    cases hs : s.arrs[o]? with
    | none => simp [hs] at h
    | some a =>
      simp only [hs, Bool.and_eq_true, beq_iff_eq, bne_iff_ne, ne_eq] at h
      obtain ⟨⟨⟨⟨ha, he⟩, h0⟩, hb⟩, hne⟩ := h
      refine hne (hall s (reach_of_runH evs _ _ Reach.init hrun) o a hs ha he h0 ?_)
      intro b hbb
      rw [hbb] at hb
      simpa using hb

theorem not_nativeRo_of_witness {H : State → Event → Bool} {evs : List Event} {o : Nat}
    (h : nativeRoViolated H evs o = true) : ¬ ∀ s, Reach H s → NativeRoProp s := by
  intro hall
  unfold nativeRoViolated at h
  cases hrun : runH H Lock.init evs with
  | none => simp [hrun] at h
  | some s =>
    rw [hrun] at h
    cases hs : s.arrs[o]? with
    | none => simp [hs] at h
    | some a =>
      simp only [hs, Bool.and_eq_true, Bool.not_eq_eq_eq_not, Bool.not_true] at h
      obtain ⟨⟨ha, ho⟩, hw⟩ := h
      have := hall s (reach_of_runH evs _ _ Reach.init hrun) o a hs ha ho
      rw [this] at hw; cases hw

theorem not_guard_of_witness {H : State → Event → Bool} {evs : List Event} {o : Nat}
    (h : counterViolated H evs o = true) : ¬ ∀ s, Reach H s → GuardProp s := by
  intro hall
  unfold counterViolated at h
  cases hrun : runH H Lock.init evs with
  | none => simp [hrun] at h
  | some s =>
    rw [hrun] at h
    cases hs : s.arrs[o]? with
    | none => simp [hs] at h
    | some a =>
      simp only [hs, Bool.and_eq_true, bne_iff_ne, ne_eq] at h
      obtain ⟨⟨ha, ho⟩, hne⟩ := h
      exact hne ((hall s (reach_of_runH evs _ _ Reach.init hrun) o a hs ha).1 ho)

/-- Witness **B** (address re-use).  `o0`,`o2` owners, `o1` a view of `o0`.  An op on `o0`, an op on `o1`;
the second is finalized (`o1` waits for `o0`), `o1` dies; a new view `o3` of `o2` is born at `o1`'s address;
ops on `o2` and on `o3`; the op on `o3` is finalized (`o3` waits for `o2`); the op on `o0` is finalized: the
loop pops `o3`'s tracker entry and NumPy refuses to unlock it; finally the op on `o2` is finalized. -/
def witnessB : List Event :=
  [.newArr 10 none true true, .newArr 11 (some 0) true true, .newArr 12 none true true,
   .opCreated [0], .opCreated [1], .opFinalized 1, .arrayDied 1,
   .newArr 11 (some 2) true true, .opCreated [2], .opCreated [3],
   .opFinalized 2, .opFinalized 0, .opFinalized 0]

/-- Witness **D3**: an owner made read-only after a (writeable) view of it was taken; the view enters an op. -/
def witnessD3 : List Event :=
  [.newArr 10 none false false, .newArr 11 (some 0) true true, .opCreated [1], .opFinalized 0]

/-- Witness **D1**: an explicitly read-only view of a writeable owner enters an op. -/
def witnessD1 : List Event :=
  [.newArr 10 none true true, .newArr 11 (some 0) false false, .opCreated [1], .opFinalized 0]

/-- Witness **R**: an array dies while an op holds it (its counter entry lingers); a natively read-only
array is born at its address, enters an op, and the op is finalized. -/
def witnessR : List Event :=
  [.newArr 10 none true true, .opCreated [0], .arrayDied 0, .newArr 10 none false false,
   .opCreated [1], .opFinalized 1]

/-- Witness **L**: the lingering counter entry itself. -/
def witnessL : List Event :=
  [.newArr 10 none true true, .opCreated [0], .arrayDied 0, .newArr 10 none true true]

/-- restoration fails with address re-use, even when every other hypothesis holds -/
theorem restore_needs_fresh_neg : ¬ ∀ s, Reach HnoFresh s → RestoreProp s :=
  not_restore_of_witness (evs := witnessB) (o := 3) (by decide)

/-- restoration fails for a writeable view of an owner made read-only afterwards (no address re-use) -/
theorem restore_needs_flags_neg : ¬ ∀ s, Reach HnoFlags s → RestoreProp s :=
  not_restore_of_witness (evs := witnessD3) (o := 1) (by decide)

theorem restore_at_quiescence_neg : ¬ restore_at_quiescence_statement := fun h =>
  restore_needs_fresh_neg (fun s hr => h s (hr.mono (fun _ _ _ => rfl)))

/-- a read-only view of a writeable owner is made writeable (no address re-use) -/
theorem never_unlocks_needs_flags_neg : ¬ ∀ s, Reach HnoFlags s → NativeRoProp s :=
  not_nativeRo_of_witness (evs := witnessD1) (o := 1) (by decide)

/-- a natively read-only *owner* is made writeable when it is born at an address with a lingering counter -/
theorem never_unlocks_needs_fresh_neg : ¬ ∀ s, Reach HnoFresh s → NativeRoProp s :=
  not_nativeRo_of_witness (evs := witnessR) (o := 1) (by decide)

theorem never_unlocks_native_readonly_neg : ¬ never_unlocks_native_readonly_statement := fun h =>
  never_unlocks_needs_flags_neg (fun s hr => h s (hr.mono (fun _ _ _ => rfl)))

theorem guard_inv_needs_fresh_neg : ¬ ∀ s, Reach HnoFresh s → GuardProp s :=
  not_guard_of_witness (evs := witnessL) (o := 1) (by decide)

theorem guard_inv_neg : ¬ guard_inv_statement := fun h =>
  guard_inv_needs_fresh_neg (fun s hr => h s (hr.mono (fun _ _ _ => rfl)))

/-! ## non-vacuity -/

/-- a view `o1`, its base `o0`, two overlapping ops (`k0` on the view — which also locks the base —
with output `o2`, `k1` on the base), the first one finalized while the second is live -/
def sample : List Event :=
  [.newArr 1 none true true, .newArr 2 (some 0) true true, .opCreated [1], .newArr 3 none true true,
   .opExtend 0 [2] none, .opCreated [0], .opFinalized 0]

def enteredOf' (s : State) (o : Nat) : Bool := (s.arrs[o]?).any (·.entered)

def sampleCheck (evs : List Event) (p : State → Bool) : Bool :=
  match runH Hall Lock.init evs with
  | some s => p s
  | none => false

/-- the history satisfies every hypothesis; afterwards the base is held once and read-only, the view
is held by nobody, still read-only (it waits for its base), and the output is writeable again -/
example : sampleCheck sample (fun s =>
    cntH s.holds 0 == 1 && cntH s.holds 1 == 0 && !wOf s 0 && !wOf s 1 && wOf s 2 &&
    cget s.counter 1 == 1 && wget s.waiting 1 == [2]) = true := by decide

/-- … and once the second op is finalized too, everything is restored and the tables are empty -/
example : sampleCheck (sample ++ [.opFinalized 0]) (fun s =>
    s.holds.isEmpty && wOf s 0 && wOf s 1 && wOf s 2 && s.counter.isEmpty && s.tracker.isEmpty &&
    s.waiting.isEmpty) = true := by decide

theorem exists_of_sampleCheck {evs : List Event} {p : State → Bool} (h : sampleCheck evs p = true) :
    ∃ s, Reach Hall s ∧ p s = true := by
  unfold sampleCheck at h
  cases hr : runH Hall Lock.init evs with
  | none => simp [hr] at h
  | some s => rw [hr] at h; exact ⟨s, reach_of_runH evs _ _ Reach.init hr, h⟩

/-- the hypotheses of the `_partial` theorems are met by that non-trivial reachable state: one live
hold on the base, the view waiting -/
example : ∃ s, Reach Hall s ∧ (cntH s.holds 0 == 1 && !wOf s 1 && enteredOf' s 1) = true :=
  exists_of_sampleCheck (evs := sample) (by decide)

end MG.C08
