import MG.Core.Nnet
import MG.Proofs.Lemmas.Nnet
import Mathlib.Algebra.BigOperators.Field
import Mathlib.Analysis.SpecialFunctions.Log.Basic

/-!
# C16 — nnet layers equal their documented equations for every valid configuration

Property theorems only.  Model: `MG/Core/Nnet.lean` (tied to `mygrad/nnet/layers/{utils,conv,pooling}.py` by
the correspondence check `harness/props/c16.py`); helper lemmas: `MG/Proofs/Lemmas/Nnet.lean`.

All theorems quantify over *every* number of batch axes, every number of windowed axes and every size,
window, step, dilation, padding (unbounded `Int`s), and every memory content.

One full-strength statement is **false of the code as it is** and is kept as `def …_statement` with a
proved negation and a proved `_partial` under a named hypothesis:

* `conv_accepts_iff_tiles_statement` — `conv_nd` rejects valid dilated configurations because
  `sliding_window_view` demands `w*d ≤ x` where `(w-1)*d+1 ≤ x` suffices (`conv_rejects_valid_neg`);
  hypothesis of the partial: `H_dil_fits`.

(Until /repo commit e458ff4 the element, memory-safety and value theorems below were also false: the code
took its byte unit from `arr.strides[-1]`, which is not the item size for arrays such as `a[:, None]` or
`row.T`; and a `step` longer than `window_shape` was accepted.  They are now proved at full strength.)
-/

namespace MG.C16
open MG.Nnet

/-! ## `sliding_window_view`: acceptance, shape -/

/-- **swv_accepts_iff.**  `sliding_window_view` accepts exactly the configurations with at least one
windowed axis in which, on every windowed axis, window, step and dilation are positive and the
`window*dilation` extent fits (`w*d ≤ x` — the rule the code's guards and its tests pin down). -/
theorem swv_accepts_iff (batch : List Int) (axes : List Ax) :
    accepted (swv batch axes) = true ↔
      axes ≠ [] ∧ ∀ a ∈ axes, 0 < a.w ∧ 0 < a.s ∧ 0 < a.d ∧ a.w * a.d ≤ a.x :=
  (swv_accepted_iff batch axes).trans (swvGuard_none_iff batch axes)

example : accepted (swv [10] [⟨12, 3, 2, 2⟩, ⟨6, 3, 2, 1⟩]) = true := by decide
example : accepted (swv [] [⟨5, 3, 1, 2⟩]) = false := by decide

/-- **swvSeq_accepts_iff.**  On argument *sequences*: accepted iff `window_shape` is non-empty with positive
entries and no longer than `arr.ndim`, `step` and `dilation` have exactly its length, and the per-axis rule
holds on the trailing axes. -/
theorem swvSeq_accepts_iff (shape window step : List Int) (dil : Option (List Int)) :
    accepted (swvSeq shape window step dil) = true ↔
      (∀ w ∈ window, 0 < w) ∧ window.length ≤ shape.length ∧ step.length = window.length ∧
      (dil.getD (window.map fun _ => 1)).length = window.length ∧
      mkAxes (shape.drop (shape.length - window.length)) window step (dil.getD (window.map fun _ => 1)) ≠ [] ∧
      ∀ a ∈ mkAxes (shape.drop (shape.length - window.length)) window step (dil.getD (window.map fun _ => 1)),
        0 < a.w ∧ 0 < a.s ∧ 0 < a.d ∧ a.w * a.d ≤ a.x := by
  rw [swvSeq_accepted_iff, swv_accepts_iff]

/-- **swvSeq_rejects_length_mismatch.**  A `step` (or `dilation`) whose length differs from
`len(window_shape)` is rejected — in particular the over-long `step` that used to yield an out-of-bounds view. -/
theorem swvSeq_rejects_length_mismatch (shape window step : List Int) (dil : Option (List Int))
    (h : step.length ≠ window.length ∨ (dil.getD (window.map fun _ => 1)).length ≠ window.length) :
    accepted (swvSeq shape window step dil) = false := by
  cases hacc : accepted (swvSeq shape window step dil) with
  | false => rfl
  | true =>
    have := (swvSeq_accepted_iff _ _ _ _).1 hacc
    rcases h with h | h
    · exact absurd this.2.2.1 h
    · exact absurd this.2.2.2.1 h

example : accepted (swvSeq [5] [2] [1, 2] none) = false := by decide
example : swvSeq [10, 12, 6] [3, 3] [2, 2] (some [2, 1]) = swv [10] [⟨12, 3, 2, 2⟩, ⟨6, 3, 2, 1⟩] := by decide

/-- **swv_shape.**  An accepted call returns a read-only view of shape `(G…, batch…, W…)` where, on each
windowed axis, `G = (x - ((w-1)d+1)) // s + 1 ≥ 1` is exactly the number of placements `g ≥ 0` whose
dilated window `[g*s, g*s + (w-1)d]` lies inside the axis (placed greedily, none missing). -/
theorem swv_shape {batch : List Int} {axes : List Ax} {v : View}
    (h : swv batch axes = .ok v) :
    v.shape = axes.map grid ++ batch ++ axes.map (·.w) ∧ v.writeable = false ∧
      v.strides.length = v.shape.length ∧
      ∀ a ∈ axes, 0 < grid a ∧ ∀ g : Int, g < grid a ↔ g * a.s + ext a.w a.d ≤ a.x := by
  obtain ⟨hg, rfl⟩ := swv_ok h
  obtain ⟨_, hax⟩ := (swvGuard_none_iff _ _).1 hg
  refine ⟨rfl, rfl, ?_, fun a ha => ?_⟩
  · simp [swvResult, length_cstrides]
  · obtain ⟨hw, hs, hd, hf⟩ := hax a ha
    have key : ∀ g : Int, g < grid a ↔ g * a.s + ext a.w a.d ≤ a.x := by
      intro g
      unfold grid
      rw [grid_iff hs]
      omega
    refine ⟨(key 0).2 ?_, key⟩
    have h1 : a.w * a.d = (a.w - 1) * a.d + a.d := by
      rw [Int.sub_mul]; omega
    unfold ext
    omega

example : swv [10] [⟨12, 3, 2, 2⟩, ⟨6, 3, 2, 1⟩] =
    .ok ⟨[4, 2, 10, 3, 3], [12, 2, 72, 12, 1], false⟩ := by decide

/-! ## `sliding_window_view`: which element an index addresses -/

/-- **swv_offset.**  The element offset addressed by the view index `(G, N, K)` is the row-major offset of
`arr[N, G*step + K*dilation]`. -/
theorem swv_offset {batch : List Int} {axes : List Ax} {v : View}
    (h : swv batch axes = .ok v) (G N K : List Int)
    (hG : G.length = axes.length) (hN : N.length = batch.length) (hK : K.length = axes.length) :
    dot (G ++ N ++ K) v.strides = dot (N ++ pos G K axes) (cstrides (batch ++ axes.map (·.x))) := by
  obtain ⟨_, rfl⟩ := swv_ok h
  exact swvResult_offset batch axes G N K hG hN hK

/-- **swv_element.**  `out[g…, n…, k…] = arr[n…, g*step + k*dilation]`, for every accepted call and every
memory content. -/
theorem swv_element {batch : List Int} {axes : List Ax} {v : View} (mem : Mem)
    (h : swv batch axes = .ok v) (G N K : List Int)
    (hG : G.length = axes.length) (hN : N.length = batch.length) (hK : K.length = axes.length) :
    viewGet mem v (G ++ N ++ K) = arrGet mem (batch ++ axes.map (·.x)) (N ++ pos G K axes) := by
  unfold viewGet arrGet
  rw [swv_offset h G N K hG hN hK]

/-- hypotheses of `swv_element` are met by a 2-d window with step and dilation over a batch axis -/
example : ∃ v, swv [10] [⟨12, 3, 2, 2⟩, ⟨6, 3, 2, 1⟩] = .ok v ∧
    dot ([3, 1] ++ [7] ++ [2, 1]) v.strides = dot [7, 3 * 2 + 2 * 2, 1 * 2 + 1 * 1] (cstrides [10, 12, 6]) :=
  ⟨_, rfl, by decide⟩

/-! ## `sliding_window_view`: memory safety -/

/-- **swv_in_bounds.**  Memory safety of the `as_strided` call: every valid index of the returned view
addresses `arr[n…, p…]` with `(n…, p…)` a valid index of `arr`, hence an offset in `[0, arr.size)`. -/
theorem swv_in_bounds {batch : List Int} {axes : List Ax} {v : View}
    (h : swv batch axes = .ok v) (idx : List Int) (hi : InBox idx v.shape) :
    0 ≤ dot idx v.strides ∧ dot idx v.strides < prod (batch ++ axes.map (·.x)) := by
  obtain ⟨hg, rfl⟩ := swv_ok h
  obtain ⟨_, hax⟩ := (swvGuard_none_iff _ _).1 hg
  obtain ⟨G, N, K, rfl, hG, hN, hK, hbox⟩ :=
    swvResult_inBox batch axes (fun a ha => ⟨(hax a ha).2.1, (hax a ha).2.2.1⟩) idx hi
  rw [swvResult_offset batch axes G N K hG hN hK]
  exact dot_cstrides_bound hbox

example : ∃ v, swv [2] [⟨7, 3, 2, 2⟩] = .ok v ∧ InBox [1, 1, 2] v.shape := ⟨_, rfl, by decide⟩

/-! ## `conv_nd`: acceptance -/

/-- the documented validity of a configuration: at least one convolved axis, matching channel depth, and
on every axis a non-empty filter whose every placement lies inside the padded data and whose placements
tile it exactly -/
def ConvValid (c cw : Int) (axes : List CAx) : Prop :=
  axes ≠ [] ∧ c = cw ∧ ∀ a ∈ axes, 0 < a.w ∧ CAxTile a

/-- **conv_accepts_iff.**  What the code accepts: the valid configurations *that also satisfy
`w*d ≤ x+2p`* on every axis (the guard inherited from `sliding_window_view`). -/
theorem conv_accepts_iff (n c cw : Int) (axes : List CAx) :
    accepted (convView n c cw axes) = true ↔
      ConvValid c cw axes ∧ ∀ a ∈ axes, a.w * a.d ≤ a.x + 2 * a.p := by
  rw [convView_accepted_iff]
  unfold ConvValid
  constructor
  · rintro ⟨h1, h2, h3⟩
    exact ⟨⟨h1, h2, fun a ha => ⟨(h3 a ha).1, (h3 a ha).2.1⟩⟩, fun a ha => (h3 a ha).2.2⟩
  · rintro ⟨⟨h1, h2, h3⟩, h4⟩
    exact ⟨h1, h2, fun a ha => ⟨(h3 a ha).1, (h3 a ha).2, h4 a ha⟩⟩

/-- full statement: `conv_nd` accepts exactly the valid configurations -/
def conv_accepts_iff_tiles_statement : Prop :=
  ∀ (n c cw : Int) (axes : List CAx),
    accepted (convView n c cw axes) = true ↔ ConvValid c cw axes

/-- **conv_rejects_valid_neg.**  Witness: one axis, `x=5, w=3, stride=1, padding=0, dilation=2`: the dilated
filter has extent `(3-1)*2+1 = 5` and fits exactly once, yet the call is rejected (`3*2 > 5`). -/
theorem conv_rejects_valid_neg : ¬ conv_accepts_iff_tiles_statement := by
  intro h
  have hv : ConvValid 1 1 [⟨5, 3, 1, 0, 2⟩] := by
    refine ⟨by simp, rfl, ?_⟩
    intro a ha
    simp only [List.mem_singleton] at ha
    subst ha
    exact ⟨by decide, by decide, by decide, by decide, by decide, ⟨0, by decide⟩⟩
  have := (h 1 1 1 [⟨5, 3, 1, 0, 2⟩]).2 hv
  revert this
  decide

/-- **conv_accepts_iff_tiles_partial** (`H_dil_fits`: `w*d ≤ x+2p` on every axis — always true for
`dilation = 1`). -/
theorem conv_accepts_iff_tiles_partial (n c cw : Int) (axes : List CAx)
    (H_dil_fits : ∀ a ∈ axes, a.w * a.d ≤ a.x + 2 * a.p) :
    accepted (convView n c cw axes) = true ↔ ConvValid c cw axes := by
  rw [conv_accepts_iff]
  exact ⟨fun h => h.1, fun h => ⟨h, H_dil_fits⟩⟩

/-- `H_dil_fits` is implied by validity whenever the dilation is 1 -/
theorem dil_fits_of_dilation_one (c cw : Int) (axes : List CAx) (hv : ConvValid c cw axes)
    (hd : ∀ a ∈ axes, a.d = 1) : ∀ a ∈ axes, a.w * a.d ≤ a.x + 2 * a.p := by
  intro a ha
  have := (hv.2.2 a ha).2.2.2.2.1
  rw [hd a ha] at this ⊢
  unfold ext at this
  omega

example : accepted (convView 2 3 3 [⟨7, 3, 2, 1, 1⟩, ⟨5, 2, 1, 0, 2⟩]) = true := by decide
example : accepted (convView 2 3 3 [⟨7, 3, 2, 0, 1⟩]) = true ∧
    accepted (convView 2 3 3 [⟨8, 3, 2, 0, 1⟩]) = false := by decide

/-! ## `conv_nd`: values -/

/-- pointwise form, for every memory content and every output index -/
theorem conv_get_impl_eq_naive {n c cw : Int} {axes : List CAx} {v : View}
    (h : convView n c cw axes = .ok v) (xmem wmem : Mem)
    (n' f : Int) (g : List Int) (hg : g.length = axes.length) :
    convImplGet xmem v wmem c (axes.map (·.w)) (n' :: f :: g) =
      convNaiveGet xmem n c axes wmem (axes.map (·.w)) (n' :: f :: g) :=
  conv_get_eq h xmem wmem n' f g hg

/-- **conv_impl_eq_naive.**  What `conv_nd` computes (window view → `tensordot` → `moveaxis`) is the naive
evaluation of `out[n,f,g…] = Σ_{c,k…} w[f,c,k…]·xpad[n,c,g·s+k·d…]`, for all configurations and all data
(and both reject the same configurations). -/
theorem conv_impl_eq_naive (n c cw f : Int) (axes : List CAx) (xbuf wbuf : List Int) :
    convImpl n c cw f axes xbuf wbuf = convNaive n c cw f axes xbuf wbuf := by
  unfold convImpl convNaive
  cases hv : convView n c cw axes with
  | error e => rfl
  | ok v =>
    simp only
    congr 2
    apply List.map_congr_left
    intro idx hidx
    have hlen := length_of_mem_indices hidx
    match idx, hlen with
    | n' :: f' :: g, hlen =>
      exact conv_get_eq hv _ _ n' f' g (by simpa [convOutShape] using hlen)

example : convImpl 1 2 2 1 [⟨5, 2, 1, 1, 2⟩] [1, 2, 3, 4, 5, 6, 7, 8, 9, 10] [1, -1, 2, 0] =
    .ok ([1, 1, 5], [-2, 10, 12, 14, 22]) := by decide

/-! ## `max_pool` -/

/-- **pool_accepts_iff.**  `max_pool` accepts exactly the configurations with at least one pooled axis in
which every pooling window lies inside the data and the placements tile it exactly. -/
theorem pool_accepts_iff (batch : List Int) (axes : List PAx) :
    accepted (poolView batch axes) = true ↔
      axes ≠ [] ∧ ∀ a ∈ axes, 0 < a.w ∧ 1 ≤ a.s ∧ a.w ≤ a.x ∧ a.s ∣ (a.x - a.w) :=
  poolView_accepted_iff batch axes

example : accepted (poolView [10, 3] [⟨12, 2, 2⟩, ⟨12, 2, 1⟩]) = true := by decide
example : accepted (poolView [] [⟨5, 2, 2⟩]) = false := by decide

theorem pool_get_impl_eq_naive {batch : List Int} {axes : List PAx} {v : View}
    (h : poolView batch axes = .ok v) (mem : Mem)
    (idx : List Int) (hidx : idx.length = batch.length + axes.length) :
    poolImplGet mem v batch.length (axes.map (·.w)) idx = poolNaiveGet mem batch axes idx :=
  pool_get_eq h mem idx hidx

/-- **pool_impl_eq_naive.**  Window view → `max` over the window axes → transpose equals
`out[n…, g…] = max_k x[n…, g·s + k]`, for all configurations and all data. -/
theorem pool_impl_eq_naive (batch : List Int) (axes : List PAx) (buf : List Int) :
    maxPoolImpl batch axes buf = maxPoolNaive batch axes buf := by
  unfold maxPoolImpl maxPoolNaive
  cases hv : poolView batch axes with
  | error e => rfl
  | ok v =>
    simp only
    congr 2
    apply List.map_congr_left
    intro idx hidx
    have hlen := length_of_mem_indices hidx
    exact pool_get_eq hv _ idx (by simpa [poolOutShape] using hlen)

example : maxPoolImpl [] [⟨3, 2, 1⟩, ⟨3, 2, 1⟩] [0, 10, 8, 2, 7, 3, 5, 7, 20] =
    .ok ([2, 2], [10, 10, 7, 20]) := by decide

/-! ## softmax / logsoftmax over `ℝ`: the stabilised form is the documented formula -/

open Real in
/-- **softmax_shift.**  `_softmax` computes `exp(x - max x) / Σ exp(x - max x)`; for *any* shift `m` this is
the documented `exp(x) / Σ exp(x)`. -/
theorem softmax_shift {ι : Type} [Fintype ι] (x : ι → ℝ) (m : ℝ) (i : ι) :
    exp (x i - m) / ∑ j, exp (x j - m) = exp (x i) / ∑ j, exp (x j) := by
  have h : ∀ j, exp (x j - m) = exp (x j) / exp m := fun j => exp_sub _ _
  simp only [h, ← Finset.sum_div]
  exact div_div_div_cancel_right₀ (exp_pos m).ne' _ _

open Real in
/-- **logsoftmax_shift.**  `LogSoftmax` computes `x - (log Σ exp(x - m) + m)` (`logsumexp` with `m = max x`);
this is the documented `log (exp(x) / Σ exp(x))`. -/
theorem logsoftmax_shift {ι : Type} [Fintype ι] (x : ι → ℝ) (m : ℝ) (i : ι) :
    x i - (log (∑ j, exp (x j - m)) + m) = log (exp (x i) / ∑ j, exp (x j)) := by
  have h : ∀ j, exp (x j - m) = exp (x j) / exp m := fun j => exp_sub _ _
  have hS : 0 < ∑ j, exp (x j) :=
    Finset.sum_pos (fun j _ => exp_pos _) ⟨i, Finset.mem_univ i⟩
  simp only [h, ← Finset.sum_div]
  rw [log_div hS.ne' (exp_pos m).ne', log_div (exp_pos _).ne' hS.ne', log_exp, log_exp]
  ring

open Real in
/-- softmax sums to one (the normalisation the losses rely on) -/
theorem softmax_sum_one {ι : Type} [Fintype ι] [Nonempty ι] (x : ι → ℝ) :
    ∑ i, exp (x i) / ∑ j, exp (x j) = 1 := by
  have hS : 0 < ∑ j, exp (x j) :=
    Finset.sum_pos (fun j _ => exp_pos _) Finset.univ_nonempty
  rw [← Finset.sum_div]
  exact div_self hS.ne'

example : (∑ j : Fin 3, Real.exp ((fun _ => (2 : ℝ)) j - 2)) = 3 := by simp

end MG.C16
