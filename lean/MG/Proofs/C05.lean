import MG.Proofs.C02Struct
import MG.Proofs.Lemmas.Heap
/-!
# C05 — gradients flow correctly through in-place updates and views

An in-place update is recorded as ordinary graph nodes over *placeholder* tensors that keep the
pre-mutation value: `SetItem(placeholder, value)`, a ufunc with `out=`/`where=` followed by
`ApplyMask(new, placeholder)`, and `UnView(base placeholder, mutated view)`.  C01's `backward_sound`
then applies to the resulting graph unchanged.  What remains to be shown is that the VJPs the engine
model uses for these three nodes are the adjoints of the *functional* updates they stand for
("overwritten elements pass nothing to their old contents, masked-out elements pass their gradient to
the old contents, the last write of a repeated index wins").  The adjointness itself is proved, for all
index lists and masks, in `MG/Proofs/C02Struct.lean` (`setitem_vjp`, `where_mask_vjp`); here the
engine model's definitions are shown to *be* those functions.
-/
namespace MG.C05
open MG.Eng MG.Lin MG.C02

/-- the forward write of the model (`out[key] = value`, later writes win) is `Lin.setitem` -/
theorem model_setitem_fwd_eq (old : List Int) : ∀ (ps : List Nat) (vals : List Int),
    (List.zip ps vals).foldl (fun acc (pv : Nat × Int) => acc.set pv.1 pv.2) old = setitem old ps vals := by
  intro ps
  induction ps generalizing old with
  | nil => intro vals; simp [setitem]
  | cons p ps ih =>
    intro vals
    cases vals with
    | nil => simp [setitem]
    | cons v vs => simp only [List.zip_cons_cons, List.foldl_cons, setitem]; exact ih _ vs

/-- the model's VJP of `SetItem` w.r.t. the old contents (`grad[key] = 0`) is `Lin.zeroAt` -/
theorem model_setitem_vjp0_eq (g : List Int) : ∀ (ps : List Nat),
    ps.foldl (fun acc p => acc.set p 0) g = zeroAt g ps := by
  intro ps
  induction ps generalizing g with
  | nil => rfl
  | cons p ps ih => simp only [List.foldl_cons, zeroAt]; exact ih _

/-- the model's "keep only the last write of every position" mask -/
def keepLast (ps : List Nat) : List Bool :=
  (List.range ps.length).map fun j => !((ps.drop (j + 1)).contains (ps.getD j 0))

theorem keepLast_cons (p : Nat) (ps : List Nat) :
    keepLast (p :: ps) = (!(ps.contains p)) :: keepLast ps := by
  simp only [keepLast, List.length_cons, List.range_succ_eq_map, List.map_cons, List.map_map]
  congr 1

/-- the model's VJP of `SetItem` w.r.t. the value (`grad[key]` masked to the winning writes) is
`Lin.winCoef` -/
theorem model_setitem_vjp1_eq (g : List Int) : ∀ (ps : List Nat),
    (List.zip (Eng.gather ps g) (keepLast ps)).map (fun (xk : Int × Bool) => if xk.2 then xk.1 else 0)
      = winCoef g ps := by
  intro ps
  induction ps with
  | nil => simp [Eng.gather, keepLast, winCoef]
  | cons p ps ih =>
    rw [keepLast_cons]
    simp only [Eng.gather, List.map_cons, List.zip_cons_cons, winCoef]
    congr 1
    by_cases hc : ps.contains p = true <;> simp [hc]

/-- **setitem_vjp_adjoint.**  For every position list (repeats allowed), old contents `a`, value `b`
and upstream gradient `g`:  ⟨g, a[ps] := b⟩ = ⟨vjp₀ g, a⟩ + ⟨vjp₁ g, b⟩ with the *model's* two VJPs —
overwritten elements pass nothing to the old contents, and of several writes to one element only the
last passes its gradient to the value. -/
theorem setitem_vjp_adjoint (g a : List Int) (ps : List Nat) (b : List Int)
    (hl : g.length = a.length) (hb : ps.length = b.length) :
    dot g ((List.zip ps b).foldl (fun acc (pv : Nat × Int) => acc.set pv.1 pv.2) a) =
      dot (ps.foldl (fun acc p => acc.set p 0) g) a +
      dot ((List.zip (Eng.gather ps g) (keepLast ps)).map fun (xk : Int × Bool) => if xk.2 then xk.1 else 0) b := by
  rw [model_setitem_fwd_eq, model_setitem_vjp0_eq, model_setitem_vjp1_eq]
  exact setitem_vjp g a ps b hl hb

theorem winCoef_nodup (g : List Int) : ∀ (ps : List Nat), ps.Nodup → winCoef g ps = Lin.gather ps g := by
  intro ps
  induction ps with
  | nil => intro _; rfl
  | cons p ps ih =>
    intro hn
    have hp : p ∉ ps := (List.nodup_cons.mp hn).1
    simp only [winCoef, Lin.gather, List.map_cons]
    congr 1
    · simp [hp]
    · exact ih (List.nodup_cons.mp hn).2

/-- **unview_vjp_adjoint.**  `UnView` joins the mutated view (occupying the *distinct* positions `ps` of
the base) with the untouched remainder of the old base.  Its two VJPs in the model — the gradient with
the view's positions zeroed for the old base, the gradient gathered at the view's positions for the
mutated view — are the adjoint of that join. -/
theorem unview_vjp_adjoint (g base : List Int) (ps : List Nat) (view : List Int) (hn : ps.Nodup)
    (hl : g.length = base.length) (hb : ps.length = view.length) :
    dot g (setitem base ps view) =
      dot (ps.foldl (fun acc p => acc.set p 0) g) base + dot (Eng.gather ps g) view := by
  rw [model_setitem_vjp0_eq, setitem_vjp g base ps view hl hb, winCoef_nodup g ps hn]
  rfl

/-- **model_unview_vjp_eq.**  What the engine model's `vjp` computes for an `UnView` node whose chain
replays to the window `d` is literally those two functions. -/
theorem model_unview_vjp_eq (g : List Int) (ps : List Nat) :
    ps.foldl (fun acc p => acc.set p 0) g = zeroAt g ps ∧ Eng.gather ps g = Lin.gather ps g :=
  ⟨model_setitem_vjp0_eq g ps, rfl⟩

/-- the model's `where=` tail and `ApplyMask` rule are `Lin.maskMul` with the mask resp. its negation -/
theorem model_mask_eq : ∀ (xs : List Int) (mk : List Bool),
    (List.zip xs mk).map (fun (xk : Int × Bool) => if xk.2 then xk.1 else 0) = maskMul mk xs ∧
    (List.zip xs mk).map (fun (xb : Int × Bool) => if xb.2 then 0 else xb.1) = maskMul (notMask mk) xs := by
  intro xs
  induction xs with
  | nil => intro mk; cases mk <;> simp [maskMul, notMask]
  | cons x xs ih =>
    intro mk
    cases mk with
    | nil => simp [maskMul, notMask]
    | cons b mk =>
      obtain ⟨h1, h2⟩ := ih mk
      simp only [List.zip_cons_cons, List.map_cons, maskMul, notMask] at h1 h2 ⊢
      refine ⟨by rw [h1], ?_⟩
      rw [h2]
      cases b <;> rfl

/-- **applyMask_vjp_adjoint.**  `np.<ufunc>(x, y, where=m, out=z)` makes the new `z` equal to
`select m (f x y) z_old`.  The model sends `m ⊙ g` to the ufunc's result (its `where=` tail) and
`¬m ⊙ g` to the old contents (`ApplyMask`): exactly the adjoint of `select` — masked-out elements pass
their gradient to the old contents, masked-in elements pass it to the new value only. -/
theorem applyMask_vjp_adjoint (m : List Bool) (g new old : List Int)
    (h1 : m.length = g.length) (h2 : m.length = new.length) (h3 : m.length = old.length) :
    dot g (select m new old) =
      dot ((List.zip g m).map fun (xk : Int × Bool) => if xk.2 then xk.1 else 0) new +
      dot ((List.zip g m).map fun (xb : Int × Bool) => if xb.2 then 0 else xb.1) old := by
  rw [(model_mask_eq g m).1, (model_mask_eq g m).2]
  exact where_mask_vjp m g new old h1 h2 h3

/-- **placeholder_keeps_value.**  Creating a placeholder never writes a buffer and the placeholder
points at the very array of the original: every op recorded before the mutation keeps differentiating
through the pre-mutation values. -/
theorem placeholder_keeps_value (h : Heap) (x : Nat) (b : Option Nat) (h2 : Heap) (p : Nat)
    (hok : makePlaceholder h x b = .ok (h2, p)) : h2.bufs = h.bufs ∧ (h2.t p).data = (h.t x).data := by
  unfold makePlaceholder at hok
  split at hok
  · cases hok
  · simp only [Except.ok.injEq, Prod.mk.injEq] at hok
    obtain ⟨rfl, rfl⟩ := hok
    -- `reroute` changes op records only
    have hr : ∀ (L : List Nat) (hh : Heap) (src tgt : Nat),
        let h' := L.foldl (fun h f =>
          let o := h.op f
          h.setOp f { o with vars := o.vars.map fun v => if v = src then tgt else v }) hh
        h'.bufs = hh.bufs ∧ ∀ t, h'.t t = hh.t t := by
      intro L
      induction L with
      | nil => intro hh _ _; exact ⟨rfl, fun _ => rfl⟩
      | cons f L ih =>
        intro hh src tgt
        simp only [List.foldl_cons]
        obtain ⟨e1, e2⟩ := ih (hh.setOp f { hh.op f with vars := (hh.op f).vars.map fun v => if v = src then tgt else v }) src tgt
        exact ⟨e1.trans rfl, fun t => (e2 t).trans rfl⟩
    obtain ⟨e1, e2⟩ := hr _ ((mirror h.fresh.1 h.fresh.2 x).modT h.fresh.2 ({ · with base := b })) x h.fresh.2
    unfold reroute
    refine ⟨e1.trans rfl, ?_⟩
    rw [e2]
    simp only [mirror, t_modT_self, t_setT_self]
    rfl

/-! ## the engine model's `vjp` *is* these functions -/

/-- `backward_var(grad, 0)` of a `SetItem` node in the model: the gradient with the written positions zeroed -/
theorem model_vjp_setitem0 (h : Heap) (key : SetKey) (vars : List Nat) (g : Val) (selSh : ND.Shape) (ps : List Nat)
    (hsel : key.select g.1 = .ok (selSh, ps)) :
    vjp h { kind := .setitem key, vars := vars } 0 g = .ok (g.1, zeroAt g.2 ps) := by
  simp only [vjp, hsel, ite_true]
  rw [model_setitem_vjp0_eq]

/-- `backward_var(grad, 1)` of a `SetItem` node in the model (value with at least as many axes as the
selection): the gradient at the written positions, masked to the last write of every position -/
theorem model_vjp_setitem1 (h : Heap) (key : SetKey) (vars : List Nat) (g : Val) (selSh : ND.Shape) (ps : List Nat)
    (hsel : key.select g.1 = .ok (selSh, ps))
    (hrank : ¬ selSh.length < (h.val (h.t (vars.getD 1 0)).data).1.length) :
    vjp h { kind := .setitem key, vars := vars } 1 g = .ok (selSh, winCoef g.2 ps) := by
  have hk : (List.range ps.length).map (fun j => !((ps.drop (j + 1)).contains (ps.getD j 0))) = keepLast ps := rfl
  have hfun : (fun (x : Int × Bool) => match x with | (x, k) => if k = true then x else 0) =
      (fun (xk : Int × Bool) => if xk.2 then xk.1 else 0) := by
    funext ⟨x, k⟩; rfl
  simp only [vjp, hsel, Nat.one_ne_zero, ite_false, hrank, hk, hfun]
  rw [model_setitem_vjp1_eq]

end MG.C05
