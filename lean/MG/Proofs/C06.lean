import MG.Core.Engine
/-!
# C06 — a view's gradient is the corresponding view of its base's gradient

The `.grad` of a view is obtained by replaying the view's chain of view-ops on the base's gradient
array.  Whether that replay yields *views* (shared memory) is a property of strided descriptors:
`ViewFn.apply` of `MG/Core/Engine.lean` over `Desc` of `MG/Core/NDIndex.lean`, which is compared with
NumPy itself on random strided windows by `harness/props/c06.py`.
-/
namespace MG.C06
open MG.Eng MG.ND

/-- replay a chain of view ops on a window; the flag says whether every step was a NumPy *view* -/
def applyChain : List ViewFn → Desc → Except Err (Desc × Bool)
  | [], d => .ok (d, true)
  | f :: fs, d =>
    match f.apply d with
    | .error e => .error e
    | .ok (d', v) =>
      match applyChain fs d' with
      | .error e => .error e
      | .ok (d'', v') => .ok (d'', v && v')

/-- **view_grad_is_view** (under `H_layout`).  If the base's gradient array is laid out exactly like
the base's data (`dg = dd`: same offset, shape and strides — what the first-contribution copy must
guarantee), then replaying *any* chain of view ops (slices, transposes, reshapes, new axes, …) on
the gradient takes exactly the decisions it takes on the data: it succeeds iff it does on the data,
every step is a view iff it is on the data, and it selects the same positions — so the view's
gradient is available, equals the chain applied to the base's gradient, and shares its memory. -/
theorem view_grad_is_view (fs : List ViewFn) (dd dg : Desc) (H_layout : dg = dd) :
    applyChain fs dg = applyChain fs dd ∧
    ∀ d v, applyChain fs dd = .ok (d, v) → ∃ d', applyChain fs dg = .ok (d', v) ∧ d'.positions = d.positions := by
  subst H_layout
  exact ⟨rfl, fun d v h => ⟨d, h, rfl⟩⟩

/-- The statement *without* `H_layout`: for base data and a gradient array of the same shape (but
possibly another memory layout) every chain that is a view on the data is a view on the gradient. -/
def view_grad_statement : Prop :=
  ∀ (fs : List ViewFn) (dd dg : Desc), dg.shape = dd.shape → dg.off = dd.off →
    ∀ d, applyChain fs dd = .ok (d, true) → ∃ d', applyChain fs dg = .ok (d', true)

/-- **view_grad_neg.**  Without `H_layout` the statement is false: base of shape (2,3) with
C-ordered data, a gradient that arrived F-ordered (strides (1,2), e.g. through `b.T`), view
`reshape(6)`: a view of the data, but NumPy must *copy* the gradient. -/
theorem view_grad_neg : ¬ view_grad_statement := by
  intro h
  have := h [.reshape [6]] (Desc.contig 0 [2, 3]) ⟨0, [2, 3], [1, 2]⟩ rfl rfl
    ⟨0, [6], [1]⟩ (by rfl)
  obtain ⟨d', hd'⟩ := this
  have e : applyChain [.reshape [6]] ⟨0, [2, 3], [1, 2]⟩ = .ok (Desc.contig 0 [6], false) := by rfl
  rw [e] at hd'
  simp at hd'

/-- a C-contiguous window can be reshaped to any shape of the same size without copying -/
theorem reshape_contig_is_view (d : Desc) (sh : Shape) (hc : d.isCContig = true) :
    d.reshapeNoCopy sh = some ⟨d.off, sh, (cstrides sh).map Int.ofNat⟩ := by
  simp [Desc.reshapeNoCopy, hc]

/-- transposes, `.T`, new axes, squeezes and broadcasts never copy -/
theorem permuting_views_never_copy (f : ViewFn) (d d' : Desc) (v : Bool)
    (hf : match f with | .getitem _ => False | .reshape _ => False | _ => True)
    (h : f.apply d = .ok (d', v)) : v = true := by
  cases f with
  | getitem ix => cases hf
  | reshape t => cases hf
  | transpose axes =>
    simp only [ViewFn.apply] at h
    split at h <;> simp_all
  | tprop => simp only [ViewFn.apply, Except.ok.injEq, Prod.mk.injEq] at h; exact h.2.symm
  | expand ax =>
    simp only [ViewFn.apply] at h
    split at h <;> simp_all
  | squeeze ax =>
    simp only [ViewFn.apply] at h
    split at h <;> simp_all
  | broadcastTo sh =>
    simp only [ViewFn.apply] at h
    split at h <;> simp_all

/-- **permuting_views_layout_independent.**  For every view op other than basic indexing and `reshape`, whether it
succeeds, the shape of its result and the fact that the result is a view depend on the operand's *shape* only — never
on its offset or strides: C-ordered, Fortran-ordered and strided operands of one shape behave alike (`reshape` is the
one layout-dependent op; `reshape_contig_is_view` / `reshapeNoCopy` say when it copies). -/
theorem permuting_views_layout_independent (f : ViewFn) (d1 d2 : Desc) (hs : d1.shape = d2.shape)
    (hf : match f with | .getitem _ => False | .reshape _ => False | _ => True) :
    (match f.apply d1, f.apply d2 with
     | .ok (r1, v1), .ok (r2, v2) => r1.shape = r2.shape ∧ v1 = v2
     | .error e1, .error e2 => e1 = e2
     | _, _ => False) := by
  cases f with
  | getitem ix => cases hf
  | reshape t => cases hf
  | transpose axes =>
    simp only [ViewFn.apply, Desc.transpose, hs]
    by_cases h : isPerm d2.shape.length axes = true <;> simp [h]
  | tprop => simp [ViewFn.apply, Desc.T, hs]
  | expand ax =>
    simp only [ViewFn.apply, Desc.expandDims, hs]
    by_cases h : ax ≤ d2.shape.length <;> simp [h]
  | squeeze ax =>
    simp only [ViewFn.apply, Desc.squeeze, hs]
    by_cases h : d2.shape[ax]?.getD 0 = 1 <;> simp [h]
  | broadcastTo sh =>
    simp only [ViewFn.apply, Desc.broadcastTo, hs]
    by_cases h : broadcastableTo d2.shape sh = true <;> simp [h]

/-- the outcome class of a basic index: the error, or the shape of the selection -/
def ixOutcome : Except IxErr (Int × Shape × List Int) → Except IxErr Shape
  | .ok (_, s, _) => .ok s
  | .error e => .error e

theorem applyIx_layout_independent (ixs : List Ix) :
    ∀ (sh : Shape) (o1 o2 : Int) (st1 st2 : List Int), st1.length = sh.length → st2.length = sh.length →
      ixOutcome (applyIx ixs o1 sh st1) = ixOutcome (applyIx ixs o2 sh st2) := by
  induction ixs with
  | nil =>
    intro sh o1 o2 st1 st2 h1 h2
    cases sh with
    | nil =>
      cases st1 <;> cases st2 <;> simp_all [applyIx, ixOutcome]
    | cons n sh =>
      cases st1 <;> cases st2 <;> simp_all [applyIx, ixOutcome]
  | cons i r ih =>
    intro sh o1 o2 st1 st2 h1 h2
    cases i with
    | newaxis =>
      have := ih sh o1 o2 st1 st2 h1 h2
      simp only [applyIx]
      cases e1 : applyIx r o1 sh st1 <;> cases e2 : applyIx r o2 sh st2 <;> simp_all [ixOutcome]
    | ellipsis =>
      cases sh <;> cases st1 <;> cases st2 <;> simp_all [applyIx, ixOutcome]
    | int k =>
      cases sh with
      | nil => cases st1 <;> cases st2 <;> simp_all [applyIx, ixOutcome]
      | cons n sh =>
        cases st1 with
        | nil => simp at h1
        | cons a st1 =>
          cases st2 with
          | nil => simp at h2
          | cons b st2 =>
            simp only [applyIx]
            generalize (if k < 0 then k + (n : Int) else k) = k'
            by_cases hk : k' < 0 ∨ k' ≥ (n : Int)
            · simp [hk, ixOutcome]
            · simp only [hk, if_false]
              exact ih sh _ _ st1 st2 (by simpa using h1) (by simpa using h2)
    | slice a b c =>
      cases sh with
      | nil => cases st1 <;> cases st2 <;> simp_all [applyIx, ixOutcome]
      | cons n sh =>
        cases st1 with
        | nil => simp at h1
        | cons x st1 =>
          cases st2 with
          | nil => simp at h2
          | cons y st2 =>
            simp only [applyIx]
            by_cases hc : c = 0
            · simp [hc, ixOutcome]
            · simp only [hc, if_false]
              have := ih sh (if (sliceAdjust n a b c).2 = 0 then o1 else o1 + (sliceAdjust n a b c).1 * x)
                (if (sliceAdjust n a b c).2 = 0 then o2 else o2 + (sliceAdjust n a b c).1 * y) st1 st2 (by simpa using h1) (by simpa using h2)
              revert this
              cases applyIx r (if (sliceAdjust n a b c).2 = 0 then o1 else o1 + (sliceAdjust n a b c).1 * x) sh st1 <;>
                cases applyIx r (if (sliceAdjust n a b c).2 = 0 then o2 else o2 + (sliceAdjust n a b c).1 * y) sh st2 <;>
                simp_all [ixOutcome]

/-- **getitem_layout_independent.**  Basic indexing, too, depends on the operand's shape only: for two windows of one
shape (each with one stride per axis), `x[ix]` fails with the same error or succeeds with the same result shape and
the same view-ness — whatever their offsets and strides.  Together with `permuting_views_layout_independent`:
`reshape` is the one view op whose outcome depends on the memory layout. -/
theorem getitem_layout_independent (ix : List Ix) (d1 d2 : Desc) (hs : d1.shape = d2.shape)
    (h1 : d1.strides.length = d1.shape.length) (h2 : d2.strides.length = d2.shape.length) :
    (match (ViewFn.getitem ix).apply d1, (ViewFn.getitem ix).apply d2 with
     | .ok (r1, v1), .ok (r2, v2) => r1.shape = r2.shape ∧ v1 = v2
     | .error e1, .error e2 => e1 = e2
     | _, _ => False) := by
  simp only [ViewFn.apply, Desc.index, hs]
  cases he : expandEllipsis d2.shape.length ix with
  | error e => simp
  | ok ixs =>
    simp only
    have := applyIx_layout_independent ixs d2.shape d1.off d2.off d1.strides d2.strides (by rw [h1, hs]) h2
    revert this
    cases applyIx ixs d1.off d2.shape d1.strides <;> cases applyIx ixs d2.off d2.shape d2.strides <;>
      simp_all [ixOutcome]

/-- non-vacuity: `x[1, ::2]` on the C-ordered and on the Fortran-ordered (2,3) window — one result shape, a view -/
example : ((ViewFn.getitem [.int 1, .slice none none 2]).apply (Desc.contig 0 [2, 3])).toOption.map (fun r => (r.1.shape, r.2)) = some ([2], true) ∧
    ((ViewFn.getitem [.int 1, .slice none none 2]).apply ⟨0, [2, 3], [1, 2]⟩).toOption.map (fun r => (r.1.shape, r.2)) = some ([2], true) := by decide

/-- non-vacuity: `.T` then a new axis on the C-ordered and on the Fortran-ordered (2,3) window -/
example : ((ViewFn.tprop).apply (Desc.contig 0 [2, 3])).toOption.map (fun r => (r.1.shape, r.2)) =
    ((ViewFn.tprop).apply ⟨0, [2, 3], [1, 2]⟩).toOption.map (fun r => (r.1.shape, r.2)) := by decide

/-! ## Non-vacuity: a chain through a transpose and a slice on a gradient laid out like the data -/
example : applyChain [.tprop, .getitem [.slice none none (-1)], .expand 0] (Desc.contig 0 [2, 3])
    = .ok (⟨2, [1, 3, 2], [0, -1, 3]⟩, true) := by rfl

/-- the reshape rule on a strided window: `x[::2]` of a (4,6) array can be viewed as (2,2,3) -/
theorem reshape_view_iff_mergeable_example :
    (⟨0, [2, 6], [12, 1]⟩ : Desc).reshapeNoCopy [2, 2, 3] = some ⟨0, [2, 2, 3], [12, 3, 1]⟩ ∧
    (⟨0, [3, 2], [1, 3]⟩ : Desc).reshapeNoCopy [6] = none := by decide

end MG.C06
