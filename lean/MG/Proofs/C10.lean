import MG.Proofs.Lemmas.GradMap
/-!
# C10 — constant semantics: constants never receive or transmit gradients

Property theorems about the engine model (`MG/Core/Engine.lean`).  The dtype gate (integer and
boolean tensors are always constant) is part of the construction lattice of C17 (`MG/Core/Dtype.lean`).
-/
namespace MG.C10
open MG.Eng

/-- **op_constant_rule.**  The flag of an op's result: a flag passed by the caller always wins;
otherwise the result is constant exactly when every input (tensors, and the ndarrays / scalars that
were wrapped as constant tensors) is constant. -/
theorem op_constant_rule (h : Heap) (vars : List Nat) :
    (∀ c, resultConst (some c) h vars = c) ∧
    (resultConst none h vars = true ↔ ∀ v ∈ vars, (h.t v).const = true) := by
  refine ⟨fun c => rfl, ?_⟩
  simp only [resultConst, Bool.not_eq_true', List.any_eq_false, Bool.not_eq_true', Bool.not_eq_false']
  constructor
  · intro hh v hv
    simpa using hh v hv
  · intro hh v hv
    simpa using hh v hv

/-- non-tensor operands are wrapped as *constant* tensors: every id `wrapOperands` adds is constant -/
theorem wrapped_literals_are_constant (v : Val) (h : Heap) :
    let r := wrapOperands h [.lit v]
    ∀ i ∈ r.2, (r.1.t i).const = true := by
  intro r i hi
  simp only [r, wrapOperands, List.mem_singleton] at hi ⊢
  subst hi
  simp

theorem attachResult_const (h : Heap) (x : Tens) (parent : Option Nat) :
    ((attachResult h x parent).1.t (attachResult h x parent).2).const = x.const := by
  unfold attachResult
  simp only
  cases parent with
  | none => simp
  | some p =>
    by_cases hb : x.base.isSome = true
    · simp only [hb, ite_true]
      rw [t_modT_field _ _ _ _ (·.const) (by intro y; rfl)]
      simp
    · simp [hb]

/-- the result tensor of `recordOp` carries exactly the flag it was given -/
theorem recordOp_result_flag (h : Heap) (kind : Kind) (vars us : List Nat) (c : Bool)
    (constant : Option Bool) (wm : Option (ND.Shape × List Bool)) (outArr : Arr) (parent : Option Nat) :
    ((recordOp h kind vars us c constant wm outArr parent).1.t
      (recordOp h kind vars us c constant wm outArr parent).2).const = c := by
  unfold recordOp
  simp only
  split <;> exact attachResult_const ..

/-- **opStep_result_flag.**  The tensor `Tensor._op` returns carries exactly the flag `resultConst`
computes from the caller's `constant=` argument and the (wrapped) inputs. -/
theorem opStep_result_flag (h : Heap) (kind : Kind) (inputs : List Operand) (constant : Option Bool)
    (wm : Option (ND.Shape × List Bool)) (h' : Heap) (o : Nat)
    (hok : opStep h kind inputs constant wm = .ok (h', o)) :
    (h'.t o).const = resultConst constant (wrapOperands h inputs).1 (wrapOperands h inputs).2 := by
  unfold opStep at hok
  simp only at hok
  split at hok
  · cases hok
  · simp only [Except.ok.injEq] at hok
    have key : ∀ (hh : Heap) (us : List Nat) (c : Bool) (oa : Arr) (pa : Option Nat) (r : Heap × Nat),
        recordOp hh kind (wrapOperands h inputs).2 us c constant wm oa pa = r → (r.1.t r.2).const = c := by
      intro hh us c oa pa r hr
      rw [← hr]
      exact recordOp_result_flag ..
    exact key _ _ _ _ _ _ hok

/-- **constants_never_get_grad.**  Whatever the back-propagation loop does — to completion or up to
an error — no constant tensor ever becomes a key of the gradient map (so none is ever stored a
gradient), provided the terminal tensor is not constant (`backward` on a constant tensor never
starts the loop, see `backward_on_constant_only_clears`). -/
theorem constants_never_get_grad (h : Heap) (L : Nat) (g : Val) (topo : List Nat)
    (hL : (h.t L).const = false) :
    ∀ t v, lookup t (backLoop h topo [(L, g)]).1 = some v → (h.t t).const = false := by
  have := backLoop_keys h (fun t => (h.t t).const = false)
    (fun c f i _ hc _ => hc) topo [(L, g)]
    (by
      intro t v hv
      simp only [lookup] at hv
      split at hv
      · rename_i heq; exact heq ▸ hL
      · cases hv)
  exact this

/-- **grads_only_on_reached_tensors.**  Every tensor that receives a gradient is the terminal
tensor itself or a non-constant input of an op whose output the loop visited: tensors the terminal
tensor does not depend on, and anything behind a constant, receive no contribution. -/
theorem grads_only_on_reached_tensors (h : Heap) (L : Nat) (g : Val) (topo : List Nat) :
    ∀ t v, lookup t (backLoop h topo [(L, g)]).1 = some v →
      t = L ∨ ∃ c f i, (h.t c).creator = some f ∧ i < (h.op f).vars.length ∧
        t = (h.op f).vars.getD i 0 ∧ (h.t t).const = false := by
  have := backLoop_keys h
    (fun t => t = L ∨ ∃ c f i, (h.t c).creator = some f ∧ i < (h.op f).vars.length ∧
        t = (h.op f).vars.getD i 0 ∧ (h.t t).const = false)
    (fun c f i hcr hc hi => Or.inr ⟨c, f, i, hcr, hi, rfl, hc⟩) topo [(L, g)]
    (by
      intro t v hv
      simp only [lookup] at hv
      split at hv
      · rename_i heq; exact Or.inl heq.symm
      · cases hv)
  exact this

/-- **backward_on_constant_only_clears.**  `backward` on a constant tensor stores no gradient
anywhere: it only clears the graph. -/
theorem backward_on_constant_only_clears (h : Heap) (L : Nat) (seed : Seed)
    (hL : (h.t L).const = true) : backward h L seed = .ok (clearGraph h.fuel h L) := by
  simp [backward, hL]

/-! ## Non-vacuity -/

/-- a heap with a constant and a non-constant leaf and the op `c * x` -/
def sampleHeap : Heap :=
  let h : Heap := {}
  let (h, a) := h.newArr ([2], [1, 2])
  let (h, c) := h.fresh
  let h := h.setT c { data := a, const := true }
  let (h, b) := h.newArr ([2], [3, 4])
  let (h, x) := h.fresh
  h.setT x { data := b, const := false }

example : resultConst none sampleHeap [1, 3] = false ∧ resultConst none sampleHeap [1, 1] = true ∧
    resultConst (some true) sampleHeap [1, 3] = true := by decide

end MG.C10
