import Mathlib.Analysis.Calculus.Deriv.Add
import Mathlib.Analysis.Calculus.Deriv.Mul
import Mathlib.Analysis.Calculus.Deriv.Inv
import Mathlib.Analysis.Calculus.Deriv.Pow
import Mathlib.Analysis.Calculus.Deriv.Abs
import Mathlib.Analysis.SpecialFunctions.ExpDeriv
import Mathlib.Analysis.SpecialFunctions.Log.Deriv
import Mathlib.Analysis.SpecialFunctions.Sqrt
import Mathlib.Analysis.SpecialFunctions.Pow.Deriv
import Mathlib.Algebra.BigOperators.Group.Finset.Piecewise
import Mathlib.Algebra.BigOperators.Fin
import Mathlib.Data.Fintype.BigOperators
import Mathlib.Tactic.FieldSimp
import Mathlib.Tactic.Ring
import Mathlib.Tactic.Linarith
import Mathlib.Tactic.NormNum

/-!
# C02 (structured ops, over ℝ) — backward pass = exact vector-Jacobian product

Property: *each operation's `backward_var` is the exact VJP of its forward pass*, for the
non-element-wise operations of MyGrad whose algebra is short:

* `Prod`, `CumProd`, `Variance`, `StdDev`  (`/repo/src/mygrad/math/sequential/ops.py`)
* `Softmax`, `LogSoftmax`                  (`/repo/src/mygrad/nnet/activations/softmax.py`)
* `MultiplySequence`                       (`/repo/src/mygrad/math/arithmetic/ops.py`)
* `Norm`                                   (`/repo/src/mygrad/linalg/ops.py`)

Everything is over `ℝ` along ONE reduction axis, indexed by a `Fintype ι` (or `Fin n` where the
order matters).  For each op we give the forward function, a definition `…Bwd` that mirrors what the
Python `backward_var` computes (including its zero-patching branches), the partial-derivative theorem
`HasDerivAt (fun t => fwd (Function.update x k t) [i]) (J x i k) (x k)` and the VJP identity
`∑ i, g i * J x i k = …Bwd g x k`.

No statement relies on Lean's `a / 0 = 0`: wherever Python would divide by zero the corresponding
hypothesis is explicit and named.
-/

namespace MG.C02

open Finset

section General

variable {ι : Type*} [Fintype ι] [DecidableEq ι]

/-- `∑ i, f (x[k := t] i) = f t + ∑_{i ≠ k} f (x i)` -/
theorem sum_comp_update (f : ℝ → ℝ) (x : ι → ℝ) (k : ι) (t : ℝ) :
    ∑ i, f (Function.update x k t i) = f t + ∑ i ∈ univ.erase k, f (x i) := by
  rw [← Finset.add_sum_erase _ _ (Finset.mem_univ k)]
  congr 1
  · simp
  · exact Finset.sum_congr rfl fun i hi => by
      rw [Function.update_of_ne (Finset.ne_of_mem_erase hi)]

/-- `∏ i, x[k := t] i = t * ∏_{i ≠ k} x i` -/
theorem prod_update_eq (x : ι → ℝ) (k : ι) (t : ℝ) :
    ∏ i, Function.update x k t i = t * ∏ i ∈ univ.erase k, x i := by
  rw [Finset.prod_update_of_mem (Finset.mem_univ k), Finset.sdiff_singleton_eq_erase]

omit [Fintype ι] in
/-- coordinate `i` of `x[k := t]` as a function of `t` has derivative `δ_{ik}` -/
theorem hasDerivAt_update_apply (x : ι → ℝ) (k i : ι) (a : ℝ) :
    HasDerivAt (fun t => Function.update x k t i) (if i = k then 1 else 0) a := by
  by_cases h : i = k
  · subst h
    simpa using hasDerivAt_id' a
  · simpa [h, Function.update_of_ne h] using hasDerivAt_const a (x i)

/-- if `f' = f'(x k)` then `t ↦ ∑ i, f (x[k := t] i)` has derivative `f'` at `x k` -/
theorem hasDerivAt_sum_comp_update {f : ℝ → ℝ} {f' : ℝ} (x : ι → ℝ) (k : ι)
    (hf : HasDerivAt f f' (x k)) :
    HasDerivAt (fun t => ∑ i, f (Function.update x k t i)) f' (x k) := by
  have h : (fun t => ∑ i, f (Function.update x k t i))
      = fun t => f t + ∑ i ∈ univ.erase k, f (x i) := funext (sum_comp_update f x k)
  rw [h]
  exact hf.add_const _

theorem sum_mul_ite_eq (a : ι → ℝ) (k : ι) :
    ∑ i, a i * (if i = k then (1 : ℝ) else 0) = a k := by
  simp

end General

/-! ## 1. `Prod`  (`mygrad/math/sequential/ops.py`, `class Prod`, `backward_var`) -/

section Prod

variable {ι : Type*} [Fintype ι] [DecidableEq ι]

/-- forward pass of `Prod` along one axis -/
noncomputable def prodF (x : ι → ℝ) : ℝ := ∏ i, x i

/-- `has_zero = np.sum(x == 0, axis, keepdims=True)` -/
noncomputable def numZeros (x : ι → ℝ) : ℕ := (univ.filter (fun i => x i = 0)).card

/-- `x[is_zero] = 1` -/
noncomputable def patchZeros (x : ι → ℝ) : ι → ℝ := fun i => if x i = 0 then 1 else x i

/-- Mirrors `dldx` of `Prod.backward_var` (ops.py l.172–194):

* `dldx = np.prod(x) / x`                         — kept where it is not `nan`, i.e. where `x k ≠ 0`
  (the division is only *used* in that branch, so no `a / 0` is relied upon);
* `dldx[has_zero > 1] = nan_to_num(...)`           — `0` where `x k = 0` and there are ≥ 2 zeros;
* `x[is_zero] = 1; dldx[loc] = (np.prod(x) / x)[loc]` — where `x k = 0` is the only zero.  In this
  branch the divisor is the patched entry, which is `1`. -/
noncomputable def prodBwd (x : ι → ℝ) (k : ι) : ℝ :=
  if x k ≠ 0 then (∏ i, x i) / x k
  else if 1 < numZeros x then 0
  else (∏ i, patchZeros x i) / patchZeros x k

/-- `return grad * dldx` -/
noncomputable def prodVJP (g : ℝ) (x : ι → ℝ) (k : ι) : ℝ := g * prodBwd x k

theorem prodBwd_nonzero (x : ι → ℝ) (k : ι) (hk : x k ≠ 0) :
    prodBwd x k = ∏ i ∈ univ.erase k, x i := by
  unfold prodBwd
  rw [if_pos hk, ← Finset.mul_prod_erase univ x (mem_univ k)]
  field_simp

theorem prodBwd_many_zeros (x : ι → ℝ) (k : ι) (hk : x k = 0) (hz : 1 < numZeros x) :
    prodBwd x k = ∏ i ∈ univ.erase k, x i := by
  unfold prodBwd
  rw [if_neg (by simpa using hk), if_pos hz]
  obtain ⟨j, hj, hjk⟩ := Finset.exists_mem_ne hz k
  rw [Finset.mem_filter] at hj
  exact (Finset.prod_eq_zero (Finset.mem_erase.mpr ⟨hjk, mem_univ j⟩) hj.2).symm

theorem prodBwd_one_zero (x : ι → ℝ) (k : ι) (hk : x k = 0) (hz : ¬ 1 < numZeros x) :
    prodBwd x k = ∏ i ∈ univ.erase k, x i := by
  unfold prodBwd
  rw [if_neg (by simpa using hk), if_neg hz]
  have hne : ∀ i ∈ univ.erase k, x i ≠ 0 := by
    intro i hi h0
    apply hz
    unfold numZeros
    rw [Finset.one_lt_card]
    exact ⟨i, by simp [h0], k, by simp [hk], Finset.ne_of_mem_erase hi⟩
  have hpk : patchZeros x k = 1 := by simp [patchZeros, hk]
  rw [hpk, div_one, ← Finset.mul_prod_erase univ _ (mem_univ k), hpk, one_mul]
  exact Finset.prod_congr rfl fun i hi => by simp [patchZeros, hne i hi]

omit [DecidableEq ι] in
/-- In the single-zero branch the value is literally `∏ i, (if x i = 0 then 1 else x i)` (the
divisor is the patched entry `1`). -/
theorem prodBwd_one_zero_patched (x : ι → ℝ) (k : ι) (hk : x k = 0) (hz : ¬ 1 < numZeros x) :
    prodBwd x k = ∏ i, (if x i = 0 then 1 else x i) := by
  unfold prodBwd
  rw [if_neg (by simpa using hk), if_neg hz]
  simp [patchZeros, hk]

/-- In all three branches `prodBwd` is the product of the other entries. -/
theorem prodBwd_eq (x : ι → ℝ) (k : ι) : prodBwd x k = ∏ i ∈ univ.erase k, x i := by
  by_cases hk : x k = 0
  · by_cases hz : 1 < numZeros x
    · exact prodBwd_many_zeros x k hk hz
    · exact prodBwd_one_zero x k hk hz
  · exact prodBwd_nonzero x k hk

/-- **Prod**: `∂(∏ x)/∂x_k = prodBwd x k` at EVERY point, including those with zeros. -/
theorem prod_vjp (x : ι → ℝ) (k : ι) :
    HasDerivAt (fun t => ∏ i, Function.update x k t i) (prodBwd x k) (x k) := by
  have h : (fun t => ∏ i, Function.update x k t i)
      = fun t => t * ∏ i ∈ univ.erase k, x i := funext (prod_update_eq x k)
  rw [h, prodBwd_eq]
  simpa using (hasDerivAt_id' (x k)).mul_const (∏ i ∈ univ.erase k, x i)

/-- **Prod**, with the incoming gradient: the VJP of the scalar-valued forward. -/
theorem prod_vjp_grad (g : ℝ) (x : ι → ℝ) (k : ι) :
    HasDerivAt (fun t => g * prodF (Function.update x k t)) (prodVJP g x k) (x k) :=
  (prod_vjp x k).const_mul g

-- non-vacuity: a point with exactly one zero, differentiated at the zero, and one with two zeros
example : HasDerivAt (fun t => ∏ i, Function.update ![(2 : ℝ), 0, 3] 1 t i)
    (prodBwd ![(2 : ℝ), 0, 3] 1) ((![(2 : ℝ), 0, 3] : Fin 3 → ℝ) 1) := prod_vjp ![2, 0, 3] 1
example : prodBwd ![(2 : ℝ), 0, 3] 1 = 6 := by
  have h : (univ : Finset (Fin 3)).erase 1 = {0, 2} := by decide
  rw [prodBwd_eq, h]; simp; norm_num
example : HasDerivAt (fun t => ∏ i, Function.update ![(0 : ℝ), 0, 3] 1 t i)
    (prodBwd ![(0 : ℝ), 0, 3] 1) ((![(0 : ℝ), 0, 3] : Fin 3 → ℝ) 1) := prod_vjp ![0, 0, 3] 1

end Prod

/-! ## 2. `Softmax`, `LogSoftmax`  (`mygrad/nnet/activations/softmax.py`) -/

section Softmax

variable {ι : Type*} [Fintype ι] [DecidableEq ι]

/-- `∑ j, exp (x j)` -/
noncomputable def sumExp (x : ι → ℝ) : ℝ := ∑ j, Real.exp (x j)

/-- forward of `Softmax` (`_softmax`; the max-shift `x - x.max()` cancels mathematically) -/
noncomputable def softmax (x : ι → ℝ) (i : ι) : ℝ := Real.exp (x i) / ∑ j, Real.exp (x j)

/-- forward of `LogSoftmax`: `x - logsumexp(x)` -/
noncomputable def logsoftmax (x : ι → ℝ) (i : ι) : ℝ := x i - Real.log (∑ j, Real.exp (x j))

/-- `Softmax.backward_var`: `sg = soft * grad; return sg - soft * np.sum(sg)` -/
noncomputable def softmaxBwd (g x : ι → ℝ) (k : ι) : ℝ :=
  softmax x k * g k - softmax x k * ∑ i, softmax x i * g i

/-- `LogSoftmax.backward_var`: `return grad - soft * np.sum(grad)` -/
noncomputable def logsoftmaxBwd (g x : ι → ℝ) (k : ι) : ℝ :=
  g k - softmax x k * ∑ i, g i

omit [DecidableEq ι] in
/-- The denominator is positive as soon as the index type is inhabited (so the division in
`softmax` is a genuine one). -/
theorem sumExp_pos (x : ι → ℝ) (i : ι) : 0 < ∑ j, Real.exp (x j) :=
  haveI : Nonempty ι := ⟨i⟩
  Finset.sum_pos (fun j _ => Real.exp_pos (x j)) Finset.univ_nonempty

theorem hasDerivAt_sumExp_update (x : ι → ℝ) (k : ι) :
    HasDerivAt (fun t => ∑ j, Real.exp (Function.update x k t j)) (Real.exp (x k)) (x k) :=
  hasDerivAt_sum_comp_update x k (Real.hasDerivAt_exp (x k))

omit [Fintype ι] in
theorem hasDerivAt_exp_update_apply (x : ι → ℝ) (k i : ι) :
    HasDerivAt (fun t => Real.exp (Function.update x k t i))
      (Real.exp (x i) * (if i = k then 1 else 0)) (x k) := by
  have h := (hasDerivAt_update_apply x k i (x k)).exp
  simpa using h

/-- **Softmax** Jacobian: `∂ softmax_i / ∂ x_k = s_i (δ_{ik} - s_k)`. -/
theorem softmax_jacobian (x : ι → ℝ) (i k : ι) :
    HasDerivAt (fun t => softmax (Function.update x k t) i)
      (softmax x i * ((if i = k then 1 else 0) - softmax x k)) (x k) := by
  have hS : (∑ j, Real.exp (x j)) ≠ 0 := (sumExp_pos x i).ne'
  have hd : (∑ j, Real.exp (Function.update x k (x k) j)) ≠ 0 := by
    simpa using hS
  have h := (hasDerivAt_exp_update_apply x k i).div (hasDerivAt_sumExp_update x k) hd
  simp only [Function.update_eq_self] at h
  unfold softmax
  refine h.congr_deriv ?_
  field_simp

/-- **Softmax** VJP: `∑ i, g_i ∂s_i/∂x_k` is what `Softmax.backward_var` returns. -/
theorem softmax_vjp (g x : ι → ℝ) (k : ι) :
    ∑ i, g i * (softmax x i * ((if i = k then 1 else 0) - softmax x k)) = softmaxBwd g x k := by
  unfold softmaxBwd
  have h : ∀ i, g i * (softmax x i * ((if i = k then 1 else 0) - softmax x k))
      = (g i * softmax x i) * (if i = k then (1 : ℝ) else 0)
        - softmax x k * (softmax x i * g i) := fun i => by ring
  simp only [h, Finset.sum_sub_distrib, sum_mul_ite_eq, ← Finset.mul_sum]
  ring

/-- **LogSoftmax** Jacobian: `∂ logsoftmax_i / ∂ x_k = δ_{ik} - s_k`. -/
theorem logsoftmax_jacobian (x : ι → ℝ) (i k : ι) :
    HasDerivAt (fun t => logsoftmax (Function.update x k t) i)
      ((if i = k then 1 else 0) - softmax x k) (x k) := by
  have hS : (∑ j, Real.exp (x j)) ≠ 0 := (sumExp_pos x i).ne'
  have hd : (∑ j, Real.exp (Function.update x k (x k) j)) ≠ 0 := by
    simpa using hS
  have h := (hasDerivAt_update_apply x k i (x k)).fun_sub ((hasDerivAt_sumExp_update x k).log hd)
  simp only [Function.update_eq_self] at h
  exact h

/-- **LogSoftmax** VJP. -/
theorem logsoftmax_vjp (g x : ι → ℝ) (k : ι) :
    ∑ i, g i * ((if i = k then 1 else 0) - softmax x k) = logsoftmaxBwd g x k := by
  unfold logsoftmaxBwd
  simp only [mul_sub, Finset.sum_sub_distrib, sum_mul_ite_eq, ← Finset.sum_mul]
  ring

-- non-vacuity
example : HasDerivAt (fun t => softmax (Function.update ![(1 : ℝ), -2, 0] 2 t) 0)
    (softmax ![(1 : ℝ), -2, 0] 0 * ((if (0 : Fin 3) = 2 then 1 else 0) - softmax ![(1 : ℝ), -2, 0] 2))
    ((![(1 : ℝ), -2, 0] : Fin 3 → ℝ) 2) := softmax_jacobian ![1, -2, 0] 0 2
example : HasDerivAt (fun t => logsoftmax (Function.update ![(1 : ℝ), -2, 0] 1 t) 1)
    ((if (1 : Fin 3) = 1 then 1 else 0) - softmax ![(1 : ℝ), -2, 0] 1)
    ((![(1 : ℝ), -2, 0] : Fin 3 → ℝ) 1) := logsoftmax_jacobian ![1, -2, 0] 1 1
example : ∑ i, ![(3 : ℝ), 5, -1] i * (softmax ![(1 : ℝ), -2, 0] i *
      ((if i = (1 : Fin 3) then 1 else 0) - softmax ![(1 : ℝ), -2, 0] 1))
    = softmaxBwd ![3, 5, -1] ![1, -2, 0] 1 := softmax_vjp _ _ _

end Softmax

/-! ## 3. `Variance`, `StdDev`  (`mygrad/math/sequential/ops.py`) -/

section Variance

variable {ι : Type*} [Fintype ι] [DecidableEq ι]

/-- `a.data.mean(axis)` -/
noncomputable def mean (x : ι → ℝ) : ℝ := (∑ i, x i) / (Fintype.card ι : ℝ)

/-- forward of `Variance`: `np.var(x, ddof=ddof)` -/
noncomputable def variance (ddof : ℝ) (x : ι → ℝ) : ℝ :=
  (∑ i, (x i - mean x) ^ 2) / ((Fintype.card ι : ℝ) - ddof)

/-- `Variance.backward_var`: `N = size - ddof; back = (2.0 / N) * (a - a.mean()); back * grad` -/
noncomputable def varianceBwd (ddof g : ℝ) (x : ι → ℝ) (k : ι) : ℝ :=
  (2 / ((Fintype.card ι : ℝ) - ddof)) * (x k - mean x) * g

/-- `StdDev`: `_grad_preprocess` replaces `grad` by `grad / (2 * sqrt(var))`, then `Variance`'s
`backward_var` runs. -/
noncomputable def stdBwd (ddof g : ℝ) (x : ι → ℝ) (k : ι) : ℝ :=
  varianceBwd ddof (g / (2 * Real.sqrt (variance ddof x))) x k

omit [DecidableEq ι] in
theorem card_ne_zero_of_index (k : ι) : (Fintype.card ι : ℝ) ≠ 0 := by
  have : Nonempty ι := ⟨k⟩
  exact_mod_cast Fintype.card_ne_zero

theorem hasDerivAt_mean_update (x : ι → ℝ) (k : ι) :
    HasDerivAt (fun t => mean (Function.update x k t)) (1 / (Fintype.card ι : ℝ)) (x k) := by
  unfold mean
  exact (hasDerivAt_sum_comp_update (f := fun y => y) x k (hasDerivAt_id' (x k))).div_const _

omit [DecidableEq ι] in
theorem sum_sub_mean (x : ι → ℝ) (k : ι) : ∑ i, (x i - mean x) = 0 := by
  have hN := card_ne_zero_of_index k
  rw [Finset.sum_sub_distrib, Finset.sum_const, Finset.card_univ, nsmul_eq_mul]
  unfold mean
  field_simp
  ring

theorem hasDerivAt_sumsq_update (x : ι → ℝ) (k : ι) :
    HasDerivAt (fun t => ∑ i, (Function.update x k t i - mean (Function.update x k t)) ^ 2)
      (2 * (x k - mean x)) (x k) := by
  have hterm : ∀ i ∈ (univ : Finset ι),
      HasDerivAt (fun t => (Function.update x k t i - mean (Function.update x k t)) ^ 2)
        (2 * (x i - mean x) * ((if i = k then 1 else 0) - 1 / (Fintype.card ι : ℝ))) (x k) := by
    intro i _
    have h := ((hasDerivAt_update_apply x k i (x k)).fun_sub (hasDerivAt_mean_update x k)).fun_pow 2
    refine h.congr_deriv ?_
    simp only [Function.update_eq_self]
    norm_num
  have h := HasDerivAt.fun_sum hterm
  refine h.congr_deriv ?_
  have e : ∀ i, 2 * (x i - mean x) * ((if i = k then 1 else 0) - 1 / (Fintype.card ι : ℝ))
      = (2 * (x i - mean x)) * (if i = k then (1 : ℝ) else 0)
        - (2 / (Fintype.card ι : ℝ)) * (x i - mean x) := fun i => by ring
  simp only [e, Finset.sum_sub_distrib, sum_mul_ite_eq, ← Finset.mul_sum, sum_sub_mean x k]
  ring

/-- **Variance**: `∂ var(x) / ∂ x_k = 2/(N - ddof) · (x_k - mean x)`.
`hD` is the condition under which NumPy's `np.var` (and the `2.0 / N` of the backward pass) does
not divide by zero; the other divisor `N = card ι` is nonzero because `k : ι` exists. -/
theorem variance_vjp (ddof : ℝ) (x : ι → ℝ) (k : ι)
    (hD : (Fintype.card ι : ℝ) - ddof ≠ 0) :
    HasDerivAt (fun t => variance ddof (Function.update x k t))
      (2 / ((Fintype.card ι : ℝ) - ddof) * (x k - mean x)) (x k) := by
  unfold variance
  refine ((hasDerivAt_sumsq_update x k).div_const _).congr_deriv ?_
  field_simp

/-- **Variance** with incoming gradient `g`. -/
theorem variance_vjp_grad (ddof g : ℝ) (x : ι → ℝ) (k : ι)
    (hD : (Fintype.card ι : ℝ) - ddof ≠ 0) :
    HasDerivAt (fun t => g * variance ddof (Function.update x k t))
      (varianceBwd ddof g x k) (x k) := by
  refine ((variance_vjp ddof x k hD).const_mul g).congr_deriv ?_
  unfold varianceBwd
  ring

/-- **StdDev**: at points of positive variance (where `sqrt` is differentiable and the code's
`grad / (2*sqrt(var))` is a genuine division). -/
theorem std_vjp (ddof : ℝ) (x : ι → ℝ) (k : ι)
    (hD : (Fintype.card ι : ℝ) - ddof ≠ 0) (hV : 0 < variance ddof x) :
    HasDerivAt (fun t => Real.sqrt (variance ddof (Function.update x k t)))
      ((1 / (2 * Real.sqrt (variance ddof x))) *
        (2 / ((Fintype.card ι : ℝ) - ddof) * (x k - mean x))) (x k) := by
  have hv : variance ddof (Function.update x k (x k)) ≠ 0 := by
    simpa using hV.ne'
  have h := (variance_vjp ddof x k hD).sqrt hv
  simp only [Function.update_eq_self] at h
  refine h.congr_deriv ?_
  ring

/-- **StdDev** with incoming gradient `g`. -/
theorem std_vjp_grad (ddof g : ℝ) (x : ι → ℝ) (k : ι)
    (hD : (Fintype.card ι : ℝ) - ddof ≠ 0) (hV : 0 < variance ddof x) :
    HasDerivAt (fun t => g * Real.sqrt (variance ddof (Function.update x k t)))
      (stdBwd ddof g x k) (x k) := by
  refine ((std_vjp ddof x k hD hV).const_mul g).congr_deriv ?_
  unfold stdBwd varianceBwd
  ring

-- non-vacuity: `x = (1, 2, 6)`, `ddof = 1`; variance is positive
example : HasDerivAt (fun t => variance 1 (Function.update ![(1 : ℝ), 2, 6] 2 t))
    (2 / ((Fintype.card (Fin 3) : ℝ) - 1) * ((![(1 : ℝ), 2, 6] : Fin 3 → ℝ) 2 - mean ![(1 : ℝ), 2, 6]))
    ((![(1 : ℝ), 2, 6] : Fin 3 → ℝ) 2) :=
  variance_vjp 1 ![1, 2, 6] 2 (by norm_num)
example : (0 : ℝ) < variance 1 ![(1 : ℝ), 2, 6] := by
  simp [variance, mean, Fin.sum_univ_succ]; norm_num
example : HasDerivAt (fun t => Real.sqrt (variance 1 (Function.update ![(1 : ℝ), 2, 6] 0 t)))
    ((1 / (2 * Real.sqrt (variance 1 ![(1 : ℝ), 2, 6]))) *
      (2 / ((Fintype.card (Fin 3) : ℝ) - 1) *
        ((![(1 : ℝ), 2, 6] : Fin 3 → ℝ) 0 - mean ![(1 : ℝ), 2, 6])))
    ((![(1 : ℝ), 2, 6] : Fin 3 → ℝ) 0) :=
  std_vjp 1 ![1, 2, 6] 0 (by norm_num) (by simp [variance, mean, Fin.sum_univ_succ]; norm_num)

end Variance

/-! ## 4. `MultiplySequence`  (`mygrad/math/arithmetic/ops.py`) -/

section MultiplySequence

variable {ι : Type*} [Fintype ι] [DecidableEq ι]

/-- `MultiplySequence.backward_var`, branch `not self._iszero`:
`self._product / var.data` with `_product = grad * (a * b * ... * z)`. -/
noncomputable def multiplySequenceBwdDiv (g : ℝ) (x : ι → ℝ) (k : ι) : ℝ :=
  g * (∏ i, x i) / x k

/-- `MultiplySequence.backward_var`, branch `self._iszero`:
`grad * reduce(mul, (var.data for n, var in enumerate(variables) if n != index))`. -/
noncomputable def multiplySequenceBwdSkip (g : ℝ) (x : ι → ℝ) (k : ι) : ℝ :=
  g * ∏ i ∈ univ.erase k, x i

/-- The division branch agrees with the skip-one-operand branch whenever the operand is nonzero
(which is the case whenever the code takes that branch: the product is then not close to zero). -/
theorem multiplySequenceBwdDiv_eq (g : ℝ) (x : ι → ℝ) (k : ι) (hk : x k ≠ 0) :
    multiplySequenceBwdDiv g x k = g * ∏ i ∈ univ.erase k, x i := by
  unfold multiplySequenceBwdDiv
  rw [← Finset.mul_prod_erase univ x (mem_univ k)]
  field_simp

theorem multiplySequenceBwdSkip_eq (g : ℝ) (x : ι → ℝ) (k : ι) :
    multiplySequenceBwdSkip g x k = g * ∏ i ∈ univ.erase k, x i := rfl

omit [DecidableEq ι] in
/-- a nonzero total product forces every operand to be nonzero -/
theorem operand_ne_zero_of_prod_ne_zero (x : ι → ℝ) (k : ι) (hP : ∏ i, x i ≠ 0) : x k ≠ 0 :=
  fun h => hP (Finset.prod_eq_zero (mem_univ k) h)

/-- **MultiplySequence**, skip branch (valid everywhere). -/
theorem multiply_sequence_vjp (g : ℝ) (x : ι → ℝ) (k : ι) :
    HasDerivAt (fun t => g * ∏ i, Function.update x k t i)
      (multiplySequenceBwdSkip g x k) (x k) := by
  have h := (prod_vjp x k).const_mul g
  rwa [prodBwd_eq] at h

/-- **MultiplySequence**, division branch (taken only when the product is not ≈ 0). -/
theorem multiply_sequence_vjp_div (g : ℝ) (x : ι → ℝ) (k : ι) (hP : ∏ i, x i ≠ 0) :
    HasDerivAt (fun t => g * ∏ i, Function.update x k t i)
      (multiplySequenceBwdDiv g x k) (x k) := by
  rw [multiplySequenceBwdDiv_eq g x k (operand_ne_zero_of_prod_ne_zero x k hP)]
  exact multiply_sequence_vjp g x k

example : HasDerivAt (fun t => (5 : ℝ) * ∏ i, Function.update ![(2 : ℝ), 0, 3] 0 t i)
    (multiplySequenceBwdSkip 5 ![(2 : ℝ), 0, 3] 0) ((![(2 : ℝ), 0, 3] : Fin 3 → ℝ) 0) :=
  multiply_sequence_vjp 5 ![2, 0, 3] 0
example : HasDerivAt (fun t => (5 : ℝ) * ∏ i, Function.update ![(2 : ℝ), -1, 3] 0 t i)
    (multiplySequenceBwdDiv 5 ![(2 : ℝ), -1, 3] 0) ((![(2 : ℝ), -1, 3] : Fin 3 → ℝ) 0) :=
  multiply_sequence_vjp_div 5 ![2, -1, 3] 0 (by simp [Fin.prod_univ_succ])

end MultiplySequence

/-! ## 5. `CumProd`  (`mygrad/math/sequential/ops.py`, `class CumProd`) -/

section CumProd

variable {n : ℕ}

/-- forward of `CumProd` along one axis: `np.cumprod(x)[j] = x_0 ⋯ x_j` -/
noncomputable def cumprodF (x : Fin n → ℝ) (j : Fin n) : ℝ :=
  ∏ i ∈ univ.filter (· ≤ j), x i

/-- Jacobian entry `∂ cumprod_j / ∂ x_k` -/
noncomputable def cumprodJ (x : Fin n → ℝ) (j k : Fin n) : ℝ :=
  if k ≤ j then ∏ i ∈ (univ.filter (· ≤ j)).erase k, x i else 0

theorem cumprodF_update (x : Fin n → ℝ) (k j : Fin n) (t : ℝ) :
    cumprodF (Function.update x k t) j
      = if k ≤ j then t * ∏ i ∈ (univ.filter (· ≤ j)).erase k, x i else cumprodF x j := by
  unfold cumprodF
  split_ifs with h
  · rw [Finset.prod_update_of_mem (by simp [h]), Finset.sdiff_singleton_eq_erase]
  · rw [Finset.prod_update_of_notMem (by simp [h])]

theorem cumprodF_eq_mul (x : Fin n → ℝ) {k j : Fin n} (h : k ≤ j) :
    cumprodF x j = x k * ∏ i ∈ (univ.filter (· ≤ j)).erase k, x i :=
  (Finset.mul_prod_erase _ x (by simp [h])).symm

/-- **CumProd** Jacobian, valid at every point (zeros included). -/
theorem cumprod_vjp (x : Fin n → ℝ) (k j : Fin n) :
    HasDerivAt (fun t => cumprodF (Function.update x k t) j)
      (if k ≤ j then ∏ i ∈ (univ.filter (· ≤ j)).erase k, x i else 0) (x k) := by
  by_cases h : k ≤ j
  · have e : (fun t => cumprodF (Function.update x k t) j)
        = fun t => t * ∏ i ∈ (univ.filter (· ≤ j)).erase k, x i :=
      funext fun t => by rw [cumprodF_update, if_pos h]
    rw [e, if_pos h]
    simpa using (hasDerivAt_id' (x k)).mul_const (∏ i ∈ (univ.filter (· ≤ j)).erase k, x i)
  · have e : (fun t => cumprodF (Function.update x k t) j) = fun _ => cumprodF x j :=
      funext fun t => by rw [cumprodF_update, if_neg h]
    rw [e, if_neg h]
    exact hasDerivAt_const _ _

theorem cumprod_jacobian (x : Fin n → ℝ) (k j : Fin n) :
    HasDerivAt (fun t => cumprodF (Function.update x k t) j) (cumprodJ x j k) (x k) :=
  cumprod_vjp x k j

theorem sum_mul_cumprodJ (g x : Fin n → ℝ) (k : Fin n) :
    ∑ j, g j * cumprodJ x j k
      = ∑ j ∈ univ.filter (k ≤ ·), g j * ∏ i ∈ (univ.filter (· ≤ j)).erase k, x i := by
  unfold cumprodJ
  simp only [mul_ite, mul_zero]
  rw [Finset.sum_filter]

/-- **CumProd** VJP, main branch of `backward_var`:
`dldx = _reverse_cumsum(g * np.cumprod(x)) / x`, at an entry `x k ≠ 0` (hypothesis `hk`: this is
exactly where the code keeps the quotient; an earlier zero is allowed and then both sides are 0). -/
theorem cumprod_bwd_nonzero (g x : Fin n → ℝ) (k : Fin n) (hk : x k ≠ 0) :
    (∑ j ∈ univ.filter (k ≤ ·), g j * cumprodF x j) / x k
      = ∑ j, g j * (if k ≤ j then ∏ i ∈ (univ.filter (· ≤ j)).erase k, x i else 0) := by
  have h := sum_mul_cumprodJ g x k
  unfold cumprodJ at h
  rw [h, Finset.sum_div]
  refine Finset.sum_congr rfl fun j hj => ?_
  rw [cumprodF_eq_mul x (Finset.mem_filter.mp hj).2]
  field_simp

/-- Zero-patching branch, at the patched location `k`: the code sets `x[k] = 1`
(`x[locs] = 1`) and recomputes `(_reverse_cumsum(g * np.cumprod(x)) / x)[k]`.  The divisor is the
patched entry `1`.  (Mathematically this holds for any `k`; the code applies it at the first
zero.) -/
theorem cumprod_bwd_first_zero (g x : Fin n → ℝ) (k : Fin n) :
    ∑ j, g j * cumprodJ x j k
      = (∑ j ∈ univ.filter (k ≤ ·), g j * cumprodF (Function.update x k 1) j)
          / Function.update x k 1 k := by
  rw [sum_mul_cumprodJ, Function.update_self, div_one]
  refine Finset.sum_congr rfl fun j hj => ?_
  rw [cumprodF_update, if_pos (Finset.mem_filter.mp hj).2, one_mul]

/-- Zero-patching branch, downstream of a zero: all remaining `nan`s are set to `0`
(`np.nan_to_num(dldx, copy=False)`), which is the true derivative. -/
theorem cumprod_bwd_after_zero (g x : Fin n → ℝ) (k : Fin n) (h0 : ∃ i, i < k ∧ x i = 0) :
    ∑ j, g j * cumprodJ x j k = 0 := by
  obtain ⟨i, hik, hi⟩ := h0
  rw [sum_mul_cumprodJ]
  refine Finset.sum_eq_zero fun j hj => ?_
  have hkj : k ≤ j := (Finset.mem_filter.mp hj).2
  have hmem : i ∈ (univ.filter (· ≤ j)).erase k :=
    Finset.mem_erase.mpr ⟨hik.ne, by simpa using (hik.le.trans hkj)⟩
  rw [Finset.prod_eq_zero hmem hi, mul_zero]

/-- Mirrors the whole of `CumProd.backward_var` along one axis:

* `x k ≠ 0`: `dldx = _reverse_cumsum(g * cumprod(x)) / x` (never `nan`, kept as is);
* `x k = 0` (then `dldx[k]` is `0/0 = nan` for finite `g`, so the patch block runs):
  - `k` is the first zero along the axis: `x[locs] = 1` and the quotient is recomputed at `k`;
  - otherwise `nan_to_num` ⇒ `0`. -/
noncomputable def cumprodBwd (g x : Fin n → ℝ) (k : Fin n) : ℝ :=
  if x k ≠ 0 then (∑ j ∈ univ.filter (k ≤ ·), g j * cumprodF x j) / x k
  else if ∀ i, i < k → x i ≠ 0 then
    (∑ j ∈ univ.filter (k ≤ ·), g j * cumprodF (Function.update x k 1) j)
      / Function.update x k 1 k
  else 0

/-- Statement of correctness of the zero-patching branch of `CumProd.backward_var`. -/
def cumprod_bwd_zero_statement : Prop :=
  ∀ (n : ℕ) (g x : Fin n → ℝ) (k : Fin n), x k = 0 →
    ∑ j, g j * cumprodJ x j k =
      if ∀ i, i < k → x i ≠ 0 then
        (∑ j ∈ univ.filter (k ≤ ·), g j * cumprodF (Function.update x k 1) j)
          / Function.update x k 1 k
      else 0

theorem cumprod_bwd_zero : cumprod_bwd_zero_statement := by
  intro n g x k _
  split_ifs with h
  · exact cumprod_bwd_first_zero g x k
  · exact cumprod_bwd_after_zero g x k (by simpa using h)

/-- **CumProd** VJP, all branches: `∑ j, g_j ∂cumprod_j/∂x_k = cumprodBwd g x k`. -/
theorem cumprod_bwd_total (g x : Fin n → ℝ) (k : Fin n) :
    ∑ j, g j * cumprodJ x j k = cumprodBwd g x k := by
  unfold cumprodBwd
  by_cases hk : x k = 0
  · rw [if_neg (by simpa using hk)]
    exact cumprod_bwd_zero n g x k hk
  · rw [if_pos hk]
    exact (cumprod_bwd_nonzero g x k hk).symm

-- non-vacuity: zero in the middle, differentiate at it / after it / before it
example : HasDerivAt (fun t => cumprodF (Function.update ![(2 : ℝ), 0, 3, 0] 1 t) 2)
    (if (1 : Fin 4) ≤ 2 then ∏ i ∈ (univ.filter (· ≤ (2 : Fin 4))).erase 1, ![(2 : ℝ), 0, 3, 0] i
      else 0)
    ((![(2 : ℝ), 0, 3, 0] : Fin 4 → ℝ) 1) := cumprod_vjp ![2, 0, 3, 0] 1 2
example : ∑ j, ![(1 : ℝ), 1, 1, 1] j * cumprodJ ![(2 : ℝ), 0, 3, 0] j 2 = 0 :=
  cumprod_bwd_after_zero _ _ 2 ⟨1, by decide, by simp⟩
example : ∑ j, ![(1 : ℝ), 1, 1, 1] j * cumprodJ ![(2 : ℝ), 0, 3, 0] j 1
    = cumprodBwd ![1, 1, 1, 1] ![2, 0, 3, 0] 1 := cumprod_bwd_total _ _ 1

end CumProd

/-! ## 6. `Norm`  (`mygrad/linalg/ops.py`, `class Norm`, vector norms along one axis) -/

section Norm

variable {ι : Type*} [Fintype ι] [DecidableEq ι]

/-- `ord == 2`: `out = x / self._norm; out *= grad` -/
noncomputable def norm2Bwd (g : ℝ) (x : ι → ℝ) (k : ι) : ℝ :=
  x k / Real.sqrt (∑ i, x i ^ 2) * g

/-- `ord == 1`: `out = np.sign(x); out *= grad` -/
noncomputable def norm1Bwd (g : ℝ) (x : ι → ℝ) (k : ι) : ℝ :=
  (SignType.sign (x k) : ℝ) * g

/-- general real `ord = p`: `out = |x|; _norm = norm / Σ |x|^p; out **= p-1; out *= sign x;
out *= _norm; out *= grad` -/
noncomputable def normpBwd (p g : ℝ) (x : ι → ℝ) (k : ι) : ℝ :=
  |x k| ^ (p - 1) * (SignType.sign (x k) : ℝ)
    * ((∑ i, |x i| ^ p) ^ (1 / p) / ∑ i, |x i| ^ p) * g

/-- **2-norm**, away from the origin (`hS`; at `x = 0` the norm is not differentiable and the code
divides by zero). -/
theorem norm2_vjp (x : ι → ℝ) (k : ι) (hS : 0 < ∑ i, x i ^ 2) :
    HasDerivAt (fun t => Real.sqrt (∑ i, (Function.update x k t i) ^ 2))
      (x k / Real.sqrt (∑ i, x i ^ 2)) (x k) := by
  have h1 : HasDerivAt (fun t => ∑ i, (Function.update x k t i) ^ 2) (2 * x k) (x k) :=
    hasDerivAt_sum_comp_update (f := fun y => y ^ 2) x k (by simpa using hasDerivAt_pow 2 (x k))
  have hv : ∑ i, (Function.update x k (x k) i) ^ 2 ≠ 0 := by simpa using hS.ne'
  have h := h1.sqrt hv
  simp only [Function.update_eq_self] at h
  refine h.congr_deriv ?_
  have := (Real.sqrt_pos.mpr hS).ne'
  field_simp

theorem norm2_vjp_grad (g : ℝ) (x : ι → ℝ) (k : ι) (hS : 0 < ∑ i, x i ^ 2) :
    HasDerivAt (fun t => g * Real.sqrt (∑ i, (Function.update x k t i) ^ 2))
      (norm2Bwd g x k) (x k) := by
  refine ((norm2_vjp x k hS).const_mul g).congr_deriv ?_
  unfold norm2Bwd
  ring

/-- **1-norm**, at points where the differentiated entry is nonzero (`hk`; `|·|` is not
differentiable at 0, where the code returns `np.sign(0) = 0`, a sub-gradient). -/
theorem norm1_vjp (x : ι → ℝ) (k : ι) (hk : x k ≠ 0) :
    HasDerivAt (fun t => ∑ i, |Function.update x k t i|) (SignType.sign (x k) : ℝ) (x k) :=
  hasDerivAt_sum_comp_update (f := fun y => |y|) x k (hasDerivAt_abs hk)

theorem norm1_vjp_grad (g : ℝ) (x : ι → ℝ) (k : ι) (hk : x k ≠ 0) :
    HasDerivAt (fun t => g * ∑ i, |Function.update x k t i|) (norm1Bwd g x k) (x k) := by
  refine ((norm1_vjp x k hk).const_mul g).congr_deriv ?_
  unfold norm1Bwd
  ring

omit [DecidableEq ι] in
theorem sum_abs_rpow_pos (p : ℝ) (x : ι → ℝ) (k : ι) (hk : x k ≠ 0) : 0 < ∑ i, |x i| ^ p :=
  lt_of_lt_of_le (Real.rpow_pos_of_pos (abs_pos.mpr hk) p)
    (Finset.single_le_sum (f := fun i => |x i| ^ p)
      (fun i _ => Real.rpow_nonneg (abs_nonneg (x i)) p) (mem_univ k))

/-- **p-norm** for real `p ≠ 0` (`hp`: the forward takes the `1/p`-th power), at points where the
differentiated entry is nonzero (`hk`; this also makes `Σ|x|^p > 0`, so the code's division by
`Σ|x|^p` is genuine). -/
theorem normp_vjp (p : ℝ) (x : ι → ℝ) (k : ι) (hp : p ≠ 0) (hk : x k ≠ 0) :
    HasDerivAt (fun t => (∑ i, |Function.update x k t i| ^ p) ^ (1 / p))
      (|x k| ^ (p - 1) * (SignType.sign (x k) : ℝ)
        * ((∑ i, |x i| ^ p) ^ (1 / p) / ∑ i, |x i| ^ p)) (x k) := by
  have hS := sum_abs_rpow_pos p x k hk
  have h0 : HasDerivAt (fun t : ℝ => |t| ^ p)
      ((SignType.sign (x k) : ℝ) * p * |x k| ^ (p - 1)) (x k) :=
    (hasDerivAt_abs hk).rpow_const (Or.inl (abs_ne_zero.mpr hk))
  have h1 := hasDerivAt_sum_comp_update (f := fun y => |y| ^ p) x k h0
  have hv : (∑ i, |Function.update x k (x k) i| ^ p) ≠ 0 ∨ 1 ≤ 1 / p := by
    left; simpa using hS.ne'
  have h := h1.rpow_const (p := 1 / p) hv
  simp only [Function.update_eq_self] at h
  refine h.congr_deriv ?_
  rw [Real.rpow_sub_one hS.ne']
  field_simp

theorem normp_vjp_grad (p g : ℝ) (x : ι → ℝ) (k : ι) (hp : p ≠ 0) (hk : x k ≠ 0) :
    HasDerivAt (fun t => g * (∑ i, |Function.update x k t i| ^ p) ^ (1 / p))
      (normpBwd p g x k) (x k) := by
  refine ((normp_vjp p x k hp hk).const_mul g).congr_deriv ?_
  unfold normpBwd
  ring

example : HasDerivAt (fun t => Real.sqrt (∑ i, (Function.update ![(3 : ℝ), 0, -4] 1 t i) ^ 2))
    ((![(3 : ℝ), 0, -4] : Fin 3 → ℝ) 1 / Real.sqrt (∑ i, (![(3 : ℝ), 0, -4] : Fin 3 → ℝ) i ^ 2))
    ((![(3 : ℝ), 0, -4] : Fin 3 → ℝ) 1) :=
  norm2_vjp ![3, 0, -4] 1 (by simp [Fin.sum_univ_succ]; norm_num)
example : HasDerivAt (fun t => ∑ i, |Function.update ![(3 : ℝ), 0, -4] 2 t i|)
    (SignType.sign ((![(3 : ℝ), 0, -4] : Fin 3 → ℝ) 2) : ℝ) ((![(3 : ℝ), 0, -4] : Fin 3 → ℝ) 2) :=
  norm1_vjp ![3, 0, -4] 2 (by simp)
example : HasDerivAt (fun t => (∑ i, |Function.update ![(3 : ℝ), 0, -4] 2 t i| ^ (2.5 : ℝ))
      ^ (1 / (2.5 : ℝ)))
    (normpBwd 2.5 1 ![(3 : ℝ), 0, -4] 2) ((![(3 : ℝ), 0, -4] : Fin 3 → ℝ) 2) := by
  simpa using normp_vjp_grad 2.5 1 ![3, 0, -4] 2 (by norm_num) (by simp)

end Norm

end MG.C02
