import MG.Proofs.C01
import MG.Core.InPlace
/-!
# C09 — backprop through a partially cleared graph fails loudly, never silently

The full statement is **false of the unchanged code**; it is kept as `stale_backward_statement`,
refuted by `stale_backward_neg` from a concrete 8-statement history evaluated in the engine model
(the harness replays the same history on MyGrad), and proved in part.
-/
namespace MG.C09
open MG.Eng MG.ND

/-- run a closed program in the model; `none` if any statement fails -/
def leaf (h : Heap) (v : Val) : Heap × Nat :=
  let (h, a) := h.newArr v
  let (h, t) := h.fresh
  (h.setT t { data := a, const := false }, t)

/-- The history
`x = tensor([1,2]); y = x*2; z1 = y+1; z2 = y*y; z1.backward(); y[...] = 10; w = y*5; z2.backward()`.
Returns what the final `backward` produced: `none` if it raised, else `y.grad`. -/
def witness : Option (Option Val) :=
  let (h, x) := leaf {} ([2], [1, 2])
  match opStep h .mul [.t x, .lit ([], [2])] with
  | .error _ => none
  | .ok (h, y) =>
  match opStep h .add [.t y, .lit ([], [1])] with
  | .error _ => none
  | .ok (h, z1) =>
  match opStep h .mul [.t y, .t y] with
  | .error _ => none
  | .ok (h, z2) =>
  match backward h z1 .none with
  | .error _ => none
  | .ok h =>
  match inPlaceOp h [x, y, z1, z2] y (.setitem (.basic [.ellipsis])) [.t y, .lit ([], [10])] with
  | .error _ => none
  | .ok h =>
  match opStep h .mul [.t y, .lit ([], [5])] with
  | .error _ => none
  | .ok (h, w) =>
  match backward h z2 .none with
  | .error _ => some none
  | .ok h => some (gradProp h.fuel h y).2

/-- what the recorded forward computation `z2 = y*y` (with `y = [2,4]` at the time) gives: `2*y` -/
def recordedGrad : Val := ([2], [4, 8])

/-- **The full statement** (for this history): the final `backward` raises `InvalidBackprop`, or
`y.grad` is the gradient of the forward computation as it was recorded. -/
def stale_backward_statement : Prop :=
  witness = some none ∨ witness = some (some recordedGrad)

/-- **stale_backward_neg.**  In the model — as in the implementation — the final `backward` of the
history neither raises nor returns the recorded gradient: it silently returns `[20, 20]`, computed
from the value `y` was mutated to after `z2` had been computed. -/
theorem stale_backward_neg : ¬ stale_backward_statement := by
  unfold stale_backward_statement
  decide

theorem witness_value : witness = some (some ([2], [20, 20])) := by decide

/-- **cleared_input_raises.**  The detector the code has: an op one of whose non-constant inputs has an
empty consumer set makes `backward` raise `InvalidBackprop` at that input, before any VJP is taken. -/
theorem cleared_input_raises (h : Heap) (o : OpRec) (g : Val) (gr : GMap) (i : Nat)
    (hnc : (h.t (o.vars.getD i 0)).const = false) (hempty : (h.t (o.vars.getD i 0)).ops = []) :
    opBackwardVar h o g gr i = .error .invalidBackprop := by
  simp only [opBackwardVar, hnc, hempty, List.isEmpty_nil, Bool.false_eq_true, ite_false, ite_true]

/-- **stale_backward_safe_partial.**  Whenever the back-propagation loop does run to completion on an
acyclic heap, what it returns is exactly the adjoint solution of the graph *as the heap records it at
that moment* (C01).  So the only way to obtain gradients of anything other than the recorded forward
computation is for the heap itself to be inconsistent — an op whose recorded input no longer holds the
value it was computed from — which is precisely what re-use after clearing produces
(`stale_backward_neg`) and what the harness's forward-value tape detects on the implementation. -/
theorem stale_backward_safe_partial (h : Heap) (L : Nat) (g : Val) (rank : Nat → Nat)
    (hdag : ∀ t, ∀ v ∈ h.inp t, rank v < rank t) (hfuel : rank L < h.fuel)
    (hL : (h.t L).const = false)
    (hg : g.1 = shapeOf h L ∧ g.2.length = size (shapeOf h L))
    (touched topo : List Nat) (hcol : collect h.fuel h L [] [] = some (touched, topo))
    (gr : GMap) (err : Option Err) (hrun : backLoop h topo [(L, g)] = (gr, err)) :
    err = some .invalidBackprop ∨ err ≠ none ∨
      MG.Adj.IsAdj (edges h topo) (MG.C01.seedFn L g) (absG gr) := by
  cases err with
  | some e => exact Or.inr (Or.inl (by simp))
  | none =>
    exact Or.inr (Or.inr (MG.C01.backward_sound h L g rank hdag hfuel hL hg touched topo hcol gr hrun).1)

end MG.C09
