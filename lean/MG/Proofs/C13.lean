import MG.Proofs.Lemmas.Heap
import MG.IO.EngIO
/-!
# C13 — a failed operation leaves no trace

In the engine model a failing (non-in-place) `Tensor._op` produces no heap at all, so the driver keeps
the old state (`failed_op_is_noop`).  A failing in-place update has, by the time the kernel raises,
already replaced the public tensors by placeholders in every recorded consumer; what is left behind is
what `DuplicatingGraph.restore_old_graph` makes of that — `restore_inverts_duplicate` shows it puts
every consumer back and never touched a public tensor.
-/
namespace MG.C13
open MG.Eng MG.ND

/-- **failed_op_is_noop.**  A failing statement that is not an in-place update leaves the driver's
whole state (all tensors, ops, buffers, the variable table) exactly as it was. -/
theorem failed_op_is_noop (d : DS) (name : Nat) (e : Err) :
    bind d name (.error e) = (d, e.name) := rfl

/-! ## `reroute_ops_through` -/

def swapVar (source target : Nat) (v : Nat) : Nat := if v = source then target else v

theorem op_setOp_self (h : Heap) (f : Nat) (o : OpRec) : (h.setOp f o).op f = o := by
  simp [Heap.op, Heap.setOp, lookup_insert_self]

theorem op_setOp_ne (h : Heap) (f g : Nat) (o : OpRec) (hne : g ≠ f) : (h.setOp f o).op g = h.op g := by
  simp [Heap.op, Heap.setOp, lookup_insert_ne _ _ _ _ hne]

theorem t_setOp (h : Heap) (f : Nat) (o : OpRec) (t : Nat) : (h.setOp f o).t t = h.t t := rfl

/-- one re-routing pass over a list of op ids: tensors are untouched; an op's variables are the old
ones, mapped through `swapVar source target` at least once if the op is in the list -/
theorem reroute_fold (source target : Nat) (hne : target ≠ source) :
    ∀ (L : List Nat) (h : Heap),
      let h' := L.foldl (fun h f =>
        let o := h.op f
        h.setOp f { o with vars := o.vars.map fun v => if v = source then target else v }) h
      (∀ t, h'.t t = h.t t) ∧ h'.bufs = h.bufs ∧ h'.next = h.next ∧
      (∀ f, (h'.op f).vars = if f ∈ L then (h.op f).vars.map (swapVar source target) else (h.op f).vars) := by
  intro L
  induction L with
  | nil => intro h; exact ⟨fun _ => rfl, rfl, rfl, fun f => by simp⟩
  | cons f0 L ih =>
    intro h
    simp only [List.foldl_cons]
    obtain ⟨ht, hb, hn, hv⟩ := ih (h.setOp f0 { h.op f0 with vars := (h.op f0).vars.map fun v => if v = source then target else v })
    refine ⟨fun t => (ht t).trans rfl, hb.trans rfl, hn.trans rfl, fun f => ?_⟩
    rw [hv f]
    have hidem : ∀ vs : List Nat, (vs.map (swapVar source target)).map (swapVar source target) = vs.map (swapVar source target) := by
      intro vs
      rw [List.map_map]
      apply List.map_congr_left
      intro v _
      simp only [Function.comp, swapVar]
      by_cases hv' : v = source
      · simp [hv', hne]
      · simp [hv']
    by_cases hf : f = f0
    · subst hf
      rw [op_setOp_self]
      by_cases hm : f ∈ L
      · simp only [hm, ite_true, List.mem_cons, true_or]
        exact hidem _
      · simp only [hm, if_false, List.mem_cons, true_or, if_true]
        rfl
    · rw [op_setOp_ne _ _ _ _ hf]
      simp only [List.mem_cons, hf, false_or]

theorem reroute_spec (h : Heap) (target source : Nat) (hne : target ≠ source) :
    (∀ t, (reroute h target source).t t = h.t t) ∧ (reroute h target source).bufs = h.bufs ∧
    (reroute h target source).next = h.next ∧
    (∀ f, ((reroute h target source).op f).vars =
      if f ∈ (h.t source).ops then (h.op f).vars.map (swapVar source target) else (h.op f).vars) :=
  reroute_fold source target hne (h.t source).ops h

/-- **restore_reroutes_back.**  Routing the consumers of `x` through a fresh placeholder `p` and then
back restores every op's variable list exactly, provided no op mentioned `p` before (placeholders get
fresh ids). -/
theorem restore_reroutes_back (vs : List Nat) (x p : Nat) (hp : p ∉ vs) :
    (vs.map (swapVar x p)).map (swapVar p x) = vs := by
  rw [List.map_map]
  conv => rhs; rw [← List.map_id vs]
  apply List.map_congr_left
  intro v hv
  simp only [Function.comp, swapVar, id]
  by_cases h1 : v = x
  · simp [h1]
  · have : v ≠ p := fun e => hp (e ▸ hv)
    simp [h1, this]

/-- the heap right after the placeholder object was created and given `x`'s state (before re-routing) -/
def phHeap (h : Heap) (x : Nat) : Heap :=
  (mirror h.fresh.1 h.fresh.2 x).modT h.fresh.2 ({ · with base := none })

theorem makePlaceholder_eq (h : Heap) (x : Nat) (hg : (h.t x).grad = none) :
    makePlaceholder h x none = .ok (reroute (phHeap h x) h.next x, h.next) := by
  simp [makePlaceholder, hg, phHeap]

/-- **restore_inverts_duplicate** (base tensor without live views).  Let `x` hold no gradient and let
no op mention the id the placeholder will get.  Creating the placeholder graph of `x`
(`DuplicatingGraph(x)`) and then — as the failure path of `_in_place_op` does — restoring the old graph
(`restore_old_graph`) yields a heap in which every tensor that existed before is *unchanged* (value,
flag, base, creator, consumers, view children) and every op has exactly its old variables. -/
theorem restore_inverts_duplicate (h : Heap) (x : Nat)
    (hg : (h.t x).grad = none) (hx : x < h.next)
    (hfresh : ∀ f, h.next ∉ (h.op f).vars) :
    ∃ h2 p, makePlaceholder h x none = .ok (h2, p) ∧ p = h.next ∧
      (∀ t, t ≠ p → (reroute h2 x p).t t = h.t t) ∧ (reroute h2 x p).bufs = h.bufs ∧
      (∀ f, ((reroute h2 x p).op f).vars = (h.op f).vars) := by
  have hne : h.next ≠ x := by omega
  refine ⟨_, h.next, makePlaceholder_eq h x hg, rfl, ?_⟩
  have hmt : ∀ t, t ≠ h.next → (phHeap h x).t t = h.t t := by
    intro t ht
    simp only [phHeap, mirror, fresh_snd]
    rw [t_modT_ne _ _ _ _ ht, t_setT_ne _ _ _ _ ht]
    rfl
  have hmp : ((phHeap h x).t h.next).ops = (h.t x).ops := by
    simp [phHeap, mirror]
  have hmop : ∀ f, (phHeap h x).op f = h.op f := fun f => rfl
  obtain ⟨r1t, r1b, r1n, r1v⟩ := reroute_spec (phHeap h x) h.next x hne
  obtain ⟨r2t, r2b, r2n, r2v⟩ := reroute_spec (reroute (phHeap h x) h.next x) x h.next (Ne.symm hne)
  have hopsx : ((phHeap h x).t x).ops = (h.t x).ops := by rw [hmt x (Ne.symm hne)]
  refine ⟨fun t ht => ?_, ?_, fun f => ?_⟩
  · rw [r2t, r1t, hmt t ht]
  · rw [r2b, r1b]
    rfl
  · rw [r2v f, r1t, hmp, r1v f, hopsx, hmop]
    by_cases hf : f ∈ (h.t x).ops
    · simp only [hf, ite_true]
      exact restore_reroutes_back _ _ _ (hfresh f)
    · simp [hf]

end MG.C13

/-! ## the functions `_in_place_op` calls: `DuplicatingGraph(x)` then `restore_old_graph` -/

namespace MG.C13
open MG.Eng MG.ND

theorem duplicate_no_children (fuel : Nat) (h : Heap) (live : List Nat) (bp t : Nat) (nodes : List Node)
    (hc : liveChildren h live t = []) : duplicate (fuel + 1) h live bp t nodes = .ok (h, nodes) := by
  simp [duplicate, familyChildren, hc]

theorem flatMap_nil_of_forall {α β} (l : List α) (f : α → List β) (hf : ∀ a ∈ l, f a = []) : l.flatMap f = [] := by
  induction l with
  | nil => rfl
  | cons a l ih =>
    simp only [List.flatMap_cons, hf a (List.mem_cons_self ..), List.nil_append]
    exact ih fun b hb => hf b (List.mem_cons_of_mem _ hb)

/-- the graph `DuplicatingGraph(x)` builds for a tensor without live views: one node -/
theorem mkDupGraph_no_views (h : Heap) (live : List Nat) (x : Nat) (hx : x < h.next)
    (hbase : (h.t x).base = none) (hnov : liveChildren h live x = []) :
    mkDupGraph h live x =
      .ok (reroute (phHeap (nullGrad h x) x) h.next x, ⟨[⟨x, h.next, none⟩]⟩) := by
  have hne : h.next ≠ x := by omega
  have hg : ((nullGrad h x).t x).grad = none := by simp [nullGrad]
  have hb0 : ((nullGrad h x).t x).base = none := by simp [nullGrad, hbase]
  have hmk := makePlaceholder_eq (nullGrad h x) x hg
  have hnx : (nullGrad h x).next = h.next := rfl
  unfold mkDupGraph
  simp only
  show (match makePlaceholder (nullGrad h x) x ((nullGrad h x).t x).base with
    | .error e => _ | .ok (h, p) => _) = _
  rw [hb0, hmk, hnx]
  simp only
  obtain ⟨r1t, _, r1n, _⟩ := reroute_spec (phHeap (nullGrad h x) x) h.next x hne
  have hfuel : (reroute (phHeap (nullGrad h x) x) h.next x).fuel = ((reroute (phHeap (nullGrad h x) x) h.next x).next + 1) + 1 := rfl
  have hch : liveChildren (reroute (phHeap (nullGrad h x) x) h.next x) live x = [] := by
    unfold liveChildren at hnov ⊢
    rw [r1t x]
    have : ((phHeap (nullGrad h x) x).t x).vchildren = (h.t x).vchildren := by
      have hne' : x ≠ (nullGrad h x).next := fun e => hne (hnx ▸ e.symm)
      simp only [phHeap, mirror, fresh_snd]
      rw [t_modT_ne _ _ _ _ hne', t_setT_ne _ _ _ _ hne']
      show ((nullGrad h x).t x).vchildren = _
      simp [nullGrad]
    rw [this]; exact hnov
  rw [hfuel, duplicate_no_children _ _ _ _ _ _ hch]

end MG.C13

namespace MG.C13
open MG.Eng MG.ND

theorem dfs_single (h1 : Heap) (x p : Nat) (hvc : ∀ c ∈ (h1.t p).vchildren, c ≠ x ∧ c ≠ p) :
    (⟨[⟨x, p, none⟩]⟩ : DupGraph).dfs h1 = [⟨x, p, none⟩] := by
  unfold DupGraph.dfs
  show DupGraph.dfs.go _ h1 (h1.next + 1 + 1) p = _
  unfold DupGraph.dfs.go
  simp only [DupGraph.node?, List.find?, or_true, decide_true]
  have : (h1.t p).vchildren.flatMap (DupGraph.dfs.go ⟨[⟨x, p, none⟩]⟩ h1 (h1.next + 1)) = [] := by
    apply flatMap_nil_of_forall
    intro c hc
    obtain ⟨h1c, h2c⟩ := hvc c hc
    unfold DupGraph.dfs.go
    simp [DupGraph.node?, List.find?, Ne.symm h1c, Ne.symm h2c]
  simp [this]

theorem restore_single (h1 : Heap) (x p : Nat) (hne : x ≠ p)
    (hvc : ∀ c ∈ (h1.t p).vchildren, c ≠ x ∧ c ≠ p) (hpb : (h1.t p).base = none) :
    (⟨[⟨x, p, none⟩]⟩ : DupGraph).restore h1 = reroute h1 x p := by
  unfold DupGraph.restore
  rw [dfs_single h1 x p hvc]
  simp only [List.foldl_cons, List.foldl_nil]
  have : ((reroute h1 x p).t p).base = none := by
    rw [(reroute_spec h1 x p hne).1 p]; exact hpb
  simp [this]

end MG.C13

namespace MG.C13
open MG.Eng MG.ND

/-- **restore_inverts_mkDupGraph** (tensor that owns its memory, no live views).  For the *functions the
in-place machinery actually calls*: `DuplicatingGraph(x)` (`mkDupGraph`, which first discards `x`'s
gradient) succeeds, and `restore_old_graph` applied to its result gives back the heap of `x.null_grad()`:
every tensor other than the internal placeholder is as `null_grad` leaves it — value, flag, base,
creator, consumers, view children — no buffer was touched, and every op has exactly its old variables.
So a failing in-place update leaves no trace beyond the discarded gradient (which the update nulls up
front in any case). -/
theorem restore_inverts_mkDupGraph (h : Heap) (live : List Nat) (x : Nat) (hx : x < h.next)
    (hbase : (h.t x).base = none) (hnov : liveChildren h live x = [])
    (hvc : ∀ c ∈ (h.t x).vchildren, c ≠ x ∧ c ≠ h.next)
    (hfresh : ∀ f, h.next ∉ (h.op f).vars) :
    ∃ h2 g, mkDupGraph h live x = .ok (h2, g) ∧
      (∀ t, t ≠ h.next → (g.restore h2).t t = (nullGrad h x).t t) ∧
      (g.restore h2).bufs = h.bufs ∧
      (∀ f, ((g.restore h2).op f).vars = (h.op f).vars) := by
  have hne : h.next ≠ x := by omega
  refine ⟨_, _, mkDupGraph_no_views h live x hx hbase hnov, ?_⟩
  have hnx : (nullGrad h x).next = h.next := rfl
  -- the placeholder mirrors x: its view children are x's, its base is none
  have hpt : ((reroute (phHeap (nullGrad h x) x) h.next x).t h.next) =
      { (nullGrad h x).t x with base := none } := by
    rw [(reroute_spec (phHeap (nullGrad h x) x) h.next x hne).1]
    simp [phHeap, mirror, hnx]
  have hpv : ((reroute (phHeap (nullGrad h x) x) h.next x).t h.next).vchildren = (h.t x).vchildren := by
    rw [hpt]; simp [nullGrad]
  have hpb : ((reroute (phHeap (nullGrad h x) x) h.next x).t h.next).base = none := by rw [hpt]
  rw [restore_single _ x h.next (Ne.symm hne) (by rw [hpv]; exact hvc) hpb]
  -- now the two-reroute argument of `restore_inverts_duplicate`, on the heap after null_grad
  have hg : ((nullGrad h x).t x).grad = none := by simp [nullGrad]
  have hfresh' : ∀ f, (nullGrad h x).next ∉ ((nullGrad h x).op f).vars := fun f => hfresh f
  obtain ⟨h2, p, hmk, hp, ht, hb, hv⟩ := restore_inverts_duplicate (nullGrad h x) x hg hx hfresh'
  rw [makePlaceholder_eq (nullGrad h x) x hg] at hmk
  injection hmk with hmk
  injection hmk with hh2 hpp
  subst hh2
  rw [hnx] at hp ht hb hv
  subst hp
  exact ⟨fun t ht' => ht t ht', hb, fun f => hv f⟩

/-- a leaf that was multiplied once (one consumer op) and holds a gradient -/
def exHeap : Heap :=
  { tens := [(0, { data := ⟨5, Desc.contig 0 [2]⟩, const := false, grad := some ([2], [1, 1]), ops := [1] })],
    ops := [(1, { kind := .mul, vars := [0, 0] })], bufs := [(5, [3, 4])], next := 6 }

/-- the hypotheses of `restore_inverts_mkDupGraph` are satisfiable (by a tensor that does hold a gradient) -/
example : (0 : Nat) < exHeap.next ∧ (exHeap.t 0).base = none ∧ liveChildren exHeap [0] 0 = [] ∧
    (∀ c ∈ (exHeap.t 0).vchildren, c ≠ 0 ∧ c ≠ exHeap.next) ∧ (∀ f, exHeap.next ∉ (exHeap.op f).vars) ∧
    (exHeap.t 0).grad.isSome := by
  refine ⟨by decide, rfl, rfl, ?_, ?_, rfl⟩
  · intro c hc
    cases hc
  · intro f
    by_cases hf : f = 1
    · subst hf; decide
    · have : (exHeap.op f).vars = [] := by
        simp [exHeap, Heap.op, lookup, Ne.symm hf]; rfl
      rw [this]; simp

end MG.C13

/-! ## an in-place update discards the gradients of the whole view family (any forest) -/

namespace MG.C13
open MG.Eng MG.ND

/-- no tensor acquires a gradient: wherever `h` has none, `h'` has none -/
def GradMono (h h' : Heap) : Prop := ∀ x, (h.t x).grad = none → (h'.t x).grad = none

theorem GradMono.refl (h : Heap) : GradMono h h := fun _ hx => hx
theorem GradMono.trans {a b c : Heap} (h1 : GradMono a b) (h2 : GradMono b c) : GradMono a c :=
  fun x hx => h2 x (h1 x hx)

theorem gradMono_modT (h : Heap) (i : Nat) (f : Tens → Tens) (hf : ∀ t, t.grad = none → (f t).grad = none) :
    GradMono h (h.modT i f) := by
  intro x hx
  by_cases e : x = i
  · subst e; rw [t_modT_self]; exact hf _ hx
  · rw [t_modT_ne _ _ _ _ e]; exact hx

theorem gradMono_reroute (h : Heap) (a b : Nat) : GradMono h (reroute h a b) := by
  intro x hx
  by_cases e : a = b
  · -- degenerate: still only ops are touched
    have : ∀ (L : List Nat) (h : Heap), ((L.foldl (fun h f =>
        let o := h.op f
        h.setOp f { o with vars := o.vars.map fun v => if v = b then a else v }) h).t x) = h.t x := by
      intro L; induction L with
      | nil => intro h; rfl
      | cons f L ih => intro h; simp only [List.foldl_cons]; rw [ih]; rfl
    unfold reroute; rw [this]; exact hx
  · rw [(reroute_spec h a b e).1 x]; exact hx

/-- `make_placeholder_tensor` never gives a gradient to anything: the placeholder mirrors a tensor without one -/
theorem makePlaceholder_gradMono {h h' : Heap} {x p : Nat} {b : Option Nat}
    (hm : makePlaceholder h x b = .ok (h', p)) : GradMono h h' ∧ (h'.t p).grad = none ∧ (h.t x).grad = none := by
  unfold makePlaceholder at hm
  by_cases hg : (h.t x).grad.isSome = true
  · simp [hg] at hm
  · simp only [hg] at hm
    have hgn : (h.t x).grad = none := by
      cases hgx : (h.t x).grad with
      | none => rfl
      | some v => simp [hgx] at hg
    injection hm with hm
    injection hm with h1 h2
    subst h1; subst h2
    have key : ∀ y, (((mirror h.fresh.1 h.fresh.2 x).modT h.fresh.2 ({ · with base := b })).t y).grad = none
        ↔ (y = h.next ∨ (h.t y).grad = none) := by
      intro y
      by_cases e : y = h.next
      · subst e
        simp [mirror, hgn]
      · simp only [mirror, fresh_snd]
        rw [t_modT_ne _ _ _ _ e, t_setT_ne _ _ _ _ e]
        simp [e]
    refine ⟨fun y hy => ?_, ?_, hgn⟩
    · exact gradMono_reroute _ _ _ y ((key y).2 (Or.inr hy))
    · exact gradMono_reroute _ _ _ _ ((key h.next).2 (Or.inl rfl))

end MG.C13

namespace MG.C13
open MG.Eng MG.ND

/-- the step function of `_duplicate_graph`'s loop over the live view children -/
def dupStep (fuel : Nat) (live : List Nat) (basePh tensor : Nat) (acc : Heap × List Node) (child : Nat) :
    Except (Err × Heap) (Heap × List Node) :=
  let h0 := acc.1.modT child ({ · with grad := none, viewGrad := none })
  match makePlaceholder h0 child (some basePh) with
  | .error e => Except.error (e, h0)
  | .ok (h, p) => duplicate fuel h live basePh child (acc.2 ++ [Node.mk child p (some tensor)])

def DupPost (h : Heap) (nodes : List Node) (h' : Heap) (nodes' : List Node) : Prop :=
  GradMono h h' ∧ ∀ n ∈ nodes', n ∈ nodes ∨ (h'.t n.tensor).grad = none

theorem dupFold_post (fuel : Nat) (live : List Nat) (bp t : Nat)
    (ih : ∀ h c nodes h' nodes', duplicate fuel h live bp c nodes = .ok (h', nodes') → DupPost h nodes h' nodes') :
    ∀ (cs : List Nat) (acc : Heap × List Node) (h' : Heap) (nodes' : List Node),
      cs.foldlM (dupStep fuel live bp t) acc = .ok (h', nodes') → DupPost acc.1 acc.2 h' nodes' := by
  intro cs
  induction cs with
  | nil =>
    intro acc h' nodes' hr
    simp only [List.foldlM_nil, pure, Except.pure] at hr
    injection hr with hr
    subst hr
    exact ⟨GradMono.refl _, fun n hn => Or.inl hn⟩
  | cons c cs ihl =>
    intro acc h' nodes' hr
    rw [List.foldlM_cons] at hr
    cases hF : dupStep fuel live bp t acc c with
    | error e => rw [hF] at hr; simp [Bind.bind, Except.bind] at hr
    | ok a =>
      rw [hF] at hr
      simp only [Bind.bind, Except.bind] at hr
      obtain ⟨h2, nodes2⟩ := a
      obtain ⟨g2, n2⟩ := ihl (h2, nodes2) h' nodes' hr
      -- unpack the step
      unfold dupStep at hF
      simp only at hF
      cases hmk : makePlaceholder (acc.1.modT c ({ · with grad := none, viewGrad := none })) c (some bp) with
      | error e => rw [hmk] at hF; simp at hF
      | ok hp =>
        obtain ⟨h1, p⟩ := hp
        rw [hmk] at hF
        simp only at hF
        obtain ⟨gm1, _, _⟩ := makePlaceholder_gradMono hmk
        obtain ⟨g12, n12⟩ := ih h1 c _ h2 nodes2 hF
        have g0 : GradMono acc.1 (acc.1.modT c ({ · with grad := none, viewGrad := none })) :=
          gradMono_modT _ _ _ (fun _ _ => rfl)
        have hc0 : ((acc.1.modT c ({ · with grad := none, viewGrad := none })).t c).grad = none := by simp
        refine ⟨(g0.trans gm1).trans (g12.trans g2), fun n hn => ?_⟩
        rcases n2 n hn with hin | hnone
        · rcases n12 n hin with hin' | hnone'
          · rcases List.mem_append.mp hin' with hold | hnew
            · exact Or.inl hold
            · have : n = Node.mk c p (some t) := by simpa using hnew
              subst this
              exact Or.inr (g2 _ (g12 _ (gm1 _ hc0)))
          · exact Or.inr (g2 _ hnone')
        · exact Or.inr hnone

theorem duplicate_eq_fold (fuel : Nat) (h : Heap) (live : List Nat) (bp t : Nat) (nodes : List Node) :
    duplicate (fuel + 1) h live bp t nodes =
      (let children := familyChildren h live t
       if children.isEmpty then .ok (h, nodes)
       else match children.foldlM (dupStep fuel live bp t) (h, nodes) with
        | .error e => .error e
        | .ok (h, nodes) =>
          let phOf (t : Nat) : Nat := ((nodes.find? fun n => n.tensor = t).map (·.placeholder)).getD t
          .ok (h.modT (phOf t) ({ · with vchildren := children.map phOf }), nodes)) := by
  rfl

theorem duplicate_post : ∀ (fuel : Nat) (live : List Nat) (bp : Nat) (h : Heap) (t : Nat) (nodes : List Node)
    (h' : Heap) (nodes' : List Node),
    duplicate fuel h live bp t nodes = .ok (h', nodes') → DupPost h nodes h' nodes' := by
  intro fuel live bp
  induction fuel with
  | zero =>
    intro h t nodes h' nodes' hr
    simp only [duplicate] at hr
    injection hr with hr; injection hr with h1 h2
    subst h1; subst h2
    exact ⟨GradMono.refl _, fun n hn => Or.inl hn⟩
  | succ fuel ih =>
    intro h t nodes h' nodes' hr
    rw [duplicate_eq_fold] at hr
    simp only at hr
    by_cases hc : (familyChildren h live t).isEmpty = true
    · simp only [hc, if_true] at hr
      injection hr with hr; injection hr with h1 h2
      subst h1; subst h2
      exact ⟨GradMono.refl _, fun n hn => Or.inl hn⟩
    · simp only [hc] at hr
      cases hf : (familyChildren h live t).foldlM (dupStep fuel live bp t) (h, nodes) with
      | error e => rw [hf] at hr; simp at hr
      | ok a =>
        obtain ⟨h2, nodes2⟩ := a
        rw [hf] at hr
        simp only at hr
        injection hr with hr; injection hr with h1 hn2
        subst hn2
        obtain ⟨g, n⟩ := dupFold_post fuel live bp t (fun h c nodes h' nodes' => ih h c nodes h' nodes') _ (h, nodes) h2 nodes2 hf
        have gm : GradMono h2 h' := by
          rw [← h1]
          exact gradMono_modT _ _ _ (fun _ ht => ht)
        refine ⟨g.trans gm, fun m hm => ?_⟩
        rcases n m hm with hin | hnone
        · exact Or.inl hin
        · exact Or.inr (gm _ hnone)

end MG.C13

namespace MG.C13
open MG.Eng MG.ND

/-- **mkDupGraph_discards_family_grads** (any view forest).  When `DuplicatingGraph(base)` succeeds, the base
and every view placed in the graph hold no gradient any more, and no tensor anywhere acquired one: an in-place
update discards the — now stale — gradients of the whole view family before it rewires the graph (C07: "its
.grad and that of its views read None"), which is also why `make_placeholder_tensor`'s assertion can no longer
fire half-way through and leave a partly re-routed graph behind (C13). -/
theorem mkDupGraph_discards_family_grads (h : Heap) (live : List Nat) (base : Nat) (h' : Heap) (g : DupGraph)
    (hr : mkDupGraph h live base = .ok (h', g)) :
    (∀ n ∈ g.nodes, (h'.t n.tensor).grad = none) ∧
    (∀ x, x ≠ base → (h.t x).grad = none → (h'.t x).grad = none) := by
  unfold mkDupGraph at hr
  simp only at hr
  cases hmk : makePlaceholder (h.modT base ({ · with grad := none, viewGrad := none })) base
      ((h.modT base ({ · with grad := none, viewGrad := none })).t base).base with
  | error e => rw [hmk] at hr; simp at hr
  | ok hp =>
    obtain ⟨h1, p⟩ := hp
    rw [hmk] at hr
    simp only at hr
    cases hd : duplicate h1.fuel h1 live p base [⟨base, p, none⟩] with
    | error e => rw [hd] at hr; simp at hr
    | ok a =>
      obtain ⟨h2, nodes⟩ := a
      rw [hd] at hr
      simp only at hr
      injection hr with hr; injection hr with e1 e2
      subst e1; subst e2
      obtain ⟨gm1, _, _⟩ := makePlaceholder_gradMono hmk
      obtain ⟨g12, n12⟩ := duplicate_post _ live p h1 base _ h2 nodes hd
      have hb0 : ((h.modT base ({ · with grad := none, viewGrad := none })).t base).grad = none := by simp
      refine ⟨fun n hn => ?_, fun x hx hg => ?_⟩
      · rcases n12 n hn with hin | hnone
        · have : n = ⟨base, p, none⟩ := by simpa using hin
          subst this
          exact g12 _ (gm1 _ hb0)
        · exact hnone
      · apply g12; apply gm1
        rw [t_modT_ne _ _ _ _ hx]; exact hg

end MG.C13
