import MG.Proofs.Lemmas.Heap
import MG.IO.EngIO
/-!
# C13 — a failed operation leaves no trace

In the engine model a failing (non-in-place) `Tensor._op` produces no heap at all, so the driver keeps
the old state (`failed_op_is_noop`).  A failing in-place update has, by the time the kernel raises,
already replaced the public tensors by placeholders in every recorded consumer; what is left behind is
what `DuplicatingGraph.restore_old_graph` makes of that — `restore_inverts_duplicate` shows it puts
every consumer back and never touched a public tensor.
-/
namespace MG.C13
open MG.Eng MG.ND

/-- **failed_op_is_noop.**  A failing statement that is not an in-place update leaves the driver's
whole state (all tensors, ops, buffers, the variable table) exactly as it was. -/
theorem failed_op_is_noop (d : DS) (name : Nat) (e : Err) :
    bind d name (.error e) = (d, e.name) := rfl

/-! ## `reroute_ops_through` -/

def swapVar (source target : Nat) (v : Nat) : Nat := if v = source then target else v

theorem op_setOp_self (h : Heap) (f : Nat) (o : OpRec) : (h.setOp f o).op f = o := by
  simp [Heap.op, Heap.setOp, lookup_insert_self]

theorem op_setOp_ne (h : Heap) (f g : Nat) (o : OpRec) (hne : g ≠ f) : (h.setOp f o).op g = h.op g := by
  simp [Heap.op, Heap.setOp, lookup_insert_ne _ _ _ _ hne]

theorem t_setOp (h : Heap) (f : Nat) (o : OpRec) (t : Nat) : (h.setOp f o).t t = h.t t := rfl

/-- one re-routing pass over a list of op ids: tensors are untouched; an op's variables are the old
ones, mapped through `swapVar source target` at least once if the op is in the list -/
theorem reroute_fold (source target : Nat) (hne : target ≠ source) :
    ∀ (L : List Nat) (h : Heap),
      let h' := L.foldl (fun h f =>
        let o := h.op f
        h.setOp f { o with vars := o.vars.map fun v => if v = source then target else v }) h
      (∀ t, h'.t t = h.t t) ∧ h'.bufs = h.bufs ∧ h'.next = h.next ∧
      (∀ f, (h'.op f).vars = if f ∈ L then (h.op f).vars.map (swapVar source target) else (h.op f).vars) := by
  intro L
  induction L with
  | nil => intro h; exact ⟨fun _ => rfl, rfl, rfl, fun f => by simp⟩
  | cons f0 L ih =>
    intro h
    simp only [List.foldl_cons]
    obtain ⟨ht, hb, hn, hv⟩ := ih (h.setOp f0 { h.op f0 with vars := (h.op f0).vars.map fun v => if v = source then target else v })
    refine ⟨fun t => (ht t).trans rfl, hb.trans rfl, hn.trans rfl, fun f => ?_⟩
    rw [hv f]
    have hidem : ∀ vs : List Nat, (vs.map (swapVar source target)).map (swapVar source target) = vs.map (swapVar source target) := by
      intro vs
      rw [List.map_map]
      apply List.map_congr_left
      intro v _
      simp only [Function.comp, swapVar]
      by_cases hv' : v = source
      · simp [hv', hne]
      · simp [hv']
    by_cases hf : f = f0
    · subst hf
      rw [op_setOp_self]
      by_cases hm : f ∈ L
      · simp only [hm, ite_true, List.mem_cons, true_or]
        exact hidem _
      · simp only [hm, if_false, List.mem_cons, true_or, if_true]
        rfl
    · rw [op_setOp_ne _ _ _ _ hf]
      simp only [List.mem_cons, hf, false_or]

theorem reroute_spec (h : Heap) (target source : Nat) (hne : target ≠ source) :
    (∀ t, (reroute h target source).t t = h.t t) ∧ (reroute h target source).bufs = h.bufs ∧
    (reroute h target source).next = h.next ∧
    (∀ f, ((reroute h target source).op f).vars =
      if f ∈ (h.t source).ops then (h.op f).vars.map (swapVar source target) else (h.op f).vars) :=
  reroute_fold source target hne (h.t source).ops h

/-- **restore_reroutes_back.**  Routing the consumers of `x` through a fresh placeholder `p` and then
back restores every op's variable list exactly, provided no op mentioned `p` before (placeholders get
fresh ids). -/
theorem restore_reroutes_back (vs : List Nat) (x p : Nat) (hp : p ∉ vs) :
    (vs.map (swapVar x p)).map (swapVar p x) = vs := by
  rw [List.map_map]
  conv => rhs; rw [← List.map_id vs]
  apply List.map_congr_left
  intro v hv
  simp only [Function.comp, swapVar, id]
  by_cases h1 : v = x
  · simp [h1]
  · have : v ≠ p := fun e => hp (e ▸ hv)
    simp [h1, this]

/-- the heap right after the placeholder object was created and given `x`'s state (before re-routing) -/
def phHeap (h : Heap) (x : Nat) : Heap :=
  (mirror h.fresh.1 h.fresh.2 x).modT h.fresh.2 ({ · with base := none })

theorem makePlaceholder_eq (h : Heap) (x : Nat) (hg : (h.t x).grad = none) :
    makePlaceholder h x none = .ok (reroute (phHeap h x) h.next x, h.next) := by
  simp [makePlaceholder, hg, phHeap]

/-- **restore_inverts_duplicate** (base tensor without live views).  Let `x` hold no gradient and let
no op mention the id the placeholder will get.  Creating the placeholder graph of `x`
(`DuplicatingGraph(x)`) and then — as the failure path of `_in_place_op` does — restoring the old graph
(`restore_old_graph`) yields a heap in which every tensor that existed before is *unchanged* (value,
flag, base, creator, consumers, view children) and every op has exactly its old variables. -/
theorem restore_inverts_duplicate (h : Heap) (x : Nat)
    (hg : (h.t x).grad = none) (hx : x < h.next)
    (hfresh : ∀ f, h.next ∉ (h.op f).vars) :
    ∃ h2 p, makePlaceholder h x none = .ok (h2, p) ∧ p = h.next ∧
      (∀ t, t ≠ p → (reroute h2 x p).t t = h.t t) ∧ (reroute h2 x p).bufs = h.bufs ∧
      (∀ f, ((reroute h2 x p).op f).vars = (h.op f).vars) := by
  have hne : h.next ≠ x := by omega
  refine ⟨_, h.next, makePlaceholder_eq h x hg, rfl, ?_⟩
  have hmt : ∀ t, t ≠ h.next → (phHeap h x).t t = h.t t := by
    intro t ht
    simp only [phHeap, mirror, fresh_snd]
    rw [t_modT_ne _ _ _ _ ht, t_setT_ne _ _ _ _ ht]
    rfl
  have hmp : ((phHeap h x).t h.next).ops = (h.t x).ops := by
    simp [phHeap, mirror]
  have hmop : ∀ f, (phHeap h x).op f = h.op f := fun f => rfl
  obtain ⟨r1t, r1b, r1n, r1v⟩ := reroute_spec (phHeap h x) h.next x hne
  obtain ⟨r2t, r2b, r2n, r2v⟩ := reroute_spec (reroute (phHeap h x) h.next x) x h.next (Ne.symm hne)
  have hopsx : ((phHeap h x).t x).ops = (h.t x).ops := by rw [hmt x (Ne.symm hne)]
  refine ⟨fun t ht => ?_, ?_, fun f => ?_⟩
  · rw [r2t, r1t, hmt t ht]
  · rw [r2b, r1b]
    rfl
  · rw [r2v f, r1t, hmp, r1v f, hopsx, hmop]
    by_cases hf : f ∈ (h.t x).ops
    · simp only [hf, ite_true]
      exact restore_reroutes_back _ _ _ (hfresh f)
    · simp [hf]

end MG.C13
