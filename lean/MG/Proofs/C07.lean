import MG.Proofs.C12
/-!
# C07 — `backward()` releases the whole graph; gradients never go stale

State rules of the engine model: what `clear_graph` / `backward` / a non-view op do to the fields that
hold the graph together (`_creator`, `_ops`) and to stored gradients.  CPython's reference counting
itself is observed by the harness, not modelled.
-/
namespace MG.C07
open MG.Eng MG.ND

/-- a tensor that has been released from the graph: no creator, no recorded consumers -/
def Cleared (h : Heap) (u : Nat) : Prop := (h.t u).creator = none ∧ (h.t u).ops = []

/-- the graph fields of every tensor only ever shrink under a step `h → h'` -/
def Shrinks (h h' : Heap) : Prop :=
  (∀ u, (h'.t u).creator = (h.t u).creator ∨ (h'.t u).creator = none) ∧
  (∀ u, (h'.t u).ops = (h.t u).ops ∨ (h'.t u).ops = []) ∧
  (∀ f, h'.op f = h.op f)

theorem Shrinks.refl (h : Heap) : Shrinks h h := ⟨fun _ => Or.inl rfl, fun _ => Or.inl rfl, fun _ => rfl⟩

theorem Shrinks.trans {a b c : Heap} (h1 : Shrinks a b) (h2 : Shrinks b c) : Shrinks a c := by
  refine ⟨fun u => ?_, fun u => ?_, fun f => (h2.2.2 f).trans (h1.2.2 f)⟩
  · rcases h2.1 u with e | e
    · rw [e]; exact h1.1 u
    · exact Or.inr e
  · rcases h2.2.1 u with e | e
    · rw [e]; exact h1.2.1 u
    · exact Or.inr e

theorem Shrinks.cleared {h h' : Heap} (hs : Shrinks h h') {u : Nat} (hc : Cleared h u) : Cleared h' u := by
  refine ⟨?_, ?_⟩
  · rcases hs.1 u with e | e
    · rw [e]; exact hc.1
    · exact e
  · rcases hs.2.1 u with e | e
    · rw [e]; exact hc.2
    · exact e

/-- reading `.grad` (which may fill view-gradient caches) touches neither creators nor consumers -/
theorem gradPropObj_graph_fields (fuel : Nat) (h : Heap) (t : Nat) :
    (∀ u, ((gradPropObj fuel h t).1.t u).creator = (h.t u).creator ∧
          ((gradPropObj fuel h t).1.t u).ops = (h.t u).ops) ∧
    (∀ f, (gradPropObj fuel h t).1.op f = h.op f) := by
  induction fuel generalizing h t with
  | zero => exact ⟨fun _ => ⟨rfl, rfl⟩, fun _ => rfl⟩
  | succ fuel ih =>
    unfold gradPropObj
    simp only
    split
    · exact ⟨fun _ => ⟨rfl, rfl⟩, fun _ => rfl⟩
    · split
      · exact ⟨fun _ => ⟨rfl, rfl⟩, fun _ => rfl⟩
      · split
        · exact ⟨fun _ => ⟨rfl, rfl⟩, fun _ => rfl⟩
        · split
          · exact ⟨fun _ => ⟨rfl, rfl⟩, fun _ => rfl⟩
          · split
            · exact ⟨fun _ => ⟨rfl, rfl⟩, fun _ => rfl⟩
            · split
              · exact ⟨fun _ => ⟨rfl, rfl⟩, fun _ => rfl⟩
              · rename_i f hf
                have := ih h ((h.op f).vars.getD 0 0)
                refine ⟨fun u => ?_, fun g => ?_⟩
                · constructor
                  · rw [t_modT_field _ _ _ _ (·.creator) (by intro x; rfl)]; exact (this.1 u).1
                  · rw [t_modT_field _ _ _ _ (·.ops) (by intro x; rfl)]; exact (this.1 u).2
                · simp only [op_modT]; exact this.2 g

theorem gradProp_shrinks (fuel : Nat) (h : Heap) (t : Nat) : Shrinks h (gradProp fuel h t).1 := by
  unfold gradProp
  have := gradPropObj_graph_fields fuel h t
  exact ⟨fun u => Or.inl (this.1 u).1, fun u => Or.inl (this.1 u).2, this.2⟩

/-- `clear_graph` only ever removes graph information -/
theorem clearGraph_shrinks (fuel : Nat) (h : Heap) (t : Nat) : Shrinks h (clearGraph fuel h t) := by
  induction fuel generalizing h t with
  | zero => exact Shrinks.refl h
  | succ fuel ih =>
    unfold clearGraph
    simp only
    -- the pull
    have hp : Shrinks h (if ((h.t t).base.isSome = true) then (gradProp h.fuel h t).1 else h) := by
      split
      · exact gradProp_shrinks _ _ _
      · exact Shrinks.refl h
    generalize (if ((h.t t).base.isSome = true) then (gradProp h.fuel h t).1 else h) = h1 at hp ⊢
    have hm : ∀ (g : Tens → Tens), (∀ x, (g x).creator = x.creator ∨ (g x).creator = none) →
        (∀ x, (g x).ops = x.ops ∨ (g x).ops = []) → ∀ hh : Heap, Shrinks hh (hh.modT t g) := by
      intro g hc ho hh
      refine ⟨fun u => ?_, fun u => ?_, fun f => rfl⟩
      · by_cases hu : u = t
        · subst hu; simpa using hc _
        · rw [t_modT_ne _ _ _ _ hu]; exact Or.inl rfl
      · by_cases hu : u = t
        · subst hu; simpa using ho _
        · rw [t_modT_ne _ _ _ _ hu]; exact Or.inl rfl
    have h2 : Shrinks h1 (h1.modT t fun x => { x with vchildren := [], ops := [] }) :=
      hm (fun x => { x with vchildren := [], ops := [] }) (fun _ => Or.inl rfl) (fun _ => Or.inr rfl) h1
    split
    · exact hp.trans h2
    · rename_i f hf
      have h3 := hm (fun x => { x with creator := none }) (fun _ => Or.inr rfl) (fun _ => Or.inl rfl)
        (h1.modT t fun x => { x with vchildren := [], ops := [] })
      have hfold : ∀ (vs : List Nat) (h0 : Heap), Shrinks h0 (vs.foldl (fun h v => clearGraph fuel h v) h0) := by
        intro vs
        induction vs with
        | nil => intro h0; exact Shrinks.refl h0
        | cons v vs ihv => intro h0; simp only [List.foldl_cons]; exact (ih h0 v).trans (ihv _)
      exact ((hp.trans h2).trans h3).trans (hfold _ _)

/-- **clearGraph_clears_root.**  After `clear_graph` the tensor it was called on has no creator and
no recorded consumers (and it can never get them back during the recursion). -/
theorem clearGraph_clears_root (fuel : Nat) (h : Heap) (t : Nat) : Cleared (clearGraph (fuel + 1) h t) t := by
  unfold clearGraph
  simp only
  generalize (if ((h.t t).base.isSome = true) then (gradProp h.fuel h t).1 else h) = h1
  split
  · rename_i hcr
    exact ⟨by simpa using hcr, by simp⟩
  · rename_i f hf
    have hfold : ∀ (vs : List Nat) (h0 : Heap), Shrinks h0 (vs.foldl (fun h v => clearGraph fuel h v) h0) := by
      intro vs
      induction vs with
      | nil => intro h0; exact Shrinks.refl h0
      | cons v vs ihv => intro h0; simp only [List.foldl_cons]; exact (clearGraph_shrinks fuel h0 v).trans (ihv _)
    apply (hfold _ _).cleared
    exact ⟨by simp, by simp⟩

/-- **clearGraph_clears_inputs.**  … and so has every input of the op that created it: the recursion
reaches each of them, and what it clears stays cleared.  (Iterating this along creator chains covers
every tensor upstream, as far as the recursion's fuel — CPython's stack — reaches.) -/
theorem clearGraph_clears_inputs (fuel : Nat) (h : Heap) (t f : Nat) (hcr : (h.t t).creator = some f)
    (v : Nat) (hv : v ∈ (h.op f).vars) : Cleared (clearGraph (fuel + 2) h t) v := by
  unfold clearGraph
  simp only
  -- the pull keeps creators and op records
  have hp : Shrinks h (if ((h.t t).base.isSome = true) then (gradProp h.fuel h t).1 else h) := by
    split
    · exact gradProp_shrinks _ _ _
    · exact Shrinks.refl h
  have hcr1 : ((if ((h.t t).base.isSome = true) then (gradProp h.fuel h t).1 else h).t t).creator = some f := by
    split
    · have := (gradPropObj_graph_fields h.fuel h t).1 t
      unfold gradProp
      rw [this.1]; exact hcr
    · exact hcr
  have hop1 : (if ((h.t t).base.isSome = true) then (gradProp h.fuel h t).1 else h).op f = h.op f := hp.2.2 f
  generalize (if ((h.t t).base.isSome = true) then (gradProp h.fuel h t).1 else h) = h1 at hcr1 hop1 ⊢
  rw [hcr1]
  simp only [op_modT, hop1]
  -- fold over the variables: the call on `v` clears it, later calls keep it cleared
  have hfold : ∀ (vs : List Nat) (h0 : Heap), v ∈ vs →
      Cleared (vs.foldl (fun h v => clearGraph (fuel + 1) h v) h0) v := by
    intro vs
    induction vs with
    | nil => intro h0 hm; simp at hm
    | cons w ws ihw =>
      intro h0 hm
      simp only [List.foldl_cons]
      rcases List.mem_cons.mp hm with rfl | hm'
      · have hrest : ∀ (xs : List Nat) (hh : Heap), Shrinks hh (xs.foldl (fun h v => clearGraph (fuel + 1) h v) hh) := by
          intro xs
          induction xs with
          | nil => intro hh; exact Shrinks.refl hh
          | cons x xs ihx => intro hh; simp only [List.foldl_cons]; exact (clearGraph_shrinks _ hh x).trans (ihx _)
        exact (hrest ws _).cleared (clearGraph_clears_root fuel h0 v)
      · exact ihw _ hm'
  exact hfold _ _ hv

/-- **backward_clears_graph.**  A completed `backward` ends with `clear_graph` on the terminal tensor:
it (and, by the two theorems above, what is upstream of it) has no creator and no consumers. -/
theorem backward_clears_graph (h : Heap) (L : Nat) (seed : Seed) (h' : Heap)
    (hok : backward h L seed = .ok h') : Cleared h' L := by
  unfold backward at hok
  simp only at hok
  have hfuel : ∀ hh : Heap, hh.fuel = (hh.next + 1) + 1 := fun _ => rfl
  split at hok
  · simp only [Except.ok.injEq] at hok
    rw [← hok, hfuel]
    exact clearGraph_clears_root _ _ _
  · split at hok
    · cases hok
    · split at hok
      · cases hok
      · split at hok
        · cases hok
        · simp only [Except.ok.injEq] at hok
          rw [← hok, hfuel]
          exact clearGraph_clears_root _ _ _

/-- **cleared_tensor_holds_no_strong_edge.**  The strong references a tensor holds into the graph are
`_creator` (→ the op → its variables) and `_base`.  Once cleared, the first is gone: the only tensor a
cleared tensor still keeps alive is its base, so ops, intermediates and placeholders upstream of it
are no longer reachable through it. -/
theorem cleared_tensor_holds_no_strong_edge (h : Heap) (u : Nat) (hc : Cleared h u) :
    strongSucc h u = (match (h.t u).base with | some b => [b] | none => []) := by
  simp only [strongSucc, hc.1, List.nil_append]
  cases (h.t u).base <;> rfl

end MG.C07
