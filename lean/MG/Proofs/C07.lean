import MG.Proofs.C12
/-!
# C07 — `backward()` releases the whole graph; gradients never go stale

State rules of the engine model: what `clear_graph` / `backward` / a non-view op do to the fields that
hold the graph together (`_creator`, `_ops`) and to stored gradients.  CPython's reference counting
itself is observed by the harness, not modelled.
-/
namespace MG.C07
open MG.Eng MG.ND

/-- a tensor that has been released from the graph: no creator, no recorded consumers -/
def Cleared (h : Heap) (u : Nat) : Prop := (h.t u).creator = none ∧ (h.t u).ops = []

/-- the graph fields of every tensor only ever shrink under a step `h → h'` -/
def Shrinks (h h' : Heap) : Prop :=
  (∀ u, (h'.t u).creator = (h.t u).creator ∨ (h'.t u).creator = none) ∧
  (∀ u, (h'.t u).ops = (h.t u).ops ∨ (h'.t u).ops = []) ∧
  (∀ f, h'.op f = h.op f)

theorem Shrinks.refl (h : Heap) : Shrinks h h := ⟨fun _ => Or.inl rfl, fun _ => Or.inl rfl, fun _ => rfl⟩

theorem Shrinks.trans {a b c : Heap} (h1 : Shrinks a b) (h2 : Shrinks b c) : Shrinks a c := by
  refine ⟨fun u => ?_, fun u => ?_, fun f => (h2.2.2 f).trans (h1.2.2 f)⟩
  · rcases h2.1 u with e | e
    · rw [e]; exact h1.1 u
    · exact Or.inr e
  · rcases h2.2.1 u with e | e
    · rw [e]; exact h1.2.1 u
    · exact Or.inr e

theorem Shrinks.cleared {h h' : Heap} (hs : Shrinks h h') {u : Nat} (hc : Cleared h u) : Cleared h' u := by
  refine ⟨?_, ?_⟩
  · rcases hs.1 u with e | e
    · rw [e]; exact hc.1
    · exact e
  · rcases hs.2.1 u with e | e
    · rw [e]; exact hc.2
    · exact e

/-- reading `.grad` (which may fill view-gradient caches) touches neither creators nor consumers -/
theorem gradPropObj_graph_fields (fuel : Nat) (h : Heap) (t : Nat) :
    (∀ u, ((gradPropObj fuel h t).1.t u).creator = (h.t u).creator ∧
          ((gradPropObj fuel h t).1.t u).ops = (h.t u).ops) ∧
    (∀ f, (gradPropObj fuel h t).1.op f = h.op f) := by
  induction fuel generalizing h t with
  | zero => exact ⟨fun _ => ⟨rfl, rfl⟩, fun _ => rfl⟩
  | succ fuel ih =>
    unfold gradPropObj
    simp only
    split
    · exact ⟨fun _ => ⟨rfl, rfl⟩, fun _ => rfl⟩
    · split
      · exact ⟨fun _ => ⟨rfl, rfl⟩, fun _ => rfl⟩
      · split
        · exact ⟨fun _ => ⟨rfl, rfl⟩, fun _ => rfl⟩
        · split
          · exact ⟨fun _ => ⟨rfl, rfl⟩, fun _ => rfl⟩
          · split
            · exact ⟨fun _ => ⟨rfl, rfl⟩, fun _ => rfl⟩
            · split
              · exact ⟨fun _ => ⟨rfl, rfl⟩, fun _ => rfl⟩
              · rename_i f hf
                have := ih h ((h.op f).vars.getD 0 0)
                refine ⟨fun u => ?_, fun g => ?_⟩
                · constructor
                  · rw [t_modT_field _ _ _ _ (·.creator) (by intro x; rfl)]; exact (this.1 u).1
                  · rw [t_modT_field _ _ _ _ (·.ops) (by intro x; rfl)]; exact (this.1 u).2
                · simp only [op_modT]; exact this.2 g

theorem gradProp_shrinks (fuel : Nat) (h : Heap) (t : Nat) : Shrinks h (gradProp fuel h t).1 := by
  unfold gradProp
  have := gradPropObj_graph_fields fuel h t
  exact ⟨fun u => Or.inl (this.1 u).1, fun u => Or.inl (this.1 u).2, this.2⟩

/-- `clear_graph` only ever removes graph information -/
theorem clearGraph_shrinks (fuel : Nat) (h : Heap) (t : Nat) : Shrinks h (clearGraph fuel h t) := by
  induction fuel generalizing h t with
  | zero => exact Shrinks.refl h
  | succ fuel ih =>
    unfold clearGraph
    simp only
    -- the pull
    have hp : Shrinks h (if ((h.t t).base.isSome = true) then (gradProp h.fuel h t).1 else h) := by
      split
      · exact gradProp_shrinks _ _ _
      · exact Shrinks.refl h
    generalize (if ((h.t t).base.isSome = true) then (gradProp h.fuel h t).1 else h) = h1 at hp ⊢
    have hm : ∀ (g : Tens → Tens), (∀ x, (g x).creator = x.creator ∨ (g x).creator = none) →
        (∀ x, (g x).ops = x.ops ∨ (g x).ops = []) → ∀ hh : Heap, Shrinks hh (hh.modT t g) := by
      intro g hc ho hh
      refine ⟨fun u => ?_, fun u => ?_, fun f => rfl⟩
      · by_cases hu : u = t
        · subst hu; simpa using hc _
        · rw [t_modT_ne _ _ _ _ hu]; exact Or.inl rfl
      · by_cases hu : u = t
        · subst hu; simpa using ho _
        · rw [t_modT_ne _ _ _ _ hu]; exact Or.inl rfl
    have h2 : Shrinks h1 (h1.modT t fun x => { x with vchildren := [], ops := [] }) :=
      hm (fun x => { x with vchildren := [], ops := [] }) (fun _ => Or.inl rfl) (fun _ => Or.inr rfl) h1
    split
    · exact hp.trans h2
    · rename_i f hf
      have h3 := hm (fun x => { x with creator := none }) (fun _ => Or.inr rfl) (fun _ => Or.inl rfl)
        (h1.modT t fun x => { x with vchildren := [], ops := [] })
      have hfold : ∀ (vs : List Nat) (h0 : Heap), Shrinks h0 (vs.foldl (fun h v => clearGraph fuel h v) h0) := by
        intro vs
        induction vs with
        | nil => intro h0; exact Shrinks.refl h0
        | cons v vs ihv => intro h0; simp only [List.foldl_cons]; exact (ih h0 v).trans (ihv _)
      exact ((hp.trans h2).trans h3).trans (hfold _ _)

/-- **clearGraph_clears_root.**  After `clear_graph` the tensor it was called on has no creator and
no recorded consumers (and it can never get them back during the recursion). -/
theorem clearGraph_clears_root (fuel : Nat) (h : Heap) (t : Nat) : Cleared (clearGraph (fuel + 1) h t) t := by
  unfold clearGraph
  simp only
  generalize (if ((h.t t).base.isSome = true) then (gradProp h.fuel h t).1 else h) = h1
  split
  · rename_i hcr
    exact ⟨by simpa using hcr, by simp⟩
  · rename_i f hf
    have hfold : ∀ (vs : List Nat) (h0 : Heap), Shrinks h0 (vs.foldl (fun h v => clearGraph fuel h v) h0) := by
      intro vs
      induction vs with
      | nil => intro h0; exact Shrinks.refl h0
      | cons v vs ihv => intro h0; simp only [List.foldl_cons]; exact (clearGraph_shrinks fuel h0 v).trans (ihv _)
    apply (hfold _ _).cleared
    exact ⟨by simp, by simp⟩

/-- **clearGraph_clears_inputs.**  … and so has every input of the op that created it: the recursion
reaches each of them, and what it clears stays cleared.  (Iterating this along creator chains covers
every tensor upstream, as far as the recursion's fuel — CPython's stack — reaches.) -/
theorem clearGraph_clears_inputs (fuel : Nat) (h : Heap) (t f : Nat) (hcr : (h.t t).creator = some f)
    (v : Nat) (hv : v ∈ (h.op f).vars) : Cleared (clearGraph (fuel + 2) h t) v := by
  unfold clearGraph
  simp only
  -- the pull keeps creators and op records
  have hp : Shrinks h (if ((h.t t).base.isSome = true) then (gradProp h.fuel h t).1 else h) := by
    split
    · exact gradProp_shrinks _ _ _
    · exact Shrinks.refl h
  have hcr1 : ((if ((h.t t).base.isSome = true) then (gradProp h.fuel h t).1 else h).t t).creator = some f := by
    split
    · have := (gradPropObj_graph_fields h.fuel h t).1 t
      unfold gradProp
      rw [this.1]; exact hcr
    · exact hcr
  have hop1 : (if ((h.t t).base.isSome = true) then (gradProp h.fuel h t).1 else h).op f = h.op f := hp.2.2 f
  generalize (if ((h.t t).base.isSome = true) then (gradProp h.fuel h t).1 else h) = h1 at hcr1 hop1 ⊢
  rw [hcr1]
  simp only [op_modT, hop1]
  -- fold over the variables: the call on `v` clears it, later calls keep it cleared
  have hfold : ∀ (vs : List Nat) (h0 : Heap), v ∈ vs →
      Cleared (vs.foldl (fun h v => clearGraph (fuel + 1) h v) h0) v := by
    intro vs
    induction vs with
    | nil => intro h0 hm; simp at hm
    | cons w ws ihw =>
      intro h0 hm
      simp only [List.foldl_cons]
      rcases List.mem_cons.mp hm with rfl | hm'
      · have hrest : ∀ (xs : List Nat) (hh : Heap), Shrinks hh (xs.foldl (fun h v => clearGraph (fuel + 1) h v) hh) := by
          intro xs
          induction xs with
          | nil => intro hh; exact Shrinks.refl hh
          | cons x xs ihx => intro hh; simp only [List.foldl_cons]; exact (clearGraph_shrinks _ hh x).trans (ihx _)
        exact (hrest ws _).cleared (clearGraph_clears_root fuel h0 v)
      · exact ihw _ hm'
  exact hfold _ _ hv

/-! ## the whole upstream graph -/

/-- `u` is upstream of `t` in the heap `h0`: reachable through creators and their variables
(through constants too: `clear_graph` does not stop at constants) -/
inductive Up (h0 : Heap) : Nat → Nat → Prop
  | refl (t : Nat) : Up h0 t t
  | step {t f v u : Nat} : (h0.t t).creator = some f → v ∈ (h0.op f).vars → Up h0 v u → Up h0 t u

theorem Up.rank_le {h0 : Heap} (rank : Nat → Nat)
    (hdag : ∀ t f v, (h0.t t).creator = some f → v ∈ (h0.op f).vars → rank v < rank t)
    {t u : Nat} (hu : Up h0 t u) : rank u ≤ rank t := by
  induction hu with
  | refl t => exact Nat.le_refl _
  | step hc hv _ ih => exact Nat.le_trans ih (Nat.le_of_lt (hdag _ _ _ hc hv))

theorem Up.trans {h0 : Heap} {a b c : Nat} (h1 : Up h0 a b) (h2 : Up h0 b c) : Up h0 a c := by
  induction h1 with
  | refl t => exact h2
  | step hc hv _ ih => exact Up.step hc hv (ih h2)

/-- invariant of the recursion relative to the heap `h0` it started from: graph fields only shrank,
and every tensor whose creator has been dropped — except those in `S`, whose call is still in
progress — has its entire upstream released already -/
def InvS (h0 : Heap) (S : List Nat) (h : Heap) : Prop :=
  Shrinks h0 h ∧ ∀ w, w ∉ S → (h.t w).creator ≠ (h0.t w).creator → ∀ u, Up h0 w u → Cleared h u

theorem invS_step {h0 : Heap} {S : List Nat} {h h' : Heap} (hi : InvS h0 S h) (hs : Shrinks h h')
    (hcr : ∀ w, w ∉ S → (h'.t w).creator = (h.t w).creator) : InvS h0 S h' := by
  refine ⟨hi.1.trans hs, fun w hw hne u hu => ?_⟩
  rw [hcr w hw] at hne
  exact hs.cleared (hi.2 w hw hne u hu)

/-- **clearGraph_clears_upstream** (main lemma).  With enough fuel for the depth of the graph,
`clear_graph(t)` releases *every* tensor upstream of `t` — on any DAG, whatever the sharing
(diamonds, repeated operands) and the order of visits — and re-establishes the invariant. -/
theorem clearGraph_upstream_aux (h0 : Heap) (rank : Nat → Nat)
    (hdag : ∀ t f v, (h0.t t).creator = some f → v ∈ (h0.op f).vars → rank v < rank t) :
    ∀ (fuel : Nat) (h : Heap) (t : Nat) (S : List Nat), rank t < fuel → InvS h0 S h →
      (∀ u, Up h0 t u → u ∉ S) →
      InvS h0 S (clearGraph fuel h t) ∧ ∀ u, Up h0 t u → Cleared (clearGraph fuel h t) u := by
  intro fuel
  induction fuel with
  | zero => intro h t S hlt; omega
  | succ fuel ih =>
    intro h t S hlt hinv hS
    unfold clearGraph
    simp only
    -- the pull changes neither creators, consumers nor op records
    have hpull : ∀ u, ((if ((h.t t).base.isSome = true) then (gradProp h.fuel h t).1 else h).t u).creator = (h.t u).creator ∧
        ((if ((h.t t).base.isSome = true) then (gradProp h.fuel h t).1 else h).t u).ops = (h.t u).ops := by
      intro u
      split
      · unfold gradProp
        exact (gradPropObj_graph_fields h.fuel h t).1 u
      · exact ⟨rfl, rfl⟩
    have hpullop : ∀ f, (if ((h.t t).base.isSome = true) then (gradProp h.fuel h t).1 else h).op f = h.op f := by
      intro f
      split
      · unfold gradProp
        exact (gradPropObj_graph_fields h.fuel h t).2 f
      · rfl
    generalize (if ((h.t t).base.isSome = true) then (gradProp h.fuel h t).1 else h) = h1 at hpull hpullop ⊢
    have hs1 : Shrinks h h1 := ⟨fun u => Or.inl (hpull u).1, fun u => Or.inl (hpull u).2, hpullop⟩
    have hinv1 : InvS h0 S h1 := invS_step hinv hs1 (fun w _ => (hpull w).1)
    -- clearing the consumers and view children of `t`
    have hs2 : Shrinks h1 (h1.modT t fun x => { x with vchildren := [], ops := [] }) := by
      refine ⟨fun u => ?_, fun u => ?_, fun f => rfl⟩
      · rw [t_modT_field _ _ _ _ (·.creator) (by intro x; rfl)]; exact Or.inl rfl
      · by_cases hu : u = t
        · subst hu; right; simp
        · rw [t_modT_ne _ _ _ _ hu]; exact Or.inl rfl
    have hinv2 : InvS h0 S (h1.modT t fun x => { x with vchildren := [], ops := [] }) :=
      invS_step hinv1 hs2 (fun w _ => t_modT_field _ _ _ _ (·.creator) (by intro x; rfl))
    have htS : t ∉ S := hS t (Up.refl t)
    split
    · -- `t` has no creator (any more)
      rename_i hnone
      refine ⟨hinv2, fun u hu => ?_⟩
      by_cases h0c : (h0.t t).creator = none
      · -- never had one: nothing is upstream but `t` itself
        cases hu with
        | refl => exact ⟨by simpa using hnone, by simp⟩
        | step hc _ _ => rw [h0c] at hc; cases hc
      · -- its creator was dropped earlier: its upstream is released already
        have hne : ((h1.modT t fun x => { x with vchildren := [], ops := [] }).t t).creator ≠ (h0.t t).creator := by
          simp only [t_modT_self]
          rw [hnone]
          exact fun e => h0c e.symm
        exact hinv2.2 t htS hne u hu
    · rename_i f hf
      -- the creator is the original one
      have hf0 : (h0.t t).creator = some f := by
        rcases hinv1.1.1 t with e | e
        · rw [← e]; exact hf
        · rw [e] at hf; cases hf
      have hop0 : h1.op f = h0.op f := hinv1.1.2.2 f
      -- dropping the creator puts `t` among the calls in progress
      have hs3 : Shrinks (h1.modT t fun x => { x with vchildren := [], ops := [] })
          ((h1.modT t fun x => { x with vchildren := [], ops := [] }).modT t fun x => { x with creator := none }) := by
        refine ⟨fun u => ?_, fun u => ?_, fun f => rfl⟩
        · by_cases hu : u = t
          · subst hu; right; simp
          · rw [t_modT_ne _ _ _ _ hu]; exact Or.inl rfl
        · rw [t_modT_field _ _ _ _ (·.ops) (by intro x; rfl)]; exact Or.inl rfl
      have hinv3 : InvS h0 (t :: S) ((h1.modT t fun x => { x with vchildren := [], ops := [] }).modT t fun x => { x with creator := none }) := by
        refine ⟨hinv2.1.trans hs3, fun w hw hne u hu => ?_⟩
        have hwt : w ≠ t := fun e => hw (e ▸ List.mem_cons_self ..)
        have hwS : w ∉ S := fun e => hw (List.mem_cons_of_mem _ e)
        rw [t_modT_ne _ _ _ _ hwt] at hne
        exact hs3.cleared (hinv2.2 w hwS hne u hu)
      have htc : Cleared ((h1.modT t fun x => { x with vchildren := [], ops := [] }).modT t fun x => { x with creator := none }) t :=
        ⟨by simp, by simp⟩
      -- the fold over the creator's variables
      have hfold : ∀ (vs : List Nat) (hh : Heap), (∀ v ∈ vs, v ∈ (h0.op f).vars) → InvS h0 (t :: S) hh →
          InvS h0 (t :: S) (vs.foldl (fun h v => clearGraph fuel h v) hh) ∧
          Shrinks hh (vs.foldl (fun h v => clearGraph fuel h v) hh) ∧
          ∀ v ∈ vs, ∀ u, Up h0 v u → Cleared (vs.foldl (fun h v => clearGraph fuel h v) hh) u := by
        intro vs
        induction vs with
        | nil => intro hh _ hi; exact ⟨hi, Shrinks.refl hh, fun v hv => by simp at hv⟩
        | cons v vs ihv =>
          intro hh hsub hi
          simp only [List.foldl_cons]
          have hvin : v ∈ (h0.op f).vars := hsub v (List.mem_cons_self ..)
          have hrv : rank v < fuel := by have := hdag t f v hf0 hvin; omega
          have hSv : ∀ u, Up h0 v u → u ∉ t :: S := by
            intro u hu hmem
            rcases List.mem_cons.mp hmem with rfl | hmem
            · have := Up.rank_le rank hdag hu
              have := hdag _ f v hf0 hvin
              omega
            · exact hS u (Up.step hf0 hvin hu) hmem
          obtain ⟨hi', hcl⟩ := ih hh v (t :: S) hrv hi hSv
          obtain ⟨hi'', hsh, hrest⟩ := ihv (clearGraph fuel hh v) (fun w hw => hsub w (List.mem_cons_of_mem _ hw)) hi'
          refine ⟨hi'', (clearGraph_shrinks fuel hh v).trans hsh, fun w hw u hu => ?_⟩
          rcases List.mem_cons.mp hw with rfl | hw'
          · exact hsh.cleared (hcl u hu)
          · exact hrest w hw' u hu
      rw [op_modT, op_modT, hop0]
      obtain ⟨hiF, hshF, hclF⟩ := hfold (h0.op f).vars _ (fun v hv => hv) hinv3
      have hup : ∀ u, Up h0 t u → Cleared ((h0.op f).vars.foldl (fun h v => clearGraph fuel h v)
          ((h1.modT t fun x => { x with vchildren := [], ops := [] }).modT t fun x => { x with creator := none })) u := by
        intro u hu
        cases hu with
        | refl => exact hshF.cleared htc
        | step hc hv hu' =>
          rw [hf0] at hc
          cases hc
          exact hclF _ hv u hu'
      refine ⟨⟨hiF.1, fun w hw hne u hu => ?_⟩, hup⟩
      by_cases hwt : w = t
      · subst hwt; exact hup u hu
      · exact hiF.2 w (fun hm => by rcases List.mem_cons.mp hm with e | e; exact hwt e; exact hw e) hne u hu

/-- **clearGraph_clears_upstream.**  On an acyclic heap, `clear_graph(t)` — hence every completed
`backward()` from `t` — leaves `t` and every tensor upstream of it (through any number of ops,
shared inputs, constants) without a creator and without recorded consumers. -/
theorem clearGraph_clears_upstream (h : Heap) (rank : Nat → Nat)
    (hdag : ∀ t f v, (h.t t).creator = some f → v ∈ (h.op f).vars → rank v < rank t)
    (t : Nat) (fuel : Nat) (hfuel : rank t < fuel) :
    ∀ u, Up h t u → Cleared (clearGraph fuel h t) u :=
  (clearGraph_upstream_aux h rank hdag fuel h t [] hfuel
    ⟨Shrinks.refl h, fun w _ hne => absurd rfl hne⟩ (fun u _ => by simp)).2

/-- **backward_clears_graph.**  A completed `backward` ends with `clear_graph` on the terminal tensor:
it (and, by the two theorems above, what is upstream of it) has no creator and no consumers. -/
theorem backward_clears_graph (h : Heap) (L : Nat) (seed : Seed) (h' : Heap)
    (hok : backward h L seed = .ok h') : Cleared h' L := by
  unfold backward at hok
  simp only at hok
  have hfuel : ∀ hh : Heap, hh.fuel = (hh.next + 1) + 1 := fun _ => rfl
  split at hok
  · simp only [Except.ok.injEq] at hok
    rw [← hok, hfuel]
    exact clearGraph_clears_root _ _ _
  · split at hok
    · cases hok
    · split at hok
      · cases hok
      · split at hok
        · cases hok
        · simp only [Except.ok.injEq] at hok
          rw [← hok, hfuel]
          exact clearGraph_clears_root _ _ _

/-- heaps with the same creators and op records have the same upstream relation -/
theorem Up.congr {h h' : Heap} (hc : ∀ t, (h'.t t).creator = (h.t t).creator) (ho : ∀ f, h'.op f = h.op f)
    {t u : Nat} (hu : Up h t u) : Up h' t u := by
  induction hu with
  | refl t => exact Up.refl t
  | step hcr hv _ ih => exact Up.step (by rw [hc]; exact hcr) (by rw [ho]; exact hv) ih

theorem storeGrads_graph_fields (gr : GMap) (h : Heap) :
    (∀ t, ((storeGrads h gr).t t).creator = (h.t t).creator) ∧ (∀ f, (storeGrads h gr).op f = h.op f) ∧
    h.next ≤ (storeGrads h gr).next := by
  refine ⟨?_, ?_, by rw [MG.C12.stored_grads_are_fresh_objects]; omega⟩
  · unfold storeGrads
    induction gr generalizing h with
    | nil => exact fun _ => rfl
    | cons p ps ih =>
      intro t
      simp only [List.foldl_cons]
      rw [ih, t_modT_field _ _ _ _ (·.creator) (by intro x; rfl)]; rfl
  · unfold storeGrads
    induction gr generalizing h with
    | nil => exact fun _ => rfl
    | cons p ps ih =>
      intro f
      simp only [List.foldl_cons]
      rw [ih]; rfl

theorem nullFold_graph_fields (ts : List Nat) (h : Heap) :
    (∀ t, ((ts.foldl (fun h t => h.modT t ({ · with grad := none, viewGrad := none })) h).t t).creator = (h.t t).creator) ∧
    (∀ f, (ts.foldl (fun h t => h.modT t ({ · with grad := none, viewGrad := none })) h).op f = h.op f) ∧
    (ts.foldl (fun h t => h.modT t ({ · with grad := none, viewGrad := none })) h).next = h.next := by
  induction ts generalizing h with
  | nil => exact ⟨fun _ => rfl, fun _ => rfl, rfl⟩
  | cons x xs ih =>
    simp only [List.foldl_cons]
    obtain ⟨e1, e2, e3⟩ := ih (h.modT x ({ · with grad := none, viewGrad := none }))
    refine ⟨fun t => ?_, fun f => (e2 f).trans rfl, e3.trans rfl⟩
    rw [e1, t_modT_field _ _ _ _ (·.creator) (by intro y; rfl)]

/-- a completed `backward` ends with `clear_graph` on a heap that has the creators and op records of
the heap it started from -/
theorem backward_ok_form (h : Heap) (L : Nat) (seed : Seed) (h' : Heap) (hok : backward h L seed = .ok h') :
    ∃ hh, h' = clearGraph hh.fuel hh L ∧ (∀ t, (hh.t t).creator = (h.t t).creator) ∧
      (∀ f, hh.op f = h.op f) ∧ h.next ≤ hh.next := by
  unfold backward at hok
  simp only at hok
  split at hok
  · simp only [Except.ok.injEq] at hok
    exact ⟨h, hok.symm, fun _ => rfl, fun _ => rfl, Nat.le_refl _⟩
  · split at hok
    · cases hok
    · rename_i touched topo hcol
      split at hok
      · cases hok
      · split at hok
        · cases hok
        · simp only [Except.ok.injEq] at hok
          obtain ⟨n1, n2, n3⟩ := nullFold_graph_fields touched (startOver h L)
          refine ⟨_, hok.symm, fun t => ?_, fun f => ?_, ?_⟩
          · rw [(storeGrads_graph_fields _ _).1 t, n1, startOver_creator]
          · rw [(storeGrads_graph_fields _ _).2.1 f, n2, startOver_op]
          · have := (storeGrads_graph_fields
              (backwardGrads (touched.foldl (fun h t => h.modT t ({ · with grad := none, viewGrad := none })) (startOver h L)) L topo ‹Val›).1
              (touched.foldl (fun h t => h.modT t ({ · with grad := none, viewGrad := none })) (startOver h L))).2.2
            have hs := startOver_next h L
            omega

/-- **backward_clears_upstream.**  After a completed `backward()` on an acyclic heap, the terminal
tensor and *every* tensor upstream of it has no creator and no recorded consumers. -/
theorem backward_clears_upstream (h : Heap) (L : Nat) (seed : Seed) (h' : Heap) (rank : Nat → Nat)
    (hdag : ∀ t f v, (h.t t).creator = some f → v ∈ (h.op f).vars → rank v < rank t)
    (hfuel : rank L < h.fuel) (hok : backward h L seed = .ok h') :
    ∀ u, Up h L u → Cleared h' u := by
  obtain ⟨hh, rfl, hcr, hop, hn⟩ := backward_ok_form h L seed h' hok
  intro u hu
  apply clearGraph_clears_upstream hh rank _ L hh.fuel _ u (Up.congr hcr hop hu)
  · intro t f v hc hv
    rw [hcr] at hc
    rw [hop] at hv
    exact hdag t f v hc hv
  · simp only [Heap.fuel] at hfuel ⊢
    omega

/-- **cleared_tensor_holds_no_strong_edge.**  The strong references a tensor holds into the graph are
`_creator` (→ the op → its variables) and `_base`.  Once cleared, the first is gone: the only tensor a
cleared tensor still keeps alive is its base, so ops, intermediates and placeholders upstream of it
are no longer reachable through it. -/
theorem cleared_tensor_holds_no_strong_edge (h : Heap) (u : Nat) (hc : Cleared h u) :
    strongSucc h u = (match (h.t u).base with | some b => [b] | none => []) := by
  simp only [strongSucc, hc.1, List.nil_append]
  cases (h.t u).base <;> rfl

end MG.C07

/-! ## a view that is disconnected from its base keeps the gradient it reports -/

namespace MG.C07
open MG.Eng MG.ND

/-- the fold of `prepInputs` over the operand tensors of a *view* op (`base` is `some _`): it can only drop
stale `.base` links -/
theorem prepFold_view_fields (b : Nat) (us : List Nat) (h : Heap) (p : Nat) :
    let h' := us.foldl (fun h v =>
      let tv := h.t v
      let h := if tv.base.isSome ∧ tv.creator.isNone then h.modT v ({ · with base := none }) else h
      if (some b : Option Nat).isNone then h.modT v ({ · with grad := none, viewGrad := none }) else h) h
    (h'.t p).grad = (h.t p).grad ∧ (h'.t p).gradObj = (h.t p).gradObj ∧
    ((h.t p).base = none → (h'.t p).base = none) ∧ h'.next = h.next := by
  induction us generalizing h with
  | nil => exact ⟨rfl, rfl, fun hb => hb, rfl⟩
  | cons v us ih =>
    simp only [List.foldl_cons, Option.isNone_some, Bool.false_eq_true, if_false]
    have step : ∀ hh : Heap, let h1 := (if (hh.t v).base.isSome ∧ (hh.t v).creator.isNone then hh.modT v ({ · with base := none }) else hh)
        (h1.t p).grad = (hh.t p).grad ∧ (h1.t p).gradObj = (hh.t p).gradObj ∧ ((hh.t p).base = none → (h1.t p).base = none) ∧ h1.next = hh.next := by
      intro hh
      simp only
      split
      · refine ⟨?_, ?_, ?_, rfl⟩
        · by_cases e : p = v
          · subst e; simp
          · rw [t_modT_ne _ _ _ _ e]
        · by_cases e : p = v
          · subst e; simp
          · rw [t_modT_ne _ _ _ _ e]
        · intro hb
          by_cases e : p = v
          · subst e; simp
          · rw [t_modT_ne _ _ _ _ e]; exact hb
      · exact ⟨rfl, rfl, fun hb => hb, rfl⟩
    obtain ⟨s1, s2, s3, s4⟩ := step h
    have := ih (if (h.t v).base.isSome ∧ (h.t v).creator.isNone then h.modT v ({ · with base := none }) else h)
    simp only [Option.isNone_some, Bool.false_eq_true, if_false] at this
    obtain ⟨i1, i2, i3, i4⟩ := this
    exact ⟨i1.trans s1, i2.trans s2, fun hb => i3 (s3 hb), i4.trans s4⟩

/-- **disconnect_keeps_reported_grad.**  When a view op is applied to a view `p` that was left over from an
earlier graph epoch (it has a base but no creator), `Tensor._op` disconnects `p` from its base.  What `p.grad`
reports is the same before and after: the view of its base's gradient that it reported, or `None` once that
gradient had been discarded — never the contribution that once flowed through `p` itself. -/
theorem disconnect_keeps_reported_grad (h : Heap) (us : List Nat) (p : Nat)
    (hb : (h.t p).base.isSome = true) (hc : (h.t p).creator.isNone = true) :
    let h' := (prepInputs h us (some p)).1
    (h'.t p).base = none ∧ (gradProp h'.fuel h' p).2 = (gradProp h.fuel h p).2 := by
  intro h'
  have hcond : ((h.t p).base.isSome = true ∧ (h.t p).creator.isNone = true) := ⟨hb, hc⟩
  -- the heap after the disconnect of `p`
  let g := gradPropObj h.fuel h p
  let h1 := g.1.modT p fun t => { t with base := none, grad := g.2.map (·.1), gradObj := p, viewGrad := none }
  have h1p : (h1.t p).base = none ∧ (h1.t p).grad = g.2.map (·.1) := by simp [h1]
  have e : h' = (us.foldl (fun h v =>
      let tv := h.t v
      let h := if tv.base.isSome ∧ tv.creator.isNone then h.modT v ({ · with base := none }) else h
      if (some (((h1.t p).base).getD p) : Option Nat).isNone then h.modT v ({ · with grad := none, viewGrad := none }) else h) h1) := by
    simp only [h', prepInputs, hcond, and_self, if_true]
    rfl
  obtain ⟨f1, f2, f3, f4⟩ := prepFold_view_fields (((h1.t p).base).getD p) us h1 p
  rw [← e] at f1 f2 f3 f4
  have hbase : (h'.t p).base = none := f3 h1p.1
  refine ⟨hbase, ?_⟩
  -- reading `.grad` of a tensor that owns its memory returns its `_grad`
  have : (gradProp h'.fuel h' p).2 = (h'.t p).grad := by
    show ((gradPropObj (h'.next + 1 + 1) h' p).2).map (·.1) = _
    unfold gradPropObj
    simp only [hbase]
    cases (h'.t p).grad <;> rfl
  rw [this, f1, h1p.2]
  rfl

end MG.C07
