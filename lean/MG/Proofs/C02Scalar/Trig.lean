import MG.Gen.ScalarOps
import MG.Proofs.Lemmas.NumpyRealDeriv
import MG.Proofs.Lemmas.SincZero

/-!
# C02 (scalar stratum) — trigonometric ops

Definitions generated from `/repo/src/mygrad/math/trigonometric/ops.py`.  `Csc`, `Sec`, `Cot`, `Sinc` are not ufuncs:
their forward pass is traced from `__call__`, too.
-/

set_option linter.unnecessarySeqFocus false
set_option linter.unusedTactic false
set_option linter.unreachableTactic false

namespace MG.C02
open MG.Gen.Scalar

theorem Sin_vjp0 (x : ℝ) : ∃ d, HasDerivAt (fun t => fwd_Sin t) d x ∧ ∀ g, bwd_Sin_0 g x = g * d := by
  simp only [fwd_Sin]
  exact ⟨_, Real.hasDerivAt_sin x, fun g => by simp only [bwd_Sin_0] <;> ring⟩

theorem Cos_vjp0 (x : ℝ) : ∃ d, HasDerivAt (fun t => fwd_Cos t) d x ∧ ∀ g, bwd_Cos_0 g x = g * d := by
  simp only [fwd_Cos]
  exact ⟨_, Real.hasDerivAt_cos x, fun g => by simp only [bwd_Cos_0] <;> ring⟩

example : bwd_Cos_0 1 (Real.pi / 2) = -1 := by simp [bwd_Cos_0]

theorem Tan_vjp0 (x : ℝ) (h : Real.cos x ≠ 0) :
    ∃ d, HasDerivAt (fun t => fwd_Tan t) d x ∧ ∀ g, bwd_Tan_0 g x = g * d := by
  simp only [fwd_Tan]
  exact ⟨_, Real.hasDerivAt_tan h, fun g => by simp only [bwd_Tan_0] <;> ring⟩

theorem Csc_vjp0 (x : ℝ) (h : Real.sin x ≠ 0) :
    ∃ d, HasDerivAt (fun t => fwd_Csc t) d x ∧ ∀ g, bwd_Csc_0 g x = g * d := by
  have hf : (fun t => fwd_Csc t) = fun t => 1 / Real.sin t := by funext t; simp [fwd_Csc]
  rw [hf]
  exact ⟨_, (hasDerivAt_const x (1 : ℝ)).div (Real.hasDerivAt_sin x) h, fun g => by simp only [bwd_Csc_0] <;> ring⟩

theorem Sec_vjp0 (x : ℝ) (h : Real.cos x ≠ 0) :
    ∃ d, HasDerivAt (fun t => fwd_Sec t) d x ∧ ∀ g, bwd_Sec_0 g x = g * d := by
  have hf : (fun t => fwd_Sec t) = fun t => 1 / Real.cos t := by funext t; simp [fwd_Sec]
  rw [hf]
  exact ⟨_, (hasDerivAt_const x (1 : ℝ)).div (Real.hasDerivAt_cos x) h, fun g => by simp only [bwd_Sec_0] <;> ring⟩

/-- `1 / tan t = cos t / sin t` for every real `t` (also where `cos t = 0`, both sides being `0`), so only
`sin x ≠ 0` is needed. -/
theorem Cot_vjp0 (x : ℝ) (h : Real.sin x ≠ 0) :
    ∃ d, HasDerivAt (fun t => fwd_Cot t) d x ∧ ∀ g, bwd_Cot_0 g x = g * d := by
  have hf : (fun t => fwd_Cot t) = fun t => Real.cos t / Real.sin t := by
    funext t; simp [fwd_Cot, Real.tan_eq_sin_div_cos]
  rw [hf]
  have hd : (-Real.sin x * Real.sin x - Real.cos x * Real.cos x) / Real.sin x ^ 2 = -1 / Real.sin x ^ 2 := by
    have := Real.sin_sq_add_cos_sq x
    congr 1; nlinarith
  refine ⟨_, ((Real.hasDerivAt_cos x).div (Real.hasDerivAt_sin x) h).congr_deriv hd, fun g => ?_⟩
  simp only [bwd_Cot_0] <;> ring

/-- `sinc` away from `0`; the code switches to the value `0` for `|x| ≤ 1e-162` (`np.isclose(x, 0, atol=1e-162)`),
which is a floating-point guard: over ℝ the formula is the derivative exactly where the guard is off. -/
theorem Sinc_vjp0 (x : ℝ) (hx : (1e-162 : ℝ) < |x|) :
    ∃ d, HasDerivAt (fun t => fwd_Sinc t) d x ∧ ∀ g, bwd_Sinc_0 g x = g * d := by
  have hx0 : x ≠ 0 := by
    intro h; rw [h, abs_zero] at hx; norm_num at hx
  have hf : (fun t => fwd_Sinc t) = MG.NP.sinc := by funext t; simp [fwd_Sinc]
  rw [hf]
  refine ⟨_, MG.NP.hasDerivAt_sinc hx0, fun g => ?_⟩
  have hc : ¬ (|x - 0| ≤ (1e-162 : ℝ) + (1e-05 : ℝ) * |(0 : ℝ)|) := by
    simp only [sub_zero, abs_zero, mul_zero, add_zero, not_le]; exact hx
  simp only [bwd_Sinc_0, hc, not_false_eq_true, if_true]
  ring_nf

/-- at `0` the guard is on and the code returns `0` — which is the true derivative of `sinc` at `0`: the VJP
statement holds there too, and the discarded branch's `0 / 0` is never selected (`dom_bwd_Sinc_0`). -/
theorem Sinc_at_zero :
    ∃ d, HasDerivAt (fun t => fwd_Sinc t) d 0 ∧ ∀ g, dom_bwd_Sinc_0 g 0 ∧ bwd_Sinc_0 g 0 = g * d := by
  have hf : (fun t => fwd_Sinc t) = MG.NP.sinc := by funext t; simp [fwd_Sinc]
  rw [hf]
  refine ⟨0, MG.NP.hasDerivAt_sinc_zero, fun g => ?_⟩
  have h : (0 : ℝ) ≤ 1e-162 := by norm_num
  simp [dom_bwd_Sinc_0, bwd_Sinc_0, h]

end MG.C02
