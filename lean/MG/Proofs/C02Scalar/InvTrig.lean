import MG.Gen.ScalarOps
import MG.Proofs.Lemmas.NumpyRealDeriv

/-!
# C02 (scalar stratum) — inverse trigonometric ops

Definitions generated from `/repo/src/mygrad/math/trigonometric/ops.py`.  `Arccsc`, `Arcsec`, `Arccot` are not
ufuncs: their forward pass (`arcsin (1/x)`, `arccos (1/x)`, `arctan (1/x)` with `π/2` at `0`) is traced from
`__call__`.  The conventions at `x = ±1` (gradient `0` instead of NaN, implemented with `np.select`) are separate
theorems about the generated backward formula.
-/

set_option linter.unnecessarySeqFocus false
set_option linter.unusedTactic false
set_option linter.unusedSimpArgs false
set_option linter.unreachableTactic false

namespace MG.C02
open MG.Gen.Scalar

theorem Arcsin_vjp0 (x : ℝ) (h1 : -1 < x) (h2 : x < 1) :
    ∃ d, HasDerivAt (fun t => fwd_Arcsin t) d x ∧ ∀ g, bwd_Arcsin_0 g x = g * d := by
  simp only [fwd_Arcsin]
  have hne : |x| ≠ 1 := (abs_lt.mpr ⟨h1, h2⟩).ne
  refine ⟨_, Real.hasDerivAt_arcsin h1.ne' h2.ne, fun g => ?_⟩
  simp only [bwd_Arcsin_0]; (try split_ifs) <;> first | ring1 | contradiction | (exfalso; linarith)

example : ∃ d, HasDerivAt (fun t => fwd_Arcsin t) d (1 / 2) ∧ ∀ g, bwd_Arcsin_0 g (1 / 2) = g * d :=
  Arcsin_vjp0 _ (by norm_num) (by norm_num)

/-- documented convention: `0`, not NaN, at `x = ±1`: the value is `0` *and* no primitive is evaluated outside its
domain in the selected branch (`dom_bwd_*`; without the guard `g / √0` would be `inf` in NumPy but `0` in Lean) -/
theorem Arcsin_at_one (g x : ℝ) (h : x = 1 ∨ x = -1) : dom_bwd_Arcsin_0 g x ∧ bwd_Arcsin_0 g x = 0 := by
  rcases h with rfl | rfl <;> simp [dom_bwd_Arcsin_0, bwd_Arcsin_0]

theorem Arccos_vjp0 (x : ℝ) (h1 : -1 < x) (h2 : x < 1) :
    ∃ d, HasDerivAt (fun t => fwd_Arccos t) d x ∧ ∀ g, bwd_Arccos_0 g x = g * d := by
  simp only [fwd_Arccos]
  have hne : |x| ≠ 1 := (abs_lt.mpr ⟨h1, h2⟩).ne
  refine ⟨_, Real.hasDerivAt_arccos h1.ne' h2.ne, fun g => ?_⟩
  simp only [bwd_Arccos_0]; (try split_ifs) <;> first | ring1 | contradiction | (exfalso; linarith)

theorem Arccos_at_one (g x : ℝ) (h : x = 1 ∨ x = -1) : dom_bwd_Arccos_0 g x ∧ bwd_Arccos_0 g x = 0 := by
  rcases h with rfl | rfl <;> simp [dom_bwd_Arccos_0, bwd_Arccos_0]

theorem Arctan_vjp0 (x : ℝ) : ∃ d, HasDerivAt (fun t => fwd_Arctan t) d x ∧ ∀ g, bwd_Arctan_0 g x = g * d := by
  simp only [fwd_Arctan]
  exact ⟨_, Real.hasDerivAt_arctan x, fun g => by simp only [bwd_Arctan_0] <;> ring⟩

theorem Arccsc_vjp0 (x : ℝ) (h : 1 < |x|) :
    ∃ d, HasDerivAt (fun t => fwd_Arccsc t) d x ∧ ∀ g, bwd_Arccsc_0 g x = g * d := by
  have hf : (fun t => fwd_Arccsc t) = fun t => Real.arcsin (1 / t) := by funext t; simp [fwd_Arccsc]
  rw [hf]
  refine ⟨_, MG.NP.hasDerivAt_arcsin_inv h, fun g => ?_⟩
  have hne : |x| ≠ 1 := h.ne'
  simp only [bwd_Arccsc_0]; (try split_ifs) <;> first | ring1 | contradiction | (exfalso; linarith)

theorem Arccsc_at_one (g x : ℝ) (h : x = 1 ∨ x = -1) : dom_bwd_Arccsc_0 g x ∧ bwd_Arccsc_0 g x = 0 := by
  rcases h with rfl | rfl <;> simp [dom_bwd_Arccsc_0, bwd_Arccsc_0]

theorem Arcsec_vjp0 (x : ℝ) (h : 1 < |x|) :
    ∃ d, HasDerivAt (fun t => fwd_Arcsec t) d x ∧ ∀ g, bwd_Arcsec_0 g x = g * d := by
  have hf : (fun t => fwd_Arcsec t) = fun t => Real.arccos (1 / t) := by funext t; simp [fwd_Arcsec]
  rw [hf]
  refine ⟨_, MG.NP.hasDerivAt_arccos_inv h, fun g => ?_⟩
  have hne : |x| ≠ 1 := h.ne'
  simp only [bwd_Arcsec_0]; (try split_ifs) <;> first | ring1 | contradiction | (exfalso; linarith)

theorem Arcsec_at_one (g x : ℝ) (h : x = 1 ∨ x = -1) : dom_bwd_Arcsec_0 g x ∧ bwd_Arcsec_0 g x = 0 := by
  rcases h with rfl | rfl <;> simp [dom_bwd_Arcsec_0, bwd_Arcsec_0]

/-- `arccot` as implemented (`arctan (1/x)`, `π/2` at `0`) jumps at `0`; it is differentiable exactly for `x ≠ 0`. -/
theorem Arccot_vjp0 (x : ℝ) (hx : x ≠ 0) :
    ∃ d, HasDerivAt (fun t => fwd_Arccot t) d x ∧ ∀ g, bwd_Arccot_0 g x = g * d := by
  have he : (fun t => fwd_Arccot t) =ᶠ[nhds x] fun t => Real.arctan (1 / t) := by
    filter_upwards [isOpen_ne.mem_nhds hx] with t ht
    simp [fwd_Arccot, ht]
  refine ⟨_, (MG.NP.hasDerivAt_arctan_inv hx).congr_of_eventuallyEq he, fun g => ?_⟩
  simp only [bwd_Arccot_0] <;> ring

/-- `np.arctan2 x y` in its first argument, on the plane slit along the negative abscissa -/
theorem Arctan2_vjp0 (x y : ℝ) (h : 0 < y ∨ x ≠ 0) :
    ∃ d, HasDerivAt (fun t => fwd_Arctan2 t y) d x ∧ ∀ g, bwd_Arctan2_0 g x y = g * d := by
  simp only [fwd_Arctan2]
  exact ⟨_, MG.NP.hasDerivAt_arctan2_left h, fun g => by simp only [bwd_Arctan2_0] <;> ring⟩

theorem Arctan2_vjp1 (x y : ℝ) (h : 0 < y ∨ x ≠ 0) :
    ∃ d, HasDerivAt (fun t => fwd_Arctan2 x t) d y ∧ ∀ g, bwd_Arctan2_1 g x y = g * d := by
  simp only [fwd_Arctan2]
  exact ⟨_, MG.NP.hasDerivAt_arctan2_right h, fun g => by simp only [bwd_Arctan2_1] <;> ring⟩

example : ∃ d, HasDerivAt (fun t => fwd_Arctan2 1 t) d (-1) ∧ ∀ g, bwd_Arctan2_1 g 1 (-1) = g * d :=
  Arctan2_vjp1 1 (-1) (Or.inr one_ne_zero)

end MG.C02
