import MG.Gen.ScalarOps
import MG.Proofs.Lemmas.NumpyRealDeriv

/-!
# C02 (scalar stratum) — exponential and logarithmic ops

Definitions generated from `/repo/src/mygrad/math/exp_log/ops.py`.  `np.exp2 x = 2 ^ x`, `np.expm1 x = exp x - 1`,
`np.log2 x = log x / log 2`, `np.log10 x = log x / log 10`, `np.log1p x = log (1 + x)`,
`np.logaddexp x y = log (exp x + exp y)`, `np.logaddexp2 x y = log (2^x + 2^y) / log 2` (trusted table).
-/

set_option linter.unnecessarySeqFocus false
set_option linter.unusedTactic false
set_option linter.unreachableTactic false

namespace MG.C02
open MG.Gen.Scalar

theorem Exp_vjp0 (x : ℝ) : ∃ d, HasDerivAt (fun t => fwd_Exp t) d x ∧ ∀ g, bwd_Exp_0 g x = g * d := by
  simp only [fwd_Exp]
  exact ⟨_, Real.hasDerivAt_exp x, fun g => by simp only [bwd_Exp_0] <;> ring⟩

theorem Exp2_vjp0 (x : ℝ) : ∃ d, HasDerivAt (fun t => fwd_Exp2 t) d x ∧ ∀ g, bwd_Exp2_0 g x = g * d := by
  simp only [fwd_Exp2]
  exact ⟨_, (Real.hasStrictDerivAt_const_rpow two_pos x).hasDerivAt, fun g => by simp only [bwd_Exp2_0] <;> ring⟩

theorem Expm1_vjp0 (x : ℝ) : ∃ d, HasDerivAt (fun t => fwd_Expm1 t) d x ∧ ∀ g, bwd_Expm1_0 g x = g * d := by
  simp only [fwd_Expm1]
  exact ⟨_, (Real.hasDerivAt_exp x).sub_const 1, fun g => by simp only [bwd_Expm1_0] <;> ring⟩

theorem Log_vjp0 (x : ℝ) (hx : 0 < x) : ∃ d, HasDerivAt (fun t => fwd_Log t) d x ∧ ∀ g, bwd_Log_0 g x = g * d := by
  simp only [fwd_Log]
  exact ⟨_, Real.hasDerivAt_log hx.ne', fun g => by simp only [bwd_Log_0] <;> ring⟩

example : ∃ d, HasDerivAt (fun t => fwd_Log t) d 2 ∧ ∀ g, bwd_Log_0 g 2 = g * d := Log_vjp0 2 (by norm_num)

theorem Log2_vjp0 (x : ℝ) (hx : 0 < x) :
    ∃ d, HasDerivAt (fun t => fwd_Log2 t) d x ∧ ∀ g, bwd_Log2_0 g x = g * d := by
  simp only [fwd_Log2]
  exact ⟨_, (Real.hasDerivAt_log hx.ne').div_const _, fun g => by simp only [bwd_Log2_0] <;> ring⟩

theorem Log10_vjp0 (x : ℝ) (hx : 0 < x) :
    ∃ d, HasDerivAt (fun t => fwd_Log10 t) d x ∧ ∀ g, bwd_Log10_0 g x = g * d := by
  simp only [fwd_Log10]
  exact ⟨_, (Real.hasDerivAt_log hx.ne').div_const _, fun g => by simp only [bwd_Log10_0] <;> ring⟩

theorem Log1p_vjp0 (x : ℝ) (hx : -1 < x) :
    ∃ d, HasDerivAt (fun t => fwd_Log1p t) d x ∧ ∀ g, bwd_Log1p_0 g x = g * d := by
  simp only [fwd_Log1p]
  have h : (1 : ℝ) + x ≠ 0 := by linarith
  exact ⟨_, ((hasDerivAt_id' x).const_add 1).log h, fun g => by simp only [bwd_Log1p_0] <;> ring⟩

theorem Logaddexp_vjp0 (x y : ℝ) :
    ∃ d, HasDerivAt (fun t => fwd_Logaddexp t y) d x ∧ ∀ g, bwd_Logaddexp_0 g x y = g * d := by
  simp only [fwd_Logaddexp]
  have h : Real.exp x + Real.exp y ≠ 0 := (add_pos (Real.exp_pos x) (Real.exp_pos y)).ne'
  refine ⟨_, ((Real.hasDerivAt_exp x).add_const (Real.exp y)).log h, fun g => ?_⟩
  simp only [bwd_Logaddexp_0, Real.exp_sub]
  have hx := Real.exp_ne_zero x
  field_simp <;> ring

theorem Logaddexp_vjp1 (x y : ℝ) :
    ∃ d, HasDerivAt (fun t => fwd_Logaddexp x t) d y ∧ ∀ g, bwd_Logaddexp_1 g x y = g * d := by
  simp only [fwd_Logaddexp]
  have h : Real.exp x + Real.exp y ≠ 0 := (add_pos (Real.exp_pos x) (Real.exp_pos y)).ne'
  refine ⟨_, ((Real.hasDerivAt_exp y).const_add (Real.exp x)).log h, fun g => ?_⟩
  simp only [bwd_Logaddexp_1, Real.exp_sub]
  have hy := Real.exp_ne_zero y
  field_simp <;> ring

theorem Logaddexp2_vjp0 (x y : ℝ) :
    ∃ d, HasDerivAt (fun t => fwd_Logaddexp2 t y) d x ∧ ∀ g, bwd_Logaddexp2_0 g x y = g * d := by
  simp only [fwd_Logaddexp2]
  have hx : (0 : ℝ) < (2 : ℝ) ^ x := Real.rpow_pos_of_pos two_pos x
  have hy : (0 : ℝ) < (2 : ℝ) ^ y := Real.rpow_pos_of_pos two_pos y
  have h : (2 : ℝ) ^ x + (2 : ℝ) ^ y ≠ 0 := (add_pos hx hy).ne'
  have hl : Real.log 2 ≠ 0 := (Real.log_pos (by norm_num)).ne'
  refine ⟨_, ((((Real.hasStrictDerivAt_const_rpow two_pos x).hasDerivAt).add_const ((2 : ℝ) ^ y)).log h).div_const _,
    fun g => ?_⟩
  simp only [bwd_Logaddexp2_0, Real.rpow_sub two_pos]
  have := hx.ne'
  field_simp <;> ring

theorem Logaddexp2_vjp1 (x y : ℝ) :
    ∃ d, HasDerivAt (fun t => fwd_Logaddexp2 x t) d y ∧ ∀ g, bwd_Logaddexp2_1 g x y = g * d := by
  simp only [fwd_Logaddexp2]
  have hx : (0 : ℝ) < (2 : ℝ) ^ x := Real.rpow_pos_of_pos two_pos x
  have hy : (0 : ℝ) < (2 : ℝ) ^ y := Real.rpow_pos_of_pos two_pos y
  have h : (2 : ℝ) ^ x + (2 : ℝ) ^ y ≠ 0 := (add_pos hx hy).ne'
  have hl : Real.log 2 ≠ 0 := (Real.log_pos (by norm_num)).ne'
  refine ⟨_, ((((Real.hasStrictDerivAt_const_rpow two_pos y).hasDerivAt).const_add ((2 : ℝ) ^ x)).log h).div_const _,
    fun g => ?_⟩
  simp only [bwd_Logaddexp2_1, Real.rpow_sub two_pos]
  have := hy.ne'
  field_simp <;> ring

end MG.C02
