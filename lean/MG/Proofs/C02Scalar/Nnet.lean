import MG.Gen.ScalarOps
import MG.Proofs.Lemmas.NumpyRealDeriv

/-!
# C02 (scalar stratum) — nnet activations that are `Operation`s: sigmoid, relu, elu, selu

Definitions generated from `/repo/src/mygrad/nnet/activations/{sigmoid,relu,elu,selu}.py` (forward passes traced from
`__call__`, including the in-place `out=` updates of `Sigmoid` and the cached `self.exp`/`self.back`).
`leaky_relu`, `hard_tanh`, `soft_sign`, `glu` are compositions of other ops (C01).
At the kink `x = 0` the code uses the right-hand formula for elu/selu and `0` for relu; these are stated as
`*_at_zero` theorems about the generated backward.
-/

set_option linter.unnecessarySeqFocus false
set_option linter.unusedTactic false
set_option linter.unusedSimpArgs false
set_option linter.unreachableTactic false

namespace MG.C02
open MG.Gen.Scalar

theorem Sigmoid_vjp0 (x : ℝ) :
    ∃ d, HasDerivAt (fun t => fwd_Sigmoid t) d x ∧ ∀ g, bwd_Sigmoid_0 g x = g * d := by
  have hf : (fun t => fwd_Sigmoid t) = fun t => (Real.exp (-t) + 1)⁻¹ := by funext t; simp [fwd_Sigmoid]
  rw [hf]
  have hne : Real.exp (-x) + 1 ≠ 0 := (add_pos (Real.exp_pos _) one_pos).ne'
  have hd : HasDerivAt (fun t : ℝ => (Real.exp (-t) + 1)⁻¹) (-(Real.exp (-x) * -1) / (Real.exp (-x) + 1) ^ 2) x :=
    (((hasDerivAt_id' x).neg.exp).add_const 1).inv hne
  refine ⟨_, hd, fun g => ?_⟩
  have e : Real.exp (-1 * x) = Real.exp (-x) := by ring_nf
  simp only [bwd_Sigmoid_0, e]
  field_simp <;> ring

theorem ReLu_vjp0_pos (x : ℝ) (hx : 0 < x) :
    ∃ d, HasDerivAt (fun t => fwd_ReLu t) d x ∧ ∀ g, bwd_ReLu_0 g x = g * d := by
  refine ⟨1, ?_, fun g => by simp only [bwd_ReLu_0]; (try split_ifs) <;> first | ring1 | contradiction | (exfalso; linarith)⟩
  refine (hasDerivAt_id' x).congr_of_eventuallyEq ?_
  filter_upwards [lt_mem_nhds hx] with t ht
  simp [fwd_ReLu, ht, ht.le, not_lt.mpr ht.le, ht.ne']

theorem ReLu_vjp0_neg (x : ℝ) (hx : x < 0) :
    ∃ d, HasDerivAt (fun t => fwd_ReLu t) d x ∧ ∀ g, bwd_ReLu_0 g x = g * d := by
  refine ⟨0, ?_, fun g => by simp only [bwd_ReLu_0]; (try split_ifs) <;> first | ring1 | contradiction | (exfalso; linarith)⟩
  refine (hasDerivAt_const x (0 : ℝ)).congr_of_eventuallyEq ?_
  filter_upwards [gt_mem_nhds hx] with t ht
  simp [fwd_ReLu, ht, ht.le, not_lt.mpr ht.le, ht.ne]

/-- convention at the kink: no gradient at `0` -/
theorem ReLu_at_zero (g : ℝ) : dom_bwd_ReLu_0 g 0 ∧ bwd_ReLu_0 g 0 = 0 := by simp [dom_bwd_ReLu_0, bwd_ReLu_0]

theorem ELU_vjp0_pos (alpha x : ℝ) (hx : 0 < x) :
    ∃ d, HasDerivAt (fun t => fwd_ELU alpha t) d x ∧ ∀ g, bwd_ELU_0 alpha g x = g * d := by
  refine ⟨1, ?_, fun g => by simp only [bwd_ELU_0]; (try split_ifs) <;> first | ring1 | contradiction | (exfalso; linarith)⟩
  refine (hasDerivAt_id' x).congr_of_eventuallyEq ?_
  filter_upwards [lt_mem_nhds hx] with t ht
  simp [fwd_ELU, ht, ht.le, not_lt.mpr ht.le, ht.ne']

theorem ELU_vjp0_neg (alpha x : ℝ) (hx : x < 0) :
    ∃ d, HasDerivAt (fun t => fwd_ELU alpha t) d x ∧ ∀ g, bwd_ELU_0 alpha g x = g * d := by
  have he : (fun t => fwd_ELU alpha t) =ᶠ[nhds x] fun t => alpha * (Real.exp t - 1) := by
    filter_upwards [gt_mem_nhds hx] with t ht
    simp [fwd_ELU, ht, ht.le, not_lt.mpr ht.le, ht.ne]
  refine ⟨_, (((Real.hasDerivAt_exp x).sub_const 1).const_mul alpha).congr_of_eventuallyEq he, fun g => ?_⟩
  simp only [bwd_ELU_0]; (try split_ifs) <;> first | ring1 | contradiction | (exfalso; linarith)

/-- at the kink the code takes the right-hand slope `1` (the two-sided derivative exists iff `alpha = 1`) -/
theorem ELU_at_zero (alpha g : ℝ) : dom_bwd_ELU_0 alpha g 0 ∧ bwd_ELU_0 alpha g 0 = g := by
  simp [dom_bwd_ELU_0, bwd_ELU_0]

theorem SELU_vjp0_pos (x : ℝ) (hx : 0 < x) :
    ∃ d, HasDerivAt (fun t => fwd_SELU t) d x ∧ ∀ g, bwd_SELU_0 g x = g * d := by
  have he : (fun t => fwd_SELU t) =ᶠ[nhds x] fun t => (1.0507009873554805 : ℝ) * t := by
    filter_upwards [lt_mem_nhds hx] with t ht
    simp [fwd_SELU, ht, ht.le, not_lt.mpr ht.le, ht.ne']
  refine ⟨_, ((hasDerivAt_id' x).const_mul _).congr_of_eventuallyEq he, fun g => ?_⟩
  simp only [bwd_SELU_0]; (try split_ifs) <;> first | ring1 | contradiction | (exfalso; linarith)

theorem SELU_vjp0_neg (x : ℝ) (hx : x < 0) :
    ∃ d, HasDerivAt (fun t => fwd_SELU t) d x ∧ ∀ g, bwd_SELU_0 g x = g * d := by
  have he : (fun t => fwd_SELU t) =ᶠ[nhds x]
      fun t => (1.0507009873554805 : ℝ) * ((1.6732632423543772 : ℝ) * (Real.exp t - 1)) := by
    filter_upwards [gt_mem_nhds hx] with t ht
    simp [fwd_SELU, ht, ht.le, not_lt.mpr ht.le, ht.ne]
  refine ⟨_, ((((Real.hasDerivAt_exp x).sub_const 1).const_mul _).const_mul _).congr_of_eventuallyEq he, fun g => ?_⟩
  simp only [bwd_SELU_0]; (try split_ifs) <;> first | ring1 | contradiction | (exfalso; linarith)

theorem SELU_at_zero (g : ℝ) : dom_bwd_SELU_0 g 0 ∧ bwd_SELU_0 g 0 = g * (1.0507009873554805 : ℝ) := by
  simp [dom_bwd_SELU_0, bwd_SELU_0]

example : ∃ d, HasDerivAt (fun t => fwd_ELU 2 t) d (-1) ∧ ∀ g, bwd_ELU_0 2 g (-1) = g * d :=
  ELU_vjp0_neg 2 (-1) (by norm_num)

end MG.C02
