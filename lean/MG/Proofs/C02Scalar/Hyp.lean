import MG.Gen.ScalarOps
import MG.Proofs.Lemmas.NumpyRealDeriv
import Mathlib.Analysis.SpecialFunctions.Trigonometric.DerivHyp

/-!
# C02 (scalar stratum) — hyperbolic ops

Definitions generated from `/repo/src/mygrad/math/hyperbolic_trig/ops.py`.  `Csch`, `Sech`, `Coth` are not ufuncs:
their forward pass is traced from `__call__`.
-/

set_option linter.unnecessarySeqFocus false
set_option linter.unusedTactic false
set_option linter.unreachableTactic false

namespace MG.C02
open MG.Gen.Scalar

theorem Sinh_vjp0 (x : ℝ) : ∃ d, HasDerivAt (fun t => fwd_Sinh t) d x ∧ ∀ g, bwd_Sinh_0 g x = g * d := by
  simp only [fwd_Sinh]
  exact ⟨_, Real.hasDerivAt_sinh x, fun g => by simp only [bwd_Sinh_0] <;> ring⟩

theorem Cosh_vjp0 (x : ℝ) : ∃ d, HasDerivAt (fun t => fwd_Cosh t) d x ∧ ∀ g, bwd_Cosh_0 g x = g * d := by
  simp only [fwd_Cosh]
  exact ⟨_, Real.hasDerivAt_cosh x, fun g => by simp only [bwd_Cosh_0] <;> ring⟩

theorem Tanh_vjp0 (x : ℝ) : ∃ d, HasDerivAt (fun t => fwd_Tanh t) d x ∧ ∀ g, bwd_Tanh_0 g x = g * d := by
  simp only [fwd_Tanh]
  exact ⟨_, MG.NP.hasDerivAt_tanh x, fun g => by simp only [bwd_Tanh_0] <;> ring⟩

example : bwd_Tanh_0 2 0 = 2 := by simp [bwd_Tanh_0]

theorem Csch_vjp0 (x : ℝ) (hx : x ≠ 0) :
    ∃ d, HasDerivAt (fun t => fwd_Csch t) d x ∧ ∀ g, bwd_Csch_0 g x = g * d := by
  have h : Real.sinh x ≠ 0 := fun h0 => hx (Real.sinh_eq_zero.mp h0)
  have hf : (fun t => fwd_Csch t) = fun t => 1 / Real.sinh t := by funext t; simp [fwd_Csch]
  rw [hf]
  exact ⟨_, (hasDerivAt_const x (1 : ℝ)).div (Real.hasDerivAt_sinh x) h, fun g => by simp only [bwd_Csch_0] <;> ring⟩

theorem Sech_vjp0 (x : ℝ) : ∃ d, HasDerivAt (fun t => fwd_Sech t) d x ∧ ∀ g, bwd_Sech_0 g x = g * d := by
  have h : Real.cosh x ≠ 0 := (Real.cosh_pos x).ne'
  have hf : (fun t => fwd_Sech t) = fun t => 1 / Real.cosh t := by funext t; simp [fwd_Sech]
  rw [hf]
  exact ⟨_, (hasDerivAt_const x (1 : ℝ)).div (Real.hasDerivAt_cosh x) h, fun g => by simp only [bwd_Sech_0] <;> ring⟩

theorem Coth_vjp0 (x : ℝ) (hx : x ≠ 0) :
    ∃ d, HasDerivAt (fun t => fwd_Coth t) d x ∧ ∀ g, bwd_Coth_0 g x = g * d := by
  have h : Real.sinh x ≠ 0 := fun h0 => hx (Real.sinh_eq_zero.mp h0)
  have hf : (fun t => fwd_Coth t) = fun t => Real.cosh t / Real.sinh t := by
    funext t; simp [fwd_Coth, Real.tanh_eq_sinh_div_cosh]
  rw [hf]
  have hd : (Real.sinh x * Real.sinh x - Real.cosh x * Real.cosh x) / Real.sinh x ^ 2 = -1 / Real.sinh x ^ 2 := by
    have := Real.cosh_sq x
    congr 1; nlinarith
  refine ⟨_, ((Real.hasDerivAt_cosh x).div (Real.hasDerivAt_sinh x) h).congr_deriv hd, fun g => ?_⟩
  simp only [bwd_Coth_0] <;> ring

end MG.C02
