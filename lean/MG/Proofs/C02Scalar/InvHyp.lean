import MG.Gen.ScalarOps
import MG.Proofs.Lemmas.NumpyRealDeriv

/-!
# C02 (scalar stratum) — inverse hyperbolic ops

Definitions generated from `/repo/src/mygrad/math/hyperbolic_trig/ops.py`.  `Arccsch` (`arcsinh (1/x)`) and `Arccoth`
(`arctanh (1/x)`) are not ufuncs: their forward pass is traced from `__call__`.
-/

set_option linter.unnecessarySeqFocus false
set_option linter.unusedTactic false
set_option linter.unreachableTactic false

namespace MG.C02
open MG.Gen.Scalar

theorem Arcsinh_vjp0 (x : ℝ) :
    ∃ d, HasDerivAt (fun t => fwd_Arcsinh t) d x ∧ ∀ g, bwd_Arcsinh_0 g x = g * d := by
  simp only [fwd_Arcsinh]
  exact ⟨_, Real.hasDerivAt_arsinh x, fun g => by simp only [bwd_Arcsinh_0] <;> ring⟩

theorem Arccosh_vjp0 (x : ℝ) (h : 1 < x) :
    ∃ d, HasDerivAt (fun t => fwd_Arccosh t) d x ∧ ∀ g, bwd_Arccosh_0 g x = g * d := by
  simp only [fwd_Arccosh]
  exact ⟨_, Real.hasDerivAt_arcosh (Set.mem_Ioi.mpr h), fun g => by simp only [bwd_Arccosh_0] <;> ring⟩

example : ∃ d, HasDerivAt (fun t => fwd_Arccosh t) d 2 ∧ ∀ g, bwd_Arccosh_0 g 2 = g * d :=
  Arccosh_vjp0 2 (by norm_num)

theorem Arctanh_vjp0 (x : ℝ) (h1 : -1 < x) (h2 : x < 1) :
    ∃ d, HasDerivAt (fun t => fwd_Arctanh t) d x ∧ ∀ g, bwd_Arctanh_0 g x = g * d := by
  simp only [fwd_Arctanh]
  exact ⟨_, MG.NP.hasDerivAt_artanh h1 h2, fun g => by simp only [bwd_Arctanh_0] <;> ring⟩

theorem Arccsch_vjp0 (x : ℝ) (hx : x ≠ 0) :
    ∃ d, HasDerivAt (fun t => fwd_Arccsch t) d x ∧ ∀ g, bwd_Arccsch_0 g x = g * d := by
  have hf : (fun t => fwd_Arccsch t) = fun t => Real.arsinh (1 / t) := by funext t; simp [fwd_Arccsch]
  rw [hf]
  exact ⟨_, MG.NP.hasDerivAt_arsinh_inv hx, fun g => by simp only [bwd_Arccsch_0] <;> ring⟩

theorem Arccoth_vjp0 (x : ℝ) (h : 1 < |x|) :
    ∃ d, HasDerivAt (fun t => fwd_Arccoth t) d x ∧ ∀ g, bwd_Arccoth_0 g x = g * d := by
  have hf : (fun t => fwd_Arccoth t) = fun t => Real.artanh (1 / t) := by funext t; simp [fwd_Arccoth]
  rw [hf]
  exact ⟨_, MG.NP.hasDerivAt_artanh_inv h, fun g => by simp only [bwd_Arccoth_0] <;> ring⟩

end MG.C02
