import MG.Gen.ScalarOps
import MG.Proofs.Lemmas.NumpyRealDeriv

/-!
# C02 (scalar stratum) — abs, sqrt, cbrt, maximum, minimum

Definitions generated from `/repo/src/mygrad/math/misc/ops.py`.  Piecewise ops get one derivative theorem per smooth
piece and a separate theorem for the documented convention at the kink (`d|x|/dx = 0` at `0`, NaN with
`nan_to_num=False` — modelled as `none`; zero gradient to both operands at ties of `maximum`/`minimum`).
-/

set_option linter.unnecessarySeqFocus false
set_option linter.unusedTactic false
set_option linter.unusedSimpArgs false
set_option linter.unreachableTactic false

namespace MG.C02
open MG.Gen.Scalar

theorem Abs_vjp0_pos (x : ℝ) (hx : 0 < x) :
    ∃ d, HasDerivAt (fun t => fwd_Abs t) d x ∧ ∀ g, bwd_Abs_0 g x = g * d := by
  refine ⟨1, ?_, fun g => by simp only [bwd_Abs_0]; (try split_ifs) <;> first | ring1 | contradiction | (exfalso; linarith)⟩
  refine (hasDerivAt_id' x).congr_of_eventuallyEq ?_
  filter_upwards [lt_mem_nhds hx] with t ht
  simp [fwd_Abs, abs_of_pos ht]

theorem Abs_vjp0_neg (x : ℝ) (hx : x < 0) :
    ∃ d, HasDerivAt (fun t => fwd_Abs t) d x ∧ ∀ g, bwd_Abs_0 g x = g * d := by
  refine ⟨-1, ?_, fun g => by simp only [bwd_Abs_0]; (try split_ifs) <;> first | ring1 | contradiction | (exfalso; linarith)⟩
  refine (hasDerivAt_id' x).neg.congr_of_eventuallyEq ?_
  filter_upwards [gt_mem_nhds hx] with t ht
  simp [fwd_Abs, abs_of_neg ht]

/-- documented convention: `d|x|/dx = 0` at `0` (default `nan_to_num=True`) -/
theorem Abs_at_zero (g : ℝ) : dom_bwd_Abs_0 g 0 ∧ bwd_Abs_0 g 0 = 0 := by simp [dom_bwd_Abs_0, bwd_Abs_0]

/-- `nan_to_num=False`: NaN (`none`) exactly at `0`, the derivative elsewhere -/
theorem AbsNoNanToNum_vjp0 (x : ℝ) (hx : x ≠ 0) :
    ∃ d, HasDerivAt (fun t => fwd_AbsNoNanToNum t) d x ∧ ∀ g, bwd_AbsNoNanToNum_0 g x = some (g * d) := by
  rcases lt_or_gt_of_ne hx with hneg | hpos
  · refine ⟨-1, ?_, fun g => by simp [bwd_AbsNoNanToNum_0, MG.NP.o2, hneg, hneg.le, not_lt.mpr hneg.le, hneg.ne]⟩
    refine (hasDerivAt_id' x).neg.congr_of_eventuallyEq ?_
    filter_upwards [gt_mem_nhds hneg] with t ht
    simp [fwd_AbsNoNanToNum, abs_of_neg ht]
  · refine ⟨1, ?_, fun g => by simp [bwd_AbsNoNanToNum_0, MG.NP.o2, hpos, hpos.le, not_lt.mpr hpos.le, hpos.ne']⟩
    refine (hasDerivAt_id' x).congr_of_eventuallyEq ?_
    filter_upwards [lt_mem_nhds hpos] with t ht
    simp [fwd_AbsNoNanToNum, abs_of_pos ht]

theorem AbsNoNanToNum_at_zero (g : ℝ) : ¬ dom_bwd_AbsNoNanToNum_0 g 0 ∧ bwd_AbsNoNanToNum_0 g 0 = none := by
  simp [dom_bwd_AbsNoNanToNum_0, bwd_AbsNoNanToNum_0, MG.NP.o2]

theorem Sqrt_vjp0 (x : ℝ) (hx : 0 < x) :
    ∃ d, HasDerivAt (fun t => fwd_Sqrt t) d x ∧ ∀ g, bwd_Sqrt_0 g x = g * d := by
  simp only [fwd_Sqrt]
  exact ⟨_, Real.hasDerivAt_sqrt hx.ne', fun g => by simp only [bwd_Sqrt_0] <;> ring⟩

example : ∃ d, HasDerivAt (fun t => fwd_Sqrt t) d 4 ∧ ∀ g, bwd_Sqrt_0 g 4 = g * d := Sqrt_vjp0 4 (by norm_num)

theorem Cbrt_vjp0 (x : ℝ) (hx : x ≠ 0) :
    ∃ d, HasDerivAt (fun t => fwd_Cbrt t) d x ∧ ∀ g, bwd_Cbrt_0 g x = g * d := by
  have hf : (fun t => fwd_Cbrt t) = MG.NP.cbrt := by funext t; simp [fwd_Cbrt]
  rw [hf]
  exact ⟨_, MG.NP.hasDerivAt_cbrt hx, fun g => by simp only [bwd_Cbrt_0] <;> ring⟩

/-! ### maximum / minimum -/

theorem Maximum_vjp0_gt (x y : ℝ) (h : y < x) :
    ∃ d, HasDerivAt (fun t => fwd_Maximum t y) d x ∧ ∀ g, bwd_Maximum_0 g x y = g * d := by
  refine ⟨1, ?_, fun g => by simp [bwd_Maximum_0, h]⟩
  refine (hasDerivAt_id' x).congr_of_eventuallyEq ?_
  filter_upwards [lt_mem_nhds h] with t ht
  simp [fwd_Maximum, max_eq_left ht.le]

theorem Maximum_vjp0_lt (x y : ℝ) (h : x < y) :
    ∃ d, HasDerivAt (fun t => fwd_Maximum t y) d x ∧ ∀ g, bwd_Maximum_0 g x y = g * d := by
  refine ⟨0, ?_, fun g => by simp [bwd_Maximum_0, not_lt.mpr h.le]⟩
  refine (hasDerivAt_const x y).congr_of_eventuallyEq ?_
  filter_upwards [gt_mem_nhds h] with t ht
  simp [fwd_Maximum, max_eq_right ht.le]

theorem Maximum_vjp1_gt (x y : ℝ) (h : y < x) :
    ∃ d, HasDerivAt (fun t => fwd_Maximum x t) d y ∧ ∀ g, bwd_Maximum_1 g x y = g * d := by
  refine ⟨0, ?_, fun g => by simp [bwd_Maximum_1, h, h.ne']⟩
  refine (hasDerivAt_const y x).congr_of_eventuallyEq ?_
  filter_upwards [gt_mem_nhds h] with t ht
  simp [fwd_Maximum, max_eq_left ht.le]

theorem Maximum_vjp1_lt (x y : ℝ) (h : x < y) :
    ∃ d, HasDerivAt (fun t => fwd_Maximum x t) d y ∧ ∀ g, bwd_Maximum_1 g x y = g * d := by
  refine ⟨1, ?_, fun g => by simp [bwd_Maximum_1, not_lt.mpr h.le, h.ne]⟩
  refine (hasDerivAt_id' y).congr_of_eventuallyEq ?_
  filter_upwards [lt_mem_nhds h] with t ht
  simp [fwd_Maximum, max_eq_right ht.le]

/-- documented convention: at a tie neither operand receives gradient -/
theorem Maximum_tie (g x y : ℝ) (h : x = y) :
    (dom_bwd_Maximum_0 g x y ∧ bwd_Maximum_0 g x y = 0) ∧ (dom_bwd_Maximum_1 g x y ∧ bwd_Maximum_1 g x y = 0) := by
  subst h; simp [dom_bwd_Maximum_0, dom_bwd_Maximum_1, bwd_Maximum_0, bwd_Maximum_1]

theorem Minimum_vjp0_gt (x y : ℝ) (h : y < x) :
    ∃ d, HasDerivAt (fun t => fwd_Minimum t y) d x ∧ ∀ g, bwd_Minimum_0 g x y = g * d := by
  refine ⟨0, ?_, fun g => by simp [bwd_Minimum_0, not_lt.mpr h.le]⟩
  refine (hasDerivAt_const x y).congr_of_eventuallyEq ?_
  filter_upwards [lt_mem_nhds h] with t ht
  simp [fwd_Minimum, min_eq_right ht.le]

theorem Minimum_vjp0_lt (x y : ℝ) (h : x < y) :
    ∃ d, HasDerivAt (fun t => fwd_Minimum t y) d x ∧ ∀ g, bwd_Minimum_0 g x y = g * d := by
  refine ⟨1, ?_, fun g => by simp [bwd_Minimum_0, h]⟩
  refine (hasDerivAt_id' x).congr_of_eventuallyEq ?_
  filter_upwards [gt_mem_nhds h] with t ht
  simp [fwd_Minimum, min_eq_left ht.le]

theorem Minimum_vjp1_gt (x y : ℝ) (h : y < x) :
    ∃ d, HasDerivAt (fun t => fwd_Minimum x t) d y ∧ ∀ g, bwd_Minimum_1 g x y = g * d := by
  refine ⟨1, ?_, fun g => by simp [bwd_Minimum_1, not_lt.mpr h.le, h.ne']⟩
  refine (hasDerivAt_id' y).congr_of_eventuallyEq ?_
  filter_upwards [gt_mem_nhds h] with t ht
  simp [fwd_Minimum, min_eq_right ht.le]

theorem Minimum_vjp1_lt (x y : ℝ) (h : x < y) :
    ∃ d, HasDerivAt (fun t => fwd_Minimum x t) d y ∧ ∀ g, bwd_Minimum_1 g x y = g * d := by
  refine ⟨0, ?_, fun g => by simp [bwd_Minimum_1, h, h.ne]⟩
  refine (hasDerivAt_const y x).congr_of_eventuallyEq ?_
  filter_upwards [lt_mem_nhds h] with t ht
  simp [fwd_Minimum, min_eq_left ht.le]

theorem Minimum_tie (g x y : ℝ) (h : x = y) :
    (dom_bwd_Minimum_0 g x y ∧ bwd_Minimum_0 g x y = 0) ∧ (dom_bwd_Minimum_1 g x y ∧ bwd_Minimum_1 g x y = 0) := by
  subst h; simp [dom_bwd_Minimum_0, dom_bwd_Minimum_1, bwd_Minimum_0, bwd_Minimum_1]

example : bwd_Maximum_0 5 2 2 = 0 ∧ bwd_Maximum_1 5 2 2 = 0 :=
  ⟨(Maximum_tie 5 2 2 rfl).1.2, (Maximum_tie 5 2 2 rfl).2.2⟩

end MG.C02
