import MG.Gen.ScalarOps
import MG.Proofs.Lemmas.NumpyRealDeriv

/-!
# C02 (scalar stratum) — arithmetic ops: `backward_var` is the exact VJP of the forward pass

Property theorems only.  The definitions `fwd_*`/`bwd_*` are GENERATED from `/repo/src/mygrad/math/arithmetic/ops.py`
(`MG/Gen/ScalarOps.lean`).  Shape of every theorem: the forward function, as a function of operand `i`, has a
derivative `d` at the point, and the traced backward formula equals `g * d` for every incoming gradient `g`.
Hypotheses are NumPy's domain.  The algebraic side goals are closed by `ring`/`field_simp`, so commuting or
re-associating the Python formula does not break a proof while a sign / factor / wrong-function edit does.
-/

set_option linter.unnecessarySeqFocus false
set_option linter.unusedTactic false
set_option linter.unreachableTactic false

namespace MG.C02
open MG.Gen.Scalar

theorem Add_vjp0 (x y : ℝ) : ∃ d, HasDerivAt (fun t => fwd_Add t y) d x ∧ ∀ g, bwd_Add_0 g x y = g * d := by
  simp only [fwd_Add]
  exact ⟨_, (hasDerivAt_id' x).add_const y, fun g => by simp only [bwd_Add_0] <;> ring⟩

theorem Add_vjp1 (x y : ℝ) : ∃ d, HasDerivAt (fun t => fwd_Add x t) d y ∧ ∀ g, bwd_Add_1 g x y = g * d := by
  simp only [fwd_Add]
  exact ⟨_, (hasDerivAt_id' y).const_add x, fun g => by simp only [bwd_Add_1] <;> ring⟩

example : bwd_Add_0 3 1 2 = 3 := by simp [bwd_Add_0]

theorem Subtract_vjp0 (x y : ℝ) :
    ∃ d, HasDerivAt (fun t => fwd_Subtract t y) d x ∧ ∀ g, bwd_Subtract_0 g x y = g * d := by
  simp only [fwd_Subtract]
  exact ⟨_, (hasDerivAt_id' x).sub_const y, fun g => by simp only [bwd_Subtract_0] <;> ring⟩

theorem Subtract_vjp1 (x y : ℝ) :
    ∃ d, HasDerivAt (fun t => fwd_Subtract x t) d y ∧ ∀ g, bwd_Subtract_1 g x y = g * d := by
  simp only [fwd_Subtract]
  exact ⟨_, (hasDerivAt_id' y).const_sub x, fun g => by simp only [bwd_Subtract_1] <;> ring⟩

theorem Multiply_vjp0 (x y : ℝ) :
    ∃ d, HasDerivAt (fun t => fwd_Multiply t y) d x ∧ ∀ g, bwd_Multiply_0 g x y = g * d := by
  simp only [fwd_Multiply]
  exact ⟨_, (hasDerivAt_id' x).mul_const y, fun g => by simp only [bwd_Multiply_0] <;> ring⟩

theorem Multiply_vjp1 (x y : ℝ) :
    ∃ d, HasDerivAt (fun t => fwd_Multiply x t) d y ∧ ∀ g, bwd_Multiply_1 g x y = g * d := by
  simp only [fwd_Multiply]
  exact ⟨_, (hasDerivAt_id' y).const_mul x, fun g => by simp only [bwd_Multiply_1] <;> ring⟩

theorem Divide_vjp0 (x y : ℝ) :
    ∃ d, HasDerivAt (fun t => fwd_Divide t y) d x ∧ ∀ g, bwd_Divide_0 g x y = g * d := by
  simp only [fwd_Divide]
  exact ⟨_, (hasDerivAt_id' x).div_const y, fun g => by simp only [bwd_Divide_0] <;> ring⟩

/-- NumPy's domain of `x / y` as a differentiable function of `y`: `y ≠ 0`. -/
theorem Divide_vjp1 (x y : ℝ) (hy : y ≠ 0) :
    ∃ d, HasDerivAt (fun t => fwd_Divide x t) d y ∧ ∀ g, bwd_Divide_1 g x y = g * d := by
  simp only [fwd_Divide]
  exact ⟨_, (hasDerivAt_const y x).div (hasDerivAt_id' y) hy, fun g => by simp only [bwd_Divide_1] <;> ring⟩

example : ∃ d, HasDerivAt (fun t => fwd_Divide 3 t) d 2 ∧ ∀ g, bwd_Divide_1 g 3 2 = g * d :=
  Divide_vjp1 3 2 (by norm_num)

/-- `x ^ y` in `x`: Mathlib's `rpow` agrees with `np.power` for `0 < x`, for `x = 0 ≤ y` and for `x < 0` with integer
`y` (elsewhere NumPy returns NaN).  The code guards the exponent with `np.where(y, y - 1, 1)`. -/
theorem Power_vjp0 (x y : ℝ) (h : x ≠ 0 ∨ 1 ≤ y) :
    ∃ d, HasDerivAt (fun t => fwd_Power t y) d x ∧ ∀ g, bwd_Power_0 g x y = g * d := by
  simp only [fwd_Power]
  refine ⟨_, Real.hasDerivAt_rpow_const h, fun g => ?_⟩
  simp only [bwd_Power_0]
  by_cases hy : y = 0
  · subst hy; simp
  · simp only [ne_eq, hy, not_false_eq_true, if_true] <;> ring

/-- `x ^ y` in `y`, for a positive base. -/
theorem Power_vjp1 (x y : ℝ) (hx : 0 < x) :
    ∃ d, HasDerivAt (fun t => fwd_Power x t) d y ∧ ∀ g, bwd_Power_1 g x y = g * d := by
  simp only [fwd_Power]
  refine ⟨_, (Real.hasStrictDerivAt_const_rpow hx y).hasDerivAt, fun g => ?_⟩
  simp only [bwd_Power_1, ne_eq, hx.ne', not_false_eq_true, if_true] <;> ring

/-- base `0`, positive exponent: `0 ^ t = 0` near `y`; the code's `np.where(x, x, 1)` guard yields `log 1 = 0`. -/
theorem Power_vjp1_at_zero (y : ℝ) (hy : 0 < y) :
    ∃ d, HasDerivAt (fun t => fwd_Power 0 t) d y ∧ ∀ g, dom_bwd_Power_1 g 0 y ∧ bwd_Power_1 g 0 y = g * d := by
  simp only [fwd_Power]
  refine ⟨0, ?_, fun g => by simp [dom_bwd_Power_1, bwd_Power_1, hy.le]⟩
  refine (hasDerivAt_const y (0 : ℝ)).congr_of_eventuallyEq ?_
  filter_upwards [lt_mem_nhds hy] with t ht using Real.zero_rpow ht.ne'

theorem Reciprocal_vjp0 (x : ℝ) (hx : x ≠ 0) :
    ∃ d, HasDerivAt (fun t => fwd_Reciprocal t) d x ∧ ∀ g, bwd_Reciprocal_0 g x = g * d := by
  simp only [fwd_Reciprocal]
  exact ⟨_, hasDerivAt_inv hx, fun g => by simp only [bwd_Reciprocal_0] <;> ring⟩

theorem Square_vjp0 (x : ℝ) : ∃ d, HasDerivAt (fun t => fwd_Square t) d x ∧ ∀ g, bwd_Square_0 g x = g * d := by
  simp only [fwd_Square]
  refine ⟨_, hasDerivAt_pow 2 x, fun g => ?_⟩
  simp only [bwd_Square_0]; push_cast; ring

example : bwd_Square_0 1 3 = 6 := by simp only [bwd_Square_0]; norm_num

theorem Positive_vjp0 (x : ℝ) :
    ∃ d, HasDerivAt (fun t => fwd_Positive t) d x ∧ ∀ g, bwd_Positive_0 g x = g * d := by
  simp only [fwd_Positive]
  exact ⟨_, hasDerivAt_id' x, fun g => by simp only [bwd_Positive_0] <;> ring⟩

theorem Negative_vjp0 (x : ℝ) :
    ∃ d, HasDerivAt (fun t => fwd_Negative t) d x ∧ ∀ g, bwd_Negative_0 g x = g * d := by
  simp only [fwd_Negative]
  exact ⟨_, (hasDerivAt_id' x).neg, fun g => by simp only [bwd_Negative_0] <;> ring⟩

end MG.C02
