import MG.Core.Dtype

/-!
# C17 — tensor construction and conversion: copying, aliasing and dtype rules

Property theorems only.  Model: `MG/Core/Dtype.lean` (M7, the construction lattice), tied to
`mygrad.tensor`, `Tensor.__init__`, `astensor`, `asarray`, `Tensor.astype`, `Tensor.copy` and
`mygrad.tensor_creation.funcs` by the exhaustive cell-by-cell correspondence of `harness/props/c17.py`.

Every theorem quantifies over **every** cell of the lattice
input kind × source dtype × tensor state × dtype argument × constant argument × copy × ndmin relation ×
tracking switch (all of them finite types); none is checked on a sample.
-/

namespace MG.C17
open MG.Dtype

/-! ## helper facts about the gate -/

theorem gate_ok_not_bad {track : Bool} {dt : DTy} {c : CArg} {k : Bool} (h : gate track dt c = .ok k) :
    c ≠ .bad := by
  intro hc; subst hc; simp [gate] at h

/-- the `constant` flag of a new tensor: the argument if given, else "not a float" -/
def constOf (c : CArg) (isFloat : Bool) : Bool :=
  match c with
  | .t => true
  | .f => false
  | _ => !isFloat

/-- the error of a failed call -/
def errOf {α : Type} : Except Err α → Option Err
  | .error e => some e
  | .ok _ => none

/-- the `constant` flag the gate hands out -/
theorem gate_const {track : Bool} {dt : DTy} {c : CArg} {k : Bool} (h : gate track dt c = .ok k) :
    k = constOf c dt.isFloat := by
  unfold gate at h
  cases c <;> simp [constOf] at h ⊢ <;> (repeat' split at h) <;> simp_all

/-- while tracking, whatever passes the gate is a real dtype, and integer / bool data is constant -/
theorem gate_tracking {dt : DTy} {c : CArg} {k : Bool} (h : gate true dt c = .ok k) :
    dt.isReal = true ∧ (dt.isIntOrBool = true → k = true) := by
  cases dt with
  | real d => cases c <;> cases d <;> simp_all [gate, DTy.isReal, DTy.isFloat, DTy.isIntOrBool, DT.isFloat, DT.kind]
  | c64 => cases c <;> simp [gate, DTy.isFloat, DTy.isIntOrBool] at h
  | c128 => cases c <;> simp [gate, DTy.isFloat, DTy.isIntOrBool] at h
  | obj => cases c <;> simp [gate, DTy.isFloat, DTy.isIntOrBool] at h

theorem map_ok {α β ε : Type} {x : Except ε α} {f : α → β} {r : β} (h : x.map f = .ok r) :
    ∃ k, x = .ok k ∧ f k = r := by
  cases x with
  | error e => simp [Except.map] at h
  | ok k => exact ⟨k, rfl, by simpa [Except.map] using h⟩

theorem tensorInit_ok {track : Bool} {s : Src} {dtype : Option DTy} {c : CArg} {copy : Bool} {nd : NdRel}
    {r : Res} (h : tensorInit track s dtype c copy nd = .ok r) :
    ∃ k, gate track (outDt s.dt dtype) c = .ok k ∧ nd ≠ .bad ∧
      r = { ident := if !copy && s.kind.hasBuffer && dtMatches s.dt dtype then .shares else .fresh
            dt := outDt s.dt dtype, const := k, hasCreator := false, hasGrad := false, hasBase := false
            extended := nd == .gt } := by
  unfold tensorInit at h
  by_cases hc : (c == CArg.bad) = true
  · rw [if_pos hc] at h; cases h
  · rw [if_neg hc] at h
    by_cases hn : (nd == NdRel.bad) = true
    · rw [if_pos hn] at h; cases h
    · rw [if_neg hn] at h
      obtain ⟨k, hk, hr⟩ := map_ok h
      exact ⟨k, hk, by intro e; apply hn; simp [e], hr.symm⟩

theorem passView_ok {track : Bool} {s : Src} {r : Res} (h : passView track s = .ok r) :
    ∃ k, gate track s.dt (if s.ts.const then CArg.t else CArg.f) = .ok k ∧
      r = { ident := .shares, dt := s.dt, const := k, hasCreator := track
            hasGrad := track && s.ts.hasGrad, hasBase := track, extended := true } := by
  obtain ⟨k, hk, hr⟩ := map_ok h
  exact ⟨k, hk, hr.symm⟩

/-- the three ways `mygrad.tensor` can succeed -/
theorem tensorFn_ok {track : Bool} {s : Src} {dtype : Option DTy} {c : CArg} {copy : Bool} {nd : NdRel}
    {r : Res} (h : tensorFn track s dtype c copy nd = .ok r) :
    (passes s dtype c copy = true ∧ nd = .gt ∧ passView track s = .ok r) ∨
    (passes s dtype c copy = true ∧ nd ≠ .gt ∧ r = passSame s) ∨
    (passes s dtype c copy = false ∧ tensorInit track s dtype c copy nd = .ok r) := by
  unfold tensorFn at h
  by_cases hp : passes s dtype c copy = true
  · rw [if_pos hp] at h
    cases nd with
    | bad => cases h
    | gt => exact Or.inl ⟨hp, rfl, h⟩
    | neg => exact Or.inr (Or.inl ⟨hp, by decide, by cases h; rfl⟩)
    | le => exact Or.inr (Or.inl ⟨hp, by decide, by cases h; rfl⟩)
  · rw [if_neg hp] at h
    exact Or.inr (Or.inr ⟨by simpa using hp, h⟩)

theorem passes_iff (s : Src) (dtype : Option DTy) (c : CArg) (copy : Bool) :
    passes s dtype c copy = true ↔
      (s.kind = .tensor ∧ copy = false ∧ constOk c s.ts.const = true ∧ dtMatches s.dt dtype = true) := by
  unfold passes
  cases copy <;> simp [and_assoc]

/-- with `copy=True`, `mygrad.tensor` is `Tensor(...)` -/
theorem tensorFn_copy (track : Bool) (s : Src) (dtype : Option DTy) (c : CArg) (nd : NdRel) :
    tensorFn track s dtype c true nd = tensorInit track s dtype c true nd := by
  have : passes s dtype c true = false := by simp [passes]
  simp [tensorFn, this]

/-! ## the property theorems -/

/-- **tensor_copies_by_default.**  `tensor(x)` and `Tensor(x)` with the default `copy=True`: whatever
the input (scalar, sequence, array, tensor in any graph state), dtype, constant, ndmin and tracking
switch, a successful call returns a new object with its own memory that is a graph leaf without
gradient — so later changes to `x` cannot be seen. -/
theorem tensor_copies_by_default (track : Bool) (s : Src) (dtype : Option DTy) (c : CArg) (nd : NdRel)
    (r : Res)
    (h : tensorFn track s dtype c true nd = .ok r ∨ tensorInit track s dtype c true nd = .ok r) :
    r.ident = .fresh ∧ r.hasCreator = false ∧ r.hasGrad = false ∧ r.hasBase = false := by
  rw [tensorFn_copy, or_self] at h
  obtain ⟨k, _, _, rfl⟩ := tensorInit_ok h
  simp

theorem init_reuse {track : Bool} {s : Src} {dtype : Option DTy} {c : CArg} {nd : NdRel} {r : Res}
    (h : tensorInit track s dtype c false nd = .ok r) :
    (r.ident ≠ .fresh ↔ (s.kind.hasBuffer = true ∧ dtMatches s.dt dtype = true)) := by
  obtain ⟨k, _, _, rfl⟩ := tensorInit_ok h
  cases hb : s.kind.hasBuffer <;> cases hm : dtMatches s.dt dtype <;> simp

/-- **nocopy_reuses_when_dtype_allows.**  With `copy=False` (for `tensor` and for `Tensor`) the result
reuses the input's memory — is the input itself or shares its buffer — exactly when the input owns an
array buffer (ndarray of any flavour, 0-d array, tensor) and no dtype change is requested. -/
theorem nocopy_reuses_when_dtype_allows (track : Bool) (s : Src) (dtype : Option DTy) (c : CArg)
    (nd : NdRel) (r : Res)
    (h : tensorFn track s dtype c false nd = .ok r ∨ tensorInit track s dtype c false nd = .ok r) :
    (r.ident ≠ .fresh ↔ (s.kind.hasBuffer = true ∧ dtMatches s.dt dtype = true)) := by
  rcases h with h | h
  · rcases tensorFn_ok h with ⟨hp, _, hv⟩ | ⟨hp, _, rfl⟩ | ⟨_, hi⟩
    · obtain ⟨hk, _, _, hm⟩ := (passes_iff ..).mp hp
      obtain ⟨k, _, rfl⟩ := passView_ok hv
      simp [hk, hm, SrcKind.hasBuffer]
    · obtain ⟨hk, _, _, hm⟩ := (passes_iff ..).mp hp
      simp [passSame, hk, hm, SrcKind.hasBuffer]
    · exact init_reuse hi
  · exact init_reuse h

/-- **astensor_identity_iff.**  `astensor(x, dtype, constant=)` returns the very object it was given
iff `x` is a tensor whose dtype and constant flag already match the request; and then — it being the
same object — creator, gradient, base, dtype and constant flag are exactly the input's. -/
theorem astensor_identity_iff (track : Bool) (s : Src) (dtype : Option DTy) (c : CArg) (r : Res)
    (h : astensorFn track s dtype c = .ok r) :
    (r.ident = .same ↔
      (s.kind = .tensor ∧ dtMatches s.dt dtype = true ∧ constOk c s.ts.const = true)) ∧
    (r.ident = .same → r.hasCreator = s.ts.hasCreator ∧ r.hasGrad = s.ts.hasGrad ∧
      r.hasBase = s.ts.hasBase ∧ r.const = s.ts.const ∧ r.dt = s.dt ∧ r.extended = false) := by
  unfold astensorFn at h
  rcases tensorFn_ok h with ⟨_, hn, _⟩ | ⟨hp, _, rfl⟩ | ⟨hp, hi⟩
  · cases hn
  · obtain ⟨hk, _, hco, hm⟩ := (passes_iff ..).mp hp
    simp [passSame, hk, hco, hm]
  · obtain ⟨k, _, _, rfl⟩ := tensorInit_ok hi
    have hne : ¬ (s.kind = .tensor ∧ dtMatches s.dt dtype = true ∧ constOk c s.ts.const = true) := by
      intro ⟨a, b, d⟩
      have := (passes_iff s dtype c false).mpr ⟨a, rfl, d, b⟩
      rw [hp] at this; cases this
    have hid : ∀ b : Bool, (if b = true then Ident.shares else Ident.fresh) ≠ Ident.same := by
      intro b; cases b <;> simp
    exact ⟨⟨fun hs => absurd hs (hid _), fun h' => absurd h' hne⟩, fun hs => absurd hs (hid _)⟩

/-- **astensor_shares_iff.**  `astensor` never copies when dtype allows: its result is the input or
shares the input's memory iff the input owns an array buffer and no dtype change is requested
(a changed `constant` flag alone never causes a copy). -/
theorem astensor_shares_iff (track : Bool) (s : Src) (dtype : Option DTy) (c : CArg) (r : Res)
    (h : astensorFn track s dtype c = .ok r) :
    (r.ident ≠ .fresh ↔ (s.kind.hasBuffer = true ∧ dtMatches s.dt dtype = true)) :=
  nocopy_reuses_when_dtype_allows track s dtype c .le r (Or.inl h)

/-- **asarray_same_iff.**  `asarray` hands back the very array (`a` itself, `t.data` for a tensor) iff the
input owns an array buffer, no dtype change is requested and the requested memory order is already
satisfied; the dtype of the result is the requested one, else the input's. -/
theorem asarray_same_iff (s : Src) (dtype : Option DTy) (o : Order) (lay : Layout) :
    ((asarrayFn s dtype o lay).1 = .same ↔
      (s.kind.hasBuffer = true ∧ dtMatches s.dt dtype = true ∧ orderOk o lay = true)) ∧
    ((asarrayFn s dtype o lay).1 ≠ .shares) ∧
    (asarrayFn s dtype o lay).2 = outDt s.dt dtype := by
  unfold asarrayFn
  cases hb : s.kind.hasBuffer <;> cases hm : dtMatches s.dt dtype <;> cases ho : orderOk o lay <;> simp

/-- the three ways `astype` can succeed -/
theorem astypeFn_ok {track : Bool} {sdt : DT} {ts : TState} {target : DTy} {casting : Casting}
    {copy : Bool} {c : CArg} {r : Res} (h : astypeFn track sdt ts target casting copy c = .ok r) :
    canCastY casting sdt target = true ∧
    (((!copy && target == .real sdt && constOk c ts.const) = true ∧
        r = { ident := .same, dt := .real sdt, const := ts.const, hasCreator := ts.hasCreator
              hasGrad := ts.hasGrad, hasBase := ts.hasBase, extended := false }) ∨
     ((!copy && target == .real sdt && constOk c ts.const) = false ∧
        ∃ k, gate track target c = .ok k ∧
          r = { ident := if !copy && target == .real sdt then .shares else .fresh, dt := target
                const := k, hasCreator := false, hasGrad := false, hasBase := false
                extended := false })) := by
  unfold astypeFn at h
  by_cases hc : (!canCastY casting sdt target) = true
  · rw [if_pos hc] at h; cases h
  · rw [if_neg hc] at h
    refine ⟨by simpa using hc, ?_⟩
    by_cases hs : (!copy && target == .real sdt && constOk c ts.const) = true
    · rw [if_pos hs] at h; cases h; exact Or.inl ⟨hs, rfl⟩
    · rw [if_neg hs] at h
      obtain ⟨k, hk, hr⟩ := map_ok h
      exact Or.inr ⟨by simpa using hs, k, hk, hr.symm⟩

/-- **astype_identity_iff.**  `t.astype(dtype, casting, copy, constant=)` returns `t` itself iff
`copy=False`, the dtype is unchanged and the constant flag matches. -/
theorem astype_identity_iff (track : Bool) (sdt : DT) (ts : TState) (target : DTy) (casting : Casting)
    (copy : Bool) (c : CArg) (r : Res) (h : astypeFn track sdt ts target casting copy c = .ok r) :
    (r.ident = .same ↔ (copy = false ∧ target = .real sdt ∧ constOk c ts.const = true)) := by
  obtain ⟨_, ⟨hs, rfl⟩ | ⟨hs, k, _, rfl⟩⟩ := astypeFn_ok h
  · cases copy <;> simp_all
  · have hid : ∀ b : Bool, (if b = true then Ident.shares else Ident.fresh) ≠ Ident.same := by
      intro b; cases b <;> simp
    constructor
    · intro h'; exact absurd h' (hid _)
    · intro ⟨a, b, d⟩; subst a; subst b; simp [d] at hs

/-- **copy_astype_detached.**  `t.copy(constant=)` always returns a new tensor with its own memory, no
creator and no base (its gradient, if any, is a duplicate of `t`'s own gradient array).
`t.astype(...)` returns either `t` itself (see `astype_identity_iff`) or a tensor without creator, base
and gradient; with the default `copy=True` that tensor never shares memory with `t`, and with
`copy=False` it shares memory only if the dtype is unchanged. -/
theorem copy_astype_detached (track : Bool) (sdt : DT) (ts : TState) :
    (∀ c r, copyFn track sdt ts c = .ok r →
      r.ident = .fresh ∧ r.hasCreator = false ∧ r.hasBase = false ∧ r.dt = .real sdt ∧
      (r.hasGrad = true → ts.ownGrad = true)) ∧
    (∀ target casting copy c r, astypeFn track sdt ts target casting copy c = .ok r →
      (r.ident ≠ .same → r.hasCreator = false ∧ r.hasGrad = false ∧ r.hasBase = false ∧ r.dt = target) ∧
      (copy = true → r.ident = .fresh) ∧
      (r.ident = .shares → copy = false ∧ target = .real sdt)) := by
  constructor
  · intro c r h
    obtain ⟨k, _, rfl⟩ := map_ok h
    simp
  · intro target casting copy c r h
    obtain ⟨_, ⟨hs, rfl⟩ | ⟨hs, k, _, rfl⟩⟩ := astypeFn_ok h
    · cases copy <;> simp_all
    · cases copy <;> cases ht : (target == DTy.real sdt) <;> simp_all

/-- **nonreal_rejected_when_tracking.**  While the graph is tracked, no construction or conversion
entry point creates a tensor whose dtype is not bool / integer / float: a request whose resulting dtype
is non-real (complex, object — from the data or from the `dtype` argument) is a `TypeError`, for every
input kind, constant, copy and ndmin; `astype` and the creation routines likewise.  (A tensor handed
back unchanged by the pass-through is not a creation.) -/
theorem nonreal_rejected_when_tracking :
    (∀ s dtype c copy nd, (outDt s.dt dtype).isReal = false →
      tensorInit true s dtype c copy nd = .error .typeError) ∧
    (∀ s dtype c copy nd r, tensorFn true s dtype c copy nd = .ok r → r.ident ≠ .same →
      r.dt.isReal = true) ∧
    (∀ s dtype c copy nd r, tensorInit true s dtype c copy nd = .ok r → r.dt.isReal = true) ∧
    (∀ sdt ts target casting copy c, target.isReal = false →
      astypeFn true sdt ts target casting copy c = .error .typeError) ∧
    (∀ rt dtype inferred c p dk, creationFn true rt dtype inferred c p = .ok dk → dk.1.isReal = true) := by
  have init_ok : ∀ s dtype c copy nd r, tensorInit true s dtype c copy nd = .ok r → r.dt.isReal = true := by
    intro s dtype c copy nd r h
    obtain ⟨k, hg, _, rfl⟩ := tensorInit_ok h
    exact (gate_tracking hg).1
  have gate_nr : ∀ (dt : DTy) (c : CArg), dt.isReal = false → gate true dt c = .error .typeError := by
    intro dt c h
    cases dt <;> cases c <;> simp_all [gate, DTy.isReal, DTy.isFloat, DTy.isIntOrBool]
  refine ⟨?_, ?_, init_ok, ?_, ?_⟩
  · intro s dtype c copy nd hnr
    unfold tensorInit
    rw [gate_nr _ c hnr]
    cases c <;> cases nd <;> simp [Except.map]
  · intro s dtype c copy nd r h hns
    rcases tensorFn_ok h with ⟨_, _, hv⟩ | ⟨_, _, rfl⟩ | ⟨_, hi⟩
    · obtain ⟨k, hg, rfl⟩ := passView_ok hv
      exact (gate_tracking hg).1
    · simp [passSame] at hns
    · exact init_ok s dtype c copy nd r hi
  · intro sdt ts target casting copy c hnr
    unfold astypeFn
    rw [gate_nr _ c hnr]
    have hne : (target == DTy.real sdt) = false := by
      cases target <;> simp_all [DTy.isReal]
    cases hcc : canCastY casting sdt target <;> simp [hne, Except.map]
  · intro rt dtype inferred c p dk h
    obtain ⟨k, hg, rfl⟩ := map_ok h
    exact (gate_tracking hg).1

/-- the tracking switch is what rejects: with tracking off every dtype is accepted (so the hypothesis
"while tracking" of the previous theorem is not vacuous and not redundant) -/
theorem nonreal_accepted_when_not_tracking (s : Src) (dtype : Option DTy) (copy : Bool) :
    ∃ r, tensorInit false s dtype .none copy .le = .ok r ∧ r.dt = outDt s.dt dtype := by
  simp [tensorInit, gate, Except.map]

/-- **int_bool_always_constant.**  While tracking, every tensor *created* with a bool / integer dtype
is a constant, whatever was asked; asking for `constant=False` is a `ValueError` (for a well-formed
call).  Holds for `tensor`, `Tensor`, `astensor`, `astype`, `copy` and the creation routines. -/
theorem int_bool_always_constant :
    (∀ s dtype c copy nd r, tensorFn true s dtype c copy nd = .ok r → r.ident ≠ .same →
      r.dt.isIntOrBool = true → r.const = true) ∧
    (∀ s dtype c copy nd r, tensorInit true s dtype c copy nd = .ok r →
      r.dt.isIntOrBool = true → r.const = true) ∧
    (∀ s dtype copy nd, (outDt s.dt dtype).isIntOrBool = true → nd ≠ .bad →
      tensorInit true s dtype .f copy nd = .error .valueError) ∧
    (∀ sdt ts target casting copy c r, astypeFn true sdt ts target casting copy c = .ok r →
      r.ident ≠ .same → r.dt.isIntOrBool = true → r.const = true) ∧
    (∀ sdt ts c r, copyFn true sdt ts c = .ok r → r.dt.isIntOrBool = true → r.const = true) ∧
    (∀ rt dtype inferred c p dk, creationFn true rt dtype inferred c p = .ok dk →
      dk.1.isIntOrBool = true → dk.2 = true) := by
  have init_ok : ∀ s dtype c copy nd r, tensorInit true s dtype c copy nd = .ok r →
      r.dt.isIntOrBool = true → r.const = true := by
    intro s dtype c copy nd r h
    obtain ⟨k, hg, _, rfl⟩ := tensorInit_ok h
    exact (gate_tracking hg).2
  refine ⟨?_, init_ok, ?_, ?_, ?_, ?_⟩
  · intro s dtype c copy nd r h hns
    rcases tensorFn_ok h with ⟨_, _, hv⟩ | ⟨_, _, rfl⟩ | ⟨_, hi⟩
    · obtain ⟨k, hg, rfl⟩ := passView_ok hv
      exact (gate_tracking hg).2
    · simp [passSame] at hns
    · exact init_ok s dtype c copy nd r hi
  · intro s dtype copy nd hi hnd
    have hg : gate true (outDt s.dt dtype) .f = .error .valueError := by
      cases hd : outDt s.dt dtype with
      | real d => cases d <;> simp_all [gate, DTy.isFloat, DTy.isIntOrBool, DT.isFloat, DT.kind]
      | c64 => simp_all [DTy.isIntOrBool]
      | c128 => simp_all [DTy.isIntOrBool]
      | obj => simp_all [DTy.isIntOrBool]
    unfold tensorInit
    rw [hg]
    cases nd <;> simp_all [Except.map]
  · intro sdt ts target casting copy c r h hns
    obtain ⟨_, ⟨_, rfl⟩ | ⟨_, k, hg, rfl⟩⟩ := astypeFn_ok h
    · simp at hns
    · exact (gate_tracking hg).2
  · intro sdt ts c r h
    obtain ⟨k, hg, rfl⟩ := map_ok h
    exact (gate_tracking hg).2
  · intro rt dtype inferred c p dk h
    obtain ⟨k, hg, rfl⟩ := map_ok h
    exact (gate_tracking hg).2

/-- **result_dtype_rule.**  The dtype of a constructed tensor is the `dtype` argument if given, else the
dtype NumPy infers for the input — for every cell in which the call succeeds. -/
theorem result_dtype_rule (track : Bool) (s : Src) (dtype : Option DTy) (c : CArg) (copy : Bool)
    (nd : NdRel) (r : Res)
    (h : tensorFn track s dtype c copy nd = .ok r ∨ tensorInit track s dtype c copy nd = .ok r) :
    r.dt = outDt s.dt dtype := by
  have init : ∀ r, tensorInit track s dtype c copy nd = .ok r → r.dt = outDt s.dt dtype := by
    intro r h; obtain ⟨k, _, _, rfl⟩ := tensorInit_ok h; rfl
  have same : dtMatches s.dt dtype = true → outDt s.dt dtype = s.dt := by
    intro hm; cases dtype <;> simp_all [outDt, dtMatches]
  rcases h with h | h
  · rcases tensorFn_ok h with ⟨hp, _, hv⟩ | ⟨hp, _, rfl⟩ | ⟨_, hi⟩
    · obtain ⟨k, _, rfl⟩ := passView_ok hv
      exact (same ((passes_iff ..).mp hp).2.2.2).symm
    · exact (same ((passes_iff ..).mp hp).2.2.2).symm
    · exact init r hi
  · exact init r h

/-- **constant_rule.**  A newly created tensor is constant iff `constant=True` was passed, or nothing was
passed and its dtype is not a float. -/
theorem constant_rule (track : Bool) (s : Src) (dtype : Option DTy) (c : CArg) (copy : Bool)
    (nd : NdRel) (r : Res) (h : tensorInit track s dtype c copy nd = .ok r) :
    r.const = constOf c r.dt.isFloat := by
  obtain ⟨k, hg, _, rfl⟩ := tensorInit_ok h
  exact gate_const hg

/-- **creation_defaults.**  `zeros`, `ones`, `empty` called without `dtype` produce float32 (the documented
difference from NumPy); `eye`, `identity` float64. -/
theorem creation_defaults (track : Bool) (inferred : DTy) (c : CArg) (p : Bool) (dk : DTy × Bool) :
    (∀ rt, rt = .zeros ∨ rt = .ones ∨ rt = .empty →
      creationFn track rt none inferred c p = .ok dk → dk.1 = .real .f32) ∧
    (∀ rt, rt = .eye ∨ rt = .identity →
      creationFn track rt none inferred c p = .ok dk → dk.1 = .real .f64) := by
  constructor
  · intro rt hrt h
    obtain ⟨k, _, rfl⟩ := map_ok h
    rcases hrt with rfl | rfl | rfl <;> rfl
  · intro rt hrt h
    obtain ⟨k, _, rfl⟩ := map_ok h
    rcases hrt with rfl | rfl <;> rfl

/-- **creation_dtype_parity.**  With an explicit `dtype` every creation routine returns that dtype; and
apart from `zeros`/`ones`/`empty` the dtype MyGrad passes on when none is given is NumPy's own default
(or nothing at all, so that NumPy infers it). -/
theorem creation_dtype_parity :
    (∀ track rt d inferred c p dk, creationFn track rt (some d) inferred c p = .ok dk → dk.1 = d) ∧
    (∀ rt : Routine, rt ≠ .zeros → rt ≠ .ones → rt ≠ .empty → rt.default = rt.npDefault) ∧
    (∀ track rt inferred c p dk, rt.default = none → creationFn track rt none inferred c p = .ok dk →
      dk.1 = inferred) := by
  refine ⟨?_, ?_, ?_⟩
  · intro track rt d inferred c p dk h
    obtain ⟨k, _, rfl⟩ := map_ok h
    rfl
  · intro rt; cases rt <;> simp [Routine.default, Routine.npDefault]
  · intro track rt inferred c p dk hd h
    obtain ⟨k, _, rfl⟩ := map_ok h
    simp [creationDt, hd]

/-! ## Non-vacuity: concrete cells in which the hypotheses hold and the interesting branch is taken -/

/-- a float32 leaf tensor that carries a gradient -/
def tGrad : Src := ⟨.tensor, .real .f32, ⟨false, false, true, true, false⟩⟩
/-- an owning float64 ndarray -/
def aF64 : Src := ⟨.arrOwn, .real .f64, default⟩

-- default construction from an array succeeds and is fresh
example : (tensorFn true aF64 none .none true .le).toOption =
    some ⟨.fresh, .real .f64, false, false, false, false, false⟩ := by decide
-- copy=False shares; a dtype change forces a copy
example : (tensorFn true aF64 none .none false .le).toOption.map (·.ident) = some .shares ∧
    (tensorFn true aF64 (some (.real .f32)) .none false .le).toOption.map (·.ident) = some .fresh := by
  decide
-- astensor passes a matching tensor through with its gradient, and does not when `constant` differs
example : (astensorFn true tGrad (some (.real .f32)) .f).toOption.map (fun r => (r.ident, r.hasGrad)) =
      some (.same, true) ∧
    (astensorFn true tGrad none .t).toOption.map (fun r => (r.ident, r.hasGrad, r.const)) =
      some (.shares, false, true) := by decide
-- ndmin beyond ndim on the pass-through: a view (creator + base) when tracking
example : (tensorFn true tGrad none .none false .gt).toOption.map
    (fun r => (r.ident, r.hasCreator, r.hasBase, r.hasGrad)) = some (.shares, true, true, true) := by decide
-- rejected: complex data while tracking; accepted with tracking off
example : errOf (tensorInit true ⟨.arrOwn, .c64, default⟩ none .none true .le) = some .typeError ∧
    (tensorInit false ⟨.arrOwn, .c64, default⟩ none .none true .le).toOption.map (·.dt) = some .c64 := by
  decide
-- integer data with constant=False
example : errOf (tensorInit true ⟨.list, .real .i64, default⟩ none .f true .le) = some .valueError := by
  decide
-- astype / copy
example : (astypeFn true .f32 tGrad.ts (.real .f64) .any true .none).toOption.map
      (fun r => (r.ident, r.hasGrad)) = some (.fresh, false) ∧
    (copyFn true .f32 tGrad.ts .none).toOption.map (fun r => (r.ident, r.hasGrad)) = some (.fresh, true) := by
  decide

end MG.C17
