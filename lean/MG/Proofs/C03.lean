import MG.Core.Dtype

/-!
# C03 — forward results agree with NumPy in value, shape and dtype

Property theorems only.  Model: `MG/Core/Dtype.lean` (M7: NumPy-2 promotion with NEP-50 weak scalars,
MyGrad's operand casting `Tensor._op`, loop selection of the ufunc classes, `dtype=`, the result gate,
broadcasting), tied to NumPy and to MyGrad by the exhaustive tables of `harness/props/c03.py`.

What is logic about C03: MyGrad forwards `.data` arrays to the very NumPy kernel, so parity reduces to
(i) what the non-tensor operands are cast to before the call and (ii) which keyword arguments are passed.
(i) is decided here over the complete finite table operand-kind × dtype (× `dtype=` × ufunc class).
The kernel's bits are trusted (NumPy is the oracle).

**The full statement is false of the code**: a Python scalar is turned into a 0-d float64 / int64 *array*
before the ufunc sees it, so NEP 50's weak-scalar rule never applies (`dtype_parity_neg`).  The proved
part (`dtype_parity_partial`, `ufunc_parity_exact`) names the excluded cells by a decidable predicate and
shows it is *exactly* the set of failing cells.
-/

namespace MG.C03
open MG.Dtype

set_option linter.unusedSimpArgs false

/-! ## enumerations -/

instance : Enum Operand :=
  ⟨(Enum.all : List OKind).flatMap fun k => (Enum.all : List DT).map fun d => ⟨k, d⟩, by
    intro ⟨k, d⟩; cases k <;> cases d <;> decide⟩

instance : Enum Seen :=
  ⟨(Enum.all : List DT).map .strong ++ [.weakInt, .weakFloat], by
    intro s
    cases s with
    | strong d => exact List.mem_append_left _ (List.mem_map.mpr ⟨d, Enum.complete d, rfl⟩)
    | weakInt => decide
    | weakFloat => decide⟩

/-! ## MyGrad's cast, seen by NumPy's promotion -/

/-- what the cast does to the way NumPy sees an operand: weak scalars become strong defaults -/
def castSeen : Seen → Seen := Seen.default

theorem seen_cast (o : Operand) : (castOperand o).seen = castSeen o.seen := by
  obtain ⟨k, d⟩ := o; cases k <;> rfl

theorem map_seen_cast (l : List Operand) :
    (l.map castOperand).map Operand.seen = (l.map Operand.seen).map castSeen := by
  induction l with
  | nil => rfl
  | cons o l ih => simp only [List.map, seen_cast, ih]

/-- `mgForward op args = kernel op (castOperands args)`: the dtype MyGrad's call produces is NumPy's
rule applied to the cast operands, for every ufunc class, operand list and `dtype=` -/
theorem mgUfuncDtype_eq (c : OpClass) (l : List Operand) (kw : Option DT) :
    mgUfuncDtype c l kw = ufuncSeen c ((l.map Operand.seen).map castSeen) kw := by
  simp only [mgUfuncDtype, npUfunc, map_seen_cast]

/-! ## dtype parity of the promotion itself -/

/-- NumPy's result type of two operands as it sees them -/
def rs2 (x y : Seen) : DT := (resultSeen [x, y]).getD .f64

theorem npResultType_seen (a b : Operand) : npResultType a b = rs2 a.seen b.seen := rfl

theorem mgResultType_seen (a b : Operand) : mgResultType a b = rs2 (castSeen a.seen) (castSeen b.seen) := by
  simp only [mgResultType, npResultType_seen, seen_cast]

/-- **the full statement (false of the code).**  For every pair of operands — tensor (n-d / 0-d), ndarray
(n-d / 0-d), NumPy scalar, Python bool / int / float, of every real dtype — MyGrad's result dtype is the
one NumPy-2 gives for the same call on the underlying arrays. -/
def dtype_parity_statement : Prop :=
  ∀ a b : Operand, mgResultType a b = npResultType a b

/-- F2: `mg.tensor(np.float32(1)) * 2.0` is float64, NumPy gives float32 -/
theorem dtype_parity_neg : ¬ dtype_parity_statement := by
  intro h
  exact absurd (h ⟨.tensorNd, .f32⟩ ⟨.pyFloat, .f64⟩) (by decide)

/-- a weak Python scalar `w` meets a strong operand `s` (tensor, array, NumPy scalar) whose dtype the
weak scalar would *not* have changed under NEP 50 but which MyGrad's float64 / int64 0-d array does
change: a Python int next to anything but bool, int64, float64; a Python float next to float16/32 -/
def weakMeetsNarrow (w s : Operand) : Bool :=
  !s.kind.isPy &&
    ((w.kind == .pyInt && !(s.dt == .bool || s.dt == .i64 || s.dt == .f64)) ||
     (w.kind == .pyFloat && (s.dt == .f16 || s.dt == .f32)))

/-- the excluded cells -/
def excluded (a b : Operand) : Bool := weakMeetsNarrow a b || weakMeetsNarrow b a

/-- `narrow w d`: weak scalar `w` next to a strong dtype `d` that MyGrad's cast widens -/
def narrow (w : Seen) (d : DT) : Bool :=
  match w with
  | .weakInt => !(d == .bool || d == .i64 || d == .f64)
  | .weakFloat => d == .f16 || d == .f32
  | _ => false

/-- the excluded cells, as NumPy sees the operands -/
def exclS (x y : Seen) : Bool :=
  (match x, y with
   | .strong d, w => narrow w d
   | _, _ => false) ||
  (match y, x with
   | .strong d, w => narrow w d
   | _, _ => false)

theorem excluded_seen (a b : Operand) : excluded a b = exclS a.seen b.seen := by
  obtain ⟨ka, da⟩ := a
  obtain ⟨kb, db⟩ := b
  cases ka <;> cases kb <;>
    simp [excluded, weakMeetsNarrow, exclS, narrow, Operand.seen, OKind.isPy, Bool.or_comm]

/-- the complete table (14 × 14 ways NumPy can see two operands): parity ⇔ not excluded, and in the
excluded cells MyGrad's dtype is strictly wider -/
theorem seen_table : ∀ x y : Seen,
    ((rs2 (castSeen x) (castSeen y) == rs2 x y) = !exclS x y) ∧
    (exclS x y = true → (canCast .safe (rs2 x y) (rs2 (castSeen x) (castSeen y)) &&
      !canCast .safe (rs2 (castSeen x) (castSeen y)) (rs2 x y)) = true) := by
  have := forall2_of_all (fun x y : Seen =>
    ((rs2 (castSeen x) (castSeen y) == rs2 x y) == !exclS x y) &&
    (!exclS x y || (canCast .safe (rs2 x y) (rs2 (castSeen x) (castSeen y)) &&
      !canCast .safe (rs2 (castSeen x) (castSeen y)) (rs2 x y)))) (by decide +kernel)
  intro x y
  have h := this x y
  simp only [Bool.and_eq_true, Bool.or_eq_true, beq_iff_eq, Bool.not_eq_true'] at h
  refine ⟨h.1, fun he => ?_⟩
  rcases h.2 with h2 | h2
  · rw [he] at h2; cases h2
  · simpa using h2

/-- the excluded set is as small as is true: a cell is a dtype mismatch **iff** it is excluded — for every
operand kind × dtype pair (9216 cells, all of them) -/
theorem dtype_parity_exact (a b : Operand) : (mgResultType a b = npResultType a b) ↔ excluded a b = false := by
  rw [mgResultType_seen, npResultType_seen, excluded_seen]
  have h := (seen_table a.seen b.seen).1
  cases he : exclS a.seen b.seen <;> simp_all

/-- **dtype_parity_partial.**  Outside the excluded cells MyGrad's result dtype is NumPy's. -/
theorem dtype_parity_partial (a b : Operand) (h : excluded a b = false) : mgResultType a b = npResultType a b :=
  (dtype_parity_exact a b).mpr h

/-- in every excluded cell MyGrad's result is *wider* (NumPy's result casts safely to it, not back) -/
theorem excluded_is_widening (a b : Operand) (h : excluded a b = true) :
    canCast .safe (npResultType a b) (mgResultType a b) = true ∧
    canCast .safe (mgResultType a b) (npResultType a b) = false := by
  rw [mgResultType_seen, npResultType_seen]
  rw [excluded_seen] at h
  simpa using (seen_table a.seen b.seen).2 h

/-! ## parity per ufunc class, with `dtype=` -/

/-- without `dtype=`: in which cells of a class does the widening change the *output* dtype?
`compare` never (bool); `divide` only below float64 floats; `float` functions whenever the narrow dtype
needs less than a float64; the dtype-preserving classes always. -/
def exclNone (c : OpClass) (w : Seen) (d : DT) : Bool :=
  narrow w d &&
    (match c with
     | .compare => false
     | .divide => d == .f16 || d == .f32
     | .float => d.floatNeed < 64
     | _ => true)

/-- with `dtype=t`: MyGrad's int64 0-d array cannot be cast `same_kind` to an unsigned loop that NumPy
happily feeds a weak Python int to — the call raises where NumPy's succeeds -/
def exclKw (c : OpClass) (x y : Seen) (t : DT) : Bool :=
  match loopIn c t with
  | .error _ => false
  | .ok tin =>
    tin.kind == .u &&
      ((x == .weakInt && seenCastable y tin) || (y == .weakInt && seenCastable x tin))

def exclBinary (c : OpClass) (x y : Seen) : Option DT → Bool
  | none =>
    (match x, y with
     | .strong d, w => exclNone c w d
     | _, _ => false) ||
    (match y, x with
     | .strong d, w => exclNone c w d
     | _, _ => false)
  | some t => exclKw c x y t

/-- Boolean equality of results (dtype or error class) -/
def eqE (a b : Except Err DT) : Bool :=
  match a, b with
  | .ok x, .ok y => x == y
  | .error x, .error y => x == y
  | _, _ => false

theorem eqE_iff (a b : Except Err DT) : eqE a b = true ↔ a = b := by
  cases a <;> cases b <;> simp [eqE]

/-- **ufunc_parity_exact.**  For every ufunc class, every pair of operands as NumPy sees them, and every
`dtype=` (none or one of the twelve): MyGrad's output dtype — or error — equals NumPy's exactly when the
cell is not in `exclBinary`. -/
theorem ufunc_parity_exact (c : OpClass) (x y : Seen) (kw : Option DT) :
    (ufuncSeen c [castSeen x, castSeen y] kw = ufuncSeen c [x, y] kw) ↔ exclBinary c x y kw = false := by
  have := forall2_of_all (fun (c : OpClass) (kw : Option DT) =>
    (Enum.all : List Seen).all fun x => (Enum.all : List Seen).all fun y =>
      eqE (ufuncSeen c [castSeen x, castSeen y] kw) (ufuncSeen c [x, y] kw) == !exclBinary c x y kw)
    (by decide +kernel)
  have h := List.all_eq_true.mp (List.all_eq_true.mp (this c kw) x (Enum.complete x)) y (Enum.complete y)
  rw [← eqE_iff]
  cases he : exclBinary c x y kw <;> simp_all

/-- unary ufuncs: full parity — a lone Python scalar is resolved to its default dtype by NumPy too -/
theorem unary_parity_exact (c : OpClass) (x : Seen) (kw : Option DT) :
    ufuncSeen c [castSeen x] kw = ufuncSeen c [x] kw := by
  have := forall2_of_all (fun (c : OpClass) (kw : Option DT) =>
    (Enum.all : List Seen).all fun x =>
      eqE (ufuncSeen c [castSeen x] kw) (ufuncSeen c [x] kw))
    (by decide +kernel)
  have h := List.all_eq_true.mp (this c kw) x (Enum.complete x)
  exact (eqE_iff _ _).mp h

/-- **ufunc_parity_partial** at the level of operands: outside the excluded cells the MyGrad call and the
NumPy call on the underlying arrays give the same dtype or fail alike. -/
theorem ufunc_parity_partial (c : OpClass) (a b : Operand) (kw : Option DT)
    (h : exclBinary c a.seen b.seen kw = false) :
    mgUfuncDtype c [a, b] kw = npUfunc c [a, b] kw := by
  rw [mgUfuncDtype_eq]
  exact (ufunc_parity_exact c a.seen b.seen kw).mpr h

/-- comparisons always agree in dtype (their *values* can still differ in the excluded cells: the
comparison is carried out in the wider type) -/
theorem compare_dtype_parity (a b : Operand) : mgUfuncDtype .compare [a, b] none = npUfunc .compare [a, b] none := by
  apply ufunc_parity_partial
  cases ha : a.seen <;> cases hb : b.seen <;> simp [exclBinary, exclNone]

/-! ## the cast never changes a value -/

/-- **cast_preserves_value.**  `np.asarray(v)` of a Python scalar holds exactly `v`: a bool stays that
bool, a float the same double, an int the same integer; ints within the int64 range get the default
integer dtype the model's `castOperand` assumes, and only ints beyond 64 bits have no real-dtype array. -/
theorem cast_preserves_value :
    (∀ v d w, castPy v = some (d, w) → w = v) ∧
    (∀ n : Int, -9223372036854775808 ≤ n → n < 9223372036854775808 →
      castPy (.int n) = some ((castOperand ⟨.pyInt, .i64⟩).dt, .int n)) ∧
    (∀ x, castPy (.float x) = some ((castOperand ⟨.pyFloat, .f64⟩).dt, .float x)) ∧
    (∀ b, castPy (.bool b) = some ((castOperand ⟨.pyBool, .bool⟩).dt, .bool b)) ∧
    (∀ n : Int, castPy (.int n) = none ↔ (n < -9223372036854775808 ∨ 18446744073709551616 ≤ n)) := by
  refine ⟨?_, ?_, ?_, ?_, ?_⟩
  · intro v d w h
    cases v with
    | bool b => simp only [castPy, Option.some.injEq, Prod.mk.injEq] at h; exact h.2.symm
    | float x => simp only [castPy, Option.some.injEq, Prod.mk.injEq] at h; exact h.2.symm
    | int n =>
      simp only [castPy] at h
      split at h
      · simp only [Option.some.injEq, Prod.mk.injEq] at h; exact h.2.symm
      · split at h
        · simp only [Option.some.injEq, Prod.mk.injEq] at h; exact h.2.symm
        · cases h
  · intro n h1 h2
    simp only [castPy, castOperand]
    rw [if_pos ⟨h1, h2⟩]
  · intro x; rfl
  · intro b; rfl
  · intro n
    simp only [castPy]
    constructor
    · intro h
      split at h
      · cases h
      · split at h
        · cases h
        · omega
    · intro h
      rw [if_neg (by omega), if_neg (by omega)]

/-! ## shapes: the broadcasting rule -/

theorem bdim_comm (a b : Nat) : bdim a b = bdim b a := by
  unfold bdim
  by_cases h1 : a = b
  · subst h1; rfl
  · have h2 : ¬ b = a := fun e => h1 e.symm
    simp only [h1, h2, if_false]
    by_cases ha : a = 1 <;> by_cases hb : b = 1 <;> simp_all

theorem bcastRev_nil_right (l : List Nat) : bcastRev l [] = some l := by
  cases l <;> rfl

theorem bcastRev_nil_left (l : List Nat) : bcastRev [] l = some l := by
  cases l <;> rfl

theorem bdim_one_left (b : Nat) : bdim 1 b = some b := by
  unfold bdim
  by_cases h : 1 = b
  · subst h; rfl
  · simp [h]

theorem bdim_one_right (a : Nat) : bdim a 1 = some a := by
  rw [bdim_comm, bdim_one_left]

/-- `bdim` as a partial join: characterisation -/
theorem bdim_eq_some {a b d : Nat} : bdim a b = some d ↔ ((a = b ∧ d = a) ∨ (a = 1 ∧ d = b) ∨ (b = 1 ∧ d = a)) := by
  unfold bdim
  by_cases h1 : a = b
  · subst h1; simp; constructor
    · intro h; exact Or.inl h.symm
    · intro h; rcases h with h | h | h <;> omega
  · by_cases ha : a = 1
    · subst ha; simp [h1]; constructor
      · intro h; exact Or.inl h.symm
      · intro h; rcases h with h | h <;> omega
    · by_cases hb : b = 1
      · subst hb; simp [h1, ha]; constructor
        · intro h; omega
        · intro h; omega
      · simp [h1, ha, hb]

theorem bdim_assoc (a b c : Nat) :
    (bdim a b).bind (fun d => bdim d c) = (bdim b c).bind (fun d => bdim a d) := by
  by_cases ha : a = 1
  · subst ha; simp [bdim_one_left]
  · by_cases hc : c = 1
    · subst hc
      have : ∀ x, bdim x 1 = some x := fun x => by rw [bdim_comm, bdim_one_left]
      simp [this]
    · by_cases hb : b = 1
      · subst hb
        have : ∀ x, bdim x 1 = some x := fun x => by rw [bdim_comm, bdim_one_left]
        simp [this, bdim_one_left]
      · -- no ones: bdim x y = if x = y then some x else none
        have key : ∀ x y, x ≠ 1 → y ≠ 1 → bdim x y = if x = y then some x else none := by
          intro x y hx hy; unfold bdim; simp [hx, hy]
        rw [key a b ha hb, key b c hb hc]
        by_cases hab : a = b
        · subst hab
          by_cases hac : a = c
          · subst hac; simp [key a a ha ha]
          · simp [hac, key a c ha hc]
        · by_cases hbc : b = c
          · subst hbc; simp [hab, key a b ha hb]
          · simp [hab, hbc]

theorem bcastRev_comm (a b : List Nat) : bcastRev a b = bcastRev b a := by
  induction a generalizing b with
  | nil => simp [bcastRev, bcastRev_nil_right]
  | cons x xs ih =>
    cases b with
    | nil => simp [bcastRev]
    | cons y ys => simp only [bcastRev, bdim_comm x y, ih ys]

theorem bcastRev_length {a b r : List Nat} (h : bcastRev a b = some r) :
    r.length = max a.length b.length := by
  induction a generalizing b r with
  | nil => simp [bcastRev] at h; subst h; simp
  | cons x xs ih =>
    cases b with
    | nil => simp [bcastRev] at h; subst h; simp
    | cons y ys =>
      simp only [bcastRev] at h
      split at h
      · rename_i d r' _ hr
        cases h
        simp [ih hr]
      · cases h

/-- per-axis characterisation (NumPy's rule, counting axes from the last): the result's axis `i` is the
`bdim` of the operands' axes `i`, where an absent axis counts as 1; failure is failure on some axis -/
theorem bcastRev_spec (a b r : List Nat) (h : bcastRev a b = some r) (i : Nat) :
    bdim (a.getD i 1) (b.getD i 1) = some (r.getD i 1) := by
  induction a generalizing b r i with
  | nil =>
    simp [bcastRev] at h; subst h
    simp [bdim_one_left]
  | cons x xs ih =>
    cases b with
    | nil =>
      simp [bcastRev] at h; subst h
      simp [bdim_one_right]
    | cons y ys =>
      simp only [bcastRev] at h
      split at h
      · rename_i d r' hd hr
        cases h
        cases i with
        | zero => simpa using hd
        | succ j => simpa using ih ys r' hr j
      · cases h

theorem bcastRev_cons (x y : Nat) (xs ys : List Nat) :
    bcastRev (x :: xs) (y :: ys) = (bdim x y).bind fun d => (bcastRev xs ys).map (d :: ·) := by
  simp only [bcastRev]
  cases bdim x y <;> cases bcastRev xs ys <;> rfl

theorem bind_none' {α β : Type} (o : Option α) : (o.bind fun _ => (none : Option β)) = none := by
  cases o <;> rfl

theorem bcastRev_assoc (a b c : List Nat) :
    (bcastRev a b).bind (fun r => bcastRev r c) = (bcastRev b c).bind (fun r => bcastRev a r) := by
  induction a generalizing b c with
  | nil =>
    simp only [bcastRev_nil_left, Option.bind_some]
    cases bcastRev b c <;> simp [bcastRev_nil_left]
  | cons x xs ih =>
    cases b with
    | nil => simp only [bcastRev_nil_right, bcastRev_nil_left, Option.bind_some]
    | cons y ys =>
      cases c with
      | nil =>
        simp only [bcastRev_nil_right, Option.bind_some]
        cases bcastRev (x :: xs) (y :: ys) <;> simp [bcastRev_nil_right]
      | cons z zs =>
        have hd := bdim_assoc x y z
        have hr := ih ys zs
        simp only [bcastRev_cons]
        cases h1 : bdim x y with
        | none =>
          rw [h1] at hd
          simp only [Option.bind_none]
          cases h2 : bdim y z with
          | none => simp
          | some e =>
            rw [h2] at hd
            simp only [Option.bind_some] at hd ⊢
            cases h4 : bcastRev ys zs with
            | none => simp
            | some s => simp [bcastRev_cons, ← hd]
        | some d =>
          rw [h1] at hd
          simp only [Option.bind_some] at hd ⊢
          cases h3 : bcastRev xs ys with
          | none =>
            rw [h3] at hr
            simp only [Option.bind_none, Option.map_none] at hr ⊢
            cases h2 : bdim y z with
            | none => simp
            | some e =>
              cases h4 : bcastRev ys zs with
              | none => simp
              | some s =>
                rw [h4] at hr
                simp only [Option.bind_some] at hr
                simp [bcastRev_cons, ← hr, bind_none']
          | some r =>
            rw [h3] at hr
            simp only [Option.bind_some, Option.map_some] at hr ⊢
            rw [bcastRev_cons, hd, hr]
            cases h2 : bdim y z with
            | none => simp
            | some e =>
              cases h4 : bcastRev ys zs with
              | none => simp [bind_none']
              | some s => simp [bcastRev_cons]

/-- **shape_parity.**  The model's broadcasting rule is NumPy's: right-aligned, per axis equal-or-one
(`bcastRev_spec`), the result has the larger rank, the rule is commutative and associative, a 0-d operand is
neutral and every shape broadcasts with itself — for all shapes of all ranks (including empty axes). -/
theorem shape_parity :
    (∀ a b, broadcast a b = broadcast b a) ∧
    (∀ a b c, (broadcast a b).bind (fun r => broadcast r c) = (broadcast b c).bind (fun r => broadcast a r)) ∧
    (∀ a, broadcast a [] = some a ∧ broadcast [] a = some a) ∧
    (∀ a b r, broadcast a b = some r → r.length = max a.length b.length) ∧
    (∀ a b r i, broadcast a b = some r →
      bdim (a.reverse.getD i 1) (b.reverse.getD i 1) = some (r.reverse.getD i 1)) := by
  refine ⟨?_, ?_, ?_, ?_, ?_⟩
  · intro a b; simp only [broadcast, bcastRev_comm]
  · intro a b c
    have L : (broadcast a b).bind (fun r => broadcast r c) =
        ((bcastRev a.reverse b.reverse).bind (fun r => bcastRev r c.reverse)).map List.reverse := by
      simp only [broadcast]; cases bcastRev a.reverse b.reverse <;> simp
    have R : (broadcast b c).bind (fun r => broadcast a r) =
        ((bcastRev b.reverse c.reverse).bind (fun r => bcastRev a.reverse r)).map List.reverse := by
      simp only [broadcast]; cases bcastRev b.reverse c.reverse <;> simp
    rw [L, R, bcastRev_assoc]
  · intro a; simp [broadcast, bcastRev, bcastRev_nil_right]
  · intro a b r h
    simp only [broadcast, Option.map_eq_some_iff] at h
    obtain ⟨r', hr, rfl⟩ := h
    simpa using bcastRev_length hr
  · intro a b r i h
    simp only [broadcast, Option.map_eq_some_iff] at h
    obtain ⟨r', hr, rfl⟩ := h
    simpa using bcastRev_spec _ _ _ hr i

/-! ## the tracking switch -/

theorem gate_real_untracked (d : DT) (c : CArg) (hc : c ≠ .bad) : ∃ k, gate false (.real d) c = .ok k := by
  cases c <;> simp_all [gate]

/-- **tracking_invariance.**  The dtype (hence the kernel call: same cast operands, same keyword
arguments) of a forward result does not read `TRACK_GRAPH` — `mgUfuncDtype` has no such argument — and
whenever the tracked call succeeds the untracked call succeeds with the same dtype; they can only differ
by the tracked call *refusing* an integer result with `constant=False`. -/
theorem tracking_invariance (c : OpClass) (l : List Operand) (kw : Option DT) (carg : CArg) (ac : Bool) :
    (∀ d k, mgUfunc true c l kw carg ac = .ok (d, k) →
      ∃ k', mgUfunc false c l kw carg ac = .ok (d, k') ∧ mgUfuncDtype c l kw = .ok d) ∧
    (∀ d k, mgUfunc false c l kw carg ac = .ok (d, k) →
      (∃ k', mgUfunc true c l kw carg ac = .ok (d, k')) ∨ (carg = .f ∧ d.isFloat = false)) := by
  unfold mgUfunc
  cases hdt : mgUfuncDtype c l kw with
  | error e => simp
  | ok d0 =>
    cases carg <;> cases ac <;> cases hf : d0.isFloat <;>
      simp [gate, DTy.isFloat, DTy.isIntOrBool, hf, Except.map]

/-! ## Non-vacuity -/

-- the witness of `dtype_parity_neg`, spelled out
example : mgResultType ⟨.tensorNd, .f32⟩ ⟨.pyFloat, .f64⟩ = .f64 ∧
    npResultType ⟨.tensorNd, .f32⟩ ⟨.pyFloat, .f64⟩ = .f32 := by decide
-- int8 tensor + Python int; uint64 tensor + Python int (MyGrad: float64!)
example : mgResultType ⟨.tensorNd, .i8⟩ ⟨.pyInt, .i64⟩ = .i64 ∧ npResultType ⟨.tensorNd, .i8⟩ ⟨.pyInt, .i64⟩ = .i8 ∧
    mgResultType ⟨.tensorNd, .u64⟩ ⟨.pyInt, .i64⟩ = .f64 ∧ npResultType ⟨.tensorNd, .u64⟩ ⟨.pyInt, .i64⟩ = .u64 := by
  decide
-- non-excluded, non-trivial cells: float32 tensor with a float32 NumPy scalar; int8 with uint8 array
example : excluded ⟨.tensorNd, .f32⟩ ⟨.npScalar, .f32⟩ = false ∧ mgResultType ⟨.tensorNd, .f32⟩ ⟨.npScalar, .f32⟩ = .f32 ∧
    excluded ⟨.tensor0d, .i8⟩ ⟨.arrNd, .u8⟩ = false ∧ mgResultType ⟨.tensor0d, .i8⟩ ⟨.arrNd, .u8⟩ = .i16 := by decide
-- `dtype=uint8` with a Python int: NumPy succeeds, MyGrad's int64 0-d array is refused
example : eqE (ufuncSeen .arith [.strong .u8, .weakInt] (some .u8)) (.ok .u8) = true ∧
    eqE (ufuncSeen .arith [castSeen (.strong .u8), castSeen .weakInt] (some .u8)) (.error .typeError) = true := by
  decide
-- broadcasting
example : broadcast [2, 1, 3] [4, 1] = some [2, 4, 3] ∧ broadcast [2, 3] [4] = none ∧
    broadcast [0, 1] [1, 5] = some [0, 5] := by decide
-- tracking: an int result with constant=False is refused only while tracking
example : (mgUfunc true .arith [⟨.tensorNd, .i32⟩, ⟨.tensorNd, .i32⟩] none .f true).toOption = none ∧
    (mgUfunc false .arith [⟨.tensorNd, .i32⟩, ⟨.tensorNd, .i32⟩] none .f true).toOption = some (.i32, false) := by
  decide

end MG.C03
