import MG.Core.Ctx

/-!
# C15 — `no_autodiff` / `mem_guard_on` / `mem_guard_off` are scoped and exception-safe

Property theorems only.  Model: `MG/Core/Ctx.lean` (tied to `mygrad._utils.ContextTracker` by the
correspondence check `harness/props/c15.py`).
-/

namespace MG.C15
open MG.Ctx

/-- bookkeeping invariant: every key of a manager's `_depth_tracker` is below its `_depth` -/
def MWF (m : MState) : Prop := ∀ p ∈ m.tracker, p.1 < m.depth

def WF (s : State) : Prop := MWF s.na ∧ MWF s.gon ∧ MWF s.goff

theorem wf_init : WF init := by
  simp [WF, MWF, init]

theorem erase_of_fresh (k : Nat) (l : List (Nat × Bool)) (h : ∀ p ∈ l, p.1 < k) :
    erase k l = l := by
  induction l with
  | nil => rfl
  | cons p l ih =>
    obtain ⟨k', v⟩ := p
    have hk : k' < k := h (k', v) (List.mem_cons_self ..)
    have : ¬ k' = k := by omega
    simp only [erase, this, ite_false]
    rw [ih (fun p hp => h p (List.mem_cons_of_mem _ hp))]

theorem mem_erase {k : Nat} {l : List (Nat × Bool)} {p : Nat × Bool} (h : p ∈ erase k l) :
    p ∈ l ∧ p.1 ≠ k := by
  induction l with
  | nil => simp [erase] at h
  | cons q l ih =>
    obtain ⟨k', v⟩ := q
    simp only [erase] at h
    split at h
    · have := ih h
      exact ⟨List.mem_cons_of_mem _ this.1, this.2⟩
    · rcases List.mem_cons.mp h with h | h
      · subst h
        exact ⟨List.mem_cons_self .., by assumption⟩
      · have := ih h
        exact ⟨List.mem_cons_of_mem _ this.1, this.2⟩

theorem getM_setM_same (s : State) (m : Mgr) (x : MState) : getM (setM s m x) m = x := by
  cases m <;> rfl

theorem getM_setG (s : State) (m m' : Mgr) (v : Bool) : getM (setG s m v) m' = getM s m' := by
  cases m <;> cases m' <;> rfl

theorem getG_setG_same (s : State) (m : Mgr) (v : Bool) : getG (setG s m v) m = v := by
  cases m <;> rfl

theorem setM_getM (s : State) (m : Mgr) : setM s m (getM s m) = s := by
  cases m <;> rfl

/-- Entering `m` and immediately leaving it is the identity on the *whole* state (both
switches and all three managers' bookkeeping). -/
theorem exit_enter (s : State) (m : Mgr) (h : WF s) : exit (enter s m) m = some s := by
  obtain ⟨h1, h2, h3⟩ := h
  have hm : MWF (getM s m) := by cases m <;> assumption
  have he : erase (getM s m).depth (getM s m).tracker = (getM s m).tracker :=
    erase_of_fresh _ _ hm
  obtain ⟨tr, gd, na, gon, goff⟩ := s
  cases m <;> simp_all [exit, enter, getM, setM, getG, setG, lookup, erase]

theorem wf_enter (s : State) (m : Mgr) (h : WF s) : WF (enter s m) := by
  obtain ⟨h1, h2, h3⟩ := h
  have key : ∀ ms : MState, MWF ms → ∀ b, MWF ⟨ms.depth + 1, (ms.depth, b) :: erase ms.depth ms.tracker⟩ := by
    intro ms hms b p hp
    rcases List.mem_cons.mp hp with rfl | hp
    · exact Nat.lt_succ_self _
    · exact Nat.lt_succ_of_lt (hms p (mem_erase hp).1)
  cases m
  · exact ⟨key _ h1 _, h2, h3⟩
  · exact ⟨h1, key _ h2 _, h3⟩
  · exact ⟨h1, h2, key _ h3 _⟩

/-! ## Full restoration for scopes that contain no `turn_memory_guarding_*` call -/

mutual
theorem runItem_turnFree (i : Item) (s : State) (h : WF s) (ht : i.turnFree = true) :
    ∃ exc, runItem s i = some (s, exc) := by
  match i with
  | .scope m body =>
    have hb : blockTurnFree body = true := by simpa [Item.turnFree] using ht
    obtain ⟨exc, hrun⟩ := runBlock_turnFree body (enter s m) (wf_enter s m h) hb
    exact ⟨exc, by simp [runItem, hrun, exit_enter s m h]⟩
  | .turn v => simp [Item.turnFree] at ht
  | .raise => exact ⟨true, rfl⟩
  | .nop => exact ⟨false, rfl⟩
theorem runBlock_turnFree (b : List Item) (s : State) (h : WF s) (ht : blockTurnFree b = true) :
    ∃ exc, runBlock s b = some (s, exc) := by
  match b with
  | [] => exact ⟨false, rfl⟩
  | i :: is =>
    have ht' : i.turnFree = true ∧ blockTurnFree is = true := by
      simpa [blockTurnFree] using ht
    obtain ⟨exc, hi⟩ := runItem_turnFree i s h ht'.1
    cases exc with
    | true => exact ⟨true, by simp [runBlock, hi]⟩
    | false =>
      obtain ⟨exc', hb⟩ := runBlock_turnFree is s h ht'.2
      exact ⟨exc', by simp [runBlock, hi, hb]⟩
end

/-- **exit_restores_entry.**  For every manager `m`, every well-nested body over the three
managers (context-manager or decorator form, re-entrant, any depth) and whether or not the body
raises, leaving the scope restores exactly the state in force on entry — both module switches
and all depth bookkeeping — and never fails with a `KeyError`. -/
theorem exit_restores_entry (m : Mgr) (body : List Item) (s : State) (h : WF s)
    (ht : blockTurnFree body = true) :
    ∃ exc, runItem s (.scope m body) = some (s, exc) :=
  runItem_turnFree (.scope m body) s h (by simpa [Item.turnFree] using ht)

/-! ## With `turn_memory_guarding_*` calls inside: bookkeeping and the scope's own switch -/

def bk (s : State) : MState × MState × MState := (s.na, s.gon, s.goff)

theorem wf_of_bk {s s' : State} (h : WF s) (e : bk s' = bk s) : WF s' := by
  simp only [bk, Prod.mk.injEq] at e
  obtain ⟨e1, e2, e3⟩ := e
  unfold WF
  rw [e1, e2, e3]
  exact h

theorem getM_of_bk {s s' : State} (e : bk s' = bk s) (m : Mgr) : getM s' m = getM s m := by
  simp only [bk, Prod.mk.injEq] at e
  obtain ⟨e1, e2, e3⟩ := e
  cases m <;> simp [getM, *]

/-- leaving a scope after an arbitrary bookkeeping-preserving body -/
theorem exit_after_body (s s2 : State) (m : Mgr) (h : WF s) (e : bk s2 = bk (enter s m)) :
    ∃ s3, exit s2 m = some s3 ∧ bk s3 = bk s ∧ getG s3 m = getG s m ∧
      (∀ m', getG (setG s2 m (getG s m)) m' = getG s3 m') := by
  obtain ⟨h1, h2, h3⟩ := h
  have hm : MWF (getM s m) := by cases m <;> assumption
  have he : erase (getM s m).depth (getM s m).tracker = (getM s m).tracker :=
    erase_of_fresh _ _ hm
  have hM := getM_of_bk e m
  simp only [bk, Prod.mk.injEq] at e
  obtain ⟨e1, e2, e3⟩ := e
  obtain ⟨tr, gd, na, gon, goff⟩ := s
  obtain ⟨tr2, gd2, na2, gon2, goff2⟩ := s2
  cases m <;>
    simp_all [exit, enter, getM, setM, getG, setG, lookup, erase, bk] <;>
    (intro m'; cases m' <;> rfl)

mutual
theorem runItem_bk (i : Item) (s : State) (h : WF s) :
    ∃ s' exc, runItem s i = some (s', exc) ∧ bk s' = bk s := by
  match i with
  | .scope m body =>
    obtain ⟨s2, exc, hrun, hbk⟩ := runBlock_bk body (enter s m) (wf_enter s m h)
    obtain ⟨s3, hex, hbk3, _, _⟩ := exit_after_body s s2 m h hbk
    exact ⟨s3, exc, by simp [runItem, hrun, hex], hbk3⟩
  | .turn v => exact ⟨turn s v, false, rfl, rfl⟩
  | .raise => exact ⟨s, true, rfl, rfl⟩
  | .nop => exact ⟨s, false, rfl, rfl⟩
theorem runBlock_bk (b : List Item) (s : State) (h : WF s) :
    ∃ s' exc, runBlock s b = some (s', exc) ∧ bk s' = bk s := by
  match b with
  | [] => exact ⟨s, false, rfl, rfl⟩
  | i :: is =>
    obtain ⟨s1, exc, hi, hbk1⟩ := runItem_bk i s h
    cases exc with
    | true => exact ⟨s1, true, by simp [runBlock, hi], hbk1⟩
    | false =>
      obtain ⟨s2, exc', hb, hbk2⟩ := runBlock_bk is s1 (wf_of_bk h hbk1)
      exact ⟨s2, exc', by simp [runBlock, hi, hb], hbk2.trans hbk1⟩
end

/-- **scope_restores_own_switch.**  Even when the body calls `turn_memory_guarding_on/off` (or is
any other well-nested word), leaving a scope (i) never fails, (ii) restores the switch that the
scope's manager controls to its value on entry, and (iii) leaves the depth bookkeeping of all
three managers exactly as on entry — so nothing leaks into later uses of the managers. -/
theorem scope_restores_own_switch (m : Mgr) (body : List Item) (s : State) (h : WF s) :
    ∃ s' exc, runItem s (.scope m body) = some (s', exc) ∧ getG s' m = getG s m ∧ bk s' = bk s := by
  obtain ⟨s2, exc, hrun, hbk⟩ := runBlock_bk body (enter s m) (wf_enter s m h)
  obtain ⟨s3, hex, hbk3, hg, _⟩ := exit_after_body s s2 m h hbk
  exact ⟨s3, exc, by simp [runItem, hrun, hex], hg, hbk3⟩

/-- every state reachable from the initial one by well-nested words satisfies the invariant,
so the theorems above apply to every reachable state -/
theorem wf_reachable (b : List Item) (s' : State) (exc : Bool) (h : runBlock init b = some (s', exc)) :
    WF s' := by
  obtain ⟨s2, exc2, h2, hbk⟩ := runBlock_bk b init wf_init
  rw [h2] at h
  cases h
  exact wf_of_bk wf_init hbk

/-- **turn_sets_default.** Outside any scope the call sets the process-wide value, and it stays
in force across any later turn-free well-nested word. -/
theorem turn_sets_default (s : State) (v : Bool) (h : WF s) (b : List Item)
    (ht : blockTurnFree b = true) :
    ∃ exc, runBlock (turn s v) b = some (turn s v, exc) ∧ (turn s v).guard = v :=
  let ⟨exc, he⟩ := runBlock_turnFree b (turn s v) (by exact h) ht
  ⟨exc, he, rfl⟩

/-! ## Non-vacuity -/

/-- a concrete nested word: re-entrant `mem_guard_off`, a `no_autodiff` decorator that raises -/
def sample : List Item :=
  [.scope .guardOff [.scope .guardOn [.scope .guardOff [.nop]], .scope .noAutodiff [.raise, .nop]]]

example : WF init ∧ blockTurnFree sample = true ∧
    runBlock init sample = some (init, true) := by
  refine ⟨wf_init, by decide, by decide⟩

/-- the hypotheses of `exit_restores_entry` are met in a non-initial reachable state -/
example : WF (enter (turn init false) .guardOn) :=
  wf_enter _ _ (by simp [WF, MWF, init, turn])

end MG.C15
