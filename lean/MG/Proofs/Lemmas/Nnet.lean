import MG.Core.Nnet
/-!
Helper lemmas for C16 (core Lean only): per-axis window arithmetic, `dot`/`cstrides`/`InBox` algebra,
unfolding of the guards of `sliding_window_view`, `conv_nd`, `max_pool`.
-/
namespace MG.Nnet

/-! ## per-axis arithmetic -/
theorem axis_in {x w s d g k : Int} (hs : 0 < s) (hd : 0 < d)
    (hg0 : 0 ≤ g) (hg : g < (x - ext w d) / s + 1) (hk0 : 0 ≤ k) (hk : k < w) :
    0 ≤ g * s + k * d ∧ g * s + k * d < x := by
  have h1 : g * s ≤ (x - ext w d) / s * s := Int.mul_le_mul_of_nonneg_right (by omega) (by omega)
  have h2 : (x - ext w d) / s * s ≤ x - ext w d := Int.ediv_mul_le _ (by omega)
  have h3 : k * d ≤ (w - 1) * d := Int.mul_le_mul_of_nonneg_right (by omega) (by omega)
  have h4 : 0 ≤ g * s := Int.mul_nonneg hg0 (by omega)
  have h5 : 0 ≤ k * d := Int.mul_nonneg hk0 (by omega)
  unfold ext at *
  omega

theorem grid_iff {t s g : Int} (hs : 0 < s) : g < t / s + 1 ↔ g * s ≤ t := by
  rw [Int.lt_add_one_iff, Int.le_ediv_iff_mul_le hs]

theorem tile_iff {t s : Int} (hs : 0 < s) : (t % s = 0 ∧ 0 < t / s + 1) ↔ (0 ≤ t ∧ s ∣ t) := by
  constructor
  · rintro ⟨h1, h2⟩
    have hd : s ∣ t := Int.dvd_of_emod_eq_zero h1
    refine ⟨?_, hd⟩
    have := Int.mul_ediv_cancel' hd
    have h3 : 0 ≤ s * (t / s) := Int.mul_nonneg (by omega) (by omega)
    omega
  · rintro ⟨h1, h2⟩
    refine ⟨Int.emod_eq_zero_of_dvd h2, ?_⟩
    have := Int.ediv_nonneg h1 (Int.le_of_lt hs)
    omega


/-! ## multi-indices, offsets -/

/-- `idx` is a valid multi-index of an array of shape `sh` -/
def InBox : List Int → List Int → Prop
  | [], [] => True
  | i :: is, n :: ns => (0 ≤ i ∧ i < n) ∧ InBox is ns
  | _, _ => False

instance decInBox : (a b : List Int) → Decidable (InBox a b)
  | [], [] => isTrue trivial
  | i :: is, n :: ns =>
    have := decInBox is ns
    (inferInstance : Decidable ((0 ≤ i ∧ i < n) ∧ InBox is ns))
  | [], _ :: _ => isFalse (fun h => h)
  | _ :: _, [] => isFalse (fun h => h)

theorem InBox.length : ∀ {a b : List Int}, InBox a b → a.length = b.length
  | [], [], _ => rfl
  | _ :: is, _ :: ns, h => by simp [InBox.length (a := is) (b := ns) h.2]
  | [], _ :: _, h => by simp [InBox] at h
  | _ :: _, [], h => by simp [InBox] at h

theorem inBox_append : ∀ {a b c d : List Int}, a.length = b.length →
    (InBox (a ++ c) (b ++ d) ↔ InBox a b ∧ InBox c d)
  | [], [], c, d, _ => by simp [InBox]
  | i :: is, n :: ns, c, d, h => by
    have h' : is.length = ns.length := by simpa using h
    simp [InBox, inBox_append (c := c) (d := d) h', and_assoc]
  | [], _ :: _, _, _, h => by simp at h
  | _ :: _, [], _, _, h => by simp at h

theorem dot_append : ∀ {a c : List Int} (b d : List Int), a.length = c.length →
    dot (a ++ b) (c ++ d) = dot a c + dot b d
  | [], [], b, d, _ => by simp [dot]
  | i :: is, s :: ss, b, d, h => by
    have h' : is.length = ss.length := by simpa using h
    simp [dot, dot_append b d h', Int.add_assoc]
  | [], _ :: _, _, _, h => by simp at h
  | _ :: _, [], _, _, h => by simp at h

theorem dot_map_mul (nb : Int) : ∀ (a l : List Int), dot a (l.map (nb * ·)) = nb * dot a l
  | [], _ => by simp [dot]
  | _ :: _, [] => by simp [dot]
  | i :: is, s :: ss => by
    simp only [List.map, dot, dot_map_mul nb is ss]
    grind

theorem length_cstrides : ∀ (l : List Int), (cstrides l).length = l.length
  | [] => rfl
  | _ :: xs => by simp [cstrides, length_cstrides xs]

/-- the offset of a valid multi-index of a C-contiguous array lies inside the array -/
theorem dot_cstrides_bound : ∀ {idx sh : List Int}, InBox idx sh →
    0 ≤ dot idx (cstrides sh) ∧ dot idx (cstrides sh) < prod sh
  | [], [], _ => by simp [dot, prod]
  | i :: is, n :: ns, h => by
    obtain ⟨⟨h0, h1⟩, h2⟩ := h
    obtain ⟨r0, r1⟩ := dot_cstrides_bound h2
    simp only [dot, cstrides, prod]
    have hP : 0 ≤ prod ns := by omega
    have e1 : i * prod ns ≤ (n - 1) * prod ns := Int.mul_le_mul_of_nonneg_right (by omega) hP
    have e2 : (n - 1) * prod ns = n * prod ns - prod ns := by grind
    have e3 : 0 ≤ i * prod ns := Int.mul_nonneg h0 hP
    omega
  | [], _ :: _, h => by simp [InBox] at h
  | _ :: _, [], h => by simp [InBox] at h

theorem mem_indices : ∀ {sh idx : List Int}, idx ∈ indices sh → InBox idx sh
  | [], idx, h => by
    simp [indices] at h
    subst h
    trivial
  | n :: ns, idx, h => by
    simp only [indices, List.mem_flatMap, List.mem_range, List.mem_map] at h
    obtain ⟨i, hi, is, his, rfl⟩ := h
    exact ⟨⟨by omega, by omega⟩, mem_indices his⟩

theorem dot_pos : ∀ (axes : List Ax) (G K sc : List Int), G.length = axes.length →
    K.length = axes.length → sc.length = axes.length →
    dot G (List.zipWith (· * ·) sc (axes.map (·.s))) + dot K (List.zipWith (· * ·) sc (axes.map (·.d)))
      = dot (pos G K axes) sc
  | [], _, _, _, _, _, _ => by simp [dot, pos]
  | a :: as, g :: gs, k :: ks, c :: cs, hG, hK, hc => by
    have ih := dot_pos as gs ks cs (by simpa using hG) (by simpa using hK) (by simpa using hc)
    simp only [List.map, List.zipWith, dot, pos]
    grind
  | _ :: _, [], _, _, hG, _, _ => by simp at hG
  | _ :: _, _ :: _, [], _, _, hK, _ => by simp at hK
  | _ :: _, _ :: _, _ :: _, [], _, _, hc => by simp at hc

theorem pos_length : ∀ (axes : List Ax) (G K : List Int), G.length = axes.length →
    K.length = axes.length → (pos G K axes).length = axes.length
  | [], _, _, _, _ => by simp [pos]
  | a :: as, g :: gs, k :: ks, hG, hK => by
    simp [pos, pos_length as gs ks (by simpa using hG) (by simpa using hK)]
  | _ :: _, [], _, hG, _ => by simp at hG
  | _ :: _, _ :: _, [], _, hK => by simp at hK

/-! ## guards -/

def AxOk (a : Ax) : Prop := 0 < a.w ∧ 0 < a.s ∧ 0 < a.d ∧ a.w * a.d ≤ a.x

theorem w_le_wd {w d : Int} (hw : 0 < w) (hd : 0 < d) : w ≤ w * d := by
  have := Int.mul_le_mul_of_nonneg_left (show (1:Int) ≤ d by omega) (Int.le_of_lt hw)
  omega

theorem swvGuard_none_iff (batch : List Int) (axes : List Ax) :
    swvGuard batch axes = none ↔ axes ≠ [] ∧ ∀ a ∈ axes, AxOk a := by
  unfold swvGuard
  constructor
  · intro h
    repeat' split at h
    all_goals first | contradiction | skip
    rename_i h1 h2 h3 h4 h5 h6
    simp only [Bool.not_eq_true', Bool.not_eq_false, List.all_eq_true, List.any_eq_true, decide_eq_true_eq,
      List.isEmpty_iff] at h1 h2 h3 h4 h5 h6
    refine ⟨h6, fun a ha => ⟨?_, ?_, ?_, ?_⟩⟩
    · simpa using h1 a ha
    · simpa using h2 a ha
    · simpa using h4 a ha
    · have := h5
      simp only [not_exists, not_and, Int.not_lt] at this
      exact this a ha
  · rintro ⟨hne, h⟩
    have e1 : (axes.all fun a => decide (0 < a.w)) = true := by
      simp only [List.all_eq_true, decide_eq_true_eq]; exact fun a ha => (h a ha).1
    have e2 : (axes.all fun a => decide (0 < a.s)) = true := by
      simp only [List.all_eq_true, decide_eq_true_eq]; exact fun a ha => (h a ha).2.1
    have e3 : (axes.any fun a => decide (a.x < a.w)) = false := by
      simp only [List.any_eq_false, decide_eq_true_eq, Int.not_lt]
      intro a ha
      obtain ⟨hw, _, hd, hf⟩ := h a ha
      have := w_le_wd hw hd
      omega
    have e4 : (axes.all fun a => decide (0 < a.d)) = true := by
      simp only [List.all_eq_true, decide_eq_true_eq]; exact fun a ha => (h a ha).2.2.1
    have e5 : (axes.any fun a => decide (a.x < a.w * a.d)) = false := by
      simp only [List.any_eq_false, decide_eq_true_eq, Int.not_lt]
      exact fun a ha => (h a ha).2.2.2
    have e6 : axes.isEmpty = false := by
      cases axes with
      | nil => exact absurd rfl hne
      | cons _ _ => rfl
    simp [e1, e2, e3, e4, e5, e6]

/-- accepted ⇔ returned a value -/
def accepted {α : Type} : Except Err α → Bool
  | .ok _ => true
  | .error _ => false

theorem accepted_iff {α : Type} (r : Except Err α) : accepted r = true ↔ ∃ v, r = .ok v := by
  cases r <;> simp [accepted]

/-- what `swv` returns when the guards pass -/
def swvResult (batch : List Int) (axes : List Ax) : View :=
  let cs := cstrides (batch ++ axes.map (·.x))
  { shape := axes.map grid ++ batch ++ axes.map (·.w)
    strides := List.zipWith (· * ·) (cs.drop batch.length) (axes.map (·.s)) ++
      (cs.take batch.length ++ List.zipWith (· * ·) (cs.drop batch.length) (axes.map (·.d)))
    writeable := false }

theorem swv_ok {batch : List Int} {axes : List Ax} {v : View}
    (h : swv batch axes = .ok v) : swvGuard batch axes = none ∧ v = swvResult batch axes := by
  unfold swv at h
  split at h
  · cases h
  · rename_i hg
    refine ⟨hg, ?_⟩
    cases h
    rfl

theorem swv_of_guard {batch : List Int} {axes : List Ax}
    (h : swvGuard batch axes = none) : swv batch axes = .ok (swvResult batch axes) := by
  unfold swv
  rw [h]
  rfl

theorem swv_accepted_iff (batch : List Int) (axes : List Ax) :
    accepted (swv batch axes) = true ↔ swvGuard batch axes = none := by
  rw [accepted_iff]
  constructor
  · rintro ⟨v, h⟩
    exact (swv_ok h).1
  · intro h
    exact ⟨_, swv_of_guard h⟩

/-- the offset a view index `(G, N, K)` addresses is the row-major offset of
`arr[N, G*step + K*dilation]` -/
theorem swvResult_offset (batch : List Int) (axes : List Ax) (G N K : List Int)
    (hG : G.length = axes.length) (hN : N.length = batch.length) (hK : K.length = axes.length) :
    dot (G ++ N ++ K) (swvResult batch axes).strides =
      dot (N ++ pos G K axes) (cstrides (batch ++ axes.map (·.x))) := by
  simp only [swvResult]
  have hcs : (cstrides (batch ++ axes.map (·.x))).length = batch.length + axes.length := by
    simp [length_cstrides]
  have hsc : ((cstrides (batch ++ axes.map (·.x))).drop batch.length).length = axes.length := by
    simp [hcs]
  have hfr : ((cstrides (batch ++ axes.map (·.x))).take batch.length).length = batch.length := by
    simp [hcs]
  rw [List.append_assoc, dot_append _ _ (by simp [hsc, hG]), dot_append _ _ (by rw [hfr, hN])]
  have hp := dot_pos axes G K _ hG hK hsc
  have hsplit : dot (N ++ pos G K axes) (cstrides (batch ++ axes.map (·.x))) =
      dot N ((cstrides (batch ++ axes.map (·.x))).take batch.length) +
        dot (pos G K axes) ((cstrides (batch ++ axes.map (·.x))).drop batch.length) := by
    rw [← dot_append _ _ (by rw [hfr, hN]), List.take_append_drop]
  rw [hsplit]
  omega

/-- the sequence-level front end accepts iff the window entries are positive, the three sequences have
the length of `window_shape` (at most `arr.ndim`), and the per-axis call is accepted -/
theorem swvSeq_accepted_iff (shape window step : List Int) (dil : Option (List Int)) :
    accepted (swvSeq shape window step dil) = true ↔
      (∀ w ∈ window, 0 < w) ∧ window.length ≤ shape.length ∧ step.length = window.length ∧
      (dil.getD (window.map fun _ => 1)).length = window.length ∧
      accepted (swv (shape.take (shape.length - window.length))
        (mkAxes (shape.drop (shape.length - window.length)) window step
          (dil.getD (window.map fun _ => 1)))) = true := by
  unfold swvSeq
  by_cases h1 : (window.all fun w => decide (0 < w)) = true
  · have h1' : ∀ w ∈ window, 0 < w := by simpa using h1
    by_cases h2 : shape.length < window.length
    · simp [h1, h2, accepted]; omega
    · by_cases h3 : step.length = window.length
      · by_cases h4 : (dil.getD (window.map fun _ => 1)).length = window.length
        · simp only [h1, h2, h3, h4]
          simp only [Bool.not_true, Bool.false_eq_true, if_false, ne_eq, not_true_eq_false]
          constructor
          · intro h; exact ⟨h1', by omega, trivial, trivial, h⟩
          · intro h; exact h.2.2.2.2
        · simp [h1, h2, h3, h4, accepted]
      · simp [h1, h2, h3, accepted]
  · have : ¬ ∀ w ∈ window, 0 < w := by simpa using h1
    simp [h1, accepted, this]

theorem inBox_split : ∀ {A B idx : List Int}, InBox idx (A ++ B) →
    InBox (idx.take A.length) A ∧ InBox (idx.drop A.length) B
  | [], B, idx, h => by simpa [InBox] using h
  | a :: A, B, [], h => by simp [InBox] at h
  | a :: A, B, i :: is, h => by
    obtain ⟨h1, h2⟩ := h
    have := inBox_split (A := A) (B := B) h2
    exact ⟨⟨h1, this.1⟩, this.2⟩

theorem inBox_pos : ∀ (axes : List Ax) (G K : List Int), (∀ a ∈ axes, 0 < a.s ∧ 0 < a.d) →
    InBox G (axes.map grid) → InBox K (axes.map (·.w)) → InBox (pos G K axes) (axes.map (·.x))
  | [], [], [], _, _, _ => by simp [pos, InBox]
  | a :: as, g :: gs, k :: ks, h, hG, hK => by
    obtain ⟨⟨g0, g1⟩, hG'⟩ := hG
    obtain ⟨⟨k0, k1⟩, hK'⟩ := hK
    have ha := h a (List.mem_cons_self ..)
    exact ⟨axis_in ha.1 ha.2 g0 g1 k0 k1,
      inBox_pos as gs ks (fun b hb => h b (List.mem_cons_of_mem _ hb)) hG' hK'⟩
  | [], [], _ :: _, _, _, hK => by simp [InBox] at hK
  | [], _ :: _, _, _, hG, _ => by simp [InBox] at hG
  | _ :: _, [], _, _, hG, _ => by simp [InBox] at hG
  | _ :: _, _ :: _, [], _, _, hK => by simp [InBox] at hK

/-- every index of the view addresses a valid index of `arr` -/
theorem swvResult_inBox (batch : List Int) (axes : List Ax)
    (hax : ∀ a ∈ axes, 0 < a.s ∧ 0 < a.d) (idx : List Int)
    (hi : InBox idx (swvResult batch axes).shape) :
    ∃ G N K, idx = G ++ N ++ K ∧ G.length = axes.length ∧ N.length = batch.length ∧
      K.length = axes.length ∧ InBox (N ++ pos G K axes) (batch ++ axes.map (·.x)) := by
  simp only [swvResult, List.append_assoc] at hi
  obtain ⟨hG, hrest⟩ := inBox_split hi
  obtain ⟨hN, hK⟩ := inBox_split hrest
  refine ⟨idx.take (axes.map grid).length,
    (idx.drop (axes.map grid).length).take batch.length,
    (idx.drop (axes.map grid).length).drop batch.length, ?_, ?_, ?_, ?_, ?_⟩
  · rw [List.append_assoc, List.take_append_drop, List.take_append_drop]
  · simpa using hG.length
  · simpa using hN.length
  · simpa using hK.length
  · exact (inBox_append (by simpa using hN.length)).2 ⟨hN, inBox_pos axes _ _ hax hG hK⟩

theorem prod_append : ∀ (a b : List Int), prod (a ++ b) = prod a * prod b
  | [], b => by simp [prod]
  | x :: a, b => by simp [prod, prod_append a b, Int.mul_assoc]

/-! ## `conv_nd` -/

/-- the documented validity of one convolved axis: positive stride/dilation, non-negative padding,
every placement inside the padded data (`(w-1)d+1 ≤ x+2p`) and the placements tile it exactly -/
def CAxTile (a : CAx) : Prop :=
  1 ≤ a.d ∧ 0 ≤ a.p ∧ 1 ≤ a.s ∧ ext a.w a.d ≤ a.x + 2 * a.p ∧ a.s ∣ (a.x + 2 * a.p - ext a.w a.d)

theorem CAx.tiles_iff (a : CAx) (hs : 1 ≤ a.s) :
    a.tiles = true ↔ ext a.w a.d ≤ a.x + 2 * a.p ∧ a.s ∣ (a.x + 2 * a.p - ext a.w a.d) := by
  simp only [CAx.tiles, Bool.and_eq_true, decide_eq_true_eq]
  rw [tile_iff (by omega)]
  constructor <;> rintro ⟨h1, h2⟩ <;> exact ⟨by omega, h2⟩

theorem convGuard_none_iff (c cw : Int) (axes : List CAx) :
    convGuard c cw axes = none ↔ axes ≠ [] ∧ c = cw ∧ ∀ a ∈ axes, CAxTile a := by
  unfold convGuard
  constructor
  · intro h
    repeat' split at h
    all_goals first | contradiction | skip
    rename_i h1 h2 h3 h4 h5 h6
    simp only [Bool.not_eq_true', Bool.not_eq_false, List.all_eq_true, decide_eq_true_eq,
      List.isEmpty_iff, ne_eq, Decidable.not_not] at h1 h2 h3 h4 h5 h6
    refine ⟨h1, h2, fun a ha => ?_⟩
    have hs := h5 a ha
    have ht := (CAx.tiles_iff a hs).1 (h6 a ha)
    exact ⟨h3 a ha, h4 a ha, hs, ht.1, ht.2⟩
  · rintro ⟨hne, hc, h⟩
    have e1 : axes.isEmpty = false := by
      cases axes with
      | nil => exact absurd rfl hne
      | cons _ _ => rfl
    have e3 : (axes.all fun a => decide (1 ≤ a.d)) = true := by
      simp only [List.all_eq_true, decide_eq_true_eq]; exact fun a ha => (h a ha).1
    have e4 : (axes.all fun a => decide (0 ≤ a.p)) = true := by
      simp only [List.all_eq_true, decide_eq_true_eq]; exact fun a ha => (h a ha).2.1
    have e5 : (axes.all fun a => decide (1 ≤ a.s)) = true := by
      simp only [List.all_eq_true, decide_eq_true_eq]; exact fun a ha => (h a ha).2.2.1
    have e6 : axes.all CAx.tiles = true := by
      simp only [List.all_eq_true]
      exact fun a ha => (CAx.tiles_iff a (h a ha).2.2.1).2 ⟨(h a ha).2.2.2.1, (h a ha).2.2.2.2⟩
    simp [e1, hc, e3, e4, e5, e6]

theorem convView_ok {n c cw : Int} {axes : List CAx} {v : View}
    (h : convView n c cw axes = .ok v) :
    convGuard c cw axes = none ∧ swv [n, c] (axes.map CAx.padded) = .ok v := by
  unfold convView at h
  split at h
  · cases h
  · rename_i hg
    exact ⟨hg, h⟩

theorem convView_accepted_iff (n c cw : Int) (axes : List CAx) :
    accepted (convView n c cw axes) = true ↔
      axes ≠ [] ∧ c = cw ∧ ∀ a ∈ axes, 0 < a.w ∧ CAxTile a ∧ a.w * a.d ≤ a.x + 2 * a.p := by
  rw [accepted_iff]
  constructor
  · rintro ⟨v, h⟩
    obtain ⟨hg, hs⟩ := convView_ok h
    obtain ⟨hne, hc, ht⟩ := (convGuard_none_iff _ _ _).1 hg
    obtain ⟨_, hax⟩ := (swvGuard_none_iff _ _).1 (swv_ok hs).1
    refine ⟨hne, hc, fun a ha => ?_⟩
    have := hax a.padded (List.mem_map_of_mem ha)
    exact ⟨this.1, ht a ha, this.2.2.2⟩
  · rintro ⟨hne, hc, h⟩
    have hg : convGuard c cw axes = none :=
      (convGuard_none_iff _ _ _).2 ⟨hne, hc, fun a ha => (h a ha).2.1⟩
    have hs : swvGuard [n, c] (axes.map CAx.padded) = none := by
      refine (swvGuard_none_iff _ _).2 ⟨by simpa using hne, fun a' ha' => ?_⟩
      obtain ⟨a, ha, rfl⟩ := List.mem_map.1 ha'
      obtain ⟨hw, ht, hf⟩ := h a ha
      exact ⟨hw, by have := ht.2.2.1; simp only [CAx.padded]; omega,
        by have := ht.1; simp only [CAx.padded]; omega, hf⟩
    refine ⟨swvResult [n, c] (axes.map CAx.padded), ?_⟩
    unfold convView
    rw [hg]
    exact swv_of_guard hs

theorem length_of_mem_indices {sh idx : List Int} (h : idx ∈ indices sh) : idx.length = sh.length :=
  (mem_indices h).length

/-- pointwise: the window-view contraction reads exactly the elements the naive formula names -/
theorem conv_get_eq {n c cw : Int} {axes : List CAx} {v : View}
    (h : convView n c cw axes = .ok v) (xmem wmem : Mem)
    (n' f : Int) (g : List Int) (hg : g.length = axes.length) :
    convImplGet xmem v wmem c (axes.map (·.w)) (n' :: f :: g) =
      convNaiveGet xmem n c axes wmem (axes.map (·.w)) (n' :: f :: g) := by
  obtain ⟨_, hs⟩ := convView_ok h
  obtain ⟨_, rfl⟩ := swv_ok hs
  simp only [convImplGet, convTdot, convNaiveGet]
  congr 1
  apply List.map_congr_left
  intro ck hck
  have hlen := length_of_mem_indices hck
  cases ck with
  | nil => simp at hlen
  | cons c' k =>
    have hk : k.length = axes.length := by simpa using hlen
    simp only
    congr 1
    simp only [viewGet, arrGet]
    congr 1
    have := swvResult_offset [n, c] (axes.map CAx.padded) g [n', c'] k
      (by simpa using hg) rfl (by simpa using hk)
    simp only [List.append_assoc, List.cons_append, List.nil_append, List.map_map] at this
    rw [this]
    rfl

/-! ## `max_pool` -/

/-- the documented validity of one pooled axis: the window fits and the placements tile the axis exactly -/
def PAxTile (a : PAx) : Prop := 0 < a.w ∧ 1 ≤ a.s ∧ a.w ≤ a.x ∧ a.s ∣ (a.x - a.w)

theorem PAx.tiles_iff (a : PAx) (hs : 1 ≤ a.s) :
    a.tiles = true ↔ a.w ≤ a.x ∧ a.s ∣ (a.x - a.w) := by
  simp only [PAx.tiles, Bool.and_eq_true, decide_eq_true_eq]
  rw [tile_iff (by omega)]
  constructor <;> rintro ⟨h1, h2⟩ <;> exact ⟨by omega, h2⟩

theorem poolGuard_none_iff (axes : List PAx) :
    poolGuard axes = none ↔ ∀ a ∈ axes, PAxTile a := by
  unfold poolGuard
  constructor
  · intro h
    repeat' split at h
    all_goals first | contradiction | skip
    rename_i h1 h2 h3
    simp only [Bool.not_eq_true', Bool.not_eq_false, List.all_eq_true, decide_eq_true_eq] at h1 h2 h3
    intro a ha
    have ht := (PAx.tiles_iff a (h2 a ha)).1 (h3 a ha)
    exact ⟨h1 a ha, h2 a ha, ht.1, ht.2⟩
  · intro h
    have e1 : (axes.all fun a => decide (0 < a.w)) = true := by
      simp only [List.all_eq_true, decide_eq_true_eq]; exact fun a ha => (h a ha).1
    have e2 : (axes.all fun a => decide (1 ≤ a.s)) = true := by
      simp only [List.all_eq_true, decide_eq_true_eq]; exact fun a ha => (h a ha).2.1
    have e3 : axes.all PAx.tiles = true := by
      simp only [List.all_eq_true]
      exact fun a ha => (PAx.tiles_iff a (h a ha).2.1).2 ⟨(h a ha).2.2.1, (h a ha).2.2.2⟩
    simp [e1, e2, e3]

theorem poolView_ok {batch : List Int} {axes : List PAx} {v : View}
    (h : poolView batch axes = .ok v) :
    poolGuard axes = none ∧ swv batch (axes.map PAx.toAx) = .ok v := by
  unfold poolView at h
  split at h
  · cases h
  · rename_i hg
    exact ⟨hg, h⟩

theorem poolView_accepted_iff (batch : List Int) (axes : List PAx) :
    accepted (poolView batch axes) = true ↔ axes ≠ [] ∧ ∀ a ∈ axes, PAxTile a := by
  rw [accepted_iff]
  constructor
  · rintro ⟨v, h⟩
    obtain ⟨hg, hs⟩ := poolView_ok h
    obtain ⟨hne, _⟩ := (swvGuard_none_iff _ _).1 (swv_ok hs).1
    exact ⟨by simpa using hne, (poolGuard_none_iff _).1 hg⟩
  · rintro ⟨hne, h⟩
    have hg := (poolGuard_none_iff _).2 h
    have hs : swvGuard batch (axes.map PAx.toAx) = none := by
      refine (swvGuard_none_iff _ _).2 ⟨by simpa using hne, fun a' ha' => ?_⟩
      obtain ⟨a, ha, rfl⟩ := List.mem_map.1 ha'
      obtain ⟨hw, hs, hx, _⟩ := h a ha
      exact ⟨hw, by simp only [PAx.toAx]; omega, by simp [PAx.toAx], by simp only [PAx.toAx]; omega⟩
    refine ⟨swvResult batch (axes.map PAx.toAx), ?_⟩
    unfold poolView
    rw [hg]
    exact swv_of_guard hs

theorem pool_get_eq {batch : List Int} {axes : List PAx} {v : View}
    (h : poolView batch axes = .ok v) (mem : Mem)
    (idx : List Int) (hidx : idx.length = batch.length + axes.length) :
    poolImplGet mem v batch.length (axes.map (·.w)) idx = poolNaiveGet mem batch axes idx := by
  obtain ⟨_, hs⟩ := poolView_ok h
  obtain ⟨_, rfl⟩ := swv_ok hs
  simp only [poolImplGet, poolMaxed, poolNaiveGet]
  congr 1
  apply List.map_congr_left
  intro k hk
  have hlen : k.length = axes.length := by simpa using length_of_mem_indices hk
  simp only [viewGet, arrGet]
  congr 1
  have := swvResult_offset batch (axes.map PAx.toAx) (idx.drop batch.length) (idx.take batch.length) k
    (by simp [hidx]) (by simp [hidx]) (by simpa using hlen)
  simp only [List.map_map] at this
  rw [this]
  rfl

end MG.Nnet
