import MG.Core.Engine
/-!
The DFS of `collect_all_tensors_and_clear_grads` (model: `MG.Eng.collect`) on an acyclic graph
returns a duplicate-free list of non-constant tensors that contains the root and in which every
member's non-constant inputs occur strictly later — i.e. every tensor comes after all of its
consumers.  Core Lean only.
-/
namespace MG.Eng

variable (h : Heap)

/-- inputs of every member lie in the tail after it (unless they are constants) -/
inductive Ordered : List Nat → Prop
  | nil : Ordered []
  | cons {c : Nat} {B : List Nat} :
      (∀ t ∈ h.inp c, (h.t t).const = false → t ∈ B) → Ordered B → Ordered (c :: B)

/-- what one `collect` call guarantees, given a good accumulator -/
structure Post (rank : Nat → Nat) (t : Nat) (topo res : List Nat) : Prop where
  suffix : ∃ pre, res = pre ++ topo
  bound : ∀ x ∈ res, x ∈ topo ∨ rank x ≤ rank t
  mem : (h.t t).const = false → t ∈ res
  ord : Ordered h res
  nodup : res.Nodup
  nonconst : ∀ x ∈ res, (h.t x).const = false

theorem foldlM_post (rank : Nat → Nat) (fuel : Nat)
    (ih : ∀ t touched topo, rank t < fuel → Ordered h topo → topo.Nodup →
        (∀ x ∈ topo, (h.t x).const = false) →
        ∃ touched' res, collect fuel h t touched topo = some (touched', res) ∧ Post h rank t topo res) :
    ∀ (vs : List Nat) (b : Nat) (touched topo : List Nat), (∀ v ∈ vs, rank v < fuel) →
      (∀ v ∈ vs, rank v < b) → Ordered h topo → topo.Nodup → (∀ x ∈ topo, (h.t x).const = false) →
      ∃ touched' res,
        vs.foldlM (fun (acc : List Nat × List Nat) v => collect fuel h v acc.1 acc.2) (touched, topo)
          = some (touched', res) ∧
        (∃ pre, res = pre ++ topo) ∧ (∀ x ∈ res, x ∈ topo ∨ rank x < b) ∧
        (∀ v ∈ vs, (h.t v).const = false → v ∈ res) ∧ Ordered h res ∧ res.Nodup ∧
        (∀ x ∈ res, (h.t x).const = false) := by
  intro vs
  induction vs with
  | nil =>
    intro b touched topo _ _ ho hn hc
    exact ⟨touched, topo, rfl, ⟨[], rfl⟩, fun x hx => Or.inl hx, by simp, ho, hn, hc⟩
  | cons v vs ihv =>
    intro b touched topo hf hb ho hn hc
    obtain ⟨t1, r1, h1, p1⟩ := ih v touched topo (hf v (List.mem_cons_self ..)) ho hn hc
    obtain ⟨t2, r2, h2, ⟨pre2, e2⟩, hbd, hmem, ho', hn', hc'⟩ :=
      ihv b t1 r1 (fun w hw => hf w (List.mem_cons_of_mem _ hw))
        (fun w hw => hb w (List.mem_cons_of_mem _ hw)) p1.ord p1.nodup p1.nonconst
    obtain ⟨pre1, e1⟩ := p1.suffix
    refine ⟨t2, r2, ?_, ⟨pre2 ++ pre1, by rw [e2, e1, List.append_assoc]⟩, ?_, ?_, ho', hn', hc'⟩
    · simp only [List.foldlM_cons, h1]
      exact h2
    · intro x hx
      rcases hbd x hx with hx1 | hx1
      · rcases p1.bound x hx1 with h' | h'
        · exact Or.inl h'
        · exact Or.inr (Nat.lt_of_le_of_lt h' (hb v (List.mem_cons_self ..)))
      · exact Or.inr hx1
    · intro w hw hcw
      rcases List.mem_cons.mp hw with rfl | hw
      · rw [e2]; exact List.mem_append_right _ (p1.mem hcw)
      · exact hmem w hw hcw

/-- `collect` succeeds and satisfies `Post` on every graph that has a rank function decreasing
along inputs (acyclicity), given enough fuel -/
theorem collect_post (rank : Nat → Nat) (hdag : ∀ t, ∀ v ∈ h.inp t, rank v < rank t) :
    ∀ fuel t touched topo, rank t < fuel → Ordered h topo → topo.Nodup →
      (∀ x ∈ topo, (h.t x).const = false) →
      ∃ touched' res, collect fuel h t touched topo = some (touched', res) ∧ Post h rank t topo res := by
  intro fuel
  induction fuel with
  | zero => intro t _ _ hlt; omega
  | succ fuel ih =>
    intro t touched topo hlt ho hn hc
    unfold collect
    by_cases hconst : (h.t t).const = true
    · simp only [hconst, ite_true]
      exact ⟨_, _, rfl, ⟨[], rfl⟩, fun x hx => Or.inl hx, by simp [hconst], ho, hn, hc⟩
    · have hconst' : (h.t t).const = false := by simpa using hconst
      simp only [hconst', Bool.false_eq_true, ite_false]
      by_cases hin : topo.contains t = true
      · simp only [hin, ite_true]
        exact ⟨_, _, rfl, ⟨[], rfl⟩, fun x hx => Or.inl hx,
          fun _ => by simpa using hin, ho, hn, hc⟩
      · simp only [hin, Bool.false_eq_true, ite_false]
        have hnin : t ∉ topo := by simpa using hin
        have hf : ∀ v ∈ h.inp t, rank v < fuel := fun v hv => by
          have := hdag t v hv; omega
        obtain ⟨t2, r2, h2, ⟨pre, hp⟩, hbd, hmem, ho', hn', hc'⟩ :=
          foldlM_post h rank fuel ih (h.inp t) (rank t) (t :: touched) topo hf (hdag t) ho hn hc
        refine ⟨t2, t :: r2, by simp [h2], ⟨t :: pre, by simp [hp]⟩, ?_, fun _ => List.mem_cons_self ..,
          Ordered.cons hmem ho', ?_, ?_⟩
        · intro x hx
          rcases List.mem_cons.mp hx with rfl | hx
          · exact Or.inr (Nat.le_refl _)
          · rcases hbd x hx with h' | h'
            · exact Or.inl h'
            · exact Or.inr (Nat.le_of_lt h')
        · refine List.nodup_cons.mpr ⟨?_, hn'⟩
          intro hx
          rcases hbd t hx with h' | h'
          · exact hnin h'
          · exact Nat.lt_irrefl _ h'
        · intro x hx
          rcases List.mem_cons.mp hx with rfl | hx
          · exact hconst'
          · exact hc' x hx

end MG.Eng
