import MG.Core.Engine
/-!
Writing through a strided window and reading back: the buffer-level facts behind in-place updates.
`Heap.write` stores the values at the window's positions (later writes win); for a window whose
positions are pairwise distinct and inside the buffer, reading the window back returns the values,
and every position outside the window keeps its old content.  Core Lean only.
-/
namespace MG.Eng
open MG.ND

theorem foldl_set_length (l : List (Nat × Int)) (b : List Int) :
    (l.foldl (fun b (pv : Nat × Int) => b.set pv.1 pv.2) b).length = b.length := by
  induction l generalizing b with
  | nil => rfl
  | cons x l ih => simp [ih]

/-- a position that is not written keeps its content -/
theorem foldl_set_getD_of_not_mem (l : List (Nat × Int)) (b : List Int) (q : Nat)
    (hq : ∀ pv ∈ l, pv.1 ≠ q) :
    (l.foldl (fun b (pv : Nat × Int) => b.set pv.1 pv.2) b).getD q 0 = b.getD q 0 := by
  induction l generalizing b with
  | nil => rfl
  | cons x l ih =>
    simp only [List.foldl_cons]
    rw [ih _ (fun pv h => hq pv (List.mem_cons_of_mem _ h))]
    have hx : x.1 ≠ q := hq x (List.mem_cons_self ..)
    simp [List.getD_eq_getElem?_getD, hx]

/-- writing pairwise distinct in-range positions and reading the `j`-th of them gives the `j`-th value -/
theorem foldl_set_getD (ps : List Nat) (vals : List Int) (b : List Int) (hn : ps.Nodup)
    (hl : vals.length = ps.length) (hb : ∀ p ∈ ps, p < b.length) (j : Nat) (hj : j < ps.length) :
    ((List.zip ps vals).foldl (fun b (pv : Nat × Int) => b.set pv.1 pv.2) b).getD (ps.getD j 0) 0
      = vals.getD j 0 := by
  induction ps generalizing vals b j with
  | nil => simp at hj
  | cons p ps ih =>
    cases vals with
    | nil => simp at hl
    | cons v vals =>
      have hn' := List.nodup_cons.mp hn
      simp only [List.zip_cons_cons, List.foldl_cons]
      cases j with
      | zero =>
        simp only [List.getD_cons_zero]
        rw [foldl_set_getD_of_not_mem]
        · have hp : p < b.length := hb p (List.mem_cons_self ..)
          simp [List.getD_eq_getElem?_getD, hp]
        · intro pv hpv
          have : pv.1 ∈ ps := (List.of_mem_zip hpv).1
          intro h; exact hn'.1 (h ▸ this)
      | succ j =>
        simp only [List.getD_cons_succ]
        apply ih vals (b.set p v) hn'.2 (by simpa using hl)
        · intro q hq; simp only [List.length_set]; exact hb q (List.mem_cons_of_mem _ hq)
        · simpa using hj

theorem lookup_insert_self {α} (k : Nat) (v : α) (l : List (Nat × α)) : lookup k (insert k v l) = some v := by
  induction l with
  | nil => simp [insert, lookup]
  | cons p l ih =>
    obtain ⟨k', x⟩ := p
    by_cases hk : k' = k
    · simp [insert, lookup, hk]
    · simp [insert, lookup, hk, ih]

theorem lookup_insert_ne {α} (k k' : Nat) (v : α) (l : List (Nat × α)) (h : k' ≠ k) :
    lookup k' (insert k v l) = lookup k' l := by
  induction l with
  | nil => simp [insert, lookup, Ne.symm h]
  | cons p l ih =>
    obtain ⟨k'', x⟩ := p
    by_cases hk : k'' = k
    · subst hk; simp [insert, lookup, Ne.symm h]
    · by_cases hk2 : k'' = k'
      · subst hk2; simp [insert, lookup, h]
      · simp [insert, lookup, hk, hk2, ih]

/-- **read_write_same.**  An in-place write through a window whose positions are pairwise distinct and
lie inside its buffer is read back exactly (`a[...] = vals; a` gives `vals`). -/
theorem read_write_same (h : Heap) (a : Arr) (vals : List Int) (hn : a.d.positions.Nodup)
    (hl : vals.length = a.d.positions.length) (hb : ∀ p ∈ a.d.positions, p < (h.buf a.buf).length) :
    (h.write a vals).read a = vals := by
  simp only [Heap.read, Heap.write, Heap.buf]
  rw [lookup_insert_self]
  simp only [Option.getD_some]
  apply List.ext_getElem
  · simp [hl]
  · intro i h1 h2
    simp only [List.length_map] at h1
    simp only [List.getElem_map]
    have := foldl_set_getD a.d.positions vals ((lookup a.buf h.bufs).getD []) hn hl hb i h1
    have e1 : a.d.positions.getD i 0 = a.d.positions[i] := by
      rw [List.getD_eq_getElem?_getD, List.getElem?_eq_getElem h1]; rfl
    have e2 : vals.getD i 0 = vals[i] := by
      rw [List.getD_eq_getElem?_getD, List.getElem?_eq_getElem h2]; rfl
    rw [e1, e2] at this
    exact this

/-- **write_frames_buffer.**  A write through a window of buffer `a.buf` leaves every other buffer as it was. -/
theorem write_frames_buffer (h : Heap) (a : Arr) (vals : List Int) (b : Nat) (hb : b ≠ a.buf) :
    (h.write a vals).buf b = h.buf b := by
  simp only [Heap.write, Heap.buf]
  rw [lookup_insert_ne _ _ _ _ hb]

/-- **write_frames_position.**  … and, inside its own buffer, every position outside the window. -/
theorem write_frames_position (h : Heap) (a : Arr) (vals : List Int) (q : Nat) (hq : q ∉ a.d.positions) :
    ((h.write a vals).buf a.buf).getD q 0 = (h.buf a.buf).getD q 0 := by
  simp only [Heap.write, Heap.buf]
  rw [lookup_insert_self]
  simp only [Option.getD_some]
  apply foldl_set_getD_of_not_mem
  intro pv hpv h'
  exact hq (h' ▸ (List.of_mem_zip hpv).1)

/-- **write_frames_disjoint_window.**  A window that shares no position with the written one reads the same
before and after (two tensors that do not share memory never see each other's in-place updates). -/
theorem write_frames_disjoint_window (h : Heap) (a c : Arr) (vals : List Int)
    (hd : c.buf ≠ a.buf ∨ ∀ p ∈ c.d.positions, p ∉ a.d.positions) :
    (h.write a vals).read c = h.read c := by
  by_cases hbuf : c.buf = a.buf
  · have hd' : ∀ p ∈ c.d.positions, p ∉ a.d.positions := by
      rcases hd with h1 | h1
      · exact absurd hbuf h1
      · exact h1
    simp only [Heap.read]
    apply List.map_congr_left
    intro p hp
    rw [hbuf]
    exact write_frames_position h a vals p (hd' p hp)
  · simp only [Heap.read]
    rw [write_frames_buffer h a vals c.buf hbuf]

end MG.Eng
