import MG.Proofs.Lemmas.LinearBasic

/-! Helper lemmas: `reduce_broadcast` is the adjoint of broadcasting (flat C-order index map `bidx`). -/
namespace MG.Lin

set_option linter.unusedSectionVars false

variable {R : Type} [CommSemiring R]

/-! ## gather -/

@[simp] theorem length_gather (φ : List Nat) (x : List R) : (gather φ x).length = φ.length := by
  simp [gather]

theorem gather_append (φ ψ : List Nat) (x : List R) : gather (φ ++ ψ) x = gather φ x ++ gather ψ x := by
  simp [gather]

theorem gather_map_add (φ : List Nat) (k : Nat) (x : List R) :
    gather (φ.map (· + k)) x = gather φ (x.drop k) := by
  simp only [gather, List.map_map]
  apply List.map_congr_left
  intro i _
  simp [List.getD_eq_getElem?_getD, List.getElem?_drop, Nat.add_comm]

theorem gather_take (φ : List Nat) (m : Nat) (x : List R) (h : ∀ i ∈ φ, i < m) :
    gather φ (x.take m) = gather φ x := by
  simp only [gather]
  apply List.map_congr_left
  intro i hi
  simp [List.getD_eq_getElem?_getD, h i hi]

theorem gather_flatMap {β : Type} (l : List β) (f : β → List Nat) (x : List R) :
    gather (l.flatMap f) x = l.flatMap (fun a => gather (f a) x) := by
  simp [gather, List.map_flatMap]

/-! ## repetition and chunks -/

theorem range_succ_flatMap {β : Type} (f : Nat → List β) (k : Nat) :
    (List.range (k + 1)).flatMap f = f 0 ++ (List.range k).flatMap (fun o => f (o + 1)) := by
  rw [List.range_succ_eq_map, List.flatMap_cons, List.flatMap_map]

theorem length_flatMap_range {β : Type} (f : Nat → List β) (c k : Nat) (h : ∀ o, (f o).length = c) :
    ((List.range k).flatMap f).length = k * c := by
  induction k with
  | zero => simp
  | succ k ih =>
    rw [List.range_succ, List.flatMap_append, List.length_append, ih]
    simp [h, Nat.succ_mul]

theorem size_cons (a : Nat) (s : List Nat) : size (a :: s) = a * size s := rfl

theorem size_append (a b : List Nat) : size (a ++ b) = size a * size b := by
  induction a with
  | nil => simp [size]
  | cons x xs ih => simp only [List.cons_append, size_cons, ih, Nat.mul_assoc]

theorem length_take_of_mul (m k : Nat) (y : List R) (hy : y.length = (k + 1) * m) : (y.take m).length = m := by
  rw [List.length_take, hy, Nat.succ_mul]
  omega

theorem length_drop_of_mul (m k : Nat) (y : List R) (hy : y.length = (k + 1) * m) : (y.drop m).length = k * m := by
  rw [List.length_drop, hy, Nat.succ_mul]
  omega

theorem length_foldl_vadd (m : Nat) (k : Nat) (acc y : List R) (hacc : acc.length = m) (hy : y.length = k * m) :
    ((chunks m k y).foldl vadd acc).length = m := by
  induction k generalizing acc y with
  | zero => simpa [chunks] using hacc
  | succ k ih =>
    simp only [chunks, List.foldl_cons]
    apply ih
    · simp [hacc, length_take_of_mul m k y hy]
    · exact length_drop_of_mul m k y hy

theorem length_sumChunks (m k : Nat) (y : List R) (hy : y.length = k * m) : (sumChunks m k y).length = m :=
  length_foldl_vadd m k _ y (by simp) hy

theorem dot_foldl_vadd (m k : Nat) (acc y z : List R) (hacc : acc.length = m) (hz : z.length = m)
    (hy : y.length = k * m) :
    dot ((chunks m k y).foldl vadd acc) z = dot acc z + dot y ((List.range k).flatMap (fun _ => z)) := by
  induction k generalizing acc y with
  | zero => simp [chunks]
  | succ k ih =>
    have ht := length_take_of_mul m k y hy
    have hd := length_drop_of_mul m k y hy
    simp only [chunks, List.foldl_cons]
    rw [ih (vadd acc (y.take m)) (y.drop m) (by simp [hacc, ht]) hd, range_succ_flatMap,
      dot_vadd _ _ _ (by rw [hacc, hz]) (by rw [ht, hz])]
    conv_rhs => rw [← List.take_append_drop m y, dot_append _ _ _ _ (by rw [ht, hz])]
    ring

theorem dot_sumChunks (m k : Nat) (y z : List R) (hz : z.length = m) (hy : y.length = k * m) :
    dot (sumChunks m k y) z = dot y ((List.range k).flatMap (fun _ => z)) := by
  unfold sumChunks
  rw [dot_foldl_vadd m k _ y z (by simp) hz hy]
  simp

theorem sumChunks_one (m : Nat) (y : List R) (hy : y.length = m) : sumChunks m 1 y = y := by
  subst hy
  simp [sumChunks, chunks, vadd_zeros_left]

theorem flatMap_chunks_id (F : List R → List R) (m : Nat) (hF : ∀ c : List R, c.length = m → F c = c)
    (k : Nat) (y : List R) (hy : y.length = k * m) : (chunks m k y).flatMap F = y := by
  induction k generalizing y with
  | zero =>
    have : y = [] := List.length_eq_zero_iff.mp (by simpa using hy)
    simp [chunks, this]
  | succ k ih =>
    simp only [chunks, List.flatMap_cons]
    rw [hF _ (length_take_of_mul m k y hy), ih _ (length_drop_of_mul m k y hy), List.take_append_drop]

/-- the `v = g` step: block-diagonal composition -/
theorem dot_flatMap_chunks (F : List R → List R) (inner : List Nat) (m mg : Nat)
    (hin : ∀ i ∈ inner, i < m) (hlen : inner.length = mg)
    (hF : ∀ y' x' : List R, y'.length = mg → x'.length = m →
      (F y').length = m ∧ dot (F y') x' = dot y' (gather inner x'))
    (k : Nat) (y x : List R) (hy : y.length = k * mg) (hx : x.length = k * m) :
    ((chunks mg k y).flatMap F).length = k * m ∧
    dot ((chunks mg k y).flatMap F) x =
      dot y (gather ((List.range k).flatMap (fun o => inner.map (· + o * m))) x) := by
  induction k generalizing y x with
  | zero => simp [chunks, gather]
  | succ k ih =>
    have hty := length_take_of_mul mg k y hy
    have hdy := length_drop_of_mul mg k y hy
    have htx := length_take_of_mul m k x hx
    have hdx := length_drop_of_mul m k x hx
    obtain ⟨hFl, hFd⟩ := hF (y.take mg) (x.take m) hty htx
    obtain ⟨ihl, ihd⟩ := ih (y.drop mg) (x.drop m) hdy hdx
    have hshift : (List.range k).flatMap (fun o => inner.map (· + (o + 1) * m)) =
        ((List.range k).flatMap (fun o => inner.map (· + o * m))).map (· + m) := by
      rw [List.map_flatMap]
      congr 1
      funext o
      rw [List.map_map]
      apply List.map_congr_left
      intro i _
      simp [Nat.succ_mul, Nat.add_assoc]
    refine ⟨?_, ?_⟩
    · simp only [chunks, List.flatMap_cons, List.length_append, hFl, ihl, Nat.succ_mul]
      omega
    · simp only [chunks, List.flatMap_cons]
      rw [range_succ_flatMap, gather_append, hshift, gather_map_add inner, gather_map_add _ m]
      simp only [Nat.zero_mul, List.drop_zero]
      conv_lhs => rw [← List.take_append_drop m x, dot_append _ _ _ _ (by rw [hFl, htx])]
      conv_rhs => rw [← List.take_append_drop mg y, dot_append _ _ _ _ (by rw [hty, length_gather, hlen])]
      rw [hFd, ihd, gather_take inner m x hin]

/-! ## the index map -/

theorem bidxSame_spec (vs gs : List Nat) (hc : compatSame vs gs = true) :
    (bidxSame vs gs).length = size gs ∧ ∀ i ∈ bidxSame vs gs, i < size vs := by
  induction vs generalizing gs with
  | nil =>
    cases gs with
    | nil => simp [bidxSame, size]
    | cons _ _ => simp [compatSame] at hc
  | cons v vs ih =>
    cases gs with
    | nil => simp [compatSame] at hc
    | cons g gs =>
      simp only [compatSame, Bool.and_eq_true, Bool.or_eq_true, decide_eq_true_eq] at hc
      obtain ⟨hv, hc'⟩ := hc
      obtain ⟨ihl, ihb⟩ := ih gs hc'
      by_cases hvg : v = g
      · subst hvg
        simp only [bidxSame, if_true, size_cons]
        refine ⟨length_flatMap_range _ (size gs) v (fun o => by simp [ihl]), ?_⟩
        intro i hi
        obtain ⟨o, ho, hio⟩ := List.mem_flatMap.mp hi
        obtain ⟨j, hj, rfl⟩ := List.mem_map.mp hio
        have hjm := ihb j hj
        have ho' : o < v := List.mem_range.mp ho
        calc j + o * size vs < size vs + o * size vs := by omega
          _ = (o + 1) * size vs := by rw [Nat.succ_mul]; omega
          _ ≤ v * size vs := Nat.mul_le_mul_right _ ho'
      · have hv1 : v = 1 := by
          rcases hv with h | h
          · exact absurd h hvg
          · exact h
        subst hv1
        simp only [bidxSame, hvg, if_false, size_cons, Nat.one_mul]
        refine ⟨length_flatMap_range _ (size gs) g (fun _ => ihl), ?_⟩
        intro i hi
        obtain ⟨o, _, hio⟩ := List.mem_flatMap.mp hi
        exact ihb i hio

theorem rsumSame_spec (vs gs : List Nat) (hc : compatSame vs gs = true) (y x : List R)
    (hy : y.length = size gs) (hx : x.length = size vs) :
    (rsumSame vs gs y).length = size vs ∧ dot (rsumSame vs gs y) x = dot y (gather (bidxSame vs gs) x) := by
  induction vs generalizing gs y x with
  | nil =>
    cases gs with
    | nil =>
      simp only [size, List.foldr_nil] at hy hx
      obtain ⟨a, rfl⟩ := List.length_eq_one_iff.mp hy
      obtain ⟨b, rfl⟩ := List.length_eq_one_iff.mp hx
      simp [rsumSame, bidxSame, gather, size]
    | cons _ _ => simp [compatSame] at hc
  | cons v vs ih =>
    cases gs with
    | nil => simp [compatSame] at hc
    | cons g gs =>
      have hc0 := hc
      simp only [compatSame, Bool.and_eq_true, Bool.or_eq_true, decide_eq_true_eq] at hc
      obtain ⟨hv, hc'⟩ := hc
      obtain ⟨bl, bb⟩ := bidxSame_spec vs gs hc'
      by_cases hvg : v = g
      · subst hvg
        simp only [rsumSame, bidxSame, if_true, size_cons] at hy hx ⊢
        exact dot_flatMap_chunks (rsumSame vs gs) (bidxSame vs gs) (size vs) (size gs) bb bl
          (fun y' x' hy' hx' => ih gs hc' y' x' hy' hx') v y x hy hx
      · have hv1 : v = 1 := by
          rcases hv with h | h
          · exact absurd h hvg
          · exact h
        subst hv1
        simp only [rsumSame, bidxSame, hvg, if_false, size_cons, Nat.one_mul] at hy hx ⊢
        obtain ⟨l1, d1⟩ := ih gs hc' (sumChunks (size gs) g y) x (length_sumChunks _ _ _ hy) hx
        refine ⟨l1, ?_⟩
        rw [d1, dot_sumChunks _ _ _ _ (by simp [bl]) hy, gather_flatMap]

theorem rsumSame_self (vs : List Nat) (y : List R) (hy : y.length = size vs) : rsumSame vs vs y = y := by
  induction vs generalizing y with
  | nil => rfl
  | cons v vs ih =>
    simp only [rsumSame, if_true]
    exact flatMap_chunks_id _ (size vs) (fun c hc => ih c hc) v y hy

theorem compatSame_self (vs : List Nat) : compatSame vs vs = true := by
  induction vs with
  | nil => rfl
  | cons v vs ih => simp [compatSame, ih]

/-- `reduce_broadcast` never takes its error branch on broadcast-compatible shapes, returns a vector of
the variable's size, and is the adjoint of broadcasting -/
theorem reduceBroadcast_spec (vs gs : List Nat) (hc : compat vs gs = true) (y x : List R)
    (hy : y.length = size gs) (hx : x.length = size vs) :
    ∃ r, reduceBroadcast vs gs y = some r ∧ r.length = size vs ∧
      dot r x = dot y (gather (bidx vs gs) x) := by
  simp only [compat, Bool.and_eq_true, decide_eq_true_eq] at hc
  obtain ⟨hle, hcs⟩ := hc
  have hsz : size gs = size (gs.take (gs.length - vs.length)) * size (gs.drop (gs.length - vs.length)) := by
    rw [← size_append, List.take_append_drop]
  obtain ⟨bl, _⟩ := bidxSame_spec vs _ hcs
  -- the general formula
  have gen : ∀ s : List R, s = sumChunks (size (gs.drop (gs.length - vs.length)))
        (size (gs.take (gs.length - vs.length))) y →
      (rsumSame vs (gs.drop (gs.length - vs.length)) s).length = size vs ∧
      dot (rsumSame vs (gs.drop (gs.length - vs.length)) s) x = dot y (gather (bidx vs gs) x) := by
    intro s hs
    have hsl : s.length = size (gs.drop (gs.length - vs.length)) := by
      rw [hs]; exact length_sumChunks _ _ _ (by rw [hy, hsz])
    obtain ⟨l1, d1⟩ := rsumSame_spec vs _ hcs s x hsl hx
    refine ⟨l1, ?_⟩
    rw [d1, hs, dot_sumChunks _ _ _ _ (by simp [bl]) (by rw [hy, hsz])]
    simp only [bidx, gather_flatMap]
  by_cases h1 : gs = vs
  · subst h1
    refine ⟨y, by simp [reduceBroadcast], hy, ?_⟩
    have hk : gs.length - gs.length = 0 := Nat.sub_self _
    have := (gen y (by
      rw [hk]
      simp only [List.take_zero, List.drop_zero]
      exact (sumChunks_one _ _ hy).symm)).2
    rw [hk] at this
    simp only [List.drop_zero] at this
    rwa [rsumSame_self gs y hy] at this
  · have h2 : ¬ gs.length < vs.length := by omega
    by_cases hk : gs.length - vs.length = 0
    · refine ⟨_, by simp only [reduceBroadcast, h1, h2, hk, if_false, if_true]; rfl, ?_⟩
      have := gen y (by
        rw [hk]
        simp only [List.take_zero, List.drop_zero]
        exact (sumChunks_one _ _ hy).symm)
      rw [hk] at this
      simpa using this
    · refine ⟨_, by simp only [reduceBroadcast, h1, h2, hk, if_false]; rfl, ?_⟩
      exact gen _ rfl

end MG.Lin
