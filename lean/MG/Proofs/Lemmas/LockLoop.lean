import MG.Proofs.Lemmas.LockRel2
/-! Helper lemmas for C08: the loops `release_writeability_lock_on_op`, "lock every input", and
`unique_arrs_and_bases`. -/
namespace MG.Lock

abbrev F : Nat → Nat → Prop := fun _ _ => False

theorem count_cons_eq (o x : Nat) (os : List Nat) :
    (o :: os).count x = os.count x + if x = o then 1 else 0 := by
  rw [List.count_cons]
  by_cases h : x = o
  · subst h; simp
  · have : ¬ o = x := fun e => h e.symm
    simp [h, this]

theorem releaseOnOp_inv : ∀ (l : List Nat) (s : State) (m : Nat → Nat),
    Inv s (fun x => m x + l.count x) F →
    Inv (releaseOnOp l s) m F ∧ SameStatic s (releaseOnOp l s) ∧ (releaseOnOp l s).holds = s.holds := by
  intro l
  induction l with
  | nil =>
    intro s m hI
    exact ⟨hI.congr_m (fun x _ _ => by simp), SameStatic.refl s, rfl⟩
  | cons o os ih =>
    intro s m hI
    unfold releaseOnOp
    cases ho : isAlive s o with
    | true =>
      simp only [↓reduceIte]
      obtain ⟨r1, r2, r3⟩ := release_inv hI ho (fun _ => by
        show 0 < m o + (o :: os).count o
        rw [count_cons_eq]; simp; omega)
      have r1' : Inv (release s o) (fun x => m x + os.count x) F := by
        refine r1.congr_m ?_
        intro x _ _
        show m x + os.count x = if x = o then m x + (o :: os).count x - 1 else m x + (o :: os).count x
        rw [count_cons_eq]
        by_cases h : x = o
        · simp [h]
        · simp [h]
      obtain ⟨q1, q2, q3⟩ := ih (release s o) m r1'
      exact ⟨q1, r2.trans q2, by rw [q3, r3]⟩
    | false =>
      simp only [Bool.false_eq_true, ↓reduceIte]
      refine ih s m (hI.congr_m ?_)
      intro x hx _
      have : x ≠ o := fun e => by rw [e, ho] at hx; cases hx
      show m x + os.count x = m x + (o :: os).count x
      rw [count_cons_eq]; simp [this]

/-- the side condition of `lock_inv`, for a list processed left to right.  `seen` are arrays already
known to be tracked (if their original flag is writeable). -/
def LockOK (s0 : State) : List Nat → List Nat → Prop
  | _, [] => True
  | seen, x :: l =>
    (wOf s0 x = true ∨ x ∈ seen ∨ baseOf s0 x = none ∨ ∃ b, baseOf s0 x = some b ∧ b ∈ seen) ∧
      LockOK s0 (x :: seen) l

theorem lockAll_inv {P : Nat → Nat → Prop} (s0 : State) : ∀ (l : List Nat) (s : State) (m : Nat → Nat) (seen : List Nat),
    SameStatic s0 s → Inv s m P → (∀ x ∈ l, isAlive s x = true) →
    (∀ y, isAlive s y = true → origOf s y = true → wOf s0 y = true →
      wOf s y = true ∨ lookup (aidOf s y) s.tracker = some y) →
    (∀ y ∈ seen, isAlive s y = true → origOf s y = true → lookup (aidOf s y) s.tracker = some y) →
    LockOK s0 seen l →
    Inv (lockAll l s) (fun x => m x + l.count x) P ∧ SameStatic s (lockAll l s) ∧
      (lockAll l s).holds = s.holds ∧
      (∀ y, isAlive s y = true → origOf s y = true → wOf s0 y = true →
        wOf (lockAll l s) y = true ∨ lookup (aidOf s y) (lockAll l s).tracker = some y) ∧
      (∀ y ∈ l ++ seen, isAlive s y = true → origOf s y = true →
        lookup (aidOf s y) (lockAll l s).tracker = some y) := by
  intro l
  induction l with
  | nil =>
    intro s m seen _ hI _ hW hT _
    exact ⟨hI.congr_m (fun x _ _ => by simp), SameStatic.refl s, rfl, hW,
      fun y hy => hT y (by simpa using hy)⟩
  | cons o os ih =>
    intro s m seen hS0 hI hal hW hT hOK
    have ho : isAlive s o = true := hal o (List.mem_cons_self ..)
    obtain ⟨hside0, hOK'⟩ := hOK
    have hside : origOf s o = true → wOf s o = true ∨ isTracked s o = true ∨ false = true ∨
        ∃ b, baseOf s o = some b ∧ isTracked s b = true := by
      intro horig
      rcases hside0 with h | h | h | ⟨b, hb, hbs⟩
      · rcases hW o ho horig h with h' | h'
        · exact Or.inl h'
        · exact Or.inr (Or.inl ((isTracked_iff hI ho).mpr h'))
      · exact Or.inr (Or.inl ((isTracked_iff hI ho).mpr (hT o h ho horig)))
      · rw [← hS0.base] at h
        rcases tracker_cases hI ho with h' | h'
        · exact Or.inl (hI.rwFree o ho horig h' (Or.inr h))
        · exact Or.inr (Or.inl ((isTracked_iff hI ho).mpr h'))
      · rw [← hS0.base] at hb
        obtain ⟨hba, _, hbo⟩ := hI.baseOk o b ho hb
        rw [horig] at hbo
        exact Or.inr (Or.inr (Or.inr ⟨b, hb, (isTracked_iff hI hba).mpr (hT b hbs hba hbo)⟩))
    obtain ⟨r1, r2, r3, r4⟩ := lock_inv hI false ho hside (fun _ => rfl)
    have hS1 := lock_static s o false ho
    obtain ⟨q1, q2, q3, q4, q5⟩ := ih (lock s o false) (fun x => if x = o then m x + 1 else m x) (o :: seen)
      (hS0.trans hS1) r1
      (fun x hx => by rw [hS1.alive]; exact hal x (List.mem_cons_of_mem _ hx))
      (by
        intro y hy hyo hw0
        rw [hS1.alive] at hy; rw [hS1.orig] at hyo; rw [hS1.aid]
        by_cases hyo' : y = o
        · subst hyo'; right; exact r2 hyo
        · rcases hW y hy hyo hw0 with h | h
          · left; rw [r4 y hyo']; exact h
          · right; exact r3 _ _ h hy)
      (by
        intro y hy hya hyo
        rw [hS1.alive] at hya; rw [hS1.orig] at hyo; rw [hS1.aid]
        rcases List.mem_cons.mp hy with h | h
        · subst h; exact r2 hyo
        · exact r3 _ _ (hT y h hya hyo) hya)
      hOK'
    refine ⟨q1.congr_m ?_, hS1.trans q2, by show (lockAll os (lock s o false)).holds = _; rw [q3]; exact lock_holds s o false, ?_, ?_⟩
    · intro x _ _
      show m x + (o :: os).count x = (if x = o then m x + 1 else m x) + os.count x
      rw [count_cons_eq]
      by_cases h : x = o
      · simp [h]; omega
      · simp [h]
    · intro y hy hyo hw0
      have := q4 y (by rw [hS1.alive]; exact hy) (by rw [hS1.orig]; exact hyo) hw0
      rw [hS1.aid] at this
      exact this
    · intro y hy hya hyo
      have hy' : y ∈ os ++ o :: seen := by
        simp only [List.cons_append, List.mem_cons, List.mem_append] at hy ⊢
        rcases hy with h | h | h
        · exact Or.inr (Or.inl h)
        · exact Or.inl h
        · exact Or.inr (Or.inr h)
      have := q5 y hy' (by rw [hS1.alive]; exact hya) (by rw [hS1.orig]; exact hyo)
      rw [hS1.aid] at this
      exact this

theorem LockOK_weaken (s0 : State) : ∀ (l seen seen' : List Nat), (∀ y, y ∈ seen → y ∈ seen') →
    LockOK s0 seen l → LockOK s0 seen' l := by
  intro l
  induction l with
  | nil => intros; trivial
  | cons x l ih =>
    intro seen seen' hsub ⟨h1, h2⟩
    refine ⟨?_, ih (x :: seen) (x :: seen') ?_ h2⟩
    · rcases h1 with h | h | h | ⟨b, hb, hbs⟩
      · exact Or.inl h
      · exact Or.inr (Or.inl (hsub _ h))
      · exact Or.inr (Or.inr (Or.inl h))
      · exact Or.inr (Or.inr (Or.inr ⟨b, hb, hsub _ hbs⟩))
    · intro y hy
      rcases List.mem_cons.mp hy with h | h
      · rw [h]; exact List.mem_cons_self ..
      · exact List.mem_cons_of_mem _ (hsub _ h)

/-- `unique_arrs_and_bases` yields live arrays, each base before (or instead of being repeated after) its view -/
theorem uniqAux_ok {s : State} {m P} (hI : Inv s m P) : ∀ (ins seenA seenO : List Nat),
    (∀ x ∈ ins, isAlive s x = true) →
    (∀ i, i ∈ seenA ↔ ∃ y, y ∈ seenO ∧ aidOf s y = i) → (∀ y ∈ seenO, isAlive s y = true) →
    LockOK s seenO (uniqAux s ins seenA) ∧ (∀ x ∈ uniqAux s ins seenA, isAlive s x = true) := by
  intro ins
  induction ins with
  | nil => intros; exact ⟨trivial, by simp [uniqAux]⟩
  | cons o os ih =>
    intro seenA seenO hal hA hO
    have ho : isAlive s o = true := hal o (List.mem_cons_self ..)
    have hal' : ∀ x ∈ os, isAlive s x = true := fun x hx => hal x (List.mem_cons_of_mem _ hx)
    obtain ⟨a, hs, _⟩ := arr_of_alive ho
    have haid : a.aid = aidOf s o := by simp [aidOf, hs]
    have hbase : a.base = baseOf s o := by simp [baseOf, hs]
    unfold uniqAux
    simp only [hs]
    by_cases hseen : seenA.contains a.aid = true
    · simp only [hseen, ↓reduceIte]
      exact ih seenA seenO hal' hA hO
    · simp only [hseen, Bool.false_eq_true, ↓reduceIte]
      have hnew : ∀ (extraA extraO : List Nat), (∀ i, i ∈ extraA ↔ ∃ y, y ∈ extraO ∧ aidOf s y = i) →
          (∀ i, i ∈ extraA ++ seenA ↔ ∃ y, y ∈ extraO ++ seenO ∧ aidOf s y = i) := by
        intro eA eO he i
        simp only [List.mem_append, he i, hA i]
        constructor
        · rintro (⟨y, h1, h2⟩ | ⟨y, h1, h2⟩)
          · exact ⟨y, Or.inl h1, h2⟩
          · exact ⟨y, Or.inr h1, h2⟩
        · rintro ⟨y, h1 | h1, h2⟩
          · exact Or.inl ⟨y, h1, h2⟩
          · exact Or.inr ⟨y, h1, h2⟩
      cases hb : a.base with
      | none =>
        simp only
        obtain ⟨r1, r2⟩ := ih (a.aid :: seenA) (o :: seenO) hal'
          (hnew [a.aid] [o] (by intro i; simp [haid, eq_comm]))
          (by intro y hy; rcases List.mem_cons.mp hy with h | h; · rw [h]; exact ho
              · exact hO y h)
        refine ⟨⟨Or.inr (Or.inr (Or.inl (by rw [← hbase, hb]))), r1⟩, ?_⟩
        intro x hx
        rcases List.mem_cons.mp hx with h | h
        · rw [h]; exact ho
        · exact r2 x h
      | some b =>
        simp only
        have hbo : baseOf s o = some b := by rw [← hbase, hb]
        obtain ⟨hba, hbb, _⟩ := hI.baseOk o b ho hbo
        by_cases hbseen : seenA.contains (aidOf s b) = true
        · simp only [hbseen, ↓reduceIte]
          have hbmem : b ∈ seenO := by
            have : aidOf s b ∈ seenA := by simpa using hbseen
            obtain ⟨y, hy1, hy2⟩ := (hA _).mp this
            have : y = b := hI.aidInj y b (hO y hy1) hba hy2
            rw [← this]; exact hy1
          obtain ⟨r1, r2⟩ := ih (a.aid :: seenA) (o :: seenO) hal'
            (hnew [a.aid] [o] (by intro i; simp [haid, eq_comm]))
            (by intro y hy; rcases List.mem_cons.mp hy with h | h; · rw [h]; exact ho
                · exact hO y h)
          refine ⟨⟨Or.inr (Or.inr (Or.inr ⟨b, hbo, hbmem⟩)), r1⟩, ?_⟩
          intro x hx
          rcases List.mem_cons.mp hx with h | h
          · rw [h]; exact ho
          · exact r2 x h
        · simp only [hbseen, Bool.false_eq_true, ↓reduceIte]
          obtain ⟨r1, r2⟩ := ih (a.aid :: aidOf s b :: seenA) (o :: b :: seenO) hal'
            (hnew [a.aid, aidOf s b] [o, b] (by
              intro i
              simp only [List.mem_cons, List.not_mem_nil, or_false]
              constructor
              · rintro (h | h)
                · exact ⟨o, Or.inl rfl, by rw [h, haid]⟩
                · exact ⟨b, Or.inr rfl, h.symm⟩
              · rintro ⟨y, h1 | h1, h2⟩
                · left; rw [← h2, h1, haid]
                · right; rw [← h2, h1]))
            (by
              intro y hy
              simp only [List.mem_cons] at hy
              rcases hy with h | h | h
              · rw [h]; exact ho
              · rw [h]; exact hba
              · exact hO y h)
          refine ⟨⟨Or.inr (Or.inr (Or.inl hbb)), ⟨Or.inr (Or.inr (Or.inr ⟨b, hbo, List.mem_cons_self ..⟩)), r1⟩⟩, ?_⟩
          intro x hx
          simp only [List.mem_cons] at hx
          rcases hx with h | h | h
          · rw [h]; exact hba
          · rw [h]; exact ho
          · exact r2 x h

theorem uniq_ok {s : State} {m P} (hI : Inv s m P) (ins : List Nat) (hal : ∀ x ∈ ins, isAlive s x = true) :
    LockOK s [] (uniqueArrsAndBases s ins) ∧ (∀ x ∈ uniqueArrsAndBases s ins, isAlive s x = true) :=
  uniqAux_ok hI ins [] [] hal (by intro i; simp) (by intro y hy; simp at hy)

end MG.Lock
