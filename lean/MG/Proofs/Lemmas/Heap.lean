import MG.Core.InPlace
/-!
Get/set laws for the association lists and heap accessors of the engine model.  Core Lean only.
-/
namespace MG.Eng

theorem lookup_insert_self {α} (k : Nat) (v : α) (l : List (Nat × α)) :
    lookup k (insert k v l) = some v := by
  induction l with
  | nil => simp [insert, lookup]
  | cons p l ih =>
    obtain ⟨k', v'⟩ := p
    by_cases hk : k' = k
    · simp [insert, lookup, hk]
    · simp [insert, lookup, hk, ih]

theorem lookup_insert_ne {α} (k k' : Nat) (v : α) (l : List (Nat × α)) (hne : k' ≠ k) :
    lookup k' (insert k v l) = lookup k' l := by
  induction l with
  | nil => simp [insert, lookup, Ne.symm hne]
  | cons p l ih =>
    obtain ⟨k'', v''⟩ := p
    by_cases hk : k'' = k
    · subst hk
      simp [insert, lookup, Ne.symm hne]
    · by_cases hk2 : k'' = k'
      · subst hk2
        simp [insert, lookup, hk]
      · simp [insert, lookup, hk, hk2, ih]

@[simp] theorem t_setT_self (h : Heap) (i : Nat) (x : Tens) : (h.setT i x).t i = x := by
  simp [Heap.t, Heap.setT, lookup_insert_self]

theorem t_setT_ne (h : Heap) (i j : Nat) (x : Tens) (hne : j ≠ i) : (h.setT i x).t j = h.t j := by
  simp [Heap.t, Heap.setT, lookup_insert_ne _ _ _ _ hne]

@[simp] theorem t_modT_self (h : Heap) (i : Nat) (f : Tens → Tens) : (h.modT i f).t i = f (h.t i) := by
  simp [Heap.modT]

theorem t_modT_ne (h : Heap) (i j : Nat) (f : Tens → Tens) (hne : j ≠ i) : (h.modT i f).t j = h.t j := by
  simp [Heap.modT, t_setT_ne _ _ _ _ hne]

/-- a field that `f` does not change is unchanged at every tensor -/
theorem t_modT_field {β} (h : Heap) (i j : Nat) (f : Tens → Tens) (π : Tens → β)
    (hf : ∀ x, π (f x) = π x) : π ((h.modT i f).t j) = π (h.t j) := by
  by_cases hji : j = i
  · subst hji; simp [hf]
  · rw [t_modT_ne _ _ _ _ hji]

@[simp] theorem bufs_setT (h : Heap) (i : Nat) (x : Tens) : (h.setT i x).bufs = h.bufs := rfl
@[simp] theorem bufs_modT (h : Heap) (i : Nat) (f : Tens → Tens) : (h.modT i f).bufs = h.bufs := rfl
@[simp] theorem ops_setT (h : Heap) (i : Nat) (x : Tens) : (h.setT i x).ops = h.ops := rfl
@[simp] theorem ops_modT (h : Heap) (i : Nat) (f : Tens → Tens) : (h.modT i f).ops = h.ops := rfl
@[simp] theorem next_setT (h : Heap) (i : Nat) (x : Tens) : (h.setT i x).next = h.next := rfl
@[simp] theorem next_modT (h : Heap) (i : Nat) (f : Tens → Tens) : (h.modT i f).next = h.next := rfl
@[simp] theorem op_setT (h : Heap) (i : Nat) (x : Tens) (f : Nat) : (h.setT i x).op f = h.op f := rfl
@[simp] theorem op_modT (h : Heap) (i : Nat) (g : Tens → Tens) (f : Nat) : (h.modT i g).op f = h.op f := rfl
@[simp] theorem bufs_fresh (h : Heap) : h.fresh.1.bufs = h.bufs := rfl
@[simp] theorem tens_fresh (h : Heap) : h.fresh.1.tens = h.tens := rfl
@[simp] theorem ops_fresh (h : Heap) : h.fresh.1.ops = h.ops := rfl
@[simp] theorem t_fresh (h : Heap) (i : Nat) : h.fresh.1.t i = h.t i := rfl
@[simp] theorem op_fresh (h : Heap) (f : Nat) : h.fresh.1.op f = h.op f := rfl
@[simp] theorem next_fresh (h : Heap) : h.fresh.1.next = h.next + 1 := rfl
@[simp] theorem fresh_snd (h : Heap) : h.fresh.2 = h.next := rfl

/-- folding field-preserving `modT`s preserves the field everywhere -/
theorem foldl_modT_field {β γ} (π : Tens → β) (xs : List γ) (idx : γ → Nat) (f : γ → Tens → Tens)
    (hf : ∀ c x, π (f c x) = π x) (h : Heap) (j : Nat) :
    π ((xs.foldl (fun h c => h.modT (idx c) (f c)) h).t j) = π (h.t j) := by
  induction xs generalizing h with
  | nil => rfl
  | cons c cs ih =>
    simp only [List.foldl_cons]
    rw [ih, t_modT_field _ _ _ _ π (hf c)]

theorem foldl_modT_bufs {γ} (xs : List γ) (idx : γ → Nat) (f : γ → Tens → Tens) (h : Heap) :
    (xs.foldl (fun h c => h.modT (idx c) (f c)) h).bufs = h.bufs := by
  induction xs generalizing h with
  | nil => rfl
  | cons c cs ih => simp only [List.foldl_cons]; rw [ih]; rfl

/-! `startOver` only drops the lingering `base` link of the terminal tensor -/
@[simp] theorem startOver_bufs (h : Heap) (L : Nat) : (startOver h L).bufs = h.bufs := by
  unfold startOver; split <;> rfl

@[simp] theorem startOver_ops (h : Heap) (L : Nat) : (startOver h L).ops = h.ops := by
  unfold startOver; split <;> rfl

theorem startOver_field {β} (h : Heap) (L t : Nat) (π : Tens → β)
    (hπ : ∀ x : Tens, π { x with base := none } = π x) : π ((startOver h L).t t) = π (h.t t) := by
  unfold startOver
  split
  · exact t_modT_field h L t _ π hπ
  · rfl

@[simp] theorem startOver_grad (h : Heap) (L t : Nat) : ((startOver h L).t t).grad = (h.t t).grad :=
  startOver_field h L t (·.grad) (fun _ => rfl)

@[simp] theorem startOver_data (h : Heap) (L t : Nat) : ((startOver h L).t t).data = (h.t t).data :=
  startOver_field h L t (·.data) (fun _ => rfl)

@[simp] theorem startOver_const (h : Heap) (L t : Nat) : ((startOver h L).t t).const = (h.t t).const :=
  startOver_field h L t (·.const) (fun _ => rfl)

@[simp] theorem startOver_creator (h : Heap) (L t : Nat) : ((startOver h L).t t).creator = (h.t t).creator :=
  startOver_field h L t (·.creator) (fun _ => rfl)

@[simp] theorem startOver_op (h : Heap) (L f : Nat) : (startOver h L).op f = h.op f := by
  unfold startOver; split <;> rfl

@[simp] theorem startOver_next (h : Heap) (L : Nat) : (startOver h L).next = h.next := by
  unfold startOver; split <;> rfl

/-- a tensor that still has its creator, or has no base, is left exactly as it is -/
theorem startOver_id (h : Heap) (L : Nat) (hL : ¬ ((h.t L).base.isSome ∧ (h.t L).creator.isNone)) :
    startOver h L = h := by
  unfold startOver; rw [if_neg hL]

/-- reading `.grad` only ever refreshes `_view_grad` caches -/
theorem gradPropObj_frame (fuel : Nat) : ∀ (h : Heap) (t : Nat),
    (gradPropObj fuel h t).1.bufs = h.bufs ∧ (gradPropObj fuel h t).1.next = h.next ∧
    (gradPropObj fuel h t).1.ops = h.ops ∧
    (∀ x, ((gradPropObj fuel h t).1.t x).creator = (h.t x).creator ∧ ((gradPropObj fuel h t).1.t x).data = (h.t x).data ∧
      ((gradPropObj fuel h t).1.t x).const = (h.t x).const ∧ ((gradPropObj fuel h t).1.t x).base = (h.t x).base ∧
      ((gradPropObj fuel h t).1.t x).ops = (h.t x).ops ∧ ((gradPropObj fuel h t).1.t x).vchildren = (h.t x).vchildren ∧
      ((gradPropObj fuel h t).1.t x).grad = (h.t x).grad ∧ ((gradPropObj fuel h t).1.t x).gradObj = (h.t x).gradObj) := by
  induction fuel with
  | zero => intro h t; exact ⟨rfl, rfl, rfl, fun _ => ⟨rfl, rfl, rfl, rfl, rfl, rfl, rfl, rfl⟩⟩
  | succ fuel ih =>
    intro h t
    unfold gradPropObj
    simp only
    split
    · exact ⟨rfl, rfl, rfl, fun _ => ⟨rfl, rfl, rfl, rfl, rfl, rfl, rfl, rfl⟩⟩
    · split
      · exact ⟨rfl, rfl, rfl, fun _ => ⟨rfl, rfl, rfl, rfl, rfl, rfl, rfl, rfl⟩⟩
      · split
        · exact ⟨rfl, rfl, rfl, fun _ => ⟨rfl, rfl, rfl, rfl, rfl, rfl, rfl, rfl⟩⟩
        · split
          · exact ⟨rfl, rfl, rfl, fun _ => ⟨rfl, rfl, rfl, rfl, rfl, rfl, rfl, rfl⟩⟩
          · split
            · exact ⟨rfl, rfl, rfl, fun _ => ⟨rfl, rfl, rfl, rfl, rfl, rfl, rfl, rfl⟩⟩
            · split
              · exact ⟨rfl, rfl, rfl, fun _ => ⟨rfl, rfl, rfl, rfl, rfl, rfl, rfl, rfl⟩⟩
              · rename_i f _
                obtain ⟨b, n, o, tt⟩ := ih h ((h.op f).vars.getD 0 0)
                refine ⟨b, n, o, fun x => ?_⟩
                by_cases e : x = t
                · subst e
                  simp only [t_modT_self]
                  exact tt x
                · show (((gradPropObj fuel h ((h.op f).vars.getD 0 0)).1.modT t _).t x).creator = _ ∧ _
                  rw [t_modT_ne _ _ _ _ e]
                  exact tt x


end MG.Eng
