import Mathlib.Analysis.SpecialFunctions.Trigonometric.Arctan
import Mathlib.Analysis.SpecialFunctions.Trigonometric.Inverse
import Mathlib.Analysis.SpecialFunctions.Pow.Real
import Mathlib.Analysis.SpecialFunctions.Sqrt
import Mathlib.Analysis.SpecialFunctions.Arsinh
import Mathlib.Analysis.SpecialFunctions.Arcosh
import Mathlib.Analysis.SpecialFunctions.Artanh

/-!
# Real-number reading of the NumPy functions that Mathlib does not provide under the same name

Part of the TRUSTED BASE of C02 (together with the ufunc ↦ Mathlib table in `harness/props/c02_trace.py`): these
definitions say which real function each NumPy ufunc denotes on its domain.  They are hand-written, not generated.

* `np.cbrt`    — the real cube root, odd: `cbrt (-x) = - cbrt x`.
* `np.sinc`    — the *normalised* sinc `sin (π x) / (π x)`, `1` at `0`.
* `np.arctan2` — `arctan2 a b` is the angle in `(-π, π]` of the point with abscissa `b` and ordinate `a`.
* `o2`         — strict lifting of a binary real function to `Option ℝ` (`none` stands for NaN; used only for the
                 `nan_to_num=False` variant of `abs`).
-/

namespace MG.NP

noncomputable def cbrt (x : ℝ) : ℝ :=
  if 0 ≤ x then x ^ ((1 : ℝ) / 3) else -((-x) ^ ((1 : ℝ) / 3))

noncomputable def sinc (x : ℝ) : ℝ :=
  if x = 0 then 1 else Real.sin (Real.pi * x) / (Real.pi * x)

noncomputable def arctan2 (a b : ℝ) : ℝ :=
  if 0 < b then Real.arctan (a / b)
  else if b < 0 then (if 0 ≤ a then Real.arctan (a / b) + Real.pi else Real.arctan (a / b) - Real.pi)
  else if 0 < a then Real.pi / 2
  else if a < 0 then -(Real.pi / 2)
  else 0

def o2 (f : ℝ → ℝ → ℝ) (a b : Option ℝ) : Option ℝ :=
  a.bind fun a => b.map (f a)

/-- `cbrt` really is the cube root. -/
theorem cbrt_pow_three (x : ℝ) : cbrt x ^ 3 = x := by
  unfold cbrt
  split
  · next h =>
    rw [← Real.rpow_natCast, ← Real.rpow_mul h]; norm_num
  · next h =>
    have h' : 0 ≤ -x := by linarith
    have : ((-x) ^ ((1 : ℝ) / 3)) ^ 3 = -x := by
      rw [← Real.rpow_natCast, ← Real.rpow_mul h']; norm_num
    calc (-((-x) ^ ((1 : ℝ) / 3))) ^ 3 = -(((-x) ^ ((1 : ℝ) / 3)) ^ 3) := by ring
      _ = x := by rw [this]; ring

end MG.NP
