import MG.Core.Routes
/-! Helper lemmas for C11: soundness of the grouped table check of `MG/Core/Routes.lean`. -/
namespace MG.Routes

theorem strictInc_tail {a : Nat} {l : List Nat} (h : strictInc (a :: l) = true) : strictInc l = true := by
  cases l with
  | nil => rfl
  | cons b t => simp [strictInc] at h; exact h.2

theorem strictInc_lt {a : Nat} {l : List Nat} (h : strictInc (a :: l) = true) : ∀ x ∈ l, a < x := by
  induction l generalizing a with
  | nil => intro x hx; cases hx
  | cons b t ih =>
    intro x hx
    simp [strictInc] at h
    rcases List.mem_cons.mp hx with rfl | hx
    · exact h.1
    · exact Nat.lt_trans h.1 (ih h.2 x hx)

theorem starOK_mem {β : Type} [DecidableEq β] {k : Route → Nat} {f : Route → β} {g : List Route}
    (h : starOK k f g = true) : ∀ r ∈ g, k r = gkey k g ∧ ∀ r' ∈ g, f r = f r' := by
  cases g with
  | nil => simp [starOK] at h
  | cons r0 rs =>
    have h0 : ∀ r ∈ r0 :: rs, k r = k r0 ∧ f r = f r0 := by
      intro r hr
      rcases List.mem_cons.mp hr with rfl | hr
      · exact ⟨rfl, rfl⟩
      · have := List.all_eq_true.mp h r hr
        simp at this
        exact this
    intro r hr
    refine ⟨(h0 r hr).1, ?_⟩
    intro r' hr'
    rw [(h0 r hr).2, (h0 r' hr').2]

/-- **Soundness of the grouped check**: if every group is uniform in `k` and `f` and the group keys increase
    strictly, then any two routes of the flattened table with the same key have the same `f`. -/
theorem tableOK_sound {β : Type} [DecidableEq β] (k : Route → Nat) (f : Route → β) (gs : List (List Route))
    (h : tableOK k f gs = true) :
    ∀ r₁ ∈ gs.flatten, ∀ r₂ ∈ gs.flatten, k r₁ = k r₂ → f r₁ = f r₂ := by
  simp only [tableOK, Bool.and_eq_true] at h
  obtain ⟨hs, hi⟩ := h
  induction gs with
  | nil => intro r₁ h₁; simp at h₁
  | cons g gs ih =>
    have hg : starOK k f g = true := by
      have := List.all_eq_true.mp hs g (List.mem_cons_self ..)
      exact this
    have hs' : gs.all (starOK k f) = true := by
      apply List.all_eq_true.mpr
      intro x hx
      exact List.all_eq_true.mp hs x (List.mem_cons_of_mem _ hx)
    have hi' : strictInc (gs.map (gkey k)) = true := by
      simp only [List.map_cons] at hi
      exact strictInc_tail hi
    have hlt : ∀ r ∈ gs.flatten, gkey k g < k r := by
      intro r hr
      obtain ⟨g', hg', hr'⟩ := List.mem_flatten.mp hr
      have hg'ok : starOK k f g' = true := List.all_eq_true.mp hs' g' hg'
      have hk : k r = gkey k g' := (starOK_mem hg'ok r hr').1
      simp only [List.map_cons] at hi
      have := strictInc_lt hi (gkey k g') (List.mem_map.mpr ⟨g', hg', rfl⟩)
      omega
    intro r₁ h₁ r₂ h₂ hk
    simp only [List.flatten_cons, List.mem_append] at h₁ h₂
    rcases h₁ with h₁ | h₁ <;> rcases h₂ with h₂ | h₂
    · exact (starOK_mem hg r₁ h₁).2 r₂ h₂
    · have := (starOK_mem hg r₁ h₁).1
      have := hlt r₂ h₂
      omega
    · have := (starOK_mem hg r₂ h₂).1
      have := hlt r₁ h₁
      omega
    · exact ih hs' hi' r₁ h₁ r₂ h₂ hk

theorem key_inj {r₁ r₂ : Route} (b₁ : r₁.bounded = true) (b₂ : r₂.bounded = true) :
    r₁.key = r₂.key ↔ (r₁.op = r₂.op ∧ r₁.probe = r₂.probe ∧ r₁.form = r₂.form) := by
  simp only [Route.bounded, Bool.and_eq_true, decide_eq_true_eq] at b₁ b₂
  simp only [Route.key]
  constructor
  · intro h; omega
  · rintro ⟨h1, h2, h3⟩; rw [h1, h2, h3]

theorem opKey_inj {r₁ r₂ : Route} (b₁ : r₁.bounded = true) (b₂ : r₂.bounded = true) :
    r₁.opKey = r₂.opKey ↔ (r₁.op = r₂.op ∧ r₁.probe = r₂.probe) := by
  simp only [Route.bounded, Bool.and_eq_true, decide_eq_true_eq] at b₁ b₂
  simp only [Route.opKey]
  constructor
  · intro h; omega
  · rintro ⟨h1, h2⟩; rw [h1, h2]

theorem normWith_cases {α : Type} [DecidableEq α] (eqv : List (α × α)) (s : α) :
    normWith eqv s = s ∨ (s, normWith eqv s) ∈ eqv := by
  unfold normWith
  cases h : eqv.find? (fun p => decide (p.1 = s)) with
  | none => exact Or.inl rfl
  | some p =>
    right
    have hm := List.mem_of_find?_eq_some h
    have hp := List.find?_some h
    simp at hp
    simp only
    rw [← hp]
    exact hm

end MG.Routes
