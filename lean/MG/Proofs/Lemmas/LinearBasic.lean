import MG.Core.Linear
import Mathlib.Tactic.Ring
import Mathlib.Algebra.Ring.Defs

/-! Helper lemmas about `MG/Core/Linear.lean` (lengths, `dot` of appends / updates). -/
namespace MG.Lin

variable {R : Type} [CommSemiring R]

@[simp] theorem dot_nil_left (x : List R) : dot ([] : List R) x = 0 := by
  cases x <;> rfl

@[simp] theorem dot_nil_right (x : List R) : dot x ([] : List R) = 0 := by
  cases x <;> rfl

@[simp] theorem dot_cons (a b : R) (as bs : List R) : dot (a :: as) (b :: bs) = a * b + dot as bs := rfl

@[simp] theorem length_zeros (n : Nat) : (zeros n : List R).length = n := by
  simp [zeros]

theorem zeros_succ (n : Nat) : (zeros (n + 1) : List R) = 0 :: zeros n := by
  simp [zeros, List.replicate_succ]

@[simp] theorem dot_zeros_left (n : Nat) (x : List R) : dot (zeros n) x = 0 := by
  induction n generalizing x with
  | zero => simp [zeros]
  | succ n ih =>
    cases x with
    | nil => simp
    | cons b bs => simp [zeros_succ, ih]

@[simp] theorem dot_zeros_right (n : Nat) (x : List R) : dot x (zeros n) = 0 := by
  induction n generalizing x with
  | zero => simp [zeros]
  | succ n ih =>
    cases x with
    | nil => simp
    | cons b bs => simp [zeros_succ, ih]

theorem dot_comm (a b : List R) : dot a b = dot b a := by
  induction a generalizing b with
  | nil => simp
  | cons x xs ih =>
    cases b with
    | nil => simp
    | cons y ys => simp [ih ys, mul_comm]

@[simp] theorem length_addAt (acc : List R) (i : Nat) (v : R) : (addAt acc i v).length = acc.length := by
  induction acc generalizing i with
  | nil => rfl
  | cons a as ih => cases i <;> simp [addAt, ih]

theorem dot_addAt (acc x : List R) (i : Nat) (v : R) (h : acc.length = x.length) :
    dot (addAt acc i v) x = dot acc x + v * x.getD i 0 := by
  induction acc generalizing x i with
  | nil =>
    cases x with
    | nil => simp [addAt]
    | cons b bs => simp at h
  | cons a as ih =>
    cases x with
    | nil => simp at h
    | cons b bs =>
      have h' : as.length = bs.length := by simpa using h
      cases i with
      | zero => simp [addAt]; ring
      | succ i => simp [addAt, ih bs i h']; ring

@[simp] theorem length_scatterAddInto (acc : List R) (φ : List Nat) (g : List R) :
    (scatterAddInto acc φ g).length = acc.length := by
  induction φ generalizing acc g with
  | nil => cases g <;> rfl
  | cons i φ ih =>
    cases g with
    | nil => rfl
    | cons v g => simp [scatterAddInto, ih]

@[simp] theorem length_scatterAdd (φ : List Nat) (n : Nat) (g : List R) : (scatterAdd φ n g).length = n := by
  simp [scatterAdd]

theorem dot_scatterAddInto (acc x : List R) (φ : List Nat) (g : List R) (h : acc.length = x.length) :
    dot (scatterAddInto acc φ g) x = dot acc x + dot g (gather φ x) := by
  induction φ generalizing acc g with
  | nil => cases g <;> simp [scatterAddInto, gather]
  | cons i φ ih =>
    cases g with
    | nil => simp [scatterAddInto]
    | cons v g =>
      have := ih (addAt acc i v) g (by simpa using h)
      simp only [scatterAddInto, this, dot_addAt acc x i v h, gather, List.map_cons, dot_cons]
      ring

/-! vectors -/

@[simp] theorem length_vadd (a b : List R) : (vadd a b).length = min a.length b.length := by
  simp [vadd]

@[simp] theorem length_smul (c : R) (a : List R) : (smul c a).length = a.length := by
  simp [smul]

theorem dot_vadd (a b x : List R) (h1 : a.length = x.length) (h2 : b.length = x.length) :
    dot (vadd a b) x = dot a x + dot b x := by
  induction a generalizing b x with
  | nil =>
    cases x with
    | nil => simp [vadd]
    | cons _ _ => simp at h1
  | cons a as ih =>
    cases x with
    | nil => simp at h1
    | cons y ys =>
      cases b with
      | nil => simp at h2
      | cons b bs =>
        have := ih bs ys (by simpa using h1) (by simpa using h2)
        simp only [vadd, List.zipWith_cons_cons, dot_cons] at this ⊢
        rw [this]; ring

theorem dot_smul (c : R) (a x : List R) : dot (smul c a) x = c * dot a x := by
  induction a generalizing x with
  | nil => simp [smul]
  | cons a as ih =>
    cases x with
    | nil => simp
    | cons y ys =>
      have := ih ys
      simp only [smul, List.map_cons, dot_cons] at this ⊢
      rw [this]; ring

theorem vadd_zeros_left (y : List R) : vadd (zeros y.length) y = y := by
  induction y with
  | nil => simp [vadd, zeros]
  | cons a as ih =>
    simp only [List.length_cons, zeros_succ, vadd, List.zipWith_cons_cons, zero_add] at ih ⊢
    rw [ih]

theorem length_applyMatTInto (acc : List R) (A : List (List R)) (g : List R)
    (hA : ∀ row ∈ A, row.length = acc.length) : (applyMatTInto acc A g).length = acc.length := by
  induction A generalizing acc g with
  | nil => cases g <;> rfl
  | cons row A ih =>
    cases g with
    | nil => rfl
    | cons gi g =>
      have hr : row.length = acc.length := hA row (List.mem_cons_self ..)
      have hl : (vadd acc (smul gi row)).length = acc.length := by simp [hr]
      simp only [applyMatTInto]
      rw [ih _ g (fun r hr' => by rw [hl]; exact hA r (List.mem_cons_of_mem _ hr')), hl]

theorem length_applyMatT (A : List (List R)) (n : Nat) (g : List R) (hA : ∀ row ∈ A, row.length = n) :
    (applyMatT A n g).length = n := by
  unfold applyMatT
  rw [length_applyMatTInto _ _ _ (by simpa using hA)]
  simp

theorem dot_applyMatTInto (acc x : List R) (A : List (List R)) (g : List R) (hacc : acc.length = x.length)
    (hA : ∀ row ∈ A, row.length = x.length) :
    dot (applyMatTInto acc A g) x = dot acc x + dot g (applyMat A x) := by
  induction A generalizing acc g with
  | nil => cases g <;> simp [applyMatTInto, applyMat]
  | cons row A ih =>
    cases g with
    | nil => simp [applyMatTInto]
    | cons gi g =>
      have hr : row.length = x.length := hA row (List.mem_cons_self ..)
      have hl : (vadd acc (smul gi row)).length = x.length := by simp [hr, hacc]
      have := ih (vadd acc (smul gi row)) g hl (fun r hr' => hA r (List.mem_cons_of_mem _ hr'))
      simp only [applyMatTInto, this, applyMat, List.map_cons, dot_cons]
      rw [dot_vadd _ _ _ hacc (by simp [hr]), dot_smul]
      ring

/-- two vectors of the same length with the same inner product against every vector are equal -/
theorem eq_of_dot_eq (n : Nat) (h h' : List R) (hl : h.length = n) (hl' : h'.length = n)
    (H : ∀ x : List R, x.length = n → dot h x = dot h' x) : h = h' := by
  induction n generalizing h h' with
  | zero =>
    rw [List.length_eq_zero_iff.mp hl, List.length_eq_zero_iff.mp hl']
  | succ n ih =>
    cases h with
    | nil => simp at hl
    | cons a as =>
      cases h' with
      | nil => simp at hl'
      | cons b bs =>
        have hab : a = b := by
          have := H (1 :: zeros n) (by simp)
          simpa using this
        have htl : as = bs := by
          apply ih as bs (by simpa using hl) (by simpa using hl')
          intro x hx
          have := H (0 :: x) (by simp [hx])
          simpa using this
        rw [hab, htl]

/-! updates -/

theorem dot_set (h a : List R) (i : Nat) (v : R) (hl : h.length = a.length) :
    dot h (a.set i v) = dot (h.set i 0) a + h.getD i 0 * v := by
  induction h generalizing a i with
  | nil =>
    cases a with
    | nil => simp
    | cons _ _ => simp at hl
  | cons x xs ih =>
    cases a with
    | nil => simp at hl
    | cons y ys =>
      cases i with
      | zero => simp; ring
      | succ i =>
        have := ih ys i (by simpa using hl)
        simp only [List.set_cons_succ, dot_cons, this, List.getD_cons_succ]
        ring

theorem dot_append (a b c d : List R) (h : a.length = c.length) :
    dot (a ++ b) (c ++ d) = dot a c + dot b d := by
  induction a generalizing c with
  | nil =>
    cases c with
    | nil => simp
    | cons _ _ => simp at h
  | cons x xs ih =>
    cases c with
    | nil => simp at h
    | cons y ys =>
      simp only [List.cons_append, dot_cons, ih ys (by simpa using h)]
      ring

end MG.Lin
