import Mathlib.Algebra.BigOperators.Group.List.Basic
import Mathlib.Algebra.Group.Basic

/-!
Reverse accumulation over an edge list, processed in any consumers-first order, satisfies the
declarative adjoint equations; on an acyclic graph those equations have exactly one solution.
Generic in the gradient type `G` (any commutative additive monoid).
-/
namespace MG.Adj

variable {G : Type} [AddCommMonoid G]

structure Edge (G : Type) where
  c : Nat          -- consumer (output tensor of the op)
  t : Nat          -- target  (an input tensor of the op)
  vjp : G → G

def contrib (es : List (Edge G)) (val : Nat → G) (p : Edge G → Bool) : G :=
  ((es.filter p).map (fun e => e.vjp (val e.c))).sum

/-- process node `c`: push contributions along all edges out of `c`, reading `grad c` -/
def pushNode (es : List (Edge G)) (grad : Nat → G) (c : Nat) : Nat → G :=
  fun t => grad t + contrib es (fun _ => grad c) (fun e => decide (e.c = c) && decide (e.t = t))

def run (es : List (Edge G)) (ord : List Nat) (g0 : Nat → G) : Nat → G :=
  ord.foldl (pushNode es) g0

def IsAdj (es : List (Edge G)) (seed adj : Nat → G) : Prop :=
  ∀ t, adj t = seed t + contrib es adj (fun e => decide (e.t = t))

/-- invariant after processing prefix `P` -/
def PInv (es : List (Edge G)) (seed : Nat → G) (P : List Nat) (g : Nat → G) : Prop :=
  ∀ t, g t = seed t + contrib es g (fun e => decide (e.t = t) && decide (e.c ∈ P))

theorem contrib_congr (es : List (Edge G)) (v w : Nat → G) (p : Edge G → Bool)
    (h : ∀ e ∈ es, p e = true → v e.c = w e.c) : contrib es v p = contrib es w p := by
  unfold contrib
  congr 1
  apply List.map_congr_left
  intro e he
  have := List.mem_filter.mp he
  rw [h e this.1 this.2]

theorem contrib_split (es : List (Edge G)) (v : Nat → G) (p q : Edge G → Bool)
    (hdisj : ∀ e ∈ es, ¬ (p e = true ∧ q e = true)) :
    contrib es v (fun e => p e || q e) = contrib es v p + contrib es v q := by
  unfold contrib
  induction es with
  | nil => simp
  | cons e es ih =>
    have ih' := ih (fun e he => hdisj e (List.mem_cons_of_mem _ he))
    have hd := hdisj e (List.mem_cons_self ..)
    simp only [List.filter_cons]
    cases hp : p e <;> cases hq : q e <;> simp_all [add_assoc, add_left_comm]

theorem step_inv (es : List (Edge G)) (seed : Nat → G) (P : List Nat) (g : Nat → G) (c : Nat)
    (hInv : PInv es seed P g)
    (hc : c ∉ P)
    -- no edge out of c targets an already-processed node or c itself
    (hfresh : ∀ e ∈ es, e.c = c → e.t ∉ P ∧ e.t ≠ c) :
    PInv es seed (P ++ [c]) (pushNode es g c) := by
  intro t
  -- values read by the RHS are at consumers in P ++ [c], where pushNode did not change g
  have hsame : ∀ u, (u ∈ P ∨ u = c) → pushNode es g c u = g u := by
    intro u hu
    unfold pushNode contrib
    have : es.filter (fun e => decide (e.c = c) && decide (e.t = u)) = [] := by
      apply List.filter_eq_nil_iff.mpr
      intro e he
      simp only [Bool.and_eq_true, decide_eq_true_eq, not_and]
      intro hec het
      have := hfresh e he hec
      rcases hu with hu | hu
      · exact this.1 (het ▸ hu)
      · exact this.2 (het ▸ hu)
    simp [this]
  have hR : contrib es (pushNode es g c)
        (fun e => decide (e.t = t) && decide (e.c ∈ P ++ [c]))
      = contrib es g (fun e => decide (e.t = t) && decide (e.c ∈ P ++ [c])) := by
    apply contrib_congr
    intro e _ hp
    simp only [Bool.and_eq_true, decide_eq_true_eq, List.mem_append, List.mem_singleton] at hp
    exact hsame _ hp.2
  rw [hR]
  have hsplit : contrib es g (fun e => decide (e.t = t) && decide (e.c ∈ P ++ [c]))
      = contrib es g (fun e => decide (e.t = t) && decide (e.c ∈ P))
        + contrib es g (fun e => decide (e.c = c) && decide (e.t = t)) := by
    rw [← contrib_split]
    · unfold contrib
      congr 2
      apply List.filter_congr
      intro e _
      by_cases h1 : e.t = t <;> by_cases h2 : e.c ∈ P <;> by_cases h3 : e.c = c <;>
        simp [h1, h2, h3]
    · intro e _ ⟨h1, h2⟩
      simp only [Bool.and_eq_true, decide_eq_true_eq] at h1 h2
      exact hc (h2.1 ▸ h1.2)
  rw [hsplit, ← add_assoc, ← hInv t]
  unfold pushNode
  congr 1
  apply contrib_congr
  intro e _ hp
  simp only [Bool.and_eq_true, decide_eq_true_eq] at hp
  rw [hp.1]


/-- an order is consumers-first for the edge list if, whenever it is split as `P ++ c :: R`,
    no edge out of `c` targets a node of `P` or `c` itself, and it has no duplicates -/
def ConsumersFirst (es : List (Edge G)) : List Nat → List Nat → Prop
  | _, [] => True
  | P, c :: R => c ∉ P ∧ (∀ e ∈ es, e.c = c → e.t ∉ P ∧ e.t ≠ c) ∧ ConsumersFirst es (P ++ [c]) R

theorem run_inv (es : List (Edge G)) (seed : Nat → G) :
    ∀ (R P : List Nat) (g : Nat → G), PInv es seed P g → ConsumersFirst es P R →
      PInv es seed (P ++ R) (run es R g) := by
  intro R
  induction R with
  | nil => intro P g h _; simpa [run] using h
  | cons c R ih =>
    intro P g h hcf
    obtain ⟨hc, hfresh, hrest⟩ := hcf
    have := ih (P ++ [c]) (pushNode es g c) (step_inv es seed P g c h hc hfresh) hrest
    simpa [run, List.append_assoc] using this

theorem inv_nil (es : List (Edge G)) (seed : Nat → G) : PInv es seed [] seed := by
  intro t; simp [contrib]

/-- Soundness: if the order is consumers-first and contains the consumer of every edge,
    the accumulated gradients satisfy the adjoint equations. -/
theorem run_isAdj (es : List (Edge G)) (seed : Nat → G) (ord : List Nat)
    (hcf : ConsumersFirst es [] ord) (hall : ∀ e ∈ es, e.c ∈ ord) :
    IsAdj es seed (run es ord seed) := by
  have h := run_inv es seed ord [] seed (inv_nil es seed) hcf
  intro t
  have ht := h t
  rw [ht]
  congr 1
  -- the filter predicates agree on es
  unfold contrib
  congr 2
  apply List.filter_congr
  intro e he
  simp [hall e he]

/-- Uniqueness on a DAG whose edges go from larger to smaller index. -/
theorem isAdj_unique [IsCancelAdd G] (es : List (Edge G)) (seed a b : Nat → G)
    (hdag : ∀ e ∈ es, e.t < e.c) (N : Nat) (hN : ∀ e ∈ es, e.c < N)
    (ha : IsAdj es seed a) (hb : IsAdj es seed b) : ∀ t, a t = b t := by
  -- strong induction on N - t
  suffices h : ∀ k t, N - t ≤ k → a t = b t from fun t => h (N - t) t (Nat.le_refl _)
  intro k
  induction k with
  | zero =>
    intro t ht
    rw [ha t, hb t]
    congr 1
    apply contrib_congr
    intro e he hp
    simp only [decide_eq_true_eq] at hp
    have := hdag e he; have := hN e he; omega
  | succ k ih =>
    intro t ht
    rw [ha t, hb t]
    congr 1
    apply contrib_congr
    intro e he hp
    simp only [decide_eq_true_eq] at hp
    have h1 := hdag e he
    apply ih
    omega


/-- Uniqueness on any acyclic edge list: a rank function that strictly decreases along edges. -/
theorem isAdj_unique_rank (es : List (Edge G)) (seed a b : Nat → G) (rank : Nat → Nat)
    (hdag : ∀ e ∈ es, rank e.t < rank e.c)
    (ha : IsAdj es seed a) (hb : IsAdj es seed b) : ∀ t, a t = b t := by
  -- a bound on the ranks of consumers
  have hbound : ∃ N, ∀ e ∈ es, rank e.c < N := by
    clear hdag ha hb
    induction es with
    | nil => exact ⟨0, fun e he => by simp at he⟩
    | cons e es ih =>
      obtain ⟨N, hN⟩ := ih
      refine ⟨max N (rank e.c + 1), fun e' he' => ?_⟩
      rcases List.mem_cons.mp he' with rfl | he'
      · omega
      · have := hN e' he'; omega
  obtain ⟨N, hN⟩ := hbound
  suffices h : ∀ k t, N - rank t ≤ k → a t = b t from fun t => h (N - rank t) t (Nat.le_refl _)
  intro k
  induction k with
  | zero =>
    intro t ht
    rw [ha t, hb t]
    congr 1
    apply contrib_congr
    intro e he hp
    simp only [decide_eq_true_eq] at hp
    have := hdag e he; have := hN e he; rw [hp] at *; omega
  | succ k ih =>
    intro t ht
    rw [ha t, hb t]
    congr 1
    apply contrib_congr
    intro e he hp
    simp only [decide_eq_true_eq] at hp
    have h1 := hdag e he
    apply ih
    rw [hp] at h1
    omega

/-- The adjoint equations do not depend on the order in which edges (operands, sibling
sub-expressions) were recorded. -/
theorem isAdj_perm (es es' : List (Edge G)) (hp : es.Perm es') (seed a : Nat → G)
    (ha : IsAdj es seed a) : IsAdj es' seed a := by
  intro t
  rw [ha t]
  congr 1
  unfold contrib
  exact ((hp.filter _).map _).sum_eq

end MG.Adj
