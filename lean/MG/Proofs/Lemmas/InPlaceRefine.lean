import MG.Proofs.C13
import MG.Proofs.Lemmas.WriteRead
import MG.Proofs.Lemmas.NDIndexLemmas
/-!
# C04/C05 — an in-place update on a tensor that owns its memory refines the NumPy statement

`inplace_on_owner_refines_numpy`: for the *whole* `Tensor._in_place_op` of the engine model (prelude, graph
duplication, copy of the base, the guarded kernel call writing into the copy, mirroring, re-creation of views) on a
tensor without live views.  The proof goes through a closed form of the final heap (`finalH`), obtained by
evaluating each stage on the one-node placeholder graph (`mkDupGraph_no_views`, `mutate_single_eq`), and the
buffer-level lemmas of `WriteRead`.  Core Lean only.
-/
namespace MG.C04R
open MG.Eng MG.ND MG.C13

/-- the one-node graph of a tensor without views -/
def G1 (x p : Nat) : DupGraph := ⟨[⟨x, p, none⟩]⟩

theorem G1_node_x (x p : Nat) : (G1 x p).node? x = some ⟨x, p, none⟩ := by
  simp [G1, DupGraph.node?, List.find?]

theorem G1_base (x p : Nat) : (G1 x p).base = ⟨x, p, none⟩ := rfl

theorem G1_target (h : Heap) (x p : Nat) (a : Arr) : inPlaceTarget h (G1 x p) x a = .ok (a, []) := by
  unfold inPlaceTarget DupGraph.pathToBase
  show List.foldlM _ _ ((DupGraph.pathToBase.go (G1 x p) (1 + 1) x).reverse.drop 1) = _
  unfold DupGraph.pathToBase.go
  simp [G1_node_x, G1_base, pure, Except.pure]

theorem G1_ph (x p i : Nat) (hi : i ≠ p) : (G1 x p).placeholderIfExists i = swapVar x p i := by
  unfold DupGraph.placeholderIfExists swapVar
  by_cases hx : i = x
  · subst hx; simp [G1_node_x]
  · have : (G1 x p).node? i = none := by
      simp [G1, DupGraph.node?, List.find?, Ne.symm hx, Ne.symm hi]
    simp [this, hx]

theorem wrapOperands_t (h : Heap) (ids : List Nat) : wrapOperands h (ids.map Operand.t) = (h, ids) := by
  induction ids with
  | nil => rfl
  | cons i r ih => simp [wrapOperands, ih]

end MG.C04R

namespace MG.C04R
open MG.Eng MG.ND MG.C13

/-- buffers, and every tensor's array and constant flag, are as before -/
def Kept (h h' : Heap) : Prop :=
  h'.bufs = h.bufs ∧ ∀ t, (h'.t t).data = (h.t t).data ∧ (h'.t t).const = (h.t t).const

theorem Kept.refl (h : Heap) : Kept h h := ⟨rfl, fun _ => ⟨rfl, rfl⟩⟩
theorem Kept.trans {a b c : Heap} (h1 : Kept a b) (h2 : Kept b c) : Kept a c :=
  ⟨h2.1.trans h1.1, fun t => ⟨(h2.2 t).1.trans (h1.2 t).1, (h2.2 t).2.trans (h1.2 t).2⟩⟩

theorem kept_modT (h : Heap) (i : Nat) (f : Tens → Tens) (hd : ∀ x, (f x).data = x.data) (hc : ∀ x, (f x).const = x.const) :
    Kept h (h.modT i f) :=
  ⟨rfl, fun t => ⟨t_modT_field h i t f (·.data) hd, t_modT_field h i t f (·.const) hc⟩⟩

theorem kept_setOp (h : Heap) (f : Nat) (o : OpRec) : Kept h (h.setOp f o) := ⟨rfl, fun _ => ⟨rfl, rfl⟩⟩
theorem kept_fresh (h : Heap) : Kept h h.fresh.1 := ⟨rfl, fun _ => ⟨rfl, rfl⟩⟩

theorem kept_foldl {γ} (xs : List γ) (step : Heap → γ → Heap) (hs : ∀ h c, Kept h (step h c)) (h : Heap) :
    Kept h (xs.foldl step h) := by
  induction xs generalizing h with
  | nil => exact Kept.refl h
  | cons c cs ih => simp only [List.foldl_cons]; exact (hs h c).trans (ih _)

theorem next_foldl {γ} (xs : List γ) (step : Heap → γ → Heap) (hs : ∀ h c, (step h c).next = h.next) (h : Heap) :
    (xs.foldl step h).next = h.next := by
  induction xs generalizing h with
  | nil => rfl
  | cons c cs ih => simp only [List.foldl_cons]; rw [ih, hs]

theorem filterMap_map_t (F : Operand → Option Nat) (hF : ∀ i, F (.t i) = some i) (ids : List Nat) :
    (ids.map Operand.t).filterMap F = ids := by
  induction ids with
  | nil => rfl
  | cons i r ih => simp [List.filterMap_cons, hF, ih]

/-- what `opStepOut` produces, written out (tensor-only operands, no `where=`): the heap and the id of the result -/
def outCore (h : Heap) (kind : Kind) (users vars : List Nat) (out : Arr)
    (wm : Option (Shape × List Bool) := none) : Heap × Nat :=
  let h := users.foldl (fun h v =>
    let tv := h.t v
    let h := if tv.base.isSome ∧ tv.creator.isNone then h.modT v ({ · with base := none }) else h
    h.modT v ({ · with grad := none, viewGrad := none })) h
  let c : Bool := !(vars.any fun v => !(h.t v).const)
  let (h, f) := h.fresh
  let h := h.setOp f { kind := kind, vars := vars, whereMask := wm }
  let h := vars.foldl (fun h v => h.modT v fun t => { t with ops := f :: t.ops }) h
  let (h, o) := h.fresh
  (h.setT o { data := out, const := c, creator := some f }, o)

def outRes (h : Heap) (kind : Kind) (users vars : List Nat) (out : Arr) (vals : List Int)
    (wm : Option (Shape × List Bool) := none) : Heap × Nat :=
  outCore (h.write out vals) kind users vars out wm

theorem opStepOut_tensors (h : Heap) (kind : Kind) (ids : List Nat) (out : Arr) (vals : List Int)
    (hw : outWrite kind (ids.map fun i => h.val (h.t i).data) out.d.shape (h.read out) none = .ok vals) :
    opStepOut h kind (ids.map Operand.t) none none out = .ok (outRes h kind ids ids out vals) := by
  unfold opStepOut
  rw [wrapOperands_t]
  simp only
  rw [hw, filterMap_map_t _ (fun i => rfl)]
  rfl

end MG.C04R

namespace MG.C04R
open MG.Eng MG.ND MG.C13

theorem kept_write (h : Heap) (a : Arr) (vals : List Int) : ∀ t, ((h.write a vals).t t) = h.t t := fun _ => rfl
theorem next_write (h : Heap) (a : Arr) (vals : List Int) : (h.write a vals).next = h.next := rfl

theorem outCore_spec (h : Heap) (kind : Kind) (users vars : List Nat) (out : Arr)
    (wm : Option (Shape × List Bool) := none) :
    (outCore h kind users vars out wm).2 = h.next + 1 ∧
    (outCore h kind users vars out wm).1.bufs = h.bufs ∧
    ((outCore h kind users vars out wm).1.t (h.next + 1)).data = out ∧
    ((outCore h kind users vars out wm).1.t (h.next + 1)).base = none ∧
    (∀ t, t ≠ h.next + 1 → ((outCore h kind users vars out wm).1.t t).data = (h.t t).data ∧
      ((outCore h kind users vars out wm).1.t t).const = (h.t t).const) := by
  -- name the intermediate heaps
  let h1 := h
  let step1 : Heap → Nat → Heap := fun h v =>
    let tv := h.t v
    let h := if tv.base.isSome ∧ tv.creator.isNone then h.modT v ({ · with base := none }) else h
    h.modT v ({ · with grad := none, viewGrad := none })
  have k1 : ∀ h c, Kept h (step1 h c) := by
    intro h c
    simp only [step1]
    split
    · refine Kept.trans (b := h.modT c ({ · with base := none })) ?_ ?_
      · exact kept_modT h c _ (fun _ => rfl) (fun _ => rfl)
      · exact kept_modT _ c _ (fun _ => rfl) (fun _ => rfl)
    · exact kept_modT h c _ (fun _ => rfl) (fun _ => rfl)
  have n1 : ∀ h c, (step1 h c).next = h.next := by
    intro h c; simp only [step1]; split <;> rfl
  let h2 := users.foldl step1 h1
  have K2 : Kept h1 h2 := kept_foldl users step1 k1 h1
  have N2 : h2.next = h.next := (next_foldl users step1 n1 h1).trans rfl
  let f := h2.next
  let h3 := (h2.fresh.1).setOp f { kind := kind, vars := vars, whereMask := wm }
  let step2 : Heap → Nat → Heap := fun h v => h.modT v fun t => { t with ops := f :: t.ops }
  have k2 : ∀ h c, Kept h (step2 h c) := fun h c => kept_modT _ _ _ (fun _ => rfl) (fun _ => rfl)
  let h4 := vars.foldl step2 h3
  have K4 : Kept h3 h4 := kept_foldl vars step2 k2 h3
  have N4 : h4.next = h.next + 1 := by
    rw [next_foldl vars step2 (fun _ _ => rfl) h3]
    show h2.next + 1 = _
    rw [N2]
  have K3 : Kept h2 h3 := (kept_fresh h2).trans (kept_setOp _ _ _)
  have K : Kept h1 h4 := K2.trans (K3.trans K4)
  have e : outCore h kind users vars out wm =
      ((h4.fresh.1).setT h4.next { data := out, const := !(vars.any fun v => !(h2.t v).const), creator := some f }, h4.next) := rfl
  rw [e]
  refine ⟨N4, ?_, ?_, ?_, ?_⟩
  · show h4.bufs = _
    exact K.1
  · simp [N4]
  · simp [N4]
  · intro t ht
    have hne : t ≠ h4.next := by rw [N4]; exact ht
    simp only
    rw [t_setT_ne _ _ _ _ hne]
    exact ⟨(K.2 t).1, (K.2 t).2⟩


theorem outRes_spec (h : Heap) (kind : Kind) (users vars : List Nat) (out : Arr) (vals : List Int)
    (wm : Option (Shape × List Bool) := none) :
    (outRes h kind users vars out vals wm).2 = h.next + 1 ∧
    (outRes h kind users vars out vals wm).1.bufs = (h.write out vals).bufs ∧
    ((outRes h kind users vars out vals wm).1.t (h.next + 1)).data = out ∧
    ((outRes h kind users vars out vals wm).1.t (h.next + 1)).base = none ∧
    (∀ t, t ≠ h.next + 1 → ((outRes h kind users vars out vals wm).1.t t).data = (h.t t).data ∧
      ((outRes h kind users vars out vals wm).1.t t).const = (h.t t).const) :=
  outCore_spec (h.write out vals) kind users vars out wm

end MG.C04R

namespace MG.C04R
open MG.Eng MG.ND MG.C13

theorem lookup_filter_ne {α} (l : List (Nat × α)) (m t : Nat) (ht : t ≠ m) :
    lookup t (l.filter fun p => p.1 ≠ m) = lookup t l := by
  induction l with
  | nil => rfl
  | cons q l ih =>
    obtain ⟨k, v⟩ := q
    by_cases hk : k = m
    · subst hk
      simp only [List.filter_cons, ne_eq, not_true_eq_false, decide_false, Bool.false_eq_true, if_false]
      rw [ih]
      simp [lookup, Ne.symm ht]
    · simp only [List.filter_cons, ne_eq, hk, not_false_eq_true, decide_true, if_true]
      by_cases hkt : k = t
      · simp [lookup, hkt]
      · simp only [lookup, hkt, if_false]
        exact ih

theorem t_filter_ne (h : Heap) (m t : Nat) (ht : t ≠ m) :
    ({ h with tens := h.tens.filter fun p => p.1 ≠ m } : Heap).t t = h.t t := by
  simp only [Heap.t]
  rw [lookup_filter_ne _ _ _ ht]

theorem read_length (h : Heap) (a : Arr) : (h.read a).length = size a.d.shape := by
  simp [Heap.read, Desc.positions]

theorem recreate_single (h : Heap) (x p : Nat) : recreateViews h [⟨x, p, none⟩] = .ok h := by
  simp only [recreateViews, List.foldlM_cons, List.foldlM_nil]
  rfl

end MG.C04R

namespace MG.C04R
open MG.Eng MG.ND MG.C13

/-- heap and array after `mutant_base = base.copy()` (C-contiguous base) -/
def copyH (H : Heap) (x : Nat) : Heap × Arr := H.newArr (H.val (H.t x).data)

/-- the final heap of an in-place update on a tensor without views, written out -/
def finalH (H : Heap) (x p : Nat) (kind : Kind) (ids : List Nat) (vals : List Int) : Heap :=
  let r := outRes (copyH H x).1 kind (ids.map (swapVar x p)) (ids.map (swapVar x p)) (copyH H x).2 vals
  let h5 := r.1.modT r.2 ({ · with const := (H.t x).const })
  let h6 := mirror h5 x r.2
  { h6 with tens := h6.tens.filter fun q => q.1 ≠ r.2 }

theorem map_ph (x p : Nat) (F : Operand → Operand)
    (hF : ∀ i, F (.t i) = Operand.t ((G1 x p).placeholderIfExists i)) (ids : List Nat) (hph : ∀ i ∈ ids, i ≠ p) :
    (ids.map Operand.t).map F = (ids.map (swapVar x p)).map Operand.t := by
  induction ids with
  | nil => rfl
  | cons i r ih =>
    simp only [List.map_cons]
    rw [ih (fun j hj => hph j (List.mem_cons_of_mem _ hj)), hF, G1_ph x p i (hph i (List.mem_cons_self ..))]

theorem mutate_single_eq (H : Heap) (x p : Nat) (kind : Kind) (ids : List Nat) (vals : List Int)
    (hcc : (H.t x).data.d.isCContig = true) (hph : ∀ i ∈ ids, i ≠ p)
    (hro : H.ro.contains (H.t x).data.buf = false)
    (hw : outWrite kind ((ids.map (swapVar x p)).map fun i => (copyH H x).1.val ((copyH H x).1.t i).data)
            (copyH H x).2.d.shape ((copyH H x).1.read (copyH H x).2) none = .ok vals)
    (hdfs : ∀ c ∈ ((finalH H x p kind ids vals).t p).vchildren, c ≠ x ∧ c ≠ p) :
    inPlaceMutate H (G1 x p) x true kind (ids.map Operand.t) none none = .ok (finalH H x p kind ids vals) := by
  unfold inPlaceMutate
  simp only [G1_base, Heap.copyArrK, hcc, if_true, G1_node_x, Option.isNone_some, Bool.false_eq_true, if_false]
  show (do
    let (target, chain) ← withHeap (copyH H x).1 (inPlaceTarget (copyH H x).1 (G1 x p) x (copyH H x).2)
    _) = _
  rw [G1_target]
  have hro' : (copyH H x).1.ro.contains (H.t x).data.buf = false := hro
  simp only [withHeap, Bind.bind, Except.bind, List.any_nil, hro', Bool.or_self, Bool.false_eq_true, if_false]
  rw [map_ph x p _ (fun i => rfl) ids hph]
  rw [show (H.newArr (H.val (H.t x).data)).fst = (copyH H x).1 from rfl, opStepOut_tensors _ _ _ _ _ hw]
  simp only [pure, Except.pure, if_true, Bool.false_or, hro', Bool.false_eq_true, if_false]
  show recreateViews (finalH H x p kind ids vals) ((G1 x p).dfs (finalH H x p kind ids vals)) = _
  rw [show G1 x p = ⟨[⟨x, p, none⟩]⟩ from rfl, dfs_single _ x p hdfs, recreate_single]

end MG.C04R

namespace MG.C04R
open MG.Eng MG.ND MG.C13

theorem copyH_spec (H : Heap) (x : Nat) :
    (copyH H x).2 = ⟨H.next, Desc.contig 0 (H.t x).data.d.shape⟩ ∧ (copyH H x).1.next = H.next + 1 ∧
    (∀ t, (copyH H x).1.t t = H.t t) ∧ (∀ b, b ≠ H.next → (copyH H x).1.buf b = H.buf b) ∧
    (copyH H x).1.buf H.next = H.read (H.t x).data := by
  refine ⟨rfl, rfl, fun _ => rfl, fun b hb => ?_, ?_⟩
  · simp only [copyH, Heap.newArr, Heap.buf, Heap.fresh]
    rw [lookup_insert_ne _ _ _ _ hb]
  · simp only [copyH, Heap.newArr, Heap.buf, Heap.fresh]
    rw [lookup_insert_self]
    rfl

theorem nodup_range_map_add (off n : Nat) : ((List.range n).map (off + ·)).Nodup := by
  rw [← List.range'_eq_map_range]
  exact List.nodup_range'

/-- **what an in-place update leaves behind** (closed form `finalH`): the public tensor holds exactly the written
values in a fresh buffer, keeps its flag and owns its memory; no buffer that existed before was written; every
other tensor keeps its array and flag. -/
theorem finalH_spec (H : Heap) (x p : Nat) (kind : Kind) (ids : List Nat) (vals : List Int)
    (hx : x < H.next) (hvl : vals.length = size (H.t x).data.d.shape) :
    let F := finalH H x p kind ids vals
    F.val (F.t x).data = ((H.t x).data.d.shape, vals) ∧ (F.t x).const = (H.t x).const ∧ (F.t x).base = none ∧
    (∀ b, b ≠ H.next → F.buf b = H.buf b) ∧
    (∀ t, t ≠ x → t ≠ H.next + 2 → (F.t t).data = (H.t t).data ∧ (F.t t).const = (H.t t).const) := by
  intro F
  obtain ⟨cA, cN, cT, cB, cR⟩ := copyH_spec H x
  obtain ⟨rId, rB, rD, rBase, rO⟩ := outRes_spec (copyH H x).1 kind (ids.map (swapVar x p)) (ids.map (swapVar x p)) (copyH H x).2 vals
  rw [cN] at rId rD rBase rO
  have hxo : x ≠ H.next + 1 + 1 := by omega
  -- the tensor record of x in the final heap
  have hFx : F.t x = ((outRes (copyH H x).1 kind (ids.map (swapVar x p)) (ids.map (swapVar x p)) (copyH H x).2 vals).1.modT
      (H.next + 1 + 1) ({ · with const := (H.t x).const })).t (H.next + 1 + 1) := by
    show ({ (mirror _ x _) with tens := _ } : Heap).t x = _
    rw [rId, t_filter_ne _ _ _ hxo]
    simp only [mirror, t_setT_self]
  have hFb : F.bufs = ((copyH H x).1.write (copyH H x).2 vals).bufs := by
    exact rB
  have hdata : (F.t x).data = (copyH H x).2 := by rw [hFx, t_modT_self]; exact rD
  refine ⟨?_, ?_, ?_, ?_, ?_⟩
  · -- the value
    have hread : F.read (copyH H x).2 = ((copyH H x).1.write (copyH H x).2 vals).read (copyH H x).2 := by
      simp only [Heap.read, Heap.buf, hFb]
    simp only [Heap.val, hdata]
    rw [hread, read_write_same]
    · rw [cA]; rfl
    · rw [cA]; simp only; rw [positions_contig]; exact nodup_range_map_add 0 _
    · rw [cA]; simp only; rw [positions_contig]; simp [hvl]
    · intro q hq
      rw [cA] at hq ⊢
      simp only at hq ⊢
      rw [positions_contig] at hq
      rw [cR, read_length]
      obtain ⟨i, hi, rfl⟩ := List.mem_map.mp hq
      simpa using List.mem_range.mp hi
  · rw [hFx, t_modT_self]
  · rw [hFx, t_modT_self]; exact rBase
  · intro b hb
    simp only [Heap.buf, hFb]
    have : (copyH H x).2.buf = H.next := by rw [cA]
    have h1 := write_frames_buffer (copyH H x).1 (copyH H x).2 vals b (by rw [this]; exact hb)
    simp only [Heap.buf] at h1
    rw [h1]
    exact cB b hb
  · intro t htx hto
    have hto' : t ≠ H.next + 1 + 1 := hto
    have : F.t t = (outRes (copyH H x).1 kind (ids.map (swapVar x p)) (ids.map (swapVar x p)) (copyH H x).2 vals).1.t t := by
      show ({ (mirror _ x _) with tens := _ } : Heap).t t = _
      rw [rId, t_filter_ne _ _ _ hto']
      simp only [mirror]
      rw [t_setT_ne _ _ _ _ htx, t_modT_ne _ _ _ _ hto']
    rw [this]
    obtain ⟨d1, d2⟩ := rO t hto'
    rw [d1, d2, cT]
    exact ⟨rfl, rfl⟩

end MG.C04R

namespace MG.C04R
open MG.Eng MG.ND MG.C13

/-- `vchildren` of every tensor as before -/
def KeptV (h h' : Heap) : Prop := ∀ t, (h'.t t).vchildren = (h.t t).vchildren

theorem KeptV.refl (h : Heap) : KeptV h h := fun _ => rfl
theorem KeptV.trans {a b c : Heap} (h1 : KeptV a b) (h2 : KeptV b c) : KeptV a c := fun t => (h2 t).trans (h1 t)
theorem keptV_modT (h : Heap) (i : Nat) (f : Tens → Tens) (hd : ∀ x, (f x).vchildren = x.vchildren) :
    KeptV h (h.modT i f) := fun t => t_modT_field h i t f (·.vchildren) hd
theorem keptV_foldl {γ} (xs : List γ) (step : Heap → γ → Heap) (hs : ∀ h c, KeptV h (step h c)) (h : Heap) :
    KeptV h (xs.foldl step h) := by
  induction xs generalizing h with
  | nil => exact KeptV.refl h
  | cons c cs ih => simp only [List.foldl_cons]; exact (hs h c).trans (ih _)

theorem outCore_vchildren (h : Heap) (kind : Kind) (users vars : List Nat) (out : Arr) (t : Nat)
    (ht : t ≠ h.next + 1)
    (wm : Option (Shape × List Bool) := none) : ((outCore h kind users vars out wm).1.t t).vchildren = (h.t t).vchildren := by
  let h1 := h
  let step1 : Heap → Nat → Heap := fun h v =>
    let tv := h.t v
    let h := if tv.base.isSome ∧ tv.creator.isNone then h.modT v ({ · with base := none }) else h
    h.modT v ({ · with grad := none, viewGrad := none })
  have k1 : ∀ h c, KeptV h (step1 h c) := by
    intro h c
    simp only [step1]
    split
    · refine KeptV.trans (b := h.modT c ({ · with base := none })) ?_ ?_
      · exact keptV_modT h c _ (fun _ => rfl)
      · exact keptV_modT _ c _ (fun _ => rfl)
    · exact keptV_modT h c _ (fun _ => rfl)
  have n1 : ∀ h c, (step1 h c).next = h.next := by
    intro h c; simp only [step1]; split <;> rfl
  let h2 := users.foldl step1 h1
  have K2 : KeptV h1 h2 := keptV_foldl users step1 k1 h1
  have N2 : h2.next = h.next := (next_foldl users step1 n1 h1).trans rfl
  let f := h2.next
  let h3 := (h2.fresh.1).setOp f { kind := kind, vars := vars, whereMask := wm }
  let step2 : Heap → Nat → Heap := fun h v => h.modT v fun t => { t with ops := f :: t.ops }
  have k2 : ∀ h c, KeptV h (step2 h c) := fun h c => keptV_modT _ _ _ (fun _ => rfl)
  let h4 := vars.foldl step2 h3
  have K4 : KeptV h3 h4 := keptV_foldl vars step2 k2 h3
  have N4 : h4.next = h.next + 1 := by
    rw [next_foldl vars step2 (fun _ _ => rfl) h3]
    show h2.next + 1 = _
    rw [N2]
  have K : KeptV h1 h4 := K2.trans (KeptV.trans (b := h3) (fun _ => rfl) K4)
  have e : outCore h kind users vars out wm =
      ((h4.fresh.1).setT h4.next { data := out, const := !(vars.any fun v => !(h2.t v).const), creator := some f }, h4.next) := rfl
  rw [e]
  have hne : t ≠ h4.next := by rw [N4]; exact ht
  simp only
  rw [t_setT_ne _ _ _ _ hne]
  exact K t


theorem outRes_vchildren (h : Heap) (kind : Kind) (users vars : List Nat) (out : Arr) (vals : List Int) (t : Nat)
    (ht : t ≠ h.next + 1)
    (wm : Option (Shape × List Bool) := none) : ((outRes h kind users vars out vals wm).1.t t).vchildren = (h.t t).vchildren :=
  outCore_vchildren (h.write out vals) kind users vars out t ht wm

end MG.C04R

namespace MG.C04R
open MG.Eng MG.ND MG.C13

theorem prelude_owner (h : Heap) (live : List Nat) (x : Nat) (hbase : (h.t x).base = none) :
    inPlacePrelude h live x = nullGrad h x := by
  unfold inPlacePrelude nullGrad
  have e : (h.modT x fun t => ({ t with grad := none, viewGrad := none, base := (if t.base.isSome ∧ t.creator.isNone then none else t.base) } : Tens)) =
      h.modT x (fun t => ({ t with grad := none, viewGrad := none } : Tens)) := by
    simp only [Heap.modT, hbase]
    rfl
  simp only [e]
  have : ((h.modT x (fun t => ({ t with grad := none, viewGrad := none } : Tens))).t x).base = none := by simp [hbase]
  rw [this]

/-- the heap in which the copy of the base is made: `DuplicatingGraph(x)` applied after the prelude -/
def dupH (h : Heap) (x : Nat) : Heap := reroute (phHeap (nullGrad (nullGrad h x) x) x) h.next x

theorem dupH_spec (h : Heap) (x : Nat) (hx : x < h.next) :
    (dupH h x).bufs = h.bufs ∧ (dupH h x).next = h.next + 1 ∧
    (∀ t, t ≠ h.next → ((dupH h x).t t).data = (h.t t).data ∧ ((dupH h x).t t).const = (h.t t).const ∧
        ((dupH h x).t t).vchildren = (h.t t).vchildren) ∧
    ((dupH h x).t h.next).data = (h.t x).data ∧ ((dupH h x).t h.next).const = (h.t x).const ∧
    ((dupH h x).t h.next).vchildren = (h.t x).vchildren := by
  have hne : h.next ≠ x := by omega
  obtain ⟨rt, rb, rn, _⟩ := reroute_spec (phHeap (nullGrad (nullGrad h x) x) x) h.next x hne
  have hf : ∀ t, ((nullGrad (nullGrad h x) x).t t).data = (h.t t).data ∧ ((nullGrad (nullGrad h x) x).t t).const = (h.t t).const ∧
      ((nullGrad (nullGrad h x) x).t t).vchildren = (h.t t).vchildren := by
    intro t
    unfold nullGrad
    by_cases e : t = x
    · subst e; simp
    · rw [t_modT_ne _ _ _ _ e, t_modT_ne _ _ _ _ e]
      exact ⟨rfl, rfl, rfl⟩
  have hpt : ∀ t, t ≠ h.next → (phHeap (nullGrad (nullGrad h x) x) x).t t = (nullGrad (nullGrad h x) x).t t := by
    intro t ht
    simp only [phHeap, mirror, fresh_snd]
    have hn : (nullGrad (nullGrad h x) x).next = h.next := rfl
    rw [hn, t_modT_ne _ _ _ _ ht, t_setT_ne _ _ _ _ ht]
    rfl
  have hpp : (phHeap (nullGrad (nullGrad h x) x) x).t h.next = { (nullGrad (nullGrad h x) x).t x with base := none } := by
    have hn : (nullGrad (nullGrad h x) x).next = h.next := rfl
    simp only [phHeap, mirror, fresh_snd, hn, t_modT_self, t_setT_self]
    rfl
  refine ⟨?_, ?_, ?_, ?_, ?_, ?_⟩
  · show (reroute _ _ _).bufs = _
    rw [rb]; rfl
  · show (reroute _ _ _).next = _
    rw [rn]; rfl
  · intro t ht
    have e : (dupH h x).t t = (nullGrad (nullGrad h x) x).t t := by
      show (reroute _ _ _).t t = _
      rw [rt t, hpt t ht]
    rw [e]
    exact hf t
  · show ((reroute _ _ _).t h.next).data = _
    rw [rt, hpp]; exact (hf x).1
  · show ((reroute _ _ _).t h.next).const = _
    rw [rt, hpp]; exact (hf x).2.1
  · show ((reroute _ _ _).t h.next).vchildren = _
    rw [rt, hpp]; exact (hf x).2.2

end MG.C04R

namespace MG.C04R
open MG.Eng MG.ND MG.C13

theorem ro_reroute (h : Heap) (a b : Nat) : (reroute h a b).ro = h.ro := by
  unfold reroute
  generalize (h.t b).ops = L
  induction L generalizing h with
  | nil => rfl
  | cons f L ih => simp only [List.foldl_cons]; rw [ih]; rfl

theorem dupH_ro (h : Heap) (x : Nat) : (dupH h x).ro = h.ro := by
  unfold dupH
  rw [ro_reroute]
  rfl

theorem val_congr (h h' : Heap) (a : Arr) (hb : h'.buf a.buf = h.buf a.buf) : h'.val a = h.val a := by
  simp only [Heap.val, Heap.read, hb]

/-- **inplace_on_owner_refines_numpy.**  An in-place update `op(…, out=x)` / `x[key] = v` / `x op= v` on a
tensor `x` that owns its (C-contiguous) memory and has no live views, with tensor operands `ids` (which may
include `x` itself), succeeds exactly with NumPy's result: if writing the kernel's values into an array holding
`x`'s values gives `vals` (`outWrite`, the NumPy-level semantics of the statement), then `_in_place_op` returns a
heap in which the *same tensor id* `x` reads `vals`, keeps its constant flag and still owns its memory; no buffer
that existed before the statement was written (every placeholder, and every other tensor, still reads what it
read before); every other tensor keeps its array and its flag. -/
theorem inplace_on_owner_refines_numpy (h : Heap) (roots : List Nat) (x : Nat) (kind : Kind) (ids : List Nat)
    (vals : List Int)
    (hx : x < h.next) (hbase : (h.t x).base = none)
    (hnov : liveChildren h (liveSet h roots) x = [])
    (hvc : ∀ c ∈ (h.t x).vchildren, c ≠ x ∧ c ≠ h.next)
    (hcc : (h.t x).data.d.isCContig = true)
    (hro : h.ro.contains (h.t x).data.buf = false)
    (hids : ∀ i ∈ ids, i < h.next)
    (hbufs : ∀ i ∈ ids, (h.t i).data.buf ≠ h.next + 1) (hxbuf : (h.t x).data.buf ≠ h.next + 1)
    (hw : outWrite kind (ids.map fun i => h.val (h.t i).data) (h.t x).data.d.shape (h.read (h.t x).data) none
            = .ok vals)
    (hvl : vals.length = size (h.t x).data.d.shape) :
    ∃ h', inPlaceOp h roots x kind (ids.map Operand.t) = .ok h' ∧
      h' = finalH (dupH h x) x h.next kind ids vals ∧
      h'.val (h'.t x).data = ((h.t x).data.d.shape, vals) ∧
      (h'.t x).const = (h.t x).const ∧ (h'.t x).base = none ∧
      (∀ b, b ≠ h.next + 1 → h'.buf b = h.buf b) ∧
      (∀ t, t ≠ x → t ≠ h.next → t ≠ h.next + 3 →
        (h'.t t).data = (h.t t).data ∧ (h'.t t).const = (h.t t).const) := by
  have hne : h.next ≠ x := by omega
  obtain ⟨dB, dN, dT, dPd, dPc, dPv⟩ := dupH_spec h x hx
  -- facts about the tensor x itself in the duplicated heap
  obtain ⟨dxd, dxc, dxv⟩ := dT x (Ne.symm hne)
  obtain ⟨cA, cN, cT, cB, cR⟩ := copyH_spec (dupH h x) x
  have hbuf : ∀ b, (dupH h x).buf b = h.buf b := fun b => by simp only [Heap.buf, dB]
  -- 1. the prelude and the graph
  have hpre := prelude_owner h (liveSet h roots) x hbase
  have hnb : ((nullGrad h x).t x).base = none := by simp [nullGrad, hbase]
  have hlc : liveChildren (nullGrad h x) (liveSet h roots) x = [] := by
    unfold liveChildren at hnov ⊢
    have : ((nullGrad h x).t x).vchildren = (h.t x).vchildren := by simp [nullGrad]
    rw [this]; exact hnov
  have hdup := mkDupGraph_no_views (nullGrad h x) (liveSet h roots) x hx hnb hlc
  -- 2. the guarded call computes `vals`
  have hsw : ∀ i ∈ ids, (copyH (dupH h x) x).1.val ((copyH (dupH h x) x).1.t (swapVar x h.next i)).data
      = h.val (h.t i).data := by
    intro i hi
    have hil := hids i hi
    rw [cT]
    have hd : ((dupH h x).t (swapVar x h.next i)).data = (h.t i).data := by
      unfold swapVar
      by_cases e : i = x
      · subst e; simp only [if_true]; exact dPd
      · simp only [e, if_false]; exact (dT i (by omega)).1
    rw [hd]
    have hb1 : (h.t i).data.buf ≠ (dupH h x).next := by rw [dN]; exact hbufs i hi
    rw [val_congr (dupH h x) _ _ (cB _ hb1), val_congr h _ _ (hbuf _)]
  have hshape : (copyH (dupH h x) x).2.d.shape = (h.t x).data.d.shape := by
    rw [cA, dxd]; rfl
  have hread : (copyH (dupH h x) x).1.read (copyH (dupH h x) x).2 = h.read (h.t x).data := by
    rw [cA]
    have : ({ buf := (dupH h x).next, d := Desc.contig 0 ((dupH h x).t x).data.d.shape } : Arr) =
        ((dupH h x).newArr ((dupH h x).val ((dupH h x).t x).data)).2 := rfl
    rw [this]
    show ((dupH h x).newArr _).1.read _ = _
    rw [read_newArr _ _ (by simp [Heap.val, read_length])]
    simp only [Heap.val, dxd]
    have hb1 : (h.t x).data.buf ≠ (dupH h x).next := by rw [dN]; exact hxbuf
    simp only [Heap.read, hbuf]
  have hw' : outWrite kind ((ids.map (swapVar x h.next)).map fun i =>
      (copyH (dupH h x) x).1.val ((copyH (dupH h x) x).1.t i).data)
      (copyH (dupH h x) x).2.d.shape ((copyH (dupH h x) x).1.read (copyH (dupH h x) x).2) none = .ok vals := by
    rw [hshape, hread, List.map_map]
    have : (ids.map ((fun i => (copyH (dupH h x) x).1.val ((copyH (dupH h x) x).1.t i).data) ∘ swapVar x h.next))
        = ids.map fun i => h.val (h.t i).data := List.map_congr_left (fun i hi => hsw i hi)
    rw [this]; exact hw
  -- 3. the walk over the (one-node) graph after the update
  have hph : ∀ i ∈ ids, i ≠ h.next := fun i hi => by have := hids i hi; omega
  have hcc' : ((dupH h x).t x).data.d.isCContig = true := by rw [dxd]; exact hcc
  have hvl' : vals.length = size ((dupH h x).t x).data.d.shape := by rw [dxd]; exact hvl
  have hx' : x < (dupH h x).next := by rw [dN]; omega
  have hdfs : ∀ c ∈ ((finalH (dupH h x) x h.next kind ids vals).t h.next).vchildren, c ≠ x ∧ c ≠ h.next := by
    have e1 : (finalH (dupH h x) x h.next kind ids vals).t h.next =
        (outRes (copyH (dupH h x) x).1 kind (ids.map (swapVar x h.next)) (ids.map (swapVar x h.next)) (copyH (dupH h x) x).2 vals).1.t h.next := by
      obtain ⟨rId, _, _, _, _⟩ := outRes_spec (copyH (dupH h x) x).1 kind (ids.map (swapVar x h.next)) (ids.map (swapVar x h.next)) (copyH (dupH h x) x).2 vals
      rw [cN, dN] at rId
      show ({ (mirror _ x _) with tens := _ } : Heap).t h.next = _
      rw [rId, t_filter_ne _ _ _ (by omega)]
      simp only [mirror]
      rw [t_setT_ne _ _ _ _ hne, t_modT_ne _ _ _ _ (by omega)]
    rw [e1, outRes_vchildren _ _ _ _ _ _ _ (by rw [cN, dN]; omega), cT, dPv]
    exact hvc
  have hro' : (dupH h x).ro.contains ((dupH h x).t x).data.buf = false := by
    rw [dxd, dupH_ro]; exact hro
  have hmut := mutate_single_eq (dupH h x) x h.next kind ids vals hcc' hph hro' hw' hdfs
  obtain ⟨f1, f2, f3, f4, f5⟩ := finalH_spec (dupH h x) x h.next kind ids vals hx' hvl'
  refine ⟨finalH (dupH h x) x h.next kind ids vals, ?_, rfl, ?_, ?_, f3, ?_, ?_⟩
  · unfold inPlaceOp
    simp only [hpre, hnb, Option.isNone_none, Option.getD_none]
    rw [hdup]
    exact hmut
  · rw [f1, dxd]
  · rw [f2, dxc]
  · intro b hb
    rw [f4 b (by rw [dN]; exact hb)]
    exact hbuf b
  · intro t h1 h2 h3
    obtain ⟨g1, g2⟩ := f5 t h1 (by rw [dN]; omega)
    obtain ⟨d1, d2, _⟩ := dT t h2
    exact ⟨g1.trans d1, g2.trans d2⟩

end MG.C04R

namespace MG.C04R
open MG.Eng MG.ND MG.C13

/-- the premises are satisfiable, and the conclusion is what the executable model computes: `x += x` on the leaf of
`C13.exHeap` (values [3, 4], holding a gradient, consumed by one op) -/
example :
    (0 : Nat) < exHeap.next ∧ (exHeap.t 0).base = none ∧ liveChildren exHeap (liveSet exHeap [0]) 0 = [] ∧
    (exHeap.t 0).data.d.isCContig = true ∧
    outWrite .add ([0, 0].map fun i => exHeap.val (exHeap.t i).data) (exHeap.t 0).data.d.shape
      (exHeap.read (exHeap.t 0).data) none = .ok [6, 8] ∧
    (match inPlaceOp exHeap [0] 0 .add [.t 0, .t 0] with
      | .ok h' => h'.val (h'.t 0).data == ([2], [6, 8]) && (h'.t 0).base.isNone && !(h'.t 0).const
      | .error _ => false) = true := by
  refine ⟨by decide, rfl, rfl, rfl, rfl, rfl⟩

end MG.C04R

/-! ## the graph after the update is the single-assignment form of the statement -/

namespace MG.C04R
open MG.Eng MG.ND MG.C13

theorem op_foldl_modT {γ} (xs : List γ) (step : Heap → γ → Heap) (hs : ∀ h c g, (step h c).op g = h.op g) (h : Heap) (g : Nat) :
    (xs.foldl step h).op g = h.op g := by
  induction xs generalizing h with
  | nil => rfl
  | cons c cs ih => simp only [List.foldl_cons]; rw [ih, hs]

/-- the op that `opStepOut` records: the kernel applied to the operand ids; every other op is untouched -/
theorem outCore_ops (h : Heap) (kind : Kind) (users vars : List Nat) (out : Arr) :
    ((outCore h kind users vars out).1.t (h.next + 1)).creator = some h.next ∧
    ((outCore h kind users vars out).1.op h.next).kind = kind ∧
    ((outCore h kind users vars out).1.op h.next).vars = vars ∧
    (∀ g, g ≠ h.next → (outCore h kind users vars out).1.op g = h.op g) := by
  let h1 := h
  let step1 : Heap → Nat → Heap := fun h v =>
    let tv := h.t v
    let h := if tv.base.isSome ∧ tv.creator.isNone then h.modT v ({ · with base := none }) else h
    h.modT v ({ · with grad := none, viewGrad := none })
  have o1 : ∀ h c g, (step1 h c).op g = h.op g := by
    intro h c g; simp only [step1]; split <;> rfl
  have n1 : ∀ h c, (step1 h c).next = h.next := by
    intro h c; simp only [step1]; split <;> rfl
  let h2 := users.foldl step1 h1
  have N2 : h2.next = h.next := (next_foldl users step1 n1 h1).trans rfl
  have O2 : ∀ g, h2.op g = h.op g := fun g => (op_foldl_modT users step1 o1 h1 g).trans rfl
  let f := h2.next
  let h3 := (h2.fresh.1).setOp f { kind := kind, vars := vars, whereMask := none }
  let step2 : Heap → Nat → Heap := fun h v => h.modT v fun t => { t with ops := f :: t.ops }
  let h4 := vars.foldl step2 h3
  have O4 : ∀ g, h4.op g = h3.op g := fun g => op_foldl_modT vars step2 (fun _ _ _ => rfl) h3 g
  have N4 : h4.next = h.next + 1 := by
    rw [next_foldl vars step2 (fun _ _ => rfl) h3]
    show h2.next + 1 = _
    rw [N2]
  have e : outCore h kind users vars out =
      ((h4.fresh.1).setT h4.next { data := out, const := !(vars.any fun v => !(h2.t v).const), creator := some f }, h4.next) := rfl
  rw [e]
  have hf : f = h.next := N2
  refine ⟨?_, ?_, ?_, ?_⟩
  · simp only [← N4, t_setT_self, hf]
  · show (h4.op h.next).kind = _
    rw [O4, ← hf]; simp [h3, op_setOp_self]
  · show (h4.op h.next).vars = _
    rw [O4, ← hf]; simp [h3, op_setOp_self]
  · intro g hg
    show h4.op g = _
    rw [O4]
    have : g ≠ f := by rw [hf]; exact hg
    simp only [h3]
    rw [op_setOp_ne _ _ _ _ this]
    exact O2 g


theorem outRes_ops (h : Heap) (kind : Kind) (users vars : List Nat) (out : Arr) (vals : List Int) :
    ((outRes h kind users vars out vals).1.t (h.next + 1)).creator = some h.next ∧
    ((outRes h kind users vars out vals).1.op h.next).kind = kind ∧
    ((outRes h kind users vars out vals).1.op h.next).vars = vars ∧
    (∀ g, g ≠ h.next → (outRes h kind users vars out vals).1.op g = h.op g) :=
  outCore_ops (h.write out vals) kind users vars out

end MG.C04R

namespace MG.C04R
open MG.Eng MG.ND MG.C13

theorem dupH_ops (h : Heap) (x : Nat) (hx : x < h.next) (g : Nat) :
    ((dupH h x).op g).vars =
      if g ∈ (h.t x).ops then (h.op g).vars.map (swapVar x h.next) else (h.op g).vars := by
  have hne : h.next ≠ x := by omega
  obtain ⟨_, _, _, rv⟩ := reroute_spec (phHeap (nullGrad (nullGrad h x) x) x) h.next x hne
  show ((reroute _ _ _).op g).vars = _
  rw [rv g]
  have h1 : ((phHeap (nullGrad (nullGrad h x) x) x).t x).ops = (h.t x).ops := by
    simp only [phHeap, mirror, fresh_snd]
    have hn : (nullGrad (nullGrad h x) x).next = h.next := rfl
    rw [hn, t_modT_ne _ _ _ _ (Ne.symm hne), t_setT_ne _ _ _ _ (Ne.symm hne)]
    show ((nullGrad (nullGrad h x) x).t x).ops = _
    simp [nullGrad]
  have h2 : (phHeap (nullGrad (nullGrad h x) x) x).op g = h.op g := rfl
  rw [h1, h2]

/-- **inplace_on_owner_is_ssa_renaming.**  The graph an in-place update leaves behind *is* the single-assignment
form of the statement `x' = kernel(operands[x ↦ x_old])`: the public tensor `x` is now the output of one new op of
the given kind whose inputs are the operands with `x` replaced by the placeholder `p` (a fresh id); every op that
consumed `x` before consumes `p` instead and no other op changed; and `p` reads exactly what `x` read before the
statement.  (So backward through the updated graph is backward through the functional program — `C01.backward_sound`
applies to it unchanged.) -/
theorem inplace_on_owner_is_ssa_renaming (h : Heap) (x : Nat) (kind : Kind) (ids : List Nat) (vals : List Int)
    (hx : x < h.next) (hxbuf : (h.t x).data.buf ≠ h.next + 1)
    (hvl : vals.length = size (h.t x).data.d.shape) :
    let p := h.next
    let F := finalH (dupH h x) x p kind ids vals
    (F.t x).creator = some (h.next + 2) ∧
    (F.op (h.next + 2)).kind = kind ∧ (F.op (h.next + 2)).vars = ids.map (swapVar x p) ∧
    (∀ g, g ≠ h.next + 2 → (F.op g).vars =
      if g ∈ (h.t x).ops then (h.op g).vars.map (swapVar x p) else (h.op g).vars) ∧
    F.val (F.t p).data = h.val (h.t x).data := by
  intro p F
  have hne : h.next ≠ x := by omega
  obtain ⟨dB, dN, dT, dPd, dPc, dPv⟩ := dupH_spec h x hx
  obtain ⟨cA, cN, cT, cB, cR⟩ := copyH_spec (dupH h x) x
  obtain ⟨oC, oK, oV, oO⟩ := outRes_ops (copyH (dupH h x) x).1 kind (ids.map (swapVar x p)) (ids.map (swapVar x p)) (copyH (dupH h x) x).2 vals
  obtain ⟨rId, _, _, _, rO⟩ := outRes_spec (copyH (dupH h x) x).1 kind (ids.map (swapVar x p)) (ids.map (swapVar x p)) (copyH (dupH h x) x).2 vals
  rw [cN, dN] at oC oK oV oO rId rO
  have hFop : ∀ g, F.op g = (outRes (copyH (dupH h x) x).1 kind (ids.map (swapVar x p)) (ids.map (swapVar x p)) (copyH (dupH h x) x).2 vals).1.op g :=
    fun _ => rfl
  have hxo : x ≠ h.next + 1 + 1 + 1 := by omega
  refine ⟨?_, ?_, ?_, ?_, ?_⟩
  · have : F.t x = ((outRes (copyH (dupH h x) x).1 kind (ids.map (swapVar x p)) (ids.map (swapVar x p)) (copyH (dupH h x) x).2 vals).1.modT
        (h.next + 1 + 1 + 1) ({ · with const := ((dupH h x).t x).const })).t (h.next + 1 + 1 + 1) := by
      show ({ (mirror _ x _) with tens := _ } : Heap).t x = _
      rw [rId, t_filter_ne _ _ _ hxo]
      simp only [mirror, t_setT_self]
    rw [this, t_modT_self]
    exact oC
  · rw [hFop]; exact oK
  · rw [hFop]; exact oV
  · intro g hg
    rw [hFop, oO g hg]
    show ((dupH h x).op g).vars = _
    exact dupH_ops h x hx g
  · obtain ⟨_, _, _, f4, f5⟩ := finalH_spec (dupH h x) x p kind ids vals (by rw [dN]; omega) (by rw [(dT x (Ne.symm hne)).1]; exact hvl)
    obtain ⟨g1, _⟩ := f5 p hne (by rw [dN]; omega)
    rw [g1, dPd]
    apply val_congr
    rw [f4 _ (by rw [dN]; exact hxbuf)]
    simp only [Heap.buf, dB]

end MG.C04R

/-! ## any operands: tensors and literals -/

namespace MG.C04R
open MG.Eng MG.ND MG.C13

/-- the tensor operands among the inputs of a call -/
def userIds : List Operand → List Nat
  | [] => []
  | .t i :: r => i :: userIds r
  | .lit _ :: r => userIds r

theorem filterMap_userIds (F : Operand → Option Nat) (hF : ∀ i, F (.t i) = some i) (hL : ∀ v, F (.lit v) = none)
    (inputs : List Operand) : inputs.filterMap F = userIds inputs := by
  induction inputs with
  | nil => rfl
  | cons o r ih => cases o <;> simp [List.filterMap_cons, userIds, hF, hL, ih]

/-- `opStepOut` for arbitrary operands (tensors and literals), no `where=` -/
theorem opStepOut_eq (h : Heap) (kind : Kind) (inputs : List Operand) (out : Arr) (vals : List Int)
    (hw : outWrite kind ((wrapOperands h inputs).2.map fun i =>
            (wrapOperands h inputs).1.val ((wrapOperands h inputs).1.t i).data) out.d.shape
            ((wrapOperands h inputs).1.read out) none = .ok vals) :
    opStepOut h kind inputs none none out =
      .ok (outRes (wrapOperands h inputs).1 kind (userIds inputs) (wrapOperands h inputs).2 out vals) := by
  unfold opStepOut
  simp only
  rw [hw, filterMap_userIds _ (fun i => rfl) (fun v => rfl)]
  rfl

/-- the value an operand denotes -/
def operandVal (h : Heap) : Operand → Val
  | .t i => h.val (h.t i).data
  | .lit v => v

/-- an operand the call can take: a tensor that exists and whose array lives in an existing buffer, or a
well-formed literal -/
def WFop (h : Heap) : Operand → Prop
  | .t i => i < h.next ∧ (h.t i).data.buf < h.next
  | .lit v => v.2.length = size v.1

/-- `h'` extends `h`: everything below `h.next` is as it was -/
def Ext (h h' : Heap) : Prop :=
  h.next ≤ h'.next ∧ (∀ t, t < h.next → h'.t t = h.t t) ∧ (∀ b, b < h.next → h'.buf b = h.buf b) ∧
  h'.ops = h.ops ∧ h'.ro = h.ro

theorem Ext.refl (h : Heap) : Ext h h := ⟨Nat.le_refl _, fun _ _ => rfl, fun _ _ => rfl, rfl, rfl⟩
theorem Ext.trans {a b c : Heap} (h1 : Ext a b) (h2 : Ext b c) : Ext a c :=
  ⟨Nat.le_trans h1.1 h2.1, fun t ht => (h2.2.1 t (Nat.lt_of_lt_of_le ht h1.1)).trans (h1.2.1 t ht),
   fun b hb => (h2.2.2.1 b (Nat.lt_of_lt_of_le hb h1.1)).trans (h1.2.2.1 b hb),
   h2.2.2.2.1.trans h1.2.2.2.1, h2.2.2.2.2.trans h1.2.2.2.2⟩

theorem ext_wrapLit (h : Heap) (v : Val) :
    Ext h (((h.newArr v).1.fresh.1).setT (h.newArr v).1.fresh.2 { data := (h.newArr v).2, const := true }) := by
  refine ⟨?_, ?_, ?_, rfl, rfl⟩
  · show h.next ≤ h.next + 1 + 1; omega
  · intro t ht
    have : t ≠ (h.newArr v).1.fresh.2 := by
      show t ≠ h.next + 1; omega
    rw [t_setT_ne _ _ _ _ this]; rfl
  · intro b hb
    simp only [Heap.buf, Heap.newArr, Heap.fresh, Heap.setT]
    rw [lookup_insert_ne _ _ _ _ (by omega)]

theorem wrap_ext (inputs : List Operand) : ∀ h : Heap, Ext h (wrapOperands h inputs).1 := by
  induction inputs with
  | nil => intro h; exact Ext.refl h
  | cons o r ih =>
    intro h
    cases o with
    | t i => simp only [wrapOperands]; exact ih h
    | lit v =>
      simp only [wrapOperands]
      exact (ext_wrapLit h v).trans (ih _)

end MG.C04R

namespace MG.C04R
open MG.Eng MG.ND MG.C13

theorem WFop_ext {h h' : Heap} (e : Ext h h') (o : Operand) (hw : WFop h o) : WFop h' o := by
  cases o with
  | t i =>
    obtain ⟨h1, h2⟩ := hw
    refine ⟨Nat.lt_of_lt_of_le h1 e.1, ?_⟩
    rw [e.2.1 i h1]; exact Nat.lt_of_lt_of_le h2 e.1
  | lit v => exact hw

theorem operandVal_ext {h h' : Heap} (e : Ext h h') (o : Operand) (hw : WFop h o) :
    operandVal h' o = operandVal h o := by
  cases o with
  | t i =>
    obtain ⟨h1, h2⟩ := hw
    simp only [operandVal]
    rw [e.2.1 i h1]
    exact val_congr h h' _ (e.2.2.1 _ h2)
  | lit v => rfl

theorem wrap_vals (inputs : List Operand) : ∀ h : Heap, (∀ o ∈ inputs, WFop h o) →
    (wrapOperands h inputs).2.map (fun i => (wrapOperands h inputs).1.val ((wrapOperands h inputs).1.t i).data)
      = inputs.map (operandVal h) ∧
    (∀ i ∈ (wrapOperands h inputs).2, i < (wrapOperands h inputs).1.next) := by
  induction inputs with
  | nil => intro h _; exact ⟨rfl, fun i hi => by cases hi⟩
  | cons o r ih =>
    intro h hwf
    have hwr : ∀ o ∈ r, WFop h o := fun o ho => hwf o (List.mem_cons_of_mem _ ho)
    cases o with
    | t i =>
      obtain ⟨i1, i2⟩ := hwf (.t i) (List.mem_cons_self ..)
      obtain ⟨v1, v2⟩ := ih h hwr
      have e := wrap_ext r h
      simp only [wrapOperands, List.map_cons, operandVal]
      refine ⟨?_, ?_⟩
      · rw [v1, e.2.1 i i1, val_congr h _ _ (e.2.2.1 _ i2)]
      · intro j hj
        rcases List.mem_cons.mp hj with rfl | hj
        · exact Nat.lt_of_lt_of_le i1 e.1
        · exact v2 j hj
    | lit v =>
      have hv : v.2.length = size v.1 := hwf (.lit v) (List.mem_cons_self ..)
      -- the heap after wrapping the literal
      let h1 := ((h.newArr v).1.fresh.1).setT (h.newArr v).1.fresh.2 { data := (h.newArr v).2, const := true }
      have e1 : Ext h h1 := ext_wrapLit h v
      have hwr1 : ∀ o ∈ r, WFop h1 o := fun o ho => WFop_ext e1 o (hwr o ho)
      obtain ⟨v1, v2⟩ := ih h1 hwr1
      have e := wrap_ext r h1
      have hj : (h.newArr v).1.fresh.2 < h1.next := by show h.next + 1 < h.next + 1 + 1; omega
      have hval : h1.val (h1.t (h.newArr v).1.fresh.2).data = v := by
        have : (h1.t (h.newArr v).1.fresh.2).data = (h.newArr v).2 := by simp [h1]
        rw [this]
        have hb : h1.buf (h.newArr v).2.buf = (h.newArr v).1.buf (h.newArr v).2.buf := rfl
        rw [val_congr (h.newArr v).1 h1 _ hb]
        simp only [Heap.val]
        rw [read_newArr h v hv]
        rfl
      simp only [wrapOperands, List.map_cons, operandVal]
      refine ⟨?_, ?_⟩
      · have t1 : (wrapOperands h1 r).1.t (h.newArr v).1.fresh.2 = h1.t (h.newArr v).1.fresh.2 := e.2.1 _ hj
        have hbl : (h1.t (h.newArr v).1.fresh.2).data.buf < h1.next := by
          have : (h1.t (h.newArr v).1.fresh.2).data = (h.newArr v).2 := by simp [h1]
          rw [this]; show h.next < h.next + 1 + 1; omega
        have : (wrapOperands h1 r).1.val ((wrapOperands h1 r).1.t (h.newArr v).1.fresh.2).data = v := by
          rw [t1, val_congr h1 _ _ (e.2.2.1 _ hbl)]; exact hval
        show _ :: _ = _ :: _
        rw [this, v1]
        congr 1
        exact List.map_congr_left (fun o ho => operandVal_ext e1 o (hwr o ho))
      · intro j hj'
        rcases List.mem_cons.mp hj' with rfl | hj'
        · exact Nat.lt_of_lt_of_le hj e.1
        · exact v2 j hj'

end MG.C04R

namespace MG.C04R
open MG.Eng MG.ND MG.C13

/-- operands as the guarded call sees them: `x` replaced by its placeholder -/
def phMap (x p : Nat) : Operand → Operand
  | .t i => .t (swapVar x p i)
  | o => o

theorem map_phMap (x p : Nat) (F : Operand → Operand)
    (hF : ∀ i, F (.t i) = Operand.t ((G1 x p).placeholderIfExists i)) (hL : ∀ v, F (.lit v) = .lit v)
    (inputs : List Operand) (hph : ∀ i, Operand.t i ∈ inputs → i ≠ p) :
    inputs.map F = inputs.map (phMap x p) := by
  induction inputs with
  | nil => rfl
  | cons o r ih =>
    simp only [List.map_cons]
    rw [ih (fun j hj => hph j (List.mem_cons_of_mem _ hj))]
    cases o with
    | t i => rw [hF, G1_ph x p i (hph i (List.mem_cons_self ..))]; rfl
    | lit v => rw [hL]; rfl

/-- the final heap of an in-place update on a tensor without views, any operands -/
def finalHL (H : Heap) (x p : Nat) (kind : Kind) (inputs : List Operand) (vals : List Int) : Heap :=
  let w := wrapOperands (copyH H x).1 (inputs.map (phMap x p))
  let r := outRes w.1 kind (userIds (inputs.map (phMap x p))) w.2 (copyH H x).2 vals
  let h5 := r.1.modT r.2 ({ · with const := (H.t x).const })
  let h6 := mirror h5 x r.2
  { h6 with tens := h6.tens.filter fun q => q.1 ≠ r.2 }

theorem mutate_single_eqL (H : Heap) (x p : Nat) (kind : Kind) (inputs : List Operand) (vals : List Int)
    (hcc : (H.t x).data.d.isCContig = true) (hph : ∀ i, Operand.t i ∈ inputs → i ≠ p)
    (hro : H.ro.contains (H.t x).data.buf = false)
    (hw : let w := wrapOperands (copyH H x).1 (inputs.map (phMap x p))
          outWrite kind (w.2.map fun i => w.1.val (w.1.t i).data) (copyH H x).2.d.shape (w.1.read (copyH H x).2) none
            = .ok vals)
    (hdfs : ∀ c ∈ ((finalHL H x p kind inputs vals).t p).vchildren, c ≠ x ∧ c ≠ p) :
    inPlaceMutate H (G1 x p) x true kind inputs none none = .ok (finalHL H x p kind inputs vals) := by
  unfold inPlaceMutate
  simp only [G1_base, Heap.copyArrK, hcc, if_true, G1_node_x, Option.isNone_some, Bool.false_eq_true, if_false]
  show (do
    let (target, chain) ← withHeap (copyH H x).1 (inPlaceTarget (copyH H x).1 (G1 x p) x (copyH H x).2)
    _) = _
  rw [G1_target]
  have hro' : (copyH H x).1.ro.contains (H.t x).data.buf = false := hro
  simp only [withHeap, Bind.bind, Except.bind, List.any_nil, hro', Bool.or_self, Bool.false_eq_true, if_false]
  rw [map_phMap x p _ (fun i => rfl) (fun v => rfl) inputs hph]
  rw [show (H.newArr (H.val (H.t x).data)).fst = (copyH H x).1 from rfl, opStepOut_eq _ _ _ _ _ hw]
  simp only [pure, Except.pure, if_true, Bool.false_or, hro', Bool.false_eq_true, if_false]
  show recreateViews (finalHL H x p kind inputs vals) ((G1 x p).dfs (finalHL H x p kind inputs vals)) = _
  rw [show G1 x p = ⟨[⟨x, p, none⟩]⟩ from rfl, dfs_single _ x p hdfs, recreate_single]

end MG.C04R

namespace MG.C04R
open MG.Eng MG.ND MG.C13

theorem finalHL_spec (H : Heap) (x p : Nat) (kind : Kind) (inputs : List Operand) (vals : List Int)
    (hx : x < H.next) (hvl : vals.length = size (H.t x).data.d.shape) :
    let F := finalHL H x p kind inputs vals
    F.val (F.t x).data = ((H.t x).data.d.shape, vals) ∧ (F.t x).const = (H.t x).const ∧ (F.t x).base = none ∧
    (∀ b, b < H.next → F.buf b = H.buf b) ∧
    (∀ t, t ≠ x → t < H.next → (F.t t).data = (H.t t).data ∧ (F.t t).const = (H.t t).const) := by
  intro F
  obtain ⟨cA, cN, cT, cB, cR⟩ := copyH_spec H x
  have e := wrap_ext (inputs.map (phMap x p)) (copyH H x).1
  obtain ⟨eN, eT, eB, _, _⟩ := e
  rw [cN] at eN eT eB
  obtain ⟨rId, rB, rD, rBase, rO⟩ := outRes_spec (wrapOperands (copyH H x).1 (inputs.map (phMap x p))).1 kind
    (userIds (inputs.map (phMap x p))) (wrapOperands (copyH H x).1 (inputs.map (phMap x p))).2 (copyH H x).2 vals
  -- abbreviations
  generalize hW : (wrapOperands (copyH H x).1 (inputs.map (phMap x p))).1 = W at eN eT eB rId rB rD rBase rO
  generalize hR : outRes W kind (userIds (inputs.map (phMap x p))) (wrapOperands (copyH H x).1 (inputs.map (phMap x p))).2
    (copyH H x).2 vals = R at rId rB rD rBase rO
  have hF : F = { (mirror (R.1.modT R.2 ({ · with const := (H.t x).const })) x R.2) with
      tens := (mirror (R.1.modT R.2 ({ · with const := (H.t x).const })) x R.2).tens.filter fun q => q.1 ≠ R.2 } := by
    show finalHL H x p kind inputs vals = _
    unfold finalHL
    simp only [hW, hR]
  have hxo : x ≠ R.2 := by rw [rId]; omega
  have hFx : F.t x = (R.1.modT R.2 ({ · with const := (H.t x).const })).t R.2 := by
    rw [hF, t_filter_ne _ _ _ hxo]
    simp only [mirror, t_setT_self]
  have hFb : F.bufs = (W.write (copyH H x).2 vals).bufs := by rw [hF]; exact rB
  have hdata : (F.t x).data = (copyH H x).2 := by rw [hFx, t_modT_self, rId]; exact rD
  have hbufN : W.buf H.next = H.read (H.t x).data := by rw [eB H.next (by omega)]; exact cR
  refine ⟨?_, ?_, ?_, ?_, ?_⟩
  · have hread : F.read (copyH H x).2 = (W.write (copyH H x).2 vals).read (copyH H x).2 := by
      simp only [Heap.read, Heap.buf, hFb]
    simp only [Heap.val, hdata]
    rw [hread, read_write_same]
    · rw [cA]; rfl
    · rw [cA]; simp only; rw [positions_contig]; exact nodup_range_map_add 0 _
    · rw [cA]; simp only; rw [positions_contig]; simp [hvl]
    · intro q hq
      rw [cA] at hq ⊢
      simp only at hq ⊢
      rw [positions_contig] at hq
      rw [hbufN, read_length]
      obtain ⟨i, hi, rfl⟩ := List.mem_map.mp hq
      simpa using List.mem_range.mp hi
  · rw [hFx, t_modT_self]
  · rw [hFx, t_modT_self, rId]; exact rBase
  · intro b hb
    simp only [Heap.buf, hFb]
    have hbuf : (copyH H x).2.buf = H.next := by rw [cA]
    have h1 := write_frames_buffer W (copyH H x).2 vals b (by rw [hbuf]; omega)
    simp only [Heap.buf] at h1
    rw [h1]
    have := eB b (by omega)
    simp only [Heap.buf] at this
    rw [this]
    exact cB b (by omega)
  · intro t htx htl
    have hto : t ≠ R.2 := by rw [rId]; omega
    have : F.t t = R.1.t t := by
      rw [hF, t_filter_ne _ _ _ hto]
      simp only [mirror]
      rw [t_setT_ne _ _ _ _ htx, t_modT_ne _ _ _ _ hto]
    rw [this]
    obtain ⟨d1, d2⟩ := rO t (by rw [← rId]; exact hto)
    rw [d1, d2, eT t (by omega), cT]
    exact ⟨rfl, rfl⟩

end MG.C04R

namespace MG.C04R
open MG.Eng MG.ND MG.C13

/-- **inplace_on_owner_refines_numpy_general.**  As `inplace_on_owner_refines_numpy`, for *any* operands — tensors
(the target itself included) and literals (ndarrays / Python scalars, which `Tensor._op` wraps as fresh constant
tensors): `x[key] = v`, `x op= v`, `ufunc(a, b, out=x)` on a tensor `x` that owns its C-contiguous, writeable
memory and has no live views.  If the NumPy-level statement (`outWrite` on the operands' values and `x`'s values)
yields `vals`, the update succeeds; the same tensor id `x` then reads `vals`, keeps its constant flag and owns its
memory; every buffer that existed before the statement is unchanged, and every other existing tensor keeps its
array and flag. -/
theorem inplace_on_owner_refines_numpy_general (h : Heap) (roots : List Nat) (x : Nat) (kind : Kind)
    (inputs : List Operand) (vals : List Int)
    (hx : x < h.next) (hbase : (h.t x).base = none)
    (hnov : liveChildren h (liveSet h roots) x = [])
    (hvc : ∀ c ∈ (h.t x).vchildren, c ≠ x ∧ c ≠ h.next)
    (hcc : (h.t x).data.d.isCContig = true)
    (hro : h.ro.contains (h.t x).data.buf = false)
    (hwf : ∀ o ∈ inputs, WFop h o) (hxbuf : (h.t x).data.buf < h.next)
    (hw : outWrite kind (inputs.map (operandVal h)) (h.t x).data.d.shape (h.read (h.t x).data) none = .ok vals)
    (hvl : vals.length = size (h.t x).data.d.shape) :
    ∃ h', inPlaceOp h roots x kind inputs = .ok h' ∧
      h' = finalHL (dupH h x) x h.next kind inputs vals ∧
      h'.val (h'.t x).data = ((h.t x).data.d.shape, vals) ∧
      (h'.t x).const = (h.t x).const ∧ (h'.t x).base = none ∧
      (∀ b, b < h.next → h'.buf b = h.buf b) ∧
      (∀ t, t ≠ x → t < h.next → (h'.t t).data = (h.t t).data ∧ (h'.t t).const = (h.t t).const) := by
  have hne : h.next ≠ x := by omega
  obtain ⟨dB, dN, dT, dPd, dPc, dPv⟩ := dupH_spec h x hx
  obtain ⟨dxd, dxc, dxv⟩ := dT x (Ne.symm hne)
  obtain ⟨cA, cN, cT, cB, cR⟩ := copyH_spec (dupH h x) x
  have hbuf : ∀ b, (dupH h x).buf b = h.buf b := fun b => by simp only [Heap.buf, dB]
  -- 1. the prelude and the graph
  have hpre := prelude_owner h (liveSet h roots) x hbase
  have hnb : ((nullGrad h x).t x).base = none := by simp [nullGrad, hbase]
  have hlc : liveChildren (nullGrad h x) (liveSet h roots) x = [] := by
    unfold liveChildren at hnov ⊢
    have : ((nullGrad h x).t x).vchildren = (h.t x).vchildren := by simp [nullGrad]
    rw [this]; exact hnov
  have hdup := mkDupGraph_no_views (nullGrad h x) (liveSet h roots) x hx hnb hlc
  -- 2. the operands as the guarded call sees them
  have hph : ∀ i, Operand.t i ∈ inputs → i ≠ h.next := fun i hi => by
    have := (hwf _ hi).1; omega
  have hwfC : ∀ o ∈ inputs.map (phMap x h.next), WFop (copyH (dupH h x) x).1 o := by
    intro o ho
    obtain ⟨o0, ho0, rfl⟩ := List.mem_map.mp ho
    cases o0 with
    | lit v => exact hwf _ ho0
    | t i =>
      obtain ⟨i1, i2⟩ := hwf _ ho0
      show swapVar x h.next i < (copyH (dupH h x) x).1.next ∧ ((copyH (dupH h x) x).1.t (swapVar x h.next i)).data.buf < _
      rw [cN, dN, cT]
      have hd : ((dupH h x).t (swapVar x h.next i)).data = (h.t i).data := by
        unfold swapVar
        by_cases e : i = x
        · subst e; simp only [if_true]; exact dPd
        · simp only [e, if_false]; exact (dT i (by omega)).1
      rw [hd]
      refine ⟨?_, by omega⟩
      unfold swapVar; split <;> omega
  have hvalC : (inputs.map (phMap x h.next)).map (operandVal (copyH (dupH h x) x).1) = inputs.map (operandVal h) := by
    rw [List.map_map]
    apply List.map_congr_left
    intro o ho
    cases o with
    | lit v => rfl
    | t i =>
      obtain ⟨i1, i2⟩ := hwf _ ho
      show (copyH (dupH h x) x).1.val ((copyH (dupH h x) x).1.t (swapVar x h.next i)).data = h.val (h.t i).data
      rw [cT]
      have hd : ((dupH h x).t (swapVar x h.next i)).data = (h.t i).data := by
        unfold swapVar
        by_cases e : i = x
        · subst e; simp only [if_true]; exact dPd
        · simp only [e, if_false]; exact (dT i (by omega)).1
      rw [hd]
      have hb1 : (h.t i).data.buf ≠ (dupH h x).next := by rw [dN]; omega
      rw [val_congr (dupH h x) _ _ (cB _ hb1), val_congr h _ _ (hbuf _)]
  obtain ⟨wv, _⟩ := wrap_vals (inputs.map (phMap x h.next)) (copyH (dupH h x) x).1 hwfC
  have hshape : (copyH (dupH h x) x).2.d.shape = (h.t x).data.d.shape := by rw [cA, dxd]; rfl
  have eW := wrap_ext (inputs.map (phMap x h.next)) (copyH (dupH h x) x).1
  have hread : (wrapOperands (copyH (dupH h x) x).1 (inputs.map (phMap x h.next))).1.read (copyH (dupH h x) x).2
      = h.read (h.t x).data := by
    have hb0 : (copyH (dupH h x) x).2.buf < (copyH (dupH h x) x).1.next := by rw [cA, cN]; show (dupH h x).next < _; omega
    have : (wrapOperands (copyH (dupH h x) x).1 (inputs.map (phMap x h.next))).1.read (copyH (dupH h x) x).2
        = (copyH (dupH h x) x).1.read (copyH (dupH h x) x).2 := by
      simp only [Heap.read, eW.2.2.1 _ hb0]
    rw [this, cA]
    have e2 : ({ buf := (dupH h x).next, d := Desc.contig 0 ((dupH h x).t x).data.d.shape } : Arr) =
        ((dupH h x).newArr ((dupH h x).val ((dupH h x).t x).data)).2 := rfl
    rw [e2]
    show ((dupH h x).newArr _).1.read _ = _
    rw [read_newArr _ _ (by simp [Heap.val, read_length])]
    simp only [Heap.val, dxd]
    simp only [Heap.read, hbuf]
  have hw' : (let w := wrapOperands (copyH (dupH h x) x).1 (inputs.map (phMap x h.next))
      outWrite kind (w.2.map fun i => w.1.val (w.1.t i).data) (copyH (dupH h x) x).2.d.shape
        (w.1.read (copyH (dupH h x) x).2) none = .ok vals) := by
    simp only
    rw [wv, hvalC, hshape, hread]; exact hw
  -- 3. the walk over the (one-node) graph after the update
  have hcc' : ((dupH h x).t x).data.d.isCContig = true := by rw [dxd]; exact hcc
  have hvl' : vals.length = size ((dupH h x).t x).data.d.shape := by rw [dxd]; exact hvl
  have hx' : x < (dupH h x).next := by rw [dN]; omega
  have hro' : (dupH h x).ro.contains ((dupH h x).t x).data.buf = false := by rw [dxd, dupH_ro]; exact hro
  have hdfs : ∀ c ∈ ((finalHL (dupH h x) x h.next kind inputs vals).t h.next).vchildren, c ≠ x ∧ c ≠ h.next := by
    obtain ⟨rId, _, _, _, _⟩ := outRes_spec (wrapOperands (copyH (dupH h x) x).1 (inputs.map (phMap x h.next))).1 kind
      (userIds (inputs.map (phMap x h.next))) (wrapOperands (copyH (dupH h x) x).1 (inputs.map (phMap x h.next))).2
      (copyH (dupH h x) x).2 vals
    have hN := eW.1
    rw [cN, dN] at hN
    have e1 : (finalHL (dupH h x) x h.next kind inputs vals).t h.next =
        (outRes (wrapOperands (copyH (dupH h x) x).1 (inputs.map (phMap x h.next))).1 kind
          (userIds (inputs.map (phMap x h.next))) (wrapOperands (copyH (dupH h x) x).1 (inputs.map (phMap x h.next))).2
          (copyH (dupH h x) x).2 vals).1.t h.next := by
      show ({ (mirror _ x _) with tens := _ } : Heap).t h.next = _
      rw [rId, t_filter_ne _ _ _ (by omega)]
      simp only [mirror]
      rw [t_setT_ne _ _ _ _ hne, t_modT_ne _ _ _ _ (by omega)]
    rw [e1, outRes_vchildren _ _ _ _ _ _ _ (by omega), eW.2.1 _ (by rw [cN, dN]; omega), cT, dPv]
    exact hvc
  have hmut := mutate_single_eqL (dupH h x) x h.next kind inputs vals hcc' hph hro' hw' hdfs
  obtain ⟨f1, f2, f3, f4, f5⟩ := finalHL_spec (dupH h x) x h.next kind inputs vals hx' hvl'
  refine ⟨finalHL (dupH h x) x h.next kind inputs vals, ?_, rfl, ?_, ?_, f3, ?_, ?_⟩
  · unfold inPlaceOp
    simp only [hpre, hnb, Option.isNone_none, Option.getD_none]
    rw [hdup]
    exact hmut
  · rw [f1, dxd]
  · rw [f2, dxc]
  · intro b hb
    rw [f4 b (by rw [dN]; omega)]
    exact hbuf b
  · intro t h1 h2
    obtain ⟨g1, g2⟩ := f5 t h1 (by rw [dN]; omega)
    obtain ⟨d1, d2, _⟩ := dT t (by omega)
    exact ⟨g1.trans d1, g2.trans d2⟩

end MG.C04R

namespace MG.C04R
open MG.Eng MG.ND MG.C13

/-- premises satisfiable, conclusion computed: `x[...] = 10` and `x *= [2, 3]` on the leaf of `C13.exHeap` -/
example :
    (∀ o ∈ [Operand.t 0, Operand.lit ([], [10])], WFop exHeap o) ∧ (exHeap.t 0).data.buf < exHeap.next ∧
    outWrite (.setitem (.basic [.ellipsis])) ([Operand.t 0, Operand.lit ([], [10])].map (operandVal exHeap))
      (exHeap.t 0).data.d.shape (exHeap.read (exHeap.t 0).data) none = .ok [10, 10] ∧
    (match inPlaceOp exHeap [0] 0 (.setitem (.basic [.ellipsis])) [.t 0, .lit ([], [10])] with
      | .ok h' => h'.val (h'.t 0).data == ([2], [10, 10]) && (h'.t 0).base.isNone
      | .error _ => false) = true ∧
    (match inPlaceOp exHeap [0] 0 .mul [.t 0, .lit ([2], [2, 3])] with
      | .ok h' => h'.val (h'.t 0).data == ([2], [6, 12])
      | .error _ => false) = true := by
  refine ⟨?_, by decide, rfl, rfl, rfl⟩
  intro o ho
  simp only [List.mem_cons, List.mem_nil_iff, or_false] at ho
  rcases ho with rfl | rfl
  · exact ⟨by decide, by decide⟩
  · rfl

end MG.C04R

/-! ## the failure path -/

namespace MG.C04R
open MG.Eng MG.ND MG.C13

theorem opStepOut_err (h : Heap) (kind : Kind) (inputs : List Operand) (out : Arr) (e : Err)
    (hw : outWrite kind ((wrapOperands h inputs).2.map fun i =>
            (wrapOperands h inputs).1.val ((wrapOperands h inputs).1.t i).data) out.d.shape
            ((wrapOperands h inputs).1.read out) none = .error e) :
    opStepOut h kind inputs none none out = .error e := by
  unfold opStepOut
  simp only
  rw [hw]

/-- the failure path of `inPlaceMutate` on the one-node graph: the old graph is restored on the heap that holds
the (unused) copy of the base -/
theorem mutate_single_fail (H : Heap) (x p : Nat) (kind : Kind) (inputs : List Operand) (e : Err)
    (hcc : (H.t x).data.d.isCContig = true) (hph : ∀ i, Operand.t i ∈ inputs → i ≠ p)
    (hro : H.ro.contains (H.t x).data.buf = false)
    (hw : let w := wrapOperands (copyH H x).1 (inputs.map (phMap x p))
          outWrite kind (w.2.map fun i => w.1.val (w.1.t i).data) (copyH H x).2.d.shape (w.1.read (copyH H x).2) none
            = .error e) :
    inPlaceMutate H (G1 x p) x true kind inputs none none = .error (e, (G1 x p).restore (copyH H x).1) := by
  unfold inPlaceMutate
  simp only [G1_base, Heap.copyArrK, hcc, if_true, G1_node_x, Option.isNone_some, Bool.false_eq_true, if_false]
  show (do
    let (target, chain) ← withHeap (copyH H x).1 (inPlaceTarget (copyH H x).1 (G1 x p) x (copyH H x).2)
    _) = _
  rw [G1_target]
  have hro' : (copyH H x).1.ro.contains (H.t x).data.buf = false := hro
  simp only [withHeap, Bind.bind, Except.bind, List.any_nil, hro', Bool.or_self, Bool.false_eq_true, if_false]
  rw [map_phMap x p _ (fun i => rfl) (fun v => rfl) inputs hph]
  rw [show (H.newArr (H.val (H.t x).data)).fst = (copyH H x).1 from rfl, opStepOut_err _ _ _ _ _ hw]
  simp only [Bool.false_or, hro', Bool.false_eq_true, if_false]

end MG.C04R

namespace MG.C04R
open MG.Eng MG.ND MG.C13

theorem dupH_tensors (h : Heap) (x : Nat) (hx : x < h.next) :
    (∀ t, t ≠ h.next → (dupH h x).t t = (nullGrad h x).t t) ∧
    (dupH h x).t h.next = { (nullGrad h x).t x with base := none } := by
  have hne : h.next ≠ x := by omega
  obtain ⟨rt, _, _, _⟩ := reroute_spec (phHeap (nullGrad (nullGrad h x) x) x) h.next x hne
  have hnn : ∀ t, (nullGrad (nullGrad h x) x).t t = (nullGrad h x).t t := by
    intro t
    unfold nullGrad
    by_cases e : t = x
    · subst e; simp
    · rw [t_modT_ne _ _ _ _ e]
  have hn : (nullGrad (nullGrad h x) x).next = h.next := rfl
  refine ⟨fun t ht => ?_, ?_⟩
  · show (reroute _ _ _).t t = _
    rw [rt t]
    simp only [phHeap, mirror, fresh_snd, hn]
    rw [t_modT_ne _ _ _ _ ht, t_setT_ne _ _ _ _ ht]
    exact hnn t
  · show (reroute _ _ _).t h.next = _
    rw [rt]
    simp only [phHeap, mirror, fresh_snd, hn, t_modT_self, t_setT_self]
    show ({ (nullGrad (nullGrad h x) x).t x with base := none } : Tens) = _
    rw [hnn x]

/-- **inplace_on_owner_failure_leaves_no_trace.**  If the NumPy-level statement is rejected (`outWrite` fails:
bad index, shapes that do not broadcast, …), the in-place update on a tensor without live views raises that error
and leaves a heap in which every tensor that existed is exactly as `x.null_grad()` leaves it (value, flag, base,
creator, consumers, view children — only `x`'s stale gradient is gone), every buffer that existed is unchanged and
every op has exactly its old variables: the placeholder is no longer referenced by anything. -/
theorem inplace_on_owner_failure_leaves_no_trace (h : Heap) (roots : List Nat) (x : Nat) (kind : Kind)
    (inputs : List Operand) (e : Err)
    (hx : x < h.next) (hbase : (h.t x).base = none)
    (hnov : liveChildren h (liveSet h roots) x = [])
    (hvc : ∀ c ∈ (h.t x).vchildren, c ≠ x ∧ c ≠ h.next)
    (hcc : (h.t x).data.d.isCContig = true)
    (hro : h.ro.contains (h.t x).data.buf = false)
    (hwf : ∀ o ∈ inputs, WFop h o) (hxbuf : (h.t x).data.buf < h.next)
    (hfresh : ∀ f, h.next ∉ (h.op f).vars)
    (hw : outWrite kind (inputs.map (operandVal h)) (h.t x).data.d.shape (h.read (h.t x).data) none = .error e) :
    ∃ hf, inPlaceOp h roots x kind inputs = .error (e, hf) ∧
      (∀ t, t < h.next → hf.t t = (nullGrad h x).t t) ∧
      (∀ b, b < h.next → hf.buf b = h.buf b) ∧
      (∀ f, (hf.op f).vars = (h.op f).vars) := by
  have hne : h.next ≠ x := by omega
  obtain ⟨dB, dN, dT, dPd, dPc, dPv⟩ := dupH_spec h x hx
  obtain ⟨dxd, dxc, dxv⟩ := dT x (Ne.symm hne)
  obtain ⟨tT, tP⟩ := dupH_tensors h x hx
  obtain ⟨cA, cN, cT, cB, cR⟩ := copyH_spec (dupH h x) x
  have hbuf : ∀ b, (dupH h x).buf b = h.buf b := fun b => by simp only [Heap.buf, dB]
  have hpre := prelude_owner h (liveSet h roots) x hbase
  have hnb : ((nullGrad h x).t x).base = none := by simp [nullGrad, hbase]
  have hlc : liveChildren (nullGrad h x) (liveSet h roots) x = [] := by
    unfold liveChildren at hnov ⊢
    have : ((nullGrad h x).t x).vchildren = (h.t x).vchildren := by simp [nullGrad]
    rw [this]; exact hnov
  have hdup := mkDupGraph_no_views (nullGrad h x) (liveSet h roots) x hx hnb hlc
  have hph : ∀ i, Operand.t i ∈ inputs → i ≠ h.next := fun i hi => by
    have := (hwf _ hi).1; omega
  -- the operands as the guarded call sees them (as in the success case)
  have hwfC : ∀ o ∈ inputs.map (phMap x h.next), WFop (copyH (dupH h x) x).1 o := by
    intro o ho
    obtain ⟨o0, ho0, rfl⟩ := List.mem_map.mp ho
    cases o0 with
    | lit v => exact hwf _ ho0
    | t i =>
      obtain ⟨i1, i2⟩ := hwf _ ho0
      show swapVar x h.next i < (copyH (dupH h x) x).1.next ∧ ((copyH (dupH h x) x).1.t (swapVar x h.next i)).data.buf < _
      rw [cN, dN, cT]
      have hd : ((dupH h x).t (swapVar x h.next i)).data = (h.t i).data := by
        unfold swapVar
        by_cases e : i = x
        · subst e; simp only [if_true]; exact dPd
        · simp only [e, if_false]; exact (dT i (by omega)).1
      rw [hd]
      refine ⟨?_, by omega⟩
      unfold swapVar; split <;> omega
  have hvalC : (inputs.map (phMap x h.next)).map (operandVal (copyH (dupH h x) x).1) = inputs.map (operandVal h) := by
    rw [List.map_map]
    apply List.map_congr_left
    intro o ho
    cases o with
    | lit v => rfl
    | t i =>
      obtain ⟨i1, i2⟩ := hwf _ ho
      show (copyH (dupH h x) x).1.val ((copyH (dupH h x) x).1.t (swapVar x h.next i)).data = h.val (h.t i).data
      rw [cT]
      have hd : ((dupH h x).t (swapVar x h.next i)).data = (h.t i).data := by
        unfold swapVar
        by_cases e : i = x
        · subst e; simp only [if_true]; exact dPd
        · simp only [e, if_false]; exact (dT i (by omega)).1
      rw [hd]
      have hb1 : (h.t i).data.buf ≠ (dupH h x).next := by rw [dN]; omega
      rw [val_congr (dupH h x) _ _ (cB _ hb1), val_congr h _ _ (hbuf _)]
  obtain ⟨wv, _⟩ := wrap_vals (inputs.map (phMap x h.next)) (copyH (dupH h x) x).1 hwfC
  have hshape : (copyH (dupH h x) x).2.d.shape = (h.t x).data.d.shape := by rw [cA, dxd]; rfl
  have eW := wrap_ext (inputs.map (phMap x h.next)) (copyH (dupH h x) x).1
  have hread : (wrapOperands (copyH (dupH h x) x).1 (inputs.map (phMap x h.next))).1.read (copyH (dupH h x) x).2
      = h.read (h.t x).data := by
    have hb0 : (copyH (dupH h x) x).2.buf < (copyH (dupH h x) x).1.next := by rw [cA, cN]; show (dupH h x).next < _; omega
    have : (wrapOperands (copyH (dupH h x) x).1 (inputs.map (phMap x h.next))).1.read (copyH (dupH h x) x).2
        = (copyH (dupH h x) x).1.read (copyH (dupH h x) x).2 := by
      simp only [Heap.read, eW.2.2.1 _ hb0]
    rw [this, cA]
    have e2 : ({ buf := (dupH h x).next, d := Desc.contig 0 ((dupH h x).t x).data.d.shape } : Arr) =
        ((dupH h x).newArr ((dupH h x).val ((dupH h x).t x).data)).2 := rfl
    rw [e2]
    show ((dupH h x).newArr _).1.read _ = _
    rw [read_newArr _ _ (by simp [Heap.val, read_length])]
    simp only [Heap.val, dxd]
    simp only [Heap.read, hbuf]
  have hw' : (let w := wrapOperands (copyH (dupH h x) x).1 (inputs.map (phMap x h.next))
      outWrite kind (w.2.map fun i => w.1.val (w.1.t i).data) (copyH (dupH h x) x).2.d.shape
        (w.1.read (copyH (dupH h x) x).2) none = .error e) := by
    simp only
    rw [wv, hvalC, hshape, hread]; exact hw
  have hcc' : ((dupH h x).t x).data.d.isCContig = true := by rw [dxd]; exact hcc
  have hro' : (dupH h x).ro.contains ((dupH h x).t x).data.buf = false := by rw [dxd, dupH_ro]; exact hro
  have hmut := mutate_single_fail (dupH h x) x h.next kind inputs e hcc' hph hro' hw'
  -- the restored heap
  have hCp : (copyH (dupH h x) x).1.t h.next = { (nullGrad h x).t x with base := none } := by rw [cT]; exact tP
  have hvcC : ∀ c ∈ ((copyH (dupH h x) x).1.t h.next).vchildren, c ≠ x ∧ c ≠ h.next := by
    rw [hCp]; simp only [nullGrad, t_modT_self]; exact hvc
  have hbC : ((copyH (dupH h x) x).1.t h.next).base = none := by rw [hCp]
  have hrest : (G1 x h.next).restore (copyH (dupH h x) x).1 = reroute (copyH (dupH h x) x).1 x h.next :=
    restore_single _ x h.next (Ne.symm hne) hvcC hbC
  obtain ⟨r2t, r2b, _, r2v⟩ := reroute_spec (copyH (dupH h x) x).1 x h.next (Ne.symm hne)
  refine ⟨(G1 x h.next).restore (copyH (dupH h x) x).1, ?_, ?_, ?_, ?_⟩
  · unfold inPlaceOp
    simp only [hpre, hnb, Option.isNone_none, Option.getD_none]
    rw [hdup]
    exact hmut
  · intro t ht
    rw [hrest, r2t, cT, tT t (by omega)]
  · intro b hb
    rw [hrest]
    simp only [Heap.buf, r2b]
    have := cB b (by rw [dN]; omega)
    simp only [Heap.buf] at this
    rw [this]; exact hbuf b
  · intro f
    rw [hrest, r2v f]
    have hops : ((copyH (dupH h x) x).1.t h.next).ops = (h.t x).ops := by
      rw [hCp]; simp [nullGrad]
    have hopf : (copyH (dupH h x) x).1.op f = (dupH h x).op f := rfl
    rw [hops, hopf, dupH_ops h x hx f]
    by_cases hf : f ∈ (h.t x).ops
    · simp only [hf, if_true]
      exact restore_reroutes_back _ _ _ (hfresh f)
    · simp [hf]

end MG.C04R
