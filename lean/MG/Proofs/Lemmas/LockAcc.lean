import MG.Proofs.Lemmas.LockTab
/-! Helper lemmas for C08: accessor functions on the heap and how the primitive updates change them. -/
namespace MG.Lock

def origOf (s : State) (o : Nat) : Bool :=
  match s.arrs[o]? with
  | some a => a.orig
  | none => false

def baseOf (s : State) (o : Nat) : Option Nat :=
  match s.arrs[o]? with
  | some a => a.base
  | none => none

def enteredOf (s : State) (o : Nat) : Bool :=
  match s.arrs[o]? with
  | some a => a.entered
  | none => false

theorem get_modArr (s : State) (o x : Nat) (f : Arr → Arr) :
    (modArr s o f).arrs[x]? = if x = o then (s.arrs[x]?).map f else s.arrs[x]? := by
  unfold modArr
  simp only [List.getElem?_modify]
  by_cases h : x = o
  · subst h
    cases s.arrs[x]? <;> simp
  · have : ¬ o = x := fun e => h e.symm
    cases s.arrs[x]? <;> simp [h, this]

/-- an update of one array that keeps everything but the flag and the ghost `entered` -/
def FlagOnly (f : Arr → Arr) : Prop :=
  ∀ a, (f a).aid = a.aid ∧ (f a).base = a.base ∧ (f a).alive = a.alive ∧ (f a).orig = a.orig

theorem flagOnly_setW (v : Bool) : FlagOnly (fun a => { a with writeable := v }) := fun _ => ⟨rfl, rfl, rfl, rfl⟩
theorem flagOnly_lock : FlagOnly (fun a => { a with writeable := false, entered := true }) :=
  fun _ => ⟨rfl, rfl, rfl, rfl⟩

section modArr
variable (s : State) (o : Nat) (f : Arr → Arr)

theorem aidOf_modArr (hf : FlagOnly f) (x : Nat) : aidOf (modArr s o f) x = aidOf s x := by
  unfold aidOf
  rw [get_modArr]
  by_cases h : x = o
  · simp only [h, ↓reduceIte]
    cases s.arrs[o]? with
    | none => rfl
    | some a => exact (hf a).1
  · simp [h]

theorem baseOf_modArr (hf : FlagOnly f) (x : Nat) : baseOf (modArr s o f) x = baseOf s x := by
  unfold baseOf
  rw [get_modArr]
  by_cases h : x = o
  · simp only [h, ↓reduceIte]
    cases s.arrs[o]? with
    | none => rfl
    | some a => exact (hf a).2.1
  · simp [h]

theorem isAlive_modArr (hf : FlagOnly f) (x : Nat) : isAlive (modArr s o f) x = isAlive s x := by
  unfold isAlive
  rw [get_modArr]
  by_cases h : x = o
  · simp only [h, ↓reduceIte]
    cases s.arrs[o]? with
    | none => rfl
    | some a => exact (hf a).2.2.1
  · simp [h]

theorem origOf_modArr (hf : FlagOnly f) (x : Nat) : origOf (modArr s o f) x = origOf s x := by
  unfold origOf
  rw [get_modArr]
  by_cases h : x = o
  · simp only [h, ↓reduceIte]
    cases s.arrs[o]? with
    | none => rfl
    | some a => exact (hf a).2.2.2
  · simp [h]

theorem wOf_modArr_ne (x : Nat) (h : x ≠ o) : wOf (modArr s o f) x = wOf s x := by
  unfold wOf; rw [get_modArr]; simp [h]

theorem enteredOf_modArr_ne (x : Nat) (h : x ≠ o) : enteredOf (modArr s o f) x = enteredOf s x := by
  unfold enteredOf; rw [get_modArr]; simp [h]

@[simp] theorem counter_modArr : (modArr s o f).counter = s.counter := rfl
@[simp] theorem tracker_modArr : (modArr s o f).tracker = s.tracker := rfl
@[simp] theorem waiting_modArr : (modArr s o f).waiting = s.waiting := rfl
@[simp] theorem holds_modArr : (modArr s o f).holds = s.holds := rfl
@[simp] theorem length_modArr : (modArr s o f).arrs.length = s.arrs.length := by simp [modArr]

end modArr

theorem wOf_setW_self (s : State) (o : Nat) (v : Bool) (h : isAlive s o = true) :
    wOf (modArr s o (fun a => { a with writeable := v })) o = v := by
  unfold wOf; rw [get_modArr]
  unfold isAlive at h
  cases hs : s.arrs[o]? with
  | none => simp [hs] at h
  | some a => simp

theorem wOf_lock_self (s : State) (o : Nat) (h : isAlive s o = true) :
    wOf (modArr s o (fun a => { a with writeable := false, entered := true })) o = false := by
  unfold wOf; rw [get_modArr]
  unfold isAlive at h
  cases hs : s.arrs[o]? with
  | none => simp [hs] at h
  | some a => simp

theorem enteredOf_setW (s : State) (o x : Nat) (v : Bool) :
    enteredOf (modArr s o (fun a => { a with writeable := v })) x = enteredOf s x := by
  unfold enteredOf; rw [get_modArr]
  by_cases h : x = o
  · subst h; cases s.arrs[x]? <;> simp
  · simp [h]

/-- states that differ only in tables / flags have the same static heap -/
theorem isAlive_congr {s s' : State} (h : s'.arrs = s.arrs) (x : Nat) : isAlive s' x = isAlive s x := by
  unfold isAlive; rw [h]
theorem aidOf_congr {s s' : State} (h : s'.arrs = s.arrs) (x : Nat) : aidOf s' x = aidOf s x := by
  unfold aidOf; rw [h]
theorem baseOf_congr {s s' : State} (h : s'.arrs = s.arrs) (x : Nat) : baseOf s' x = baseOf s x := by
  unfold baseOf; rw [h]
theorem origOf_congr {s s' : State} (h : s'.arrs = s.arrs) (x : Nat) : origOf s' x = origOf s x := by
  unfold origOf; rw [h]
theorem wOf_congr {s s' : State} (h : s'.arrs = s.arrs) (x : Nat) : wOf s' x = wOf s x := by
  unfold wOf; rw [h]
theorem enteredOf_congr {s s' : State} (h : s'.arrs = s.arrs) (x : Nat) : enteredOf s' x = enteredOf s x := by
  unfold enteredOf; rw [h]

theorem isAlive_lt {s : State} {o : Nat} (h : isAlive s o = true) : o < s.arrs.length := by
  unfold isAlive at h
  cases hs : s.arrs[o]? with
  | none => simp [hs] at h
  | some a => exact (List.getElem?_eq_some_iff.mp hs).1

end MG.Lock
