import MG.Proofs.Lemmas.InPlaceBase
/-!
The failure path of an in-place update on a view family (a base `b` with one live view `v`, the update aimed at either):
`restore_old_graph` on the two-placeholder graph gives every tensor and every op's variable list back.
-/
namespace MG.C04V
open MG.Eng MG.ND MG.C13 MG.C04R

/-- `restore_old_graph` on the two-node graph, written out -/
theorem restore_two (H : Heap) (b v pb pv : Nat) (hbpb : b ≠ pb) (hvpv : v ≠ pv)
    (hdfs : (G2 b v pb pv).dfs H = [⟨b, pb, none⟩, ⟨v, pv, some b⟩])
    (hpbb : (H.t pb).base = none) (hpvb : (H.t pv).base.isSome = true) :
    (G2 b v pb pv).restore H = (reroute (reroute H b pb) v pv).modT v ({ · with base := some b }) := by
  unfold DupGraph.restore
  rw [hdfs]
  simp only [List.foldl_cons, List.foldl_nil, G2_base]
  have e1 : ((reroute H b pb).t pb).base = none := by rw [reroute_t]; exact hpbb
  have e2 : ((reroute (reroute H b pb) v pv).t pv).base.isSome = true := by rw [reroute_t, reroute_t]; exact hpvb
  simp [e1, e2]

/-- each variable of an op comes back after the four re-routing passes (two out, two back) -/
theorem swap4 (b v pb pv u : Nat) (c1 c2 : Bool) (hu1 : u ≠ pb) (hu2 : u ≠ pv)
    (h1 : b ≠ pb) (h2 : b ≠ pv) (h3 : v ≠ pb) (h4 : v ≠ pv) (h5 : v ≠ b) (h6 : pb ≠ pv) :
    (if c2 then swapVar pv v else id) ((if c1 then swapVar pb b else id)
      ((if c2 then swapVar v pv else id) ((if c1 then swapVar b pb else id) u))) = u := by
  cases c1 <;> cases c2 <;> simp only [swapVar, id, if_true, Bool.false_eq_true, if_false] <;>
    (repeat' split) <;> omega


theorem nullGrad_op (h : Heap) (x f : Nat) : (nullGrad h x).op f = h.op f := rfl

theorem nullGrad_ops (h : Heap) (x t : Nat) : ((nullGrad h x).t t).ops = (h.t t).ops := by
  unfold nullGrad
  by_cases e : t = x
  · subst e; simp
  · rw [t_modT_ne _ _ _ _ e]

/-- the variables of every op after one placeholder was made for `x` -/
theorem mkPh_vars (h : Heap) (x : Nat) (bs : Option Nat) (hx : x ≠ h.next) (f : Nat) :
    ((mkPh h x bs).op f).vars =
      if f ∈ (h.t x).ops then (h.op f).vars.map (swapVar x h.next) else (h.op f).vars := by
  unfold mkPh
  rw [(reroute_spec _ h.next x (Ne.symm hx)).2.2.2 f]
  have e1 : (((mirror h.fresh.1 h.fresh.2 x).modT h.fresh.2 ({ · with base := bs })).t x).ops = (h.t x).ops := by
    simp only [fresh_snd, mirror]
    rw [t_modT_ne _ _ _ _ hx, t_setT_ne _ _ _ _ hx]
    rfl
  rw [e1]
  rfl

/-- the variables of every op in the two-placeholder heap -/
theorem dup2_vars (h : Heap) (b v : Nat) (hne : v ≠ b) (hbl : b < h.next) (hvl : v < h.next) (f : Nat) :
    ((dup2 h b v).op f).vars =
      (if f ∈ (h.t v).ops then List.map (swapVar v (h.next + 1)) else id)
        ((if f ∈ (h.t b).ops then List.map (swapVar b h.next) else id) (h.op f).vars) := by
  unfold dup2
  simp only [op_modT]
  have hn0 : (nullGrad h b).next = h.next := rfl
  have hn1 : (nullGrad (mkPh (nullGrad h b) b none) v).next = h.next + 1 := (mkPh_spec (nullGrad h b) b none).2.1
  rw [mkPh_vars _ v _ (by rw [hn1]; omega), hn1, nullGrad_ops, nullGrad_op]
  rw [(mkPh_spec (nullGrad h b) b none).2.2.2.1 v (by rw [hn0]; omega), nullGrad_ops]
  rw [mkPh_vars _ b _ (by rw [hn0]; omega), hn0, nullGrad_ops, nullGrad_op]
  by_cases c1 : f ∈ (h.t b).ops <;> by_cases c2 : f ∈ (h.t v).ops <;> simp [c1, c2]


theorem ite_map {α} (c : Prop) [Decidable c] (g : α → α) (l : List α) :
    (if c then List.map g else id) l = l.map (if c then g else id) := by
  split <;> simp

theorem base_eta (x : Tens) (b : Nat) (hb : x.base = some b) : ({ x with base := some b } : Tens) = x := by
  cases x; simp_all

/-- **restore_two_inverts.**  On any heap that has the tensors and op records of the two-placeholder heap
`dup2 h b v` (the failure path runs on that heap plus the unused copy of the base's data), `restore_old_graph` gives
back every public tensor as the two `null_grad` calls left it — value, flag, base link, creator, consumers, view
children — touches no buffer, and every op has exactly the variables it had before the placeholders were made. -/
theorem restore_two_inverts (h C : Heap) (b v : Nat) (hne : v ≠ b) (hbl : b < h.next) (hvl : v < h.next)
    (hvb : (h.t v).base = some b)
    (hfresh : ∀ f, ∀ u ∈ (h.op f).vars, u ≠ h.next ∧ u ≠ h.next + 1)
    (hCt : ∀ t, C.t t = (dup2 h b v).t t) (hCop : ∀ f, C.op f = (dup2 h b v).op f) :
    let R := (reroute (reroute C b h.next) v (h.next + 1)).modT v ({ · with base := some b })
    (∀ t, t ≠ h.next → t ≠ h.next + 1 → R.t t = (nullGrad (nullGrad h b) v).t t) ∧ R.bufs = C.bufs ∧
    (∀ f, (R.op f).vars = (h.op f).vars) := by
  intro R
  obtain ⟨dB, dN, dR, dT, dTb, dTv, dTpb, dTpv⟩ := dup2_spec h b v hne hbl hvl
  refine ⟨?_, ?_, ?_⟩
  · intro t h1 h2
    by_cases ev : t = v
    · subst ev
      show ((reroute (reroute C b h.next) t (h.next + 1)).modT t _).t t = _
      have hx : (nullGrad (nullGrad h b) t).t t = (nullGrad h t).t t := by
        unfold nullGrad; simp only [t_modT_self]; rw [t_modT_ne _ _ _ _ hne]
      rw [t_modT_self, reroute_t, reroute_t, hCt, dTv, hx]
      exact base_eta _ b (by unfold nullGrad; simp [hvb])
    · show ((reroute (reroute C b h.next) v (h.next + 1)).modT v _).t t = _
      rw [t_modT_ne _ _ _ _ ev, reroute_t, reroute_t, hCt]
      by_cases eb : t = b
      · subst eb
        rw [dTb, nullGrad_t_ne _ _ _ (Ne.symm hne)]
      · rw [dT t h1 h2 eb ev, nullGrad_t_ne _ _ _ ev, nullGrad_t_ne _ _ _ eb]
  · show (reroute (reroute C b h.next) v (h.next + 1)).bufs = _
    rw [reroute_bufs, reroute_bufs]
  · intro f
    show ((reroute (reroute C b h.next) v (h.next + 1)).op f).vars = _
    have hbp : b ≠ h.next := by omega
    have hvp : v ≠ h.next + 1 := by omega
    rw [(reroute_spec (reroute C b h.next) v (h.next + 1) hvp).2.2.2 f, reroute_t]
    rw [(reroute_spec C b h.next hbp).2.2.2 f]
    have e1 : (C.t h.next).ops = (h.t b).ops := by
      rw [hCt, dTpb]; simp only; exact nullGrad_ops h b b
    have e2 : (C.t (h.next + 1)).ops = (h.t v).ops := by
      rw [hCt, dTpv]; simp only; rw [nullGrad_ops]
    rw [e1, e2, hCop, dup2_vars h b v hne hbl hvl f]
    have step : ∀ (c1 c2 : Prop) [Decidable c1] [Decidable c2] (l : List Nat), (∀ u ∈ l, u ≠ h.next ∧ u ≠ h.next + 1) →
        (if c2 then (if c1 then ((if c2 then List.map (swapVar v (h.next + 1)) else id)
            ((if c1 then List.map (swapVar b h.next) else id) l)).map (swapVar h.next b)
          else ((if c2 then List.map (swapVar v (h.next + 1)) else id) ((if c1 then List.map (swapVar b h.next) else id) l))).map
            (swapVar (h.next + 1) v)
        else (if c1 then ((if c2 then List.map (swapVar v (h.next + 1)) else id)
            ((if c1 then List.map (swapVar b h.next) else id) l)).map (swapVar h.next b)
          else ((if c2 then List.map (swapVar v (h.next + 1)) else id) ((if c1 then List.map (swapVar b h.next) else id) l)))) = l := by
      intro c1 c2 _ _ l hl
      have key : ∀ u ∈ l, (if c2 then swapVar (h.next + 1) v else id) ((if c1 then swapVar h.next b else id)
          ((if c2 then swapVar v (h.next + 1) else id) ((if c1 then swapVar b h.next else id) u))) = u := by
        intro u hu
        have := swap4 b v h.next (h.next + 1) u (decide c1) (decide c2) (hl u hu).1 (hl u hu).2
          (by omega) (by omega) (by omega) (by omega) hne (by omega)
        simpa using this
      have : l.map (fun u => (if c2 then swapVar (h.next + 1) v else id) ((if c1 then swapVar h.next b else id)
          ((if c2 then swapVar v (h.next + 1) else id) ((if c1 then swapVar b h.next else id) u)))) = l := by
        conv => rhs; rw [← List.map_id l]
        exact List.map_congr_left key
      by_cases k1 : c1 <;> by_cases k2 : c2 <;> simp only [k1, k2, if_true, if_false, id, List.map_map] at this ⊢ <;>
        simpa [Function.comp_def] using this
    exact step _ _ _ (hfresh f)


theorem nullGrad_idem_t (h : Heap) (x t : Nat) : (nullGrad (nullGrad h x) x).t t = (nullGrad h x).t t := by
  unfold nullGrad
  by_cases e : t = x
  · subst e; simp
  · rw [t_modT_ne _ _ _ _ e]

/-- the failure path of `inPlaceMutate` on the two-node graph, target = the base -/
theorem mutate_base2_fail (D : Heap) (b v pb pv : Nat) (kind : Kind) (inputs : List Operand) (e : Err) (shb : Shape)
    (h1 : v ≠ b) (hb : b ≠ pb) (hb' : b ≠ pv) (hv : v ≠ pb) (hv' : v ≠ pv)
    (hDb : (D.t b).data.d = Desc.contig 0 shb)
    (hro : D.ro.contains (D.t b).data.buf = false)
    (hph : ∀ i, Operand.t i ∈ inputs → i ≠ pb ∧ i ≠ pv)
    (hw : let W := wrapOperands (copyH D b).1 (inputs.map (phMap2 b v pb pv))
          outWrite kind (W.2.map fun i => W.1.val (W.1.t i).data) (copyH D b).2.d.shape (W.1.read (copyH D b).2) none
            = .error e) :
    inPlaceMutate D (G2 b v pb pv) b true kind inputs none none =
      .error (e, (G2 b v pb pv).restore (copyH D b).1) := by
  have hcc : (D.t b).data.d.isCContig = true := by rw [hDb]; exact isCContig_contig 0 shb
  unfold inPlaceMutate
  simp only [G2_base, Heap.copyArrK, hcc, if_true, G2_node_b, Option.isNone_some, Bool.false_eq_true, if_false]
  show (do
    let (target, chain) ← withHeap (copyH D b).1 (inPlaceTarget (copyH D b).1 (G2 b v pb pv) b (copyH D b).2)
    _) = _
  rw [G2_target_b]
  have hro' : (copyH D b).1.ro.contains (D.t b).data.buf = false := hro
  simp only [withHeap, Bind.bind, Except.bind, List.any_nil, hro', Bool.or_self, Bool.false_eq_true, if_false]
  rw [map_phMap2 b v pb pv _ (fun i => rfl) (fun w => rfl) h1 hb hb' hv hv' inputs hph]
  rw [show (D.newArr (D.val (D.t b).data)).fst = (copyH D b).1 from rfl, opStepOut_err _ _ _ _ _ hw]
  simp only [Bool.false_or, hro', Bool.false_eq_true, if_false]

/-- the failure path of `inPlaceMutate` on the two-node graph, target = the view -/
theorem mutate_two_fail (D : Heap) (b v pb pv : Nat) (kind : Kind) (inputs : List Operand) (e : Err)
    (vf : ViewFn) (fc : Option Bool) (shb : Shape) (dv : Desc)
    (h1 : v ≠ b) (hb : b ≠ pb) (hb' : b ≠ pv) (hv : v ≠ pb) (hv' : v ≠ pv)
    (hDb : (D.t b).data.d = Desc.contig 0 shb)
    (hro : D.ro.contains (D.t b).data.buf = false)
    (hph : ∀ i, Operand.t i ∈ inputs → i ≠ pb ∧ i ≠ pv)
    (hrepP : replayFn (copyH D b).1 pv = some (vf, fc))
    (happ : vf.apply (Desc.contig 0 shb) = .ok (dv, true))
    (hnb : vf.isBroadcastTo = false)
    (hw : let W := wrapOperands (copyH D b).1 (inputs.map (phMap2 b v pb pv))
          outWrite kind (W.2.map fun i => W.1.val (W.1.t i).data) dv.shape (W.1.read ⟨(copyH D b).2.buf, dv⟩) none
            = .error e) :
    inPlaceMutate D (G2 b v pb pv) v false kind inputs none none =
      .error (e, (G2 b v pb pv).restore (copyH D b).1) := by
  have hcc : (D.t b).data.d.isCContig = true := by rw [hDb]; exact isCContig_contig 0 shb
  have hcd : (copyH D b).2.d = Desc.contig 0 shb := by
    have := (copyH_spec D b).1
    rw [this, hDb]; rfl
  have happ' : vf.apply (copyH D b).2.d = .ok (dv, true) := by rw [hcd]; exact happ
  unfold inPlaceMutate
  simp only [G2_base, Heap.copyArrK, hcc, if_true, G2_node_v b v pb pv h1 hv, Option.isNone_some, Bool.false_eq_true,
    if_false]
  show (do
    let (target, chain) ← withHeap (copyH D b).1 (inPlaceTarget (copyH D b).1 (G2 b v pb pv) v (copyH D b).2)
    _) = _
  rw [G2_target _ b v pb pv _ vf fc dv h1 hv hrepP happ']
  have hro' : (copyH D b).1.ro.contains (D.t b).data.buf = false := hro
  simp only [withHeap, Bind.bind, Except.bind, List.any_cons, List.any_nil, hnb, hro', Bool.or_self, Bool.false_eq_true,
    if_false]
  rw [map_phMap2 b v pb pv _ (fun i => rfl) (fun w => rfl) h1 hb hb' hv hv' inputs hph]
  rw [show (D.newArr (D.val (D.t b).data)).fst = (copyH D b).1 from rfl, opStepOut_err _ _ _ _ _ hw]
  simp only [Bool.false_or, hro', Bool.false_eq_true, if_false]


/-- `restore_old_graph`, run on the heap the failure path runs it on (the two-placeholder heap plus the unused copy of
the base's data), undoes the duplication -/
theorem restore_after_copy (H0 : Heap) (b v : Nat) (hne : v ≠ b) (hbl : b < H0.next) (hvl : v < H0.next)
    (hvb : (H0.t v).base = some b)
    (hdead : ∀ c ∈ (H0.t v).vchildren, c ≠ b ∧ c ≠ v ∧ c ≠ H0.next ∧ c ≠ H0.next + 1)
    (hfresh : ∀ f, ∀ u ∈ (H0.op f).vars, u ≠ H0.next ∧ u ≠ H0.next + 1) :
    let hf := (G2 b v H0.next (H0.next + 1)).restore (copyH (dup2 H0 b v) b).1
    (∀ t, t < H0.next → hf.t t = (nullGrad (nullGrad H0 b) v).t t) ∧
    (∀ b', b' < H0.next → hf.buf b' = H0.buf b') ∧
    (∀ f, (hf.op f).vars = (H0.op f).vars) := by
  intro hf
  obtain ⟨dB, dN, dR, dT, dTb, dTv, dTpb, dTpv⟩ := dup2_spec H0 b v hne hbl hvl
  obtain ⟨cA, cN, cT, cB, cR⟩ := copyH_spec (dup2 H0 b v) b
  have hvch : ((copyH (dup2 H0 b v) b).1.t (H0.next + 1)).vchildren = (H0.t v).vchildren := by
    rw [cT, dTpv]; simp only; unfold nullGrad; simp
  have hdfs : (G2 b v H0.next (H0.next + 1)).dfs (copyH (dup2 H0 b v) b).1 =
      [⟨b, H0.next, none⟩, ⟨v, H0.next + 1, some b⟩] := by
    apply dfs_two _ b v H0.next (H0.next + 1) (by omega) (by omega) (by omega) (by omega)
    · rw [cT, dTpb]
    · rw [hvch]; exact hdead
  have hpbb : ((copyH (dup2 H0 b v) b).1.t H0.next).base = none := by rw [cT, dTpb]
  have hpvb : ((copyH (dup2 H0 b v) b).1.t (H0.next + 1)).base.isSome = true := by rw [cT, dTpv]; rfl
  have hR : hf = (reroute (reroute (copyH (dup2 H0 b v) b).1 b H0.next) v (H0.next + 1)).modT v ({ · with base := some b }) :=
    restore_two _ b v H0.next (H0.next + 1) (by omega) (by omega) hdfs hpbb hpvb
  obtain ⟨r1, r2, r3⟩ := restore_two_inverts H0 (copyH (dup2 H0 b v) b).1 b v hne hbl hvl hvb hfresh cT (fun _ => rfl)
  rw [← hR] at r1 r2 r3
  refine ⟨fun t ht => r1 t (by omega) (by omega), fun b' hb' => ?_, r3⟩
  simp only [Heap.buf, r2]
  have := cB b' (by rw [dN]; omega)
  simp only [Heap.buf] at this
  rw [this, dB]


theorem nullGrad_congr_t (X X' : Heap) (x t : Nat) (hXX : ∀ t, X.t t = X'.t t) :
    (nullGrad X x).t t = (nullGrad X' x).t t := by
  unfold nullGrad
  by_cases e : t = x
  · subst e; simp only [t_modT_self]; rw [hXX]
  · rw [t_modT_ne _ _ _ _ e, t_modT_ne _ _ _ _ e]; exact hXX t

/-- **inplace_on_base_with_view_failure_leaves_no_trace.**  A failing in-place update on a base `b` that has one live
view `v` (the NumPy-level statement is rejected: bad index, shapes that do not broadcast, …) raises that error and
leaves every tensor that existed exactly as the two `null_grad` calls of the attempt leave it (value, flag, base link,
creator, consumers, view children — only stale gradients are gone), every buffer unchanged and every op with exactly
its old variables: nothing refers to the two placeholders any more. -/
theorem inplace_on_base_with_view_failure_leaves_no_trace (h : Heap) (roots : List Nat) (b v bufb : Nat) (shb : Shape)
    (kind : Kind) (inputs : List Operand) (e : Err)
    (hbl : b < h.next) (hvl : v < h.next) (hne : v ≠ b)
    (hbase : (h.t b).base = none) (hvb : (h.t v).base = some b)
    (hdata : (h.t b).data = ⟨bufb, Desc.contig 0 shb⟩) (hbufb : bufb < h.next)
    (hro : h.ro.contains bufb = false)
    (hcb : (h.t b).vchildren.filter (liveSet h roots).contains = [v])
    (hcv : (h.t v).vchildren.filter (liveSet h roots).contains = [])
    (hdead : ∀ c ∈ (h.t v).vchildren, c ≠ b ∧ c ≠ v ∧ c ≠ h.next ∧ c ≠ h.next + 1)
    (hwf : ∀ o ∈ inputs, WFop h o)
    (hfresh : ∀ f, ∀ u ∈ (h.op f).vars, u ≠ h.next ∧ u ≠ h.next + 1)
    (hw : outWrite kind (inputs.map (operandVal h)) shb (h.read (h.t b).data) none = .error e) :
    ∃ hf, inPlaceOp h roots b kind inputs = .error (e, hf) ∧
      (∀ t, t < h.next → hf.t t = (nullGrad (nullGrad h b) v).t t) ∧
      (∀ b', b' < h.next → hf.buf b' = h.buf b') ∧
      (∀ f, (hf.op f).vars = (h.op f).vars) := by
  have hpbv : v ≠ h.next := by omega
  have hpbb : b ≠ h.next := by omega
  -- 1. prelude (the target owns its memory)
  have hpre := prelude_owner h (liveSet h roots) b hbase
  have hbN : ((nullGrad h b).t b).base = none ∧ ((nullGrad h b).t b).vchildren = (h.t b).vchildren ∧
      ((nullGrad h b).t b).data = (h.t b).data ∧ ((nullGrad h b).t b).const = (h.t b).const := by
    simp [nullGrad, hbase]
  have hvN : (nullGrad h b).t v = h.t v := nullGrad_t_ne h b v hne
  -- 2. the placeholder graph
  have hdupG := mkDupGraph_one_view (nullGrad h b) (liveSet h roots) b v hbN.1 (by rw [hvN]; exact hvb) hne hbl hvl
    (by rw [hbN.2.1]; exact hcb) (by rw [hvN]; exact hcv)
  have hnn : (nullGrad h b).next = h.next := rfl
  rw [hnn] at hdupG
  obtain ⟨dB, dN, dR, dT, dTb, dTv, dTpb, dTpv⟩ := dup2_spec (nullGrad h b) b v hne hbl hvl
  rw [hnn] at dN dT dTpb dTpv
  generalize hD : dup2 (nullGrad h b) b v = D at hdupG dB dN dR dT dTb dTv dTpb dTpv
  have hDb : (D.t b).data = ⟨bufb, Desc.contig 0 shb⟩ ∧ (D.t b).const = (h.t b).const := by
    rw [dTb]; simp [nullGrad, hdata]
  have hDv : (D.t v).data = (h.t v).data ∧ (D.t v).const = (h.t v).const := by
    rw [dTv]; unfold nullGrad; simp only [t_modT_self]; rw [t_modT_ne _ _ _ _ hne]; exact ⟨rfl, rfl⟩
  have hDold : ∀ t, t < h.next → t ≠ b → t ≠ v → D.t t = h.t t := by
    intro t ht h1 h2
    rw [dT t (by omega) (by omega) h1 h2, nullGrad_t_ne _ _ _ h1]
  have hDbuf : ∀ x, D.buf x = h.buf x := fun x => by simp only [Heap.buf, dB]; rfl
  have hDdata : ∀ t, t < h.next → (D.t t).data = (h.t t).data ∧ (D.t t).const = (h.t t).const := by
    intro t ht
    by_cases e1 : t = b
    · subst e1; rw [hDb.1, hDb.2, hdata]; exact ⟨rfl, rfl⟩
    · by_cases e2 : t = v
      · subst e2; exact ⟨hDv.1, hDv.2⟩
      · rw [hDold t ht e1 e2]; exact ⟨rfl, rfl⟩
  have hDpvd : (D.t (h.next + 1)).data = (h.t v).data := by
    rw [dTpv]; unfold nullGrad; simp only [t_modT_self]; rw [t_modT_ne _ _ _ _ hne]
  have hDpbd : (D.t h.next).data = (h.t b).data := by rw [dTpb]; simp [nullGrad]
  have hDpvv : (D.t (h.next + 1)).vchildren = (h.t v).vchildren := by
    rw [dTpv]; unfold nullGrad; simp only [t_modT_self]; rw [t_modT_ne _ _ _ _ hne]
  have hDpbv : (D.t h.next).vchildren = [h.next + 1] := by rw [dTpb]
  -- 3. the copy and the operands
  obtain ⟨cA, cN, cT, cB, cR⟩ := copyH_spec D b
  rw [dN] at cN cB cR
  have hcA : (copyH D b).2 = ⟨h.next + 2, Desc.contig 0 shb⟩ := by rw [cA, dN, hDb.1]; rfl
  have hphid : ∀ i, Operand.t i ∈ inputs → i ≠ h.next ∧ i ≠ h.next + 1 := fun i hi => by
    have := (hwf _ hi).1; exact ⟨by omega, by omega⟩
  have hmapd : ∀ i, i < h.next →
      ((copyH D b).1.t (if i = b then h.next else if i = v then h.next + 1 else i)).data = (h.t i).data := by
    intro i hi
    rw [cT]
    by_cases e1 : i = b
    · subst e1; simp only [if_true]; exact hDpbd
    · by_cases e2 : i = v
      · subst e2; simp only [e1, if_false, if_true]; exact hDpvd
      · simp only [e1, e2, if_false]; exact (hDdata i hi).1
  have hwfC : ∀ o ∈ inputs.map (phMap2 b v h.next (h.next + 1)), WFop (copyH D b).1 o := by
    intro o ho
    obtain ⟨o0, ho0, rfl⟩ := List.mem_map.mp ho
    cases o0 with
    | lit w => exact hwf _ ho0
    | t i =>
      obtain ⟨i1, i2⟩ := hwf _ ho0
      show (if i = b then h.next else if i = v then h.next + 1 else i) < (copyH D b).1.next ∧
        ((copyH D b).1.t (if i = b then h.next else if i = v then h.next + 1 else i)).data.buf < _
      rw [hmapd i i1, cN]
      refine ⟨?_, by omega⟩
      split
      · omega
      · split <;> omega
  have hvalC : (inputs.map (phMap2 b v h.next (h.next + 1))).map (operandVal (copyH D b).1) = inputs.map (operandVal h) := by
    rw [List.map_map]
    apply List.map_congr_left
    intro o ho
    cases o with
    | lit w => rfl
    | t i =>
      obtain ⟨i1, i2⟩ := hwf _ ho
      show (copyH D b).1.val ((copyH D b).1.t (if i = b then h.next else if i = v then h.next + 1 else i)).data
        = h.val (h.t i).data
      rw [hmapd i i1]
      have hb1 : (h.t i).data.buf ≠ h.next + 2 := by omega
      rw [val_congr D _ _ (cB _ hb1), val_congr h _ _ (hDbuf _)]
  obtain ⟨wv, _⟩ := wrap_vals (inputs.map (phMap2 b v h.next (h.next + 1))) (copyH D b).1 hwfC
  obtain ⟨eN, eT, eB, eO, eR⟩ := wrap_ext (inputs.map (phMap2 b v h.next (h.next + 1))) (copyH D b).1
  rw [cN] at eN eT eB
  generalize hW : (wrapOperands (copyH D b).1 (inputs.map (phMap2 b v h.next (h.next + 1)))).1 = W at wv eN eT eB eO eR
  have hWcopy : W.buf (h.next + 2) = h.read (h.t b).data := by
    rw [eB _ (by omega), cR, hDb.1, hdata]
    simp only [Heap.read, hDbuf]
  have hlenb : (h.read (h.t b).data).length = size shb := by rw [read_length, hdata]; rfl
  have hreadT : W.read ⟨h.next + 2, Desc.contig 0 shb⟩ = h.read (h.t b).data := by
    rw [read_contig_whole W (h.next + 2) shb (by rw [hWcopy]; exact hlenb), hWcopy]
  have hw' : (let W' := wrapOperands (copyH D b).1 (inputs.map (phMap2 b v h.next (h.next + 1)))
      outWrite kind (W'.2.map fun i => W'.1.val (W'.1.t i).data) (copyH D b).2.d.shape (W'.1.read (copyH D b).2) none
        = .error e) := by
    simp only
    rw [hW, wv, hvalC, hcA, hreadT]; exact hw
  have hroD : D.ro.contains (D.t b).data.buf = false := by rw [hDb.1, dR]; exact hro
  have hmut := mutate_base2_fail D b v h.next (h.next + 1) kind inputs e shb hne hpbb (by omega) hpbv (by omega)
    (by rw [hDb.1]) hroD hphid hw'
  have hvN' : ((nullGrad h b).t v).base = some b := by rw [hvN]; exact hvb
  obtain ⟨q1, q2, q3⟩ := restore_after_copy (nullGrad h b) b v hne hbl hvl hvN' (by rw [hvN]; exact hdead)
    (fun f => hfresh f)
  rw [hnn, hD] at q1 q2 q3
  refine ⟨_, ?_, ?_, q2, q3⟩
  · unfold inPlaceOp
    simp only [hpre, hbN.1, Option.isNone_none, Option.getD_none]
    rw [hdupG]
    exact hmut
  · intro t ht
    rw [q1 t ht]
    exact nullGrad_congr_t _ _ v t (nullGrad_idem_t h b)


theorem nullGrad3_t (h : Heap) (b v t : Nat) (hne : v ≠ b) :
    (nullGrad (nullGrad (nullGrad h v) b) v).t t = (nullGrad (nullGrad h b) v).t t := by
  by_cases ev : t = v
  · subst ev
    unfold nullGrad
    simp only [t_modT_self]
    rw [t_modT_ne _ _ _ _ hne, t_modT_ne _ _ _ _ hne, t_modT_self]
  · rw [nullGrad_t_ne _ _ _ ev, nullGrad_t_ne _ _ _ ev]
    by_cases eb : t = b
    · subst eb
      unfold nullGrad
      simp only [t_modT_self]
      rw [t_modT_ne _ _ _ _ (Ne.symm hne)]
    · rw [nullGrad_t_ne _ _ _ eb, nullGrad_t_ne _ _ _ eb, nullGrad_t_ne _ _ _ ev]

/-- **inplace_through_view_failure_leaves_no_trace.**  The same for a failing in-place update aimed *through the view*
`v` of `b`: the NumPy-level statement on `v`'s window is rejected, the update raises that error, and every tensor that
existed is as the `null_grad` calls of the attempt leave it — `v` is still a view of `b`, both keep their values,
flags, creators, consumers and view children — no buffer changed and every op has exactly its old variables. -/
theorem inplace_through_view_failure_leaves_no_trace (h : Heap) (roots : List Nat) (b v f bufb : Nat) (shb : Shape)
    (vf : ViewFn) (fc : Option Bool) (dv : Desc) (kind : Kind) (inputs : List Operand) (e : Err)
    (hbl : b < h.next) (hvl : v < h.next) (hne : v ≠ b)
    (hbase : (h.t b).base = none) (hvb : (h.t v).base = some b)
    (hcr : (h.t v).creator = some f) (hfl : f < h.next)
    (hkind : (h.op f).kind = .view vf) (hfc : (h.op f).forceConst = fc)
    (hdata : (h.t b).data = ⟨bufb, Desc.contig 0 shb⟩) (hbufb : bufb < h.next)
    (hro : h.ro.contains bufb = false)
    (hcb : (h.t b).vchildren.filter (liveSet h roots).contains = [v])
    (hcv : (h.t v).vchildren.filter (liveSet h roots).contains = [])
    (hdead : ∀ c ∈ (h.t v).vchildren, c ≠ b ∧ c ≠ v ∧ c ≠ h.next ∧ c ≠ h.next + 1)
    (happ : vf.apply (Desc.contig 0 shb) = .ok (dv, true)) (hnb : vf.isBroadcastTo = false)
    (hin : ∀ p ∈ dv.positions, p < size shb)
    (hwf : ∀ o ∈ inputs, WFop h o)
    (hfresh : ∀ f, ∀ u ∈ (h.op f).vars, u ≠ h.next ∧ u ≠ h.next + 1)
    (hw : outWrite kind (inputs.map (operandVal h)) dv.shape (h.read ⟨bufb, dv⟩) none = .error e) :
    ∃ hf, inPlaceOp h roots v kind inputs = .error (e, hf) ∧
      (∀ t, t < h.next → hf.t t = (nullGrad (nullGrad h b) v).t t) ∧
      (∀ b', b' < h.next → hf.buf b' = h.buf b') ∧
      (∀ f, (hf.op f).vars = (h.op f).vars) := by
  -- names
  have hpbv : v ≠ h.next := by omega
  have hpbb : b ≠ h.next := by omega
  -- 1. prelude
  have hN : (nullGrad h v) = nullGrad h v := rfl
  have hbN : ((nullGrad h v).t b) = h.t b := nullGrad_t_ne h v b (Ne.symm hne)
  have hvN : ((nullGrad h v).t v).vchildren = (h.t v).vchildren ∧ ((nullGrad h v).t v).base = some b ∧
      ((nullGrad h v).t v).creator = some f ∧ ((nullGrad h v).t v).data = (h.t v).data ∧
      ((nullGrad h v).t v).const = (h.t v).const := by
    simp [nullGrad, hvb, hcr]
  have hreach : reachesViaViews (nullGrad h v) (liveSet h roots) (nullGrad h v).fuel b v = true := by
    show reachesViaViews (nullGrad h v) (liveSet h roots) ((nullGrad h v).next + 1 + 1) b v = true
    unfold reachesViaViews
    have : liveChildren (nullGrad h v) (liveSet h roots) b = [v] := by
      unfold liveChildren; rw [hbN]; exact hcb
    simp [this]
  have hpre := prelude_view h (liveSet h roots) v b f hvb hcr hreach
  -- 2. the placeholder graph
  have hdupG := mkDupGraph_one_view (nullGrad h v) (liveSet h roots) b v (by rw [hbN]; exact hbase) hvN.2.1 hne hbl hvl
    (by rw [hbN]; exact hcb) (by rw [hvN.1]; exact hcv)
  have hnn : (nullGrad h v).next = h.next := rfl
  rw [hnn] at hdupG
  obtain ⟨dB, dN, dR, dT, dTb, dTv, dTpb, dTpv⟩ := dup2_spec (nullGrad h v) b v hne hbl hvl
  rw [hnn] at dN dT dTpb dTpv
  generalize hD : dup2 (nullGrad h v) b v = D at hdupG dB dN dR dT dTb dTv dTpb dTpv
  have hDb : D.t b = (nullGrad h b).t b := by
    rw [dTb]; unfold nullGrad; simp only [t_modT_self]; rw [t_modT_ne _ _ _ _ (Ne.symm hne)]
  have hDbd : (D.t b).data = ⟨bufb, Desc.contig 0 shb⟩ := by rw [hDb]; simp [nullGrad, hdata]
  have hDbc : (D.t b).const = (h.t b).const := by rw [hDb]; simp [nullGrad]
  have hDpbc : (D.t h.next).const = (h.t b).const := by rw [dTpb]; simp [nullGrad]; rw [t_modT_ne _ _ _ _ (Ne.symm hne)]
  have hDold : ∀ t, t < h.next → t ≠ b → t ≠ v → D.t t = h.t t := by
    intro t ht h1 h2
    rw [dT t (by omega) (by omega) h1 h2, nullGrad_t_ne _ _ _ h2]
  have hDbuf : ∀ x, D.buf x = h.buf x := fun x => by simp only [Heap.buf, dB]; rfl
  have hDdata : ∀ t, t < h.next → (D.t t).data = (h.t t).data ∧ (D.t t).const = (h.t t).const := by
    intro t ht
    by_cases e1 : t = b
    · subst e1; rw [hDb]; simp [nullGrad]
    · by_cases e2 : t = v
      · subst e2; rw [dTv]; simp [nullGrad]
      · rw [hDold t ht e1 e2]; exact ⟨rfl, rfl⟩
  have hDpvd : (D.t (h.next + 1)).data = (h.t v).data := by rw [dTpv]; simp [nullGrad]
  have hDpbd : (D.t h.next).data = (h.t b).data := by rw [dTpb]; simp [nullGrad]; rw [t_modT_ne _ _ _ _ (Ne.symm hne)]
  -- 3. the copy of the base and the operands as the guarded call sees them
  obtain ⟨cA, cN, cT, cB, cR⟩ := copyH_spec D b
  rw [dN] at cN cB cR
  have hcA : (copyH D b).2 = ⟨h.next + 2, Desc.contig 0 shb⟩ := by rw [cA, dN, hDbd]; rfl
  have hphid : ∀ i, Operand.t i ∈ inputs → i ≠ h.next ∧ i ≠ h.next + 1 := fun i hi => by
    have := (hwf _ hi).1; exact ⟨by omega, by omega⟩
  have hmapd : ∀ i, i < h.next →
      ((copyH D b).1.t (if i = b then h.next else if i = v then h.next + 1 else i)).data = (h.t i).data := by
    intro i hi
    rw [cT]
    by_cases e1 : i = b
    · subst e1; simp only [if_true]; exact hDpbd
    · by_cases e2 : i = v
      · subst e2; simp only [e1, if_false, if_true]; exact hDpvd
      · simp only [e1, e2, if_false]; exact (hDdata i hi).1
  have hwfC : ∀ o ∈ inputs.map (phMap2 b v h.next (h.next + 1)), WFop (copyH D b).1 o := by
    intro o ho
    obtain ⟨o0, ho0, rfl⟩ := List.mem_map.mp ho
    cases o0 with
    | lit w => exact hwf _ ho0
    | t i =>
      obtain ⟨i1, i2⟩ := hwf _ ho0
      show (if i = b then h.next else if i = v then h.next + 1 else i) < (copyH D b).1.next ∧
        ((copyH D b).1.t (if i = b then h.next else if i = v then h.next + 1 else i)).data.buf < _
      rw [hmapd i i1, cN]
      refine ⟨?_, by omega⟩
      split
      · omega
      · split <;> omega
  have hvalC : (inputs.map (phMap2 b v h.next (h.next + 1))).map (operandVal (copyH D b).1) = inputs.map (operandVal h) := by
    rw [List.map_map]
    apply List.map_congr_left
    intro o ho
    cases o with
    | lit w => rfl
    | t i =>
      obtain ⟨i1, i2⟩ := hwf _ ho
      show (copyH D b).1.val ((copyH D b).1.t (if i = b then h.next else if i = v then h.next + 1 else i)).data
        = h.val (h.t i).data
      rw [hmapd i i1]
      have hb1 : (h.t i).data.buf ≠ h.next + 2 := by omega
      rw [val_congr D _ _ (cB _ hb1), val_congr h _ _ (hDbuf _)]
  obtain ⟨wv, _⟩ := wrap_vals (inputs.map (phMap2 b v h.next (h.next + 1))) (copyH D b).1 hwfC
  obtain ⟨eN, eT, eB, eO, eR⟩ := wrap_ext (inputs.map (phMap2 b v h.next (h.next + 1))) (copyH D b).1
  rw [cN] at eN eT eB
  generalize hW : (wrapOperands (copyH D b).1 (inputs.map (phMap2 b v h.next (h.next + 1)))).1 = W at wv eN eT eB eO eR
  have hWcopy : W.buf (h.next + 2) = h.read (h.t b).data := by
    rw [eB _ (by omega), cR, hDbd, hdata]
    simp only [Heap.read, hDbuf]
  have hreadT : W.read ⟨h.next + 2, dv⟩ = h.read ⟨bufb, dv⟩ := by
    simp only [Heap.read]
    apply List.map_congr_left
    intro p hp
    rw [hWcopy, hdata, read_contig_getD h bufb shb p (hin p hp)]
  have hw' : (let W' := wrapOperands (copyH D b).1 (inputs.map (phMap2 b v h.next (h.next + 1)))
      outWrite kind (W'.2.map fun i => W'.1.val (W'.1.t i).data) dv.shape (W'.1.read ⟨(copyH D b).2.buf, dv⟩) none
        = .error e) := by
    simp only
    rw [hW, wv, hvalC, hcA, hreadT]; exact hw
  have hrepP : replayFn (copyH D b).1 (h.next + 1) = some (vf, fc) := by
    unfold replayFn
    rw [cT, dTpv]
    have hcr2 : ((nullGrad (nullGrad h v) v).t v).creator = some f := by simp [nullGrad, hcr]
    simp only [hcr2]
    obtain ⟨k, c⟩ := dup2_op_fields (nullGrad h v) b v f
    have hopf : ((copyH D b).1.op f).kind = .view vf ∧ ((copyH D b).1.op f).forceConst = fc := by
      show (D.op f).kind = _ ∧ (D.op f).forceConst = _
      rw [← hD, k, c]
      exact ⟨hkind, hfc⟩
    rw [hopf.1, hopf.2]
  have hroD : D.ro.contains (D.t b).data.buf = false := by rw [hDbd, dR]; exact hro
  have hmut := mutate_two_fail D b v h.next (h.next + 1) kind inputs e vf fc shb dv hne hpbb (by omega) hpbv (by omega)
    (by rw [hDbd]) hroD hphid hrepP happ hnb hw'
  obtain ⟨q1, q2, q3⟩ := restore_after_copy (nullGrad h v) b v hne hbl hvl hvN.2.1 (by rw [hvN.1]; exact hdead)
    (fun f => hfresh f)
  rw [hnn, hD] at q1 q2 q3
  refine ⟨_, ?_, ?_, q2, q3⟩
  · unfold inPlaceOp
    simp only [hpre, hvN.2.1, Option.isNone_some, Option.getD_some]
    rw [hdupG]
    exact hmut
  · intro t ht
    rw [q1 t ht]
    exact nullGrad3_t h b v t hne


/-- the premises of the two failure theorems are satisfiable, and their conclusions are what the executable model
computes: on `x = [3, 4, 5]` with the live view `v = x[0:2]`, the statements `v[...] = [1, 2, 3]` and `x[...] = [1, 2]`
are rejected (the values do not broadcast); afterwards both tensors hold their values, `v` is still the view of `x`
created by op 6, whose variable list is `[0]` again -/
example :
    outWrite (.setitem (.basic [.ellipsis])) ([Operand.t 7, Operand.lit ([3], [1, 2, 3])].map (operandVal vHeap)) [2]
      (vHeap.read ⟨5, ⟨0, [2], [1]⟩⟩) none = .error .valueError ∧
    outWrite (.setitem (.basic [.ellipsis])) ([Operand.t 0, Operand.lit ([2], [1, 2])].map (operandVal vHeap)) [3]
      (vHeap.read (vHeap.t 0).data) none = .error .valueError ∧
    (∀ f, ∀ u ∈ (vHeap.op f).vars, u ≠ vHeap.next ∧ u ≠ vHeap.next + 1) ∧
    (match inPlaceOp vHeap [0, 7] 7 (.setitem (.basic [.ellipsis])) [.t 7, .lit ([3], [1, 2, 3])] with
      | .error (e, hf) => e == .valueError && hf.val (hf.t 0).data == ([3], [3, 4, 5]) && hf.val (hf.t 7).data == ([2], [3, 4]) &&
          (hf.t 7).base == some 0 && (hf.t 7).creator == some 6 && (hf.op 6).vars == [0] && (hf.t 0).vchildren == [7]
      | .ok _ => false) = true ∧
    (match inPlaceOp vHeap [0, 7] 0 (.setitem (.basic [.ellipsis])) [.t 0, .lit ([2], [1, 2])] with
      | .error (e, hf) => e == .valueError && hf.val (hf.t 0).data == ([3], [3, 4, 5]) && hf.val (hf.t 7).data == ([2], [3, 4]) &&
          (hf.t 7).base == some 0 && (hf.t 7).creator == some 6 && (hf.op 6).vars == [0] && (hf.t 0).vchildren == [7]
      | .ok _ => false) = true := by
  refine ⟨rfl, rfl, ?_, rfl, rfl⟩
  intro f u hu
  have hops : ∀ f, (vHeap.op f).vars = if f = 6 then [0] else [] := by
    intro f
    by_cases h6 : f = 6
    · subst h6; rfl
    · simp only [h6, if_false]
      show ((lookup f vHeap.ops).getD default).vars = []
      have : vHeap.ops = [(6, vHeap.op 6)] := rfl
      rw [this]
      simp [lookup, Ne.symm h6]
      rfl
  rw [hops] at hu
  split at hu
  · simp only [List.mem_cons, List.mem_nil_iff, or_false] at hu
    subst hu
    exact ⟨by decide, by decide⟩
  · cases hu

end MG.C04V
