import MG.Proofs.Lemmas.Heap
/-!
The recorded graph stays acyclic and well-scoped under `Tensor._op`: every heap built from leaves by
(non-in-place) operations has a rank function that strictly decreases from an op's output to each of
its inputs.  This discharges the acyclicity hypothesis of C01/C07 for all such programs.
-/
namespace MG.Eng
open MG.ND

/-- the graph part of a heap is unchanged: creators of all tensors, all op records, the allocation counter -/
def SameGraph (h h' : Heap) : Prop :=
  (∀ t, (h'.t t).creator = (h.t t).creator) ∧ (∀ f, h'.op f = h.op f) ∧ h'.next = h.next

theorem SameGraph.refl (h : Heap) : SameGraph h h := ⟨fun _ => rfl, fun _ => rfl, rfl⟩

theorem SameGraph.trans {a b c : Heap} (h1 : SameGraph a b) (h2 : SameGraph b c) : SameGraph a c :=
  ⟨fun t => (h2.1 t).trans (h1.1 t), fun f => (h2.2.1 f).trans (h1.2.1 f), h2.2.2.trans h1.2.2⟩

theorem sameGraph_modT (h : Heap) (i : Nat) (g : Tens → Tens) (hg : ∀ x, (g x).creator = x.creator) :
    SameGraph h (h.modT i g) :=
  ⟨fun t => t_modT_field _ _ _ _ (·.creator) hg, fun _ => rfl, rfl⟩

theorem sameGraph_foldl {γ} (step : Heap → γ → Heap) (hstep : ∀ h c, SameGraph h (step h c)) :
    ∀ (xs : List γ) (h : Heap), SameGraph h (xs.foldl step h) := by
  intro xs
  induction xs with
  | nil => intro h; exact SameGraph.refl h
  | cons x xs ih => intro h; simp only [List.foldl_cons]; exact (hstep h x).trans (ih _)

/-- ids in scope: creators point at allocated ops, ops mention allocated tensors only, and only
allocated tensors have creators -/
structure Scoped (h : Heap) : Prop where
  vars : ∀ f v, v ∈ (h.op f).vars → v < h.next
  tens : ∀ t f, (h.t t).creator = some f → t < h.next ∧ f < h.next

/-- acyclic: a rank that strictly decreases from every op output to each of its inputs -/
def Acyclic (h : Heap) : Prop :=
  ∃ rank : Nat → Nat, ∀ t f v, (h.t t).creator = some f → v ∈ (h.op f).vars → rank v < rank t

/-- the upper bound of a finite list of ranks -/
def maxRank (rank : Nat → Nat) : List Nat → Nat
  | [] => 0
  | v :: vs => max (rank v) (maxRank rank vs)

theorem le_maxRank (rank : Nat → Nat) (vs : List Nat) (v : Nat) (hv : v ∈ vs) : rank v ≤ maxRank rank vs := by
  induction vs with
  | nil => simp at hv
  | cons w ws ih =>
    simp only [maxRank]
    rcases List.mem_cons.mp hv with rfl | h'
    · omega
    · have := ih h'; omega

/-- recording a new op whose output is a fresh tensor `o`, created by a fresh op `f` over existing
tensors, keeps the graph acyclic and well-scoped -/
theorem acyclic_extend (h h' : Heap) (f o : Nat) (vars : List Nat)
    (hs : Scoped h) (ha : Acyclic h)
    (hf : h.next ≤ f) (ho : h.next ≤ o) (hfo : f < h'.next ∧ o < h'.next) (hn : h.next ≤ h'.next)
    (hvars : ∀ v ∈ vars, v < h.next)
    (hcr_o : (h'.t o).creator = some f)
    (hcr : ∀ t, t ≠ o → (h'.t t).creator = (h.t t).creator)
    (hop_f : (h'.op f).vars = vars)
    (hop : ∀ g, g ≠ f → h'.op g = h.op g) :
    Scoped h' ∧ Acyclic h' := by
  obtain ⟨rank, hr⟩ := ha
  refine ⟨⟨fun g v hv => ?_, fun t g hc => ?_⟩, ⟨fun t => if t = o then maxRank rank vars + 1 else rank t, fun t g v hc hv => ?_⟩⟩
  · by_cases hg : g = f
    · subst hg; rw [hop_f] at hv; have := hvars v hv; omega
    · rw [hop g hg] at hv; have := hs.vars g v hv; omega
  · by_cases ht : t = o
    · subst ht; rw [hcr_o] at hc; cases hc; exact hfo.symm
    · rw [hcr t ht] at hc
      have := hs.tens t g hc
      omega
  · by_cases ht : t = o
    · subst ht
      rw [hcr_o] at hc
      cases hc
      rw [hop_f] at hv
      have hvlt := hvars v hv
      have hvo : v ≠ t := by omega
      simp only [hvo, if_false, if_true]
      have := le_maxRank rank vars v hv
      omega
    · rw [hcr t ht] at hc
      have hgf : g ≠ f := by have := (hs.tens t g hc).2; omega
      rw [hop g hgf] at hv
      have hvlt := hs.vars g v hv
      have hvo : v ≠ o := by omega
      simp only [ht, hvo, if_false]
      exact hr t g v hc hv

/-! ## `wrapOperands`, `forwardOp`, `recordOp` -/

theorem wrapOperands_spec (inputs : List Operand) (h : Heap) (hs : Scoped h) (ha : Acyclic h)
    (hin : ∀ i, Operand.t i ∈ inputs → i < h.next) :
    Scoped (wrapOperands h inputs).1 ∧ Acyclic (wrapOperands h inputs).1 ∧
    h.next ≤ (wrapOperands h inputs).1.next ∧ ∀ v ∈ (wrapOperands h inputs).2, v < (wrapOperands h inputs).1.next := by
  induction inputs generalizing h with
  | nil => exact ⟨hs, ha, Nat.le_refl _, fun v hv => by simp [wrapOperands] at hv⟩
  | cons x xs ih =>
    cases x with
    | t i =>
      simp only [wrapOperands]
      obtain ⟨s, a, n, b⟩ := ih h hs ha (fun j hj => hin j (List.mem_cons_of_mem _ hj))
      refine ⟨s, a, n, fun v hv => ?_⟩
      rcases List.mem_cons.mp hv with rfl | hv'
      · have := hin v (List.mem_cons_self ..); omega
      · exact b v hv'
    | lit v =>
      simp only [wrapOperands]
      -- the wrapped literal: a fresh buffer and a fresh creator-less constant tensor
      have hs' : Scoped (((h.newArr v).1.fresh.1).setT (h.newArr v).1.fresh.2 { data := (h.newArr v).2, const := true }) := by
        refine ⟨fun f w hw => ?_, fun t f hc => ?_⟩
        · have := hs.vars f w hw
          show w < h.next + 1 + 1
          omega
        · by_cases ht : t = h.next + 1
          · subst ht
            simp [Heap.newArr] at hc
          · have e : ((((h.newArr v).1.fresh.1).setT (h.newArr v).1.fresh.2 { data := (h.newArr v).2, const := true }).t t) = h.t t :=
              t_setT_ne _ _ _ _ ht
            rw [e] at hc
            have := hs.tens t f hc
            show t < h.next + 1 + 1 ∧ f < h.next + 1 + 1
            omega
      have ha' : Acyclic (((h.newArr v).1.fresh.1).setT (h.newArr v).1.fresh.2 { data := (h.newArr v).2, const := true }) := by
        obtain ⟨rank, hr⟩ := ha
        refine ⟨rank, fun t f w hc hw => ?_⟩
        by_cases ht : t = h.next + 1
        · subst ht
          simp [Heap.newArr] at hc
        · have e : ((((h.newArr v).1.fresh.1).setT (h.newArr v).1.fresh.2 { data := (h.newArr v).2, const := true }).t t) = h.t t :=
            t_setT_ne _ _ _ _ ht
          rw [e] at hc
          exact hr t f w hc hw
      obtain ⟨s, a, n, b⟩ := ih _ hs' ha' (fun j hj => by
        have := hin j (List.mem_cons_of_mem _ hj)
        show j < h.next + 1 + 1
        omega)
      refine ⟨s, a, ?_, fun w hw => ?_⟩
      · have : h.next + 1 + 1 ≤ _ := n
        omega
      · rcases List.mem_cons.mp hw with rfl | hw'
        · have : h.next + 1 + 1 ≤ _ := n
          show h.next + 1 < _
          omega
        · exact b w hw'

theorem forwardOp_sameGraph (h : Heap) (kind : Kind) (vars : List Nat) (h' : Heap) (a : Arr) (p : Option Nat)
    (hok : forwardOp h kind vars = .ok (h', a, p)) :
    (∀ t, (h'.t t).creator = (h.t t).creator) ∧ (∀ f, h'.op f = h.op f) ∧ h.next ≤ h'.next ∧
    (∀ q, p = some q → q = vars.getD 0 0) := by
  unfold forwardOp at hok
  split at hok
  · simp only at hok
    split at hok
    · cases hok
    · simp only [Except.ok.injEq, Prod.mk.injEq] at hok
      obtain ⟨rfl, _, rfl⟩ := hok
      exact ⟨fun _ => rfl, fun _ => rfl, Nat.le_refl _, fun q hq => by cases hq; rfl⟩
    · simp only [Except.ok.injEq, Prod.mk.injEq] at hok
      obtain ⟨rfl, _, rfl⟩ := hok
      exact ⟨fun _ => rfl, fun _ => rfl, Nat.le_succ _, fun q hq => by cases hq⟩
  · simp only [Except.ok.injEq, Prod.mk.injEq] at hok
    obtain ⟨rfl, _, rfl⟩ := hok
    exact ⟨fun _ => rfl, fun _ => rfl, Nat.le_refl _, fun q hq => by cases hq⟩
  · split at hok
    · cases hok
    · simp only [Except.ok.injEq, Prod.mk.injEq] at hok
      obtain ⟨rfl, _, rfl⟩ := hok
      exact ⟨fun _ => rfl, fun _ => rfl, Nat.le_succ _, fun q hq => by cases hq⟩

theorem prepInputs_sameGraph (h : Heap) (us : List Nat) (parent : Option Nat) :
    SameGraph h (prepInputs h us parent).1 := by
  unfold prepInputs
  simp only
  have hstep : ∀ (b : Option Nat) (hh : Heap) (v : Nat), SameGraph hh
      (let tv := hh.t v
       let h1 := if tv.base.isSome ∧ tv.creator.isNone then hh.modT v ({ · with base := none }) else hh
       if b.isNone then h1.modT v ({ · with grad := none, viewGrad := none }) else h1) := by
    intro b hh v
    simp only
    have s1 : SameGraph hh (if (hh.t v).base.isSome ∧ (hh.t v).creator.isNone then hh.modT v ({ · with base := none }) else hh) := by
      split
      · exact sameGraph_modT _ _ _ (fun _ => rfl)
      · exact SameGraph.refl hh
    split
    · exact s1.trans (sameGraph_modT _ _ _ (fun _ => rfl))
    · exact s1
  split
  · exact sameGraph_foldl _ (hstep none) us h
  · rename_i p
    have sg : SameGraph h (gradPropObj h.fuel h p).1 := by
      obtain ⟨_, n, o, tt⟩ := gradPropObj_frame h.fuel h p
      exact ⟨fun t => (tt t).1, fun f => by simp only [Heap.op, o], n⟩
    refine SameGraph.trans ?_ (sameGraph_foldl _ (hstep _) us _)
    split
    · exact sg.trans (sameGraph_modT _ _ _ (fun _ => rfl))
    · exact SameGraph.refl h

/-- what `recordOp` does to the graph part of the heap -/
theorem recordOp_spec (h : Heap) (kind : Kind) (vars us : List Nat) (c : Bool) (constant : Option Bool)
    (wm : Option (Shape × List Bool)) (outArr : Arr) (parent : Option Nat) :
    let r := recordOp h kind vars us c constant wm outArr parent
    r.2 = h.next + 1 ∧ r.1.next = h.next + 2 ∧ (r.1.t r.2).creator = some h.next ∧
    (∀ t, t ≠ r.2 → (r.1.t t).creator = (h.t t).creator) ∧
    (r.1.op h.next).vars = vars ∧ (∀ g, g ≠ h.next → r.1.op g = h.op g) := by
  simp only
  unfold recordOp
  simp only
  obtain ⟨pc, po, pn⟩ := prepInputs_sameGraph h us parent
  generalize (prepInputs h us parent).1 = hb at pc po pn
  generalize (prepInputs h us parent).2 = base
  -- the consumer-registration fold keeps creators, op records and the counter
  have hfold : ∀ (f : Nat) (vs : List Nat) (h0 : Heap),
      SameGraph h0 (vs.foldl (fun h v => h.modT v fun t => { t with ops := f :: t.ops }) h0) :=
    fun f vs h0 => sameGraph_foldl (fun h v => h.modT v fun t => { t with ops := f :: t.ops })
      (fun hh v => sameGraph_modT hh v (fun t => { t with ops := f :: t.ops }) (fun _ => rfl)) vs h0
  have hrv : (mkOpRec kind vars wm (if base.isSome then constant else none)).vars = vars := rfl
  generalize (mkOpRec kind vars wm (if base.isSome then constant else none)) = rec0 at hrv ⊢
  obtain ⟨fc, fo, fn⟩ := hfold hb.fresh.2 vars (hb.fresh.1.setOp hb.fresh.2 rec0)
  generalize (vars.foldl (fun h v => h.modT v fun t => { t with ops := hb.fresh.2 :: t.ops })
    (hb.fresh.1.setOp hb.fresh.2 rec0)) = he at fc fo fn
  have hen : he.next = h.next + 1 := by rw [fn]; show hb.next + 1 = _; rw [pn]
  have hecr : ∀ t, (he.t t).creator = (h.t t).creator := fun t => by rw [fc]; exact pc t
  have heop_f : (he.op h.next).vars = vars := by
    rw [fo]
    have : hb.fresh.2 = h.next := by show hb.next = _; exact pn
    rw [this]
    simp [Heap.op, Heap.setOp, lookup_insert_self, hrv]
  have heop : ∀ g, g ≠ h.next → he.op g = h.op g := by
    intro g hg
    rw [fo]
    have : hb.fresh.2 = h.next := by show hb.next = _; exact pn
    rw [this]
    simp only [Heap.op, Heap.setOp]
    rw [lookup_insert_ne _ _ _ _ hg]
    exact po g
  have hfid : hb.fresh.2 = h.next := by show hb.next = _; exact pn
  rw [hfid]
  -- attachResult
  unfold attachResult
  simp only [fresh_snd, hen]
  refine ⟨trivial, ?_, ?_, ?_, ?_, ?_⟩
  · split
    · split <;> simp [hen]
    · simp [hen]
  · split
    · split
      · rw [t_modT_field _ _ _ _ (·.creator) (by intro x; rfl)]; simp
      · simp
    · simp
  · intro t ht
    split
    · split
      · rw [t_modT_field _ _ _ _ (·.creator) (by intro x; rfl), t_setT_ne _ _ _ _ ht]
        exact hecr t
      · rw [t_setT_ne _ _ _ _ ht]; exact hecr t
    · rw [t_setT_ne _ _ _ _ ht]; exact hecr t
  · split
    · split <;> simpa using heop_f
    · simpa using heop_f
  · intro g hg
    split
    · split <;> simpa using heop g hg
    · simpa using heop g hg

/-- **acyclic_opStep.**  `Tensor._op` keeps the recorded graph well-scoped and acyclic. -/
theorem acyclic_opStep (h : Heap) (kind : Kind) (inputs : List Operand) (constant : Option Bool)
    (wm : Option (Shape × List Bool)) (h' : Heap) (o : Nat)
    (hs : Scoped h) (ha : Acyclic h) (hin : ∀ i, Operand.t i ∈ inputs → i < h.next)
    (hok : opStep h kind inputs constant wm = .ok (h', o)) :
    Scoped h' ∧ Acyclic h' ∧ o < h'.next ∧ h.next ≤ h'.next := by
  unfold opStep at hok
  simp only at hok
  split at hok
  · cases hok
  · rename_i hh outArr parent hfwd
    simp only [Except.ok.injEq] at hok
    obtain ⟨ws, wa, wn, wv⟩ := wrapOperands_spec inputs h hs ha hin
    obtain ⟨fc, fo, fn, _⟩ := forwardOp_sameGraph _ _ _ _ _ _ hfwd
    -- the heap after the forward pass is scoped and acyclic as well
    have hs2 : Scoped hh := by
      refine ⟨fun f v hv => ?_, fun t f hc => ?_⟩
      · rw [fo] at hv; have := ws.vars f v hv; omega
      · rw [fc] at hc; have := ws.tens t f hc; omega
    have ha2 : Acyclic hh := by
      obtain ⟨rank, hr⟩ := wa
      exact ⟨rank, fun t f v hc hv => hr t f v (by rw [← fc]; exact hc) (by rw [← fo]; exact hv)⟩
    have key : ∀ (us : List Nat) (c : Bool) (r : Heap × Nat),
        recordOp hh kind (wrapOperands h inputs).2 us c constant wm outArr parent = r →
        Scoped r.1 ∧ Acyclic r.1 ∧ r.2 < r.1.next ∧ hh.next ≤ r.1.next := by
      intro us c r hr
      have spec := recordOp_spec hh kind (wrapOperands h inputs).2 us c constant wm outArr parent
      simp only at spec
      rw [hr] at spec
      obtain ⟨e1, e2, e3, e4, e5, e6⟩ := spec
      have := acyclic_extend hh r.1 hh.next r.2 (wrapOperands h inputs).2 hs2 ha2 (Nat.le_refl _)
        (by omega) (by omega) (by omega) (fun v hv => by have := wv v hv; omega) e3 e4 e5 e6
      exact ⟨this.1, this.2, by omega, by omega⟩
    obtain ⟨k1, k2, k3, k4⟩ := key _ _ _ hok
    simp only at k3 k4
    exact ⟨k1, k2, k3, by omega⟩

/-- a leaf tensor (`mg.tensor(data)`): fresh buffer, fresh creator-less tensor -/
def mkLeaf (h : Heap) (v : Val) (c : Bool) : Heap × Nat :=
  let (h, a) := h.newArr v
  let (h, t) := h.fresh
  (h.setT t { data := a, const := c }, t)

theorem acyclic_mkLeaf (h : Heap) (v : Val) (c : Bool) (hs : Scoped h) (ha : Acyclic h) :
    Scoped (mkLeaf h v c).1 ∧ Acyclic (mkLeaf h v c).1 ∧ (mkLeaf h v c).2 < (mkLeaf h v c).1.next := by
  have e : ∀ t, t ≠ h.next + 1 → ((mkLeaf h v c).1.t t) = h.t t := fun t ht => t_setT_ne _ _ _ _ ht
  have en : (mkLeaf h v c).1.next = h.next + 2 := rfl
  have eo : ∀ f, (mkLeaf h v c).1.op f = h.op f := fun _ => rfl
  have ecr : ((mkLeaf h v c).1.t (h.next + 1)).creator = none := by simp [mkLeaf, Heap.newArr]
  refine ⟨⟨fun f w hw => ?_, fun t f hc => ?_⟩, ?_, ?_⟩
  · rw [eo] at hw; have := hs.vars f w hw; omega
  · by_cases ht : t = h.next + 1
    · subst ht; rw [ecr] at hc; cases hc
    · rw [e t ht] at hc; have := hs.tens t f hc; omega
  · obtain ⟨rank, hr⟩ := ha
    refine ⟨rank, fun t f w hc hw => ?_⟩
    by_cases ht : t = h.next + 1
    · subst ht; rw [ecr] at hc; cases hc
    · rw [e t ht] at hc; rw [eo] at hw; exact hr t f w hc hw
  · show h.next + 1 < h.next + 2
    omega

theorem scoped_empty : Scoped ({} : Heap) ∧ Acyclic ({} : Heap) := by
  have hd : ∀ t, (({} : Heap).t t).creator = none := fun _ => rfl
  have ho : ∀ f, (({} : Heap).op f).vars = [] := fun _ => rfl
  refine ⟨⟨fun f v hv => ?_, fun t f hc => ?_⟩, ⟨fun _ => 0, fun t f v hc _ => ?_⟩⟩
  · rw [ho] at hv; simp at hv
  · rw [hd] at hc; cases hc
  · rw [hd] at hc; cases hc

end MG.Eng
