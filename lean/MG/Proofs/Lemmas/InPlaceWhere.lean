import MG.Proofs.Lemmas.InPlaceView
/-!
`where=`-masked in-place updates on a tensor that owns its memory: the whole `_in_place_op` of the model — the guarded
call with the mask, then `ApplyMask(mutant, placeholder, mask)` — in closed form, and its NumPy-level meaning.
-/
namespace MG.C04W
open MG.Eng MG.ND MG.C13 MG.C04R MG.C04V

/-- `opStepOut` for arbitrary operands with a `where=` mask -/
theorem opStepOut_eqM (h : Heap) (kind : Kind) (inputs : List Operand) (out : Arr) (vals : List Int)
    (m : Shape × List Bool)
    (hw : outWrite kind ((wrapOperands h inputs).2.map fun i =>
            (wrapOperands h inputs).1.val ((wrapOperands h inputs).1.t i).data) out.d.shape
            ((wrapOperands h inputs).1.read out) (some m) = .ok vals) :
    opStepOut h kind inputs none (some m) out =
      .ok (outRes (wrapOperands h inputs).1 kind (userIds inputs) (wrapOperands h inputs).2 out vals (some m)) := by
  unfold opStepOut
  simp only
  rw [hw, filterMap_userIds _ (fun i => rfl) (fun v => rfl)]
  rfl

/-- gradient nulling of the inputs keeps every constant flag -/
theorem any_const_foldl (users vars : List Nat) (h : Heap) :
    (vars.any fun v => !((users.foldl (fun h v =>
      let tv := h.t v
      let h := if tv.base.isSome ∧ tv.creator.isNone then h.modT v ({ · with base := none }) else h
      h.modT v ({ · with grad := none, viewGrad := none })) h).t v).const) = vars.any fun v => !(h.t v).const := by
  have K : Kept h (users.foldl (fun h v =>
      let tv := h.t v
      let h := if tv.base.isSome ∧ tv.creator.isNone then h.modT v ({ · with base := none }) else h
      h.modT v ({ · with grad := none, viewGrad := none })) h) := by
    apply kept_foldl
    intro h c
    simp only
    split
    · refine Kept.trans (b := h.modT c ({ · with base := none })) ?_ ?_
      · exact kept_modT h c _ (fun _ => rfl) (fun _ => rfl)
      · exact kept_modT _ c _ (fun _ => rfl) (fun _ => rfl)
    · exact kept_modT h c _ (fun _ => rfl) (fun _ => rfl)
  congr 1
  funext v
  rw [(K.2 v).2]

/-- `Tensor._op(ApplyMask, mutant, placeholder, mask=…)` -/
theorem opStep_applyMask (h : Heap) (a p : Nat) (m : Shape × List Bool) :
    opStep h (.applyMask m) [.t a, .t p] = .ok (outCore h (.applyMask m) [a, p] [a, p] (h.t a).data) := by
  unfold opStep
  simp only [wrapOperands, List.filterMap_cons, List.filterMap_nil, forwardOp, List.getD_cons_zero]
  congr 1
  unfold recordOp prepInputs outCore
  simp only [Option.isNone_none, if_true, Option.isSome_none, Bool.false_eq_true, if_false, attachResult, resultConst, mkOpRec]
  rw [any_const_foldl]


/-- the final heap of a `where=`-masked in-place update on a tensor without views, any operands -/
def finalHLM (H : Heap) (x p : Nat) (kind : Kind) (inputs : List Operand) (vals : List Int) (m : Shape × List Bool) : Heap :=
  let w := wrapOperands (copyH H x).1 (inputs.map (phMap x p))
  let r := outRes w.1 kind (userIds (inputs.map (phMap x p))) w.2 (copyH H x).2 vals (some m)
  let h5 := r.1.modT r.2 ({ · with const := (H.t x).const })
  let a := outCore h5 (.applyMask m) [r.2, p] [r.2, p] (h5.t r.2).data
  let h6 := mirror a.1 x a.2
  { h6 with tens := h6.tens.filter fun q => q.1 ≠ a.2 }

theorem mutate_single_eqM (H : Heap) (x p : Nat) (kind : Kind) (inputs : List Operand) (vals : List Int)
    (m : Shape × List Bool)
    (hcc : (H.t x).data.d.isCContig = true) (hph : ∀ i, Operand.t i ∈ inputs → i ≠ p)
    (hro : H.ro.contains (H.t x).data.buf = false)
    (hw : let w := wrapOperands (copyH H x).1 (inputs.map (phMap x p))
          outWrite kind (w.2.map fun i => w.1.val (w.1.t i).data) (copyH H x).2.d.shape (w.1.read (copyH H x).2) (some m)
            = .ok vals)
    (hdfs : ∀ c ∈ ((finalHLM H x p kind inputs vals m).t p).vchildren, c ≠ x ∧ c ≠ p) :
    inPlaceMutate H (G1 x p) x true kind inputs none (some m) = .ok (finalHLM H x p kind inputs vals m) := by
  unfold inPlaceMutate
  simp only [G1_base, Heap.copyArrK, hcc, if_true, G1_node_x, Option.isNone_some, Bool.false_eq_true, if_false]
  show (do
    let (target, chain) ← withHeap (copyH H x).1 (inPlaceTarget (copyH H x).1 (G1 x p) x (copyH H x).2)
    _) = _
  rw [G1_target]
  have hro' : (copyH H x).1.ro.contains (H.t x).data.buf = false := hro
  simp only [withHeap, Bind.bind, Except.bind, List.any_nil, hro', Bool.or_self, Bool.false_eq_true, if_false]
  rw [map_phMap x p _ (fun i => rfl) (fun v => rfl) inputs hph]
  rw [show (H.newArr (H.val (H.t x).data)).fst = (copyH H x).1 from rfl, opStepOut_eqM _ _ _ _ _ _ hw]
  simp only [pure, Except.pure, opStep_applyMask, if_true, Bool.false_or, hro', Bool.false_eq_true, if_false]
  show recreateViews (finalHLM H x p kind inputs vals m) ((G1 x p).dfs (finalHLM H x p kind inputs vals m)) = _
  rw [show G1 x p = ⟨[⟨x, p, none⟩]⟩ from rfl, dfs_single _ x p hdfs, recreate_single]


theorem finalHLM_spec (H : Heap) (x p : Nat) (kind : Kind) (inputs : List Operand) (vals : List Int)
    (m : Shape × List Bool)
    (hx : x < H.next) (hp : p < H.next) (hpc : (H.t p).const = (H.t x).const)
    (hvl : vals.length = size (H.t x).data.d.shape) :
    let F := finalHLM H x p kind inputs vals m
    F.val (F.t x).data = ((H.t x).data.d.shape, vals) ∧ (F.t x).const = (H.t x).const ∧ (F.t x).base = none ∧
    (∀ b, b < H.next → F.buf b = H.buf b) ∧
    (∀ t, t ≠ x → t < H.next → (F.t t).data = (H.t t).data ∧ (F.t t).const = (H.t t).const) := by
  intro F
  obtain ⟨cA, cN, cT, cB, cR⟩ := copyH_spec H x
  have e := wrap_ext (inputs.map (phMap x p)) (copyH H x).1
  obtain ⟨eN, eT, eB, _, _⟩ := e
  rw [cN] at eN eT eB
  obtain ⟨rId, rB, rD, rBase, rO⟩ := outRes_spec (wrapOperands (copyH H x).1 (inputs.map (phMap x p))).1 kind
    (userIds (inputs.map (phMap x p))) (wrapOperands (copyH H x).1 (inputs.map (phMap x p))).2 (copyH H x).2 vals (some m)
  obtain ⟨rN, _⟩ := outCore_next ((wrapOperands (copyH H x).1 (inputs.map (phMap x p))).1.write (copyH H x).2 vals) kind
    (userIds (inputs.map (phMap x p))) (wrapOperands (copyH H x).1 (inputs.map (phMap x p))).2 (copyH H x).2 (some m)
  -- abbreviations
  generalize hW : (wrapOperands (copyH H x).1 (inputs.map (phMap x p))).1 = W at eN eT eB rId rB rD rBase rO rN
  have rN' : (outRes W kind (userIds (inputs.map (phMap x p))) (wrapOperands (copyH H x).1 (inputs.map (phMap x p))).2
      (copyH H x).2 vals (some m)).1.next = W.next + 2 := rN
  generalize hR : outRes W kind (userIds (inputs.map (phMap x p))) (wrapOperands (copyH H x).1 (inputs.map (phMap x p))).2
    (copyH H x).2 vals (some m) = R at rId rB rD rBase rO rN'
  -- the heap on which ApplyMask is recorded
  have h5n : (R.1.modT R.2 ({ · with const := (H.t x).const })).next = W.next + 2 := rN'
  have h5R : ((R.1.modT R.2 ({ · with const := (H.t x).const })).t R.2).data = (copyH H x).2 := by
    rw [t_modT_self, rId]; exact rD
  have h5Rc : ((R.1.modT R.2 ({ · with const := (H.t x).const })).t R.2).const = (H.t x).const := by
    rw [t_modT_self]
  have hpR : p ≠ R.2 := by rw [rId]; omega
  have h5o : ∀ t, t ≠ R.2 → (R.1.modT R.2 ({ · with const := (H.t x).const })).t t = R.1.t t :=
    fun t ht => t_modT_ne _ _ _ _ ht
  have h5p : ((R.1.modT R.2 ({ · with const := (H.t x).const })).t p).const = (H.t x).const := by
    rw [h5o p hpR, (rO p (by rw [← rId]; exact hpR)).2, eT p (by omega), cT, hpc]
  generalize h5 : R.1.modT R.2 ({ · with const := (H.t x).const }) = H5 at h5n h5R h5Rc h5o h5p
  obtain ⟨aId, aB, aD, aBase, aO⟩ := outCore_spec H5 (.applyMask m) [R.2, p] [R.2, p] (H5.t R.2).data
  obtain ⟨aC, _⟩ := outCore_const H5 (.applyMask m) [R.2, p] [R.2, p] (H5.t R.2).data
  generalize hA : outCore H5 (.applyMask m) [R.2, p] [R.2, p] (H5.t R.2).data = A at aId aB aD aBase aO aC
  rw [h5n] at aId aD aBase aO aC
  have hF : F = { (mirror A.1 x A.2) with tens := (mirror A.1 x A.2).tens.filter fun q => q.1 ≠ A.2 } := by
    show finalHLM H x p kind inputs vals m = _
    unfold finalHLM
    simp only [hW, hR, h5, hA]
  have hxo : x ≠ A.2 := by rw [aId]; omega
  have hFx : F.t x = A.1.t A.2 := by
    rw [hF, t_filter_ne _ _ _ hxo]
    simp only [mirror, t_setT_self]
  have hFb : F.bufs = (W.write (copyH H x).2 vals).bufs := by
    rw [hF]; show A.1.bufs = _; rw [aB, ← h5]; exact rB
  have hdata : (F.t x).data = (copyH H x).2 := by rw [hFx, aId, aD, h5R]
  have hbufN : W.buf H.next = H.read (H.t x).data := by rw [eB H.next (by omega)]; exact cR
  refine ⟨?_, ?_, ?_, ?_, ?_⟩
  · have hread : F.read (copyH H x).2 = (W.write (copyH H x).2 vals).read (copyH H x).2 := by
      simp only [Heap.read, Heap.buf, hFb]
    simp only [Heap.val, hdata]
    rw [hread, read_write_same]
    · rw [cA]; rfl
    · rw [cA]; simp only; rw [positions_contig]; exact nodup_range_map_add 0 _
    · rw [cA]; simp only; rw [positions_contig]; simp [hvl]
    · intro q hq
      rw [cA] at hq ⊢
      simp only at hq ⊢
      rw [positions_contig] at hq
      rw [hbufN, read_length]
      obtain ⟨i, hi, rfl⟩ := List.mem_map.mp hq
      simpa using List.mem_range.mp hi
  · rw [hFx, aId, aC]
    simp [h5Rc, h5p]
  · rw [hFx, aId]; exact aBase
  · intro b hb
    simp only [Heap.buf, hFb]
    have hbuf : (copyH H x).2.buf = H.next := by rw [cA]
    have h1 := write_frames_buffer W (copyH H x).2 vals b (by rw [hbuf]; omega)
    simp only [Heap.buf] at h1
    rw [h1]
    have := eB b (by omega)
    simp only [Heap.buf] at this
    rw [this]
    exact cB b (by omega)
  · intro t htx htl
    have hto : t ≠ A.2 := by rw [aId]; omega
    have htR : t ≠ R.2 := by rw [rId]; omega
    have : F.t t = A.1.t t := by
      rw [hF, t_filter_ne _ _ _ hto]
      simp only [mirror]
      rw [t_setT_ne _ _ _ _ htx]
    rw [this]
    obtain ⟨a1, a2⟩ := aO t (by rw [← aId]; exact hto)
    rw [a1, a2, h5o t htR]
    obtain ⟨d1, d2⟩ := rO t (by rw [← rId]; exact htR)
    rw [d1, d2, eT t (by omega), cT]
    exact ⟨rfl, rfl⟩


/-- **inplace_on_owner_where_refines_numpy.**  `ufunc(a, b, out=x, where=mask)` on a tensor `x` that owns its
C-contiguous, writeable memory and has no live views, for *any* operands: if the NumPy-level statement with the mask
(`outWrite … (some m)`: the kernel's values where the mask is set, `x`'s old values elsewhere) yields `vals`, the update
succeeds; the same tensor id `x` then reads `vals`, keeps its constant flag and owns its memory; every buffer that
existed before is unchanged and every other existing tensor keeps its array and flag. -/
theorem inplace_on_owner_where_refines_numpy (h : Heap) (roots : List Nat) (x : Nat) (kind : Kind)
    (inputs : List Operand) (vals : List Int) (m : Shape × List Bool)
    (hx : x < h.next) (hbase : (h.t x).base = none)
    (hnov : liveChildren h (liveSet h roots) x = [])
    (hvc : ∀ c ∈ (h.t x).vchildren, c ≠ x ∧ c ≠ h.next)
    (hcc : (h.t x).data.d.isCContig = true)
    (hro : h.ro.contains (h.t x).data.buf = false)
    (hwf : ∀ o ∈ inputs, WFop h o) (hxbuf : (h.t x).data.buf < h.next)
    (hw : outWrite kind (inputs.map (operandVal h)) (h.t x).data.d.shape (h.read (h.t x).data) (some m) = .ok vals)
    (hvl : vals.length = size (h.t x).data.d.shape) :
    ∃ h', inPlaceOp h roots x kind inputs none (some m) = .ok h' ∧
      h' = finalHLM (dupH h x) x h.next kind inputs vals m ∧
      h'.val (h'.t x).data = ((h.t x).data.d.shape, vals) ∧
      (h'.t x).const = (h.t x).const ∧ (h'.t x).base = none ∧
      (∀ b, b < h.next → h'.buf b = h.buf b) ∧
      (∀ t, t ≠ x → t < h.next → (h'.t t).data = (h.t t).data ∧ (h'.t t).const = (h.t t).const) := by
  have hne : h.next ≠ x := by omega
  obtain ⟨dB, dN, dT, dPd, dPc, dPv⟩ := dupH_spec h x hx
  obtain ⟨dxd, dxc, dxv⟩ := dT x (Ne.symm hne)
  obtain ⟨cA, cN, cT, cB, cR⟩ := copyH_spec (dupH h x) x
  have hbuf : ∀ b, (dupH h x).buf b = h.buf b := fun b => by simp only [Heap.buf, dB]
  -- 1. the prelude and the graph
  have hpre := prelude_owner h (liveSet h roots) x hbase
  have hnb : ((nullGrad h x).t x).base = none := by simp [nullGrad, hbase]
  have hlc : liveChildren (nullGrad h x) (liveSet h roots) x = [] := by
    unfold liveChildren at hnov ⊢
    have : ((nullGrad h x).t x).vchildren = (h.t x).vchildren := by simp [nullGrad]
    rw [this]; exact hnov
  have hdup := mkDupGraph_no_views (nullGrad h x) (liveSet h roots) x hx hnb hlc
  -- 2. the operands as the guarded call sees them
  have hph : ∀ i, Operand.t i ∈ inputs → i ≠ h.next := fun i hi => by
    have := (hwf _ hi).1; omega
  have hwfC : ∀ o ∈ inputs.map (phMap x h.next), WFop (copyH (dupH h x) x).1 o := by
    intro o ho
    obtain ⟨o0, ho0, rfl⟩ := List.mem_map.mp ho
    cases o0 with
    | lit v => exact hwf _ ho0
    | t i =>
      obtain ⟨i1, i2⟩ := hwf _ ho0
      show swapVar x h.next i < (copyH (dupH h x) x).1.next ∧ ((copyH (dupH h x) x).1.t (swapVar x h.next i)).data.buf < _
      rw [cN, dN, cT]
      have hd : ((dupH h x).t (swapVar x h.next i)).data = (h.t i).data := by
        unfold swapVar
        by_cases e : i = x
        · subst e; simp only [if_true]; exact dPd
        · simp only [e, if_false]; exact (dT i (by omega)).1
      rw [hd]
      refine ⟨?_, by omega⟩
      unfold swapVar; split <;> omega
  have hvalC : (inputs.map (phMap x h.next)).map (operandVal (copyH (dupH h x) x).1) = inputs.map (operandVal h) := by
    rw [List.map_map]
    apply List.map_congr_left
    intro o ho
    cases o with
    | lit v => rfl
    | t i =>
      obtain ⟨i1, i2⟩ := hwf _ ho
      show (copyH (dupH h x) x).1.val ((copyH (dupH h x) x).1.t (swapVar x h.next i)).data = h.val (h.t i).data
      rw [cT]
      have hd : ((dupH h x).t (swapVar x h.next i)).data = (h.t i).data := by
        unfold swapVar
        by_cases e : i = x
        · subst e; simp only [if_true]; exact dPd
        · simp only [e, if_false]; exact (dT i (by omega)).1
      rw [hd]
      have hb1 : (h.t i).data.buf ≠ (dupH h x).next := by rw [dN]; omega
      rw [val_congr (dupH h x) _ _ (cB _ hb1), val_congr h _ _ (hbuf _)]
  obtain ⟨wv, _⟩ := wrap_vals (inputs.map (phMap x h.next)) (copyH (dupH h x) x).1 hwfC
  have hshape : (copyH (dupH h x) x).2.d.shape = (h.t x).data.d.shape := by rw [cA, dxd]; rfl
  have eW := wrap_ext (inputs.map (phMap x h.next)) (copyH (dupH h x) x).1
  have hread : (wrapOperands (copyH (dupH h x) x).1 (inputs.map (phMap x h.next))).1.read (copyH (dupH h x) x).2
      = h.read (h.t x).data := by
    have hb0 : (copyH (dupH h x) x).2.buf < (copyH (dupH h x) x).1.next := by rw [cA, cN]; show (dupH h x).next < _; omega
    have : (wrapOperands (copyH (dupH h x) x).1 (inputs.map (phMap x h.next))).1.read (copyH (dupH h x) x).2
        = (copyH (dupH h x) x).1.read (copyH (dupH h x) x).2 := by
      simp only [Heap.read, eW.2.2.1 _ hb0]
    rw [this, cA]
    have e2 : ({ buf := (dupH h x).next, d := Desc.contig 0 ((dupH h x).t x).data.d.shape } : Arr) =
        ((dupH h x).newArr ((dupH h x).val ((dupH h x).t x).data)).2 := rfl
    rw [e2]
    show ((dupH h x).newArr _).1.read _ = _
    rw [read_newArr _ _ (by simp [Heap.val, read_length])]
    simp only [Heap.val, dxd]
    simp only [Heap.read, hbuf]
  have hw' : (let w := wrapOperands (copyH (dupH h x) x).1 (inputs.map (phMap x h.next))
      outWrite kind (w.2.map fun i => w.1.val (w.1.t i).data) (copyH (dupH h x) x).2.d.shape
        (w.1.read (copyH (dupH h x) x).2) (some m) = .ok vals) := by
    simp only
    rw [wv, hvalC, hshape, hread]; exact hw
  -- 3. the walk over the (one-node) graph after the update
  have hcc' : ((dupH h x).t x).data.d.isCContig = true := by rw [dxd]; exact hcc
  have hvl' : vals.length = size ((dupH h x).t x).data.d.shape := by rw [dxd]; exact hvl
  have hx' : x < (dupH h x).next := by rw [dN]; omega
  have hro' : (dupH h x).ro.contains ((dupH h x).t x).data.buf = false := by rw [dxd, dupH_ro]; exact hro
  have hdfs : ∀ c ∈ ((finalHLM (dupH h x) x h.next kind inputs vals m).t h.next).vchildren, c ≠ x ∧ c ≠ h.next := by
    -- the placeholder keeps its view children through both recorded ops
    obtain ⟨rId, _, _, _, _⟩ := outRes_spec (wrapOperands (copyH (dupH h x) x).1 (inputs.map (phMap x h.next))).1 kind
      (userIds (inputs.map (phMap x h.next))) (wrapOperands (copyH (dupH h x) x).1 (inputs.map (phMap x h.next))).2
      (copyH (dupH h x) x).2 vals (some m)
    obtain ⟨rN, _⟩ := outCore_next ((wrapOperands (copyH (dupH h x) x).1 (inputs.map (phMap x h.next))).1.write
      (copyH (dupH h x) x).2 vals) kind (userIds (inputs.map (phMap x h.next)))
      (wrapOperands (copyH (dupH h x) x).1 (inputs.map (phMap x h.next))).2 (copyH (dupH h x) x).2 (some m)
    have hN := eW.1
    rw [cN, dN] at hN
    generalize hW : (wrapOperands (copyH (dupH h x) x).1 (inputs.map (phMap x h.next))).1 = W at rId rN hN
    have rN' : (outRes W kind (userIds (inputs.map (phMap x h.next)))
        (wrapOperands (copyH (dupH h x) x).1 (inputs.map (phMap x h.next))).2 (copyH (dupH h x) x).2 vals (some m)).1.next
        = W.next + 2 := rN
    have hvR := outRes_vchildren W kind (userIds (inputs.map (phMap x h.next)))
      (wrapOperands (copyH (dupH h x) x).1 (inputs.map (phMap x h.next))).2 (copyH (dupH h x) x).2 vals h.next (by omega) (some m)
    generalize hR : outRes W kind (userIds (inputs.map (phMap x h.next)))
      (wrapOperands (copyH (dupH h x) x).1 (inputs.map (phMap x h.next))).2 (copyH (dupH h x) x).2 vals (some m) = R
      at rId rN' hvR
    have h5n : (R.1.modT R.2 ({ · with const := ((dupH h x).t x).const })).next = W.next + 2 := rN'
    have hpR : h.next ≠ R.2 := by rw [rId]; omega
    have h5v : ((R.1.modT R.2 ({ · with const := ((dupH h x).t x).const })).t h.next).vchildren = (W.t h.next).vchildren := by
      rw [t_modT_ne _ _ _ _ hpR]; exact hvR
    generalize h5 : R.1.modT R.2 ({ · with const := ((dupH h x).t x).const }) = H5 at h5n h5v
    obtain ⟨aId, _, _, _, _⟩ := outCore_spec H5 (.applyMask m) [R.2, h.next] [R.2, h.next] (H5.t R.2).data
    have hvA := outCore_vchildren H5 (.applyMask m) [R.2, h.next] [R.2, h.next] (H5.t R.2).data h.next (by omega)
    generalize hA : outCore H5 (.applyMask m) [R.2, h.next] [R.2, h.next] (H5.t R.2).data = A at aId hvA
    have e1 : (finalHLM (dupH h x) x h.next kind inputs vals m).t h.next = A.1.t h.next := by
      have hF : finalHLM (dupH h x) x h.next kind inputs vals m =
          { (mirror A.1 x A.2) with tens := (mirror A.1 x A.2).tens.filter fun q => q.1 ≠ A.2 } := by
        unfold finalHLM
        simp only [hW, hR, h5, hA]
      rw [hF, t_filter_ne _ _ _ (by rw [aId]; omega)]
      simp only [mirror]
      rw [t_setT_ne _ _ _ _ hne]
    rw [e1, hvA, h5v, ← hW, eW.2.1 _ (by rw [cN, dN]; omega), cT, dPv]
    exact hvc
  have hmut := mutate_single_eqM (dupH h x) x h.next kind inputs vals m hcc' hph hro' hw' hdfs
  obtain ⟨f1, f2, f3, f4, f5⟩ := finalHLM_spec (dupH h x) x h.next kind inputs vals m hx' (by rw [dN]; omega)
    (by rw [dPc, dxc]) hvl'
  refine ⟨finalHLM (dupH h x) x h.next kind inputs vals m, ?_, rfl, ?_, ?_, f3, ?_, ?_⟩
  · unfold inPlaceOp
    simp only [hpre, hnb, Option.isNone_none, Option.getD_none]
    rw [hdup]
    exact hmut
  · rw [f1, dxd]
  · rw [f2, dxc]
  · intro b hb
    rw [f4 b (by rw [dN]; omega)]
    exact hbuf b
  · intro t h1 h2
    obtain ⟨g1, g2⟩ := f5 t h1 (by rw [dN]; omega)
    obtain ⟨d1, d2, _⟩ := dT t (by omega)
    exact ⟨g1.trans d1, g2.trans d2⟩


/-- premises satisfiable, conclusion computed: `np.multiply(x, [2, 3], out=x, where=[True, False])` on the leaf
`x = [3, 4]` of `C13.exHeap` leaves `x = [6, 4]` -/
example :
    (∀ o ∈ [Operand.t 0, Operand.lit ([2], [2, 3])], WFop exHeap o) ∧ (exHeap.t 0).data.buf < exHeap.next ∧
    outWrite .mul ([Operand.t 0, Operand.lit ([2], [2, 3])].map (operandVal exHeap))
      (exHeap.t 0).data.d.shape (exHeap.read (exHeap.t 0).data) (some ([2], [true, false])) = .ok [6, 4] ∧
    (match inPlaceOp exHeap [0] 0 .mul [.t 0, .lit ([2], [2, 3])] none (some ([2], [true, false])) with
      | .ok h' => h'.val (h'.t 0).data == ([2], [6, 4]) && (h'.t 0).base.isNone
      | .error _ => false) = true := by
  refine ⟨?_, by decide, rfl, rfl⟩
  intro o ho
  simp only [List.mem_cons, List.mem_nil_iff, or_false] at ho
  rcases ho with rfl | rfl
  · exact ⟨by decide, by decide⟩
  · rfl

end MG.C04W
