import MG.Core.Lock
/-! Helper lemmas for C08: association-list tables of `MG/Core/Lock.lean`. -/
namespace MG.Lock

variable {α : Type}

@[simp] theorem lookup_nil (k : Nat) : lookup k ([] : Tab α) = none := rfl

theorem lookup_erase (k k' : Nat) (m : Tab α) :
    lookup k' (erase k m) = if k' = k then none else lookup k' m := by
  induction m with
  | nil => simp [erase, lookup]
  | cons p m ih =>
    obtain ⟨q, v⟩ := p
    by_cases h : q = k
    · subst h
      simp only [erase, ↓reduceIte, ih, lookup]
      by_cases h2 : k' = q
      · simp [h2]
      · have : ¬ q = k' := fun e => h2 e.symm
        simp [h2, this]
    · simp only [erase, h, ↓reduceIte, lookup, ih]
      by_cases h2 : q = k'
      · subst h2
        simp [h]
      · simp [h2]

theorem lookup_insert (k k' : Nat) (v : α) (m : Tab α) :
    lookup k' (insert k v m) = if k' = k then some v else lookup k' m := by
  unfold insert
  simp only [lookup, lookup_erase]
  by_cases h : k = k'
  · subst h; simp
  · have : ¬ k' = k := fun e => h e.symm
    simp [h, this]

theorem cget_erase (k k' : Nat) (m : Tab Nat) :
    cget (erase k m) k' = if k' = k then 0 else cget m k' := by
  unfold cget
  rw [lookup_erase]
  split <;> simp

theorem cget_insert (k k' v : Nat) (m : Tab Nat) :
    cget (insert k v m) k' = if k' = k then v else cget m k' := by
  unfold cget
  rw [lookup_insert]
  split <;> simp

theorem wget_erase (k k' : Nat) (m : Tab (List Nat)) :
    wget (erase k m) k' = if k' = k then [] else wget m k' := by
  unfold wget
  rw [lookup_erase]
  split <;> simp

theorem wget_insert (k k' : Nat) (v : List Nat) (m : Tab (List Nat)) :
    wget (insert k v m) k' = if k' = k then v else wget m k' := by
  unfold wget
  rw [lookup_insert]
  split <;> simp

@[simp] theorem wget_nil (k : Nat) : wget [] k = [] := rfl

theorem mem_wget_wadd (k v k' v' : Nat) (m : Tab (List Nat)) :
    v' ∈ wget (wadd k v m) k' ↔ (v' ∈ wget m k' ∨ (k' = k ∧ v' = v)) := by
  unfold wadd
  by_cases hc : (wget m k).contains v = true
  · simp only [hc, ↓reduceIte, wget_insert]
    have hv : v ∈ wget m k := by simpa using hc
    by_cases hk : k' = k
    · subst hk
      simp only [↓reduceIte, true_and]
      constructor
      · intro h; exact Or.inl h
      · rintro (h | h)
        · exact h
        · subst h; exact hv
    · simp [hk]
  · have hc' : (wget m k).contains v = false := by simpa using hc
    simp only [hc', Bool.false_eq_true, ↓reduceIte]
    rw [wget_insert]
    by_cases hk : k' = k
    · subst hk
      simp [List.mem_append]
    · simp [hk]

theorem mem_wget_wremove (k v k' v' : Nat) (m : Tab (List Nat)) :
    v' ∈ wget (wremove k v m) k' ↔ (v' ∈ wget m k' ∧ ¬ (k' = k ∧ v' = v)) := by
  unfold wremove
  rw [wget_insert]
  by_cases hk : k' = k
  · subst hk
    simp [List.mem_filter]
  · simp [hk]

theorem isEmpty_iff_lookup {m : Tab α} : m.isEmpty = true → ∀ k, lookup k m = none := by
  intro h k
  cases m with
  | nil => rfl
  | cons p m => simp at h

/-- multiset of live holds: one more hold -/
theorem cntH_append (hs : List (List Nat)) (h : List Nat) (o : Nat) :
    cntH (hs ++ [h]) o = cntH hs o + h.count o := by
  induction hs with
  | nil => simp [cntH]
  | cons x xs ih => simp only [List.cons_append, cntH, ih]; omega

theorem cntH_set (hs : List (List Nat)) (k : Nat) (h extra : List Nat) (o : Nat)
    (hk : hs[k]? = some h) :
    cntH (hs.set k (h ++ extra)) o = cntH hs o + extra.count o := by
  induction hs generalizing k with
  | nil => simp at hk
  | cons x xs ih =>
    cases k with
    | zero =>
      simp only [List.getElem?_cons_zero, Option.some.injEq] at hk
      subst hk
      simp only [List.set_cons_zero, cntH, List.count_append]
      omega
    | succ k =>
      simp only [List.getElem?_cons_succ] at hk
      simp only [List.set_cons_succ, cntH, ih k hk]
      omega

theorem cntH_eraseIdx (hs : List (List Nat)) (k : Nat) (h : List Nat) (o : Nat)
    (hk : hs[k]? = some h) :
    cntH hs o = cntH (hs.eraseIdx k) o + h.count o := by
  induction hs generalizing k with
  | nil => simp at hk
  | cons x xs ih =>
    cases k with
    | zero =>
      simp only [List.getElem?_cons_zero, Option.some.injEq] at hk
      subst hk
      simp only [List.eraseIdx_cons_zero, cntH]
      omega
    | succ k =>
      simp only [List.getElem?_cons_succ] at hk
      simp only [List.eraseIdx_cons_succ, cntH]
      have := ih k hk
      omega

end MG.Lock
