import MG.Proofs.Lemmas.Heap
import MG.Proofs.Lemmas.Adjoint
import Mathlib.Algebra.Group.Pi.Basic
/-!
The concrete back-propagation loop of the engine model (`MG.Eng.backLoop`, over `Int` arrays) is an
instance of the abstract reverse accumulation `MG.Adj.run` over the edge list read off the heap.
-/
namespace MG.Eng
open MG.Adj MG.ND

/-- gradients as functions: flat index ↦ value (0 outside the array) -/
abbrev GF := Nat → Int

def toFn (v : Val) : GF := fun i => v.2.getD i 0
def ofFn (sh : Shape) (g : GF) : Val := (sh, (List.range (size sh)).map g)
def shapeOf (h : Heap) (t : Nat) : Shape := (h.t t).data.d.shape

/-- the edge "output `c` of op `f` → its variable number `i`", with the VJP the code applies
(`backward_var`, where-mask, `reduce_broadcast`) as its linear map -/
def edgeOf (h : Heap) (c f i : Nat) : Edge GF :=
  { c := c, t := (h.op f).vars.getD i 0,
    vjp := fun g => match contribution h (h.op f) i (ofFn (shapeOf h c) g) with
      | .ok bg => toFn bg
      | .error _ => 0 }

def nonConstIdx (h : Heap) (f : Nat) : List Nat :=
  (List.range (h.op f).vars.length).filter fun i => !(h.t ((h.op f).vars.getD i 0)).const

def edgesOfNode (h : Heap) (c : Nat) : List (Edge GF) :=
  match (h.t c).creator with
  | none => []
  | some f => (nonConstIdx h f).map (edgeOf h c f)

def edges (h : Heap) (topo : List Nat) : List (Edge GF) := topo.flatMap (edgesOfNode h)

def absG (gr : GMap) : Nat → GF := fun t =>
  match lookup t gr with
  | some v => toFn v
  | none => 0

/-- every stored gradient is an array of its tensor's shape -/
def WFG (h : Heap) (gr : GMap) : Prop :=
  ∀ t v, lookup t gr = some v → v.1 = shapeOf h t ∧ v.2.length = size (shapeOf h t)

/-! ### arrays as functions -/

theorem getD_range_map (n : Nat) (f : Nat → Int) (i : Nat) :
    ((List.range n).map f).getD i 0 = if i < n then f i else 0 := by
  by_cases hi : i < n
  · simp [List.getD, hi]
  · simp [List.getD, hi]

theorem toFn_addVal (a b : Val) : toFn (addVal a b) = toFn a + toFn b := by
  funext i
  simp only [toFn, addVal, Pi.add_apply, getD_range_map]
  split
  · rfl
  · rename_i hi
    have h1 : a.2.length ≤ i := by omega
    have h2 : b.2.length ≤ i := by omega
    simp [List.getD, List.getElem?_eq_none h1, List.getElem?_eq_none h2]

theorem ofFn_toFn (sh : Shape) (v : Val) (h1 : v.1 = sh) (h2 : v.2.length = size sh) :
    ofFn sh (toFn v) = v := by
  obtain ⟨s, l⟩ := v
  simp only at h1 h2
  subst h1
  simp only [ofFn, toFn, Prod.mk.injEq, true_and]
  apply List.ext_getElem
  · simp [h2]
  · intro i hi1 hi2
    simp [toFn, List.getD, hi2]

/-! ### accumulation -/

theorem absG_accum (gr : GMap) (v : Nat) (bg : Val) :
    absG (accum gr v bg) = fun t => absG gr t + (if t = v then toFn bg else 0) := by
  funext t
  unfold accum absG
  by_cases htv : t = v
  · subst htv
    cases hl : lookup t gr with
    | none => simp [lookup_insert_self]
    | some old => simp [lookup_insert_self, toFn_addVal]
  · cases hl : lookup v gr with
    | none => simp [lookup_insert_ne _ _ _ _ htv, htv]
    | some old => simp [lookup_insert_ne _ _ _ _ htv, htv]

theorem wfg_accum (h : Heap) (gr : GMap) (v : Nat) (bg : Val) (hw : WFG h gr)
    (hb : bg.1 = shapeOf h v ∧ bg.2.length = size (shapeOf h v)) : WFG h (accum gr v bg) := by
  intro t x hx
  unfold accum at hx
  by_cases htv : t = v
  · subst htv
    cases hl : lookup t gr with
    | none =>
      rw [hl] at hx
      simp only [lookup_insert_self, Option.some.injEq] at hx
      subst hx; exact hb
    | some old =>
      rw [hl] at hx
      simp only [lookup_insert_self, Option.some.injEq] at hx
      subst hx
      have ho := hw t old hl
      refine ⟨ho.1, ?_⟩
      simp only [addVal, List.length_map, List.length_range]
      rw [ho.2, hb.2]; simp
  · cases hl : lookup v gr with
    | none =>
      rw [hl] at hx
      rw [lookup_insert_ne _ _ _ _ htv] at hx
      exact hw t x hx
    | some old =>
      rw [hl] at hx
      rw [lookup_insert_ne _ _ _ _ htv] at hx
      exact hw t x hx

/-! ### one operation -/

theorem postVjp_wf (o : OpRec) (sh : Shape) (bg r : Val) (hr : postVjp o sh bg = .ok r) :
    r.1 = sh ∧ r.2.length = size sh := by
  unfold postVjp at hr
  cases ha : applyWhere o bg with
  | error e => rw [ha] at hr; cases hr
  | ok bg' =>
    rw [ha] at hr
    simp only [reduceTo] at hr
    cases hb : reduceBroadcast bg'.1 bg'.2 sh with
    | none => rw [hb] at hr; cases hr
    | some x =>
      rw [hb] at hr
      simp only at hr
      by_cases hc : x.1 = sh ∧ x.2.length = size sh
      · rw [if_pos hc] at hr
        cases hr
        exact hc
      · rw [if_neg hc] at hr
        cases hr

theorem contribution_wf (h : Heap) (o : OpRec) (i : Nat) (g r : Val)
    (hr : contribution h o i g = .ok r) :
    r.1 = shapeOf h (o.vars.getD i 0) ∧ r.2.length = size (shapeOf h (o.vars.getD i 0)) := by
  unfold contribution at hr
  split at hr
  · cases hr
  · exact postVjp_wf _ _ _ _ hr

/-- the variable of `f` at position `i` -/
def varAt (h : Heap) (f i : Nat) : Nat := (h.op f).vars.getD i 0

def isNC (h : Heap) (f i : Nat) : Bool := !(h.t (varAt h f i)).const

/-- processing a list of variable positions of one op adds, to every tensor `t`, the VJP
contributions of the non-constant positions that hold `t` -/
theorem foldErr_positions (h : Heap) (c f : Nat) (g : Val)
    (hg : ofFn (shapeOf h c) (toFn g) = g) :
    ∀ (is : List Nat) (gr gr' : GMap), WFG h gr →
      foldErr is gr (fun gr i => opBackwardVar h (h.op f) g gr i) = (gr', none) →
      WFG h gr' ∧ ∀ t, absG gr' t = absG gr t +
        ((is.filter fun i => isNC h f i && decide (varAt h f i = t)).map
          fun i => (edgeOf h c f i).vjp (toFn g)).sum := by
  intro is
  induction is with
  | nil =>
    intro gr gr' hw hf
    simp only [foldErr, Prod.mk.injEq, and_true] at hf
    subst hf
    exact ⟨hw, fun t => by simp⟩
  | cons i is ih =>
    intro gr gr' hw hf
    unfold foldErr at hf
    cases hstep : opBackwardVar h (h.op f) g gr i with
    | error e => rw [hstep] at hf; simp at hf
    | ok gr1 =>
      rw [hstep] at hf
      simp only at hf
      have hedge : ∀ bg, contribution h (h.op f) i g = .ok bg → (edgeOf h c f i).vjp (toFn g) = toFn bg := by
        intro bg hcon
        simp only [edgeOf, hg, hcon]
      have hwf := contribution_wf h (h.op f) i g
      unfold opBackwardVar at hstep
      simp only [List.filter_cons, isNC]
      change (if (h.t (varAt h f i)).const = true then _ else _) = _ at hstep
      by_cases hc : (h.t (varAt h f i)).const = true
      · -- constant input: skipped
        simp only [hc, ite_true, Except.ok.injEq] at hstep
        subst hstep
        obtain ⟨hw', hsum⟩ := ih gr gr' hw hf
        refine ⟨hw', fun t => ?_⟩
        rw [hsum t]
        simp [hc, isNC]
      · have hc' : (h.t (varAt h f i)).const = false := by simpa using hc
        simp only [hc', Bool.false_eq_true, ite_false] at hstep
        split at hstep
        · cases hstep
        · cases hcon : contribution h (h.op f) i g with
          | error e => rw [hcon] at hstep; cases hstep
          | ok bg =>
            rw [hcon] at hstep
            simp only [Except.ok.injEq] at hstep
            subst hstep
            obtain ⟨hw', hsum⟩ := ih _ gr' (wfg_accum h gr _ bg hw (hwf bg hcon)) hf
            refine ⟨hw', fun t => ?_⟩
            rw [hsum t, absG_accum]
            change absG gr t + (if t = varAt h f i then toFn bg else 0) + _ = _
            by_cases ht : varAt h f i = t
            · subst ht
              simp [hc', isNC, hedge bg hcon, add_assoc]
            · have ht' : ¬ t = varAt h f i := fun e => ht e.symm
              simp [hc', isNC, ht, ht']

/-! ### one node of the topological order -/

theorem edgesOfNode_c (h : Heap) (c : Nat) : ∀ e ∈ edgesOfNode h c, e.c = c := by
  intro e he
  unfold edgesOfNode at he
  split at he
  · simp at he
  · obtain ⟨i, _, rfl⟩ := List.mem_map.mp he
    rfl

/-- among the edges of a duplicate-free node list, those leaving `c` are exactly `edgesOfNode h c` -/
theorem filter_edges (h : Heap) (c t : Nat) :
    ∀ (topo : List Nat), topo.Nodup → c ∈ topo →
      (edges h topo).filter (fun e => decide (e.c = c) && decide (e.t = t)) =
        (edgesOfNode h c).filter (fun e => decide (e.t = t)) := by
  intro topo
  induction topo with
  | nil => intro _ hc; simp at hc
  | cons x xs ih =>
    intro hn hc
    have hx : x ∉ xs := (List.nodup_cons.mp hn).1
    have hn' := (List.nodup_cons.mp hn).2
    simp only [edges, List.flatMap_cons, List.filter_append]
    -- edges of nodes other than `c` never leave `c`
    have hother : ∀ (ys : List Nat), c ∉ ys →
        (ys.flatMap (edgesOfNode h)).filter (fun e => decide (e.c = c) && decide (e.t = t)) = [] := by
      intro ys hcy
      apply List.filter_eq_nil_iff.mpr
      intro e he
      obtain ⟨y, hy, hey⟩ := List.mem_flatMap.mp he
      have := edgesOfNode_c h y e hey
      have hne : y ≠ c := fun e' => hcy (e' ▸ hy)
      simp [this, hne]
    rcases List.mem_cons.mp hc with rfl | hc'
    · rw [hother xs hx, List.append_nil]
      apply List.filter_congr
      intro e he
      simp [edgesOfNode_c h c e he]
    · have hxc : x ≠ c := fun e => hx (e ▸ hc')
      have : (edgesOfNode h x).filter (fun e => decide (e.c = c) && decide (e.t = t)) = [] := by
        apply List.filter_eq_nil_iff.mpr
        intro e he
        simp [edgesOfNode_c h x e he, hxc]
      rw [this, List.nil_append]
      exact ih hn' hc'

theorem contrib_node (h : Heap) (c f t : Nat) (hcr : (h.t c).creator = some f) (val : Nat → GF) :
    (((edgesOfNode h c).filter (fun e => decide (e.t = t))).map fun e => e.vjp (val e.c)).sum =
      (((List.range (h.op f).vars.length).filter fun i => isNC h f i && decide (varAt h f i = t)).map
        fun i => (edgeOf h c f i).vjp (val c)).sum := by
  simp only [edgesOfNode, hcr, nonConstIdx, List.filter_map, List.map_map, List.filter_filter]
  congr 1
  have : ((fun e : Edge GF => decide (e.t = t)) ∘ edgeOf h c f) = fun i => decide (varAt h f i = t) := by
    funext i; rfl
  rw [this]
  have h2 : (fun i => decide (varAt h f i = t) && !(h.t ((h.op f).vars.getD i 0)).const) =
      (fun i => isNC h f i && decide (varAt h f i = t)) := by
    funext i
    simp only [isNC, varAt]
    exact Bool.and_comm ..
  rw [h2]
  rfl

/-- `Operation.backward` of the creator of `c` is the abstract `pushNode` at `c` -/
theorem opBackward_pushNode (h : Heap) (topo : List Nat) (c f : Nat) (g : Val) (gr gr' : GMap)
    (hn : topo.Nodup) (hc : c ∈ topo) (hcr : (h.t c).creator = some f) (hw : WFG h gr)
    (hl : lookup c gr = some g) (hrun : opBackward h f g gr = (gr', none)) :
    WFG h gr' ∧ absG gr' = pushNode (edges h topo) (absG gr) c := by
  have hgwf := hw c g hl
  have hg : ofFn (shapeOf h c) (toFn g) = g := ofFn_toFn _ _ hgwf.1 hgwf.2
  obtain ⟨hw', hsum⟩ := foldErr_positions h c f g hg _ gr gr' hw hrun
  refine ⟨hw', ?_⟩
  funext t
  rw [hsum t]
  unfold pushNode contrib
  rw [filter_edges h c t topo hn hc]
  have hval : absG gr c = toFn g := by simp [absG, hl]
  have := contrib_node h c f t hcr (fun _ => absG gr c)
  rw [this, hval]

/-- a creator-less node pushes nothing -/
theorem pushNode_leaf (h : Heap) (topo : List Nat) (c : Nat) (grad : Nat → GF)
    (hn : topo.Nodup) (hc : c ∈ topo) (hcr : (h.t c).creator = none) :
    pushNode (edges h topo) grad c = grad := by
  funext t
  unfold pushNode contrib
  rw [filter_edges h c t topo hn hc]
  simp [edgesOfNode, hcr]

/-! ### the whole loop -/

theorem backLoop_run (h : Heap) (topo : List Nat) (hn : topo.Nodup) :
    ∀ (R : List Nat) (gr gr' : GMap), (∀ x ∈ R, x ∈ topo) → WFG h gr →
      backLoop h R gr = (gr', none) →
      WFG h gr' ∧ absG gr' = run (edges h topo) R (absG gr) := by
  intro R
  induction R with
  | nil =>
    intro gr gr' _ hw hrun
    simp only [backLoop, Prod.mk.injEq, and_true] at hrun
    subst hrun
    exact ⟨hw, rfl⟩
  | cons c R ih =>
    intro gr gr' hsub hw hrun
    have hc : c ∈ topo := hsub c (List.mem_cons_self ..)
    have hsub' : ∀ x ∈ R, x ∈ topo := fun x hx => hsub x (List.mem_cons_of_mem _ hx)
    unfold backLoop at hrun
    cases hl : lookup c gr with
    | none => rw [hl] at hrun; simp at hrun
    | some g =>
      rw [hl] at hrun
      cases hcr : (h.t c).creator with
      | none =>
        rw [hcr] at hrun
        simp only at hrun
        obtain ⟨hw', he⟩ := ih gr gr' hsub' hw hrun
        refine ⟨hw', ?_⟩
        rw [he]
        simp only [run, List.foldl_cons, pushNode_leaf h topo c _ hn hc hcr]
      | some f =>
        rw [hcr] at hrun
        simp only at hrun
        cases hop : opBackward h f g gr with
        | mk gr1 err =>
          rw [hop] at hrun
          cases err with
          | some e => simp at hrun
          | none =>
            simp only at hrun
            obtain ⟨hw1, he1⟩ := opBackward_pushNode h topo c f g gr gr1 hn hc hcr hw hl hop
            obtain ⟨hw', he⟩ := ih gr1 gr' hsub' hw1 hrun
            refine ⟨hw', ?_⟩
            rw [he, he1]
            simp only [run, List.foldl_cons]

end MG.Eng
