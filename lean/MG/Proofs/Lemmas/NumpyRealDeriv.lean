import MG.Proofs.Lemmas.NumpyReal
import Mathlib.Analysis.SpecialFunctions.Trigonometric.Deriv
import Mathlib.Analysis.SpecialFunctions.Trigonometric.ArctanDeriv
import Mathlib.Analysis.SpecialFunctions.Trigonometric.InverseDeriv
import Mathlib.Analysis.SpecialFunctions.Log.Deriv
import Mathlib.Analysis.SpecialFunctions.Pow.Deriv

/-!
# Derivatives of the functions of `NumpyReal.lean` and of `tanh`, `artanh` (not in this Mathlib)

Helper lemmas for `MG/Proofs/C02Scalar/*.lean`.
-/

namespace MG.NP
open Real

theorem hasDerivAt_tanh (x : ℝ) : HasDerivAt Real.tanh (1 - Real.tanh x ^ 2) x := by
  have hc : Real.cosh x ≠ 0 := (Real.cosh_pos x).ne'
  have h := (Real.hasDerivAt_sinh x).div (Real.hasDerivAt_cosh x) hc
  have key : (Real.cosh x * Real.cosh x - Real.sinh x * Real.sinh x) / Real.cosh x ^ 2 = 1 - Real.tanh x ^ 2 := by
    rw [Real.tanh_eq_sinh_div_cosh]
    field_simp
  exact (h.congr_deriv key).congr_of_eventuallyEq
    (Filter.Eventually.of_forall fun t => Real.tanh_eq_sinh_div_cosh t)

theorem hasDerivAt_artanh {x : ℝ} (h1 : -1 < x) (h2 : x < 1) :
    HasDerivAt Real.artanh (1 / (1 - x ^ 2)) x := by
  have hp : 0 < 1 + x := by linarith
  have hm : 0 < 1 - x := by linarith
  have hq : (1 + x) / (1 - x) ≠ 0 := (div_pos hp hm).ne'
  have hd : HasDerivAt (fun t : ℝ => (1 + t) / (1 - t)) ((1 * (1 - x) - (1 + x) * (-1)) / (1 - x) ^ 2) x :=
    ((hasDerivAt_id' x).const_add 1).div ((hasDerivAt_id' x).const_sub 1) hm.ne'
  have h := (hd.log hq).const_mul (1 / 2 : ℝ)
  have he : Real.artanh =ᶠ[nhds x] fun t => 1 / 2 * Real.log ((1 + t) / (1 - t)) := by
    filter_upwards [Ioo_mem_nhds h1 h2] with t ht
    exact Real.artanh_eq_half_log ⟨ht.1.le, ht.2.le⟩
  refine (h.congr_of_eventuallyEq he).congr_deriv ?_
  have : (1 - x ^ 2) = (1 - x) * (1 + x) := by ring
  rw [this]
  field_simp
  ring

/-- on `(0, ∞)` the cube root is `x ^ (1/3)`; on `(-∞, 0)` it is `-(-x) ^ (1/3)` -/
theorem hasDerivAt_cbrt {x : ℝ} (hx : x ≠ 0) : HasDerivAt cbrt (1 / (3 * cbrt (x ^ 2))) x := by
  have hsq : 0 < x ^ 2 := by positivity
  have hc2 : cbrt (x ^ 2) = (x ^ 2) ^ ((1 : ℝ) / 3) := by simp [cbrt, hsq.le]
  rcases lt_or_gt_of_ne hx with hneg | hpos
  · -- x < 0
    have hnx : 0 < -x := by linarith
    have h : HasDerivAt (fun t : ℝ => (-t) ^ ((1 : ℝ) / 3)) (-1 * (1 / 3) * (-x) ^ ((1 : ℝ) / 3 - 1)) x :=
      ((hasDerivAt_id' x).neg).rpow_const (p := (1 : ℝ) / 3) (Or.inl hnx.ne')
    have he : cbrt =ᶠ[nhds x] fun t => -((-t) ^ ((1 : ℝ) / 3)) := by
      filter_upwards [gt_mem_nhds hneg] with t ht
      simp [cbrt, not_le.mpr ht]
    refine (h.neg.congr_of_eventuallyEq he).congr_deriv ?_
    rw [hc2]
    have e2 : x ^ 2 = (-x) ^ 2 := by ring
    have e3 : ((-x) ^ 2) ^ ((1 : ℝ) / 3) = (-x) ^ ((2 : ℝ) / 3) := by
      rw [← Real.rpow_natCast, ← Real.rpow_mul hnx.le]; norm_num
    have e4 : (-x) ^ ((1 : ℝ) / 3 - 1) = ((-x) ^ ((2 : ℝ) / 3))⁻¹ := by
      rw [← Real.rpow_neg hnx.le]; norm_num
    rw [e2, e3]
    rw [e4]
    have : (-x) ^ ((2 : ℝ) / 3) ≠ 0 := (Real.rpow_pos_of_pos hnx _).ne'
    field_simp
  · have h := Real.hasDerivAt_rpow_const (p := (1 : ℝ) / 3) (Or.inl hpos.ne')
    have he : cbrt =ᶠ[nhds x] fun t => t ^ ((1 : ℝ) / 3) := by
      filter_upwards [lt_mem_nhds hpos] with t ht
      simp [cbrt, ht.le]
    refine (h.congr_of_eventuallyEq he).congr_deriv ?_
    rw [hc2]
    have e3 : (x ^ 2) ^ ((1 : ℝ) / 3) = x ^ ((2 : ℝ) / 3) := by
      rw [← Real.rpow_natCast, ← Real.rpow_mul hpos.le]; norm_num
    have e4 : x ^ ((1 : ℝ) / 3 - 1) = (x ^ ((2 : ℝ) / 3))⁻¹ := by
      rw [← Real.rpow_neg hpos.le]; norm_num
    rw [e3, e4]
    have : x ^ ((2 : ℝ) / 3) ≠ 0 := (Real.rpow_pos_of_pos hpos _).ne'
    field_simp

/-- derivative of the normalised sinc away from 0 -/
theorem hasDerivAt_sinc {x : ℝ} (hx : x ≠ 0) :
    HasDerivAt sinc (Real.pi * ((Real.pi * x * Real.cos (Real.pi * x) - Real.sin (Real.pi * x)) / (Real.pi * x) ^ 2)) x := by
  have hpx : Real.pi * x ≠ 0 := mul_ne_zero Real.pi_ne_zero hx
  have hl : HasDerivAt (fun t : ℝ => Real.pi * t) (Real.pi * 1) x := (hasDerivAt_id' x).const_mul Real.pi
  have hs : HasDerivAt (fun t : ℝ => Real.sin (Real.pi * t)) (Real.cos (Real.pi * x) * (Real.pi * 1)) x :=
    hl.sin
  have h := hs.div hl hpx
  have he : sinc =ᶠ[nhds x] fun t => Real.sin (Real.pi * t) / (Real.pi * t) := by
    filter_upwards [isOpen_ne.mem_nhds hx] with t ht
    simp [sinc, ht]
  refine (h.congr_of_eventuallyEq he).congr_deriv ?_
  field_simp

/-! ### arctan2 -/

theorem arctan2_of_pos_right {a b : ℝ} (hb : 0 < b) : arctan2 a b = Real.arctan (a / b) := by
  simp [arctan2, hb]

/-- for a positive ordinate the angle is `π/2 - arctan (b / a)` whatever the abscissa -/
theorem arctan2_of_pos_left {a : ℝ} (ha : 0 < a) (b : ℝ) : arctan2 a b = Real.pi / 2 - Real.arctan (b / a) := by
  unfold arctan2
  rcases lt_trichotomy b 0 with hb | hb | hb
  · have hq : b / a < 0 := div_neg_of_neg_of_pos hb ha
    have := Real.arctan_inv_of_neg hq
    rw [inv_div] at this
    simp only [not_lt.mpr hb.le, if_false, hb, if_true, ha.le]
    rw [this]; ring
  · subst hb; simp [ha]
  · have hq : 0 < b / a := div_pos hb ha
    have := Real.arctan_inv_of_pos hq
    rw [inv_div] at this
    simp only [hb, if_true]
    exact this

theorem arctan2_of_neg_left {a : ℝ} (ha : a < 0) (b : ℝ) : arctan2 a b = -(Real.pi / 2) - Real.arctan (b / a) := by
  unfold arctan2
  rcases lt_trichotomy b 0 with hb | hb | hb
  · have hq : 0 < b / a := div_pos_of_neg_of_neg hb ha
    have := Real.arctan_inv_of_pos hq
    rw [inv_div] at this
    simp only [not_lt.mpr hb.le, if_false, hb, if_true, not_le.mpr ha]
    rw [this]; ring
  · subst hb; simp [ha, not_lt.mpr ha.le]
  · have hq : b / a < 0 := div_neg_of_pos_of_neg hb ha
    have := Real.arctan_inv_of_neg hq
    rw [inv_div] at this
    simp only [hb, if_true]
    exact this

/-- derivative in the ordinate (first argument of `np.arctan2`) on the slit plane -/
theorem hasDerivAt_arctan2_left {a b : ℝ} (h : 0 < b ∨ a ≠ 0) :
    HasDerivAt (fun t => arctan2 t b) (b / (a ^ 2 + b ^ 2)) a := by
  rcases lt_trichotomy b 0 with hb | hb | hb
  · -- b < 0, a ≠ 0 : locally one branch of `arctan (t / b) ± π`
    have ha : a ≠ 0 := h.resolve_left (not_lt.mpr hb.le)
    have hd : HasDerivAt (fun t : ℝ => Real.arctan (t / b)) (1 / (1 + (a / b) ^ 2) * (1 / b)) a :=
      ((hasDerivAt_id' a).div_const b).arctan
    have hval : 1 / (1 + (a / b) ^ 2) * (1 / b) = b / (a ^ 2 + b ^ 2) := by
      have : a ^ 2 + b ^ 2 ≠ 0 := by positivity
      have hb' : b ≠ 0 := hb.ne
      field_simp
      ring
    rcases lt_or_gt_of_ne ha with ha | ha
    · have he : (fun t => arctan2 t b) =ᶠ[nhds a] fun t => Real.arctan (t / b) - Real.pi := by
        filter_upwards [gt_mem_nhds ha] with t ht
        simp [arctan2, not_lt.mpr hb.le, hb, not_le.mpr ht]
      exact ((hd.sub_const Real.pi).congr_of_eventuallyEq he).congr_deriv hval
    · have he : (fun t => arctan2 t b) =ᶠ[nhds a] fun t => Real.arctan (t / b) + Real.pi := by
        filter_upwards [lt_mem_nhds ha] with t ht
        simp [arctan2, not_lt.mpr hb.le, hb, ht.le]
      exact ((hd.add_const Real.pi).congr_of_eventuallyEq he).congr_deriv hval
  · -- b = 0, a ≠ 0 : locally constant ±π/2
    subst hb
    have ha : a ≠ 0 := h.resolve_left (lt_irrefl 0)
    rcases lt_or_gt_of_ne ha with ha | ha
    · have he : (fun t => arctan2 t 0) =ᶠ[nhds a] fun _ => -(Real.pi / 2) := by
        filter_upwards [gt_mem_nhds ha] with t ht
        simp [arctan2, ht, not_lt.mpr ht.le]
      exact ((hasDerivAt_const a _).congr_of_eventuallyEq he).congr_deriv (by simp)
    · have he : (fun t => arctan2 t 0) =ᶠ[nhds a] fun _ => Real.pi / 2 := by
        filter_upwards [lt_mem_nhds ha] with t ht
        simp [arctan2, ht]
      exact ((hasDerivAt_const a _).congr_of_eventuallyEq he).congr_deriv (by simp)
  · have hf : (fun t => arctan2 t b) = fun t => Real.arctan (t / b) := by
      funext t; exact arctan2_of_pos_right hb
    rw [hf]
    have hd : HasDerivAt (fun t : ℝ => Real.arctan (t / b)) (1 / (1 + (a / b) ^ 2) * (1 / b)) a :=
      ((hasDerivAt_id' a).div_const b).arctan
    refine hd.congr_deriv ?_
    have : a ^ 2 + b ^ 2 ≠ 0 := by positivity
    have hb' : b ≠ 0 := hb.ne'
    field_simp
    ring

/-- derivative in the abscissa (second argument of `np.arctan2`) on the slit plane -/
theorem hasDerivAt_arctan2_right {a b : ℝ} (h : 0 < b ∨ a ≠ 0) :
    HasDerivAt (fun t => arctan2 a t) (-a / (a ^ 2 + b ^ 2)) b := by
  have hd : ∀ (a : ℝ), a ≠ 0 → HasDerivAt (fun t : ℝ => Real.arctan (t / a)) (1 / (1 + (b / a) ^ 2) * (1 / a)) b :=
    fun a _ => ((hasDerivAt_id' b).div_const a).arctan
  rcases lt_trichotomy a 0 with ha | ha | ha
  · have hf : (fun t => arctan2 a t) = fun t => -(Real.pi / 2) - Real.arctan (t / a) := by
      funext t; exact arctan2_of_neg_left ha t
    rw [hf]
    refine ((hd a ha.ne).const_sub _).congr_deriv ?_
    have ha' : a ≠ 0 := ha.ne
    have : a ^ 2 + b ^ 2 ≠ 0 := by positivity
    field_simp
  · subst ha
    have hb : 0 < b := h.resolve_right (by simp)
    have he : (fun t => arctan2 0 t) =ᶠ[nhds b] fun _ => (0 : ℝ) := by
      filter_upwards [lt_mem_nhds hb] with t ht
      simp [arctan2, ht]
    exact ((hasDerivAt_const b _).congr_of_eventuallyEq he).congr_deriv (by simp)
  · have hf : (fun t => arctan2 a t) = fun t => Real.pi / 2 - Real.arctan (t / a) := by
      funext t; exact arctan2_of_pos_left ha t
    rw [hf]
    refine ((hd a ha.ne').const_sub _).congr_deriv ?_
    have ha' : a ≠ 0 := ha.ne'
    have : a ^ 2 + b ^ 2 ≠ 0 := by positivity
    field_simp


/-! ### compositions with `1 / t` (reciprocal inverse-trigonometric / hyperbolic functions) -/

theorem hasDerivAt_one_div {x : ℝ} (hx : x ≠ 0) : HasDerivAt (fun t : ℝ => 1 / t) (-1 / x ^ 2) x := by
  refine ((hasDerivAt_const x (1 : ℝ)).div (hasDerivAt_id' x) hx).congr_deriv ?_
  ring

theorem sqrt_one_sub_inv_sq {x : ℝ} (hx : x ≠ 0) : √(1 - (1 / x) ^ 2) = √(x ^ 2 - 1) / |x| := by
  have : 1 - (1 / x) ^ 2 = (x ^ 2 - 1) / x ^ 2 := by field_simp
  rw [this, Real.sqrt_div' _ (sq_nonneg x), Real.sqrt_sq_eq_abs]

theorem sqrt_one_add_inv_sq {x : ℝ} (hx : x ≠ 0) : √(1 + (1 / x) ^ 2) = √(1 + x ^ 2) / |x| := by
  have : 1 + (1 / x) ^ 2 = (1 + x ^ 2) / x ^ 2 := by field_simp; ring
  rw [this, Real.sqrt_div' _ (sq_nonneg x), Real.sqrt_sq_eq_abs]

theorem inv_abs_lt_one {x : ℝ} (h : 1 < |x|) : -1 < 1 / x ∧ 1 / x < 1 := by
  have ha : 0 < |x| := by linarith
  have hu : |1 / x| < 1 := by rw [abs_div, abs_one, div_lt_one ha]; exact h
  exact abs_lt.mp hu

theorem ne_zero_of_one_lt_abs {x : ℝ} (h : 1 < |x|) : x ≠ 0 := by
  intro h0; rw [h0, abs_zero] at h; linarith

theorem hasDerivAt_arcsin_inv {x : ℝ} (h : 1 < |x|) :
    HasDerivAt (fun t => Real.arcsin (1 / t)) (-1 / (|x| * √(x ^ 2 - 1))) x := by
  have hx0 := ne_zero_of_one_lt_abs h
  have hu := inv_abs_lt_one h
  have h1 := (Real.hasDerivAt_arcsin hu.1.ne' hu.2.ne).comp x (hasDerivAt_one_div hx0)
  refine h1.congr_deriv ?_
  rw [sqrt_one_sub_inv_sq hx0]
  have hpos : 0 < x ^ 2 - 1 := by have := sq_abs x; nlinarith
  have hs : √(x ^ 2 - 1) ≠ 0 := (Real.sqrt_pos.mpr hpos).ne'
  have ha : |x| ≠ 0 := abs_ne_zero.mpr hx0
  have e : x ^ 2 = |x| ^ 2 := (sq_abs x).symm
  rw [e]
  field_simp

theorem hasDerivAt_arccos_inv {x : ℝ} (h : 1 < |x|) :
    HasDerivAt (fun t => Real.arccos (1 / t)) (1 / (|x| * √(x ^ 2 - 1))) x := by
  have hx0 := ne_zero_of_one_lt_abs h
  have hu := inv_abs_lt_one h
  have h1 := (Real.hasDerivAt_arccos hu.1.ne' hu.2.ne).comp x (hasDerivAt_one_div hx0)
  refine h1.congr_deriv ?_
  rw [sqrt_one_sub_inv_sq hx0]
  have hpos : 0 < x ^ 2 - 1 := by have := sq_abs x; nlinarith
  have hs : √(x ^ 2 - 1) ≠ 0 := (Real.sqrt_pos.mpr hpos).ne'
  have ha : |x| ≠ 0 := abs_ne_zero.mpr hx0
  have e : x ^ 2 = |x| ^ 2 := (sq_abs x).symm
  rw [e]
  field_simp

theorem hasDerivAt_arctan_inv {x : ℝ} (hx : x ≠ 0) :
    HasDerivAt (fun t => Real.arctan (1 / t)) (-1 / (1 + x ^ 2)) x := by
  refine (hasDerivAt_one_div hx).arctan.congr_deriv ?_
  have : 1 + x ^ 2 ≠ 0 := by positivity
  field_simp
  ring

theorem hasDerivAt_arsinh_inv {x : ℝ} (hx : x ≠ 0) :
    HasDerivAt (fun t => Real.arsinh (1 / t)) (-1 / (|x| * √(1 + x ^ 2))) x := by
  have h1 := (Real.hasDerivAt_arsinh (1 / x)).comp x (hasDerivAt_one_div hx)
  refine h1.congr_deriv ?_
  rw [sqrt_one_add_inv_sq hx]
  have hs : √(1 + x ^ 2) ≠ 0 := (Real.sqrt_pos.mpr (by positivity)).ne'
  have ha : |x| ≠ 0 := abs_ne_zero.mpr hx
  have e : x ^ 2 = |x| ^ 2 := (sq_abs x).symm
  rw [e]
  field_simp

theorem hasDerivAt_artanh_inv {x : ℝ} (h : 1 < |x|) :
    HasDerivAt (fun t => Real.artanh (1 / t)) (1 / (1 - x ^ 2)) x := by
  have hx0 := ne_zero_of_one_lt_abs h
  have hu := inv_abs_lt_one h
  have h1 := (hasDerivAt_artanh hu.1 hu.2).comp x (hasDerivAt_one_div hx0)
  refine h1.congr_deriv ?_
  have hpos : 0 < x ^ 2 - 1 := by have := sq_abs x; nlinarith
  have h2 : 1 - x ^ 2 ≠ 0 := by linarith
  have h3 : x ^ 2 - 1 ≠ 0 := hpos.ne'
  field_simp
  ring

end MG.NP
