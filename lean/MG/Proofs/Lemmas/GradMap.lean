import MG.Proofs.Lemmas.BackLoop
/-!
Invariants of the gradient map built by the back-propagation loop that hold whether or not the loop
is interrupted by an error: which tensors can be keys.
-/
namespace MG.Eng

/-- keys of the gradient map -/
def keys (gr : GMap) : List Nat := gr.map (·.1)

theorem lookup_some_of_insert {α} (k k' : Nat) (v : α) (l : List (Nat × α)) (x : α)
    (h : lookup k' (insert k v l) = some x) : k' = k ∨ lookup k' l = some x := by
  by_cases hk : k' = k
  · exact Or.inl hk
  · rw [lookup_insert_ne _ _ _ _ hk] at h
    exact Or.inr h

/-- a property of tensor ids that every key of the gradient map has -/
def KeysSat (P : Nat → Prop) (gr : GMap) : Prop := ∀ t v, lookup t gr = some v → P t

theorem keysSat_accum (P : Nat → Prop) (gr : GMap) (v : Nat) (bg : Val) (hk : KeysSat P gr) (hv : P v) :
    KeysSat P (accum gr v bg) := by
  intro t x hx
  unfold accum at hx
  cases hl : lookup v gr with
  | none =>
    rw [hl] at hx
    rcases lookup_some_of_insert _ _ _ _ _ hx with rfl | h'
    · exact hv
    · exact hk t x h'
  | some old =>
    rw [hl] at hx
    rcases lookup_some_of_insert _ _ _ _ _ hx with rfl | h'
    · exact hv
    · exact hk t x h'

/-- one op: every new key is a non-constant variable of the op -/
theorem foldErr_keys (h : Heap) (P : Nat → Prop) (o : OpRec) (g : Val)
    (hP : ∀ i, (h.t (o.vars.getD i 0)).const = false → i < o.vars.length → P (o.vars.getD i 0)) :
    ∀ (is : List Nat) (gr : GMap), (∀ i ∈ is, i < o.vars.length) → KeysSat P gr →
      KeysSat P (foldErr is gr (fun gr i => opBackwardVar h o g gr i)).1 := by
  intro is
  induction is with
  | nil => intro gr _ hk; simpa [foldErr] using hk
  | cons i is ih =>
    intro gr hlt hk
    unfold foldErr
    cases hstep : opBackwardVar h o g gr i with
    | error e => simpa using hk
    | ok gr1 =>
      simp only
      apply ih gr1 (fun j hj => hlt j (List.mem_cons_of_mem _ hj))
      unfold opBackwardVar at hstep
      by_cases hc : (h.t (o.vars.getD i 0)).const = true
      · simp only [hc, ite_true, Except.ok.injEq] at hstep
        subst hstep; exact hk
      · have hc' : (h.t (o.vars.getD i 0)).const = false := by simpa using hc
        simp only [hc', Bool.false_eq_true, ite_false] at hstep
        split at hstep
        · cases hstep
        · cases hcon : contribution h o i g with
          | error e => rw [hcon] at hstep; cases hstep
          | ok bg =>
            rw [hcon] at hstep
            simp only [Except.ok.injEq] at hstep
            subst hstep
            exact keysSat_accum P gr _ bg hk (hP i hc' (hlt i (List.mem_cons_self ..)))

/-- the whole loop, with or without an error: every key is the seed tensor or a non-constant input
of a tensor of the topological order -/
theorem backLoop_keys (h : Heap) (P : Nat → Prop)
    (hP : ∀ c f i, (h.t c).creator = some f → (h.t ((h.op f).vars.getD i 0)).const = false →
      i < (h.op f).vars.length → P ((h.op f).vars.getD i 0)) :
    ∀ (topo : List Nat) (gr : GMap), KeysSat P gr → KeysSat P (backLoop h topo gr).1 := by
  intro topo
  induction topo with
  | nil => intro gr hk; simpa [backLoop] using hk
  | cons c topo ih =>
    intro gr hk
    unfold backLoop
    cases hl : lookup c gr with
    | none => simpa using hk
    | some gt =>
      cases hcr : (h.t c).creator with
      | none => simpa using ih gr hk
      | some f =>
        simp only
        have hk1 : KeysSat P (opBackward h f gt gr).1 := by
          unfold opBackward
          apply foldErr_keys h P (h.op f) gt (fun i hc hi => hP c f i hcr hc hi)
          · intro i hi; simpa using hi
          · exact hk
        cases hop : opBackward h f gt gr with
        | mk gr1 err =>
          rw [hop] at hk1
          cases err with
          | none => simpa using ih gr1 hk1
          | some e => simpa using hk1

end MG.Eng
