import MG.Proofs.Lemmas.LinearBasic

/-! Helper lemmas: masks, set-item, cumulative sums. -/
namespace MG.Lin

set_option linter.unusedSectionVars false

variable {R : Type} [CommSemiring R]

/-! ## masks -/

theorem dot_select (m : List Bool) (g y c : List R) (h1 : m.length = g.length) (h2 : m.length = y.length)
    (h3 : m.length = c.length) :
    dot g (select m y c) = dot (maskMul m g) y + dot (maskMul (notMask m) g) c := by
  induction m generalizing g y c with
  | nil => simp [select, maskMul, notMask]
  | cons b m ih =>
    cases g with
    | nil => simp at h1
    | cons g0 g =>
      cases y with
      | nil => simp at h2
      | cons y0 y =>
        cases c with
        | nil => simp at h3
        | cons c0 c =>
          have := ih g y c (by simpa using h1) (by simpa using h2) (by simpa using h3)
          simp only [notMask] at this
          cases b <;> simp [select, maskMul, notMask, this] <;> ring

theorem dot_maskMul (m : List Bool) (g y : List R) : dot g (maskMul m y) = dot (maskMul m g) y := by
  induction m generalizing g y with
  | nil => simp [maskMul]
  | cons b m ih =>
    cases g with
    | nil => simp [maskMul]
    | cons g0 g =>
      cases y with
      | nil => simp [maskMul]
      | cons y0 y => cases b <;> simp [maskMul, ih g y]

/-! ## set-item -/

@[simp] theorem length_zeroAt (g : List R) (idx : List Nat) : (zeroAt g idx).length = g.length := by
  induction idx generalizing g with
  | nil => rfl
  | cons i is ih => simp [zeroAt, ih]

@[simp] theorem length_setitem (a : List R) (idx : List Nat) (b : List R) : (setitem a idx b).length = a.length := by
  induction idx generalizing a b with
  | nil => cases b <;> rfl
  | cons i is ih =>
    cases b with
    | nil => rfl
    | cons v vs => simp [setitem, ih]

theorem zeroAt_set_comm (g : List R) (i : Nat) (idx : List Nat) :
    zeroAt (g.set i 0) idx = (zeroAt g idx).set i 0 := by
  induction idx generalizing g with
  | nil => rfl
  | cons j is ih =>
    simp only [zeroAt]
    by_cases hij : i = j
    · subst hij
      rw [List.set_set, ← ih, List.set_set]
    · rw [List.set_comm _ _ hij, ih]

theorem getD_set_zero (g : List R) (i j : Nat) : (g.set j 0).getD i 0 = if j = i then 0 else g.getD i 0 := by
  simp only [List.getD_eq_getElem?_getD, List.getElem?_set]
  by_cases h : j = i
  · subst h
    by_cases hl : j < g.length <;> simp [hl]
  · simp [h]

theorem getD_zeroAt (g : List R) (idx : List Nat) (i : Nat) :
    (zeroAt g idx).getD i 0 = if i ∈ idx then 0 else g.getD i 0 := by
  induction idx generalizing g with
  | nil => simp [zeroAt]
  | cons j is ih =>
    simp only [zeroAt, ih, getD_set_zero, List.mem_cons]
    by_cases h1 : i ∈ is
    · simp [h1]
    · by_cases h2 : j = i
      · simp [h2]
      · have : ¬ i = j := fun h => h2 h.symm
        simp [h1, h2, this]

theorem dot_setitem (g a : List R) (idx : List Nat) (b : List R) (hl : g.length = a.length)
    (hb : idx.length = b.length) :
    dot g (setitem a idx b) = dot (zeroAt g idx) a + dot (winCoef g idx) b := by
  induction idx generalizing a b with
  | nil => cases b <;> simp [setitem, zeroAt, winCoef]
  | cons i is ih =>
    cases b with
    | nil => simp at hb
    | cons v vs =>
      have h1 := ih (a.set i v) vs (by simpa using hl) (by simpa using hb)
      have h2 := dot_set (zeroAt g is) a i v (by simpa using hl)
      simp only [setitem, h1, h2, zeroAt, zeroAt_set_comm, winCoef, dot_cons, getD_zeroAt,
        List.contains_eq_mem, decide_eq_true_eq]
      ring

theorem winCoef_of_nodup (g : List R) (idx : List Nat) (h : idx.Nodup) : winCoef g idx = gather idx g := by
  induction idx with
  | nil => rfl
  | cons i is ih =>
    have hi : i ∉ is := (List.nodup_cons.mp h).1
    have := ih (List.nodup_cons.mp h).2
    simp only [gather] at this
    simp [winCoef, gather, hi, this]

/-! ## cumulative sums -/

@[simp] theorem length_cumsum (x : List R) : (cumsum x).length = x.length := by
  induction x with
  | nil => rfl
  | cons a l ih => simp [cumsum, ih]

theorem dot_map_add (c : R) (g y : List R) (h : g.length ≤ y.length) :
    dot g (y.map (c + ·)) = c * vsum g + dot g y := by
  induction g generalizing y with
  | nil => simp [vsum]
  | cons g0 g ih =>
    cases y with
    | nil => simp at h
    | cons y0 y =>
      have := ih y (by simpa using h)
      simp only [List.map_cons, dot_cons, this, vsum]
      ring

theorem dot_cumsum (g x : List R) (h : g.length = x.length) : dot g (cumsum x) = dot (suffixSums g) x := by
  induction g generalizing x with
  | nil => simp [suffixSums]
  | cons g0 g ih =>
    cases x with
    | nil => simp at h
    | cons x0 x =>
      have hl : g.length = x.length := by simpa using h
      have := ih x hl
      simp only [cumsum, dot_cons, suffixSums, dot_map_add x0 g (cumsum x) (by simp [hl]), this]
      ring

theorem vsum_append (a b : List R) : vsum (a ++ b) = vsum a + vsum b := by
  induction a with
  | nil => simp [vsum]
  | cons x xs ih => simp [vsum, ih, add_assoc]

theorem vsum_reverse (a : List R) : vsum a.reverse = vsum a := by
  induction a with
  | nil => rfl
  | cons x xs ih => simp [vsum_append, ih, vsum, add_comm]

theorem cumsum_append_singleton (l : List R) (a : R) : cumsum (l ++ [a]) = cumsum l ++ [vsum l + a] := by
  induction l with
  | nil => simp [cumsum, vsum]
  | cons b l ih => simp [cumsum, ih, vsum, add_assoc]

theorem rcumsum_eq_suffixSums (g : List R) : rcumsum g = suffixSums g := by
  induction g with
  | nil => rfl
  | cons a l ih =>
    unfold rcumsum at ih ⊢
    rw [List.reverse_cons, cumsum_append_singleton, List.reverse_append, ih]
    simp [suffixSums, vsum_reverse, add_comm]

end MG.Lin
