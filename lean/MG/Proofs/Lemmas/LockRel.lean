import MG.Proofs.Lemmas.LockInv
/-! Helper lemmas for C08: `_release_lock_on_arr_writeability` preserves the invariant. -/
namespace MG.Lock

def setWt : Arr → Arr := fun a => { a with writeable := true }

theorem trySet_eq (s : State) (o : Nat) (ho : isAlive s o = true) :
    trySetWriteable s o =
      if (match baseOf s o with
          | none => true
          | some b => wOf s b) = true
      then modArr s o setWt else s := by
  obtain ⟨a, hs, _⟩ := arr_of_alive ho
  have hb : baseOf s o = a.base := by simp [baseOf, hs]
  unfold trySetWriteable
  simp only [hs, hb]
  cases hB : a.base with
  | none => simp; rfl
  | some b => rfl

theorem trySet_static (s : State) (o : Nat) (ho : isAlive s o = true) : SameStatic s (trySetWriteable s o) := by
  rw [trySet_eq s o ho]
  by_cases h : (match baseOf s o with
          | none => true
          | some b => wOf s b) = true
  · rw [if_pos h]; exact sameStatic_modArr s o setWt (flagOnly_setW true)
  · rw [if_neg h]; exact SameStatic.refl s

/-- invariance under changes of `waiting` that keep every `wget` -/
theorem Inv.congr_waiting {s s' : State} {m P} (hI : Inv s m P) (ha : s'.arrs = s.arrs)
    (hc : s'.counter = s.counter) (ht : s'.tracker = s.tracker) (hw : ∀ k, wget s'.waiting k = wget s.waiting k) :
    Inv s' m P := by
  have hS := sameStatic_of_arrs ha
  have hwo : ∀ x, wOf s' x = wOf s x := wOf_congr ha
  have heo : ∀ x, enteredOf s' x = enteredOf s x := enteredOf_congr ha
  constructor
  · intro o1 o2 h1 h2 e
    rw [hS.alive] at h1 h2; rw [hS.aid, hS.aid] at e
    exact hI.aidInj o1 o2 h1 h2 e
  · intro x b hx hb
    rw [hS.alive] at hx; rw [hS.base] at hb
    rw [hS.alive, hS.base, hS.orig, hS.orig]
    exact hI.baseOk x b hx hb
  · intro i t hl hta
    rw [ht] at hl; rw [hS.alive] at hta; rw [hS.aid]
    exact hI.trkAid i t hl hta
  · intro i t x hl hx hxa
    rw [ht] at hl; rw [hS.alive] at hx; rw [hS.aid] at hxa
    exact hI.trkUniq i t x hl hx hxa
  · intro k v x hv hx hxa
    rw [hw] at hv; rw [hS.alive] at hx; rw [hS.aid] at hxa
    obtain ⟨b, hb1, hb2⟩ := hI.waitOk k v x hv hx hxa
    exact ⟨b, by rw [hS.base]; exact hb1, by rw [hS.aid]; exact hb2⟩
  · intro x hx hxo
    rw [hS.alive] at hx; rw [hS.orig] at hxo
    rw [hS.aid, hwo, hc, ht]
    exact hI.ro x hx hxo
  · intro x hx hxo
    rw [hS.alive] at hx; rw [hS.orig] at hxo
    rw [hS.aid, hc]
    exact hI.rwCnt x hx hxo
  · intro x hx hxo
    rw [hS.alive] at hx; rw [hS.orig] at hxo
    rw [hS.aid, hc, ht, hwo]
    exact hI.rwLocked x hx hxo
  · intro x hx hxo
    rw [hS.alive] at hx; rw [hS.orig] at hxo
    rw [hS.aid, ht, hwo, heo, hS.base]
    exact hI.rwFree x hx hxo
  · intro x hx hxo
    rw [hS.alive] at hx; rw [hS.orig] at hxo
    rw [hS.aid, ht, hc, hwo, hS.base]
    intro h1 h2
    obtain ⟨hw0, b, hb1, hb2, hb3⟩ := hI.rwWait x hx hxo h1 h2
    exact ⟨hw0, b, hb1, by rw [hS.aid, hw]; exact hb2, by rw [hS.aid]; exact hb3⟩

/-- a state obtained by changing the counter at one address only -/
theorem inv_counter_at {s s' : State} {m P} (hI : Inv s m P) {o : Nat} (ho : isAlive s o = true)
    (horig : origOf s o = true) (c' : Nat)
    (ha : s'.arrs = s.arrs) (ht : s'.tracker = s.tracker) (hw : s'.waiting = s.waiting)
    (hc : ∀ i, cget s'.counter i = if i = aidOf s o then c' else cget s.counter i)
    (hpos : 0 < c') (hm : c' + 1 = cget s.counter (aidOf s o)) :
    Inv s' (fun x => if x = o then m x - 1 else m x) P := by
  have hS := sameStatic_of_arrs ha
  have hwo : ∀ x, wOf s' x = wOf s x := wOf_congr ha
  have heo : ∀ x, enteredOf s' x = enteredOf s x := enteredOf_congr ha
  have hne : ∀ x, isAlive s x = true → x ≠ o → aidOf s x ≠ aidOf s o :=
    fun x hx hxo e => hxo (hI.aidInj x o hx ho e)
  constructor
  · intro o1 o2 h1 h2 e
    rw [hS.alive] at h1 h2; rw [hS.aid, hS.aid] at e
    exact hI.aidInj o1 o2 h1 h2 e
  · intro x b hx hb
    rw [hS.alive] at hx; rw [hS.base] at hb
    rw [hS.alive, hS.base, hS.orig, hS.orig]
    exact hI.baseOk x b hx hb
  · intro i t hl hta
    rw [ht] at hl; rw [hS.alive] at hta; rw [hS.aid]
    exact hI.trkAid i t hl hta
  · intro i t x hl hx hxa
    rw [ht] at hl; rw [hS.alive] at hx; rw [hS.aid] at hxa
    exact hI.trkUniq i t x hl hx hxa
  · intro k v x hv hx hxa
    rw [hw] at hv; rw [hS.alive] at hx; rw [hS.aid] at hxa
    obtain ⟨b, hb1, hb2⟩ := hI.waitOk k v x hv hx hxa
    exact ⟨b, by rw [hS.base]; exact hb1, by rw [hS.aid]; exact hb2⟩
  · intro x hx hxo
    rw [hS.alive] at hx; rw [hS.orig] at hxo
    have hxne : x ≠ o := fun e => by rw [e, horig] at hxo; cases hxo
    rw [hS.aid, hwo, hc, ht]
    simp only [hne x hx hxne, ↓reduceIte]
    exact hI.ro x hx hxo
  · intro x hx hxo
    rw [hS.alive] at hx; rw [hS.orig] at hxo
    rw [hS.aid, hc]
    by_cases hxe : x = o
    · subst hxe
      simp only [↓reduceIte]
      rw [← hI.rwCnt x hx hxo]; omega
    · simp only [hxe, hne x hx hxe, ↓reduceIte]
      exact hI.rwCnt x hx hxo
  · intro x hx hxo
    rw [hS.alive] at hx; rw [hS.orig] at hxo
    rw [hS.aid, hc, ht, hwo]
    by_cases hxe : x = o
    · subst hxe
      simp only [↓reduceIte]
      intro _
      exact hI.rwLocked x hx hxo (by omega)
    · simp only [hxe, hne x hx hxe, ↓reduceIte]
      exact hI.rwLocked x hx hxo
  · intro x hx hxo
    rw [hS.alive] at hx; rw [hS.orig] at hxo
    rw [hS.aid, ht, hwo, heo, hS.base]
    exact hI.rwFree x hx hxo
  · intro x hx hxo
    rw [hS.alive] at hx; rw [hS.orig] at hxo
    rw [hS.aid, ht, hc, hwo, hS.base]
    by_cases hxe : x = o
    · subst hxe
      simp only [↓reduceIte]
      intro _ h2; omega
    · simp only [hxe, hne x hx hxe, ↓reduceIte, hw]
      intro h1 h2
      obtain ⟨hw0, b, hb1, hb2, hb3⟩ := hI.rwWait x hx hxo h1 h2
      refine ⟨hw0, b, hb1, by rw [hS.aid]; exact hb2, ?_⟩
      rw [hS.aid, hc]
      rcases hb3 with h | h
      · left
        by_cases hb : aidOf s b = aidOf s o
        · simp [hb, hpos]
        · simp only [hb, ↓reduceIte]; exact h
      · right; exact h

/-- the base of a live view whose original flag is writeable: read-only means locked -/
theorem base_locked_of_ro {s : State} {m} (hI : Inv s m (fun _ _ => False)) {o b : Nat} (ho : isAlive s o = true)
    (horig : origOf s o = true) (hb : baseOf s o = some b) (hwb : wOf s b = false) :
    0 < cget s.counter (aidOf s b) := by
  obtain ⟨hba, hbb, hbo⟩ := hI.baseOk o b ho hb
  rw [horig] at hbo
  rcases tracker_cases hI hba with h | h
  · have := hI.rwFree b hba hbo h (Or.inr hbb)
    rw [hwb] at this; cases this
  · cases hc : cget s.counter (aidOf s b) with
    | succ n => omega
    | zero =>
      obtain ⟨_, b', hb', _⟩ := hI.rwWait b hba hbo h hc
      rw [hbb] at hb'; cases hb'

/-- last release of a view whose base is still locked: the view starts waiting -/
theorem inv_wait {s s' : State} {m} (hI : Inv s m (fun _ _ => False)) {o b : Nat} (ho : isAlive s o = true)
    (horig : origOf s o = true) (hb : baseOf s o = some b) (hwb : wOf s b = false)
    (hc1 : cget s.counter (aidOf s o) = 1)
    (ha : s'.arrs = s.arrs) (ht : s'.tracker = s.tracker)
    (hc : ∀ i, cget s'.counter i = if i = aidOf s o then 0 else cget s.counter i)
    (hwm : ∀ k v, v ∈ wget s'.waiting k ↔ (v ∈ wget s.waiting k ∨ (k = aidOf s b ∧ v = aidOf s o))) :
    Inv s' (fun x => if x = o then m x - 1 else m x) (fun _ _ => False) := by
  have hS := sameStatic_of_arrs ha
  have hwo : ∀ x, wOf s' x = wOf s x := wOf_congr ha
  have heo : ∀ x, enteredOf s' x = enteredOf s x := enteredOf_congr ha
  have hne : ∀ x, isAlive s x = true → x ≠ o → aidOf s x ≠ aidOf s o :=
    fun x hx hxo e => hxo (hI.aidInj x o hx ho e)
  have hbpos := base_locked_of_ro hI ho horig hb hwb
  obtain ⟨hba, hbb, hbo⟩ := hI.baseOk o b ho hb
  have hbo_ne : b ≠ o := fun e => by rw [e, hb] at hbb; cases hbb
  obtain ⟨hlo, hwo0⟩ := hI.rwLocked o ho horig (by omega)
  constructor
  · intro o1 o2 h1 h2 e
    rw [hS.alive] at h1 h2; rw [hS.aid, hS.aid] at e
    exact hI.aidInj o1 o2 h1 h2 e
  · intro x b hx hb
    rw [hS.alive] at hx; rw [hS.base] at hb
    rw [hS.alive, hS.base, hS.orig, hS.orig]
    exact hI.baseOk x b hx hb
  · intro i t hl hta
    rw [ht] at hl; rw [hS.alive] at hta; rw [hS.aid]
    exact hI.trkAid i t hl hta
  · intro i t x hl hx hxa
    rw [ht] at hl; rw [hS.alive] at hx; rw [hS.aid] at hxa
    exact hI.trkUniq i t x hl hx hxa
  · intro k v x hv hx hxa
    rw [hS.alive] at hx; rw [hS.aid] at hxa
    rcases (hwm k v).mp hv with hv | ⟨hk, hv⟩
    · obtain ⟨b', hb1, hb2⟩ := hI.waitOk k v x hv hx hxa
      exact ⟨b', by rw [hS.base]; exact hb1, by rw [hS.aid]; exact hb2⟩
    · have : x = o := hI.aidInj x o hx ho (hxa.trans hv)
      subst this
      exact ⟨b, by rw [hS.base]; exact hb, by rw [hS.aid]; exact hk.symm⟩
  · intro x hx hxo
    rw [hS.alive] at hx; rw [hS.orig] at hxo
    have hxne : x ≠ o := fun e => by rw [e, horig] at hxo; cases hxo
    rw [hS.aid, hwo, hc, ht]
    simp only [hne x hx hxne, ↓reduceIte]
    exact hI.ro x hx hxo
  · intro x hx hxo
    rw [hS.alive] at hx; rw [hS.orig] at hxo
    rw [hS.aid, hc]
    by_cases hxe : x = o
    · subst hxe
      simp only [↓reduceIte]
      rw [← hI.rwCnt x hx hxo]; omega
    · simp only [hxe, hne x hx hxe, ↓reduceIte]
      exact hI.rwCnt x hx hxo
  · intro x hx hxo
    rw [hS.alive] at hx; rw [hS.orig] at hxo
    rw [hS.aid, hc, ht, hwo]
    by_cases hxe : x = o
    · subst hxe
      simp
    · simp only [hne x hx hxe, ↓reduceIte]
      exact hI.rwLocked x hx hxo
  · intro x hx hxo
    rw [hS.alive] at hx; rw [hS.orig] at hxo
    rw [hS.aid, ht, hwo, heo, hS.base]
    exact hI.rwFree x hx hxo
  · intro x hx hxo
    rw [hS.alive] at hx; rw [hS.orig] at hxo
    rw [hS.aid, ht, hc, hwo, hS.base]
    by_cases hxe : x = o
    · subst hxe
      simp only [↓reduceIte]
      intro _ _
      refine ⟨hwo0, b, hb, ?_, Or.inl ?_⟩
      · rw [hS.aid]; exact (hwm _ _).mpr (Or.inr ⟨rfl, rfl⟩)
      · rw [hS.aid, hc]; simp only [hne b hba hbo_ne, ↓reduceIte]; exact hbpos
    · simp only [hne x hx hxe, ↓reduceIte]
      intro h1 h2
      obtain ⟨hw0, b', hb1, hb2, hb3⟩ := hI.rwWait x hx hxo h1 h2
      refine ⟨hw0, b', hb1, ?_, ?_⟩
      · rw [hS.aid]; exact (hwm _ _).mpr (Or.inl hb2)
      · rw [hS.aid, hc]
        rcases hb3 with h | h
        · left
          obtain ⟨hb'a, hb'b, _⟩ := hI.baseOk x b' hx hb1
          have : b' ≠ o := fun e => by rw [e, hb] at hb'b; cases hb'b
          simp only [hne b' hb'a this, ↓reduceIte]; exact h
        · exact h.elim

end MG.Lock
