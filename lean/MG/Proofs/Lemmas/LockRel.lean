import MG.Proofs.Lemmas.LockInv
/-! Helper lemmas for C08: `_release_lock_on_arr_writeability` preserves the invariant. -/
namespace MG.Lock

def setWt : Arr → Arr := fun a => { a with writeable := true }

theorem trySet_eq (s : State) (o : Nat) (ho : isAlive s o = true) :
    trySetWriteable s o =
      if (match baseOf s o with
          | none => true
          | some b => wOf s b) = true
      then modArr s o setWt else s := by
  obtain ⟨a, hs, _⟩ := arr_of_alive ho
  have hb : baseOf s o = a.base := by simp [baseOf, hs]
  unfold trySetWriteable
  simp only [hs, hb]
  cases hB : a.base with
  | none => simp; rfl
  | some b => rfl

theorem trySet_static (s : State) (o : Nat) (ho : isAlive s o = true) : SameStatic s (trySetWriteable s o) := by
  rw [trySet_eq s o ho]
  by_cases h : (match baseOf s o with
          | none => true
          | some b => wOf s b) = true
  · rw [if_pos h]; exact sameStatic_modArr s o setWt (flagOnly_setW true)
  · rw [if_neg h]; exact SameStatic.refl s

/-- invariance under changes of `waiting` that keep every `wget` -/
theorem Inv.congr_waiting {s s' : State} {m P} (hI : Inv s m P) (ha : s'.arrs = s.arrs)
    (hc : s'.counter = s.counter) (ht : s'.tracker = s.tracker) (hw : ∀ k, wget s'.waiting k = wget s.waiting k) :
    Inv s' m P := by
  have hS := sameStatic_of_arrs ha
  have hwo : ∀ x, wOf s' x = wOf s x := wOf_congr ha
  have heo : ∀ x, enteredOf s' x = enteredOf s x := enteredOf_congr ha
  constructor
  · intro o1 o2 h1 h2 e
    rw [hS.alive] at h1 h2; rw [hS.aid, hS.aid] at e
    exact hI.aidInj o1 o2 h1 h2 e
  · intro x b hx hb
    rw [hS.alive] at hx; rw [hS.base] at hb
    rw [hS.alive, hS.base, hS.orig, hS.orig]
    exact hI.baseOk x b hx hb
  · intro i t hl hta
    rw [ht] at hl; rw [hS.alive] at hta; rw [hS.aid]
    exact hI.trkAid i t hl hta
  · intro i t x hl hx hxa
    rw [ht] at hl; rw [hS.alive] at hx; rw [hS.aid] at hxa
    exact hI.trkUniq i t x hl hx hxa
  · intro k v x hv hx hxa
    rw [hw] at hv; rw [hS.alive] at hx; rw [hS.aid] at hxa
    obtain ⟨b, hb1, hb2⟩ := hI.waitOk k v x hv hx hxa
    exact ⟨b, by rw [hS.base]; exact hb1, by rw [hS.aid]; exact hb2⟩
  · intro x hx hxo
    rw [hS.alive] at hx; rw [hS.orig] at hxo
    rw [hS.aid, hwo, hc, ht]
    exact hI.ro x hx hxo
  · intro x hx hxo
    rw [hS.alive] at hx; rw [hS.orig] at hxo
    rw [hS.aid, hc]
    exact hI.rwCnt x hx hxo
  · intro x hx hxo
    rw [hS.alive] at hx; rw [hS.orig] at hxo
    rw [hS.aid, hc, ht, hwo]
    exact hI.rwLocked x hx hxo
  · intro x hx hxo
    rw [hS.alive] at hx; rw [hS.orig] at hxo
    rw [hS.aid, ht, hwo, heo, hS.base]
    exact hI.rwFree x hx hxo
  · intro x hx hxo
    rw [hS.alive] at hx; rw [hS.orig] at hxo
    rw [hS.aid, ht, hc, hwo, hS.base]
    intro h1 h2
    obtain ⟨hw0, b, hb1, hb2, hb3⟩ := hI.rwWait x hx hxo h1 h2
    exact ⟨hw0, b, hb1, by rw [hS.aid, hw]; exact hb2, by rw [hS.aid]; exact hb3⟩
  · intro i t hl
    rw [ht] at hl; rw [ha]; exact hI.trkLt i t hl

/-- a state obtained by changing the counter at one address only -/
theorem inv_counter_at {s s' : State} {m P} (hI : Inv s m P) {o : Nat} (ho : isAlive s o = true)
    (horig : origOf s o = true) (c' : Nat)
    (ha : s'.arrs = s.arrs) (ht : s'.tracker = s.tracker) (hw : s'.waiting = s.waiting)
    (hc : ∀ i, cget s'.counter i = if i = aidOf s o then c' else cget s.counter i)
    (hpos : 0 < c') (hm : c' + 1 = cget s.counter (aidOf s o)) :
    Inv s' (fun x => if x = o then m x - 1 else m x) P := by
  have hS := sameStatic_of_arrs ha
  have hwo : ∀ x, wOf s' x = wOf s x := wOf_congr ha
  have heo : ∀ x, enteredOf s' x = enteredOf s x := enteredOf_congr ha
  have hne : ∀ x, isAlive s x = true → x ≠ o → aidOf s x ≠ aidOf s o :=
    fun x hx hxo e => hxo (hI.aidInj x o hx ho e)
  constructor
  · intro o1 o2 h1 h2 e
    rw [hS.alive] at h1 h2; rw [hS.aid, hS.aid] at e
    exact hI.aidInj o1 o2 h1 h2 e
  · intro x b hx hb
    rw [hS.alive] at hx; rw [hS.base] at hb
    rw [hS.alive, hS.base, hS.orig, hS.orig]
    exact hI.baseOk x b hx hb
  · intro i t hl hta
    rw [ht] at hl; rw [hS.alive] at hta; rw [hS.aid]
    exact hI.trkAid i t hl hta
  · intro i t x hl hx hxa
    rw [ht] at hl; rw [hS.alive] at hx; rw [hS.aid] at hxa
    exact hI.trkUniq i t x hl hx hxa
  · intro k v x hv hx hxa
    rw [hw] at hv; rw [hS.alive] at hx; rw [hS.aid] at hxa
    obtain ⟨b, hb1, hb2⟩ := hI.waitOk k v x hv hx hxa
    exact ⟨b, by rw [hS.base]; exact hb1, by rw [hS.aid]; exact hb2⟩
  · intro x hx hxo
    rw [hS.alive] at hx; rw [hS.orig] at hxo
    have hxne : x ≠ o := fun e => by rw [e, horig] at hxo; cases hxo
    rw [hS.aid, hwo, hc, ht]
    simp only [hne x hx hxne, ↓reduceIte]
    exact hI.ro x hx hxo
  · intro x hx hxo
    rw [hS.alive] at hx; rw [hS.orig] at hxo
    rw [hS.aid, hc]
    by_cases hxe : x = o
    · subst hxe
      simp only [↓reduceIte]
      rw [← hI.rwCnt x hx hxo]; omega
    · simp only [hxe, hne x hx hxe, ↓reduceIte]
      exact hI.rwCnt x hx hxo
  · intro x hx hxo
    rw [hS.alive] at hx; rw [hS.orig] at hxo
    rw [hS.aid, hc, ht, hwo]
    by_cases hxe : x = o
    · subst hxe
      simp only [↓reduceIte]
      intro _
      exact hI.rwLocked x hx hxo (by omega)
    · simp only [hxe, hne x hx hxe, ↓reduceIte]
      exact hI.rwLocked x hx hxo
  · intro x hx hxo
    rw [hS.alive] at hx; rw [hS.orig] at hxo
    rw [hS.aid, ht, hwo, heo, hS.base]
    exact hI.rwFree x hx hxo
  · intro x hx hxo
    rw [hS.alive] at hx; rw [hS.orig] at hxo
    rw [hS.aid, ht, hc, hwo, hS.base]
    by_cases hxe : x = o
    · subst hxe
      simp only [↓reduceIte]
      intro _ h2; omega
    · simp only [hxe, hne x hx hxe, ↓reduceIte, hw]
      intro h1 h2
      obtain ⟨hw0, b, hb1, hb2, hb3⟩ := hI.rwWait x hx hxo h1 h2
      refine ⟨hw0, b, hb1, by rw [hS.aid]; exact hb2, ?_⟩
      rw [hS.aid, hc]
      rcases hb3 with h | h
      · left
        by_cases hb : aidOf s b = aidOf s o
        · simp [hb, hpos]
        · simp only [hb, ↓reduceIte]; exact h
      · right; exact h
  · intro i t hl
    rw [ht] at hl; rw [ha]; exact hI.trkLt i t hl

/-- the base of a live view whose original flag is writeable: read-only means locked -/
theorem base_locked_of_ro {s : State} {m} (hI : Inv s m (fun _ _ => False)) {o b : Nat} (ho : isAlive s o = true)
    (horig : origOf s o = true) (hb : baseOf s o = some b) (hwb : wOf s b = false) :
    0 < cget s.counter (aidOf s b) := by
  obtain ⟨hba, hbb, hbo⟩ := hI.baseOk o b ho hb
  rw [horig] at hbo
  rcases tracker_cases hI hba with h | h
  · have := hI.rwFree b hba hbo h (Or.inr hbb)
    rw [hwb] at this; cases this
  · cases hc : cget s.counter (aidOf s b) with
    | succ n => omega
    | zero =>
      obtain ⟨_, b', hb', _⟩ := hI.rwWait b hba hbo h hc
      rw [hbb] at hb'; cases hb'

/-- last release of a view whose base is still locked: the view starts waiting -/
theorem inv_wait {s s' : State} {m} (hI : Inv s m (fun _ _ => False)) {o b : Nat} (ho : isAlive s o = true)
    (horig : origOf s o = true) (hb : baseOf s o = some b) (hwb : wOf s b = false)
    (hc1 : cget s.counter (aidOf s o) = 1)
    (ha : s'.arrs = s.arrs) (ht : s'.tracker = s.tracker)
    (hc : ∀ i, cget s'.counter i = if i = aidOf s o then 0 else cget s.counter i)
    (hwm : ∀ k v, v ∈ wget s'.waiting k ↔ (v ∈ wget s.waiting k ∨ (k = aidOf s b ∧ v = aidOf s o))) :
    Inv s' (fun x => if x = o then m x - 1 else m x) (fun _ _ => False) := by
  have hS := sameStatic_of_arrs ha
  have hwo : ∀ x, wOf s' x = wOf s x := wOf_congr ha
  have heo : ∀ x, enteredOf s' x = enteredOf s x := enteredOf_congr ha
  have hne : ∀ x, isAlive s x = true → x ≠ o → aidOf s x ≠ aidOf s o :=
    fun x hx hxo e => hxo (hI.aidInj x o hx ho e)
  have hbpos := base_locked_of_ro hI ho horig hb hwb
  obtain ⟨hba, hbb, hbo⟩ := hI.baseOk o b ho hb
  have hbo_ne : b ≠ o := fun e => by rw [e, hb] at hbb; cases hbb
  obtain ⟨hlo, hwo0⟩ := hI.rwLocked o ho horig (by omega)
  constructor
  · intro o1 o2 h1 h2 e
    rw [hS.alive] at h1 h2; rw [hS.aid, hS.aid] at e
    exact hI.aidInj o1 o2 h1 h2 e
  · intro x b hx hb
    rw [hS.alive] at hx; rw [hS.base] at hb
    rw [hS.alive, hS.base, hS.orig, hS.orig]
    exact hI.baseOk x b hx hb
  · intro i t hl hta
    rw [ht] at hl; rw [hS.alive] at hta; rw [hS.aid]
    exact hI.trkAid i t hl hta
  · intro i t x hl hx hxa
    rw [ht] at hl; rw [hS.alive] at hx; rw [hS.aid] at hxa
    exact hI.trkUniq i t x hl hx hxa
  · intro k v x hv hx hxa
    rw [hS.alive] at hx; rw [hS.aid] at hxa
    rcases (hwm k v).mp hv with hv | ⟨hk, hv⟩
    · obtain ⟨b', hb1, hb2⟩ := hI.waitOk k v x hv hx hxa
      exact ⟨b', by rw [hS.base]; exact hb1, by rw [hS.aid]; exact hb2⟩
    · have : x = o := hI.aidInj x o hx ho (hxa.trans hv)
      subst this
      exact ⟨b, by rw [hS.base]; exact hb, by rw [hS.aid]; exact hk.symm⟩
  · intro x hx hxo
    rw [hS.alive] at hx; rw [hS.orig] at hxo
    have hxne : x ≠ o := fun e => by rw [e, horig] at hxo; cases hxo
    rw [hS.aid, hwo, hc, ht]
    simp only [hne x hx hxne, ↓reduceIte]
    exact hI.ro x hx hxo
  · intro x hx hxo
    rw [hS.alive] at hx; rw [hS.orig] at hxo
    rw [hS.aid, hc]
    by_cases hxe : x = o
    · subst hxe
      simp only [↓reduceIte]
      rw [← hI.rwCnt x hx hxo]; omega
    · simp only [hxe, hne x hx hxe, ↓reduceIte]
      exact hI.rwCnt x hx hxo
  · intro x hx hxo
    rw [hS.alive] at hx; rw [hS.orig] at hxo
    rw [hS.aid, hc, ht, hwo]
    by_cases hxe : x = o
    · subst hxe
      simp
    · simp only [hne x hx hxe, ↓reduceIte]
      exact hI.rwLocked x hx hxo
  · intro x hx hxo
    rw [hS.alive] at hx; rw [hS.orig] at hxo
    rw [hS.aid, ht, hwo, heo, hS.base]
    exact hI.rwFree x hx hxo
  · intro x hx hxo
    rw [hS.alive] at hx; rw [hS.orig] at hxo
    rw [hS.aid, ht, hc, hwo, hS.base]
    by_cases hxe : x = o
    · subst hxe
      simp only [↓reduceIte]
      intro _ _
      refine ⟨hwo0, b, hb, ?_, Or.inl ?_⟩
      · rw [hS.aid]; exact (hwm _ _).mpr (Or.inr ⟨rfl, rfl⟩)
      · rw [hS.aid, hc]; simp only [hne b hba hbo_ne, ↓reduceIte]; exact hbpos
    · simp only [hne x hx hxe, ↓reduceIte]
      intro h1 h2
      obtain ⟨hw0, b', hb1, hb2, hb3⟩ := hI.rwWait x hx hxo h1 h2
      refine ⟨hw0, b', hb1, ?_, ?_⟩
      · rw [hS.aid]; exact (hwm _ _).mpr (Or.inl hb2)
      · rw [hS.aid, hc]
        rcases hb3 with h | h
        · left
          obtain ⟨hb'a, hb'b, _⟩ := hI.baseOk x b' hx hb1
          have : b' ≠ o := fun e => by rw [e, hb] at hb'b; cases hb'b
          simp only [hne b' hb'a this, ↓reduceIte]; exact h
        · exact h.elim
  · intro i t hl
    rw [ht] at hl; rw [ha]; exact hI.trkLt i t hl

/-- last release of an array that can be made writeable at once (owner, or view of a writeable base) -/
theorem inv_unlockSelf {s s' : State} {m} (hI : Inv s m (fun _ _ => False)) {o : Nat} (ho : isAlive s o = true)
    (horig : origOf s o = true) (hc1 : cget s.counter (aidOf s o) = 1)
    (hS : SameStatic s s')
    (hwo : ∀ x, wOf s' x = if x = o then true else wOf s x)
    (heo : ∀ x, enteredOf s' x = enteredOf s x)
    (hc : ∀ i, cget s'.counter i = if i = aidOf s o then 0 else cget s.counter i)
    (ht : ∀ i, lookup i s'.tracker = if i = aidOf s o then none else lookup i s.tracker)
    (hw : s'.waiting = s.waiting) :
    Inv s' (fun x => if x = o then m x - 1 else m x)
      (fun b i => b = o ∧ baseOf s o = none ∧ i ∈ wget s.waiting (aidOf s o)) := by
  have hne : ∀ x, isAlive s x = true → x ≠ o → aidOf s x ≠ aidOf s o :=
    fun x hx hxo e => hxo (hI.aidInj x o hx ho e)
  constructor
  · intro o1 o2 h1 h2 e
    rw [hS.alive] at h1 h2; rw [hS.aid, hS.aid] at e
    exact hI.aidInj o1 o2 h1 h2 e
  · intro x b hx hb
    rw [hS.alive] at hx; rw [hS.base] at hb
    rw [hS.alive, hS.base, hS.orig, hS.orig]
    exact hI.baseOk x b hx hb
  · intro i t hl hta
    rw [hS.alive] at hta; rw [hS.aid]
    rw [ht] at hl
    by_cases hi : i = aidOf s o
    · simp [hi] at hl
    · simp only [hi, ↓reduceIte] at hl
      exact hI.trkAid i t hl hta
  · intro i t x hl hx hxa
    rw [hS.alive] at hx; rw [hS.aid] at hxa
    rw [ht] at hl
    by_cases hi : i = aidOf s o
    · simp [hi] at hl
    · simp only [hi, ↓reduceIte] at hl
      exact hI.trkUniq i t x hl hx hxa
  · intro k v x hv hx hxa
    rw [hw] at hv; rw [hS.alive] at hx; rw [hS.aid] at hxa
    obtain ⟨b, hb1, hb2⟩ := hI.waitOk k v x hv hx hxa
    exact ⟨b, by rw [hS.base]; exact hb1, by rw [hS.aid]; exact hb2⟩
  · intro x hx hxo
    rw [hS.alive] at hx; rw [hS.orig] at hxo
    have hxne : x ≠ o := fun e => by rw [e, horig] at hxo; cases hxo
    rw [hS.aid, hwo, hc, ht]
    simp only [hxne, hne x hx hxne, ↓reduceIte]
    exact hI.ro x hx hxo
  · intro x hx hxo
    rw [hS.alive] at hx; rw [hS.orig] at hxo
    rw [hS.aid, hc]
    by_cases hxe : x = o
    · subst hxe
      simp only [↓reduceIte]
      rw [← hI.rwCnt x hx hxo]; omega
    · simp only [hxe, hne x hx hxe, ↓reduceIte]
      exact hI.rwCnt x hx hxo
  · intro x hx hxo
    rw [hS.alive] at hx; rw [hS.orig] at hxo
    rw [hS.aid, hc, ht, hwo]
    by_cases hxe : x = o
    · subst hxe
      simp
    · simp only [hxe, hne x hx hxe, ↓reduceIte]
      exact hI.rwLocked x hx hxo
  · intro x hx hxo
    rw [hS.alive] at hx; rw [hS.orig] at hxo
    rw [hS.aid, ht, hwo, heo, hS.base]
    by_cases hxe : x = o
    · subst hxe
      simp
    · simp only [hxe, hne x hx hxe, ↓reduceIte]
      exact hI.rwFree x hx hxo
  · intro x hx hxo
    rw [hS.alive] at hx; rw [hS.orig] at hxo
    rw [hS.aid, ht, hc, hwo, hS.base]
    by_cases hxe : x = o
    · subst hxe
      simp
    · simp only [hxe, hne x hx hxe, ↓reduceIte, hw]
      intro h1 h2
      obtain ⟨hw0, b, hb1, hb2, hb3⟩ := hI.rwWait x hx hxo h1 h2
      refine ⟨hw0, b, hb1, by rw [hS.aid]; exact hb2, ?_⟩
      rw [hS.aid, hc]
      rcases hb3 with h | h
      · by_cases hbo : b = o
        · right
          subst hbo
          exact ⟨rfl, (hI.baseOk x b hx hb1).2.1, hb2⟩
        · left
          simp only [hne b (hI.baseOk x b hx hb1).1 hbo, ↓reduceIte]; exact h
      · exact h.elim
  · intro i t hl
    rw [hS.len]
    rw [ht] at hl
    by_cases hi : i = aidOf s o
    · simp [hi] at hl
    · simp only [hi, ↓reduceIte] at hl
      exact hI.trkLt i t hl

/-- `_views_waiting_for_unlock.clear()` when nothing is tracked -/
theorem inv_clear_waiting {s : State} {m P} (Q : Nat → Nat → Prop) (hI : Inv s m P)
    (hemp : ∀ i, lookup i s.tracker = none) : Inv { s with waiting := [] } m Q := by
  constructor
  · exact hI.aidInj
  · exact hI.baseOk
  · exact hI.trkAid
  · exact hI.trkUniq
  · intro k v x hv; simp at hv
  · exact hI.ro
  · exact hI.rwCnt
  · exact hI.rwLocked
  · exact hI.rwFree
  · intro x hx hxo h1
    have := hemp (aidOf s x)
    simp only [show aidOf { s with waiting := [] } x = aidOf s x from rfl] at h1
    rw [this] at h1; cases h1
  · exact hI.trkLt

theorem Inv.refine_pend {s : State} {m : Nat → Nat} {P Q : Nat → Nat → Prop} (hI : Inv s m P)
    (h : ∀ x b, isAlive s x = true → origOf s x = true → lookup (aidOf s x) s.tracker = some x →
      cget s.counter (aidOf s x) = 0 → P b (aidOf s x) → Q b (aidOf s x)) : Inv s m Q := by
  refine { hI with rwWait := ?_ }
  intro o ho hoo h1 h2
  obtain ⟨hw, b, hb1, hb2, hb3⟩ := hI.rwWait o ho hoo h1 h2
  exact ⟨hw, b, hb1, hb2, hb3.imp id (h o b ho hoo h1 h2)⟩

/-- `waiting[bid].remove(v)` is harmless when no live array with address `v` is tracked -/
theorem inv_wremove {s : State} {m P} (hI : Inv s m P) (bid v : Nat)
    (hno : ∀ x, isAlive s x = true → aidOf s x = v → lookup v s.tracker = some x → False) :
    Inv { s with waiting := wremove bid v s.waiting } m P := by
  constructor
  · exact hI.aidInj
  · exact hI.baseOk
  · exact hI.trkAid
  · exact hI.trkUniq
  · intro k v' x hv hx hxa
    exact hI.waitOk k v' x ((mem_wget_wremove _ _ _ _ _).mp hv).1 hx hxa
  · exact hI.ro
  · exact hI.rwCnt
  · exact hI.rwLocked
  · exact hI.rwFree
  · intro x hx hxo h1 h2
    obtain ⟨hw0, b, hb1, hb2, hb3⟩ := hI.rwWait x hx hxo h1 h2
    refine ⟨hw0, b, hb1, ?_, hb3⟩
    apply (mem_wget_wremove _ _ _ _ _).mpr
    refine ⟨hb2, fun ⟨_, hv⟩ => ?_⟩
    have hv' : aidOf s x = v := hv
    exact hno x hx hv' (by rw [← hv']; exact h1)
  · exact hI.trkLt

/-- dropping a tracker entry whose weak reference is dead -/
theorem inv_tracker_erase_dead {s : State} {m P} (hI : Inv s m P) (v t : Nat)
    (hl : lookup v s.tracker = some t) (hd : isAlive s t = false) :
    Inv { s with tracker := erase v s.tracker } m P := by
  have hne : ∀ x, isAlive s x = true → aidOf s x ≠ v := by
    intro x hx e
    have := hI.trkUniq v t x hl hx e
    rw [this, hx] at hd; cases hd
  have hlk : ∀ x, isAlive s x = true → lookup (aidOf s x) (erase v s.tracker) = lookup (aidOf s x) s.tracker := by
    intro x hx; rw [lookup_erase]; simp [hne x hx]
  constructor
  · exact hI.aidInj
  · exact hI.baseOk
  · intro i t' hl' hta
    have hl'' : lookup i (erase v s.tracker) = some t' := hl'
    rw [lookup_erase] at hl''
    by_cases hi : i = v
    · simp [hi] at hl''
    · simp only [hi, ↓reduceIte] at hl''
      exact hI.trkAid i t' hl'' hta
  · intro i t' x hl' hx hxa
    have hl'' : lookup i (erase v s.tracker) = some t' := hl'
    rw [lookup_erase] at hl''
    by_cases hi : i = v
    · simp [hi] at hl''
    · simp only [hi, ↓reduceIte] at hl''
      exact hI.trkUniq i t' x hl'' hx hxa
  · exact hI.waitOk
  · intro x hx hxo
    have := hI.ro x hx hxo
    exact ⟨this.1, this.2.1, (hlk x hx).trans this.2.2⟩
  · exact hI.rwCnt
  · intro x hx hxo hc
    have := hI.rwLocked x hx hxo hc
    exact ⟨(hlk x hx).trans this.1, this.2⟩
  · intro x hx hxo hl'
    exact hI.rwFree x hx hxo ((hlk x hx).symm.trans hl')
  · intro x hx hxo hl'
    exact hI.rwWait x hx hxo ((hlk x hx).symm.trans hl')
  · intro i t' hl'
    have hl'' : lookup i (erase v s.tracker) = some t' := hl'
    rw [lookup_erase] at hl''
    by_cases hi : i = v
    · simp [hi] at hl''
    · simp only [hi, ↓reduceIte] at hl''
      exact hI.trkLt i t' hl''

/-- a waiting view is made writeable and leaves the tracker -/
theorem inv_unlock_view {s s' : State} {m P} (hI : Inv s m P) {t : Nat} (hta : isAlive s t = true)
    (hl : lookup (aidOf s t) s.tracker = some t) (hc0 : cget s.counter (aidOf s t) = 0)
    (hS : SameStatic s s')
    (hwo : ∀ x, wOf s' x = if x = t then true else wOf s x)
    (heo : ∀ x, enteredOf s' x = enteredOf s x)
    (hc : s'.counter = s.counter)
    (ht : ∀ i, lookup i s'.tracker = if i = aidOf s t then none else lookup i s.tracker)
    (hw : s'.waiting = s.waiting) : Inv s' m P := by
  have hne : ∀ x, isAlive s x = true → x ≠ t → aidOf s x ≠ aidOf s t :=
    fun x hx hxo e => hxo (hI.aidInj x t hx hta e)
  have horig : origOf s t = true := by
    cases h : origOf s t with
    | true => rfl
    | false => have := (hI.ro t hta h).2.2; rw [hl] at this; cases this
  constructor
  · intro o1 o2 h1 h2 e
    rw [hS.alive] at h1 h2; rw [hS.aid, hS.aid] at e
    exact hI.aidInj o1 o2 h1 h2 e
  · intro x b hx hb
    rw [hS.alive] at hx; rw [hS.base] at hb
    rw [hS.alive, hS.base, hS.orig, hS.orig]
    exact hI.baseOk x b hx hb
  · intro i t' hl' hta'
    rw [hS.alive] at hta'; rw [hS.aid]
    rw [ht] at hl'
    by_cases hi : i = aidOf s t
    · simp [hi] at hl'
    · simp only [hi, ↓reduceIte] at hl'
      exact hI.trkAid i t' hl' hta'
  · intro i t' x hl' hx hxa
    rw [hS.alive] at hx; rw [hS.aid] at hxa
    rw [ht] at hl'
    by_cases hi : i = aidOf s t
    · simp [hi] at hl'
    · simp only [hi, ↓reduceIte] at hl'
      exact hI.trkUniq i t' x hl' hx hxa
  · intro k v x hv hx hxa
    rw [hw] at hv; rw [hS.alive] at hx; rw [hS.aid] at hxa
    obtain ⟨b, hb1, hb2⟩ := hI.waitOk k v x hv hx hxa
    exact ⟨b, by rw [hS.base]; exact hb1, by rw [hS.aid]; exact hb2⟩
  · intro x hx hxo
    rw [hS.alive] at hx; rw [hS.orig] at hxo
    have hxne : x ≠ t := fun e => by rw [e, horig] at hxo; cases hxo
    rw [hS.aid, hwo, hc, ht]
    simp only [hxne, hne x hx hxne, ↓reduceIte]
    exact hI.ro x hx hxo
  · intro x hx hxo
    rw [hS.alive] at hx; rw [hS.orig] at hxo
    rw [hS.aid, hc]
    exact hI.rwCnt x hx hxo
  · intro x hx hxo
    rw [hS.alive] at hx; rw [hS.orig] at hxo
    rw [hS.aid, hc, ht, hwo]
    by_cases hxe : x = t
    · subst hxe
      intro h; omega
    · simp only [hxe, hne x hx hxe, ↓reduceIte]
      exact hI.rwLocked x hx hxo
  · intro x hx hxo
    rw [hS.alive] at hx; rw [hS.orig] at hxo
    rw [hS.aid, ht, hwo, heo, hS.base]
    by_cases hxe : x = t
    · subst hxe
      simp
    · simp only [hxe, hne x hx hxe, ↓reduceIte]
      exact hI.rwFree x hx hxo
  · intro x hx hxo
    rw [hS.alive] at hx; rw [hS.orig] at hxo
    rw [hS.aid, ht, hc, hwo, hS.base]
    by_cases hxe : x = t
    · subst hxe
      simp
    · simp only [hxe, hne x hx hxe, ↓reduceIte, hw]
      intro h1 h2
      obtain ⟨hw0, b, hb1, hb2, hb3⟩ := hI.rwWait x hx hxo h1 h2
      exact ⟨hw0, b, hb1, by rw [hS.aid]; exact hb2, by rw [hS.aid]; exact hb3⟩
  · intro i t' hl'
    rw [hS.len]
    rw [ht] at hl'
    by_cases hi : i = aidOf s t
    · simp [hi] at hl'
    · simp only [hi, ↓reduceIte] at hl'
      exact hI.trkLt i t' hl'

/-- the loop over the views that wait for base `o`, which has just become writeable -/
theorem unlockViews_inv {m : Nat → Nat} (o bid : Nat) : ∀ (L : List Nat) (s : State),
    Inv s m (fun b i => b = o ∧ i ∈ L) → isAlive s o = true → wOf s o = true → bid = aidOf s o →
    (∀ v ∈ L, v ∈ wget s.waiting bid ∨ lookup v s.tracker = none) →
    Inv (unlockViews bid L s) m (fun _ _ => False) ∧ SameStatic s (unlockViews bid L s) ∧
      (unlockViews bid L s).holds = s.holds := by
  intro L
  induction L with
  | nil =>
    intro s hI _ _ _ _
    exact ⟨hI.mono_pend (fun b i h => by simp at h), SameStatic.refl s, rfl⟩
  | cons v vs ih =>
    intro s hI ho hwo hbid hJ
    unfold unlockViews
    by_cases hcv : 0 < cget s.counter v
    · simp only [hcv, ↓reduceIte]
      refine ih s (hI.refine_pend ?_) ho hwo hbid (fun v' hv' => hJ v' (List.mem_cons_of_mem _ hv'))
      intro x b _ _ _ hc0 ⟨hb, hmem⟩
      refine ⟨hb, ?_⟩
      rcases List.mem_cons.mp hmem with h | h
      · rw [h] at hc0; omega
      · exact h
    · simp only [hcv, ↓reduceIte]
      have hcv0 : cget s.counter v = 0 := by omega
      cases hl : lookup v s.tracker with
      | none =>
        simp only [hl]
        have hI1 : Inv { s with waiting := wremove bid v s.waiting } m (fun b i => b = o ∧ i ∈ vs) := by
          refine (inv_wremove hI bid v (fun x _ _ h => by rw [hl] at h; cases h)).refine_pend ?_
          intro x b _ _ htx _ ⟨hb, hmem⟩
          refine ⟨hb, ?_⟩
          rcases List.mem_cons.mp hmem with h | h
          · have htx' : lookup (aidOf s x) s.tracker = some x := htx
            have h' : aidOf s x = v := h
            rw [h', hl] at htx'; cases htx'
          · exact h
        obtain ⟨r1, r2, r3⟩ := ih _ hI1 ho hwo hbid (by
          intro v' hv'
          rcases hJ v' (List.mem_cons_of_mem _ hv') with h | h
          · by_cases e : v' = v
            · right; rw [e]; exact hl
            · left; exact (mem_wget_wremove _ _ _ _ _).mpr ⟨h, fun ⟨_, e'⟩ => e e'⟩
          · right; exact h)
        exact ⟨r1, (show SameStatic s { s with waiting := wremove bid v s.waiting } from sameStatic_of_arrs rfl).trans r2, r3⟩
      | some t =>
        simp only [hl]
        have hvmem : v ∈ wget s.waiting bid := by
          rcases hJ v (List.mem_cons_self ..) with h | h
          · exact h
          · rw [hl] at h; cases h
        cases hta : isAlive s t with
        | false =>
          have hta' : isAlive { s with waiting := wremove bid v s.waiting, tracker := erase v s.tracker } t = false := hta
          simp only [hta', Bool.false_eq_true, ↓reduceIte]
          have hI1 : Inv { s with waiting := wremove bid v s.waiting, tracker := erase v s.tracker } m
              (fun b i => b = o ∧ i ∈ vs) := by
            have h1 := inv_tracker_erase_dead hI v t hl hta
            have h2 := inv_wremove h1 bid v (fun x _ _ h => by
              have h' : lookup v (erase v s.tracker) = some x := h
              rw [lookup_erase] at h'; simp at h')
            refine h2.refine_pend ?_
            intro x b _ _ htx _ ⟨hb, hmem⟩
            refine ⟨hb, ?_⟩
            rcases List.mem_cons.mp hmem with h | h
            · have htx' : lookup (aidOf s x) (erase v s.tracker) = some x := htx
              have h' : aidOf s x = v := h
              rw [h', lookup_erase] at htx'; simp at htx'
            · exact h
          obtain ⟨r1, r2, r3⟩ := ih _ hI1 ho hwo hbid (by
            intro v' hv'
            show v' ∈ wget (wremove bid v s.waiting) bid ∨ lookup v' (erase v s.tracker) = none
            rw [lookup_erase]
            by_cases e : v' = v
            · right; simp [e]
            · rcases hJ v' (List.mem_cons_of_mem _ hv') with h | h
              · left; exact (mem_wget_wremove _ _ _ _ _).mpr ⟨h, fun ⟨_, e'⟩ => e e'⟩
              · right; simp [e, h])
          exact ⟨r1, (show SameStatic s { s with waiting := wremove bid v s.waiting, tracker := erase v s.tracker } from sameStatic_of_arrs rfl).trans r2, r3⟩
        | true =>
          have hta' : isAlive { s with waiting := wremove bid v s.waiting, tracker := erase v s.tracker } t = true := hta
          simp only [hta', ↓reduceIte]
          have htaid : aidOf s t = v := hI.trkAid v t hl hta
          -- the view's base is `o`
          obtain ⟨b, hb, hbaid⟩ := hI.waitOk bid v t hvmem hta htaid
          have hbo : b = o := hI.aidInj b o (hI.baseOk t b hta hb).1 ho (hbaid.trans hbid)
          subst hbo
          have hset : trySetWriteable { s with waiting := wremove bid v s.waiting, tracker := erase v s.tracker } t =
              modArr { s with waiting := wremove bid v s.waiting, tracker := erase v s.tracker } t setWt := by
            rw [trySet_eq _ t hta']
            have : baseOf { s with waiting := wremove bid v s.waiting, tracker := erase v s.tracker } t = some b := hb
            simp only [this]
            have : wOf { s with waiting := wremove bid v s.waiting, tracker := erase v s.tracker } b = true := hwo
            simp [this]
          rw [hset]
          have hlt : lookup (aidOf s t) s.tracker = some t := by rw [htaid]; exact hl
          have hI1 : Inv (modArr { s with tracker := erase v s.tracker } t setWt) m (fun b' i => b' = b ∧ i ∈ v :: vs) := by
            refine inv_unlock_view hI hta hlt (by rw [htaid]; exact hcv0)
              (by apply sameStatic_modArr'; rfl; exact flagOnly_setW true) ?_ ?_ rfl ?_ rfl
            · intro x
              by_cases hx : x = t
              · subst hx; simp only [↓reduceIte]; exact wOf_setW_self _ x true hta
              · simp only [hx, ↓reduceIte]; rw [wOf_modArr_ne _ _ _ _ hx]; rfl
            · intro x; exact enteredOf_setW _ t x true
            · intro i; simp only [tracker_modArr, lookup_erase, htaid]
          have hI2 : Inv (modArr { s with waiting := wremove bid v s.waiting, tracker := erase v s.tracker } t setWt) m
              (fun b' i => b' = b ∧ i ∈ vs) := by
            have h2 := inv_wremove hI1 bid v (fun x _ _ h => by
              have h' : lookup v (erase v s.tracker) = some x := h
              rw [lookup_erase] at h'; simp at h')
            refine Inv.refine_pend (s := modArr { s with waiting := wremove bid v s.waiting, tracker := erase v s.tracker } t setWt) h2 ?_
            intro x b' _ _ htx _ ⟨hb', hmem⟩
            refine ⟨hb', ?_⟩
            rcases List.mem_cons.mp hmem with h | h
            · have htx' : lookup (aidOf (modArr { s with waiting := wremove bid v s.waiting, tracker := erase v s.tracker } t setWt) x)
                  (erase v s.tracker) = some x := htx
              have h' : aidOf (modArr { s with waiting := wremove bid v s.waiting, tracker := erase v s.tracker } t setWt) x = v := h
              rw [h', lookup_erase] at htx'; simp at htx'
            · exact h
          have hS2 : SameStatic s (modArr { s with waiting := wremove bid v s.waiting, tracker := erase v s.tracker } t setWt) := by
            apply sameStatic_modArr'; rfl; exact flagOnly_setW true
          obtain ⟨r1, r2, r3⟩ := ih _ hI2 (by rw [hS2.alive]; exact ho)
            (by
              by_cases hx : b = t
              · rw [hx]; exact wOf_setW_self _ t true hta'
              · rw [wOf_modArr_ne _ _ _ _ hx]; exact hwo)
            (by rw [hS2.aid]; exact hbid)
            (by
              intro v' hv'
              show v' ∈ wget (wremove bid v s.waiting) bid ∨ lookup v' (erase v s.tracker) = none
              rw [lookup_erase]
              by_cases e : v' = v
              · right; simp [e]
              · rcases hJ v' (List.mem_cons_of_mem _ hv') with h | h
                · left; exact (mem_wget_wremove _ _ _ _ _).mpr ⟨h, fun ⟨_, e'⟩ => e e'⟩
                · right; simp [e, h])
          exact ⟨r1, hS2.trans r2, r3⟩

end MG.Lock
