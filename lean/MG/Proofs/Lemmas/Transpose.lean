import MG.Proofs.Lemmas.Adjoint
import Mathlib.Algebra.BigOperators.Group.List.Lemmas
import Mathlib.Algebra.Group.Pi.Basic
import Mathlib.Tactic.Abel
/-!
Reverse accumulation is the transpose of forward (tangent) propagation.

Given any pairing that is additive in both arguments and, for every edge, *local adjointness*
`⟨g, jvp_e dx⟩ = ⟨vjp_e g, dx⟩` (which is what C02 proves op by op), the adjoint solution `adj` and the
tangent solution `tan` of the same graph satisfy

    Σ_nodes ⟨adj t, dx t⟩ = Σ_nodes ⟨seed t, tan t⟩ .

With `seed` concentrated at the terminal tensor and `dx` at one leaf element this reads: the gradient
the engine stores at a leaf is the directional derivative of the terminal tensor along that leaf —
summed over every path, since `tan` propagates along every edge.
-/
namespace MG.Adj

variable {G R : Type} [AddCommGroup G] [AddCommGroup R]

/-- an edge with both its reverse (`vjp`) and its forward (`jvp`) linear map -/
structure Edge2 (G : Type) where
  c : Nat
  t : Nat
  vjp : G → G
  jvp : G → G

def Edge2.toEdge (e : Edge2 G) : Edge G := ⟨e.c, e.t, e.vjp⟩

/-- forward-mode equations: the tangent of a node is its own perturbation plus the images of the
tangents of its inputs -/
def IsTan (es : List (Edge2 G)) (dx tan : Nat → G) : Prop :=
  ∀ c, tan c = dx c + ((es.filter fun e => decide (e.c = c)).map fun e => e.jvp (tan e.t)).sum

/-- reverse-mode equations (same as `IsAdj` on the underlying edges) -/
def IsAdj2 (es : List (Edge2 G)) (seed adj : Nat → G) : Prop :=
  ∀ t, adj t = seed t + ((es.filter fun e => decide (e.t = t)).map fun e => e.vjp (adj e.c)).sum

theorem isAdj2_iff (es : List (Edge2 G)) (seed adj : Nat → G) :
    IsAdj2 es seed adj ↔ IsAdj (es.map Edge2.toEdge) seed adj := by
  unfold IsAdj2 IsAdj contrib
  constructor <;> intro h t <;> rw [h t] <;> congr 1 <;>
    simp [List.filter_map, Function.comp_def, Edge2.toEdge, List.map_map] <;> rfl

/-- summing, over a duplicate-free node list that contains every value of `key`, the contributions
of the items with that key is summing over all items -/
theorem sum_by_key {α : Type} (nodes : List Nat) (hn : nodes.Nodup) (items : List α) (key : α → Nat)
    (f : α → R) (hall : ∀ x ∈ items, key x ∈ nodes) :
    (nodes.map fun t => ((items.filter fun x => decide (key x = t)).map f).sum).sum = (items.map f).sum := by
  induction items with
  | nil => simp
  | cons x xs ih =>
    have ih' := ih (fun y hy => hall y (List.mem_cons_of_mem _ hy))
    have hx := hall x (List.mem_cons_self ..)
    simp only [List.filter_cons, List.map_cons, List.sum_cons]
    rw [← ih']
    -- split off the contribution of `x` at its own key
    have : ∀ (ns : List Nat), ns.Nodup →
        (ns.map fun t => ((if decide (key x = t) = true then x :: xs.filter (fun y => decide (key y = t))
          else xs.filter (fun y => decide (key y = t))).map f).sum).sum =
        (if key x ∈ ns then f x else 0) + (ns.map fun t => ((xs.filter fun y => decide (key y = t)).map f).sum).sum := by
      intro ns
      induction ns with
      | nil => intro _; simp
      | cons n ns ihn =>
        intro hnd
        have hn' := (List.nodup_cons.mp hnd)
        simp only [List.map_cons, List.sum_cons]
        rw [ihn hn'.2]
        by_cases hk : key x = n
        · subst hk
          have : key x ∉ ns := hn'.1
          simp [this]
          abel
        · have hk' : ¬ n = key x := fun e => hk e.symm
          by_cases hm : key x ∈ ns
          · simp [hk, hk', hm]; abel
          · simp [hk, hk', hm]
    rw [this nodes hn]
    simp [hx]

/-- **reverse_eq_transpose_forward.**  For every graph (any shape, fan-out, repeated operands), any
pairing additive in both arguments for which every edge's `vjp` is the transpose of its `jvp`, the
adjoint solution paired with the leaf perturbations equals the seed paired with the propagated
tangents. -/
theorem reverse_eq_transpose_forward (es : List (Edge2 G)) (nodes : List Nat) (hn : nodes.Nodup)
    (hc : ∀ e ∈ es, e.c ∈ nodes) (ht : ∀ e ∈ es, e.t ∈ nodes)
    (pair : G → G → R)
    (padd_l : ∀ a b c, pair (a + b) c = pair a c + pair b c)
    (padd_r : ∀ a b c, pair a (b + c) = pair a b + pair a c)
    (pzero_l : ∀ c, pair 0 c = 0) (pzero_r : ∀ a, pair a 0 = 0)
    (hlocal : ∀ e ∈ es, ∀ g dx, pair g (e.jvp dx) = pair (e.vjp g) dx)
    (seed dx adj tan : Nat → G) (hadj : IsAdj2 es seed adj) (htan : IsTan es dx tan) :
    (nodes.map fun t => pair (adj t) (dx t)).sum = (nodes.map fun t => pair (seed t) (tan t)).sum := by
  -- pairing distributes over list sums
  have psum_r : ∀ (a : G) (l : List G), pair a l.sum = (l.map (pair a)).sum := by
    intro a l
    induction l with
    | nil => simp [pzero_r]
    | cons x xs ih => simp [padd_r, ih]
  have psum_l : ∀ (l : List G) (c : G), pair l.sum c = (l.map fun a => pair a c).sum := by
    intro l c
    induction l with
    | nil => simp [pzero_l]
    | cons x xs ih => simp [padd_l, ih]
  -- both sides equal  Σ_t ⟨adj t, tan t⟩ − Σ_e ⟨vjp_e (adj e.c), tan e.t⟩
  have hL : ∀ t, pair (adj t) (dx t) =
      pair (adj t) (tan t) - ((es.filter fun e => decide (e.c = t)).map fun e => pair (adj e.c) (e.jvp (tan e.t))).sum := by
    intro t
    have h1 := htan t
    have : pair (adj t) (tan t) = pair (adj t) (dx t) +
        pair (adj t) ((es.filter fun e => decide (e.c = t)).map fun e => e.jvp (tan e.t)).sum := by
      rw [← padd_r, ← h1]
    rw [this, psum_r, List.map_map]
    have : ((es.filter fun e => decide (e.c = t)).map (pair (adj t) ∘ fun e => e.jvp (tan e.t))) =
        ((es.filter fun e => decide (e.c = t)).map fun e => pair (adj e.c) (e.jvp (tan e.t))) := by
      apply List.map_congr_left
      intro e he
      have := (List.mem_filter.mp he).2
      simp only [decide_eq_true_eq] at this
      simp [Function.comp, this]
    rw [this]
    abel
  have hR : ∀ t, pair (seed t) (tan t) =
      pair (adj t) (tan t) - ((es.filter fun e => decide (e.t = t)).map fun e => pair (e.vjp (adj e.c)) (tan e.t)).sum := by
    intro t
    have h1 := hadj t
    have : pair (adj t) (tan t) = pair (seed t) (tan t) +
        pair ((es.filter fun e => decide (e.t = t)).map fun e => e.vjp (adj e.c)).sum (tan t) := by
      rw [← padd_l, ← h1]
    rw [this, psum_l, List.map_map]
    have : ((es.filter fun e => decide (e.t = t)).map ((fun a => pair a (tan t)) ∘ fun e => e.vjp (adj e.c))) =
        ((es.filter fun e => decide (e.t = t)).map fun e => pair (e.vjp (adj e.c)) (tan e.t)) := by
      apply List.map_congr_left
      intro e he
      have := (List.mem_filter.mp he).2
      simp only [decide_eq_true_eq] at this
      simp [Function.comp, this]
    rw [this]
    abel
  have hsub : ∀ (ns : List Nat) (f g : Nat → R),
      (ns.map fun t => f t - g t).sum = (ns.map f).sum - (ns.map g).sum := by
    intro ns f g
    induction ns with
    | nil => simp
    | cons n ns ih =>
      simp only [List.map_cons, List.sum_cons, ih]
      abel
  have eL : (nodes.map fun t => pair (adj t) (dx t)).sum =
      (nodes.map fun t => pair (adj t) (tan t)).sum -
        (es.map fun e => pair (adj e.c) (e.jvp (tan e.t))).sum := by
    rw [← sum_by_key nodes hn es (fun e => e.c) (fun e => pair (adj e.c) (e.jvp (tan e.t))) hc, ← hsub]
    congr 1
    apply List.map_congr_left
    intro t _
    exact hL t
  have eR : (nodes.map fun t => pair (seed t) (tan t)).sum =
      (nodes.map fun t => pair (adj t) (tan t)).sum -
        (es.map fun e => pair (e.vjp (adj e.c)) (tan e.t)).sum := by
    rw [← sum_by_key nodes hn es (fun e => e.t) (fun e => pair (e.vjp (adj e.c)) (tan e.t)) ht, ← hsub]
    congr 1
    apply List.map_congr_left
    intro t _
    exact hR t
  rw [eL, eR]
  congr 2
  apply List.map_congr_left
  intro e he
  exact hlocal e he _ _

end MG.Adj
