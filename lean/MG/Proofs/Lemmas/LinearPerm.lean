import MG.Proofs.Lemmas.LinearBroadcast

/-! Helper lemmas: permutations — `argsort` is the inverse, the adjoint of a permutation gather is the
gather along the inverse permutation. -/
namespace MG.Lin

set_option linter.unusedSectionVars false

variable {R : Type} [CommSemiring R]

theorem vsum_perm {l₁ l₂ : List R} (h : l₁.Perm l₂) : vsum l₁ = vsum l₂ := by
  induction h with
  | nil => rfl
  | cons x _ ih => simp [vsum, ih]
  | swap x y l => simp only [vsum]; rw [← add_assoc, ← add_assoc, add_comm y x]
  | trans _ _ ih1 ih2 => rw [ih1, ih2]

theorem dot_eq_vsum_range (n : Nat) (a b : List R) (ha : a.length = n) (hb : b.length = n) :
    dot a b = vsum ((List.range n).map (fun i => a.getD i 0 * b.getD i 0)) := by
  induction n generalizing a b with
  | zero =>
    rw [List.length_eq_zero_iff.mp ha]
    simp [vsum]
  | succ n ih =>
    cases a with
    | nil => simp at ha
    | cons a0 as =>
      cases b with
      | nil => simp at hb
      | cons b0 bs =>
        rw [List.range_succ_eq_map, List.map_cons, List.map_map, dot_cons,
          ih as bs (by simpa using ha) (by simpa using hb)]
        simp [vsum, Function.comp_def]

theorem getD_gather (φ : List Nat) (x : List R) (i : Nat) (hi : i < φ.length) :
    (gather φ x).getD i 0 = x.getD (φ.getD i 0) 0 := by
  simp [gather, List.getD_eq_getElem?_getD, hi]

theorem map_eq_map_range {β : Type} (φ : List Nat) (f : Nat → β) :
    φ.map f = (List.range φ.length).map (fun k => f (φ.getD k 0)) := by
  apply List.ext_getElem
  · simp
  · intro i h1 h2
    have hi : i < φ.length := by simpa using h1
    simp [List.getD_eq_getElem?_getD, hi]

theorem dot_gather_perm (φ ψ : List Nat) (n : Nat) (hφ : φ.Perm (List.range n))
    (hinv : ∀ k, k < n → ψ.getD (φ.getD k 0) 0 = k) (hψ : ψ.length = n) (g x : List R)
    (hg : g.length = n) (hx : x.length = n) : dot (gather ψ g) x = dot g (gather φ x) := by
  have hφl : φ.length = n := by simpa using hφ.length_eq
  rw [dot_eq_vsum_range n _ _ (by simp [hψ]) hx, dot_eq_vsum_range n _ _ hg (by simp [hφl])]
  have e1 : (List.range n).map (fun i => (gather ψ g).getD i 0 * x.getD i 0) =
      (List.range n).map (fun i => g.getD (ψ.getD i 0) 0 * x.getD i 0) := by
    apply List.map_congr_left
    intro i hi
    rw [getD_gather ψ g i (by rw [hψ]; exact List.mem_range.mp hi)]
  have e2 : (List.range n).map (fun k => g.getD k 0 * (gather φ x).getD k 0) =
      (List.range n).map (fun k => g.getD (ψ.getD (φ.getD k 0) 0) 0 * x.getD (φ.getD k 0) 0) := by
    apply List.map_congr_left
    intro k hk
    have hk' : k < n := List.mem_range.mp hk
    rw [getD_gather φ x k (by rw [hφl]; exact hk'), hinv k hk']
  rw [e1, e2, vsum_perm (hφ.symm.map _), map_eq_map_range φ, hφl]

theorem scatterAdd_perm (φ ψ : List Nat) (n : Nat) (hφ : φ.Perm (List.range n))
    (hinv : ∀ k, k < n → ψ.getD (φ.getD k 0) 0 = k) (hψ : ψ.length = n) (g : List R) (hg : g.length = n) :
    scatterAdd φ n g = gather ψ g := by
  apply eq_of_dot_eq n _ _ (by simp) (by simp [hψ])
  intro x hx
  rw [dot_gather_perm φ ψ n hφ hinv hψ g x hg hx, scatterAdd, dot_scatterAddInto _ _ _ _ (by simp [hx])]
  simp

/-! `argsort` -/

theorem getD_argsort (p : List Nat) (i : Nat) (hi : i < p.length) : (argsort p).getD i 0 = p.idxOf i := by
  simp [argsort, List.getD_eq_getElem?_getD, hi]

theorem argsort_left_inv (p : List Nat) (hp : p.Perm (List.range p.length)) (k : Nat) (hk : k < p.length) :
    (argsort p).getD (p.getD k 0) 0 = k := by
  have hnd : p.Nodup := hp.nodup_iff.mpr List.nodup_range
  have hpk : p.getD k 0 = p[k] := by simp [List.getD_eq_getElem?_getD, hk]
  have hlt : p[k] < p.length := by
    have : p[k] ∈ List.range p.length := hp.mem_iff.mp (List.getElem_mem hk)
    exact List.mem_range.mp this
  rw [hpk, getD_argsort p _ hlt]
  exact hnd.idxOf_getElem k hk

theorem argsort_right_inv (p : List Nat) (hp : p.Perm (List.range p.length)) (i : Nat) (hi : i < p.length) :
    p.getD ((argsort p).getD i 0) 0 = i := by
  have hmem : i ∈ p := hp.mem_iff.mpr (List.mem_range.mpr hi)
  have hlt : p.idxOf i < p.length := List.idxOf_lt_length_iff.mpr hmem
  rw [getD_argsort p i hi]
  simp [List.getD_eq_getElem?_getD, hlt]

theorem length_argsort (p : List Nat) : (argsort p).length = p.length := by
  simp [argsort]

end MG.Lin
