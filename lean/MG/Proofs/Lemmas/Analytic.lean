import MG.Proofs.Lemmas.Transpose
import Mathlib.Analysis.Calculus.Deriv.Comp
import Mathlib.Analysis.Calculus.Deriv.Prod
import Mathlib.Analysis.Calculus.Deriv.Add
import Mathlib.Analysis.Calculus.Deriv.Mul
import Mathlib.LinearAlgebra.Pi
import Mathlib.Analysis.Calculus.FDeriv.Mul
import Mathlib.Analysis.Calculus.FDeriv.Add
import Mathlib.Analysis.Calculus.FDeriv.Pi
/-!
The analytic link of C01: for a straight-line program over ℝ whose primitives are Fréchet-differentiable, the
solution of the forward (tangent) equations of its graph *is* the derivative of every node along any differentiable
curve of inputs; with `reverse_eq_transpose_forward` the solution of the adjoint equations — what `backward` stores
(`backward_sound`) — paired with the input velocities is therefore the derivative of the seeded terminal sum.
Nodes are scalars (one node per array element); a node's operand list may repeat a node (`x * x`), and nodes fan out
and re-converge freely: the sum over every path is in the equations, not in the proof.
-/
namespace MG.Analytic
open MG.Adj

/-- a straight-line program over ℝ: node `c` with `k c = 0` is an input; otherwise it applies `F c` to the values of
the `k c` earlier nodes `par c i` (repeats allowed) -/
structure Prog where
  n : Nat
  k : Nat → Nat
  par : (c : Nat) → Fin (k c) → Nat
  F : (c : Nat) → (Fin (k c) → ℝ) → ℝ
  hpar : ∀ c i, par c i < c
  hn : ∀ c, n ≤ c → k c = 0

/-- `v` is the value assignment of the program on inputs `x` -/
def IsVal (P : Prog) (x v : Nat → ℝ) : Prop :=
  ∀ c, v c = if P.k c = 0 then x c else P.F c (fun i => v (P.par c i))

/-- local partial derivatives at the point `v`: `w c i = ∂ F_c / ∂ (operand i)` -/
noncomputable def weight (P : Prog) (D : (c : Nat) → (Fin (P.k c) → ℝ) →L[ℝ] ℝ) (c : Nat) (i : Fin (P.k c)) : ℝ :=
  D c (Pi.single i 1)

/-- the recorded graph: one edge per (node, operand position), both linear maps being multiplication by the local
partial derivative -/
noncomputable def edges (P : Prog) (D : (c : Nat) → (Fin (P.k c) → ℝ) →L[ℝ] ℝ) : List (Edge2 ℝ) :=
  (List.range P.n).flatMap fun c => (List.finRange (P.k c)).map fun i =>
    ⟨c, P.par c i, fun g => weight P D c i * g, fun d => weight P D c i * d⟩

/-- the tangent of every node, by recursion along the program -/
noncomputable def tanOf (P : Prog) (D : (c : Nat) → (Fin (P.k c) → ℝ) →L[ℝ] ℝ) (dx : Nat → ℝ) (c : Nat) : ℝ :=
  if P.k c = 0 then dx c else ∑ i : Fin (P.k c), weight P D c i * tanOf P D dx (P.par c i)
termination_by c
decreasing_by exact P.hpar c i

theorem tanOf_eq (P : Prog) (D) (dx : Nat → ℝ) (c : Nat) :
    tanOf P D dx c = if P.k c = 0 then dx c else ∑ i : Fin (P.k c), weight P D c i * tanOf P D dx (P.par c i) := by
  rw [tanOf]

/-- **tangent_is_derivative.**  Along any curve of inputs differentiable at 0, every node's value is differentiable at
0 and its derivative is the node's tangent. -/
theorem tangent_is_derivative (P : Prog) (x v : ℝ → Nat → ℝ) (dx : Nat → ℝ)
    (hv : ∀ s, IsVal P (x s) (v s))
    (hx : ∀ c, P.k c = 0 → HasDerivAt (fun s => x s c) (dx c) 0)
    (D : (c : Nat) → (Fin (P.k c) → ℝ) →L[ℝ] ℝ)
    (hD : ∀ c, P.k c ≠ 0 → HasFDerivAt (P.F c) (D c) (fun i => v 0 (P.par c i))) :
    ∀ c, HasDerivAt (fun s => v s c) (tanOf P D dx c) 0 := by
  intro c
  induction c using Nat.strong_induction_on with
  | _ c ih =>
    rw [tanOf_eq]
    by_cases hk : P.k c = 0
    · simp only [hk, if_true]
      have : (fun s => v s c) = fun s => x s c := by
        funext s; rw [hv s c]; simp [hk]
      rw [this]; exact hx c hk
    · simp only [hk, if_false]
      have hfun : (fun s => v s c) = fun s => P.F c (fun i => v s (P.par c i)) := by
        funext s; rw [hv s c]; simp [hk]
      rw [hfun]
      have hinner : HasDerivAt (fun s => (fun i => v s (P.par c i)) : ℝ → Fin (P.k c) → ℝ)
          (fun i => tanOf P D dx (P.par c i)) 0 :=
        hasDerivAt_pi.mpr fun i => ih (P.par c i) (P.hpar c i)
      have hcomp := (hD c hk).comp_hasDerivAt (0 : ℝ) hinner
      have hlin : (D c) (fun i => tanOf P D dx (P.par c i)) =
          ∑ i : Fin (P.k c), weight P D c i * tanOf P D dx (P.par c i) := by
        have := LinearMap.pi_apply_eq_sum_univ (D c : (Fin (P.k c) → ℝ) →ₗ[ℝ] ℝ) (fun i => tanOf P D dx (P.par c i))
        simp only [ContinuousLinearMap.coe_coe, smul_eq_mul] at this
        rw [this]
        apply Finset.sum_congr rfl
        intro i _
        unfold weight
        rw [mul_comm]
        congr 2
        funext j
        simp [Pi.single_apply, eq_comm]
      rw [← hlin]
      exact hcomp


/-- the perturbation of node `c` itself: inputs move with velocity `dx c`, computed nodes have none of their own -/
def ownDx (P : Prog) (dx : Nat → ℝ) (c : Nat) : ℝ := if P.k c = 0 then dx c else 0

theorem filter_flatMap_key {α : Type} (key : α → Nat) (f : Nat → List α) (hf : ∀ c, ∀ e ∈ f c, key e = c) (c : Nat) :
    ∀ (l : List Nat), l.Nodup → (l.flatMap f).filter (fun e => decide (key e = c)) = if c ∈ l then f c else [] := by
  intro l
  induction l with
  | nil => intro _; simp
  | cons a l ih =>
    intro hnd
    obtain ⟨ha, hl⟩ := List.nodup_cons.mp hnd
    rw [List.flatMap_cons, List.filter_append, ih hl]
    by_cases hac : a = c
    · subst hac
      have h1 : (f a).filter (fun e => decide (key e = a)) = f a :=
        List.filter_eq_self.mpr fun e he => by simp [hf a e he]
      simp [h1, ha]
    · have h1 : (f a).filter (fun e => decide (key e = c)) = [] :=
        List.filter_eq_nil_iff.mpr fun e he => by simp [hf a e he, hac]
      have : (c ∈ a :: l) ↔ c ∈ l := by simp [Ne.symm hac]
      simp [h1, this]

theorem edges_filter_sum (P : Prog) (D) (tan : Nat → ℝ) (c : Nat) :
    (((edges P D).filter fun e => decide (e.c = c)).map fun e => e.jvp (tan e.t)).sum =
      ∑ i : Fin (P.k c), weight P D c i * tan (P.par c i) := by
  unfold edges
  rw [filter_flatMap_key (fun e : Edge2 ℝ => e.c) _ (by
    intro c' e he
    obtain ⟨i, _, rfl⟩ := List.mem_map.mp he
    rfl) c _ List.nodup_range]
  by_cases hc : c ∈ List.range P.n
  · simp only [hc, if_true, List.map_map]
    rw [Fin.sum_univ_def]
    rfl
  · simp only [hc, if_false, List.map_nil, List.sum_nil]
    have : P.k c = 0 := P.hn c (by simpa using hc)
    have hemp : IsEmpty (Fin (P.k c)) := by rw [this]; infer_instance
    exact (Finset.sum_of_isEmpty _).symm

/-- the tangents solve the forward equations of the recorded graph -/
theorem tanOf_isTan (P : Prog) (D) (dx : Nat → ℝ) : IsTan (edges P D) (ownDx P dx) (tanOf P D dx) := by
  intro c
  rw [edges_filter_sum, tanOf_eq]
  unfold ownDx
  by_cases hk : P.k c = 0
  · have hemp : IsEmpty (Fin (P.k c)) := by rw [hk]; infer_instance
    simp [hk, Finset.sum_of_isEmpty]
  · simp [hk]

theorem hasDerivAt_list_sum (l : List Nat) (f : Nat → ℝ → ℝ) (f' : Nat → ℝ) (a : ℝ)
    (h : ∀ t ∈ l, HasDerivAt (f t) (f' t) a) :
    HasDerivAt (fun s => (l.map fun t => f t s).sum) (l.map f').sum a := by
  induction l with
  | nil => simpa using hasDerivAt_const a (0 : ℝ)
  | cons t l ih =>
    simp only [List.map_cons, List.sum_cons]
    exact (h t (by simp)).add (ih fun t' ht' => h t' (by simp [ht']))

/-- **backward_is_total_derivative.**  Let the inputs of a straight-line program move along any curve differentiable
at 0, let every primitive be Fréchet-differentiable at the values it is applied to, and let `adj` solve the adjoint
equations of the recorded graph for the seed (that is what `backward` stores: `backward_sound`).  Then the seeded sum
of node values is differentiable and its derivative is the stored gradients paired with the input velocities:
with the velocity a unit vector, `adj leaf` *is* the partial derivative — fan-out, repeated operands and
re-convergent paths included. -/
theorem backward_is_total_derivative (P : Prog) (x v : ℝ → Nat → ℝ) (dx : Nat → ℝ)
    (hv : ∀ s, IsVal P (x s) (v s))
    (hx : ∀ c, P.k c = 0 → HasDerivAt (fun s => x s c) (dx c) 0)
    (D : (c : Nat) → (Fin (P.k c) → ℝ) →L[ℝ] ℝ)
    (hD : ∀ c, P.k c ≠ 0 → HasFDerivAt (P.F c) (D c) (fun i => v 0 (P.par c i)))
    (seed adj : Nat → ℝ) (hadj : IsAdj2 (edges P D) seed adj) :
    HasDerivAt (fun s => ((List.range P.n).map fun t => seed t * v s t).sum)
      ((List.range P.n).map fun t => adj t * ownDx P dx t).sum 0 := by
  have htd := tangent_is_derivative P x v dx hv hx D hD
  have hmem : ∀ e ∈ edges P D, e.c ∈ List.range P.n ∧ e.t ∈ List.range P.n := by
    intro e he
    unfold edges at he
    obtain ⟨c, hc, he⟩ := List.mem_flatMap.mp he
    obtain ⟨i, _, rfl⟩ := List.mem_map.mp he
    have hc' : c < P.n := by simpa using hc
    have := P.hpar c i
    exact ⟨hc, by simp; omega⟩
  have hrt := reverse_eq_transpose_forward (edges P D) (List.range P.n) List.nodup_range
    (fun e he => (hmem e he).1) (fun e he => (hmem e he).2) (fun a b : ℝ => a * b)
    (fun a b c => by ring) (fun a b c => by ring) (fun c => by ring) (fun a => by ring)
    (by
      intro e he g d
      unfold edges at he
      obtain ⟨c, _, he⟩ := List.mem_flatMap.mp he
      obtain ⟨i, _, rfl⟩ := List.mem_map.mp he
      show g * (_ * d) = (_ * g) * d
      ring)
    seed (ownDx P dx) adj (tanOf P D dx) hadj (tanOf_isTan P D dx)
  rw [hrt]
  exact hasDerivAt_list_sum _ (fun t s => seed t * v s t) (fun t => seed t * tanOf P D dx t) 0
    fun t _ => (htd t).const_mul (seed t)

end MG.Analytic

/-! ## non-vacuity: a concrete program with a repeated operand and re-convergent fan-out -/
namespace MG.Analytic
open MG.Adj

/-- `y = x * x + x`: node 0 is the input, node 1 = node0 * node0 (a repeated operand), node 2 = node1 + node0
(fan-out of node 0 over two paths) -/
def exK : Nat → Nat := fun c => match c with | 1 => 2 | 2 => 2 | _ => 0

def exPar : (c : Nat) → Fin (exK c) → Nat := fun c => match c with
  | 1 => fun _ => 0
  | 2 => fun (i : Fin 2) => if i.val = 0 then 1 else 0
  | 0 => fun _ => 0
  | _ + 3 => fun _ => 0

def exF : (c : Nat) → (Fin (exK c) → ℝ) → ℝ := fun c => match c with
  | 1 => fun (p : Fin 2 → ℝ) => p 0 * p 1
  | 2 => fun (p : Fin 2 → ℝ) => p 0 + p 1
  | 0 => fun _ => 0
  | _ + 3 => fun _ => 0

def exProg : Prog where
  n := 3
  k := exK
  par := exPar
  F := exF
  hpar := by
    intro c i
    match c, i with
    | 0, i => exact i.elim0
    | 1, _ => show (0 : Nat) < 1; omega
    | 2, i => show (if i.val = 0 then 1 else 0) < 2; split <;> omega
    | _ + 3, i => exact i.elim0
  hn := by
    intro c hc
    match c, hc with
    | c + 3, _ => rfl

/-- the values of `exProg` at input `x0` -/
def exVal (x0 : ℝ) : Nat → ℝ := fun c => match c with | 0 => x0 | 1 => x0 * x0 | 2 => x0 * x0 + x0 | _ => 0

noncomputable def exD (a : ℝ) : (c : Nat) → (Fin (exK c) → ℝ) →L[ℝ] ℝ := fun c => match c with
  | 1 => a • ContinuousLinearMap.proj (R := ℝ) (φ := fun _ : Fin 2 => ℝ) 1 + a • ContinuousLinearMap.proj (R := ℝ) (φ := fun _ : Fin 2 => ℝ) 0
  | 2 => ContinuousLinearMap.proj (R := ℝ) (φ := fun _ : Fin 2 => ℝ) 0 + ContinuousLinearMap.proj (R := ℝ) (φ := fun _ : Fin 2 => ℝ) 1
  | 0 => 0
  | _ + 3 => 0

theorem ex_w10 (b : ℝ) : weight exProg (exD b) 1 (0 : Fin 2) = b := by
  show (b • ContinuousLinearMap.proj (R := ℝ) (φ := fun _ : Fin 2 => ℝ) 1 + b • ContinuousLinearMap.proj (R := ℝ) (φ := fun _ : Fin 2 => ℝ) 0) (Pi.single (0 : Fin 2) (1 : ℝ)) = b
  simp
theorem ex_w11 (b : ℝ) : weight exProg (exD b) 1 (1 : Fin 2) = b := by
  show (b • ContinuousLinearMap.proj (R := ℝ) (φ := fun _ : Fin 2 => ℝ) 1 + b • ContinuousLinearMap.proj (R := ℝ) (φ := fun _ : Fin 2 => ℝ) 0) (Pi.single (1 : Fin 2) (1 : ℝ)) = b
  simp
theorem ex_w20 (b : ℝ) : weight exProg (exD b) 2 (0 : Fin 2) = 1 := by
  show (ContinuousLinearMap.proj (R := ℝ) (φ := fun _ : Fin 2 => ℝ) 0 + ContinuousLinearMap.proj (R := ℝ) (φ := fun _ : Fin 2 => ℝ) 1) (Pi.single (0 : Fin 2) (1 : ℝ)) = 1
  simp
theorem ex_w21 (b : ℝ) : weight exProg (exD b) 2 (1 : Fin 2) = 1 := by
  show (ContinuousLinearMap.proj (R := ℝ) (φ := fun _ : Fin 2 => ℝ) 0 + ContinuousLinearMap.proj (R := ℝ) (φ := fun _ : Fin 2 => ℝ) 1) (Pi.single (1 : Fin 2) (1 : ℝ)) = 1
  simp

theorem ex_edges (b : ℝ) : edges exProg (exD b) =
    [⟨1, 0, fun g => weight exProg (exD b) 1 (0 : Fin 2) * g, fun d => weight exProg (exD b) 1 (0 : Fin 2) * d⟩,
     ⟨1, 0, fun g => weight exProg (exD b) 1 (1 : Fin 2) * g, fun d => weight exProg (exD b) 1 (1 : Fin 2) * d⟩,
     ⟨2, 1, fun g => weight exProg (exD b) 2 (0 : Fin 2) * g, fun d => weight exProg (exD b) 2 (0 : Fin 2) * d⟩,
     ⟨2, 0, fun g => weight exProg (exD b) 2 (1 : Fin 2) * g, fun d => weight exProg (exD b) 2 (1 : Fin 2) * d⟩] := rfl

/-- the hypotheses of `backward_is_total_derivative` are satisfiable, and its conclusion is the familiar derivative:
for `y = x·x + x` at `x = a` the adjoint solution for the seed 1 at `y` is `adj = (2a + 1, 1, 1)`, and the theorem
says `d/ds y(a + s) = 2a + 1`. -/
example (a : ℝ) :
    HasDerivAt (fun s : ℝ => (a + s) * (a + s) + (a + s)) (2 * a + 1) 0 := by
  have hv : ∀ s : ℝ, IsVal exProg (fun c => if c = 0 then a + s else 0) (exVal (a + s)) := by
    intro s c
    match c with
    | 0 => rfl
    | 1 => show exVal (a + s) 1 = (fun (p : Fin 2 → ℝ) => p 0 * p 1) (fun i => exVal (a + s) 0); simp [exVal]
    | 2 => show exVal (a + s) 2 = (fun (p : Fin 2 → ℝ) => p 0 + p 1) (fun i : Fin 2 => exVal (a + s) (if i.val = 0 then 1 else 0)); simp [exVal]
    | _ + 3 => rfl
  have hx : ∀ c, exProg.k c = 0 → HasDerivAt (fun s : ℝ => (fun c => if c = 0 then a + s else 0 : Nat → ℝ) c)
      ((fun c => if c = 0 then (1 : ℝ) else 0) c) 0 := by
    intro c _
    by_cases hc : c = 0
    · simp only [hc, if_true]; simpa using (hasDerivAt_id (0 : ℝ)).const_add a
    · simp only [hc, if_false]; exact hasDerivAt_const _ _
  have hD : ∀ c, exProg.k c ≠ 0 → HasFDerivAt (exProg.F c) (exD (a + 0) c) (fun i => exVal (a + 0) (exProg.par c i)) := by
    intro c hk
    match c, hk with
    | 0, hk => exact absurd rfl hk
    | 1, _ =>
      have h0 : HasFDerivAt (fun p : Fin 2 → ℝ => p 0) (ContinuousLinearMap.proj (R := ℝ) (φ := fun _ : Fin 2 => ℝ) 0) (fun i : Fin 2 => exVal (a + 0) (exProg.par 1 i)) := hasFDerivAt_apply 0 _
      have h1 : HasFDerivAt (fun p : Fin 2 → ℝ => p 1) (ContinuousLinearMap.proj (R := ℝ) (φ := fun _ : Fin 2 => ℝ) 1) (fun i : Fin 2 => exVal (a + 0) (exProg.par 1 i)) := hasFDerivAt_apply 1 _
      exact h0.mul h1
    | 2, _ =>
      have h0 : HasFDerivAt (fun p : Fin 2 → ℝ => p 0) (ContinuousLinearMap.proj (R := ℝ) (φ := fun _ : Fin 2 => ℝ) 0) (fun i : Fin 2 => exVal (a + 0) (exProg.par 2 i)) := hasFDerivAt_apply 0 _
      have h1 : HasFDerivAt (fun p : Fin 2 → ℝ => p 1) (ContinuousLinearMap.proj (R := ℝ) (φ := fun _ : Fin 2 => ℝ) 1) (fun i : Fin 2 => exVal (a + 0) (exProg.par 2 i)) := hasFDerivAt_apply 1 _
      exact h0.add h1
    | _ + 3, hk => exact absurd rfl hk
  -- the adjoint solution: seed 1 at node 2
  have hadj : IsAdj2 (edges exProg (exD (a + 0))) (fun t => if t = 2 then 1 else 0)
      (fun t => if t = 0 then 2 * a + 1 else if t = 1 then 1 else if t = 2 then 1 else 0) := by
    intro t
    rw [ex_edges]
    simp only [ex_w10, ex_w11, ex_w20, ex_w21]
    match t with
    | 0 => simp [List.filter]; ring
    | 1 => simp [List.filter]
    | 2 => simp [List.filter]
    | t + 3 => simp [List.filter]
  have := backward_is_total_derivative exProg (fun s c => if c = 0 then a + s else 0) (fun s => exVal (a + s))
    (fun c => if c = 0 then 1 else 0) hv hx (exD (a + 0)) hD _ _ hadj
  simpa [exProg, List.range, List.range.loop, exVal, ownDx, exK] using this

end MG.Analytic
