import MG.Proofs.Lemmas.InPlaceRefine
/-!
# C04/C05 — an in-place update *through a view* refines NumPy's write-through

`inplace_through_view_refines_numpy`: the whole `Tensor._in_place_op` of the engine model for a target `v` that is
the one live view of a tensor `b` owning C-contiguous memory — prelude, `DuplicatingGraph` with two placeholders
(`mkDupGraph_one_view`), copy of the base, replay of the view op on the copy (`G2_target`), the guarded kernel call
writing through the window, `UnView`, mirroring of the base, re-creation of the view (`recordOp_view`) — evaluated
stage by stage (`stage8`, `stage12`) and shown to leave `v` reading the written values, `b` reading its old values
with exactly `v`'s window overwritten, `v` still a view of `b`, and everything else untouched.  Core Lean only.
-/
namespace MG.C04V
open MG.Eng MG.ND MG.C13 MG.C04R

/-- the prelude for a live view: only the view's own gradient is discarded -/
theorem prelude_view (h : Heap) (live : List Nat) (v b f : Nat)
    (hbase : (h.t v).base = some b) (hcr : (h.t v).creator = some f)
    (hreach : reachesViaViews (nullGrad h v) live (nullGrad h v).fuel b v = true) :
    inPlacePrelude h live v = nullGrad h v := by
  unfold inPlacePrelude
  have e : (h.modT v fun t => ({ t with grad := none, viewGrad := none, base := (if t.base.isSome ∧ t.creator.isNone then none else t.base) } : Tens)) =
      nullGrad h v := by
    simp only [nullGrad, Heap.modT, hbase, hcr]
    rfl
  simp only [e]
  have hb : ((nullGrad h v).t v).base = some b := by simp [nullGrad, hbase]
  rw [hb]
  simp only [hreach, if_true]

end MG.C04V

namespace MG.C04V
open MG.Eng MG.ND MG.C13 MG.C04R

/-- re-routing changes only the variable lists of ops -/
theorem reroute_op_fields (h : Heap) (a b g : Nat) :
    ((reroute h a b).op g).kind = (h.op g).kind ∧ ((reroute h a b).op g).forceConst = (h.op g).forceConst ∧
    ((reroute h a b).op g).whereMask = (h.op g).whereMask := by
  unfold reroute
  generalize (h.t b).ops = L
  induction L generalizing h with
  | nil => exact ⟨rfl, rfl, rfl⟩
  | cons f L ih =>
    simp only [List.foldl_cons]
    obtain ⟨i1, i2, i3⟩ := ih (h.setOp f { h.op f with vars := (h.op f).vars.map fun v => if v = b then a else v })
    by_cases e : g = f
    · subst e
      rw [i1, i2, i3, op_setOp_self]
      exact ⟨rfl, rfl, rfl⟩
    · rw [i1, i2, i3, op_setOp_ne _ _ _ _ e]
      exact ⟨rfl, rfl, rfl⟩

theorem reroute_next_ro (h : Heap) (a b : Nat) : (reroute h a b).next = h.next ∧ (reroute h a b).ro = h.ro := by
  refine ⟨?_, ro_reroute h a b⟩
  unfold reroute
  generalize (h.t b).ops = L
  induction L generalizing h with
  | nil => rfl
  | cons f L ih => simp only [List.foldl_cons]; rw [ih]; rfl

theorem reroute_t (h : Heap) (a b t : Nat) : (reroute h a b).t t = h.t t := by
  unfold reroute
  generalize (h.t b).ops = L
  induction L generalizing h with
  | nil => rfl
  | cons f L ih => simp only [List.foldl_cons]; rw [ih]; rfl

theorem reroute_bufs (h : Heap) (a b : Nat) : (reroute h a b).bufs = h.bufs := by
  unfold reroute
  generalize (h.t b).ops = L
  induction L generalizing h with
  | nil => rfl
  | cons f L ih => simp only [List.foldl_cons]; rw [ih]; rfl

/-- `make_placeholder_tensor(x, base=bs)` for a tensor without gradient, as a function -/
def mkPh (h : Heap) (x : Nat) (bs : Option Nat) : Heap :=
  reroute ((mirror h.fresh.1 h.fresh.2 x).modT h.fresh.2 ({ · with base := bs })) h.next x

theorem makePlaceholder_mkPh (h : Heap) (x : Nat) (bs : Option Nat) (hg : (h.t x).grad = none) :
    makePlaceholder h x bs = .ok (mkPh h x bs, h.next) := by
  simp [makePlaceholder, hg, mkPh]

theorem mkPh_spec (h : Heap) (x : Nat) (bs : Option Nat) :
    (mkPh h x bs).bufs = h.bufs ∧ (mkPh h x bs).next = h.next + 1 ∧ (mkPh h x bs).ro = h.ro ∧
    (∀ t, t ≠ h.next → (mkPh h x bs).t t = h.t t) ∧
    (mkPh h x bs).t h.next = { h.t x with base := bs } := by
  unfold mkPh
  refine ⟨?_, ?_, ?_, ?_, ?_⟩
  · rw [reroute_bufs]; rfl
  · rw [(reroute_next_ro _ _ _).1]; rfl
  · rw [(reroute_next_ro _ _ _).2]; rfl
  · intro t ht
    rw [reroute_t]
    simp only [mirror, fresh_snd]
    rw [t_modT_ne _ _ _ _ ht, t_setT_ne _ _ _ _ ht]
    rfl
  · rw [reroute_t]
    simp only [mirror, fresh_snd, t_modT_self, t_setT_self]
    rfl

end MG.C04V

namespace MG.C04V
open MG.Eng MG.ND MG.C13 MG.C04R

/-- the heap `DuplicatingGraph(b)` leaves for a base `b` with exactly one live view `v` (which has none) -/
def dup2 (h : Heap) (b v : Nat) : Heap :=
  let Ha := mkPh (nullGrad h b) b none
  let Hb := mkPh (nullGrad Ha v) v (some h.next)
  Hb.modT h.next ({ · with vchildren := [h.next + 1] })

def G2 (b v pb pv : Nat) : DupGraph := ⟨[⟨b, pb, none⟩, ⟨v, pv, some b⟩]⟩

theorem mkDupGraph_one_view (h : Heap) (live : List Nat) (b v : Nat)
    (hb : (h.t b).base = none) (hvb : (h.t v).base = some b) (hne : v ≠ b) (hbl : b < h.next) (hvl : v < h.next)
    (hcb : (h.t b).vchildren.filter live.contains = [v])
    (hcv : (h.t v).vchildren.filter live.contains = []) :
    mkDupGraph h live b = .ok (dup2 h b v, G2 b v h.next (h.next + 1)) := by
  have hpb : b ≠ h.next := by omega
  have hpv : v ≠ h.next := by omega
  have hg0 : ((nullGrad h b).t b).grad = none := by simp [nullGrad]
  have hb0 : ((nullGrad h b).t b).base = none := by simp [nullGrad, hb]
  have hn0 : (nullGrad h b).next = h.next := rfl
  have specA := mkPh_spec (nullGrad h b) b none
  rw [hn0] at specA
  unfold mkDupGraph dup2
  simp only
  show (match makePlaceholder (nullGrad h b) b ((nullGrad h b).t b).base with
    | .error e => _ | .ok (h, p) => _) = _
  rw [hb0, makePlaceholder_mkPh _ _ _ hg0, hn0]
  simp only
  generalize hHa : mkPh (nullGrad h b) b none = Ha at specA ⊢
  obtain ⟨aB, aN, aR, aT, aP⟩ := specA
  have hab : Ha.t b = (nullGrad h b).t b := aT b hpb
  have hav : Ha.t v = h.t v := by
    rw [aT v hpv]; unfold nullGrad; rw [t_modT_ne _ _ _ _ hne]
  have hfcb : familyChildren Ha live b = [v] := by
    unfold familyChildren liveChildren
    have e1 : (Ha.t b).vchildren = (h.t b).vchildren := by rw [hab]; simp [nullGrad]
    have e2 : (Ha.t b).base = none := by rw [hab]; exact hb0
    rw [e1, hcb, e2]
    simp [hav, hvb]
  have hgv : ((nullGrad Ha v).t v).grad = none := by simp [nullGrad]
  have hn1 : (nullGrad Ha v).next = h.next + 1 := aN
  have specB := mkPh_spec (nullGrad Ha v) v (some h.next)
  rw [hn1] at specB
  have hfuelA : Ha.fuel = (Ha.next + 1) + 1 := rfl
  rw [hfuelA, duplicate_eq_fold]
  simp only [hfcb, List.isEmpty_cons, Bool.false_eq_true, if_false, List.foldlM_cons, List.foldlM_nil]
  have hstep : dupStep (Ha.next + 1) live h.next b (Ha, [⟨b, h.next, none⟩]) v =
      .ok (mkPh (nullGrad Ha v) v (some h.next), [⟨b, h.next, none⟩, ⟨v, h.next + 1, some b⟩]) := by
    unfold dupStep
    simp only
    show (match makePlaceholder (nullGrad Ha v) v (some h.next) with
      | .error e => _ | .ok (h, p) => _) = _
    rw [makePlaceholder_mkPh _ _ _ hgv, hn1]
    simp only
    generalize hHb : mkPh (nullGrad Ha v) v (some h.next) = Hb at specB ⊢
    obtain ⟨bB, bN, bR, bT, bP⟩ := specB
    have hfcv : liveChildren Hb live v = [] := by
      unfold liveChildren
      have : (Hb.t v).vchildren = (h.t v).vchildren := by
        rw [bT v (by omega)]
        simp only [nullGrad, t_modT_self]
        rw [hav]
      rw [this]; exact hcv
    rw [duplicate_no_children _ _ _ _ _ _ hfcv]
    rfl
  rw [hstep]
  simp only [Bind.bind, Except.bind, pure, Except.pure]
  simp [G2, List.find?, hne, Ne.symm hne]

end MG.C04V

namespace MG.C04V
open MG.Eng MG.ND MG.C13 MG.C04R

theorem nullGrad_t_ne (h : Heap) (x t : Nat) (ht : t ≠ x) : (nullGrad h x).t t = h.t t := by
  unfold nullGrad; rw [t_modT_ne _ _ _ _ ht]

theorem dup2_spec (h : Heap) (b v : Nat) (hne : v ≠ b) (hbl : b < h.next) (hvl : v < h.next) :
    let D := dup2 h b v
    D.bufs = h.bufs ∧ D.next = h.next + 2 ∧ D.ro = h.ro ∧
    (∀ t, t ≠ h.next → t ≠ h.next + 1 → t ≠ b → t ≠ v → D.t t = h.t t) ∧
    D.t b = (nullGrad h b).t b ∧ D.t v = (nullGrad h v).t v ∧
    D.t h.next = { (nullGrad h b).t b with base := none, vchildren := [h.next + 1] } ∧
    D.t (h.next + 1) = { (nullGrad h v).t v with base := some h.next } := by
  intro D
  have hn0 : (nullGrad h b).next = h.next := rfl
  have specA := mkPh_spec (nullGrad h b) b none
  rw [hn0] at specA
  have hD : D = (mkPh (nullGrad (mkPh (nullGrad h b) b none) v) v (some h.next)).modT h.next
      ({ · with vchildren := [h.next + 1] }) := rfl
  generalize hHa : mkPh (nullGrad h b) b none = Ha at specA hD
  obtain ⟨aB, aN, aR, aT, aP⟩ := specA
  have hn1 : (nullGrad Ha v).next = h.next + 1 := aN
  have specB := mkPh_spec (nullGrad Ha v) v (some h.next)
  rw [hn1] at specB
  generalize hHb : mkPh (nullGrad Ha v) v (some h.next) = Hb at specB hD
  obtain ⟨bB, bN, bR, bT, bP⟩ := specB
  have hvpb : v ≠ h.next := by omega
  have hbpb : b ≠ h.next := by omega
  have hbpv : b ≠ h.next + 1 := by omega
  have hvpv : v ≠ h.next + 1 := by omega
  have hpbpv : h.next ≠ h.next + 1 := by omega
  rw [hD]
  refine ⟨?_, ?_, ?_, ?_, ?_, ?_, ?_, ?_⟩
  · show Hb.bufs = _
    rw [bB]; show Ha.bufs = _; rw [aB]; rfl
  · show Hb.next = _
    rw [bN]
  · show Hb.ro = _
    rw [bR]; show Ha.ro = _; rw [aR]; rfl
  · intro t h1 h2 h3 h4
    rw [t_modT_ne _ _ _ _ h1, bT t h2, nullGrad_t_ne _ _ _ h4, aT t h1, nullGrad_t_ne _ _ _ h3]
  · rw [t_modT_ne _ _ _ _ hbpb, bT b hbpv, nullGrad_t_ne _ _ _ (Ne.symm hne), aT b hbpb]
  · rw [t_modT_ne _ _ _ _ hvpb, bT v hvpv]
    have : Ha.t v = h.t v := by rw [aT v hvpb, nullGrad_t_ne _ _ _ hne]
    simp only [nullGrad, t_modT_self, this]
  · rw [t_modT_self, bT h.next hpbpv, nullGrad_t_ne _ _ _ (Ne.symm hvpb), aP]
  · rw [t_modT_ne _ _ _ _ (Ne.symm hpbpv), bP]
    have : Ha.t v = h.t v := by rw [aT v hvpb, nullGrad_t_ne _ _ _ hne]
    simp only [nullGrad, t_modT_self, this]

end MG.C04V

namespace MG.C04V
open MG.Eng MG.ND MG.C13 MG.C04R

theorem mkPh_op_fields (h : Heap) (x : Nat) (bs : Option Nat) (g : Nat) :
    ((mkPh h x bs).op g).kind = (h.op g).kind ∧ ((mkPh h x bs).op g).forceConst = (h.op g).forceConst := by
  unfold mkPh
  obtain ⟨k, fc, _⟩ := reroute_op_fields ((mirror h.fresh.1 h.fresh.2 x).modT h.fresh.2 ({ · with base := bs })) h.next x g
  exact ⟨k, fc⟩

theorem dup2_op_fields (h : Heap) (b v g : Nat) :
    ((dup2 h b v).op g).kind = (h.op g).kind ∧ ((dup2 h b v).op g).forceConst = (h.op g).forceConst := by
  unfold dup2
  simp only [op_modT]
  obtain ⟨k1, f1⟩ := mkPh_op_fields (nullGrad (mkPh (nullGrad h b) b none) v) v (some h.next) g
  obtain ⟨k2, f2⟩ := mkPh_op_fields (nullGrad h b) b none g
  exact ⟨k1.trans k2, f1.trans f2⟩

end MG.C04V

namespace MG.C04V
open MG.Eng MG.ND MG.C13 MG.C04R

theorem G2_node_v (b v pb pv : Nat) (h1 : v ≠ b) (h2 : v ≠ pb) : (G2 b v pb pv).node? v = some ⟨v, pv, some b⟩ := by
  simp [G2, DupGraph.node?, List.find?, Ne.symm h1, Ne.symm h2]

theorem G2_node_b (b v pb pv : Nat) : (G2 b v pb pv).node? b = some ⟨b, pb, none⟩ := by
  simp [G2, DupGraph.node?, List.find?]

theorem G2_base (b v pb pv : Nat) : (G2 b v pb pv).base = ⟨b, pb, none⟩ := rfl

theorem G2_target (H : Heap) (b v pb pv : Nat) (a : Arr) (vf : ViewFn) (fc : Option Bool) (d' : Desc)
    (h1 : v ≠ b) (h2 : v ≠ pb)
    (hrep : replayFn H pv = some (vf, fc)) (happ : vf.apply a.d = .ok (d', true)) :
    inPlaceTarget H (G2 b v pb pv) v a = .ok (⟨a.buf, d'⟩, [vf]) := by
  unfold inPlaceTarget DupGraph.pathToBase
  show List.foldlM _ _ ((DupGraph.pathToBase.go (G2 b v pb pv) (2 + 1) v).reverse.drop 1) = _
  unfold DupGraph.pathToBase.go
  simp only [G2_node_v b v pb pv h1 h2]
  unfold DupGraph.pathToBase.go
  simp only [G2_node_b, G2_base]
  simp [hrep, happ, pure, Except.pure, Bind.bind, Except.bind]

end MG.C04V

namespace MG.C04V
open MG.Eng MG.ND MG.C13 MG.C04R

theorem opStepUnview_eq (h : Heap) (bp pmv : Nat) (chain : List ViewFn) (mutArr : Arr) :
    opStepUnview h bp pmv chain mutArr =
      outCore h (.unview chain mutArr.d.strides) [bp, pmv] [bp, pmv] mutArr := rfl

/-- `Tensor._op` for a view op that NumPy serves as a view -/
theorem opStep_view (h : Heap) (vf : ViewFn) (b : Nat) (fc : Option Bool) (d' : Desc)
    (happ : vf.apply (h.t b).data.d = .ok (d', true)) :
    opStep h (.view vf) [.t b] fc =
      .ok (recordOp h (.view vf) [b] [b] (resultConst fc h [b]) fc none ⟨(h.t b).data.buf, d'⟩ (some b)) := by
  unfold opStep
  simp only [wrapOperands, List.filterMap_cons, List.filterMap_nil, forwardOp, List.getD_cons_zero, happ]

end MG.C04V

namespace MG.C04V
open MG.Eng MG.ND MG.C13 MG.C04R

/-- what recording a view of a tensor `b` that owns its memory does, written out -/
def viewRes (h : Heap) (vf : ViewFn) (b : Nat) (c : Bool) (fc : Option Bool) (outArr : Arr) : Heap × Nat :=
  let h1 := (h.fresh.1.setOp h.next (mkOpRec (.view vf) [b] none fc)).modT b fun t => { t with ops := h.next :: t.ops }
  let h2 := h1.fresh.1.setT (h.next + 1) { data := outArr, const := c, creator := some h.next, base := some b }
  (h2.modT b fun t => { t with vchildren := t.vchildren ++ [h.next + 1] }, h.next + 1)

theorem recordOp_view (h : Heap) (vf : ViewFn) (b : Nat) (c : Bool) (fc : Option Bool) (outArr : Arr)
    (hb : (h.t b).base = none) :
    recordOp h (.view vf) [b] [b] c fc none outArr (some b) = viewRes h vf b c fc outArr := by
  have hprep : prepInputs h [b] (some b) = (h, some b) := by
    unfold prepInputs
    simp [hb]
  unfold recordOp
  rw [hprep]
  simp only [Option.isSome_some, if_true, List.foldl_cons, List.foldl_nil, attachResult, fresh_snd, next_modT,
    Heap.setOp, next_fresh]
  rfl

end MG.C04V

namespace MG.C04V
open MG.Eng MG.ND MG.C13 MG.C04R

/-- operands as the guarded call sees them on the two-node graph -/
def phMap2 (b v pb pv : Nat) : Operand → Operand
  | .t i => .t (if i = b then pb else if i = v then pv else i)
  | o => o

theorem G2_ph (b v pb pv i : Nat) (h1 : v ≠ b) (hb : b ≠ pb) (hb' : b ≠ pv) (hv : v ≠ pb) (hv' : v ≠ pv)
    (hi : i ≠ pb) (hi' : i ≠ pv) :
    (G2 b v pb pv).placeholderIfExists i = (if i = b then pb else if i = v then pv else i) := by
  unfold DupGraph.placeholderIfExists
  by_cases e1 : i = b
  · subst e1; simp [G2_node_b]
  · by_cases e2 : i = v
    · subst e2; simp [G2_node_v i i pb pv, e1, hv, G2, DupGraph.node?, List.find?, Ne.symm e1, Ne.symm hv]
    · have : (G2 b v pb pv).node? i = none := by
        simp [G2, DupGraph.node?, List.find?, Ne.symm e1, Ne.symm e2, Ne.symm hi, Ne.symm hi']
      simp [this, e1, e2]

theorem map_phMap2 (b v pb pv : Nat) (F : Operand → Operand)
    (hF : ∀ i, F (.t i) = Operand.t ((G2 b v pb pv).placeholderIfExists i)) (hL : ∀ w, F (.lit w) = .lit w)
    (h1 : v ≠ b) (hb : b ≠ pb) (hb' : b ≠ pv) (hv : v ≠ pb) (hv' : v ≠ pv)
    (inputs : List Operand) (hph : ∀ i, Operand.t i ∈ inputs → i ≠ pb ∧ i ≠ pv) :
    inputs.map F = inputs.map (phMap2 b v pb pv) := by
  induction inputs with
  | nil => rfl
  | cons o r ih =>
    simp only [List.map_cons]
    rw [ih (fun j hj => hph j (List.mem_cons_of_mem _ hj))]
    cases o with
    | t i =>
      obtain ⟨hi, hi'⟩ := hph i (List.mem_cons_self ..)
      rw [hF, G2_ph b v pb pv i h1 hb hb' hv hv' hi hi']; rfl
    | lit w => rw [hL]; rfl

/-- the heap after the guarded call, the `UnView` op and the mirroring of the base (before the views are re-created) -/
def stage8 (D : Heap) (b v pb pv : Nat) (kind : Kind) (inputs : List Operand) (vals : List Int) (vf : ViewFn)
    (dv : Desc) : Heap :=
  let C := copyH D b
  let target : Arr := ⟨C.2.buf, dv⟩
  let W := wrapOperands C.1 (inputs.map (phMap2 b v pb pv))
  let R := outRes W.1 kind (userIds (inputs.map (phMap2 b v pb pv))) W.2 target vals
  let h5 := R.1.modT R.2 ({ · with const := (D.t b).const })
  let U := outCore h5 (.unview [vf] C.2.d.strides) [pb, R.2] [pb, R.2] C.2
  let h7 := mirror U.1 b U.2
  { h7 with tens := h7.tens.filter fun q => q.1 ≠ U.2 }

/-- re-creating the view `v` of `b` -/
def stage12 (h8 : Heap) (b v : Nat) (vf : ViewFn) (fc : Option Bool) (dv : Desc) : Heap :=
  let V := viewRes h8 vf b (resultConst fc h8 [b]) fc ⟨(h8.t b).data.buf, dv⟩
  let h10 := mirror V.1 v V.2
  let h11 := h10.modT b fun t => { t with vchildren := (t.vchildren.filter (· ≠ V.2)) ++ [v] }
  { h11 with tens := h11.tens.filter fun q => q.1 ≠ V.2 }

end MG.C04V

namespace MG.C04V
open MG.Eng MG.ND MG.C13 MG.C04R

theorem isCContig_contig (off : Nat) (s : Shape) : (Desc.contig off s).isCContig = true := by
  simp [Desc.isCContig, Desc.contig]

theorem mutate_two_eq (D : Heap) (b v pb pv : Nat) (kind : Kind) (inputs : List Operand) (vals : List Int)
    (vf : ViewFn) (fc : Option Bool) (shb : Shape) (dv : Desc)
    (h1 : v ≠ b) (hb : b ≠ pb) (hb' : b ≠ pv) (hv : v ≠ pb) (hv' : v ≠ pv)
    (hDb : (D.t b).data.d = Desc.contig 0 shb)
    (hro : D.ro.contains (D.t b).data.buf = false)
    (hph : ∀ i, Operand.t i ∈ inputs → i ≠ pb ∧ i ≠ pv)
    (hrepP : replayFn (copyH D b).1 pv = some (vf, fc))
    (happ : vf.apply (Desc.contig 0 shb) = .ok (dv, true))
    (hnb : vf.isBroadcastTo = false)
    (hw : let W := wrapOperands (copyH D b).1 (inputs.map (phMap2 b v pb pv))
          outWrite kind (W.2.map fun i => W.1.val (W.1.t i).data) dv.shape (W.1.read ⟨(copyH D b).2.buf, dv⟩) none
            = .ok vals)
    (hrepV : replayFn (stage8 D b v pb pv kind inputs vals vf dv) v = some (vf, fc))
    (hb8 : ((stage8 D b v pb pv kind inputs vals vf dv).t b).base = none)
    (hd8 : ((stage8 D b v pb pv kind inputs vals vf dv).t b).data.d = Desc.contig 0 shb)
    (hdfs : (G2 b v pb pv).dfs (stage8 D b v pb pv kind inputs vals vf dv) = [⟨b, pb, none⟩, ⟨v, pv, some b⟩]) :
    inPlaceMutate D (G2 b v pb pv) v false kind inputs none none =
      .ok (stage12 (stage8 D b v pb pv kind inputs vals vf dv) b v vf fc dv) := by
  have hcc : (D.t b).data.d.isCContig = true := by rw [hDb]; exact isCContig_contig 0 shb
  have hcd : (copyH D b).2.d = Desc.contig 0 shb := by
    have := (copyH_spec D b).1
    rw [this, hDb]; rfl
  have happ' : vf.apply (copyH D b).2.d = .ok (dv, true) := by rw [hcd]; exact happ
  unfold inPlaceMutate
  simp only [G2_base, Heap.copyArrK, hcc, if_true, G2_node_v b v pb pv h1 hv, Option.isNone_some, Bool.false_eq_true,
    if_false]
  show (do
    let (target, chain) ← withHeap (copyH D b).1 (inPlaceTarget (copyH D b).1 (G2 b v pb pv) v (copyH D b).2)
    _) = _
  rw [G2_target _ b v pb pv _ vf fc dv h1 hv hrepP happ']
  have hro' : (copyH D b).1.ro.contains (D.t b).data.buf = false := hro
  simp only [withHeap, Bind.bind, Except.bind, List.any_cons, List.any_nil, hnb, hro', Bool.or_self, Bool.false_eq_true,
    if_false]
  rw [map_phMap2 b v pb pv _ (fun i => rfl) (fun w => rfl) h1 hb hb' hv hv' inputs hph]
  rw [show (D.newArr (D.val (D.t b).data)).fst = (copyH D b).1 from rfl, opStepOut_eq _ _ _ _ _ hw]
  simp only [pure, Except.pure, Bool.false_or, hro', Bool.false_eq_true, if_false, opStepUnview_eq]
  show recreateViews (stage8 D b v pb pv kind inputs vals vf dv) ((G2 b v pb pv).dfs (stage8 D b v pb pv kind inputs vals vf dv)) = _
  rw [hdfs]
  simp only [recreateViews, List.foldlM_cons, List.foldlM_nil, Bind.bind, Except.bind, hrepV]
  have happ8 : vf.apply ((stage8 D b v pb pv kind inputs vals vf dv).t b).data.d = .ok (dv, true) := by rw [hd8]; exact happ
  rw [opStep_view _ vf b fc dv happ8, recordOp_view _ vf b _ fc _ hb8]
  rfl

end MG.C04V

namespace MG.C04V
open MG.Eng MG.ND MG.C13 MG.C04R

/-- `outCore` keeps every field of every pre-existing tensor that its three kinds of record update keep -/
theorem outCore_keeps {β} (π : Tens → β) (h1 : ∀ x : Tens, π { x with base := none } = π x)
    (h2 : ∀ x : Tens, π { x with grad := none, viewGrad := none } = π x)
    (h3 : ∀ (x : Tens) (f : Nat), π { x with ops := f :: x.ops } = π x)
    (h : Heap) (kind : Kind) (users vars : List Nat) (out : Arr) (t : Nat) (ht : t ≠ h.next + 1)
    (wm : Option (Shape × List Bool) := none) :
    π ((outCore h kind users vars out wm).1.t t) = π (h.t t) := by
  let step1 : Heap → Nat → Heap := fun h v =>
    let tv := h.t v
    let h := if tv.base.isSome ∧ tv.creator.isNone then h.modT v ({ · with base := none }) else h
    h.modT v ({ · with grad := none, viewGrad := none })
  have k1 : ∀ (hh : Heap) (c x : Nat), π ((step1 hh c).t x) = π (hh.t x) := by
    intro hh c x
    simp only [step1]
    split
    · rw [t_modT_field _ _ _ _ π h2, t_modT_field _ _ _ _ π h1]
    · rw [t_modT_field _ _ _ _ π h2]
  have n1 : ∀ h c, (step1 h c).next = h.next := by
    intro h c; simp only [step1]; split <;> rfl
  have f1 : ∀ (xs : List Nat) (hh : Heap) (x : Nat), π ((xs.foldl step1 hh).t x) = π (hh.t x) := by
    intro xs
    induction xs with
    | nil => intro hh x; rfl
    | cons c cs ih => intro hh x; simp only [List.foldl_cons]; rw [ih, k1]
  let h2' := users.foldl step1 h
  have N2 : h2'.next = h.next := next_foldl users step1 n1 h
  let f := h2'.next
  let h3' := (h2'.fresh.1).setOp f { kind := kind, vars := vars, whereMask := wm }
  let step2 : Heap → Nat → Heap := fun h v => h.modT v fun t => { t with ops := f :: t.ops }
  have f2 : ∀ (xs : List Nat) (hh : Heap) (x : Nat), π ((xs.foldl step2 hh).t x) = π (hh.t x) := by
    intro xs
    induction xs with
    | nil => intro hh x; rfl
    | cons c cs ih =>
      intro hh x
      simp only [List.foldl_cons]
      rw [ih]
      exact t_modT_field _ _ _ _ π (fun y => h3 y f)
  let h4 := vars.foldl step2 h3'
  have N4 : h4.next = h.next + 1 := by
    rw [next_foldl vars step2 (fun _ _ => rfl) h3']
    show h2'.next + 1 = _
    rw [N2]
  have e : outCore h kind users vars out wm =
      ((h4.fresh.1).setT h4.next { data := out, const := !(vars.any fun v => !(h2'.t v).const), creator := some f }, h4.next) := rfl
  rw [e]
  have hne : t ≠ h4.next := by rw [N4]; exact ht
  simp only
  rw [t_setT_ne _ _ _ _ hne]
  show π (h4.t t) = _
  rw [f2]
  show π (h2'.t t) = _
  exact f1 users h t

theorem outCore_const (h : Heap) (kind : Kind) (users vars : List Nat) (out : Arr)
    (wm : Option (Shape × List Bool) := none) :
    ((outCore h kind users vars out wm).1.t (h.next + 1)).const = !(vars.any fun v => !(h.t v).const) ∧
    ((outCore h kind users vars out wm).1.t (h.next + 1)).vchildren = [] := by
  let step1 : Heap → Nat → Heap := fun h v =>
    let tv := h.t v
    let h := if tv.base.isSome ∧ tv.creator.isNone then h.modT v ({ · with base := none }) else h
    h.modT v ({ · with grad := none, viewGrad := none })
  have k1 : ∀ (hh : Heap) (c x : Nat), ((step1 hh c).t x).const = (hh.t x).const := by
    intro hh c x
    simp only [step1]
    split
    · exact (t_modT_field _ c x (fun t : Tens => { t with grad := none, viewGrad := none }) Tens.const (fun _ => rfl)).trans
        (t_modT_field hh c x (fun t : Tens => { t with base := none }) Tens.const (fun _ => rfl))
    · exact t_modT_field hh c x (fun t : Tens => { t with grad := none, viewGrad := none }) Tens.const (fun _ => rfl)
  have n1 : ∀ h c, (step1 h c).next = h.next := by
    intro h c; simp only [step1]; split <;> rfl
  have f1 : ∀ (xs : List Nat) (hh : Heap) (x : Nat), ((xs.foldl step1 hh).t x).const = (hh.t x).const := by
    intro xs
    induction xs with
    | nil => intro hh x; rfl
    | cons c cs ih => intro hh x; simp only [List.foldl_cons]; rw [ih, k1]
  let h2' := users.foldl step1 h
  have N2 : h2'.next = h.next := next_foldl users step1 n1 h
  let f := h2'.next
  let h3' := (h2'.fresh.1).setOp f { kind := kind, vars := vars, whereMask := wm }
  let step2 : Heap → Nat → Heap := fun h v => h.modT v fun t => { t with ops := f :: t.ops }
  let h4 := vars.foldl step2 h3'
  have N4 : h4.next = h.next + 1 := by
    rw [next_foldl vars step2 (fun _ _ => rfl) h3']
    show h2'.next + 1 = _
    rw [N2]
  have e : outCore h kind users vars out wm =
      ((h4.fresh.1).setT h4.next { data := out, const := !(vars.any fun v => !(h2'.t v).const), creator := some f }, h4.next) := rfl
  rw [e]
  simp only [← N4, t_setT_self]
  refine ⟨?_, trivial⟩
  have : (fun v => !(h2'.t v).const) = (fun v => !(h.t v).const) := by
    funext v
    show (!((users.foldl step1 h).t v).const) = _
    rw [f1]
  rw [this]

end MG.C04V

namespace MG.C04V
open MG.Eng MG.ND MG.C13 MG.C04R

theorem outCore_next (h : Heap) (kind : Kind) (users vars : List Nat) (out : Arr)
    (wm : Option (Shape × List Bool) := none) :
    (outCore h kind users vars out wm).1.next = h.next + 2 ∧ (outCore h kind users vars out wm).1.ro = h.ro := by
  let step1 : Heap → Nat → Heap := fun h v =>
    let tv := h.t v
    let h := if tv.base.isSome ∧ tv.creator.isNone then h.modT v ({ · with base := none }) else h
    h.modT v ({ · with grad := none, viewGrad := none })
  have n1 : ∀ h c, (step1 h c).next = h.next ∧ (step1 h c).ro = h.ro := by
    intro h c; simp only [step1]; split <;> exact ⟨rfl, rfl⟩
  have f1 : ∀ (xs : List Nat) (hh : Heap), (xs.foldl step1 hh).next = hh.next ∧ (xs.foldl step1 hh).ro = hh.ro := by
    intro xs
    induction xs with
    | nil => intro hh; exact ⟨rfl, rfl⟩
    | cons c cs ih => intro hh; simp only [List.foldl_cons]; rw [(ih _).1, (ih _).2]; exact n1 hh c
  let h2' := users.foldl step1 h
  let f := h2'.next
  let h3' := (h2'.fresh.1).setOp f { kind := kind, vars := vars, whereMask := wm }
  let step2 : Heap → Nat → Heap := fun h v => h.modT v fun t => { t with ops := f :: t.ops }
  have f2 : ∀ (xs : List Nat) (hh : Heap), (xs.foldl step2 hh).next = hh.next ∧ (xs.foldl step2 hh).ro = hh.ro := by
    intro xs
    induction xs with
    | nil => intro hh; exact ⟨rfl, rfl⟩
    | cons c cs ih => intro hh; simp only [List.foldl_cons]; rw [(ih _).1, (ih _).2]; exact ⟨rfl, rfl⟩
  let h4 := vars.foldl step2 h3'
  have e : outCore h kind users vars out wm =
      ((h4.fresh.1).setT h4.next { data := out, const := !(vars.any fun v => !(h2'.t v).const), creator := some f }, h4.next) := rfl
  rw [e]
  refine ⟨?_, ?_⟩
  · show h4.next + 1 = _
    rw [(f2 vars h3').1]
    show h2'.next + 1 + 1 = _
    rw [(f1 users h).1]
  · show h4.ro = _
    rw [(f2 vars h3').2]
    show h2'.ro = _
    exact (f1 users h).2

end MG.C04V

namespace MG.C04V
open MG.Eng MG.ND MG.C13 MG.C04R

/-- the four fields the view machinery needs of every old tensor -/
structure Same4 (a b : Tens) : Prop where
  data : a.data = b.data
  const : a.const = b.const
  creator : a.creator = b.creator
  vchildren : a.vchildren = b.vchildren

theorem Same4.rfl' (a : Tens) : Same4 a a := ⟨rfl, rfl, rfl, rfl⟩
theorem Same4.trans {a b c : Tens} (h1 : Same4 a b) (h2 : Same4 b c) : Same4 a c :=
  ⟨h1.data.trans h2.data, h1.const.trans h2.const, h1.creator.trans h2.creator, h1.vchildren.trans h2.vchildren⟩

theorem outCore_same4 (h : Heap) (kind : Kind) (users vars : List Nat) (out : Arr) (t : Nat) (ht : t ≠ h.next + 1)
    (wm : Option (Shape × List Bool) := none) :
    Same4 ((outCore h kind users vars out wm).1.t t) (h.t t) :=
  ⟨outCore_keeps Tens.data (fun _ => rfl) (fun _ => rfl) (fun _ _ => rfl) h kind users vars out t ht wm,
   outCore_keeps Tens.const (fun _ => rfl) (fun _ => rfl) (fun _ _ => rfl) h kind users vars out t ht wm,
   outCore_keeps Tens.creator (fun _ => rfl) (fun _ => rfl) (fun _ _ => rfl) h kind users vars out t ht wm,
   outCore_keeps Tens.vchildren (fun _ => rfl) (fun _ => rfl) (fun _ _ => rfl) h kind users vars out t ht wm⟩

theorem stage8_spec (D : Heap) (b v pb pv : Nat) (kind : Kind) (inputs : List Operand) (vals : List Int)
    (vf : ViewFn) (dv : Desc) (hbl : b < D.next) (hpbl : pb < D.next) :
    let H8 := stage8 D b v pb pv kind inputs vals vf dv
    let W := (wrapOperands (copyH D b).1 (inputs.map (phMap2 b v pb pv))).1
    (H8.t b).data = (copyH D b).2 ∧ (H8.t b).base = none ∧
    (H8.t b).const = ((D.t pb).const && (D.t b).const) ∧
    (∀ t, t < D.next → t ≠ b → Same4 (H8.t t) (D.t t)) ∧
    (∀ g, g < D.next → (H8.op g).kind = (D.op g).kind ∧ (H8.op g).forceConst = (D.op g).forceConst) ∧
    H8.bufs = (W.write ⟨(copyH D b).2.buf, dv⟩ vals).bufs ∧
    D.next + 1 ≤ W.next ∧ H8.next = W.next + 4 ∧ Ext (copyH D b).1 W := by
  intro H8 W
  obtain ⟨cA, cN, cT, cB, cR⟩ := copyH_spec D b
  have eW : Ext (copyH D b).1 W := wrap_ext (inputs.map (phMap2 b v pb pv)) (copyH D b).1
  have eW' := eW
  obtain ⟨eN, eT, eB, eO, eR⟩ := eW
  rw [cN] at eN eT eB
  generalize hR : outRes W kind (userIds (inputs.map (phMap2 b v pb pv)))
      (wrapOperands (copyH D b).1 (inputs.map (phMap2 b v pb pv))).2 ⟨(copyH D b).2.buf, dv⟩ vals = R
  have specR := outRes_spec W kind (userIds (inputs.map (phMap2 b v pb pv)))
      (wrapOperands (copyH D b).1 (inputs.map (phMap2 b v pb pv))).2 ⟨(copyH D b).2.buf, dv⟩ vals
  have opsR := outRes_ops W kind (userIds (inputs.map (phMap2 b v pb pv)))
      (wrapOperands (copyH D b).1 (inputs.map (phMap2 b v pb pv))).2 ⟨(copyH D b).2.buf, dv⟩ vals
  have nextR := outCore_next (W.write ⟨(copyH D b).2.buf, dv⟩ vals) kind (userIds (inputs.map (phMap2 b v pb pv)))
      (wrapOperands (copyH D b).1 (inputs.map (phMap2 b v pb pv))).2 ⟨(copyH D b).2.buf, dv⟩
  have s4R : ∀ t, t ≠ W.next + 1 → Same4 (R.1.t t) (W.t t) := by
    intro t ht
    rw [← hR]
    exact outCore_same4 (W.write ⟨(copyH D b).2.buf, dv⟩ vals) _ _ _ _ t ht
  rw [hR] at specR opsR
  have nR : R.1.next = W.next + 2 := by rw [← hR]; exact nextR.1
  obtain ⟨rId, rB, rD, rBase, rO⟩ := specR
  obtain ⟨_, _, _, rOps⟩ := opsR
  generalize hh5 : R.1.modT R.2 ({ · with const := (D.t b).const }) = h5
  have n5 : h5.next = W.next + 2 := by rw [← hh5]; exact nR
  have h5t : ∀ t, t ≠ R.2 → h5.t t = R.1.t t := fun t ht => by rw [← hh5, t_modT_ne _ _ _ _ ht]
  have h5o : (h5.t R.2).const = (D.t b).const := by rw [← hh5, t_modT_self]
  have h5op : ∀ g, h5.op g = R.1.op g := fun g => by rw [← hh5]; rfl
  have h5b : h5.bufs = R.1.bufs := by rw [← hh5]; rfl
  generalize hU : outCore h5 (.unview [vf] (copyH D b).2.d.strides) [pb, R.2] [pb, R.2] (copyH D b).2 = U
  have specU := outCore_spec h5 (.unview [vf] (copyH D b).2.d.strides) [pb, R.2] [pb, R.2] (copyH D b).2
  have constU := outCore_const h5 (.unview [vf] (copyH D b).2.d.strides) [pb, R.2] [pb, R.2] (copyH D b).2
  have opsU := outCore_ops h5 (.unview [vf] (copyH D b).2.d.strides) [pb, R.2] [pb, R.2] (copyH D b).2
  have nextU := outCore_next h5 (.unview [vf] (copyH D b).2.d.strides) [pb, R.2] [pb, R.2] (copyH D b).2
  have s4U : ∀ t, t ≠ h5.next + 1 → Same4 (U.1.t t) (h5.t t) := by
    intro t ht; rw [← hU]; exact outCore_same4 h5 _ _ _ _ t ht
  rw [hU] at specU constU opsU nextU
  obtain ⟨uId, uB, uD, uBase, uO⟩ := specU
  obtain ⟨_, _, _, uOps⟩ := opsU
  rw [n5] at uId uD uBase constU s4U uOps
  have hH8 : H8 = { (mirror U.1 b U.2) with tens := (mirror U.1 b U.2).tens.filter fun q => q.1 ≠ U.2 } := by
    show stage8 D b v pb pv kind inputs vals vf dv = _
    have hR2 := hR
    simp only [W] at hR2
    unfold stage8
    simp only [hR2, hh5, hU]
  have hbo : b ≠ U.2 := by rw [uId]; omega
  have hH8b : H8.t b = U.1.t U.2 := by
    rw [hH8, t_filter_ne _ _ _ hbo]; simp only [mirror, t_setT_self]
  have hpbR : pb ≠ R.2 := by rw [rId]; omega
  refine ⟨?_, ?_, ?_, ?_, ?_, ?_, eN, ?_, eW'⟩
  · rw [hH8b, uId]; exact uD
  · rw [hH8b, uId]; exact uBase
  · rw [hH8b, uId, constU.1]
    have c1 : (h5.t pb).const = (D.t pb).const := by
      rw [h5t pb hpbR, (rO pb (by rw [← rId]; exact hpbR)).2, eT pb (by omega), cT]
    simp only [List.any_cons, List.any_nil, Bool.or_false, c1, h5o]
    cases (D.t pb).const <;> cases (D.t b).const <;> rfl
  · intro t ht htb
    have hto2 : t ≠ U.2 := by rw [uId]; omega
    have hto1 : t ≠ R.2 := by rw [rId]; omega
    have e1 : H8.t t = U.1.t t := by
      rw [hH8, t_filter_ne _ _ _ hto2]; simp only [mirror]; rw [t_setT_ne _ _ _ _ htb]
    rw [e1]
    refine (s4U t (by rw [← uId]; exact hto2)).trans ?_
    rw [h5t t hto1]
    refine (s4R t (by rw [← rId]; exact hto1)).trans ?_
    rw [eT t (by omega), cT]
    exact Same4.rfl' _
  · intro g hg
    have e1 : H8.op g = U.1.op g := by rw [hH8]; rfl
    rw [e1, uOps g (by omega), h5op, rOps g (by omega)]
    have : W.op g = D.op g := by
      simp only [Heap.op, eO]; rfl
    rw [this]
    exact ⟨rfl, rfl⟩
  · have : H8.bufs = U.1.bufs := by rw [hH8]; rfl
    rw [this, uB, h5b, rB]
  · have : H8.next = U.1.next := by rw [hH8]; rfl
    rw [this, nextU.1, n5]

end MG.C04V

namespace MG.C04V
open MG.Eng MG.ND MG.C13 MG.C04R

theorem stage12_spec (H8 : Heap) (b v : Nat) (vf : ViewFn) (fc : Option Bool) (dv : Desc)
    (hne : v ≠ b) (hbl : b < H8.next) (hvl : v < H8.next) :
    let F := stage12 H8 b v vf fc dv
    F.t v = { data := ⟨(H8.t b).data.buf, dv⟩, const := resultConst fc H8 [b], creator := some H8.next, base := some b } ∧
    (F.t b).data = (H8.t b).data ∧ (F.t b).const = (H8.t b).const ∧ (F.t b).base = (H8.t b).base ∧
    (∀ t, t ≠ b → t ≠ v → t ≠ H8.next + 1 → F.t t = H8.t t) ∧ F.bufs = H8.bufs := by
  intro F
  have hvo : v ≠ H8.next + 1 := by omega
  have hbo : b ≠ H8.next + 1 := by omega
  -- name the stages of `viewRes`
  let h1 := (H8.fresh.1.setOp H8.next (mkOpRec (.view vf) [b] none fc)).modT b fun t => { t with ops := H8.next :: t.ops }
  let x : Tens := { data := ⟨(H8.t b).data.buf, dv⟩, const := resultConst fc H8 [b], creator := some H8.next, base := some b }
  let h2 := h1.fresh.1.setT (H8.next + 1) x
  let V1 := h2.modT b fun t => { t with vchildren := t.vchildren ++ [H8.next + 1] }
  have hV : viewRes H8 vf b (resultConst fc H8 [b]) fc ⟨(H8.t b).data.buf, dv⟩ = (V1, H8.next + 1) := rfl
  let h10 := mirror V1 v (H8.next + 1)
  let h11 := h10.modT b fun t => { t with vchildren := (t.vchildren.filter (· ≠ H8.next + 1)) ++ [v] }
  have hF : F = { h11 with tens := h11.tens.filter fun q => q.1 ≠ H8.next + 1 } := rfl
  have V1o : V1.t (H8.next + 1) = x := by
    show (h2.modT b _).t _ = _
    rw [t_modT_ne _ _ _ _ (Ne.symm hbo)]
    simp [h2]
  have V1t : ∀ t, t ≠ b → t ≠ H8.next + 1 → V1.t t = H8.t t := by
    intro t h1' h2'
    show (h2.modT b _).t t = _
    rw [t_modT_ne _ _ _ _ h1']
    show (h1.fresh.1.setT (H8.next + 1) x).t t = _
    rw [t_setT_ne _ _ _ _ h2']
    show (h1.t t) = _
    show ((H8.fresh.1.setOp H8.next _).modT b _).t t = _
    rw [t_modT_ne _ _ _ _ h1']
    rfl
  have V1b : (V1.t b).data = (H8.t b).data ∧ (V1.t b).const = (H8.t b).const ∧ (V1.t b).base = (H8.t b).base := by
    have e : V1.t b = { (h2.t b) with vchildren := (h2.t b).vchildren ++ [H8.next + 1] } := by
      show (h2.modT b _).t b = _
      rw [t_modT_self]
    have e2 : h2.t b = h1.t b := by
      show (h1.fresh.1.setT (H8.next + 1) x).t b = _
      rw [t_setT_ne _ _ _ _ hbo]; rfl
    have e3 : h1.t b = { (H8.t b) with ops := H8.next :: (H8.t b).ops } := by
      show ((H8.fresh.1.setOp H8.next _).modT b _).t b = _
      rw [t_modT_self]; rfl
    rw [e, e2, e3]
    exact ⟨rfl, rfl, rfl⟩
  refine ⟨?_, ?_, ?_, ?_, ?_, rfl⟩
  · rw [hF, t_filter_ne _ _ _ hvo]
    show (h10.modT b _).t v = _
    rw [t_modT_ne _ _ _ _ hne]
    show (mirror V1 v (H8.next + 1)).t v = _
    simp only [mirror, t_setT_self]
    exact V1o
  · rw [hF, t_filter_ne _ _ _ hbo]
    show ((h10.modT b _).t b).data = _
    rw [t_modT_self]
    show ((mirror V1 v (H8.next + 1)).t b).data = _
    simp only [mirror]
    rw [t_setT_ne _ _ _ _ (Ne.symm hne)]
    exact V1b.1
  · rw [hF, t_filter_ne _ _ _ hbo]
    show ((h10.modT b _).t b).const = _
    rw [t_modT_self]
    show ((mirror V1 v (H8.next + 1)).t b).const = _
    simp only [mirror]
    rw [t_setT_ne _ _ _ _ (Ne.symm hne)]
    exact V1b.2.1
  · rw [hF, t_filter_ne _ _ _ hbo]
    show ((h10.modT b _).t b).base = _
    rw [t_modT_self]
    show ((mirror V1 v (H8.next + 1)).t b).base = _
    simp only [mirror]
    rw [t_setT_ne _ _ _ _ (Ne.symm hne)]
    exact V1b.2.2
  · intro t h1' h2' h3'
    rw [hF, t_filter_ne _ _ _ h3']
    show (h10.modT b _).t t = _
    rw [t_modT_ne _ _ _ _ h1']
    show (mirror V1 v (H8.next + 1)).t t = _
    simp only [mirror]
    rw [t_setT_ne _ _ _ _ h2']
    exact V1t t h1' h3'

end MG.C04V

namespace MG.C04V
open MG.Eng MG.ND MG.C13 MG.C04R

theorem dfs_go_none (g : DupGraph) (h : Heap) (c : Nat) (hc : g.node? c = none) : ∀ fuel, DupGraph.dfs.go g h fuel c = [] := by
  intro fuel
  cases fuel with
  | zero => rfl
  | succ n => unfold DupGraph.dfs.go; simp [hc]

theorem dfs_two (H : Heap) (b v pb pv : Nat) (hbpb : b ≠ pb) (hbpv : b ≠ pv) (hvpv : v ≠ pv) (hpp : pb ≠ pv)
    (hcp : (H.t pb).vchildren = [pv])
    (hcv : ∀ c ∈ (H.t pv).vchildren, c ≠ b ∧ c ≠ v ∧ c ≠ pb ∧ c ≠ pv) :
    (G2 b v pb pv).dfs H = [⟨b, pb, none⟩, ⟨v, pv, some b⟩] := by
  have n1 : (G2 b v pb pv).node? pb = some ⟨b, pb, none⟩ := by
    simp [G2, DupGraph.node?, List.find?]
  have n2 : (G2 b v pb pv).node? pv = some ⟨v, pv, some b⟩ := by
    simp [G2, DupGraph.node?, List.find?, hbpv, hpp]
  unfold DupGraph.dfs
  show DupGraph.dfs.go _ H (H.next + 1 + 1) pb = _
  unfold DupGraph.dfs.go
  simp only [G2_base, n1, hcp, List.flatMap_cons, List.flatMap_nil, List.append_nil]
  unfold DupGraph.dfs.go
  simp only [n2]
  have : (H.t pv).vchildren.flatMap (DupGraph.dfs.go (G2 b v pb pv) H H.next) = [] := by
    apply flatMap_nil_of_forall
    intro c hc
    obtain ⟨c1, c2, c3, c4⟩ := hcv c hc
    apply dfs_go_none
    simp [G2, DupGraph.node?, List.find?, Ne.symm c1, Ne.symm c2, Ne.symm c3, Ne.symm c4]
  rw [this]

end MG.C04V

namespace MG.C04V
open MG.Eng MG.ND MG.C13 MG.C04R

theorem read_contig_getD (h : Heap) (buf : Nat) (sh : Shape) (p : Nat) (hp : p < size sh) :
    (h.read ⟨buf, Desc.contig 0 sh⟩).getD p 0 = (h.buf buf).getD p 0 := by
  simp only [Heap.read]
  rw [positions_contig]
  simp only [List.map_map]
  rw [List.getD_eq_getElem?_getD, List.getElem?_map, List.getElem?_range hp]
  simp

theorem read_contig_whole (h : Heap) (buf : Nat) (sh : Shape) (hl : (h.buf buf).length = size sh) :
    h.read ⟨buf, Desc.contig 0 sh⟩ = h.buf buf := by
  apply List.ext_getElem
  · simp [Heap.read, Desc.positions, hl]
    rfl
  · intro i h1 h2
    have hi : i < size sh := by rw [← hl]; exact h2
    have := read_contig_getD h buf sh i hi
    rw [List.getD_eq_getElem?_getD, List.getElem?_eq_getElem h1, List.getD_eq_getElem?_getD,
      List.getElem?_eq_getElem h2] at this
    simpa using this

/-- writing `vals` at the positions `ps` of a list (later writes win) -/
def scatter (old : List Int) (ps : List Nat) (vals : List Int) : List Int :=
  (List.zip ps vals).foldl (fun acc pv => acc.set pv.1 pv.2) old

theorem buf_write (h : Heap) (a : Arr) (vals : List Int) :
    (h.write a vals).buf a.buf = scatter (h.buf a.buf) a.d.positions vals := by
  simp only [Heap.write, Heap.buf, scatter]
  rw [lookup_insert_self]
  rfl

end MG.C04V

namespace MG.C04V
open MG.Eng MG.ND MG.C13 MG.C04R

/-- **inplace_through_view_refines_numpy.**  An in-place update whose *target is a view*: `b` owns C-contiguous,
writeable memory, `v = vf(b)` is its one live view (a window `dv` of pairwise distinct positions inside `b`),
and the statement `v[key] = …` / `v op= …` / `ufunc(…, out=v)` is run with any operands (`b` and `v` themselves
included).  If the NumPy-level statement on `v`'s values yields `vals`, then `_in_place_op` succeeds and, on the
*same tensor ids*: `v` reads `vals` and is still a view of `b`; `b` reads its old values with exactly the window
`dv` overwritten by `vals` (NumPy's write-through) and still owns its memory with its constant flag; every buffer
that existed before is unchanged; every other existing tensor keeps its array and flag. -/
theorem inplace_through_view_refines_numpy (h : Heap) (roots : List Nat) (b v f bufb : Nat) (shb : Shape)
    (vf : ViewFn) (fc : Option Bool) (dv : Desc) (kind : Kind) (inputs : List Operand) (vals : List Int)
    (hbl : b < h.next) (hvl : v < h.next) (hne : v ≠ b)
    (hbase : (h.t b).base = none) (hvb : (h.t v).base = some b)
    (hcr : (h.t v).creator = some f) (hfl : f < h.next)
    (hkind : (h.op f).kind = .view vf) (hfc : (h.op f).forceConst = fc)
    (hdata : (h.t b).data = ⟨bufb, Desc.contig 0 shb⟩) (hbufb : bufb < h.next)
    (hro : h.ro.contains bufb = false)
    (hcb : (h.t b).vchildren.filter (liveSet h roots).contains = [v])
    (hcv : (h.t v).vchildren.filter (liveSet h roots).contains = [])
    (hdead : ∀ c ∈ (h.t v).vchildren, c ≠ b ∧ c ≠ v ∧ c ≠ h.next ∧ c ≠ h.next + 1)
    (happ : vf.apply (Desc.contig 0 shb) = .ok (dv, true)) (hnb : vf.isBroadcastTo = false)
    (hnd : dv.positions.Nodup) (hin : ∀ p ∈ dv.positions, p < size shb)
    (hwf : ∀ o ∈ inputs, WFop h o)
    (hw : outWrite kind (inputs.map (operandVal h)) dv.shape (h.read ⟨bufb, dv⟩) none = .ok vals)
    (hvll : vals.length = dv.positions.length) :
    ∃ h', inPlaceOp h roots v kind inputs = .ok h' ∧
      h'.val (h'.t v).data = (dv.shape, vals) ∧ (h'.t v).base = some b ∧
      h'.val (h'.t b).data = (shb, scatter (h.read (h.t b).data) dv.positions vals) ∧
      (h'.t b).base = none ∧ (h'.t b).const = (h.t b).const ∧
      (∀ b', b' < h.next → h'.buf b' = h.buf b') ∧
      (∀ t, t < h.next → t ≠ b → t ≠ v → (h'.t t).data = (h.t t).data ∧ (h'.t t).const = (h.t t).const) := by
  -- names
  have hpbv : v ≠ h.next := by omega
  have hpbb : b ≠ h.next := by omega
  -- 1. prelude
  have hN : (nullGrad h v) = nullGrad h v := rfl
  have hbN : ((nullGrad h v).t b) = h.t b := nullGrad_t_ne h v b (Ne.symm hne)
  have hvN : ((nullGrad h v).t v).vchildren = (h.t v).vchildren ∧ ((nullGrad h v).t v).base = some b ∧
      ((nullGrad h v).t v).creator = some f ∧ ((nullGrad h v).t v).data = (h.t v).data ∧
      ((nullGrad h v).t v).const = (h.t v).const := by
    simp [nullGrad, hvb, hcr]
  have hreach : reachesViaViews (nullGrad h v) (liveSet h roots) (nullGrad h v).fuel b v = true := by
    show reachesViaViews (nullGrad h v) (liveSet h roots) ((nullGrad h v).next + 1 + 1) b v = true
    unfold reachesViaViews
    have : liveChildren (nullGrad h v) (liveSet h roots) b = [v] := by
      unfold liveChildren; rw [hbN]; exact hcb
    simp [this]
  have hpre := prelude_view h (liveSet h roots) v b f hvb hcr hreach
  -- 2. the placeholder graph
  have hdupG := mkDupGraph_one_view (nullGrad h v) (liveSet h roots) b v (by rw [hbN]; exact hbase) hvN.2.1 hne hbl hvl
    (by rw [hbN]; exact hcb) (by rw [hvN.1]; exact hcv)
  have hnn : (nullGrad h v).next = h.next := rfl
  rw [hnn] at hdupG
  obtain ⟨dB, dN, dR, dT, dTb, dTv, dTpb, dTpv⟩ := dup2_spec (nullGrad h v) b v hne hbl hvl
  rw [hnn] at dN dT dTpb dTpv
  generalize hD : dup2 (nullGrad h v) b v = D at hdupG dB dN dR dT dTb dTv dTpb dTpv
  have hDb : D.t b = (nullGrad h b).t b := by
    rw [dTb]; unfold nullGrad; simp only [t_modT_self]; rw [t_modT_ne _ _ _ _ (Ne.symm hne)]
  have hDbd : (D.t b).data = ⟨bufb, Desc.contig 0 shb⟩ := by rw [hDb]; simp [nullGrad, hdata]
  have hDbc : (D.t b).const = (h.t b).const := by rw [hDb]; simp [nullGrad]
  have hDpbc : (D.t h.next).const = (h.t b).const := by rw [dTpb]; simp [nullGrad]; rw [t_modT_ne _ _ _ _ (Ne.symm hne)]
  have hDold : ∀ t, t < h.next → t ≠ b → t ≠ v → D.t t = h.t t := by
    intro t ht h1 h2
    rw [dT t (by omega) (by omega) h1 h2, nullGrad_t_ne _ _ _ h2]
  have hDbuf : ∀ x, D.buf x = h.buf x := fun x => by simp only [Heap.buf, dB]; rfl
  have hDdata : ∀ t, t < h.next → (D.t t).data = (h.t t).data ∧ (D.t t).const = (h.t t).const := by
    intro t ht
    by_cases e1 : t = b
    · subst e1; rw [hDb]; simp [nullGrad]
    · by_cases e2 : t = v
      · subst e2; rw [dTv]; simp [nullGrad]
      · rw [hDold t ht e1 e2]; exact ⟨rfl, rfl⟩
  have hDpvd : (D.t (h.next + 1)).data = (h.t v).data := by rw [dTpv]; simp [nullGrad]
  have hDpbd : (D.t h.next).data = (h.t b).data := by rw [dTpb]; simp [nullGrad]; rw [t_modT_ne _ _ _ _ (Ne.symm hne)]
  -- 3. the copy of the base and the operands as the guarded call sees them
  obtain ⟨cA, cN, cT, cB, cR⟩ := copyH_spec D b
  rw [dN] at cN cB cR
  have hcA : (copyH D b).2 = ⟨h.next + 2, Desc.contig 0 shb⟩ := by rw [cA, dN, hDbd]; rfl
  have hphid : ∀ i, Operand.t i ∈ inputs → i ≠ h.next ∧ i ≠ h.next + 1 := fun i hi => by
    have := (hwf _ hi).1; exact ⟨by omega, by omega⟩
  have hmapd : ∀ i, i < h.next →
      ((copyH D b).1.t (if i = b then h.next else if i = v then h.next + 1 else i)).data = (h.t i).data := by
    intro i hi
    rw [cT]
    by_cases e1 : i = b
    · subst e1; simp only [if_true]; exact hDpbd
    · by_cases e2 : i = v
      · subst e2; simp only [e1, if_false, if_true]; exact hDpvd
      · simp only [e1, e2, if_false]; exact (hDdata i hi).1
  have hwfC : ∀ o ∈ inputs.map (phMap2 b v h.next (h.next + 1)), WFop (copyH D b).1 o := by
    intro o ho
    obtain ⟨o0, ho0, rfl⟩ := List.mem_map.mp ho
    cases o0 with
    | lit w => exact hwf _ ho0
    | t i =>
      obtain ⟨i1, i2⟩ := hwf _ ho0
      show (if i = b then h.next else if i = v then h.next + 1 else i) < (copyH D b).1.next ∧
        ((copyH D b).1.t (if i = b then h.next else if i = v then h.next + 1 else i)).data.buf < _
      rw [hmapd i i1, cN]
      refine ⟨?_, by omega⟩
      split
      · omega
      · split <;> omega
  have hvalC : (inputs.map (phMap2 b v h.next (h.next + 1))).map (operandVal (copyH D b).1) = inputs.map (operandVal h) := by
    rw [List.map_map]
    apply List.map_congr_left
    intro o ho
    cases o with
    | lit w => rfl
    | t i =>
      obtain ⟨i1, i2⟩ := hwf _ ho
      show (copyH D b).1.val ((copyH D b).1.t (if i = b then h.next else if i = v then h.next + 1 else i)).data
        = h.val (h.t i).data
      rw [hmapd i i1]
      have hb1 : (h.t i).data.buf ≠ h.next + 2 := by omega
      rw [val_congr D _ _ (cB _ hb1), val_congr h _ _ (hDbuf _)]
  obtain ⟨wv, _⟩ := wrap_vals (inputs.map (phMap2 b v h.next (h.next + 1))) (copyH D b).1 hwfC
  -- 4. the stage heaps
  obtain ⟨s8d, s8b, s8c, s8t, s8o, s8bufs, s8n1, s8n, s8ext⟩ :=
    stage8_spec D b v h.next (h.next + 1) kind inputs vals vf dv (by rw [dN]; omega) (by rw [dN]; omega)
  rw [dN] at s8t s8o s8n1
  generalize hW : (wrapOperands (copyH D b).1 (inputs.map (phMap2 b v h.next (h.next + 1)))).1 = W
    at wv s8bufs s8n1 s8n s8ext
  generalize hH8 : stage8 D b v h.next (h.next + 1) kind inputs vals vf dv = H8 at s8d s8b s8c s8t s8o s8bufs s8n
  obtain ⟨eN, eT, eB, eO, eR⟩ := s8ext
  rw [cN] at eN eT eB
  -- the buffer of the copy, before and after the write
  have hWcopy : W.buf (h.next + 2) = h.read (h.t b).data := by
    rw [eB _ (by omega), cR, hDbd, hdata]
    simp only [Heap.read, hDbuf]
  have hlenb : (h.read (h.t b).data).length = size shb := by rw [read_length, hdata]; rfl
  have hreadT : W.read ⟨h.next + 2, dv⟩ = h.read ⟨bufb, dv⟩ := by
    simp only [Heap.read]
    apply List.map_congr_left
    intro p hp
    rw [hWcopy, hdata, read_contig_getD h bufb shb p (hin p hp)]
  have hw' : (let W' := wrapOperands (copyH D b).1 (inputs.map (phMap2 b v h.next (h.next + 1)))
      outWrite kind (W'.2.map fun i => W'.1.val (W'.1.t i).data) dv.shape (W'.1.read ⟨(copyH D b).2.buf, dv⟩) none
        = .ok vals) := by
    simp only
    rw [hW, wv, hvalC, hcA, hreadT]; exact hw
  -- replay information
  have hrepP : replayFn (copyH D b).1 (h.next + 1) = some (vf, fc) := by
    unfold replayFn
    rw [cT, dTpv]
    have hcr2 : ((nullGrad (nullGrad h v) v).t v).creator = some f := by simp [nullGrad, hcr]
    simp only [hcr2]
    obtain ⟨k, c⟩ := dup2_op_fields (nullGrad h v) b v f
    have hopf : ((copyH D b).1.op f).kind = .view vf ∧ ((copyH D b).1.op f).forceConst = fc := by
      show (D.op f).kind = _ ∧ (D.op f).forceConst = _
      rw [← hD, k, c]
      exact ⟨hkind, hfc⟩
    rw [hopf.1, hopf.2]
  have hrepV : replayFn H8 v = some (vf, fc) := by
    unfold replayFn
    have s4 := s8t v (by omega) hne
    have hcr2 : ((nullGrad (nullGrad h v) v).t v).creator = some f := by simp [nullGrad, hcr]
    rw [s4.creator, dTv]
    simp only [hcr2]
    obtain ⟨k8, c8⟩ := s8o f (by omega)
    obtain ⟨k, c⟩ := dup2_op_fields (nullGrad h v) b v f
    have hopf : (H8.op f).kind = .view vf ∧ (H8.op f).forceConst = fc := by
      rw [k8, c8, ← hD, k, c]
      exact ⟨hkind, hfc⟩
    rw [hopf.1, hopf.2]
  have hd8 : (H8.t b).data.d = Desc.contig 0 shb := by rw [s8d, hcA]
  have hdfs : (G2 b v h.next (h.next + 1)).dfs H8 = [⟨b, h.next, none⟩, ⟨v, h.next + 1, some b⟩] := by
    apply dfs_two H8 b v h.next (h.next + 1) hpbb (by omega) (by omega) (by omega)
    · rw [(s8t h.next (by omega) (Ne.symm hpbb)).vchildren, dTpb]
    · rw [(s8t (h.next + 1) (by omega) (by omega)).vchildren, dTpv]
      have : ((nullGrad (nullGrad h v) v).t v).vchildren = (h.t v).vchildren := by simp [nullGrad]
      simp only [this]
      exact hdead
  have hroD : D.ro.contains (D.t b).data.buf = false := by rw [hDbd, dR]; exact hro
  have hmut := mutate_two_eq D b v h.next (h.next + 1) kind inputs vals vf fc shb dv hne hpbb (by omega) hpbv (by omega)
    (by rw [hDbd]) hroD hphid hrepP happ hnb hw' (by rw [hH8]; exact hrepV) (by rw [hH8]; exact s8b)
    (by rw [hH8]; exact hd8) (by rw [hH8]; exact hdfs)
  rw [hH8] at hmut
  -- 5. the final heap
  have hbl8 : b < H8.next := by rw [s8n]; omega
  have hvl8 : v < H8.next := by rw [s8n]; omega
  obtain ⟨fv, fbd, fbc, fbb, ft, fbufs⟩ := stage12_spec H8 b v vf fc dv hne hbl8 hvl8
  generalize hF : stage12 H8 b v vf fc dv = F at hmut fv fbd fbc fbb ft fbufs
  have hFbuf : ∀ x, F.buf x = (W.write ⟨h.next + 2, dv⟩ vals).buf x := by
    intro x; simp only [Heap.buf, fbufs, s8bufs, hcA]
  have hFcopy : F.buf (h.next + 2) = scatter (h.read (h.t b).data) dv.positions vals := by
    rw [hFbuf, buf_write W ⟨h.next + 2, dv⟩ vals, hWcopy]
  refine ⟨F, ?_, ?_, ?_, ?_, ?_, ?_, ?_, ?_⟩
  · unfold inPlaceOp
    simp only [hpre, hvN.2.1, Option.isNone_some, Option.getD_some]
    rw [hdupG]
    exact hmut
  · -- the value of v
    rw [fv]
    simp only [Heap.val, s8d, hcA]
    have hr : F.read ⟨h.next + 2, dv⟩ = (W.write ⟨h.next + 2, dv⟩ vals).read ⟨h.next + 2, dv⟩ := by
      simp only [Heap.read, hFbuf]
    rw [hr, read_write_same W ⟨h.next + 2, dv⟩ vals hnd hvll]
    intro p hp
    show p < (W.buf (h.next + 2)).length
    rw [hWcopy, hlenb]; exact hin p hp
  · rw [fv]
  · -- the value of b
    simp only [Heap.val, fbd, s8d, hcA]
    rw [read_contig_whole F (h.next + 2) shb (by rw [hFcopy]; unfold scatter; rw [foldl_set_length]; exact hlenb), hFcopy]
    rfl
  · rw [fbb]; exact s8b
  · rw [fbc, s8c, hDpbc, hDbc]; cases (h.t b).const <;> rfl
  · intro b' hb'
    rw [hFbuf, write_frames_buffer W ⟨h.next + 2, dv⟩ vals b' (by show b' ≠ h.next + 2; omega), eB b' (by omega),
      cB b' (by omega)]
    exact hDbuf b'
  · intro t ht h1 h2
    have ht8 : t ≠ H8.next + 1 := by rw [s8n]; omega
    rw [ft t h1 h2 ht8]
    have s4 := s8t t (by omega) h1
    rw [s4.data, s4.const]
    exact hDdata t ht

end MG.C04V

namespace MG.C04V
open MG.Eng MG.ND MG.C13 MG.C04R

/-- a leaf with values [3, 4, 5] -/
def leafHeap : Heap :=
  { tens := [(0, { data := ⟨5, Desc.contig 0 [3]⟩, const := false })], bufs := [(5, [3, 4, 5])], next := 6 }

/-- … and its view `x[0:2]` (tensor 7, created by op 6), built by the model's own `opStep` -/
def vHeap : Heap := match opStep leafHeap (.view (.getitem [.slice (some 0) (some 2) 1])) [.t 0] with
  | .ok (h, _) => h | .error _ => leafHeap

/-- the premises of `inplace_through_view_refines_numpy` are satisfiable, and the conclusion is what the executable
model computes: `v *= 10` on the view `v = x[0:2]` of `x = [3, 4, 5]` -/
example :
    (vHeap.t 0).base = none ∧ (vHeap.t 7).base = some 0 ∧ (vHeap.t 7).creator = some 6 ∧
    (vHeap.op 6).kind = .view (.getitem [.slice (some 0) (some 2) 1]) ∧
    (vHeap.t 0).data = ⟨5, Desc.contig 0 [3]⟩ ∧
    (vHeap.t 0).vchildren.filter (liveSet vHeap [0, 7]).contains = [7] ∧
    (vHeap.t 7).vchildren.filter (liveSet vHeap [0, 7]).contains = [] ∧
    (ViewFn.getitem [.slice (some 0) (some 2) 1]).apply (Desc.contig 0 [3]) = .ok (⟨0, [2], [1]⟩, true) ∧
    (⟨0, [2], [1]⟩ : Desc).positions = [0, 1] ∧
    outWrite .mul ([Operand.t 7, Operand.lit ([], [10])].map (operandVal vHeap)) [2] (vHeap.read ⟨5, ⟨0, [2], [1]⟩⟩) none
      = .ok [30, 40] ∧
    (match inPlaceOp vHeap [0, 7] 7 .mul [.t 7, .lit ([], [10])] with
      | .ok h' => h'.val (h'.t 7).data == ([2], [30, 40]) && h'.val (h'.t 0).data == ([3], [30, 40, 5]) &&
          (h'.t 7).base == some 0 && (h'.t 0).base.isNone
      | .error _ => false) = true ∧
    scatter [3, 4, 5] [0, 1] [30, 40] = [30, 40, 5] := by
  refine ⟨rfl, rfl, rfl, rfl, rfl, rfl, rfl, rfl, rfl, rfl, rfl, rfl⟩

end MG.C04V
