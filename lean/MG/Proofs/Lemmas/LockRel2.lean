import MG.Proofs.Lemmas.LockRel
/-! Helper lemmas for C08: assembling `_release_lock_on_arr_writeability` and the loops over refs. -/
namespace MG.Lock

/-- what may still be pending after the first half of the release function: views waiting for `o` -/
def P3 (s : State) (o : Nat) : Nat → Nat → Prop :=
  fun b i => b = o ∧ baseOf s o = none ∧ i ∈ wget s.waiting (aidOf s o)

theorem unlockSelf_inv {s : State} {m} (hI : Inv s m (fun _ _ => False)) {o : Nat} {a : Arr}
    (hs : s.arrs[o]? = some a) (ho : isAlive s o = true) (horig : origOf s o = true)
    (hc1 : cget s.counter (aidOf s o) = 1)
    (hbw : match baseOf s o with
           | none => True
           | some b => wOf s b = true) :
    let s1 := unlockSelf { s with counter := erase a.aid s.counter } o a
    Inv s1 (fun x => if x = o then m x - 1 else m x) (P3 s1 o) ∧ wOf s1 o = true ∧
      SameStatic s s1 ∧ s1.holds = s.holds := by
  have haid : a.aid = aidOf s o := by simp [aidOf, hs]
  intro s1
  have ho' : isAlive { s with counter := erase a.aid s.counter } o = true := ho
  have hset : trySetWriteable { s with counter := erase a.aid s.counter } o =
      modArr { s with counter := erase a.aid s.counter } o setWt := by
    rw [trySet_eq _ o ho']
    have hb' : baseOf { s with counter := erase a.aid s.counter } o = baseOf s o := rfl
    rw [hb']
    cases hb : baseOf s o with
    | none => simp
    | some b =>
      rw [hb] at hbw
      have : wOf { s with counter := erase a.aid s.counter } b = true := hbw
      simp [this]
  -- the state before the optional `clear()`
  let s3 : State := { modArr { s with counter := erase a.aid s.counter } o setWt with
    tracker := erase a.aid s.tracker }
  have hS3 : SameStatic s s3 := by
    refine (show SameStatic s (modArr { s with counter := erase a.aid s.counter } o setWt) from ?_).trans
      (sameStatic_of_arrs rfl)
    apply sameStatic_modArr'; rfl; exact flagOnly_setW true
  have hw3 : wOf s3 o = true := wOf_setW_self _ o true ho'
  have hI3 : Inv s3 (fun x => if x = o then m x - 1 else m x)
      (fun b i => b = o ∧ baseOf s o = none ∧ i ∈ wget s.waiting (aidOf s o)) := by
    refine inv_unlockSelf hI ho horig hc1 hS3 ?_ ?_ ?_ ?_ rfl
    · intro x
      by_cases hx : x = o
      · subst hx; simp only [↓reduceIte]; exact hw3
      · simp only [hx, ↓reduceIte]
        show wOf (modArr { s with counter := erase a.aid s.counter } o setWt) x = wOf s x
        rw [wOf_modArr_ne _ _ _ _ hx]; rfl
    · intro x; exact enteredOf_setW _ o x true
    · intro i
      show cget (erase a.aid s.counter) i = _
      rw [cget_erase, haid]
    · intro i
      show lookup i (erase a.aid s.tracker) = _
      rw [lookup_erase, haid]
  have hs1 : s1 = if s3.tracker.isEmpty && !s3.waiting.isEmpty then { s3 with waiting := [] } else s3 := by
    show unlockSelf _ o a = _
    unfold unlockSelf
    simp only [hset]
    rfl
  rw [hs1]
  by_cases hcl : (s3.tracker.isEmpty && !s3.waiting.isEmpty) = true
  · rw [if_pos hcl]
    have hemp : ∀ i, lookup i s3.tracker = none := by
      have : s3.tracker.isEmpty = true := by
        cases h : s3.tracker.isEmpty with
        | true => rfl
        | false => rw [h] at hcl; simp at hcl
      exact isEmpty_iff_lookup this
    refine ⟨inv_clear_waiting _ hI3 hemp, hw3, hS3.trans (sameStatic_of_arrs rfl), rfl⟩
  · rw [if_neg hcl]
    refine ⟨hI3.mono_pend ?_, hw3, hS3, rfl⟩
    intro b i ⟨h1, h2, h3⟩
    refine ⟨h1, ?_, ?_⟩
    · rw [hS3.base]; exact h2
    · rw [hS3.aid]; exact h3

theorem releaseSelf_inv {s : State} {m} (hI : Inv s m (fun _ _ => False)) {o : Nat} {a : Arr}
    (hs : s.arrs[o]? = some a) (ho : isAlive s o = true) (hm : origOf s o = true → 0 < m o) :
    let s1 := releaseSelf s o a
    Inv s1 (fun x => if x = o then m x - 1 else m x) (P3 s1 o) ∧
      (wOf s1 o = false → Inv s1 (fun x => if x = o then m x - 1 else m x) (fun _ _ => False)) ∧
      SameStatic s s1 ∧ s1.holds = s.holds := by
  have haid : a.aid = aidOf s o := by simp [aidOf, hs]
  have hbase : a.base = baseOf s o := by simp [baseOf, hs]
  intro s1
  have hfalse : ∀ {s' : State} {m'} , Inv s' m' (fun _ _ => False) → Inv s' m' (P3 s' o) :=
    fun h => h.mono_pend (fun _ _ h => h.elim)
  cases horig : origOf s o with
  | false =>
    obtain ⟨hw, hc, _⟩ := hI.ro o ho horig
    have : s1 = s := by
      show releaseSelf s o a = s
      unfold releaseSelf
      rw [haid, hc]; simp
    rw [this]
    have hI' : Inv s (fun x => if x = o then m x - 1 else m x) (fun _ _ => False) := by
      refine hI.congr_m ?_
      intro x _ hxo
      have : x ≠ o := fun e => by rw [e, horig] at hxo; cases hxo
      simp [this]
    exact ⟨hfalse hI', fun _ => hI', SameStatic.refl s, rfl⟩
  | true =>
    have hcm := hI.rwCnt o ho horig
    have hpos := hm horig
    by_cases hc1 : cget s.counter (aidOf s o) = 1
    · -- the last lock is released
      have hs1 : s1 = match a.base with
          | none => unlockSelf { s with counter := erase a.aid s.counter } o a
          | some b =>
            if wOf { s with counter := erase a.aid s.counter } b = true then
              unlockSelf { s with counter := erase a.aid s.counter } o a
            else { s with counter := erase a.aid s.counter,
                          waiting := wadd (aidOf { s with counter := erase a.aid s.counter } b) a.aid s.waiting } := by
        show releaseSelf s o a = _
        unfold releaseSelf
        rw [haid, hc1]; simp only [↓reduceIte]
        cases a.base <;> rfl
      rw [hs1]
      cases hb : a.base with
      | none =>
        simp only
        obtain ⟨r1, r2, r3, r4⟩ := unlockSelf_inv hI hs ho horig hc1 (by rw [← hbase, hb]; trivial)
        exact ⟨r1, (fun h => by rw [r2] at h; cases h), r3, r4⟩
      | some b =>
        simp only
        cases hwb : wOf s b with
        | true =>
          have : wOf { s with counter := erase a.aid s.counter } b = true := hwb
          simp only [this, ↓reduceIte]
          obtain ⟨r1, r2, r3, r4⟩ := unlockSelf_inv hI hs ho horig hc1 (by rw [← hbase, hb]; exact hwb)
          exact ⟨r1, (fun h => by rw [r2] at h; cases h), r3, r4⟩
        | false =>
          have : wOf { s with counter := erase a.aid s.counter } b = false := hwb
          simp only [this, Bool.false_eq_true, ↓reduceIte]
          let sW : State := { s with counter := erase a.aid s.counter, waiting := wadd (aidOf s b) a.aid s.waiting }
          have hI' := @inv_wait s sW m hI o b ho horig (by rw [← hbase, hb]) hwb hc1 rfl rfl
            (by intro i; show cget (erase a.aid s.counter) i = _; rw [cget_erase, haid])
            (by
              intro k v
              show v ∈ wget (wadd (aidOf s b) a.aid s.waiting) k ↔ _
              rw [mem_wget_wadd, haid])
          exact ⟨hfalse hI', fun _ => hI', sameStatic_of_arrs (s' := sW) rfl, trivial⟩
    · -- other ops still hold the array
      have hc2 : 2 ≤ cget s.counter (aidOf s o) := by omega
      have hs1 : s1 = { s with counter := insert a.aid (cget s.counter a.aid - 1) s.counter } := by
        show releaseSelf s o a = _
        unfold releaseSelf
        rw [haid]
        have h1 : ¬ cget s.counter (aidOf s o) = 1 := hc1
        have h2 : 1 < cget s.counter (aidOf s o) := by omega
        simp [h1, h2]
      rw [hs1]
      let sD : State := { s with counter := insert a.aid (cget s.counter a.aid - 1) s.counter }
      have hI' := @inv_counter_at s sD m _ hI o ho horig (cget s.counter (aidOf s o) - 1) rfl rfl rfl
        (by intro i; show cget (insert a.aid (cget s.counter a.aid - 1) s.counter) i = _; rw [cget_insert, haid])
        (by omega) (by omega)
      exact ⟨hfalse hI', fun _ => hI', sameStatic_of_arrs (s' := sD) rfl, rfl⟩

/-- `_release_lock_on_arr_writeability` preserves the invariant; the expected hold count of `o` drops by one -/
theorem release_inv {s : State} {m} (hI : Inv s m (fun _ _ => False)) {o : Nat}
    (ho : isAlive s o = true) (hm : origOf s o = true → 0 < m o) :
    Inv (release s o) (fun x => if x = o then m x - 1 else m x) (fun _ _ => False) ∧
      SameStatic s (release s o) ∧ (release s o).holds = s.holds := by
  obtain ⟨a, hs, _⟩ := arr_of_alive ho
  obtain ⟨r1, r2, r3, r4⟩ := releaseSelf_inv hI hs ho hm
  have haid : a.aid = aidOf s o := by simp [aidOf, hs]
  have hbase : a.base = baseOf s o := by simp [baseOf, hs]
  unfold release
  simp only [hs]
  generalize hs1 : releaseSelf s o a = s1 at r1 r2 r3 r4
  by_cases hcond : (a.base.isNone && wOf s1 o && (lookup a.aid s1.waiting).isSome) = true
  · rw [if_pos hcond]
    simp only [Bool.and_eq_true, Option.isNone_iff_eq_none, Option.isSome_iff_exists] at hcond
    obtain ⟨⟨hbn, hw⟩, _⟩ := hcond
    have ho1 : isAlive s1 o = true := by rw [r3.alive]; exact ho
    have haid1 : a.aid = aidOf s1 o := by rw [r3.aid]; exact haid
    obtain ⟨q1, q2, q3⟩ := unlockViews_inv (m := fun x => if x = o then m x - 1 else m x) o a.aid
      (wget s1.waiting a.aid) s1
      (r1.mono_pend (fun b i ⟨h1, _, h3⟩ => ⟨h1, by rw [haid1]; exact h3⟩)) ho1 hw haid1
      (fun v hv => Or.inl hv)
    generalize unlockViews a.aid (wget s1.waiting a.aid) s1 = s2 at q1 q2 q3
    by_cases hemp : (wget s2.waiting a.aid).isEmpty = true
    · rw [if_pos hemp]
      refine ⟨q1.congr_waiting rfl rfl rfl ?_, r3.trans (q2.trans (sameStatic_of_arrs rfl)), by
        show s2.holds = s.holds; rw [q3, r4]⟩
      intro k
      show wget (erase a.aid s2.waiting) k = wget s2.waiting k
      rw [wget_erase]
      by_cases hk : k = a.aid
      · rw [hk]; simp only [↓reduceIte]
        exact (List.isEmpty_iff.mp hemp).symm
      · simp [hk]
    · rw [if_neg hemp]
      exact ⟨q1, r3.trans q2, by rw [q3, r4]⟩
  · rw [if_neg hcond]
    refine ⟨?_, r3, r4⟩
    cases hw : wOf s1 o with
    | false => exact r2 hw
    | true =>
      refine r1.mono_pend ?_
      intro b i ⟨_, h2, h3⟩
      apply hcond
      have hbn : a.base = none := by rw [hbase, ← r3.base]; exact h2
      have hkey : (lookup a.aid s1.waiting).isSome = true := by
        rw [r3.aid, ← haid] at h3
        unfold wget at h3
        cases hl : lookup a.aid s1.waiting with
        | none => rw [hl] at h3; simp at h3
        | some l => rfl
      simp [hbn, hw, hkey]

end MG.Lock
