import MG.Proofs.Lemmas.InPlaceView
/- The converse direction of view semantics: an in-place update on a *base* tensor is seen through its live view.
   (continuation of InPlaceView.lean; same two-placeholder graph, target = the base itself) -/
namespace MG.C04V
open MG.Eng MG.ND MG.C13 MG.C04R

theorem G2_target_b (H : Heap) (b v pb pv : Nat) (a : Arr) : inPlaceTarget H (G2 b v pb pv) b a = .ok (a, []) := by
  unfold inPlaceTarget DupGraph.pathToBase
  show List.foldlM _ _ ((DupGraph.pathToBase.go (G2 b v pb pv) (2 + 1) b).reverse.drop 1) = _
  unfold DupGraph.pathToBase.go
  simp [G2_node_b, G2_base, pure, Except.pure]

/-- the heap after the guarded call on the whole copy and the mirroring of the base (target = the base itself) -/
def stage8b (D : Heap) (b v pb pv : Nat) (kind : Kind) (inputs : List Operand) (vals : List Int) : Heap :=
  let C := copyH D b
  let W := wrapOperands C.1 (inputs.map (phMap2 b v pb pv))
  let R := outRes W.1 kind (userIds (inputs.map (phMap2 b v pb pv))) W.2 C.2 vals
  let h5 := R.1.modT R.2 ({ · with const := (D.t b).const })
  let h7 := mirror h5 b R.2
  { h7 with tens := h7.tens.filter fun q => q.1 ≠ R.2 }

theorem mutate_base2_eq (D : Heap) (b v pb pv : Nat) (kind : Kind) (inputs : List Operand) (vals : List Int)
    (vf : ViewFn) (fc : Option Bool) (shb : Shape) (dv : Desc)
    (h1 : v ≠ b) (hb : b ≠ pb) (hb' : b ≠ pv) (hv : v ≠ pb) (hv' : v ≠ pv)
    (hDb : (D.t b).data.d = Desc.contig 0 shb)
    (hro : D.ro.contains (D.t b).data.buf = false)
    (hph : ∀ i, Operand.t i ∈ inputs → i ≠ pb ∧ i ≠ pv)
    (happ : vf.apply (Desc.contig 0 shb) = .ok (dv, true))
    (hw : let W := wrapOperands (copyH D b).1 (inputs.map (phMap2 b v pb pv))
          outWrite kind (W.2.map fun i => W.1.val (W.1.t i).data) (copyH D b).2.d.shape (W.1.read (copyH D b).2) none
            = .ok vals)
    (hrepV : replayFn (stage8b D b v pb pv kind inputs vals) v = some (vf, fc))
    (hb8 : ((stage8b D b v pb pv kind inputs vals).t b).base = none)
    (hd8 : ((stage8b D b v pb pv kind inputs vals).t b).data.d = Desc.contig 0 shb)
    (hdfs : (G2 b v pb pv).dfs (stage8b D b v pb pv kind inputs vals) = [⟨b, pb, none⟩, ⟨v, pv, some b⟩]) :
    inPlaceMutate D (G2 b v pb pv) b true kind inputs none none =
      .ok (stage12 (stage8b D b v pb pv kind inputs vals) b v vf fc dv) := by
  have hcc : (D.t b).data.d.isCContig = true := by rw [hDb]; exact isCContig_contig 0 shb
  unfold inPlaceMutate
  simp only [G2_base, Heap.copyArrK, hcc, if_true, G2_node_b, Option.isNone_some, Bool.false_eq_true, if_false]
  show (do
    let (target, chain) ← withHeap (copyH D b).1 (inPlaceTarget (copyH D b).1 (G2 b v pb pv) b (copyH D b).2)
    _) = _
  rw [G2_target_b]
  have hro' : (copyH D b).1.ro.contains (D.t b).data.buf = false := hro
  simp only [withHeap, Bind.bind, Except.bind, List.any_nil, hro', Bool.or_self, Bool.false_eq_true, if_false]
  rw [map_phMap2 b v pb pv _ (fun i => rfl) (fun w => rfl) h1 hb hb' hv hv' inputs hph]
  rw [show (D.newArr (D.val (D.t b).data)).fst = (copyH D b).1 from rfl, opStepOut_eq _ _ _ _ _ hw]
  simp only [pure, Except.pure, Bool.false_or, hro', Bool.false_eq_true, if_false, if_true]
  show recreateViews (stage8b D b v pb pv kind inputs vals) ((G2 b v pb pv).dfs (stage8b D b v pb pv kind inputs vals)) = _
  rw [hdfs]
  simp only [recreateViews, List.foldlM_cons, List.foldlM_nil, Bind.bind, Except.bind, hrepV]
  have happ8 : vf.apply ((stage8b D b v pb pv kind inputs vals).t b).data.d = .ok (dv, true) := by rw [hd8]; exact happ
  rw [opStep_view _ vf b fc dv happ8, recordOp_view _ vf b _ fc _ hb8]
  rfl

end MG.C04V

namespace MG.C04V
open MG.Eng MG.ND MG.C13 MG.C04R

theorem stage8b_spec (D : Heap) (b v pb pv : Nat) (kind : Kind) (inputs : List Operand) (vals : List Int)
    (hbl : b < D.next) :
    let H8 := stage8b D b v pb pv kind inputs vals
    let W := (wrapOperands (copyH D b).1 (inputs.map (phMap2 b v pb pv))).1
    (H8.t b).data = (copyH D b).2 ∧ (H8.t b).base = none ∧ (H8.t b).const = (D.t b).const ∧
    (∀ t, t < D.next → t ≠ b → Same4 (H8.t t) (D.t t)) ∧
    (∀ g, g < D.next → (H8.op g).kind = (D.op g).kind ∧ (H8.op g).forceConst = (D.op g).forceConst) ∧
    H8.bufs = (W.write (copyH D b).2 vals).bufs ∧
    D.next + 1 ≤ W.next ∧ H8.next = W.next + 2 ∧ Ext (copyH D b).1 W := by
  intro H8 W
  obtain ⟨cA, cN, cT, cB, cR⟩ := copyH_spec D b
  have eW : Ext (copyH D b).1 W := wrap_ext (inputs.map (phMap2 b v pb pv)) (copyH D b).1
  have eW' := eW
  obtain ⟨eN, eT, eB, eO, eR⟩ := eW
  rw [cN] at eN eT eB
  generalize hR : outRes W kind (userIds (inputs.map (phMap2 b v pb pv)))
      (wrapOperands (copyH D b).1 (inputs.map (phMap2 b v pb pv))).2 (copyH D b).2 vals = R
  have specR := outRes_spec W kind (userIds (inputs.map (phMap2 b v pb pv)))
      (wrapOperands (copyH D b).1 (inputs.map (phMap2 b v pb pv))).2 (copyH D b).2 vals
  have opsR := outRes_ops W kind (userIds (inputs.map (phMap2 b v pb pv)))
      (wrapOperands (copyH D b).1 (inputs.map (phMap2 b v pb pv))).2 (copyH D b).2 vals
  have nextR := outCore_next (W.write (copyH D b).2 vals) kind (userIds (inputs.map (phMap2 b v pb pv)))
      (wrapOperands (copyH D b).1 (inputs.map (phMap2 b v pb pv))).2 (copyH D b).2
  have s4R : ∀ t, t ≠ W.next + 1 → Same4 (R.1.t t) (W.t t) := by
    intro t ht
    rw [← hR]
    exact outCore_same4 (W.write (copyH D b).2 vals) _ _ _ _ t ht
  rw [hR] at specR opsR
  have nR : R.1.next = W.next + 2 := by rw [← hR]; exact nextR.1
  obtain ⟨rId, rB, rD, rBase, rO⟩ := specR
  obtain ⟨_, _, _, rOps⟩ := opsR
  have hH8 : H8 = { (mirror (R.1.modT R.2 ({ · with const := (D.t b).const })) b R.2) with
      tens := (mirror (R.1.modT R.2 ({ · with const := (D.t b).const })) b R.2).tens.filter fun q => q.1 ≠ R.2 } := by
    show stage8b D b v pb pv kind inputs vals = _
    have hR2 := hR
    simp only [W] at hR2
    unfold stage8b
    simp only [hR2]
  have hbo : b ≠ R.2 := by rw [rId]; omega
  have hH8b : H8.t b = (R.1.modT R.2 ({ · with const := (D.t b).const })).t R.2 := by
    rw [hH8, t_filter_ne _ _ _ hbo]; simp only [mirror, t_setT_self]
  refine ⟨?_, ?_, ?_, ?_, ?_, ?_, eN, ?_, eW'⟩
  · rw [hH8b, t_modT_self, rId]; exact rD
  · rw [hH8b, t_modT_self, rId]; exact rBase
  · rw [hH8b, t_modT_self]
  · intro t ht htb
    have hto1 : t ≠ R.2 := by rw [rId]; omega
    have e1 : H8.t t = R.1.t t := by
      rw [hH8, t_filter_ne _ _ _ hto1]; simp only [mirror]
      rw [t_setT_ne _ _ _ _ htb, t_modT_ne _ _ _ _ hto1]
    rw [e1]
    refine (s4R t (by rw [← rId]; exact hto1)).trans ?_
    rw [eT t (by omega), cT]
    exact Same4.rfl' _
  · intro g hg
    have e1 : H8.op g = R.1.op g := by rw [hH8]; rfl
    rw [e1, rOps g (by omega)]
    have : W.op g = D.op g := by simp only [Heap.op, eO]; rfl
    rw [this]
    exact ⟨rfl, rfl⟩
  · have : H8.bufs = R.1.bufs := by rw [hH8]; rfl
    rw [this, rB]
  · have : H8.next = R.1.next := by rw [hH8]; rfl
    rw [this, nR]

end MG.C04V

namespace MG.C04V
open MG.Eng MG.ND MG.C13 MG.C04R

theorem scatter_whole (old vals : List Int) (n : Nat) (ho : old.length = n) (hv : vals.length = n) :
    scatter old ((List.range n).map (0 + ·)) vals = vals := by
  have hnd : ((List.range n).map (0 + ·)).Nodup := nodup_range_map_add 0 n
  have hlen : (scatter old ((List.range n).map (0 + ·)) vals).length = n := by
    unfold scatter; rw [foldl_set_length]; exact ho
  apply List.ext_getElem
  · rw [hlen, hv]
  · intro i h1 h2
    have hi : i < n := by rw [← hlen]; exact h1
    have hpl : ((List.range n).map (0 + ·)).length = n := by simp
    have := foldl_set_getD ((List.range n).map (0 + ·)) vals old hnd (by rw [hv, hpl])
      (by intro p hp; obtain ⟨k, hk, rfl⟩ := List.mem_map.mp hp; rw [ho]; simpa using List.mem_range.mp hk) i (by rw [hpl]; exact hi)
    have hpi : ((List.range n).map (0 + ·)).getD i 0 = i := by
      rw [List.getD_eq_getElem?_getD, List.getElem?_map, List.getElem?_range hi]; simp
    rw [hpi] at this
    unfold scatter
    rw [List.getD_eq_getElem?_getD, List.getElem?_eq_getElem (by
      show i < (List.foldl _ old _).length
      rw [foldl_set_length, ho]; exact hi), List.getD_eq_getElem?_getD, List.getElem?_eq_getElem h2] at this
    simpa using this

end MG.C04V

namespace MG.C04V
open MG.Eng MG.ND MG.C13 MG.C04R

/-- **inplace_on_base_seen_through_view.**  The other direction of view semantics: the in-place update targets the
*base* `b` (which owns C-contiguous, writeable memory) while `v = vf(b)` is its one live view.  If the NumPy-level
statement on `b`'s values yields `vals`, then `_in_place_op` succeeds and, on the same tensor ids, `b` reads `vals`,
`v` is still a view of `b` and reads exactly its window of the new values (`vals` gathered at the window's
positions), flags are kept, every buffer that existed before is unchanged and every other tensor keeps its array
and flag. -/
theorem inplace_on_base_seen_through_view (h : Heap) (roots : List Nat) (b v f bufb : Nat) (shb : Shape)
    (vf : ViewFn) (fc : Option Bool) (dv : Desc) (kind : Kind) (inputs : List Operand) (vals : List Int)
    (hbl : b < h.next) (hvl : v < h.next) (hne : v ≠ b)
    (hbase : (h.t b).base = none) (hvb : (h.t v).base = some b)
    (hcr : (h.t v).creator = some f) (hfl : f < h.next)
    (hkind : (h.op f).kind = .view vf) (hfc : (h.op f).forceConst = fc)
    (hdata : (h.t b).data = ⟨bufb, Desc.contig 0 shb⟩) (hbufb : bufb < h.next)
    (hro : h.ro.contains bufb = false)
    (hcb : (h.t b).vchildren.filter (liveSet h roots).contains = [v])
    (hcv : (h.t v).vchildren.filter (liveSet h roots).contains = [])
    (hdead : ∀ c ∈ (h.t v).vchildren, c ≠ b ∧ c ≠ v ∧ c ≠ h.next ∧ c ≠ h.next + 1)
    (happ : vf.apply (Desc.contig 0 shb) = .ok (dv, true))
    (hin : ∀ p ∈ dv.positions, p < size shb)
    (hwf : ∀ o ∈ inputs, WFop h o)
    (hw : outWrite kind (inputs.map (operandVal h)) shb (h.read (h.t b).data) none = .ok vals)
    (hvll : vals.length = size shb) :
    ∃ h', inPlaceOp h roots b kind inputs = .ok h' ∧
      h'.val (h'.t b).data = (shb, vals) ∧ (h'.t b).base = none ∧ (h'.t b).const = (h.t b).const ∧
      h'.val (h'.t v).data = (dv.shape, dv.positions.map fun p => vals.getD p 0) ∧ (h'.t v).base = some b ∧
      (∀ b', b' < h.next → h'.buf b' = h.buf b') ∧
      (∀ t, t < h.next → t ≠ b → t ≠ v → (h'.t t).data = (h.t t).data ∧ (h'.t t).const = (h.t t).const) := by
  have hpbv : v ≠ h.next := by omega
  have hpbb : b ≠ h.next := by omega
  -- 1. prelude (the target owns its memory)
  have hpre := prelude_owner h (liveSet h roots) b hbase
  have hbN : ((nullGrad h b).t b).base = none ∧ ((nullGrad h b).t b).vchildren = (h.t b).vchildren ∧
      ((nullGrad h b).t b).data = (h.t b).data ∧ ((nullGrad h b).t b).const = (h.t b).const := by
    simp [nullGrad, hbase]
  have hvN : (nullGrad h b).t v = h.t v := nullGrad_t_ne h b v hne
  -- 2. the placeholder graph
  have hdupG := mkDupGraph_one_view (nullGrad h b) (liveSet h roots) b v hbN.1 (by rw [hvN]; exact hvb) hne hbl hvl
    (by rw [hbN.2.1]; exact hcb) (by rw [hvN]; exact hcv)
  have hnn : (nullGrad h b).next = h.next := rfl
  rw [hnn] at hdupG
  obtain ⟨dB, dN, dR, dT, dTb, dTv, dTpb, dTpv⟩ := dup2_spec (nullGrad h b) b v hne hbl hvl
  rw [hnn] at dN dT dTpb dTpv
  generalize hD : dup2 (nullGrad h b) b v = D at hdupG dB dN dR dT dTb dTv dTpb dTpv
  have hDb : (D.t b).data = ⟨bufb, Desc.contig 0 shb⟩ ∧ (D.t b).const = (h.t b).const := by
    rw [dTb]; simp [nullGrad, hdata]
  have hDv : (D.t v).data = (h.t v).data ∧ (D.t v).const = (h.t v).const ∧ (D.t v).creator = some f := by
    rw [dTv]; unfold nullGrad; simp only [t_modT_self]; rw [t_modT_ne _ _ _ _ hne]; exact ⟨rfl, rfl, hcr⟩
  have hDold : ∀ t, t < h.next → t ≠ b → t ≠ v → D.t t = h.t t := by
    intro t ht h1 h2
    rw [dT t (by omega) (by omega) h1 h2, nullGrad_t_ne _ _ _ h1]
  have hDbuf : ∀ x, D.buf x = h.buf x := fun x => by simp only [Heap.buf, dB]; rfl
  have hDdata : ∀ t, t < h.next → (D.t t).data = (h.t t).data ∧ (D.t t).const = (h.t t).const := by
    intro t ht
    by_cases e1 : t = b
    · subst e1; rw [hDb.1, hDb.2, hdata]; exact ⟨rfl, rfl⟩
    · by_cases e2 : t = v
      · subst e2; exact ⟨hDv.1, hDv.2.1⟩
      · rw [hDold t ht e1 e2]; exact ⟨rfl, rfl⟩
  have hDpvd : (D.t (h.next + 1)).data = (h.t v).data := by
    rw [dTpv]; unfold nullGrad; simp only [t_modT_self]; rw [t_modT_ne _ _ _ _ hne]
  have hDpbd : (D.t h.next).data = (h.t b).data := by rw [dTpb]; simp [nullGrad]
  have hDpvv : (D.t (h.next + 1)).vchildren = (h.t v).vchildren := by
    rw [dTpv]; unfold nullGrad; simp only [t_modT_self]; rw [t_modT_ne _ _ _ _ hne]
  have hDpbv : (D.t h.next).vchildren = [h.next + 1] := by rw [dTpb]
  -- 3. the copy and the operands
  obtain ⟨cA, cN, cT, cB, cR⟩ := copyH_spec D b
  rw [dN] at cN cB cR
  have hcA : (copyH D b).2 = ⟨h.next + 2, Desc.contig 0 shb⟩ := by rw [cA, dN, hDb.1]; rfl
  have hphid : ∀ i, Operand.t i ∈ inputs → i ≠ h.next ∧ i ≠ h.next + 1 := fun i hi => by
    have := (hwf _ hi).1; exact ⟨by omega, by omega⟩
  have hmapd : ∀ i, i < h.next →
      ((copyH D b).1.t (if i = b then h.next else if i = v then h.next + 1 else i)).data = (h.t i).data := by
    intro i hi
    rw [cT]
    by_cases e1 : i = b
    · subst e1; simp only [if_true]; exact hDpbd
    · by_cases e2 : i = v
      · subst e2; simp only [e1, if_false, if_true]; exact hDpvd
      · simp only [e1, e2, if_false]; exact (hDdata i hi).1
  have hwfC : ∀ o ∈ inputs.map (phMap2 b v h.next (h.next + 1)), WFop (copyH D b).1 o := by
    intro o ho
    obtain ⟨o0, ho0, rfl⟩ := List.mem_map.mp ho
    cases o0 with
    | lit w => exact hwf _ ho0
    | t i =>
      obtain ⟨i1, i2⟩ := hwf _ ho0
      show (if i = b then h.next else if i = v then h.next + 1 else i) < (copyH D b).1.next ∧
        ((copyH D b).1.t (if i = b then h.next else if i = v then h.next + 1 else i)).data.buf < _
      rw [hmapd i i1, cN]
      refine ⟨?_, by omega⟩
      split
      · omega
      · split <;> omega
  have hvalC : (inputs.map (phMap2 b v h.next (h.next + 1))).map (operandVal (copyH D b).1) = inputs.map (operandVal h) := by
    rw [List.map_map]
    apply List.map_congr_left
    intro o ho
    cases o with
    | lit w => rfl
    | t i =>
      obtain ⟨i1, i2⟩ := hwf _ ho
      show (copyH D b).1.val ((copyH D b).1.t (if i = b then h.next else if i = v then h.next + 1 else i)).data
        = h.val (h.t i).data
      rw [hmapd i i1]
      have hb1 : (h.t i).data.buf ≠ h.next + 2 := by omega
      rw [val_congr D _ _ (cB _ hb1), val_congr h _ _ (hDbuf _)]
  obtain ⟨wv, _⟩ := wrap_vals (inputs.map (phMap2 b v h.next (h.next + 1))) (copyH D b).1 hwfC
  -- 4. the stage heap
  obtain ⟨s8d, s8b, s8c, s8t, s8o, s8bufs, s8n1, s8n, s8ext⟩ :=
    stage8b_spec D b v h.next (h.next + 1) kind inputs vals (by rw [dN]; omega)
  rw [dN] at s8t s8o s8n1
  generalize hW : (wrapOperands (copyH D b).1 (inputs.map (phMap2 b v h.next (h.next + 1)))).1 = W
    at wv s8bufs s8n1 s8n s8ext
  generalize hH8 : stage8b D b v h.next (h.next + 1) kind inputs vals = H8 at s8d s8b s8c s8t s8o s8bufs s8n
  obtain ⟨eN, eT, eB, eO, eR⟩ := s8ext
  rw [cN] at eN eT eB
  have hWcopy : W.buf (h.next + 2) = h.read (h.t b).data := by
    rw [eB _ (by omega), cR, hDb.1, hdata]
    simp only [Heap.read, hDbuf]
  have hlenb : (h.read (h.t b).data).length = size shb := by rw [read_length, hdata]; rfl
  have hreadT : W.read ⟨h.next + 2, Desc.contig 0 shb⟩ = h.read (h.t b).data := by
    rw [read_contig_whole W (h.next + 2) shb (by rw [hWcopy]; exact hlenb), hWcopy]
  have hw' : (let W' := wrapOperands (copyH D b).1 (inputs.map (phMap2 b v h.next (h.next + 1)))
      outWrite kind (W'.2.map fun i => W'.1.val (W'.1.t i).data) (copyH D b).2.d.shape (W'.1.read (copyH D b).2) none
        = .ok vals) := by
    simp only
    rw [hW, wv, hvalC, hcA, hreadT]; exact hw
  have hrepV : replayFn H8 v = some (vf, fc) := by
    unfold replayFn
    have s4 := s8t v (by omega) hne
    rw [s4.creator, hDv.2.2]
    simp only
    obtain ⟨k8, c8⟩ := s8o f (by omega)
    obtain ⟨k, c⟩ := dup2_op_fields (nullGrad h b) b v f
    have hopf : (H8.op f).kind = .view vf ∧ (H8.op f).forceConst = fc := by
      rw [k8, c8, ← hD, k, c]
      exact ⟨hkind, hfc⟩
    rw [hopf.1, hopf.2]
  have hd8 : (H8.t b).data.d = Desc.contig 0 shb := by rw [s8d, hcA]
  have hdfs : (G2 b v h.next (h.next + 1)).dfs H8 = [⟨b, h.next, none⟩, ⟨v, h.next + 1, some b⟩] := by
    apply dfs_two H8 b v h.next (h.next + 1) hpbb (by omega) (by omega) (by omega)
    · rw [(s8t h.next (by omega) (Ne.symm hpbb)).vchildren, hDpbv]
    · rw [(s8t (h.next + 1) (by omega) (by omega)).vchildren, hDpvv]
      exact hdead
  have hroD : D.ro.contains (D.t b).data.buf = false := by rw [hDb.1, dR]; exact hro
  have hmut := mutate_base2_eq D b v h.next (h.next + 1) kind inputs vals vf fc shb dv hne hpbb (by omega) hpbv (by omega)
    (by rw [hDb.1]) hroD hphid happ hw' (by rw [hH8]; exact hrepV) (by rw [hH8]; exact s8b)
    (by rw [hH8]; exact hd8) (by rw [hH8]; exact hdfs)
  rw [hH8] at hmut
  -- 5. the final heap
  have hbl8 : b < H8.next := by rw [s8n]; omega
  have hvl8 : v < H8.next := by rw [s8n]; omega
  obtain ⟨fv, fbd, fbc, fbb, ft, fbufs⟩ := stage12_spec H8 b v vf fc dv hne hbl8 hvl8
  generalize hF : stage12 H8 b v vf fc dv = F at hmut fv fbd fbc fbb ft fbufs
  have hFbuf : ∀ x, F.buf x = (W.write ⟨h.next + 2, Desc.contig 0 shb⟩ vals).buf x := by
    intro x; simp only [Heap.buf, fbufs, s8bufs, hcA]
  have hFcopy : F.buf (h.next + 2) = vals := by
    rw [hFbuf, buf_write W ⟨h.next + 2, Desc.contig 0 shb⟩ vals, hWcopy]
    show scatter _ (Desc.contig 0 shb).positions vals = _
    rw [positions_contig, scatter_whole _ _ _ hlenb hvll]
  refine ⟨F, ?_, ?_, ?_, ?_, ?_, ?_, ?_, ?_⟩
  · unfold inPlaceOp
    simp only [hpre, hbN.1, Option.isNone_none, Option.getD_none]
    rw [hdupG]
    exact hmut
  · simp only [Heap.val, fbd, s8d, hcA]
    rw [read_contig_whole F (h.next + 2) shb (by rw [hFcopy]; exact hvll), hFcopy]
    rfl
  · rw [fbb]; exact s8b
  · rw [fbc, s8c]; exact hDb.2
  · rw [fv]
    simp only [Heap.val, s8d, hcA, Heap.read, hFcopy]
  · rw [fv]
  · intro b' hb'
    rw [hFbuf, write_frames_buffer W ⟨h.next + 2, Desc.contig 0 shb⟩ vals b' (by show b' ≠ h.next + 2; omega),
      eB b' (by omega), cB b' (by omega)]
    exact hDbuf b'
  · intro t ht h1 h2
    have ht8 : t ≠ H8.next + 1 := by rw [s8n]; omega
    rw [ft t h1 h2 ht8]
    have s4 := s8t t (by omega) h1
    rw [s4.data, s4.const]
    exact hDdata t ht

end MG.C04V

namespace MG.C04V
open MG.Eng MG.ND MG.C13 MG.C04R

/-- the premises of `inplace_on_base_seen_through_view` are satisfiable, and the conclusion is what the executable
model computes: `x *= 10` on `x = [3, 4, 5]` while `v = x[0:2]` is alive -/
example :
    (vHeap.t 0).base = none ∧ (vHeap.t 7).base = some 0 ∧ (vHeap.t 7).creator = some 6 ∧
    (vHeap.op 6).kind = .view (.getitem [.slice (some 0) (some 2) 1]) ∧
    (vHeap.t 0).data = ⟨5, Desc.contig 0 [3]⟩ ∧ vHeap.ro.contains 5 = false ∧
    (vHeap.t 0).vchildren.filter (liveSet vHeap [0, 7]).contains = [7] ∧
    (vHeap.t 7).vchildren.filter (liveSet vHeap [0, 7]).contains = [] ∧
    (ViewFn.getitem [.slice (some 0) (some 2) 1]).apply (Desc.contig 0 [3]) = .ok (⟨0, [2], [1]⟩, true) ∧
    (⟨0, [2], [1]⟩ : Desc).positions = [0, 1] ∧
    outWrite .mul ([Operand.t 0, Operand.lit ([], [10])].map (operandVal vHeap)) [3] (vHeap.read (vHeap.t 0).data) none
      = .ok [30, 40, 50] ∧
    (match inPlaceOp vHeap [0, 7] 0 .mul [.t 0, .lit ([], [10])] with
      | .ok h' => h'.val (h'.t 0).data == ([3], [30, 40, 50]) && h'.val (h'.t 7).data == ([2], [30, 40]) &&
          (h'.t 7).base == some 0 && (h'.t 0).base.isNone
      | .error _ => false) = true := by
  refine ⟨rfl, rfl, rfl, rfl, rfl, rfl, rfl, rfl, rfl, rfl, rfl, rfl⟩

end MG.C04V
