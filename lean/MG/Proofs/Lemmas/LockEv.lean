import MG.Proofs.Lemmas.LockLoop
/-! Helper lemmas for C08: every event preserves the global invariant. -/
namespace MG.Lock

/-- the global invariant: the table invariant with the live holds as expected counts, and every ref in range -/
structure GInv (s : State) : Prop where
  inv : Inv s (cntH s.holds) F
  bound : ∀ h ∈ s.holds, ∀ x ∈ h, x < s.arrs.length

theorem cntH_zero_of_bound (hs : List (List Nat)) (n : Nat) (hb : ∀ h ∈ hs, ∀ x ∈ h, x < n) (o : Nat) (ho : n ≤ o) :
    cntH hs o = 0 := by
  induction hs with
  | nil => rfl
  | cons h hs ih =>
    simp only [cntH]
    have h1 : h.count o = 0 := by
      apply List.count_eq_zero.mpr
      intro hm
      have := hb h (List.mem_cons_self ..) o hm
      omega
    rw [h1, ih (fun h' hh' => hb h' (List.mem_cons_of_mem _ hh'))]

theorem cntH_pos_mem {hs : List (List Nat)} {o : Nat} (h : 0 < cntH hs o) : ∃ l ∈ hs, o ∈ l := by
  induction hs with
  | nil => simp [cntH] at h
  | cons x xs ih =>
    simp only [cntH] at h
    by_cases hx : 0 < x.count o
    · exact ⟨x, List.mem_cons_self .., List.count_pos_iff.mp hx⟩
    · obtain ⟨l, hl, ho⟩ := ih (by omega)
      exact ⟨l, List.mem_cons_of_mem _ hl, ho⟩

theorem cntH_pos_of_mem {hs : List (List Nat)} {o : Nat} {l : List Nat} (hl : l ∈ hs) (ho : o ∈ l) :
    0 < cntH hs o := by
  induction hs with
  | nil => simp at hl
  | cons x xs ih =>
    simp only [cntH]
    rcases List.mem_cons.mp hl with h | h
    · subst h
      have := List.count_pos_iff.mpr ho
      omega
    · have := ih h
      omega

theorem Inv.congr_holds {s : State} {m P} (hI : Inv s m P) (hs' : List (List Nat)) :
    Inv { s with holds := hs' } m P :=
  ⟨hI.aidInj, hI.baseOk, hI.trkAid, hI.trkUniq, hI.waitOk, hI.ro, hI.rwCnt, hI.rwLocked, hI.rwFree, hI.rwWait,
    hI.trkLt⟩

/-! ### a new array -/

section newArr
variable (s : State) (n : Arr)

theorem get_push (x : Nat) :
    (s.arrs ++ [n])[x]? = if x < s.arrs.length then s.arrs[x]? else if x = s.arrs.length then some n else none := by
  by_cases h : x < s.arrs.length
  · simp [h, List.getElem?_append_left h]
  · simp only [h, ↓reduceIte]
    rw [List.getElem?_append_right (by omega)]
    by_cases h2 : x = s.arrs.length
    · simp [h2]
    · have : x - s.arrs.length ≠ 0 := by omega
      simp only [h2, ↓reduceIte]
      cases hk : x - s.arrs.length with
      | zero => omega
      | succ k => simp

def push : State := { s with arrs := s.arrs ++ [n] }

theorem isAlive_push (x : Nat) : isAlive (push s n) x =
    if x < s.arrs.length then isAlive s x else if x = s.arrs.length then n.alive else false := by
  unfold isAlive push
  simp only [get_push]
  by_cases h : x < s.arrs.length
  · simp [h]
  · by_cases h2 : x = s.arrs.length
    · simp [h2]
    · simp [h, h2]

theorem acc_push_old (x : Nat) (h : x < s.arrs.length) :
    isAlive (push s n) x = isAlive s x ∧ aidOf (push s n) x = aidOf s x ∧ baseOf (push s n) x = baseOf s x ∧
    origOf (push s n) x = origOf s x ∧ wOf (push s n) x = wOf s x ∧ enteredOf (push s n) x = enteredOf s x := by
  unfold isAlive aidOf baseOf origOf wOf enteredOf push
  simp only [get_push, h, ↓reduceIte, and_self]

theorem acc_push_new :
    isAlive (push s n) s.arrs.length = n.alive ∧ aidOf (push s n) s.arrs.length = n.aid ∧
    baseOf (push s n) s.arrs.length = n.base ∧ origOf (push s n) s.arrs.length = n.orig ∧
    wOf (push s n) s.arrs.length = n.writeable ∧ enteredOf (push s n) s.arrs.length = n.entered := by
  unfold isAlive aidOf baseOf origOf wOf enteredOf push
  simp [get_push]

theorem alive_push_cases {x : Nat} (h : isAlive (push s n) x = true) :
    (x < s.arrs.length ∧ isAlive s x = true) ∨ x = s.arrs.length := by
  rw [isAlive_push] at h
  by_cases h1 : x < s.arrs.length
  · simp only [h1, ↓reduceIte] at h; exact Or.inl ⟨h1, h⟩
  · by_cases h2 : x = s.arrs.length
    · exact Or.inr h2
    · simp [h1, h2] at h

end newArr

theorem aidInUse_false {s : State} {aid : Nat} (h : aidInUse s aid = false) :
    ∀ x, isAlive s x = true → aidOf s x ≠ aid := by
  intro x hx e
  obtain ⟨a, hs, ha⟩ := arr_of_alive hx
  have haid : a.aid = aid := by rw [← e]; simp [aidOf, hs]
  unfold aidInUse at h
  have hm : a ∈ s.arrs := List.mem_of_getElem? hs
  have : (s.arrs.any fun a => a.alive && a.aid == aid) = true :=
    List.any_eq_true.mpr ⟨a, hm, by simp [ha, haid]⟩
  rw [this] at h; cases h

theorem mem_wget_exists {m : Tab (List Nat)} {k v : Nat} (h : v ∈ wget m k) : ∃ p ∈ m, v ∈ p.2 := by
  induction m with
  | nil => simp at h
  | cons p m ih =>
    obtain ⟨q, l⟩ := p
    unfold wget at h
    simp only [lookup] at h
    by_cases hq : q = k
    · simp only [hq, ↓reduceIte, Option.getD_some] at h
      exact ⟨(q, l), List.mem_cons_self .., h⟩
    · simp only [hq, ↓reduceIte] at h
      obtain ⟨p, hp, hv⟩ := ih h
      exact ⟨p, List.mem_cons_of_mem _ hp, hv⟩

theorem aidClean_facts {s : State} {aid : Nat} (h : aidClean s aid = true) :
    cget s.counter aid = 0 ∧ lookup aid s.tracker = none ∧ ∀ k, aid ∉ wget s.waiting k := by
  unfold aidClean at h
  simp only [Bool.and_eq_true, Option.isNone_iff_eq_none, List.all_eq_true, Bool.not_eq_eq_eq_not,
    Bool.not_true] at h
  obtain ⟨⟨⟨h1, h2⟩, _⟩, h4⟩ := h
  refine ⟨by simp [cget, h1], h2, ?_⟩
  intro k hk
  obtain ⟨p, hp, hv⟩ := mem_wget_exists hk
  have := h4 p hp
  simp [hv] at this

/-- a new array object (possibly at a re-used, but clean, address) -/
theorem newArr_inv {s : State} (hG : GInv s) (aid : Nat) (base : Option Nat) (w orig : Bool)
    (hfree : aidInUse s aid = false)
    (hbase : match base with
             | none => w = orig
             | some b => isAlive s b = true ∧ baseOf s b = none ∧ orig = origOf s b)
    (hro : orig = false → w = false)
    (hclean : aidClean s aid = true) :
    GInv (push s ⟨aid, base, w, true, orig, false⟩) := by
  obtain ⟨hI, hB⟩ := hG
  obtain ⟨hc0, ht0, hw0⟩ := aidClean_facts hclean
  have hnew := acc_push_new s ⟨aid, base, w, true, orig, false⟩
  simp only at hnew
  obtain ⟨nA, nAid, nBase, nOrig, nW, nE⟩ := hnew
  have hold := acc_push_old s ⟨aid, base, w, true, orig, false⟩
  have hcases := @alive_push_cases s ⟨aid, base, w, true, orig, false⟩
  have hfresh := aidInUse_false hfree
  generalize hs' : push s ⟨aid, base, w, true, orig, false⟩ = s' at *
  have hcnt : s'.counter = s.counter := by rw [← hs']; rfl
  have htrk : s'.tracker = s.tracker := by rw [← hs']; rfl
  have hwt : s'.waiting = s.waiting := by rw [← hs']; rfl
  have hhd : s'.holds = s.holds := by rw [← hs']; rfl
  have hlen : s'.arrs.length = s.arrs.length + 1 := by rw [← hs']; simp [push]
  have hm0 : cntH s.holds s.arrs.length = 0 := cntH_zero_of_bound _ _ hB _ (Nat.le_refl _)
  refine ⟨?_, ?_⟩
  · rw [hhd]
    constructor
    · intro o1 o2 h1 h2 e
      rcases hcases h1 with ⟨l1, a1⟩ | e1 <;> rcases hcases h2 with ⟨l2, a2⟩ | e2
      · rw [(hold o1 l1).2.1, (hold o2 l2).2.1] at e; exact hI.aidInj o1 o2 a1 a2 e
      · rw [(hold o1 l1).2.1, e2, nAid] at e; exact absurd e (hfresh o1 a1)
      · rw [(hold o2 l2).2.1, e1, nAid] at e; exact absurd e.symm (hfresh o2 a2)
      · rw [e1, e2]
    · intro x b hx hb
      rcases hcases hx with ⟨l1, a1⟩ | e1
      · rw [(hold x l1).2.2.1] at hb
        obtain ⟨r1, r2, r3⟩ := hI.baseOk x b a1 hb
        have lb := isAlive_lt r1
        rw [(hold b lb).1, (hold b lb).2.2.1, (hold b lb).2.2.2.1, (hold x l1).2.2.2.1]
        exact ⟨r1, r2, r3⟩
      · rw [e1, nBase] at hb
        rw [hb] at hbase
        obtain ⟨r1, r2, r3⟩ := hbase
        have lb := isAlive_lt r1
        rw [(hold b lb).1, (hold b lb).2.2.1, (hold b lb).2.2.2.1, e1, nOrig]
        exact ⟨r1, r2, r3.symm⟩
    · intro i t hl hta
      rw [htrk] at hl
      rcases hcases hta with ⟨l1, a1⟩ | e1
      · rw [(hold t l1).2.1]; exact hI.trkAid i t hl a1
      · exfalso
        have := hI.trkLt i t hl
        omega
    · intro i t x hl hx hxa
      rw [htrk] at hl
      rcases hcases hx with ⟨l1, a1⟩ | e1
      · rw [(hold x l1).2.1] at hxa; exact hI.trkUniq i t x hl a1 hxa
      · rw [e1, nAid] at hxa
        rw [← hxa, ht0] at hl; cases hl
    · intro k v x hv hx hxa
      rw [hwt] at hv
      rcases hcases hx with ⟨l1, a1⟩ | e1
      · rw [(hold x l1).2.1] at hxa
        obtain ⟨b, hb1, hb2⟩ := hI.waitOk k v x hv a1 hxa
        have lb := isAlive_lt (hI.baseOk x b a1 hb1).1
        exact ⟨b, by rw [(hold x l1).2.2.1]; exact hb1, by rw [(hold b lb).2.1]; exact hb2⟩
      · rw [e1, nAid] at hxa
        rw [← hxa] at hv
        exact absurd hv (hw0 k)
    · intro x hx hxo
      rcases hcases hx with ⟨l1, a1⟩ | e1
      · rw [(hold x l1).2.2.2.1] at hxo
        rw [(hold x l1).2.1, (hold x l1).2.2.2.2.1, hcnt, htrk]
        exact hI.ro x a1 hxo
      · rw [e1, nOrig] at hxo
        rw [e1, nAid, nW, hcnt, htrk]
        exact ⟨hro hxo, hc0, ht0⟩
    · intro x hx hxo
      rcases hcases hx with ⟨l1, a1⟩ | e1
      · rw [(hold x l1).2.2.2.1] at hxo
        rw [(hold x l1).2.1, hcnt]
        exact hI.rwCnt x a1 hxo
      · rw [e1, nAid, hcnt, hc0, hm0]
    · intro x hx hxo
      rcases hcases hx with ⟨l1, a1⟩ | e1
      · rw [(hold x l1).2.2.2.1] at hxo
        rw [(hold x l1).2.1, (hold x l1).2.2.2.2.1, hcnt, htrk]
        exact hI.rwLocked x a1 hxo
      · rw [e1, nAid, hcnt, hc0]; intro h; omega
    · intro x hx hxo
      rcases hcases hx with ⟨l1, a1⟩ | e1
      · rw [(hold x l1).2.2.2.1] at hxo
        rw [(hold x l1).2.1, (hold x l1).2.2.2.2.1, (hold x l1).2.2.2.2.2, (hold x l1).2.2.1, htrk]
        exact hI.rwFree x a1 hxo
      · rw [e1, nOrig] at hxo
        rw [e1, nW, nE, nBase]
        intro _ h
        rcases h with h | h
        · cases h
        · rw [h] at hbase; rw [hbase, hxo]
    · intro x hx hxo
      rcases hcases hx with ⟨l1, a1⟩ | e1
      · rw [(hold x l1).2.2.2.1] at hxo
        rw [(hold x l1).2.1, (hold x l1).2.2.2.2.1, (hold x l1).2.2.1, hcnt, htrk, hwt]
        intro h1 h2
        obtain ⟨q0, b, q1, q2, q3⟩ := hI.rwWait x a1 hxo h1 h2
        have lb := isAlive_lt (hI.baseOk x b a1 q1).1
        exact ⟨q0, b, q1, by rw [(hold b lb).2.1]; exact q2, by rw [(hold b lb).2.1]; exact q3⟩
      · rw [e1, nAid, htrk, ht0]; intro h; cases h
    · intro i t hl
      rw [htrk] at hl
      have := hI.trkLt i t hl
      omega
  · intro h hh x hx
    rw [hhd] at hh
    have := hB h hh x hx
    omega

/-! ### an array dies -/

def killf : Arr → Arr := fun a => { a with alive := false }

theorem acc_kill (s : State) (o x : Nat) :
    aidOf (modArr s o killf) x = aidOf s x ∧ baseOf (modArr s o killf) x = baseOf s x ∧
    origOf (modArr s o killf) x = origOf s x ∧ wOf (modArr s o killf) x = wOf s x ∧
    enteredOf (modArr s o killf) x = enteredOf s x ∧
    isAlive (modArr s o killf) x = (if x = o then false else isAlive s x) := by
  unfold aidOf baseOf origOf wOf enteredOf isAlive
  rw [get_modArr]
  by_cases h : x = o
  · subst h
    cases s.arrs[x]? <;> simp [killf]
  · simp [h]

theorem hasAliveView_false {s : State} {o : Nat} (h : hasAliveView s o = false) :
    ∀ x, isAlive s x = true → baseOf s x ≠ some o := by
  intro x hx e
  obtain ⟨a, hs, ha⟩ := arr_of_alive hx
  have hb : a.base = some o := by rw [← e]; simp [baseOf, hs]
  unfold hasAliveView at h
  have hm : a ∈ s.arrs := List.mem_of_getElem? hs
  have : (s.arrs.any fun a => a.alive && a.base == some o) = true :=
    List.any_eq_true.mpr ⟨a, hm, by simp [ha, hb]⟩
  rw [this] at h; cases h

theorem die_inv {s : State} {m P} (hI : Inv s m P) {o : Nat} (hnv : ∀ x, isAlive s x = true → baseOf s x ≠ some o) :
    Inv (modArr s o killf) m P := by
  have hA := acc_kill s o
  have halive : ∀ x, isAlive (modArr s o killf) x = true → isAlive s x = true ∧ x ≠ o := by
    intro x hx
    rw [(hA x).2.2.2.2.2] at hx
    by_cases h : x = o
    · simp [h] at hx
    · simp only [h, ↓reduceIte] at hx; exact ⟨hx, h⟩
  constructor
  · intro o1 o2 h1 h2 e
    rw [(hA o1).1, (hA o2).1] at e
    exact hI.aidInj o1 o2 (halive o1 h1).1 (halive o2 h2).1 e
  · intro x b hx hb
    obtain ⟨hx', _⟩ := halive x hx
    rw [(hA x).2.1] at hb
    obtain ⟨r1, r2, r3⟩ := hI.baseOk x b hx' hb
    have hbo : b ≠ o := fun e => hnv x hx' (by rw [hb, e])
    rw [(hA b).2.2.2.2.2, (hA b).2.1, (hA b).2.2.1, (hA x).2.2.1]
    simp only [hbo, ↓reduceIte]
    exact ⟨r1, r2, r3⟩
  · intro i t hl hta
    rw [(hA t).1]
    exact hI.trkAid i t hl (halive t hta).1
  · intro i t x hl hx hxa
    rw [(hA x).1] at hxa
    exact hI.trkUniq i t x hl (halive x hx).1 hxa
  · intro k v x hv hx hxa
    rw [(hA x).1] at hxa
    obtain ⟨b, hb1, hb2⟩ := hI.waitOk k v x hv (halive x hx).1 hxa
    exact ⟨b, by rw [(hA x).2.1]; exact hb1, by rw [(hA b).1]; exact hb2⟩
  · intro x hx hxo
    rw [(hA x).2.2.1] at hxo
    rw [(hA x).1, (hA x).2.2.2.1]
    exact hI.ro x (halive x hx).1 hxo
  · intro x hx hxo
    rw [(hA x).2.2.1] at hxo
    rw [(hA x).1]
    exact hI.rwCnt x (halive x hx).1 hxo
  · intro x hx hxo
    rw [(hA x).2.2.1] at hxo
    rw [(hA x).1, (hA x).2.2.2.1]
    exact hI.rwLocked x (halive x hx).1 hxo
  · intro x hx hxo
    rw [(hA x).2.2.1] at hxo
    rw [(hA x).1, (hA x).2.2.2.1, (hA x).2.2.2.2.1, (hA x).2.1]
    exact hI.rwFree x (halive x hx).1 hxo
  · intro x hx hxo
    rw [(hA x).2.2.1] at hxo
    rw [(hA x).1, (hA x).2.2.2.1, (hA x).2.1]
    intro h1 h2
    obtain ⟨q0, b, q1, q2, q3⟩ := hI.rwWait x (halive x hx).1 hxo h1 h2
    exact ⟨q0, b, q1, by rw [(hA b).1]; exact q2, by rw [(hA b).1]; exact q3⟩
  · intro i t hl
    rw [length_modArr]
    exact hI.trkLt i t hl

/-! ### the op events -/

theorem outsOk_lockOK (s : State) : ∀ (outs refs seen : List Nat), (∀ y, y ∈ refs → y ∈ seen) →
    outsOk s refs outs = true → LockOK s seen outs := by
  intro outs
  induction outs with
  | nil => intros; trivial
  | cons o os ih =>
    intro refs seen hsub h
    unfold outsOk at h
    simp only [Bool.and_eq_true] at h
    obtain ⟨h1, h2⟩ := h
    refine ⟨?_, ih (refs ++ [o]) (o :: seen) ?_ h2⟩
    · cases hs : s.arrs[o]? with
      | none => simp [hs] at h1
      | some a =>
        simp only [hs, Bool.or_eq_true] at h1
        rcases h1 with (h1 | h1) | h1
        · exact Or.inl (by simp [wOf, hs, h1])
        · exact Or.inr (Or.inr (Or.inl (by simpa [baseOf, hs] using h1)))
        · cases hb : a.base with
          | none => exact Or.inr (Or.inr (Or.inl (by simp [baseOf, hs, hb])))
          | some b =>
            rw [hb] at h1
            have : b ∈ refs := by simpa using h1
            exact Or.inr (Or.inr (Or.inr ⟨b, by simp [baseOf, hs, hb], hsub b this⟩))
    · intro y hy
      rcases List.mem_append.mp hy with h | h
      · exact List.mem_cons_of_mem _ (hsub y h)
      · have : y = o := by simpa using h
        rw [this]; exact List.mem_cons_self ..

theorem all_alive {s : State} {l : List Nat} (h : l.all (isAlive s) = true) : ∀ x ∈ l, isAlive s x = true := by
  intro x hx
  exact (List.all_eq_true.mp h) x hx

theorem opCreated_ginv {s : State} (hG : GInv s) (ins : List Nat) (hal : ins.all (isAlive s) = true) :
    GInv { lockAll (uniqueArrsAndBases s ins) s with
           holds := (lockAll (uniqueArrsAndBases s ins) s).holds ++ [uniqueArrsAndBases s ins] } := by
  obtain ⟨hOK, hua⟩ := uniq_ok hG.inv ins (all_alive hal)
  generalize uniqueArrsAndBases s ins = u at *
  obtain ⟨r1, r2, r3, _, _⟩ := lockAll_inv (P := F) s u s (cntH s.holds) [] (SameStatic.refl s) hG.inv hua
    (fun y _ _ h => Or.inl h) (fun y hy => by simp at hy) hOK
  constructor
  · refine (r1.congr_holds _).congr_m ?_
    intro x _ _
    show cntH ((lockAll u s).holds ++ [u]) x = cntH s.holds x + u.count x
    rw [r3, cntH_append]
  · intro h hh x hx
    show x < (lockAll u s).arrs.length
    rw [r2.len]
    have hh' : h ∈ (lockAll u s).holds ++ [u] := hh
    rw [r3] at hh'
    rcases List.mem_append.mp hh' with h1 | h1
    · exact hG.bound h h1 x hx
    · have : h = u := by simpa using h1
      rw [this] at hx
      exact isAlive_lt (hua x hx)

theorem opFinalized_ginv {s : State} (hG : GInv s) (k : Nat) (h : List Nat) (hk : s.holds[k]? = some h) :
    GInv (releaseOnOp h { s with holds := s.holds.eraseIdx k }) := by
  have h0 : Inv { s with holds := s.holds.eraseIdx k } (fun x => cntH (s.holds.eraseIdx k) x + h.count x) F := by
    refine (hG.inv.congr_holds _).congr_m ?_
    intro x _ _
    exact (cntH_eraseIdx s.holds k h x hk).symm
  obtain ⟨r1, r2, r3⟩ := releaseOnOp_inv h _ _ h0
  constructor
  · rw [r3]; exact r1
  · intro h' hh' x hx
    rw [r3] at hh'
    rw [r2.len]
    exact hG.bound h' (List.mem_of_mem_eraseIdx hh') x hx

theorem opExtend_ginv {s : State} (hG : GInv s) (k : Nat) (h outs : List Nat) (forced : Option Nat)
    (hk : s.holds[k]? = some h) (hal : (outs ++ forced.toList).all (isAlive s) = true)
    (hOuts : outsOk s h outs = true)
    (hForce : ∀ o, forced = some o → origOf s o = true) :
    GInv { lockForced (lockAll outs s) forced with
           holds := (lockForced (lockAll outs s) forced).holds.set k (h ++ (outs ++ forced.toList)) } := by
  have hal' := all_alive hal
  have hmem : h ∈ s.holds := List.mem_of_getElem? hk
  obtain ⟨r1, r2, r3, _, _⟩ := lockAll_inv (P := F) s outs s (cntH s.holds) h (SameStatic.refl s) hG.inv
    (fun x hx => hal' x (List.mem_append_left _ hx))
    (fun y _ _ hw => Or.inl hw)
    (by
      intro y hy hya hyo
      have hpos : 0 < cget s.counter (aidOf s y) := by
        rw [hG.inv.rwCnt y hya hyo]; exact cntH_pos_of_mem hmem hy
      exact (hG.inv.rwLocked y hya hyo hpos).1)
    (outsOk_lockOK s outs h h (fun _ hy => hy) hOuts)
  generalize hs1 : lockAll outs s = s1 at *
  cases forced with
  | none =>
    constructor
    · refine (r1.congr_holds _).congr_m ?_
      intro x _ _
      show cntH (s1.holds.set k (h ++ (outs ++ []))) x = cntH s.holds x + outs.count x
      rw [r3, cntH_set _ _ _ _ _ hk]; simp
    · intro h' hh' x hx
      show x < s1.arrs.length
      rw [r2.len]
      have hh'' : h' ∈ s1.holds.set k (h ++ (outs ++ [])) := hh'
      rw [r3] at hh''
      rcases List.mem_or_eq_of_mem_set hh'' with h1 | h1
      · exact hG.bound h' h1 x hx
      · rw [h1] at hx
        rcases List.mem_append.mp hx with h2 | h2
        · exact hG.bound h hmem x h2
        · exact isAlive_lt (hal' x (by simpa using h2))
  | some o =>
    have hoa : isAlive s o = true := hal' o (by simp)
    have hoa1 : isAlive s1 o = true := by rw [r2.alive]; exact hoa
    have hoo : origOf s1 o = true := by rw [r2.orig]; exact hForce o rfl
    obtain ⟨q1, _, _, _⟩ := lock_inv r1 true hoa1 (fun _ => Or.inr (Or.inr (Or.inl rfl)))
      (fun h => by rw [hoo] at h; cases h)
    have qS := lock_static s1 o true hoa1
    have qH := lock_holds s1 o true
    constructor
    · refine (q1.congr_holds _).congr_m ?_
      intro x _ _
      show cntH ((lock s1 o true).holds.set k (h ++ (outs ++ [o]))) x =
        if x = o then cntH s.holds x + outs.count x + 1 else cntH s.holds x + outs.count x
      rw [qH, r3, cntH_set _ _ _ _ _ hk, List.count_append]
      by_cases hx : x = o
      · subst hx; simp; omega
      · have : ¬ o = x := fun e => hx e.symm
        simp [hx, this]
    · intro h' hh' x hx
      show x < (lock s1 o true).arrs.length
      rw [qS.len, r2.len]
      have hh'' : h' ∈ (lock s1 o true).holds.set k (h ++ (outs ++ [o])) := hh'
      rw [qH, r3] at hh''
      rcases List.mem_or_eq_of_mem_set hh'' with h1 | h1
      · exact hG.bound h' h1 x hx
      · rw [h1] at hx
        rcases List.mem_append.mp hx with h2 | h2
        · exact hG.bound h hmem x h2
        · exact isAlive_lt (hal' x (by simpa using h2))

end MG.Lock
