import MG.Proofs.Lemmas.InPlaceWhere
/-! An explicit `constant=` passed with an in-place update changes nothing: the target keeps its own flag (C10, C04). -/
namespace MG.C10F
open MG.Eng MG.ND MG.C13 MG.C04R

theorem insert_insert {α} (k : Nat) (a b : α) : ∀ l : List (Nat × α),
    MG.Eng.insert k a (MG.Eng.insert k b l) = MG.Eng.insert k a l := by
  intro l
  induction l with
  | nil => simp [MG.Eng.insert]
  | cons p r ih =>
    obtain ⟨k', v'⟩ := p
    by_cases e : k' = k
    · simp [MG.Eng.insert, e]
    · simp [MG.Eng.insert, e, ih]

theorem setT_setT (h : Heap) (i : Nat) (a b : Tens) : (h.setT i b).setT i a = h.setT i a := by
  simp [Heap.setT, insert_insert]

/-- overwriting the constant flag of a tensor that was just stored makes the stored flag irrelevant -/
theorem modT_const_setT (h : Heap) (o : Nat) (t : Tens) (c m : Bool) :
    (h.setT o { t with const := c }).modT o ({ · with const := m }) = (h.setT o t).modT o ({ · with const := m }) := by
  simp [Heap.modT, t_setT_self, setT_setT]

theorem modT_setT_same (h : Heap) (o : Nat) (f : Tens → Tens) : (h.setT o (h.t o)).modT o f = h.modT o f := by
  simp [Heap.modT, t_setT_self, setT_setT]

/-- `opStepOut` with an explicit `constant=` differs from the inferred call only in the flag stored on the result -/
theorem opStepOut_const (h : Heap) (kind : Kind) (inputs : List Operand) (c : Bool)
    (wm : Option (Shape × List Bool)) (out : Arr) :
    opStepOut h kind inputs (some c) wm out =
      match opStepOut h kind inputs none wm out with
      | .error e => .error e
      | .ok (H, o) => .ok (H.setT o { H.t o with const := c }, o) := by
  unfold opStepOut
  simp only
  split
  · rfl
  · simp only [fresh_snd, t_setT_self, setT_setT]


/-- **inplace_ignores_explicit_constant.**  An explicit `constant=` passed along with an in-place update
(`ufunc(…, out=x, constant=c)`) has no effect whatsoever: whatever the target (a base, a view, a view of a view), the
operands, the mask and the outcome (success or failure), the whole `_in_place_op` leaves exactly the heap the same
call without `constant=` leaves.  In particular the target — and every member of its view family — keeps its own flag
(`placeholder_mutant_view._constant = inplace_target._constant`). -/
theorem inplace_ignores_explicit_constant (h : Heap) (roots : List Nat) (self : Nat) (kind : Kind)
    (inputs : List Operand) (c : Bool) (wm : Option (Shape × List Bool)) :
    inPlaceOp h roots self kind inputs (some c) wm = inPlaceOp h roots self kind inputs none wm := by
  unfold inPlaceOp
  simp only
  congr 1
  funext r
  obtain ⟨H, g⟩ := r
  unfold inPlaceMutate
  simp only [opStepOut_const]
  -- the two computations differ only between the guarded call and the flag overwrite that follows it
  generalize (H.copyArrK (H.t g.base.tensor).data) = cp
  obtain ⟨H1, mutArr⟩ := cp
  simp only
  split
  · rfl
  · congr 1
    funext tc
    obtain ⟨target, chain⟩ := tc
    simp only
    split
    · rfl
    · cases hO : opStepOut H1 kind (inputs.map fun
          | .t i => Operand.t (g.placeholderIfExists i)
          | x => x) none wm target with
      | error e => simp only [hO]
      | ok r =>
        obtain ⟨H2, o⟩ := r
        simp only [hO, Bind.bind, Except.bind, pure, Except.pure]
        rw [modT_const_setT, modT_setT_same]


/-- the target keeps its flag under either explicit value: computed on `x = [3, 4]` of `C13.exHeap` (non-constant) -/
example :
    (match inPlaceOp exHeap [0] 0 .mul [.t 0, .lit ([2], [2, 3])] (some true) none with
      | .ok h' => (h'.t 0).const == (exHeap.t 0).const && h'.val (h'.t 0).data == ([2], [6, 12])
      | .error _ => false) = true ∧
    (match inPlaceOp exHeap [0] 0 .mul [.t 0, .lit ([2], [2, 3])] (some false) none with
      | .ok h' => (h'.t 0).const == (exHeap.t 0).const
      | .error _ => false) = true := ⟨rfl, rfl⟩

end MG.C10F
