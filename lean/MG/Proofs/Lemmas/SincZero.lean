import MG.Proofs.Lemmas.NumpyRealDeriv
import Mathlib.Analysis.SpecialFunctions.Trigonometric.Bounds
import Mathlib.Analysis.Calculus.Deriv.Slope

/-!
# `np.sinc` is differentiable at `0` with derivative `0`

Helper lemma for `MG/Proofs/C02Scalar/Trig.lean` (from `x - x^3/6 ≤ sin x < x` for `0 < x`).
-/

namespace MG.NP
open Real Filter Topology

theorem abs_sin_div_sub_one_le {u : ℝ} (hu : u ≠ 0) : |Real.sin u / u - 1| ≤ u ^ 2 / 6 := by
  wlog h : 0 < u generalizing u
  · have hneg : 0 < -u := by
      rcases lt_or_gt_of_ne hu with h' | h'
      · linarith
      · exact absurd h' h
    have := this (neg_ne_zero.mpr hu) hneg
    simpa [Real.sin_neg, neg_div_neg_eq] using this
  have h1 := Real.sin_lt h
  have h2 := Real.sin_ge_sub_cube h.le
  rw [abs_le]
  constructor
  · rw [le_sub_iff_add_le, le_div_iff₀ h]; nlinarith
  · rw [sub_le_iff_le_add, div_le_iff₀ h]; nlinarith

/-- the normalised sinc is differentiable at `0` with derivative `0` -/
theorem hasDerivAt_sinc_zero : HasDerivAt sinc 0 0 := by
  rw [hasDerivAt_iff_tendsto_slope_zero]
  have hb : ∀ t : ℝ, t ∈ ({0}ᶜ : Set ℝ) → ‖t⁻¹ • (sinc (0 + t) - sinc 0)‖ ≤ (Real.pi ^ 2 / 6) * |t| := by
    intro t ht
    have ht0 : t ≠ 0 := ht
    have hpt : Real.pi * t ≠ 0 := mul_ne_zero Real.pi_ne_zero ht0
    have hb := abs_sin_div_sub_one_le hpt
    have e : sinc (0 + t) - sinc 0 = Real.sin (Real.pi * t) / (Real.pi * t) - 1 := by
      simp [sinc, ht0]
    rw [e, norm_smul, Real.norm_eq_abs, Real.norm_eq_abs, abs_inv]
    have hat : 0 < |t| := abs_pos.mpr ht0
    calc |t|⁻¹ * |Real.sin (Real.pi * t) / (Real.pi * t) - 1|
        ≤ |t|⁻¹ * ((Real.pi * t) ^ 2 / 6) := by gcongr
      _ = Real.pi ^ 2 / 6 * |t| := by
          have : t ^ 2 = |t| ^ 2 := (sq_abs t).symm
          rw [mul_pow, this]; field_simp
  refine squeeze_zero_norm' (eventually_nhdsWithin_of_forall hb) ?_
  have hc : Tendsto (fun t : ℝ => Real.pi ^ 2 / 6 * |t|) (𝓝 0) (𝓝 0) := by
    have hcont : Continuous fun t : ℝ => Real.pi ^ 2 / 6 * |t| := by fun_prop
    have := hcont.tendsto 0
    simpa using this
  exact hc.mono_left nhdsWithin_le_nhds

end MG.NP
