import MG.Proofs.Lemmas.LockAcc
/-! Helper lemmas for C08: the invariant of the lock tables and its preservation by `lock`. -/
namespace MG.Lock

/-- The invariant, parametrised by the expected number of holds `m o` on every object and by a
relaxation `pend b i` of "the base a waiting view waits for is locked" (used inside the loop that
unlocks the waiting views of a base that has just been released). -/
structure Inv (s : State) (m : Nat → Nat) (pend : Nat → Nat → Prop) : Prop where
  aidInj : ∀ o1 o2, isAlive s o1 = true → isAlive s o2 = true → aidOf s o1 = aidOf s o2 → o1 = o2
  baseOk : ∀ o b, isAlive s o = true → baseOf s o = some b →
    isAlive s b = true ∧ baseOf s b = none ∧ origOf s b = origOf s o
  trkAid : ∀ i t, lookup i s.tracker = some t → isAlive s t = true → aidOf s t = i
  trkUniq : ∀ i t o, lookup i s.tracker = some t → isAlive s o = true → aidOf s o = i → t = o
  waitOk : ∀ k v o, v ∈ wget s.waiting k → isAlive s o = true → aidOf s o = v →
    ∃ b, baseOf s o = some b ∧ aidOf s b = k
  ro : ∀ o, isAlive s o = true → origOf s o = false →
    wOf s o = false ∧ cget s.counter (aidOf s o) = 0 ∧ lookup (aidOf s o) s.tracker = none
  rwCnt : ∀ o, isAlive s o = true → origOf s o = true → cget s.counter (aidOf s o) = m o
  rwLocked : ∀ o, isAlive s o = true → origOf s o = true → 0 < cget s.counter (aidOf s o) →
    lookup (aidOf s o) s.tracker = some o ∧ wOf s o = false
  rwFree : ∀ o, isAlive s o = true → origOf s o = true → lookup (aidOf s o) s.tracker = none →
    (enteredOf s o = true ∨ baseOf s o = none) → wOf s o = true
  rwWait : ∀ o, isAlive s o = true → origOf s o = true → lookup (aidOf s o) s.tracker = some o →
    cget s.counter (aidOf s o) = 0 →
    wOf s o = false ∧ ∃ b, baseOf s o = some b ∧ aidOf s o ∈ wget s.waiting (aidOf s b) ∧
      (0 < cget s.counter (aidOf s b) ∨ pend b (aidOf s o))
  trkLt : ∀ i t, lookup i s.tracker = some t → t < s.arrs.length

theorem arr_of_alive {s : State} {o : Nat} (h : isAlive s o = true) :
    ∃ a, s.arrs[o]? = some a ∧ a.alive = true := by
  unfold isAlive at h
  cases hs : s.arrs[o]? with
  | none => simp [hs] at h
  | some a => exact ⟨a, rfl, by simpa [hs] using h⟩

/-- under the invariant, `array_is_tracked(arr)` means: the tracker entry at `id(arr)` is `arr` -/
theorem isTracked_iff {s : State} {m pend} (hI : Inv s m pend) {o : Nat} (ho : isAlive s o = true) :
    isTracked s o = true ↔ lookup (aidOf s o) s.tracker = some o := by
  obtain ⟨a, hs, _⟩ := arr_of_alive ho
  have haid : aidOf s o = a.aid := by simp [aidOf, hs]
  unfold isTracked
  simp only [hs, ← haid]
  constructor
  · intro h
    cases hl : lookup (aidOf s o) s.tracker with
    | none => simp [hl] at h
    | some t =>
      have : t = o := hI.trkUniq _ t o hl ho rfl
      rw [this]
  · intro h
    simp [h, ho]

theorem tracker_cases {s : State} {m pend} (hI : Inv s m pend) {o : Nat} (ho : isAlive s o = true) :
    lookup (aidOf s o) s.tracker = none ∨ lookup (aidOf s o) s.tracker = some o := by
  cases hl : lookup (aidOf s o) s.tracker with
  | none => exact Or.inl rfl
  | some t => exact Or.inr (by rw [hI.trkUniq _ t o hl ho rfl])

/-- does `lock_arr_writeability` take its early return? -/
def skips (s : State) (o : Nat) (force : Bool) : Bool :=
  !isTracked s o && !force && !wOf s o &&
    (match baseOf s o with
     | none => true
     | some b => !isTracked s b)

def lockf : Arr → Arr := fun a => { a with writeable := false, entered := true }

theorem lock_eq (s : State) (o : Nat) (force : Bool) (ho : isAlive s o = true) :
    lock s o force =
      if skips s o force then s
      else if isTracked s o then
        modArr { s with counter := insert (aidOf s o) (cget s.counter (aidOf s o) + 1) s.counter } o lockf
      else
        modArr { s with tracker := insert (aidOf s o) o s.tracker,
                        counter := insert (aidOf s o) 1 s.counter } o lockf := by
  obtain ⟨a, hs, _⟩ := arr_of_alive ho
  have haid : aidOf s o = a.aid := by simp [aidOf, hs]
  have hw : wOf s o = a.writeable := by simp [wOf, hs]
  have hb : baseOf s o = a.base := by simp [baseOf, hs]
  unfold lock skips
  simp only [hs, haid, hw, hb]
  cases hT : isTracked s o <;> cases force <;> cases hW : a.writeable <;> cases hB : a.base <;>
    simp <;> (try (rename_i b; cases hTb : isTracked s b <;> simp)) <;> rfl

/-- two states with the same static heap (addresses, bases, liveness, original flags) -/
structure SameStatic (s s' : State) : Prop where
  alive : ∀ x, isAlive s' x = isAlive s x
  aid : ∀ x, aidOf s' x = aidOf s x
  base : ∀ x, baseOf s' x = baseOf s x
  orig : ∀ x, origOf s' x = origOf s x
  len : s'.arrs.length = s.arrs.length

theorem SameStatic.refl (s : State) : SameStatic s s :=
  ⟨fun _ => rfl, fun _ => rfl, fun _ => rfl, fun _ => rfl, rfl⟩

theorem SameStatic.trans {s1 s2 s3 : State} (h12 : SameStatic s1 s2) (h23 : SameStatic s2 s3) :
    SameStatic s1 s3 :=
  ⟨fun x => (h23.alive x).trans (h12.alive x), fun x => (h23.aid x).trans (h12.aid x),
   fun x => (h23.base x).trans (h12.base x), fun x => (h23.orig x).trans (h12.orig x), h23.len.trans h12.len⟩

theorem sameStatic_modArr (s : State) (o : Nat) (f : Arr → Arr) (hf : FlagOnly f) :
    SameStatic s (modArr s o f) :=
  ⟨isAlive_modArr s o f hf, aidOf_modArr s o f hf, baseOf_modArr s o f hf, origOf_modArr s o f hf, length_modArr s o f⟩

theorem sameStatic_of_arrs {s s' : State} (h : s'.arrs = s.arrs) : SameStatic s s' :=
  ⟨isAlive_congr h, aidOf_congr h, baseOf_congr h, origOf_congr h, by rw [h]⟩

/-- the effect of a counted `lock` on an array whose original flag is writeable, pointwise -/
theorem inv_lock_core {s s' : State} {m : Nat → Nat} {P : Nat → Nat → Prop} (hI : Inv s m P) {o : Nat}
    (ho : isAlive s o = true) (horig : origOf s o = true)
    (hS : SameStatic s s')
    (hc : ∀ i, cget s'.counter i = if i = aidOf s o then cget s.counter (aidOf s o) + 1 else cget s.counter i)
    (ht : ∀ i, lookup i s'.tracker = if i = aidOf s o then some o else lookup i s.tracker)
    (hw : ∀ x, wOf s' x = if x = o then false else wOf s x)
    (he : ∀ x, x ≠ o → enteredOf s' x = enteredOf s x)
    (hwait : s'.waiting = s.waiting) :
    Inv s' (fun x => if x = o then m x + 1 else m x) P := by
  have hne : ∀ x, isAlive s x = true → x ≠ o → aidOf s x ≠ aidOf s o :=
    fun x hx hxo e => hxo (hI.aidInj x o hx ho e)
  constructor
  · intro o1 o2 h1 h2 e
    rw [hS.alive] at h1 h2; rw [hS.aid, hS.aid] at e
    exact hI.aidInj o1 o2 h1 h2 e
  · intro x b hx hb
    rw [hS.alive] at hx; rw [hS.base] at hb
    rw [hS.alive, hS.base, hS.orig, hS.orig]
    exact hI.baseOk x b hx hb
  · intro i t hl hta
    rw [hS.alive] at hta; rw [hS.aid]
    rw [ht] at hl
    by_cases hi : i = aidOf s o
    · simp only [hi, ↓reduceIte, Option.some.injEq] at hl
      rw [← hl, hi]
    · simp only [hi, ↓reduceIte] at hl
      exact hI.trkAid i t hl hta
  · intro i t x hl hx hxa
    rw [hS.alive] at hx; rw [hS.aid] at hxa
    rw [ht] at hl
    by_cases hi : i = aidOf s o
    · simp only [hi, ↓reduceIte, Option.some.injEq] at hl
      rw [← hl]
      exact (hI.aidInj x o hx ho (hxa.trans hi)).symm
    · simp only [hi, ↓reduceIte] at hl
      exact hI.trkUniq i t x hl hx hxa
  · intro k v x hv hx hxa
    rw [hwait] at hv; rw [hS.alive] at hx; rw [hS.aid] at hxa
    obtain ⟨b, hb1, hb2⟩ := hI.waitOk k v x hv hx hxa
    exact ⟨b, by rw [hS.base]; exact hb1, by rw [hS.aid]; exact hb2⟩
  · intro x hx hxo
    rw [hS.alive] at hx; rw [hS.orig] at hxo
    have hxne : x ≠ o := fun e => by rw [e, horig] at hxo; cases hxo
    have := hI.ro x hx hxo
    rw [hS.aid, hw, hc, ht]
    simp only [hxne, hne x hx hxne, ↓reduceIte]
    exact this
  · intro x hx hxo
    rw [hS.alive] at hx; rw [hS.orig] at hxo
    rw [hS.aid, hc]
    by_cases hxe : x = o
    · subst hxe
      simp only [↓reduceIte]
      rw [hI.rwCnt x hx hxo]
    · simp only [hxe, hne x hx hxe, ↓reduceIte]
      exact hI.rwCnt x hx hxo
  · intro x hx hxo
    rw [hS.alive] at hx; rw [hS.orig] at hxo
    rw [hS.aid, hc, ht, hw]
    by_cases hxe : x = o
    · subst hxe
      simp
    · simp only [hxe, hne x hx hxe, ↓reduceIte]
      exact hI.rwLocked x hx hxo
  · intro x hx hxo
    rw [hS.alive] at hx; rw [hS.orig] at hxo
    rw [hS.aid, ht, hw, hS.base]
    by_cases hxe : x = o
    · subst hxe
      simp
    · simp only [hxe, hne x hx hxe, ↓reduceIte, he x hxe]
      exact hI.rwFree x hx hxo
  · intro x hx hxo
    rw [hS.alive] at hx; rw [hS.orig] at hxo
    rw [hS.aid, ht, hc, hw, hS.base]
    by_cases hxe : x = o
    · subst hxe
      simp
    · simp only [hxe, hne x hx hxe, ↓reduceIte, hwait]
      intro h1 h2
      obtain ⟨hw0, b, hb1, hb2, hb3⟩ := hI.rwWait x hx hxo h1 h2
      refine ⟨hw0, b, hb1, ?_, ?_⟩
      · rw [hS.aid]; exact hb2
      · rw [hS.aid, hc]
        rcases hb3 with h | h
        · left
          by_cases hb : aidOf s b = aidOf s o
          · simp [hb]
          · simp only [hb, ↓reduceIte]; exact h
        · right; exact h
  · intro i t hl
    rw [hS.len]
    rw [ht] at hl
    by_cases hi : i = aidOf s o
    · simp only [hi, ↓reduceIte, Option.some.injEq] at hl
      rw [← hl]; exact isAlive_lt ho
    · simp only [hi, ↓reduceIte] at hl
      exact hI.trkLt i t hl

theorem Inv.congr_m {s : State} {m m' : Nat → Nat} {P : Nat → Nat → Prop} (hI : Inv s m P)
    (h : ∀ x, isAlive s x = true → origOf s x = true → m' x = m x) : Inv s m' P := by
  refine { hI with rwCnt := ?_ }
  intro o ho hoo
  rw [h o ho hoo]; exact hI.rwCnt o ho hoo

theorem Inv.mono_pend {s : State} {m : Nat → Nat} {P Q : Nat → Nat → Prop} (hI : Inv s m P)
    (h : ∀ b i, P b i → Q b i) : Inv s m Q := by
  refine { hI with rwWait := ?_ }
  intro o ho hoo h1 h2
  obtain ⟨hw, b, hb1, hb2, hb3⟩ := hI.rwWait o ho hoo h1 h2
  exact ⟨hw, b, hb1, hb2, hb3.imp id (h b _)⟩

theorem sameStatic_modArr' {s s1 : State} (h : s1.arrs = s.arrs) (o : Nat) (f : Arr → Arr) (hf : FlagOnly f) :
    SameStatic s (modArr s1 o f) :=
  (sameStatic_of_arrs h).trans (sameStatic_modArr s1 o f hf)

theorem lock_static (s : State) (o : Nat) (force : Bool) (ho : isAlive s o = true) :
    SameStatic s (lock s o force) := by
  rw [lock_eq s o force ho]
  split
  · exact SameStatic.refl s
  · split
    · apply sameStatic_modArr'
      · rfl
      · exact flagOnly_lock
    · apply sameStatic_modArr'
      · rfl
      · exact flagOnly_lock

@[simp] theorem lock_holds (s : State) (o : Nat) (force : Bool) : (lock s o force).holds = s.holds := by
  unfold lock
  cases hs : s.arrs[o]? with
  | none => rfl
  | some a =>
    simp only
    cases hT : isTracked s o <;> cases force <;> cases hW : a.writeable <;> cases hB : a.base <;>
      simp <;> (try (rename_i b; cases hTb : isTracked s b <;> simp))

/-- `lock_arr_writeability` preserves the invariant; the expected hold count of `o` goes up by one.
`hside`: an array whose original flag is writeable is not skipped (it is writeable, tracked, force-locked,
or its base is tracked); `hforce`: natively read-only arrays are never force-locked. -/
theorem lock_inv {s : State} {m : Nat → Nat} {P : Nat → Nat → Prop} (hI : Inv s m P) {o : Nat} (force : Bool)
    (ho : isAlive s o = true)
    (hside : origOf s o = true → wOf s o = true ∨ isTracked s o = true ∨ force = true ∨
      ∃ b, baseOf s o = some b ∧ isTracked s b = true)
    (hforce : origOf s o = false → force = false) :
    Inv (lock s o force) (fun x => if x = o then m x + 1 else m x) P ∧
      (origOf s o = true → lookup (aidOf s o) (lock s o force).tracker = some o) ∧
      (∀ i t, lookup i s.tracker = some t → isAlive s t = true → lookup i (lock s o force).tracker = some t) ∧
      (∀ x, x ≠ o → wOf (lock s o force) x = wOf s x) := by
  rw [lock_eq s o force ho]
  cases horig : origOf s o with
  | false =>
    -- natively read-only: the early return is taken
    obtain ⟨hw, hc, ht⟩ := hI.ro o ho horig
    have hf := hforce horig
    have hnt : isTracked s o = false := by
      cases h : isTracked s o with
      | false => rfl
      | true => rw [(isTracked_iff hI ho).mp h] at ht; cases ht
    have hsk : skips s o force = true := by
      unfold skips
      simp only [hnt, hf, hw, Bool.not_false, Bool.and_self, Bool.true_and]
      cases hb : baseOf s o with
      | none => rfl
      | some b =>
        obtain ⟨hba, _, hbo⟩ := hI.baseOk o b ho hb
        rw [horig] at hbo
        obtain ⟨_, _, htb⟩ := hI.ro b hba hbo
        cases h : isTracked s b with
        | false => simp [h]
        | true => rw [(isTracked_iff hI hba).mp h] at htb; cases htb
    simp only [hsk, ↓reduceIte]
    refine ⟨hI.congr_m ?_, by simp, fun i t h _ => h, fun _ _ => trivial⟩
    intro x hx hxo
    have : x ≠ o := fun e => by rw [e, horig] at hxo; cases hxo
    simp [this]
  | true =>
    have hnsk : skips s o force = false := by
      unfold skips
      rcases hside horig with h | h | h | ⟨b, hb, h⟩
      · simp [h]
      · simp [h]
      · simp [h]
      · simp [hb, h]
    simp only [hnsk, Bool.false_eq_true, ↓reduceIte]
    have hne : ∀ x, isAlive s x = true → x ≠ o → aidOf s x ≠ aidOf s o :=
      fun x hx hxo e => hxo (hI.aidInj x o hx ho e)
    cases hT : isTracked s o with
    | true =>
      simp only [↓reduceIte]
      have hl := (isTracked_iff hI ho).mp hT
      refine ⟨inv_lock_core hI ho horig (by apply sameStatic_modArr'; rfl; exact flagOnly_lock) ?_ ?_ ?_ ?_ rfl, ?_, ?_, ?_⟩
      · intro i; simp only [counter_modArr, cget_insert]
      · intro i
        simp only [tracker_modArr]
        by_cases hi : i = aidOf s o
        · simp [hi, hl]
        · simp [hi]
      · intro x
        by_cases hx : x = o
        · subst hx; simp only [↓reduceIte]; exact wOf_lock_self _ x ho
        · simp only [hx, ↓reduceIte]; rw [wOf_modArr_ne _ _ _ _ hx]; rfl
      · intro x hx; rw [enteredOf_modArr_ne _ _ _ _ hx]; rfl
      · intro _; exact hl
      · intro i t h _; exact h
      · intro x hx; rw [wOf_modArr_ne _ _ _ _ hx]; rfl
    | false =>
      simp only [Bool.false_eq_true, ↓reduceIte]
      have hl : lookup (aidOf s o) s.tracker = none := by
        rcases tracker_cases hI ho with h | h
        · exact h
        · rw [(isTracked_iff hI ho).mpr h] at hT; cases hT
      have hc0 : cget s.counter (aidOf s o) = 0 := by
        cases hc : cget s.counter (aidOf s o) with
        | zero => rfl
        | succ n =>
          have := (hI.rwLocked o ho horig (by omega)).1
          rw [hl] at this; cases this
      refine ⟨inv_lock_core hI ho horig (by apply sameStatic_modArr'; rfl; exact flagOnly_lock) ?_ ?_ ?_ ?_ rfl, ?_, ?_, ?_⟩
      · intro i; simp only [counter_modArr, cget_insert, hc0]
      · intro i; simp only [tracker_modArr, lookup_insert]
      · intro x
        by_cases hx : x = o
        · subst hx; simp only [↓reduceIte]; exact wOf_lock_self _ x ho
        · simp only [hx, ↓reduceIte]; rw [wOf_modArr_ne _ _ _ _ hx]; rfl
      · intro x hx; rw [enteredOf_modArr_ne _ _ _ _ hx]; rfl
      · intro _; simp only [tracker_modArr, lookup_insert, ↓reduceIte]
      · intro i t h hta
        simp only [tracker_modArr, lookup_insert]
        by_cases hi : i = aidOf s o
        · rw [hi, hl] at h; cases h
        · simp [hi, h]
      · intro x hx; rw [wOf_modArr_ne _ _ _ _ hx]; rfl

end MG.Lock
