import MG.Core.Engine
/-!
Foundations of the strided-array model: C-order ravel/unravel are inverse, a contiguous window
addresses its buffer positions in order, reading back a freshly written array returns it.
Core Lean only.
-/
namespace MG.ND

theorem size_cons (n : Nat) (s : Shape) : size (n :: s) = n * size s := rfl

theorem unravel_length (sh : Shape) (i : Nat) : (unravel sh i).length = sh.length := by
  induction sh generalizing i with
  | nil => rfl
  | cons n s ih => simp [unravel, ih]

/-- every component of `unravel sh i` is within its axis, for `i < size sh` -/
theorem unravel_lt (sh : Shape) (i : Nat) (hi : i < size sh) :
    ∀ k (hk : k < sh.length), (unravel sh i).getD k 0 < sh.getD k 0 := by
  induction sh generalizing i with
  | nil => intro k hk; simp at hk
  | cons n s ih =>
    intro k hk
    rw [size_cons] at hi
    have hs : 0 < size s := by
      rcases Nat.eq_zero_or_pos (size s) with h0 | h0
      · rw [h0] at hi; omega
      · exact h0
    cases k with
    | zero =>
      simp only [unravel, List.getD_cons_zero]
      exact Nat.div_lt_of_lt_mul (by rw [Nat.mul_comm]; exact hi)
    | succ k =>
      simp only [unravel, List.getD_cons_succ]
      exact ih (i % size s) (Nat.mod_lt _ hs) k (by simpa using hk)

/-- **ravel ∘ unravel = id**: the C-order strides of a shape send the multi-index of flat position
`i` back to `i` -/
theorem dot_cstrides_unravel (sh : Shape) (i : Nat) (hi : i < size sh) :
    dotI ((cstrides sh).map Int.ofNat) (unravel sh i) = (i : Int) := by
  induction sh generalizing i with
  | nil =>
    simp only [size, List.foldr_nil] at hi
    have : i = 0 := by omega
    subst this
    rfl
  | cons n s ih =>
    rw [size_cons] at hi
    have hs : 0 < size s := by
      rcases Nat.eq_zero_or_pos (size s) with h0 | h0
      · rw [h0] at hi; omega
      · exact h0
    simp only [cstrides, List.map_cons, unravel, dotI]
    rw [ih (i % size s) (Nat.mod_lt _ hs)]
    have := Nat.div_add_mod i (size s)
    have h2 : ((size s * (i / size s) + i % size s : Nat) : Int) = (i : Int) := by rw [this]
    rw [← h2]
    simp only [Int.ofNat_eq_natCast, Int.natCast_add, Int.natCast_mul]

theorem ravel_unravel (sh : Shape) (i : Nat) (hi : i < size sh) : ravel sh (unravel sh i) = i := by
  induction sh generalizing i with
  | nil =>
    simp only [size, List.foldr_nil] at hi
    simp only [unravel, ravel]; omega
  | cons n s ih =>
    rw [size_cons] at hi
    have hs : 0 < size s := by
      rcases Nat.eq_zero_or_pos (size s) with h0 | h0
      · rw [h0] at hi; omega
      · exact h0
    simp only [unravel, ravel]
    rw [ih (i % size s) (Nat.mod_lt _ hs)]
    have := Nat.div_add_mod i (size s)
    rw [Nat.mul_comm]; exact this

/-- a contiguous window at offset `off` addresses `off, off+1, …` in logical order -/
theorem positions_contig (off : Nat) (sh : Shape) :
    (Desc.contig off sh).positions = (List.range (size sh)).map (off + ·) := by
  unfold Desc.positions Desc.contig Desc.pos
  apply List.map_congr_left
  intro i hi
  have hi' : i < size sh := List.mem_range.mp hi
  simp only
  rw [dot_cstrides_unravel sh i hi']
  omega

/-! ### Fortran order is the transpose of C order -/

theorem size_append_single (s : Shape) (n : Nat) : size (s ++ [n]) = size s * n := by
  induction s with
  | nil => simp [size]
  | cons m s ih => rw [List.cons_append, size_cons, size_cons, ih, Nat.mul_assoc]

theorem cstrides_append_single (s : Shape) (n : Nat) :
    cstrides (s ++ [n]) = (cstrides s).map (· * n) ++ [1] := by
  induction s with
  | nil => simp [cstrides, size]
  | cons m s ih =>
    simp only [List.cons_append, cstrides, List.map_cons, ih, size_append_single]

theorem fstridesFrom_mul (acc : Nat) (s : Shape) :
    fstridesFrom acc s = (fstridesFrom 1 s).map (acc * ·) := by
  induction s generalizing acc with
  | nil => rfl
  | cons n s ih =>
    simp only [fstridesFrom, List.map_cons, Nat.mul_one, Nat.one_mul]
    rw [ih (acc * n), ih n]
    simp [List.map_map, Function.comp_def, Nat.mul_assoc]

/-- **fstrides_eq_reverse_cstrides.**  The column-major strides of a shape are the row-major strides of
the reversed shape, reversed. -/
theorem fstrides_eq_reverse_cstrides (s : Shape) : fstrides s = (cstrides s.reverse).reverse := by
  induction s with
  | nil => rfl
  | cons n s ih =>
    have h1 : fstrides (n :: s) = 1 :: (fstrides s).map (n * ·) := by
      simp only [fstrides, fstridesFrom, Nat.one_mul]
      rw [fstridesFrom_mul n s]
    rw [h1, ih, List.reverse_cons, cstrides_append_single]
    simp [List.map_reverse, Nat.mul_comm]

/-- **fortran_is_transposed_c.**  A Fortran-ordered array *is* the `.T` of the C-ordered array of the reversed
shape on the same buffer: every fact about C-contiguous windows and transposes transfers to it. -/
theorem fortran_is_transposed_c (off : Nat) (s : Shape) :
    (⟨off, s, (fstrides s).map Int.ofNat⟩ : Desc) = (Desc.contig off s.reverse).T := by
  simp [Desc.T, Desc.contig, fstrides_eq_reverse_cstrides, List.map_reverse]

end MG.ND

namespace MG.Eng
open MG.ND

/-- reading a freshly allocated array gives back exactly the values it was created from -/
theorem read_newArr (h : Heap) (v : Val) (hwf : v.2.length = size v.1) :
    (h.newArr v).1.read (h.newArr v).2 = v.2 := by
  simp only [Heap.read, Heap.newArr, Heap.buf, Heap.fresh]
  rw [positions_contig]
  simp only [List.map_map]
  have hl : lookup h.next (insert h.next v.2 h.bufs) = some v.2 := by
    clear hwf
    induction h.bufs with
    | nil => simp [insert, lookup]
    | cons p l ih =>
      obtain ⟨k, x⟩ := p
      by_cases hk : k = h.next
      · simp [insert, lookup, hk]
      · simp [insert, lookup, hk, ih]
  rw [hl]
  simp only [Option.getD_some]
  apply List.ext_getElem
  · simp [hwf]
  · intro i h1 h2
    simp [List.getD, h2]

end MG.Eng
