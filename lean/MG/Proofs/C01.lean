import MG.Proofs.Lemmas.Collect
import MG.Proofs.Lemmas.BackLoop
import MG.Proofs.Lemmas.Acyclic
/-!
# C01 — `backward()` yields the exact total derivative of the recorded computation

Property theorems only (helper lemmas: `Lemmas/Collect.lean`, `Lemmas/Adjoint.lean`,
`Lemmas/BackLoop.lean`).  The model is `MG/Core/Engine.lean` (tied to `/repo` by the
correspondence in `harness/props/c01.py`).

Reading.  The *declarative* meaning of "derivative of sum(L·seed) w.r.t. x, summed over every
path" on a recorded graph is the unique solution `adj` of the adjoint equations

    adj x = seed x + Σ_{edges e : consumer c ─▶ x} vjp_e (adj c)

(one edge per occurrence of `x` among the operands of an op whose output is upstream of `L`;
repeated use, fan-out, diamonds and broadcasting are just several edges / the reduce step of the
edge's VJP).  `backward_sound` says the engine computes exactly that solution; that each VJP is the
transpose of the op's derivative is C02's business.
-/
namespace MG.C01
open MG.Eng MG.Adj MG.ND

/-- the seed as a gradient assignment: `g` at `L`, nothing elsewhere -/
def seedFn (L : Nat) (g : Val) : Nat → GF := fun t => if t = L then toFn g else 0

/-- `Ordered` is closed under taking suffixes -/
theorem ordered_suffix (h : Heap) : ∀ (P R : List Nat), Ordered h (P ++ R) → Ordered h R := by
  intro P
  induction P with
  | nil => intro R hR; simpa using hR
  | cons p P ih =>
    intro R hR
    cases hR with
    | cons _ hB => exact ih R hB

/-- every edge read off the heap goes from a node of `topo` to one of its non-constant inputs -/
theorem edge_mem (h : Heap) (topo : List Nat) (e : Edge GF) (he : e ∈ edges h topo) :
    e.c ∈ topo ∧ e.t ∈ h.inp e.c ∧ (h.t e.t).const = false ∨ (h.t e.c).const = true := by
  obtain ⟨c, hc, hec⟩ := List.mem_flatMap.mp he
  have hcc := edgesOfNode_c h c e hec
  by_cases hconst : (h.t e.c).const = true
  · exact Or.inr hconst
  · left
    refine ⟨hcc ▸ hc, ?_⟩
    unfold edgesOfNode at hec
    cases hcr : (h.t c).creator with
    | none => rw [hcr] at hec; simp at hec
    | some f =>
      rw [hcr] at hec
      obtain ⟨i, hi, rfl⟩ := List.mem_map.mp hec
      simp only [nonConstIdx, List.mem_filter, List.mem_range, Bool.not_eq_true'] at hi
      have hconst' : (h.t c).const = false := by
        have : (edgeOf h c f i).c = c := rfl
        rw [this] at hconst
        simpa using hconst
      refine ⟨?_, hi.2⟩
      show (h.op f).vars.getD i 0 ∈ h.inp c
      simp only [Heap.inp, hconst', Bool.false_eq_true, ite_false, hcr]
      rw [List.getD_eq_getElem?_getD, List.getElem?_eq_getElem hi.1]
      exact List.getElem_mem _

/-- **collect_consumers_first.**  On an acyclic graph the DFS with `appendleft` succeeds and its
result lists `L` and only non-constant tensors, each exactly once, every tensor after all of its
consumers: the order is consumers-first for the heap's edge list. -/
theorem collect_consumers_first (h : Heap) (L : Nat) (rank : Nat → Nat)
    (hdag : ∀ t, ∀ v ∈ h.inp t, rank v < rank t) (hfuel : rank L < h.fuel)
    (hL : (h.t L).const = false) :
    ∃ touched topo, collect h.fuel h L [] [] = some (touched, topo) ∧
      L ∈ topo ∧ topo.Nodup ∧ (∀ x ∈ topo, (h.t x).const = false) ∧
      ConsumersFirst (edges h topo) [] topo ∧ (∀ e ∈ edges h topo, e.c ∈ topo) := by
  obtain ⟨touched, topo, hcol, post⟩ :=
    collect_post h rank hdag h.fuel L [] [] hfuel Ordered.nil List.nodup_nil (by simp)
  refine ⟨touched, topo, hcol, post.mem hL, post.nodup, post.nonconst, ?_, ?_⟩
  · -- consumers-first, by induction over the split `P ++ R = topo`
    suffices hs : ∀ (R P : List Nat), P ++ R = topo → ConsumersFirst (edges h topo) P R from
      hs topo [] rfl
    intro R
    induction R with
    | nil => intro P _; trivial
    | cons c R ih =>
      intro P hPR
      have hn : (P ++ c :: R).Nodup := hPR ▸ post.nodup
      have hord : Ordered h (c :: R) := ordered_suffix h P (c :: R) (hPR ▸ post.ord)
      have hcP : c ∉ P := by
        intro hc
        have := List.nodup_append.mp hn
        exact this.2.2 c hc c (List.mem_cons_self ..) rfl
      have hcR : c ∉ R := (List.nodup_cons.mp (List.nodup_append.mp hn).2.1).1
      refine ⟨hcP, ?_, ih (P ++ [c]) (by simpa using hPR)⟩
      intro e he hec
      have hctopo : c ∈ topo := hPR ▸ List.mem_append_right _ (List.mem_cons_self ..)
      rcases edge_mem h topo e he with ⟨_, hin, hnc⟩ | hcst
      · cases hord with
        | cons hinp _ =>
          have htR : e.t ∈ R := hinp e.t (hec ▸ hin) hnc
          refine ⟨fun htP => ?_, fun htc => hcR (htc ▸ htR)⟩
          have := List.nodup_append.mp hn
          exact this.2.2 e.t htP e.t (List.mem_cons_of_mem _ htR) rfl
      · rw [hec, post.nonconst c hctopo] at hcst
        cases hcst
  · intro e he
    obtain ⟨c, hc, hec⟩ := List.mem_flatMap.mp he
    exact (edgesOfNode_c h c e hec) ▸ hc

/-- the edge list of an acyclic heap is acyclic -/
theorem edges_rank (h : Heap) (topo : List Nat) (rank : Nat → Nat)
    (hdag : ∀ t, ∀ v ∈ h.inp t, rank v < rank t) (hnc : ∀ x ∈ topo, (h.t x).const = false) :
    ∀ e ∈ edges h topo, rank e.t < rank e.c := by
  intro e he
  rcases edge_mem h topo e he with ⟨_, hin, _⟩ | hcst
  · exact hdag e.c e.t hin
  · obtain ⟨c, hc, hec⟩ := List.mem_flatMap.mp he
    rw [edgesOfNode_c h c e hec, hnc c hc] at hcst
    cases hcst

/-- **backward_sound.**  For every acyclic heap, every non-constant terminal tensor `L` and every
seed array `g` of `L`'s shape: if the back-propagation loop runs to completion, the gradient it
leaves on every tensor is *the* solution of the adjoint equations of the recorded graph — the seed
at `L` plus, for every consumer edge, that edge's VJP applied to the consumer's gradient.  There is
exactly one such assignment (`unique`), so the result is determined by the graph alone. -/
theorem backward_sound (h : Heap) (L : Nat) (g : Val) (rank : Nat → Nat)
    (hdag : ∀ t, ∀ v ∈ h.inp t, rank v < rank t) (hfuel : rank L < h.fuel)
    (hL : (h.t L).const = false)
    (hg : g.1 = shapeOf h L ∧ g.2.length = size (shapeOf h L))
    (touched topo : List Nat) (hcol : collect h.fuel h L [] [] = some (touched, topo))
    (gr : GMap) (hrun : backLoop h topo [(L, g)] = (gr, none)) :
    IsAdj (edges h topo) (seedFn L g) (absG gr) ∧
    (∀ adj', IsAdj (edges h topo) (seedFn L g) adj' → ∀ t, adj' t = absG gr t) := by
  obtain ⟨touched', topo', hcol', _, hn, hnc, hcf, hall⟩ :=
    collect_consumers_first h L rank hdag hfuel hL
  rw [hcol] at hcol'
  cases hcol'
  have hw0 : WFG h [(L, g)] := by
    intro t v hv
    simp only [lookup] at hv
    split at hv
    · rename_i heq
      cases hv
      exact heq ▸ hg
    · cases hv
  have hseed : absG [(L, g)] = seedFn L g := by
    funext t
    simp only [absG, lookup, seedFn]
    by_cases ht : L = t
    · simp [ht]
    · have : ¬ t = L := fun e => ht e.symm
      simp [ht, this]
  obtain ⟨_, habs⟩ := backLoop_run h topo hn topo [(L, g)] gr (fun x hx => hx) hw0 hrun
  rw [hseed] at habs
  have hadj : IsAdj (edges h topo) (seedFn L g) (absG gr) := by
    rw [habs]
    exact run_isAdj _ _ _ hcf hall
  exact ⟨hadj, fun adj' h' t =>
    isAdj_unique_rank _ _ adj' (absG gr) rank (edges_rank h topo rank hdag hnc) h' hadj t⟩

/-- **backward_order_independent.**  Processing the tensors in *any* consumers-first order that
covers the graph — i.e. however independent sub-expressions were interleaved — yields the same
gradients as the order the DFS happened to produce; and re-ordering the recorded edges (swapping
commutative operands, permuting siblings) leaves the adjoint solution unchanged. -/
theorem backward_order_independent (h : Heap) (L : Nat) (g : Val) (rank : Nat → Nat)
    (hdag : ∀ t, ∀ v ∈ h.inp t, rank v < rank t) (hfuel : rank L < h.fuel)
    (hL : (h.t L).const = false)
    (hg : g.1 = shapeOf h L ∧ g.2.length = size (shapeOf h L))
    (touched topo : List Nat) (hcol : collect h.fuel h L [] [] = some (touched, topo))
    (gr : GMap) (hrun : backLoop h topo [(L, g)] = (gr, none)) :
    (∀ ord', ConsumersFirst (edges h topo) [] ord' → (∀ e ∈ edges h topo, e.c ∈ ord') →
      run (edges h topo) ord' (seedFn L g) = absG gr) ∧
    (∀ es', (edges h topo).Perm es' → IsAdj es' (seedFn L g) (absG gr)) := by
  obtain ⟨hadj, huniq⟩ := backward_sound h L g rank hdag hfuel hL hg touched topo hcol gr hrun
  refine ⟨fun ord' hcf hall => ?_, fun es' hp => isAdj_perm _ _ hp _ _ hadj⟩
  funext t
  exact huniq _ (run_isAdj _ _ _ hcf hall) t

/-! ## every DAG program yields an acyclic heap: the hypothesis of `backward_sound` is met -/

/-- statements of a (non-in-place) program: create a leaf tensor, or apply an operation to earlier
tensors / ndarrays / scalars -/
inductive Stmt where
  | leaf (v : Val) (constant : Bool)
  | op (kind : Kind) (inputs : List Operand) (constant : Option Bool) (whereMask : Option (Shape × List Bool))

/-- run a program; `none` if a statement raises or mentions a tensor that does not exist -/
def runStmts : Heap → List Stmt → Option Heap
  | h, [] => some h
  | h, .leaf v c :: r => runStmts (mkLeaf h v c).1 r
  | h, .op k ins c wm :: r =>
    if ins.all (fun | .t i => decide (i < h.next) | _ => true) then
      match opStep h k ins c wm with
      | .ok (h', _) => runStmts h' r
      | .error _ => none
    else none

/-- **dag_programs_acyclic.**  Every heap a program of leaf creations and (non-in-place) operations
can build — any length, any sharing, repeated operands, views, constants — is well-scoped and has a
rank that strictly decreases from every op output to each of its inputs. -/
theorem dag_programs_acyclic : ∀ (prog : List Stmt) (h h' : Heap), Scoped h → Acyclic h →
    runStmts h prog = some h' → Scoped h' ∧ Acyclic h' := by
  intro prog
  induction prog with
  | nil => intro h h' hs ha hr; simp only [runStmts, Option.some.injEq] at hr; subst hr; exact ⟨hs, ha⟩
  | cons st r ih =>
    intro h h' hs ha hr
    cases st with
    | leaf v c =>
      simp only [runStmts] at hr
      obtain ⟨s, a, _⟩ := acyclic_mkLeaf h v c hs ha
      exact ih _ _ s a hr
    | op k ins c wm =>
      simp only [runStmts] at hr
      split at hr
      · rename_i hall
        split at hr
        · rename_i h2 o hok
          have hin : ∀ i, Operand.t i ∈ ins → i < h.next := by
            intro i hi
            have := List.all_eq_true.mp hall (Operand.t i) hi
            simpa using this
          obtain ⟨s, a, _, _⟩ := acyclic_opStep h k ins c wm h2 o hs ha hin hok
          exact ih _ _ s a hr
        · cases hr
      · cases hr

/-- acyclicity in the sense of `backward_sound`'s hypothesis -/
theorem acyclic_inp (h : Heap) (ha : Acyclic h) : ∃ rank : Nat → Nat, ∀ t, ∀ v ∈ h.inp t, rank v < rank t := by
  obtain ⟨rank, hr⟩ := ha
  refine ⟨rank, fun t v hv => ?_⟩
  unfold Heap.inp at hv
  simp only at hv
  split at hv
  · simp at hv
  · split at hv
    · simp at hv
    · rename_i f hf
      exact hr t f v hf hv

/-- **backward_sound_for_programs.**  For every program of leaf creations and operations (started
from the empty heap), every non-constant tensor `L` of the heap it builds and every seed: if the
back-propagation loop completes, it leaves THE solution of the adjoint equations of the recorded
graph.  (No acyclicity hypothesis: it is an invariant of the program semantics.) -/
theorem backward_sound_for_programs (prog : List Stmt) (h : Heap) (hrun : runStmts {} prog = some h)
    (L : Nat) (g : Val) (hL : (h.t L).const = false)
    (hg : g.1 = shapeOf h L ∧ g.2.length = size (shapeOf h L)) :
    ∃ rank : Nat → Nat, (∀ t, ∀ v ∈ h.inp t, rank v < rank t) ∧
      ∀ (touched topo : List Nat) (gr : GMap), rank L < h.fuel →
        collect h.fuel h L [] [] = some (touched, topo) → backLoop h topo [(L, g)] = (gr, none) →
        IsAdj (edges h topo) (seedFn L g) (absG gr) ∧
        ∀ adj', IsAdj (edges h topo) (seedFn L g) adj' → ∀ t, adj' t = absG gr t := by
  obtain ⟨_, ha⟩ := dag_programs_acyclic prog {} h scoped_empty.1 scoped_empty.2 hrun
  obtain ⟨rank, hr⟩ := acyclic_inp h ha
  exact ⟨rank, hr, fun touched topo gr hfuel hcol hloop =>
    backward_sound h L g rank hr hfuel hL hg touched topo hcol gr hloop⟩

end MG.C01
