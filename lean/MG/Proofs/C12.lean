import MG.Proofs.Lemmas.Heap
/-!
# C12 — operations never modify their inputs, and gradients are never aliased

Frame theorems about the engine model: which parts of the heap a step can change.
-/
namespace MG.C12
open MG.Eng MG.ND

theorem gradPropObj_bufs (fuel : Nat) (h : Heap) (t : Nat) : (gradPropObj fuel h t).1.bufs = h.bufs := by
  induction fuel generalizing h t with
  | zero => rfl
  | succ fuel ih =>
    unfold gradPropObj
    simp only
    split
    · rfl
    · split
      · rfl
      · split
        · rfl
        · split
          · rfl
          · split
            · rfl
            · split
              · rfl
              · simp only [bufs_modT]
                exact ih _ _

theorem gradProp_bufs (fuel : Nat) (h : Heap) (t : Nat) : (gradProp fuel h t).1.bufs = h.bufs := by
  unfold gradProp
  exact gradPropObj_bufs fuel h t

theorem clearGraph_bufs (fuel : Nat) (h : Heap) (t : Nat) : (clearGraph fuel h t).bufs = h.bufs := by
  induction fuel generalizing h t with
  | zero => rfl
  | succ fuel ih =>
    unfold clearGraph
    simp only
    have hpull : (if ((h.t t).base.isSome = true) then (gradProp h.fuel h t).1 else h).bufs = h.bufs := by
      split
      · exact gradProp_bufs _ _ _
      · rfl
    split
    · simpa using hpull
    · rename_i f hf
      -- fold over the creator's variables
      have hfold : ∀ (vs : List Nat) (h0 : Heap), (vs.foldl (fun h v => clearGraph fuel h v) h0).bufs = h0.bufs := by
        intro vs
        induction vs with
        | nil => intro h0; rfl
        | cons v vs ihv => intro h0; simp only [List.foldl_cons]; rw [ihv, ih]
      rw [hfold]
      simpa using hpull

theorem storeGrads_bufs (gr : GMap) (h : Heap) : (storeGrads h gr).bufs = h.bufs := by
  unfold storeGrads
  induction gr generalizing h with
  | nil => rfl
  | cons p ps ih =>
    simp only [List.foldl_cons]
    rw [ih]
    rfl

/-- the heap a call leaves behind, whether it returned or raised -/
def heapAfter : Except (Err × Heap) Heap → Heap
  | .ok h' => h'
  | .error (_, h') => h'

/-- **backward_frames_data.**  `backward` — whether it completes, is rejected, or is interrupted by an
error half-way — writes no array buffer: the data of every tensor (and every other ndarray the
model knows) is exactly what it was. -/
theorem backward_frames_data (h : Heap) (L : Nat) (seed : Seed) :
    (heapAfter (backward h L seed)).bufs = h.bufs := by
  unfold backward
  simp only
  by_cases hc : (h.t L).const = true
  · simp only [hc, ite_true, heapAfter]
    exact clearGraph_bufs _ _ _
  · simp only [hc, Bool.false_eq_true, ite_false]
    have h1b : (startOver h L).bufs = h.bufs := startOver_bufs h L
    generalize startOver h L = h1 at h1b ⊢
    cases hcol : collect h1.fuel h1 L [] [] with
    | none => simpa [heapAfter] using h1b
    | some tt =>
      obtain ⟨touched, topo⟩ := tt
      simp only
      have hnull : (touched.foldl (fun h t => h.modT t ({ · with grad := none, viewGrad := none })) h1).bufs = h.bufs :=
        (foldl_modT_bufs touched id (fun _ x => { x with grad := none, viewGrad := none }) h1).trans h1b
      cases hs : seedVal (h.t L).data.d.shape seed with
      | error e => simpa [heapAfter] using hnull
      | ok g =>
        simp only
        cases herr : (backwardGrads (touched.foldl (fun h t => h.modT t ({ · with grad := none, viewGrad := none })) h1) L topo g).2 with
        | some e =>
          simp only [heapAfter]
          rw [storeGrads_bufs]; exact hnull
        | none =>
          simp only [heapAfter]
          rw [clearGraph_bufs, storeGrads_bufs]; exact hnull

/-- a fresh buffer does not disturb the existing ones -/
theorem newArr_frames (h : Heap) (v : Val) (b : Nat) (hb : b ≠ h.next) : (h.newArr v).1.buf b = h.buf b := by
  simp only [Heap.newArr, Heap.buf, Heap.fresh]
  rw [lookup_insert_ne _ _ _ _ hb]

theorem wrapOperands_frames (inputs : List Operand) (h : Heap) (b : Nat) (hb : b < h.next) :
    (wrapOperands h inputs).1.buf b = h.buf b ∧ h.next ≤ (wrapOperands h inputs).1.next := by
  induction inputs generalizing h with
  | nil => exact ⟨rfl, Nat.le_refl _⟩
  | cons x xs ih =>
    cases x with
    | t i =>
      simp only [wrapOperands]
      exact ih h hb
    | lit v =>
      simp only [wrapOperands]
      have h1 : (h.newArr v).1.buf b = h.buf b := newArr_frames h v b (by omega)
      have hn : (h.newArr v).1.next = h.next + 1 := rfl
      obtain ⟨e, hle⟩ := ih (((h.newArr v).1.fresh.1).setT (h.newArr v).1.fresh.2 { data := (h.newArr v).2, const := true })
        (by simp [hn]; omega)
      simp only [fresh_snd, hn, next_setT, next_fresh] at hle e ⊢
      refine ⟨?_, by omega⟩
      rw [e]
      simpa [Heap.buf] using h1

/-- `forwardOp` only ever adds a fresh buffer -/
theorem forwardOp_frames (h : Heap) (kind : Kind) (vars : List Nat) (h' : Heap) (a : Arr) (p : Option Nat)
    (hok : forwardOp h kind vars = .ok (h', a, p)) (b : Nat) (hb : b < h.next) : h'.buf b = h.buf b := by
  unfold forwardOp at hok
  split at hok
  · simp only at hok
    split at hok
    · cases hok
    · simp only [Except.ok.injEq, Prod.mk.injEq] at hok
      rw [← hok.1]
    · simp only [Except.ok.injEq, Prod.mk.injEq] at hok
      rw [← hok.1]
      exact newArr_frames _ _ _ (by omega)
  · simp only [Except.ok.injEq, Prod.mk.injEq] at hok
    rw [← hok.1]
  · split at hok
    · cases hok
    · simp only [Except.ok.injEq, Prod.mk.injEq] at hok
      rw [← hok.1]
      exact newArr_frames _ _ _ (by omega)

theorem attachResult_bufs (h : Heap) (x : Tens) (parent : Option Nat) : (attachResult h x parent).1.bufs = h.bufs := by
  unfold attachResult
  simp only
  split
  · split <;> rfl
  · rfl

theorem prepInputs_bufs (h : Heap) (us : List Nat) (parent : Option Nat) :
    (prepInputs h us parent).1.bufs = h.bufs := by
  unfold prepInputs
  simp only
  have hfold2 : ∀ (b : Option Nat) (vs : List Nat) (h0 : Heap),
      (vs.foldl (fun h v =>
        let tv := h.t v
        let h := if tv.base.isSome ∧ tv.creator.isNone then h.modT v ({ · with base := none }) else h
        if b.isNone then h.modT v ({ · with grad := none, viewGrad := none }) else h) h0).bufs = h0.bufs := by
    intro b vs
    induction vs with
    | nil => intro h0; rfl
    | cons v vs ihv =>
      intro h0
      simp only [List.foldl_cons]
      rw [ihv]
      split <;> split <;> rfl
  split
  · rw [hfold2]
  · rw [hfold2]
    split
    · exact (gradPropObj_frame _ _ _).1
    · rfl

theorem recordOp_bufs (h : Heap) (kind : Kind) (vars us : List Nat) (c : Bool) (constant : Option Bool)
    (wm : Option (Shape × List Bool)) (outArr : Arr) (parent : Option Nat) :
    (recordOp h kind vars us c constant wm outArr parent).1.bufs = h.bufs := by
  unfold recordOp
  simp only
  rw [attachResult_bufs]
  have hfold1 : ∀ (vs : List Nat) (f : Nat) (h0 : Heap),
      (vs.foldl (fun h v => h.modT v fun t => { t with ops := f :: t.ops }) h0).bufs = h0.bufs := by
    intro vs f h0
    exact foldl_modT_bufs vs id (fun _ t => { t with ops := f :: t.ops }) h0
  rw [hfold1]
  simp only [Heap.setOp, bufs_fresh]
  exact prepInputs_bufs h us parent

/-- **op_frames_input_data.**  A (non-in-place) MyGrad operation leaves every existing array buffer —
the data of its inputs, of every other tensor, and the caller's arrays — unchanged: the only buffers
it writes are freshly allocated ones. -/
theorem op_frames_input_data (h : Heap) (kind : Kind) (inputs : List Operand) (constant : Option Bool)
    (wm : Option (Shape × List Bool)) (h' : Heap) (o : Nat)
    (hok : opStep h kind inputs constant wm = .ok (h', o)) (b : Nat) (hb : b < h.next) :
    h'.buf b = h.buf b := by
  unfold opStep at hok
  simp only at hok
  split at hok
  · cases hok
  · rename_i hh outArr parent hfwd
    simp only [Except.ok.injEq] at hok
    have hw := wrapOperands_frames inputs h b hb
    have hf := forwardOp_frames _ _ _ _ _ _ hfwd b (by omega)
    have key : ∀ (us : List Nat) (c : Bool) (r : Heap × Nat),
        recordOp hh kind (wrapOperands h inputs).2 us c constant wm outArr parent = r → r.1.bufs = hh.bufs := by
      intro us c r hr
      rw [← hr]
      exact recordOp_bufs ..
    have := key _ _ _ hok
    simp only [Heap.buf] at hf hw ⊢
    rw [this, hf, hw.1]

/-- **stored_grads_are_fresh_objects.**  Every gradient `backward` stores is a distinct, newly
created array object: the identities given out by `storeGrads` are consecutive fresh ids, so no two
stored gradients are the same object and none is an object that existed before. -/
theorem stored_grads_are_fresh_objects (gr : GMap) (h : Heap) :
    (storeGrads h gr).next = h.next + gr.length := by
  unfold storeGrads
  induction gr generalizing h with
  | nil => rfl
  | cons p ps ih =>
    simp only [List.foldl_cons, List.length_cons]
    rw [ih]
    simp
    omega

end MG.C12
