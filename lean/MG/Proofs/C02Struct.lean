import MG.Proofs.Lemmas.LinearMore
import MG.Proofs.Lemmas.LinearPerm

/-!
# C02 (structured stratum) — the backward pass of every index-arithmetic / linear operation is the
adjoint (VJP) of its forward pass

Property theorems only; model: `MG/Core/Linear.lean`.  Everything is stated for flat vectors over an
arbitrary commutative semiring `R` (so: `Int` as run by the driver, `ℚ`, `ℝ`), for *every* index map,
matrix, mask, index list and pair of broadcast-compatible shapes — no bounds.

How the theorems are tied to `/repo`: for each operation × configuration the harness
(`harness/props/c02_struct.py`) recovers the index map `φ` (resp. the matrix `A`) from the *real*
forward pass, validates `forward = gather φ` (resp. `A x`) on random data, and requires the *real*
backward pass to equal `scatterAdd φ n g` (resp. `applyMatT A n g`) as computed by the driver from the
definitions below.  By `gather_scatter_adjoint` + `vjp_unique` that vector is *the* VJP.
-/

namespace MG.C02
open MG.Lin

variable {R : Type} [CommSemiring R]

/-! ## gather ops: transpose, moveaxis, swapaxes, reshape, squeeze, expand_dims, broadcast_to, getitem,
concatenate, stack, repeat, roll, diagonal einsums … -/

/-- **The** lemma of stratum (b): for *every* index map `φ` (not necessarily injective, any lengths)
`⟨g, gather φ x⟩ = ⟨scatterAdd φ |x| g, x⟩`. -/
theorem gather_scatter_adjoint (φ : List Nat) (g x : List R) :
    dot g (gather φ x) = dot (scatterAdd φ x.length g) x := by
  rw [scatterAdd, dot_scatterAddInto _ _ _ _ (by simp)]
  simp

example : dot ([1, 2, 3] : List Int) (gather [0, 0, 2] [5, 6, 7]) = dot (scatterAdd [0, 0, 2] 3 [1, 2, 3]) [5, 6, 7] :=
  gather_scatter_adjoint _ _ _

/-- every linear map given by a matrix: `⟨g, A x⟩ = ⟨Aᵀ g, x⟩` (sum, mean·N, cumsum, matmul / einsum / conv
with the other operand fixed, AddSequence, …) -/
theorem linear_vjp_is_transpose (A : List (List R)) (g x : List R) (hA : ∀ row ∈ A, row.length = x.length) :
    dot g (applyMat A x) = dot (applyMatT A x.length g) x := by
  rw [applyMatT, dot_applyMatTInto _ _ _ _ (by simp) hA]
  simp

example : dot ([1, 1, 1] : List Int) (applyMat [[1, 2], [3, 4], [5, 6]] [7, 8]) =
    dot (applyMatT [[1, 2], [3, 4], [5, 6]] 2 [1, 1, 1]) [7, 8] :=
  linear_vjp_is_transpose _ _ _ (by decide)

/-- the adjoint is unique: a vector `h` with `⟨g, A x⟩ = ⟨h, x⟩` for all `x` *is* `Aᵀ g`.  So "the VJP" is
determined by the forward pass, and any backward pass that satisfies the adjoint identity equals
`applyMatT` — in particular `scatterAdd φ` for a gather. -/
theorem adjoint_unique (A : List (List R)) (n : Nat) (g h : List R) (hA : ∀ row ∈ A, row.length = n)
    (hh : h.length = n) (H : ∀ x : List R, x.length = n → dot g (applyMat A x) = dot h x) :
    h = applyMatT A n g := by
  apply eq_of_dot_eq n _ _ hh (length_applyMatT A n g hA)
  intro x hx
  rw [← H x hx]
  subst hx
  exact linear_vjp_is_transpose A g x hA

/-- uniqueness for gathers -/
theorem vjp_unique (φ : List Nat) (n : Nat) (g h : List R) (hh : h.length = n)
    (H : ∀ x : List R, x.length = n → dot g (gather φ x) = dot h x) : h = scatterAdd φ n g := by
  apply eq_of_dot_eq n _ _ hh (by simp)
  intro x hx
  rw [← H x hx]
  subst hx
  exact gather_scatter_adjoint φ g x

example : ([3, 0, 3] : List Int) = scatterAdd [0, 0, 2] 3 [1, 2, 3] := by decide

/-! ## transposes: `Transpose.backward_var` is `grad.transpose(np.argsort(self.axes))` -/

/-- `argsort` of a permutation of the axes is its inverse permutation (both compositions are the identity),
also after the normalisation `axis % ndim` of negative axes -/
theorem transpose_inverse (p : List Nat) (hp : p.Perm (List.range p.length)) :
    (argsort p).length = p.length ∧
    (∀ k, k < p.length → (argsort p).getD (p.getD k 0) 0 = k) ∧
    (∀ i, i < p.length → p.getD ((argsort p).getD i 0) 0 = i) :=
  ⟨length_argsort p, argsort_left_inv p hp, argsort_right_inv p hp⟩

example : argsort (normAxes 3 [-1, 0, 1]) = [1, 2, 0] := by decide

/-- the adjoint of a gather along a permutation `φ` of the positions is the gather along its inverse `ψ`
(a permutation matrix is orthogonal): with `transpose_inverse`, transposing `grad` by `argsort axes` is the
VJP of transposing by `axes`; the same lemma covers `MoveAxis`, `SwapAxes`, `Roll`, `.T`. -/
theorem permutation_vjp_is_inverse (φ ψ : List Nat) (n : Nat) (hφ : φ.Perm (List.range n))
    (hinv : ∀ k, k < n → ψ.getD (φ.getD k 0) 0 = k) (hψ : ψ.length = n) (g : List R) (hg : g.length = n) :
    scatterAdd φ n g = gather ψ g :=
  scatterAdd_perm φ ψ n hφ hinv hψ g hg

example : scatterAdd [2, 0, 1] 3 ([10, 20, 30] : List Int) = gather (argsort [2, 0, 1]) [10, 20, 30] :=
  permutation_vjp_is_inverse [2, 0, 1] (argsort [2, 0, 1]) 3 (by decide) (by decide) (by decide) _ (by decide)

/-! ## the shared tail of `Operation.backward`: `where`-mask, then `reduce_broadcast` -/

/-- `np.where(m, y, c)` is linear in `(y, c)` with the complementary diagonal 0/1 operators: the branch
selected by the mask receives `m ⊙ g`, the other `¬m ⊙ g`.  Covers `Where` (index 0: condition, index 1:
`~condition`), the `where=` mask of ufuncs (`backed_grad * self.where`) and `ApplyMask`. -/
theorem where_mask_vjp (m : List Bool) (g y c : List R) (h1 : m.length = g.length) (h2 : m.length = y.length)
    (h3 : m.length = c.length) :
    dot g (select m y c) = dot (maskMul m g) y + dot (maskMul (notMask m) g) c :=
  dot_select m g y c h1 h2 h3

example : dot ([1, 2, 3] : List Int) (select [true, false, true] [4, 5, 6] [7, 8, 9]) =
    dot (maskMul [true, false, true] [1, 2, 3]) [4, 5, 6] + dot (maskMul (notMask [true, false, true]) [1, 2, 3]) [7, 8, 9] :=
  where_mask_vjp _ _ _ _ rfl rfl rfl

/-- `reduce_broadcast(grad, var_shape)` — leading-axis sum, then keepdims-sum over the stretched axes, as
the code computes it — never fails on broadcast-compatible shapes (including 0-d and size-0 axes),
returns a vector of the variable's size and is the adjoint of broadcasting (`gather (bidx vs gs)`). -/
theorem reduce_broadcast_adjoint (vs gs : List Nat) (hc : compat vs gs = true) (y x : List R)
    (hy : y.length = size gs) (hx : x.length = size vs) :
    ∃ r, reduceBroadcast vs gs y = some r ∧ r.length = size vs ∧ dot r x = dot y (gather (bidx vs gs) x) :=
  reduceBroadcast_spec vs gs hc y x hy hx

/-- … hence it *is* the scatter-add along the broadcast index map -/
theorem reduce_broadcast_eq_scatter (vs gs : List Nat) (hc : compat vs gs = true) (y : List R)
    (hy : y.length = size gs) : reduceBroadcast vs gs y = some (scatterAdd (bidx vs gs) (size vs) y) := by
  obtain ⟨r, hr, hl, _⟩ := reduceBroadcast_spec vs gs hc y (zeros (size vs)) hy (by simp)
  rw [hr]
  congr 1
  apply vjp_unique (bidx vs gs) (size vs) y r hl
  intro x hx
  obtain ⟨r', hr', _, hd⟩ := reduceBroadcast_spec vs gs hc y x hy hx
  rw [hr] at hr'
  cases hr'
  exact hd.symm

example : reduceBroadcast [3, 1] [2, 3, 2] ([1, 2, 3, 4, 5, 6, 7, 8, 9, 10, 11, 12] : List Int) = some [18, 26, 34] := by
  decide

example : compat [2, 0, 1] [3, 2, 0, 4] = true ∧ compat [] [2, 2] = true ∧ compat [] [] = true := by decide

/-- the error branch is real: a gradient of lower rank than the variable is rejected -/
theorem reduce_broadcast_rank_error (vs gs : List Nat) (y : List R) (h : gs.length < vs.length) :
    reduceBroadcast vs gs y = none := by
  have : gs ≠ vs := fun e => by rw [e] at h; exact Nat.lt_irrefl _ h
  simp [reduceBroadcast, this, h]

/-! ## set-item -/

/-- `a[idx] = b` with last-write-wins (repeated positions allowed): the old contents receive `g` with the
written positions zeroed, the value receives `g[idx]` masked to the *winning* write of every position. -/
theorem setitem_vjp (g a : List R) (idx : List Nat) (b : List R) (hl : g.length = a.length)
    (hb : idx.length = b.length) :
    dot g (setitem a idx b) = dot (zeroAt g idx) a + dot (winCoef g idx) b :=
  dot_setitem g a idx b hl hb

example : dot ([10, 20, 30] : List Int) (setitem [1, 2, 3] [0, 1, 0] [5, 6, 7]) =
    dot (zeroAt [10, 20, 30] [0, 1, 0]) [1, 2, 3] + dot (winCoef [10, 20, 30] [0, 1, 0]) [5, 6, 7] :=
  setitem_vjp _ _ _ _ rfl rfl

/-- The full statement about `SetItem.backward_var` with its guard left free (the de-duplication only runs
when `_is_int_array_index` recognises the index as an integer array). -/
def setitem_vjp_statement : Prop :=
  ∀ (recognised : Bool) (g a : List Int) (idx : List Nat) (b : List Int), g.length = a.length →
    idx.length = b.length →
    dot g (setitem a idx b) = dot (zeroAt g idx) a + dot (setitemBwdValue recognised g idx) b

/-- … is false whenever the guard can miss a repeated integer index: witness
`x[np.array([0, 0], dtype=np.int32)] = b`, which the guard `np.issubdtype(·, np.int_)` of /repo before commit
00e4546 did miss (F1).  The harness replays this witness on the implementation on every run
(`struct_setitem_neg_witness_reproduces` in the evidence; `false` since the fix). -/
theorem setitem_vjp_neg : ¬ setitem_vjp_statement := by
  intro h
  have := h false [10] [0] [0, 0] [1, 1] rfl rfl
  revert this
  decide

/-- … and holds whenever the index is recognised as an integer array or has no repeated position -/
theorem setitem_vjp_partial (recognised : Bool) (g a : List R) (idx : List Nat) (b : List R)
    (H_recognised_or_distinct : recognised = true ∨ idx.Nodup) (hl : g.length = a.length)
    (hb : idx.length = b.length) :
    dot g (setitem a idx b) = dot (zeroAt g idx) a + dot (setitemBwdValue recognised g idx) b := by
  rw [dot_setitem g a idx b hl hb]
  rcases H_recognised_or_distinct with h | h
  · simp [setitemBwdValue, h]
  · cases recognised
    · simp [setitemBwdValue, winCoef_of_nodup g idx h]
    · simp [setitemBwdValue]

example : dot ([10, 20] : List Int) (setitem [0, 0] [1, 0] [3, 4]) =
    dot (zeroAt [10, 20] [1, 0]) [0, 0] + dot (setitemBwdValue false [10, 20] [1, 0]) [3, 4] :=
  setitem_vjp_partial false _ _ _ _ (Or.inr (by decide)) rfl rfl

/-! ## cumulative sum -/

/-- the adjoint of the prefix sum is the suffix sum, which is what `_reverse_cumsum`
(`flip ∘ cumsum ∘ flip`) computes -/
theorem cumsum_adjoint (g x : List R) (h : g.length = x.length) : dot g (cumsum x) = dot (rcumsum g) x := by
  rw [rcumsum_eq_suffixSums, dot_cumsum g x h]

theorem rcumsum_is_suffix_sum (g : List R) : rcumsum g = suffixSums g := rcumsum_eq_suffixSums g

example : dot ([1, 2, 3] : List Int) (cumsum [4, 5, 6]) = dot (rcumsum [1, 2, 3]) [4, 5, 6] :=
  cumsum_adjoint _ _ rfl

end MG.C02
