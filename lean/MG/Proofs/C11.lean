import MG.Gen.Tables
import MG.Proofs.Lemmas.Routes
import Mathlib.Analysis.SpecialFunctions.Pow.Real

/-!
# C11 — every public entry point to an operation behaves identically

Property theorems only.  The table `MG/Gen/Tables.lean` is **recorded from /repo on every run** (translator tie,
`harness/props/c11.py: regen`): for every registered ufunc, every `__array_function__` override and every operator
dunder, the route each public spelling takes through `Tensor._op` / `Tensor._in_place_op`.

* `routes_agree` — over the complete table: two spellings of the same operation (same option variant) on the same
  operand classes in the same form reach the same `Operation` classes with the same operand permutation, the same
  normalised options and the same in-place flags — after mapping the three pairs of different classes that are proved
  equivalent below (`ProvedEquivalent`) to a common representative.
* `routes_same_target` — the same across forms (plain / augmented / out= / where= / dtype=): class and operands agree.
* Routes with equal class, operands and options run the same code, so values, dtype, constant flag and gradients
  coincide; for the `ProvedEquivalent` pairs the forward and VJP formulas are proved equal here.
* `const_only_raise`, `no_diff_return_ndarray` — over the generated registry sets and their recorded behaviour.
-/

namespace MG.C11
open MG.Routes MG.Gen.Tables

/-! ### the pairs of different `Operation` classes that public spellings of one operation reach -/

/-- `x ** 2` / `x **= 2` reach `Square`, `x ** 1` reaches `Positive` (tensor_base.py:2027-2050) while `power(x, ·)` reaches
    `Power`; `x.T` reaches `Tensor_Transpose_Property` (tensor_base.py:2337-2356) while `transpose(x)` reaches `Transpose`. -/
inductive ProvedEquivalent : CallSig → CallSig → Prop
  | square (x : Arg) (o : List Nat) :
      ProvedEquivalent ⟨Target.Square, [x], o⟩ ⟨Target.Power, [x, .lit 2000], o⟩
  | positive (x : Arg) (o : List Nat) :
      ProvedEquivalent ⟨Target.Positive, [x], o⟩ ⟨Target.Power, [x, .lit 1000], o⟩
  | transposeProperty (x : Arg) (o : List Nat) :
      ProvedEquivalent ⟨Target.Tensor_Transpose_Property, [x], o⟩ ⟨Target.Transpose, [x], o⟩

/-- common representative of a call under `ProvedEquivalent` -/
def canon (c : CallSig) : CallSig :=
  match c.operands with
  | [x] =>
    if c.target = Target.Square then ⟨Target.Power, [x, .lit 2000], c.options⟩
    else if c.target = Target.Positive then ⟨Target.Power, [x, .lit 1000], c.options⟩
    else if c.target = Target.Tensor_Transpose_Property then ⟨Target.Transpose, [x], c.options⟩
    else c
  | _ => c

theorem canon_sound (c : CallSig) : canon c = c ∨ ProvedEquivalent c (canon c) := by
  obtain ⟨t, ops, o⟩ := c
  unfold canon
  match ops with
  | [] => exact Or.inl rfl
  | _ :: _ :: _ => exact Or.inl rfl
  | [x] =>
    simp only
    split
    · rename_i h; subst h; exact Or.inr (.square x o)
    · split
      · rename_i h; subst h; exact Or.inr (.positive x o)
      · split
        · rename_i h; subst h; exact Or.inr (.transposeProperty x o)
        · exact Or.inl rfl

/-! #### the formulas behind `ProvedEquivalent` (over ℝ; mirrored from src/mygrad/math/arithmetic/ops.py:67-103 and
src/mygrad/tensor_manip/transpose_like/ops.py:8-40) -/

/-- `Power.__call__`: `np.power(x, y)` -/
noncomputable def powerFwd (x y : ℝ) : ℝ := x ^ y
/-- `Power.backward_var(index=0)`: `grad * y * x ** np.where(y, y - 1, 1)` -/
noncomputable def powerVjp (g x y : ℝ) : ℝ := g * y * x ^ (if y ≠ 0 then y - 1 else 1)
/-- `Square.__call__`: `np.square(x)` -/
def squareFwd (x : ℝ) : ℝ := x * x
/-- `Square.backward_var`: `grad = 2 * grad; grad *= x` -/
def squareVjp (g x : ℝ) : ℝ := 2 * g * x
/-- `Positive.__call__` / `backward_var` -/
def positiveFwd (x : ℝ) : ℝ := x
def positiveVjp (g : ℝ) : ℝ := g

/-- `Power(·, 2) ≡ Square`: same value `x²`, same VJP `2·x·g`. -/
theorem power_two_equiv_square (g x : ℝ) :
    powerFwd x 2 = squareFwd x ∧ powerVjp g x 2 = squareVjp g x := by
  constructor
  · unfold powerFwd squareFwd
    rw [Real.rpow_two]; ring
  · unfold powerVjp squareVjp
    have h : (2 : ℝ) ≠ 0 := by norm_num
    rw [if_pos h]
    have : (2 : ℝ) - 1 = 1 := by norm_num
    rw [this, Real.rpow_one]; ring

/-- `Power(·, 1) ≡ Positive`: same value `x`, same VJP `g`. -/
theorem power_one_equiv_positive (g x : ℝ) :
    powerFwd x 1 = positiveFwd x ∧ powerVjp g x 1 = positiveVjp g := by
  constructor
  · unfold powerFwd positiveFwd
    rw [Real.rpow_one]
  · unfold powerVjp positiveVjp
    have h : (1 : ℝ) ≠ 0 := by norm_num
    rw [if_pos h]
    have : (1 : ℝ) - 1 = 0 := by norm_num
    rw [this, Real.rpow_zero]; ring

/-- `Transpose(axes=None)` uses `axes = range(ndim)[::-1]` forward and `grad.transpose(argsort(axes))` backward;
    `Tensor_Transpose_Property` uses `a.data.T` forward and `grad.T` backward. -/
def revAxes (n : Nat) : List Nat := (List.range n).reverse

/-- `Tensor_Transpose_Property ≡ Transpose(axes=None)`: the reversed axes send axis `i` to `n-1-i` (that is `.T`), and
    the reversal is its own inverse permutation, so `argsort(axes) = axes` and `grad.transpose(argsort(axes)) = grad.T`. -/
theorem transpose_property_equiv_transpose (n i : Nat) (hi : i < n) :
    (revAxes n)[i]? = some (n - 1 - i) ∧ (revAxes n)[n - 1 - i]? = some i := by
  have key : ∀ j, j < n → (revAxes n)[j]? = some (n - 1 - j) := by
    intro j hj
    unfold revAxes
    rw [List.getElem?_reverse (by simpa using hj)]
    simp only [List.length_range]
    rw [List.getElem?_range (by omega)]
  refine ⟨key i hi, ?_⟩
  rw [key (n - 1 - i) (by omega)]
  congr 1
  omega

/-- `clip(a, lo, hi)` is `minimum(hi, maximum(lo, a))` (src/mygrad/math/misc/funcs.py: clip); for `lo ≤ hi` that is the
    clamp of `x` to `[lo, hi]`. -/
theorem clip_eq_min_max (x lo hi : ℝ) (h : lo ≤ hi) :
    min hi (max lo x) = if x < lo then lo else if hi < x then hi else x := by
  split_ifs with h1 h2
  · rw [max_eq_left (le_of_lt h1), min_eq_right h]
  · rw [max_eq_right (le_of_not_gt h1), min_eq_left (le_of_lt h2)]
  · rw [max_eq_right (le_of_not_gt h1), min_eq_right (le_of_not_gt h2)]

/-! ### the table -/

/-- same mathematical operation (incl. option variant), same operand classes, same form -/
def sameOperation (r₁ r₂ : Route) : Prop := r₁.op = r₂.op ∧ r₁.probe = r₂.probe ∧ r₁.form = r₂.form

/-- classes, operands and options after `canon`, and the in-place flags -/
def full (r : Route) : List CallSig × List Bool := (r.sigs.map canon, r.flags)

/-- classes and operands after `canon` -/
def shapeOf (r : Route) : List (Nat × List Arg) := (r.sigs.map canon).map fun c => (c.target, c.operands)

theorem groups_ok : tableOK Route.key full groups = true := by decide +kernel

theorem opGroups_ok : tableOK Route.opKey shapeOf opGroups = true := by decide +kernel

theorem routes_bounded : routes.all Route.bounded = true := by decide +kernel

theorem flatten_map_flatten {α : Type} (t : List (List (List α))) :
    (t.map List.flatten).flatten = t.flatten.flatten := by
  induction t with
  | nil => rfl
  | cons a t ih => simp [List.flatten_cons, List.flatten_append, ih]

theorem opGroups_flatten : opGroups.flatten = routes := flatten_map_flatten table

/-- **C11, routes.**  Over the complete recorded table: all spellings of one operation on the same operand classes in the
    same form reach — up to `ProvedEquivalent` — the same `Operation` classes, with the same operand permutation, the same
    normalised options and the same in-place flags. -/
theorem routes_agree :
    ∀ r₁ ∈ routes, ∀ r₂ ∈ routes, sameOperation r₁ r₂ →
      r₁.sigs.map canon = r₂.sigs.map canon ∧ r₁.flags = r₂.flags := by
  intro r₁ h₁ r₂ h₂ hs
  have hb := List.all_eq_true.mp routes_bounded
  have hk : r₁.key = r₂.key := (key_inj (hb r₁ h₁) (hb r₂ h₂)).mpr hs
  have := tableOK_sound Route.key full groups groups_ok r₁ h₁ r₂ h₂ hk
  exact ⟨congrArg Prod.fst this, congrArg Prod.snd this⟩

/-- **C11, routes across forms.**  Plain, augmented, `out=`, `where=` and `dtype=` spellings of one operation on the same
    operand classes reach the same classes with the same operand permutation (up to `ProvedEquivalent`). -/
theorem routes_same_target :
    ∀ r₁ ∈ routes, ∀ r₂ ∈ routes, r₁.op = r₂.op ∧ r₁.probe = r₂.probe → shapeOf r₁ = shapeOf r₂ := by
  intro r₁ h₁ r₂ h₂ hs
  have hb := List.all_eq_true.mp routes_bounded
  have hk : r₁.opKey = r₂.opKey := (opKey_inj (hb r₁ h₁) (hb r₂ h₂)).mpr hs
  rw [← opGroups_flatten] at h₁ h₂
  exact tableOK_sound Route.opKey shapeOf opGroups opGroups_ok r₁ h₁ r₂ h₂ hk

/-! #### keyword arguments across forms

`out=` (ndarray or Tensor) and augmented assignment only choose where the result is written: within one family of forms
(no extra keyword / `where=` / `dtype=float32` / `dtype=float16`) every spelling must hand the same keyword arguments to the
`Operation` — e.g. `dtype=` must reach the op whether `out` is `None`, an ndarray or a Tensor. -/

def famOf (r : Route) : Nat := formFamily.getD r.form 0

def famKey (r : Route) : Nat := r.opKey * 8 + famOf r

/-- per call: class, operands (after `canon`) and the options that are arguments of the computation -/
def coreOf (r : Route) : List (Nat × List Arg × List Nat) :=
  (r.sigs.map canon).map fun c => (c.target, c.operands, c.options.filter fun o => !markerOptions.contains o)

def gfam : List Route → Nat
  | [] => 0
  | r :: _ => famOf r

/-- the form groups of one (operation, operand classes) entry merged by family -/
def splitFam (g : List (List Route)) : List (List Route) :=
  ((List.range 8).map fun f => (g.filter fun fg => decide (gfam fg = f)).flatten).filter fun l => !l.isEmpty

def famGroups : List (List Route) := table.flatMap splitFam

theorem table_fam_bounded : (table.all fun g => g.all fun fg => decide (gfam fg < 8)) = true := by decide +kernel

theorem mem_splitFam (g : List (List Route)) (h : ∀ fg ∈ g, gfam fg < 8) :
    ∀ r ∈ g.flatten, r ∈ (splitFam g).flatten := by
  intro r hr
  obtain ⟨fg, hfg, hrfg⟩ := List.mem_flatten.mp hr
  refine List.mem_flatten.mpr ⟨(g.filter fun x => decide (gfam x = gfam fg)).flatten, ?_, ?_⟩
  · unfold splitFam
    refine List.mem_filter.mpr ⟨List.mem_map.mpr ⟨gfam fg, List.mem_range.mpr (h fg hfg), rfl⟩, ?_⟩
    have : r ∈ (g.filter fun x => decide (gfam x = gfam fg)).flatten :=
      List.mem_flatten.mpr ⟨fg, List.mem_filter.mpr ⟨hfg, by simp⟩, hrfg⟩
    cases hl : (g.filter fun x => decide (gfam x = gfam fg)).flatten with
    | nil => rw [hl] at this; cases this
    | cons a l => rfl
  · exact List.mem_flatten.mpr ⟨fg, List.mem_filter.mpr ⟨hfg, by simp⟩, hrfg⟩

theorem mem_famGroups : ∀ r ∈ routes, r ∈ famGroups.flatten := by
  intro r hr
  obtain ⟨fg, hfg, hrfg⟩ := List.mem_flatten.mp hr
  obtain ⟨g, hg, hfgg⟩ := List.mem_flatten.mp hfg
  have hb : ∀ x ∈ g, gfam x < 8 := by
    intro x hx
    have := List.all_eq_true.mp (List.all_eq_true.mp table_fam_bounded g hg) x hx
    simpa using this
  have h1 : r ∈ (splitFam g).flatten := mem_splitFam g hb r (List.mem_flatten.mpr ⟨fg, hfgg, hrfg⟩)
  obtain ⟨l, hl, hrl⟩ := List.mem_flatten.mp h1
  exact List.mem_flatten.mpr ⟨l, List.mem_flatMap.mpr ⟨g, hg, hl⟩, hrl⟩

theorem famGroups_ok : tableOK famKey coreOf famGroups = true := by decide +kernel

/-- **C11, keyword arguments across forms.**  Spellings of one operation on the same operand classes within one family of
    forms reach the same classes with the same operands and the same computation options, wherever the result is written. -/
theorem routes_same_options :
    ∀ r₁ ∈ routes, ∀ r₂ ∈ routes, r₁.op = r₂.op ∧ r₁.probe = r₂.probe ∧ famOf r₁ = famOf r₂ → coreOf r₁ = coreOf r₂ := by
  intro r₁ h₁ r₂ h₂ hs
  have hb := List.all_eq_true.mp routes_bounded
  have hk : r₁.opKey = r₂.opKey := (opKey_inj (hb r₁ h₁) (hb r₂ h₂)).mpr ⟨hs.1, hs.2.1⟩
  have hk' : famKey r₁ = famKey r₂ := by unfold famKey; rw [hk, hs.2.2]
  exact tableOK_sound famKey coreOf famGroups famGroups_ok r₁ (mem_famGroups r₁ h₁) r₂ (mem_famGroups r₂ h₂) hk'

/-- the table is not vacuous: every registered override has a probe, every group compares at least two spellings, and
    there are routes of every kind of spelling -/
theorem table_complete_forms :
    unprobedOverrides = [] ∧ groups.all (fun g => decide (2 ≤ g.length)) = true ∧
    ([Kind.mgFunction, .npFunction, .npUfunc, .ufuncOutTensor, .ufuncOutNdarray, .ufuncWhere, .ufuncDtype, .method,
      .operator, .reflectedOperator, .augmentedOperator].all fun k => routes.any fun r => decide (r.kind = k)) = true := by
  refine ⟨by decide, by decide +kernel, by decide +kernel⟩

/-- non-vacuity of `routes_agree`: `x ** 2` and `power(x, 2)` are in the table, are the same operation, and reach
    different classes -/
example : ∃ r₁ ∈ routes, ∃ r₂ ∈ routes, sameOperation r₁ r₂ ∧ r₁.sigs ≠ r₂.sigs := by
  have h : (groups.any fun g => g.any fun r₁ => g.any fun r₂ =>
      decide (r₁.op = r₂.op ∧ r₁.probe = r₂.probe ∧ r₁.form = r₂.form) && decide (r₁.sigs ≠ r₂.sigs)) = true := by
    decide +kernel
  obtain ⟨g, hg, h⟩ := List.any_eq_true.mp h
  obtain ⟨r₁, h₁, h⟩ := List.any_eq_true.mp h
  obtain ⟨r₂, h₂, h⟩ := List.any_eq_true.mp h
  simp only [Bool.and_eq_true, decide_eq_true_eq] at h
  exact ⟨r₁, List.mem_flatten.mpr ⟨g, hg, h₁⟩, r₂, List.mem_flatten.mpr ⟨g, hg, h₂⟩, h.1, h.2⟩

/-! ### registry sets -/

/-- the rounding / modulo family among NumPy's ufuncs (`np.mod` is `np.remainder`) -/
def roundingModuloFamily : List Nat :=
  [Fn.f_floor, Fn.f_ceil, Fn.f_rint, Fn.f_trunc, Fn.f_remainder, Fn.f_fmod, Fn.f_floor_divide, Fn.f_divmod]

/-- every member of the rounding/modulo family is registered const-only, and every const-only ufunc was observed to raise
    on a non-constant tensor and to return NumPy's answer on constant ones -/
theorem const_only_raise :
    (∀ f ∈ roundingModuloFamily, f ∈ constOnly) ∧
    (∀ f ∈ constOnly, f ∈ raisesOnNonConstant ∧ f ∈ worksOnConstant) := by
  decide

/-- every non-differentiable function / boolean ufunc of the registry was observed to return plain arrays (no Tensor),
    equal to NumPy's answer on the underlying arrays -/
theorem no_diff_return_ndarray : ∀ f ∈ noDiff ++ boolOnly, f ∈ returnsNdarray := by
  decide

end MG.C11
