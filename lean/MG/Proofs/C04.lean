import MG.Proofs.C12
import MG.IO.EngIO
/-!
# C04 — views and in-place updates mirror NumPy's memory semantics

The reference semantics (buffers, strided windows, basic indexing, transposes, view-or-copy reshape,
broadcasting: `MG/Core/NDIndex.lean`) and MyGrad's machinery on top of it (`MG/Core/Engine.lean`,
`MG/Core/InPlace.lean`) are executable and are compared with NumPy / MyGrad after every statement by
`harness/props/c04.py`.  Proved here, for all heaps and arguments: where a tensor's memory can come
from and what a write can touch.
-/
namespace MG.C04
open MG.Eng MG.ND MG.C12

/-- **mirror_keeps_identity.**  `mirror_tensor(target, source)` changes the *state* of the target
object, never which object it is: the public tensor keeps its id, and every other tensor its state. -/
theorem mirror_keeps_identity (h : Heap) (target source : Nat) :
    (mirror h target source).t target = h.t source ∧
    ∀ t, t ≠ target → (mirror h target source).t t = h.t t := by
  refine ⟨by simp [mirror], fun t ht => ?_⟩
  simp only [mirror]
  exact t_setT_ne _ _ _ _ ht

/-- two windows share memory iff they lie in the same buffer and address a common position -/
theorem shares_iff_positions (a b : Arr) :
    sharesMem a b = true ↔ a.buf = b.buf ∧ ∃ p ∈ a.d.positions, p ∈ b.d.positions := by
  simp [sharesMem]

theorem sharesMem_comm (a b : Arr) : sharesMem a b = sharesMem b a := by
  rw [Bool.eq_iff_iff, shares_iff_positions, shares_iff_positions]
  constructor
  · rintro ⟨e, p, h1, h2⟩; exact ⟨e.symm, p, h2, h1⟩
  · rintro ⟨e, p, h1, h2⟩; exact ⟨e.symm, p, h2, h1⟩

/-- **view_is_window_of_parent_buffer.**  When NumPy serves a view op as a view, the result's data
is a window into the *parent's own buffer* (nothing is allocated, no buffer is written): the result
aliases exactly the parent's family. -/
theorem view_is_window_of_parent_buffer (h : Heap) (f : ViewFn) (vars : List Nat) (h' : Heap) (a : Arr)
    (p : Nat) (hok : forwardOp h (.view f) vars = .ok (h', a, some p)) :
    h' = h ∧ p = vars.getD 0 0 ∧ a.buf = (h.t p).data.buf := by
  unfold forwardOp at hok
  simp only at hok
  split at hok
  · cases hok
  · simp only [Except.ok.injEq, Prod.mk.injEq, Option.some.injEq] at hok
    obtain ⟨rfl, rfl, rfl⟩ := hok
    exact ⟨rfl, rfl, rfl⟩
  · simp only [Except.ok.injEq, Prod.mk.injEq] at hok
    exact absurd hok.2.2 (by simp)

/-- **nonview_result_owns_fresh_memory.**  Every other successful forward pass (non-view ops, and view
ops NumPy has to serve by copying) puts its result into a freshly allocated buffer — one no existing
tensor can share — except `ApplyMask`, which by design hands back its first argument's array. -/
theorem nonview_result_owns_fresh_memory (h : Heap) (k : Kind) (vars : List Nat) (h' : Heap) (a : Arr)
    (hok : forwardOp h k vars = .ok (h', a, none)) (hk : ∀ m, k ≠ .applyMask m) :
    a.buf = h.next ∧ h'.next = h.next + 1 := by
  unfold forwardOp at hok
  split at hok
  · simp only at hok
    split at hok
    · cases hok
    · simp only [Except.ok.injEq, Prod.mk.injEq] at hok
      exact absurd hok.2.2 (by simp)
    · simp only [Except.ok.injEq, Prod.mk.injEq] at hok
      obtain ⟨rfl, rfl, _⟩ := hok
      exact ⟨rfl, rfl⟩
  · rename_i m
    exact absurd rfl (hk m)
  · split at hok
    · cases hok
    · simp only [Except.ok.injEq, Prod.mk.injEq] at hok
      obtain ⟨rfl, rfl, _⟩ := hok
      exact ⟨rfl, rfl⟩

/-- a write through a window touches only that window's buffer -/
theorem write_other_buffers (h : Heap) (a : Arr) (vals : List Int) (b : Nat) (hb : b ≠ a.buf) :
    (h.write a vals).buf b = h.buf b := by
  simp only [Heap.write, Heap.buf]
  rw [lookup_insert_ne _ _ _ _ hb]

/-- **inplace_write_is_confined.**  The guarded kernel call of an in-place update (`out=` pointing into
the fresh copy of the base) writes that copy only: every buffer that existed before — in particular
the memory the placeholders keep pointing at — is left as it was. -/
theorem inplace_write_is_confined (h : Heap) (kind : Kind) (inputs : List Operand) (constant : Option Bool)
    (wm : Option (Shape × List Bool)) (out : Arr) (h' : Heap) (o : Nat)
    (hok : opStepOut h kind inputs constant wm out = .ok (h', o)) (b : Nat) (hb : b < h.next) (hne : b ≠ out.buf) :
    h'.buf b = h.buf b := by
  unfold opStepOut at hok
  simp only at hok
  split at hok
  · cases hok
  · rename_i vals hw
    simp only [Except.ok.injEq, Prod.mk.injEq] at hok
    obtain ⟨rfl, _⟩ := hok
    have hwr := wrapOperands_frames inputs h b hb
    simp only [Heap.buf, bufs_setT, bufs_fresh]
    -- the three folds and the two records do not touch buffers
    have hf1 : ∀ (f : Nat) (vs : List Nat) (h0 : Heap),
        (vs.foldl (fun h v => h.modT v fun t => { t with ops := f :: t.ops }) h0).bufs = h0.bufs :=
      fun f vs h0 => foldl_modT_bufs vs id (fun _ t => { t with ops := f :: t.ops }) h0
    have hf2 : ∀ (vs : List Nat) (h0 : Heap),
        (vs.foldl (fun h v =>
          let tv := h.t v
          let h := if tv.base.isSome ∧ tv.creator.isNone then h.modT v ({ · with base := none }) else h
          h.modT v ({ · with grad := none, viewGrad := none })) h0).bufs = h0.bufs := by
      intro vs
      induction vs with
      | nil => intro h0; rfl
      | cons v vs ihv =>
        intro h0
        simp only [List.foldl_cons]
        rw [ihv]
        split <;> rfl
    rw [hf1]
    simp only [Heap.setOp, bufs_fresh]
    rw [hf2]
    have := write_other_buffers (wrapOperands h inputs).1 out vals b hne
    simp only [Heap.buf] at this hwr
    rw [this, hwr.1]

/-! ## Non-vacuity: `x[::2]` aliases `x`, `x + x` does not -/
def sampleCheck : Bool :=
  let h : Heap := {}
  let (h, a) := h.newArr ([4], [1, 2, 3, 4])
  let (h, x) := h.fresh
  let h := h.setT x { data := a, const := false }
  match opStep h (.view (.getitem [.slice none none 2])) [.t x], opStep h .add [.t x, .t x] with
  | .ok (h1, v), .ok (h2, s) =>
    sharesMem (h1.t v).data (h1.t x).data && (h1.t v).base == some x &&
    !sharesMem (h2.t s).data (h2.t x).data && (h2.t s).base == none
  | _, _ => false

example : sampleCheck = true := by decide

end MG.C04
