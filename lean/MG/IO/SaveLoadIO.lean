import MG.Core.SaveLoad
import MG.IO.Util
/-! Line-protocol handler for the save/load model (C18), tag `io`.

```
io rt   D SHAPE VALS CONST G KIND,HASBASEGRAD,HASCREATOR,CACHE,NOPS,WRITEABLE,BASECONST
io load D SHAPE VALS G
```
`D` dtype name; `SHAPE` comma list or `-` (0-d); `VALS` comma list or `-` (empty); `G` = `none` or
`D;SHAPE;VALS`; `KIND` = `own` (G is `_grad`) or `view` (G is the view of the parent's gradient);
`CACHE` = 0 (no `_view_grad`), 1 (valid), 2 (stale: belongs to another base-gradient array); for a view of a
constant base (`BASECONST` = 1) G is the view's own `_grad`.
-/
namespace MG.SaveLoad
open MG.IO

def parseDType : String → Option DType
  | "bool" => some .bool | "i8" => some .i8 | "i16" => some .i16 | "i32" => some .i32 | "i64" => some .i64
  | "u8" => some .u8 | "u16" => some .u16 | "u32" => some .u32 | "u64" => some .u64
  | "f16" => some .f16 | "f32" => some .f32 | "f64" => some .f64
  | _ => none

def showDType : DType → String
  | .bool => "bool" | .i8 => "i8" | .i16 => "i16" | .i32 => "i32" | .i64 => "i64"
  | .u8 => "u8" | .u16 => "u16" | .u32 => "u32" | .u64 => "u64"
  | .f16 => "f16" | .f32 => "f32" | .f64 => "f64"

def parseArr (d s v : String) : Option Arr := do
  let d ← parseDType d
  let s ← natList? s
  let v ← intList? v
  if v.length = prod s then some ⟨v, s, d⟩ else none

def parseG (g : String) : Option (Option Arr) :=
  if g = "none" then some none
  else match g.splitOn ";" with
    | [d, s, v] => (parseArr d s v).map some
    | _ => none

def showArr (a : Arr) : String := s!"{showDType a.dtype};{showNats a.shape};{showInts a.vals}"

def showG : Option Arr → String
  | none => "none"
  | some a => showArr a

def showLoad : Except Err Tensor → String
  | .error .valueError => "load: ValueError"
  | .ok t => s!"load: {showArr t.data} const={b2s t.constant} grad={showG t.gradProp} creator={b2s t.creator.isSome} nops={t.ops.length}"

def mkState (a : Arr) (c : Bool) (g : Option Arr) (st : String) : Option Tensor :=
  match st.splitOn "," with
  | [kind, hbg, hcr, cache, nops, w, bc] => do
    let bc ← s2b? bc
    let hbg ← s2b? hbg
    let hcr ← s2b? hcr
    let nops ← nops.toNat?
    let w ← s2b? w
    let creator := if hcr then some 1 else none
    let ops := (List.range nops).map (· + 10)
    match kind with
    | "own" => some { data := a, constant := c, grad_ := g, base := none, viewGrad := none, creator, ops, writeable := w }
    | "view" =>
      let link : ViewLink := ⟨if hbg then some 1 else none, if bc then none else g, bc⟩
      let vg : Option (Option (Arr × Nat)) :=
        match cache with
        | "0" => some none
        | "1" => some (g.map (·, 1))
        | "2" => some (some (⟨a.vals.map fun _ => 0, a.shape, a.dtype⟩, 0))
        | _ => none
      vg.map fun vg => { data := a, constant := c, grad_ := if bc then g else none, base := some link, viewGrad := vg, creator, ops, writeable := w }
    | _ => none
  | _ => none

def handle : List String → String
  | ["rt", d, s, v, c, g, st] =>
    match parseArr d s v, s2b? c, parseG g with
    | some a, some c, some g =>
      match mkState a c g st with
      | some t =>
        let (t', ar) := save t
        let frame := t' == { t with viewGrad := t'.viewGrad }
        s!"save: grad={showG t'.gradProp} creator={b2s t'.creator.isSome} nops={t'.ops.length} w={b2s t'.writeable} const={b2s t'.constant} frame={b2s frame} keys={if ar.grad.isSome then "data,grad" else "data"} | {showLoad (load ar)}"
      | none => "bad-op"
    | _, _, _ => "bad-op"
  | ["load", d, s, v, g] =>
    match parseArr d s v, parseG g with
    | some a, some g => showLoad (load ⟨a, g⟩)
    | _, _ => "bad-op"
  | _ => "bad-op"

end MG.SaveLoad
