import MG.Core.Lock
import MG.IO.Util
/-! Line-protocol handler for the memory-guard model (M5).

```
lock reset
lock new <aid> <base|-> <w> <orig>      newArr      -> ok o=<index> H=<fresh><flags><outs><force> w=…
lock opc <o>,<o>,…                      opCreated   -> ok k=<hold> locks=<unique arrs and bases> H=… w=…
lock ext <k> <outs|-> <forced|->        opExtend
lock fin <k>                            opFinalized -> ok rel=<live refs released, in order> H=… w=…
lock die <o>                            arrayDied
lock flags                              -> w=…
lock dump                               tables (debugging)
```
`w=` lists `index:flag` of every alive array, in index order.  `impossible` = the event cannot happen in
that state (the model rejects instead of defaulting). -/
namespace MG.Lock
open MG.IO

def showFlags (s : State) : String :=
  let rec go (i : Nat) : List Arr → List String
    | [] => []
    | a :: as => if a.alive then s!"{i}:{b2s a.writeable}" :: go (i + 1) as else go (i + 1) as
  let l := go 0 s.arrs
  "w=" ++ (if l.isEmpty then "-" else ",".intercalate l)

def showH (s : State) (e : Event) : String :=
  s!"H={b2s (Hfresh s e)}{b2s (Hflags s e)}{b2s (Houts s e)}{b2s (Hforce s e)}"

def optNat? (t : String) : Option (Option Nat) :=
  if t = "-" then some none else t.toNat?.map some

def doEvent (s : State) (e : Event) (info : State → String) : State × String :=
  match step s e with
  | some s' => (s', s!"ok {info s'} {showH s e} {showFlags s'}")
  | none => (s, "impossible")

def handle (s : State) : List String → State × String
  | ["reset"] => (init, "ok")
  | ["new", aid, base, w, orig] =>
    match aid.toNat?, optNat? base, s2b? w, s2b? orig with
    | some aid, some base, some w, some orig =>
      doEvent s (.newArr aid base w orig) (fun s' => s!"o={s'.arrs.length - 1}")
    | _, _, _, _ => (s, "bad-op")
  | ["opc", ins] =>
    match natList? ins with
    | some ins =>
      doEvent s (.opCreated ins) (fun s' => s!"k={s'.holds.length - 1} locks={showNats (s'.holds.getLast?.getD [])}")
    | none => (s, "bad-op")
  | ["ext", k, outs, forced] =>
    match k.toNat?, natList? outs, optNat? forced with
    | some k, some outs, some forced => doEvent s (.opExtend k outs forced) (fun _ => "-")
    | _, _, _ => (s, "bad-op")
  | ["fin", k] =>
    match k.toNat? with
    | some k =>
      -- the arrays `release_writeability_lock_on_op` passes to the release function: live refs, in order
      let rel := ((s.holds[k]?).getD []).filter (isAlive s)
      doEvent s (.opFinalized k) (fun _ => s!"rel={showNats rel}")
    | none => (s, "bad-op")
  | ["die", o] =>
    match o.toNat? with
    | some o => doEvent s (.arrayDied o) (fun _ => "-")
    | none => (s, "bad-op")
  | ["flags"] => (s, showFlags s)
  | ["dump"] =>
    (s, s!"counter={repr s.counter} tracker={repr s.tracker} waiting={repr s.waiting} holds={repr s.holds}".replace "\n" " ")
  | _ => (s, "bad-op")

end MG.Lock
