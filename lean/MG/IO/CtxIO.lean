import MG.Core.Ctx
import MG.IO.Util
/-! Line-protocol handler for the context-manager model (M6). -/
namespace MG.Ctx
open MG.IO

def parseMgr : String → Option Mgr
  | "na" => some .noAutodiff
  | "gon" => some .guardOn
  | "goff" => some .guardOff
  | _ => none

def showG (s : State) : String := s!"track={b2s s.track} guard={b2s s.guard}"

/-- parse a prefix-encoded word: `S m ( items )`, `T0`/`T1`, `R`, `N`; fuel-bounded -/
def parseItems : Nat → List String → Option (List Item × List String)
  | 0, _ => none
  | _, [] => some ([], [])
  | _, ")" :: rest => some ([], ")" :: rest)
  | f + 1, "S" :: m :: "(" :: rest =>
    match parseMgr m, parseItems f rest with
    | some m, some (body, ")" :: rest') =>
      match parseItems f rest' with
      | some (is, r) => some (.scope m body :: is, r)
      | none => none
    | _, _ => none
  | f + 1, "T0" :: rest => (parseItems f rest).map fun (is, r) => (.turn false :: is, r)
  | f + 1, "T1" :: rest => (parseItems f rest).map fun (is, r) => (.turn true :: is, r)
  | f + 1, "R" :: rest => (parseItems f rest).map fun (is, r) => (.raise :: is, r)
  | f + 1, "N" :: rest => (parseItems f rest).map fun (is, r) => (.nop :: is, r)
  | _, _ => none

/-- `run <word>`: the structured semantics (`runBlock`) the theorems are about -/
def handleRun (s : State) (toks : List String) : State × String :=
  match parseItems (toks.length + 1) toks with
  | some (b, []) =>
    match runBlock s b with
    | some (s', exc) => (s', s!"{showG s'} exc={b2s exc}")
    | none => (s, "KeyError")
  | _ => (s, "bad-op")

/-- `reset` | `enter m` | `exit m` | `turn 0|1` -/
def handle (s : State) : List String → State × String
  | ["reset"] => (init, showG init)
  | ["enter", m] =>
    match parseMgr m with
    | some m => let s' := enter s m; (s', showG s')
    | none => (s, "bad-op")
  | ["exit", m] =>
    match parseMgr m with
    | some m =>
      match exit s m with
      | some s' => (s', showG s')
      | none => (s, "KeyError")
    | none => (s, "bad-op")
  | ["turn", v] =>
    match s2b? v with
    | some v => let s' := turn s v; (s', showG s')
    | none => (s, "bad-op")
  | "run" :: toks => handleRun s toks
  | _ => (s, "bad-op")

end MG.Ctx
