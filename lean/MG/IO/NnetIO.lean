import MG.Core.Nnet
import MG.IO.Util
/-!
Line-protocol handler for the nnet model (M9).  Stateless.

```
nnet swv    <batch> <x:w:s:d;…> [<data>]
nnet swvseq <shape> <window> <step> <dilation|none> [<data>]      (argument sequences, any lengths)
nnet conv   <n> <c> <cw> <f> <x:w:s:p:d;…> [<xdata> <wdata>]
nnet pool   <batch> <x:w:s;…> [<data>]
```
`<batch>`, `<data>`: comma-separated integers, `-` = empty.  Axis lists: `;`-separated records, `-` = none.
Answers: `ok shape=… strides=… wr=0|1 [oob=0|1 vals=…]` (swv), `ok shape=… [oob=… vals=… naive=0|1]`
(conv/pool; `naive` = the model's naive evaluation agrees with its window-view evaluation), `err <Class>`.
-/
namespace MG.Nnet
open MG.IO

def recs? (s : String) (arity : Nat) : Option (List (List Int)) :=
  if s = "-" || s = "" then some []
  else (splitNE s ";").mapM fun r =>
    match (splitNE r ":").mapM String.toInt? with
    | some l => if l.length = arity then some l else none
    | none => none

def axes? (s : String) : Option (List Ax) :=
  (recs? s 4).bind fun rs => rs.mapM fun
    | [x, w, st, d] => some ⟨x, w, st, d⟩
    | _ => none

def caxes? (s : String) : Option (List CAx) :=
  (recs? s 5).bind fun rs => rs.mapM fun
    | [x, w, st, p, d] => some ⟨x, w, st, p, d⟩
    | _ => none

def paxes? (s : String) : Option (List PAx) :=
  (recs? s 3).bind fun rs => rs.mapM fun
    | [x, w, st] => some ⟨x, w, st⟩
    | _ => none

def showView (v : View) : String :=
  s!"shape={showInts v.shape} strides={showInts v.strides} wr={b2s v.writeable}"

def showViewVals (r : Except Err View) (data : Option String) : String :=
  match r with
  | .error e => "err " ++ e.name
  | .ok v =>
    match data with
    | none => "ok " ++ showView v
    | some d =>
      match intList? d with
      | some buf =>
        let vals := (indices v.shape).map (viewGet (memOf buf) v)
        s!"ok {showView v} oob={b2s (viewOOB v (Int.ofNat buf.length))} vals={showInts vals}"
      | none => "bad-op"

def handleSwv (b ax : String) (data : Option String) : String :=
  match intList? b, axes? ax with
  | some batch, some axes => showViewVals (swv batch axes) data
  | _, _ => "bad-op"

def handleSwvSeq (sh w st dl : String) (data : Option String) : String :=
  match intList? sh, intList? w, intList? st, (if dl = "none" then some none else (intList? dl).map some) with
  | some shape, some window, some step, some dil => showViewVals (swvSeq shape window step dil) data
  | _, _, _, _ => "bad-op"

def handleConv (n c cw f ax : String) (data : Option (String × String)) : String :=
  match n.toInt?, c.toInt?, cw.toInt?, f.toInt?, caxes? ax with
  | some n, some c, some cw, some f, some axes =>
    match data with
    | none =>
      match convView n c cw axes with
      | .ok _ => "ok shape=" ++ showInts (convOutShape n f axes)
      | .error e => "err " ++ e.name
    | some (xd, wd) =>
      match intList? xd, intList? wd with
      | some xbuf, some wbuf =>
        match convView n c cw axes, convImpl n c cw f axes xbuf wbuf,
            convNaive n c cw f axes xbuf wbuf with
        | .ok v, .ok (sh, vals), .ok (_, nvals) =>
          let oob := viewOOB v (prod (convPShape n c axes))
          s!"ok shape={showInts sh} oob={b2s oob} vals={showInts vals} naive={b2s (decide (vals = nvals))}"
        | .error e, _, _ => "err " ++ e.name
        | _, _, _ => "bad-op"
      | _, _ => "bad-op"
  | _, _, _, _, _ => "bad-op"

def handlePool (b ax : String) (data : Option String) : String :=
  match intList? b, paxes? ax with
  | some batch, some axes =>
    match data with
    | none =>
      match poolView batch axes with
      | .ok _ => "ok shape=" ++ showInts (poolOutShape batch axes)
      | .error e => "err " ++ e.name
    | some d =>
      match intList? d with
      | some buf =>
        match poolView batch axes, maxPoolImpl batch axes buf, maxPoolNaive batch axes buf with
        | .ok v, .ok (sh, vals), .ok (_, nvals) =>
          let oob := viewOOB v (Int.ofNat buf.length)
          s!"ok shape={showInts sh} oob={b2s oob} vals={showInts vals} naive={b2s (decide (vals = nvals))}"
        | .error e, _, _ => "err " ++ e.name
        | _, _, _ => "bad-op"
      | none => "bad-op"
  | _, _ => "bad-op"

def handle : List String → String
  | ["swv", b, ax] => handleSwv b ax none
  | ["swv", b, ax, d] => handleSwv b ax (some d)
  | ["swvseq", sh, w, st, dl] => handleSwvSeq sh w st dl none
  | ["swvseq", sh, w, st, dl, d] => handleSwvSeq sh w st dl (some d)
  | ["conv", n, c, cw, f, ax] => handleConv n c cw f ax none
  | ["conv", n, c, cw, f, ax, xd, wd] => handleConv n c cw f ax (some (xd, wd))
  | ["pool", b, ax] => handlePool b ax none
  | ["pool", b, ax, d] => handlePool b ax (some d)
  | _ => "bad-op"

end MG.Nnet
