import MG.IO.LockIO
/-! Stand-alone entry point for the `lock` protocol (same handler as the `lock` tag of `MG/Driver.lean`);
used by `harness/props/c08.py` only as a fall-back when the shared driver cannot be started. -/
open MG

partial def lockLoop (h : IO.FS.Stream) (out : IO.FS.Stream) (d : Lock.State) : IO Unit := do
  let line ← h.getLine
  if line.isEmpty then return ()
  match (line.trimAscii.toString.splitOn " ").filter (· ≠ "") with
  | "lock" :: rest =>
    let (d', o) := Lock.handle d rest
    out.putStrLn o
    lockLoop h out d'
  | _ =>
    out.putStrLn "bad-op"
    lockLoop h out d

def main : IO Unit := do
  lockLoop (← IO.getStdin) (← IO.getStdout) Lock.init
