/-! Parsing helpers shared by the line-protocol handlers (import-free). -/
namespace MG.IO

def b2s (b : Bool) : String := if b then "1" else "0"

def s2b? : String → Option Bool
  | "1" => some true
  | "0" => some false
  | _ => none

/-- split on a separator, dropping empty pieces -/
def splitNE (s : String) (sep : String) : List String :=
  (s.splitOn sep).filter (· ≠ "")

/-- `"2,3,4"` → `[2,3,4]`; `"-"` or `""` → `[]` -/
def natList? (s : String) : Option (List Nat) :=
  if s = "-" || s = "" then some [] else (splitNE s ",").mapM String.toNat?

def intList? (s : String) : Option (List Int) :=
  if s = "-" || s = "" then some [] else (splitNE s ",").mapM String.toInt?

def showNats (l : List Nat) : String :=
  if l.isEmpty then "-" else ",".intercalate (l.map toString)

def showInts (l : List Int) : String :=
  if l.isEmpty then "-" else ",".intercalate (l.map toString)

end MG.IO
