import MG.Core.Linear
import MG.IO.Util
/-! Line-protocol handler (tag `lin`, stateless) for the linear index arithmetic of `MG/Core/Linear.lean`:
the harness sends the index map / matrix it recovered from the real forward pass together with an
integer cotangent `g`, and compares the real backward pass with the answer. -/
namespace MG.Lin
open MG.IO

def bits? (s : String) : Option (List Bool) :=
  if s = "-" || s = "" then some [] else (splitNE s ",").mapM s2b?

def showBoth (k1 : String) (a : List Int) (k2 : String) (b : List Int) : String :=
  s!"{k1}={showInts a} {k2}={showInts b}"

/-- rows separated by `;`, entries by `,`; `m` rows expected -/
def rows? (m : Nat) (s : String) : Option (List (List Int)) :=
  if m = 0 then some []
  else
    match (s.splitOn ";").mapM intList? with
    | some rs => if rs.length = m then some rs else none
    | none => none

/--
* `scatter n φ g`            → `scatterAdd φ n g`            | `IndexError` (some `φ j ≥ n`)
* `matT m n A g`             → `applyMatT A n g`
* `rb vs gs g`               → `reduceBroadcast vs gs g`     | `ValueError` (rank of grad < rank of var)
* `bidx vs gs`               → `bidx vs gs`
* `setitem r n idx g`        → `a=zeroAt g idx b=setitemBwdValue r g idx` | `IndexError`
* `rcumsum g`                → `rcumsum g`
* `argsort ndim axes`        → `argsort (normAxes ndim axes)`
* `mask m g`                 → `t=maskMul m g f=maskMul (¬m) g`
-/
def handle : List String → String
  | ["scatter", n, φ, g] =>
    match n.toNat?, natList? φ, intList? g with
    | some n, some φ, some g =>
      if φ.length ≠ g.length then "bad-op"
      else if φ.any (· ≥ n) then "IndexError"
      else showInts (scatterAdd φ n g)
    | _, _, _ => "bad-op"
  | ["matT", m, n, A, g] =>
    match m.toNat?, n.toNat?, intList? g with
    | some m, some n, some g =>
      match rows? m A with
      | some A =>
        if g.length ≠ m || A.any (·.length ≠ n) then "bad-op" else showInts (applyMatT A n g)
      | none => "bad-op"
    | _, _, _ => "bad-op"
  | ["rb", vs, gs, g] =>
    match natList? vs, natList? gs, intList? g with
    | some vs, some gs, some g =>
      if g.length ≠ size gs then "bad-op"
      else
        match reduceBroadcast vs gs g with
        | some r => showInts r
        | none => "ValueError"
    | _, _, _ => "bad-op"
  | ["bidx", vs, gs] =>
    match natList? vs, natList? gs with
    | some vs, some gs => showNats (bidx vs gs)
    | _, _ => "bad-op"
  | ["setitem", r, n, idx, g] =>
    match s2b? r, n.toNat?, natList? idx, intList? g with
    | some r, some n, some idx, some g =>
      if g.length ≠ n then "bad-op"
      else if idx.any (· ≥ n) then "IndexError"
      else showBoth "a" (zeroAt g idx) "b" (setitemBwdValue r g idx)
    | _, _, _, _ => "bad-op"
  | ["rcumsum", g] =>
    match intList? g with
    | some g => showInts (rcumsum g)
    | none => "bad-op"
  | ["argsort", ndim, axes] =>
    match ndim.toNat?, intList? axes with
    | some ndim, some axes => showNats (argsort (normAxes ndim axes))
    | _, _ => "bad-op"
  | ["mask", m, g] =>
    match bits? m, intList? g with
    | some m, some g =>
      if m.length ≠ g.length then "bad-op" else showBoth "t" (maskMul m g) "f" (maskMul (notMask m) g)
    | _, _ => "bad-op"
  | _ => "bad-op"

end MG.Lin
