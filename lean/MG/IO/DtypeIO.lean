import MG.Core.Dtype
import MG.IO.Util
/-! Line-protocol handler for the dtype / construction model (M7).  Stateless: one query per line. -/
namespace MG.Dtype
open MG.IO

def parseDT : String → Option DT
  | "bool" => some .bool | "i8" => some .i8 | "i16" => some .i16 | "i32" => some .i32 | "i64" => some .i64
  | "u8" => some .u8 | "u16" => some .u16 | "u32" => some .u32 | "u64" => some .u64
  | "f16" => some .f16 | "f32" => some .f32 | "f64" => some .f64
  | _ => none

def showDT : DT → String
  | .bool => "bool" | .i8 => "i8" | .i16 => "i16" | .i32 => "i32" | .i64 => "i64"
  | .u8 => "u8" | .u16 => "u16" | .u32 => "u32" | .u64 => "u64"
  | .f16 => "f16" | .f32 => "f32" | .f64 => "f64"

def parseDTy : String → Option DTy
  | "c64" => some .c64 | "c128" => some .c128 | "obj" => some .obj
  | s => (parseDT s).map .real

def showDTy : DTy → String
  | .real d => showDT d | .c64 => "c64" | .c128 => "c128" | .obj => "obj"

/-- `-` is `None` -/
def parseOpt {α : Type} (p : String → Option α) (s : String) : Option (Option α) :=
  if s = "-" then some none else (p s).map some

def parseOKind : String → Option OKind
  | "tnd" => some .tensorNd | "t0d" => some .tensor0d | "and" => some .arrNd | "a0d" => some .arr0d
  | "nps" => some .npScalar | "pyb" => some .pyBool | "pyi" => some .pyInt | "pyf" => some .pyFloat
  | _ => none

/-- `kind:dtype` -/
def parseOperand (s : String) : Option Operand :=
  match s.splitOn ":" with
  | [k, d] => do pure ⟨← parseOKind k, ← parseDT d⟩
  | _ => none

def parseCasting : String → Option Casting
  | "safe" => some .safe | "same_kind" => some .sameKind | "unsafe" => some .any
  | _ => none

def parseOpClass : String → Option OpClass
  | "arith" => some .arith | "noBool" => some .noBool | "divide" => some .divide | "float" => some .float
  | "toI8" => some .toI8 | "compare" => some .compare
  | _ => none

def parseCArg : String → Option CArg
  | "-" => some .none | "1" => some .t | "0" => some .f | "bad" => some .bad
  | _ => none

def parseNdRel : String → Option NdRel
  | "neg" => some .neg | "le" => some .le | "gt" => some .gt | "bad" => some .bad
  | _ => none

def parseSrcKind : String → Option SrcKind
  | "pyBool" => some .pyBool | "pyInt" => some .pyInt | "pyFloat" => some .pyFloat
  | "list" => some .list | "nested" => some .nested
  | "arrOwn" => some .arrOwn | "arrView" => some .arrView | "arrRO" => some .arrRO | "arr0d" => some .arr0d
  | "npScalar" => some .npScalar | "tensor" => some .tensor
  | _ => none

/-- five characters `0|1`: const, hasCreator, hasGrad, ownGrad, hasBase -/
def parseTState (s : String) : Option TState :=
  match s.toList.map (fun c => s2b? c.toString) with
  | [some a, some b, some c, some d, some e] => some ⟨a, b, c, d, e⟩
  | _ => none

def parseOrder : String → Option Order
  | "-" => some .none | "C" => some .c | "F" => some .f | "A" => some .a | "K" => some .k
  | _ => none

def parseLayout : String → Option Layout
  | "c" => some .c | "f" => some .f | "both" => some .both | "neither" => some .neither
  | _ => none

def parseRoutine : String → Option Routine
  | "empty" => some .empty | "ones" => some .ones | "zeros" => some .zeros | "eye" => some .eye
  | "identity" => some .identity | "full" => some .full | "arange" => some .arange
  | "linspace" => some .linspace | "logspace" => some .logspace | "geomspace" => some .geomspace
  | "empty_like" => some .emptyLike | "ones_like" => some .onesLike | "zeros_like" => some .zerosLike
  | "full_like" => some .fullLike
  | _ => none

def showErr : Err → String
  | .typeError => "TypeError" | .valueError => "ValueError"

def showIdent : Ident → String
  | .same => "same" | .shares => "shares" | .fresh => "fresh"

def showRes : Except Err Res → String
  | .error e => "err " ++ showErr e
  | .ok r => s!"ok {showIdent r.ident} {showDTy r.dt} c={b2s r.const} cr={b2s r.hasCreator} gr={b2s r.hasGrad} base={b2s r.hasBase} ext={b2s r.extended}"

def showEDT : Except Err DT → String
  | .error e => showErr e
  | .ok d => showDT d

def showShape (l : List Nat) : String := showNats l

def handleQ : List String → Option String
  | ["promote", a, b] => do pure (showDT (promote (← parseDT a) (← parseDT b)))
  | "rtn" :: ds => do
      let l ← ds.mapM parseDT
      pure (match resultStrong l with | some d => showDT d | none => "none")
  | ["cancast", c, a, b] => do
      pure (b2s (canCastY (← parseCasting c) (← parseDT a) (← parseDTy b)))
  | "rt" :: ops => do
      let l ← ops.mapM parseOperand
      let np := match npResultTypeN l with | some d => showDT d | none => "none"
      let mg := match mgResultTypeN l with | some d => showDT d | none => "none"
      pure s!"np={np} mg={mg}"
  | "uf" :: cls :: kw :: track :: carg :: allc :: ops => do
      let c ← parseOpClass cls
      let kw ← parseOpt parseDT kw
      let tr ← s2b? track
      let ca ← parseCArg carg
      let ac ← s2b? allc
      let l ← ops.mapM parseOperand
      let mg := match mgUfunc tr c l kw ca ac with
        | .error e => showErr e
        | .ok (d, k) => s!"{showDT d},{b2s k}"
      pure s!"np={showEDT (npUfunc c l kw)} mg={mg}"
  | ["cons", fn, track, kind, sdt, ts, dtarg, carg, copy, nd] => do
      let tr ← s2b? track
      let s : Src := ⟨← parseSrcKind kind, ← parseDTy sdt, ← parseTState ts⟩
      let da ← parseOpt parseDTy dtarg
      let ca ← parseCArg carg
      let cp ← s2b? copy
      let n ← parseNdRel nd
      match fn with
      | "tensor" => pure (showRes (tensorFn tr s da ca cp n))
      | "Tensor" => pure (showRes (tensorInit tr s da ca cp n))
      | "astensor" => pure (showRes (astensorFn tr s da ca))
      | _ => none
  | ["asarray", kind, sdt, dtarg, order, lay] => do
      let s : Src := ⟨← parseSrcKind kind, ← parseDTy sdt, default⟩
      let (i, d) := asarrayFn s (← parseOpt parseDTy dtarg) (← parseOrder order) (← parseLayout lay)
      pure s!"{showIdent i} {showDTy d}"
  | ["astype", track, sdt, ts, target, casting, copy, carg] => do
      pure (showRes (astypeFn (← s2b? track) (← parseDT sdt) (← parseTState ts) (← parseDTy target)
        (← parseCasting casting) (← s2b? copy) (← parseCArg carg)))
  | ["copy", track, sdt, ts, carg] => do
      pure (showRes (copyFn (← s2b? track) (← parseDT sdt) (← parseTState ts) (← parseCArg carg)))
  | ["create", track, r, dtarg, inferred, carg, pnc] => do
      match creationFn (← s2b? track) (← parseRoutine r) (← parseOpt parseDTy dtarg) (← parseDTy inferred)
          (← parseCArg carg) (← s2b? pnc) with
      | .error e => pure ("err " ++ showErr e)
      | .ok (d, k) => pure s!"ok {showDTy d} c={b2s k}"
  | ["bcast", a, b] => do
      match broadcast (← natList? a) (← natList? b) with
      | some r => pure ("ok " ++ showShape r)
      | none => pure "err"
  | ["castpy", "int", n] => do
      match castPy (.int (← n.toInt?)) with
      | some (d, .int m) => pure s!"{showDT d} {m}"
      | _ => pure "none"
  | _ => none

def handle (toks : List String) : String :=
  match handleQ toks with
  | some s => s
  | none => "bad-op"

end MG.Dtype
