import MG.Core.InPlace
import MG.IO.Util
/-! Line-protocol handler for the graph engine (M2/M3/M4): tag `eng`. -/
namespace MG.Eng
open MG.ND MG.IO

structure DS where
  h : Heap := {}
  vars : List (Nat × Nat) := []       -- public name ↦ tensor id
  deriving Inhabited

def optInt? (s : String) : Option (Option Int) :=
  if s = "N" then some none else s.toInt?.map some

def parseIxItem (s : String) : Option Ix :=
  if s = "n" then some .newaxis
  else if s = "e" then some .ellipsis
  else if s.startsWith "i" then (s.drop 1).toString.toInt?.map .int
  else if s.startsWith "s" then
    match (s.drop 1).toString.splitOn ":" with
    | [a, b, c] =>
      match optInt? a, optInt? b, optInt? c with
      | some a, some b, some c => some (.slice a b (c.getD 1))
      | _, _, _ => none
    | _ => none
  else none

/-- `_` = empty tuple; items separated by `;` -/
def parseIx (s : String) : Option (List Ix) :=
  if s = "_" then some [] else (splitNE s ";").mapM parseIxItem

def parseBools (s : String) : List Bool := s.toList.map (· == '1')

def parseShape (s : String) : Option Shape := natList? s

/-- `<shape>:<bits>` or `N` -/
def parseMask (s : String) : Option (Option (Shape × List Bool)) :=
  if s = "N" then some none
  else match s.splitOn ":" with
    | [sh, bits] => (parseShape sh).map fun sh => some (sh, parseBools bits)
    | _ => none

def parseVF (s : String) : Option ViewFn :=
  if s = "T" then some .tprop
  else if s.startsWith "gi:" then (parseIx (s.drop 3).toString).map .getitem
  else match s.splitOn ":" with
    | ["rs", t] => (intList? t).map .reshape
    | ["tr", t] => (natList? t).map .transpose
    | ["ex", n] => n.toNat?.map .expand
    | ["sq", n] => n.toNat?.map .squeeze
    | ["bt", t] => (parseShape t).map .broadcastTo
    | _ => none

def parseKey (s : String) : Option SetKey :=
  if s.startsWith "b=" then (parseIx (s.drop 2).toString).map .basic
  else match s.splitOn "=" with
  | ["a", t] => (intList? t).map .arr
  | ["m", bits] => some (.mask (parseBools bits))
  | _ => none

def parseConst (s : String) : Option (Option Bool) :=
  match s with
  | "N" => some none
  | "0" => some (some false)
  | "1" => some (some true)
  | _ => none

def DS.tid (d : DS) (name : Nat) : Option Nat := lookup name d.vars

/-- `t<name>` or `l:<shape>:<data>` -/
def parseOperand (d : DS) (s : String) : Option Operand :=
  if s.startsWith "t" then ((s.drop 1).toString.toNat?.bind d.tid).map .t
  else match s.splitOn ":" with
    | ["l", sh, data] =>
      match parseShape sh, intList? data with
      | some sh, some data => some (.lit (sh, data))
      | _, _ => none
    | _ => none

def parseBin : String → Option Kind
  | "add" => some .add | "sub" => some .sub | "mul" => some .mul | _ => none
def parseUn : String → Option Kind
  | "neg" => some .neg | "pos" => some .pos | "square" => some .square | _ => none

def bind (d : DS) (name : Nat) (r : Except Err (Heap × Nat)) : DS × String :=
  match r with
  | .ok (h, t) => ({ h := h, vars := insert name t d.vars }, "ok")
  | .error e => (d, e.name)

def sharesMem (a b : Arr) : Bool :=
  a.buf == b.buf && a.d.positions.any fun p => b.d.positions.contains p

def showVal (v : List Int) : String := showInts v

/-- observation of all public tensors (reads `.grad`, which may fill view-gradient caches) -/
def observe (d : DS) : DS × String :=
  let names := (d.vars.map (·.1)).mergeSort (· ≤ ·)
  let nameOf (t : Nat) : String :=
    match d.vars.find? fun p => p.2 = t with
    | some p => toString p.1
    | none => "anon"
  let (h, parts) := names.foldl (fun (acc : Heap × List String) n =>
    match d.tid n with
    | none => acc
    | some t =>
      let (h, g) := gradProp acc.1.fuel acc.1 t
      let tt := h.t t
      let s := s!"v{n}:sh={showNats tt.data.d.shape}:c={b2s tt.const}:b={match tt.base with | some b => nameOf b | none => "-"}:cn={b2s tt.creator.isNone}:d={showVal (h.read tt.data)}:g={match g with | some g => showNats g.1 ++ "/" ++ showVal g.2 | none => "N"}"
      (h, acc.2 ++ [s])) (d.h, [])
  let arrs := names.filterMap fun n => (d.tid n).map fun t => (n, (h.t t).data)
  let pairs := arrs.flatMap fun (n, a) =>
    (arrs.filter fun (m, b) => n < m && sharesMem a b).map fun (m, _) => s!"{n}-{m}"
  ({ d with h := h }, " ".intercalate parts ++ " S=" ++ ",".intercalate pairs)

def handle (d : DS) : List String → DS × String
  | ["reset"] => ({}, "ok")
  | ["obs"] => observe d
  | ["leaf", name, sh, data, c] =>
    match name.toNat?, parseShape sh, intList? data, s2b? c with
    | some name, some sh, some data, some c =>
      let (h, a) := d.h.newArr (sh, data)
      let (h, t) := h.fresh
      ({ h := h.setT t { data := a, const := c }, vars := insert name t d.vars }, "ok")
    | _, _, _, _ => (d, "bad-op")
  | ["leaf", name, sh, data, c, "F"] =>
    match name.toNat?, parseShape sh, intList? data, s2b? c with
    | some name, some sh, some data, some c =>
      let (h, a) := d.h.newArrF (sh, data)
      let (h, t) := h.fresh
      ({ h := h.setT t { data := a, const := c }, vars := insert name t d.vars }, "ok")
    | _, _, _, _ => (d, "bad-op")
  | ["leaf", name, sh, data, c, "RO"] =>
    match name.toNat?, parseShape sh, intList? data, s2b? c with
    | some name, some sh, some data, some c =>
      let (h, a) := d.h.newArr (sh, data)
      let (h, t) := h.fresh
      ({ h := { h.setT t { data := a, const := c } with ro := a.buf :: h.ro }, vars := insert name t d.vars }, "ok")
    | _, _, _, _ => (d, "bad-op")
  | ["kstrides", sh, st] =>
    match parseShape sh, intList? st with
    | some sh, some st => (d, showInts (korderStrides sh st))
    | _, _ => (d, "bad-op")
  | ["bin", name, k, a, b, c] =>
    match name.toNat?, parseBin k, parseOperand d a, parseOperand d b, parseConst c with
    | some name, some k, some a, some b, some c => bind d name (opStep d.h k [a, b] c)
    | _, _, _, _, _ => (d, "bad-op")
  | ["un", name, k, a, c] =>
    match name.toNat?, parseUn k, parseOperand d a, parseConst c with
    | some name, some k, some a, some c => bind d name (opStep d.h k [a] c)
    | _, _, _, _ => (d, "bad-op")
  | ["sum", name, a, ax, kd, c] =>
    match name.toNat?, parseOperand d a, optInt? ax, s2b? kd, parseConst c with
    | some name, some a, some ax, some kd, some c =>
      bind d name (opStep d.h (.sum ax kd) [a] c)
    | _, _, _, _, _ => (d, "bad-op")
  | ["view", name, vf, a, c] =>
    match name.toNat?, parseVF vf, parseOperand d a, parseConst c with
    | some name, some vf, some a, some c => bind d name (opStep d.h (.view vf) [a] c)
    | _, _, _, _ => (d, "bad-op")
  | ["take", name, a, idx, c] =>
    match name.toNat?, parseOperand d a, intList? idx, parseConst c with
    | some name, some a, some idx, some c => bind d name (opStep d.h (.takeArr idx) [a] c)
    | _, _, _, _ => (d, "bad-op")
  | ["set", name, key, v] =>
    match name.toNat?.bind d.tid, parseKey key, parseOperand d v with
    | some t, some key, some v =>
      match inPlaceOp d.h (d.vars.map (·.2)) t (.setitem key) [.t t, v] with
      | .ok h => ({ d with h := h }, "ok")
      | .error (e, h) => ({ d with h := h }, e.name)
    | _, _, _ => (d, "bad-op")
  | ["aug", name, k, v] =>
    match name.toNat?.bind d.tid, parseBin k, parseOperand d v with
    | some t, some k, some v =>
      match inPlaceOp d.h (d.vars.map (·.2)) t k [.t t, v] with
      | .ok h => ({ d with h := h }, "ok")
      | .error (e, h) => ({ d with h := h }, e.name)
    | _, _, _ => (d, "bad-op")
  | ["outb", name, k, a, b, w] =>
    match name.toNat?.bind d.tid, parseBin k, parseOperand d a, parseOperand d b, parseMask w with
    | some t, some k, some a, some b, some w =>
      match inPlaceOp d.h (d.vars.map (·.2)) t k [a, b] none w with
      | .ok h => ({ d with h := h }, "ok")
      | .error (e, h) => ({ d with h := h }, e.name)
    | _, _, _, _, _ => (d, "bad-op")
  | ["outb", name, k, a, b, w, c] =>
    match name.toNat?.bind d.tid, parseBin k, parseOperand d a, parseOperand d b, parseMask w, parseConst c with
    | some t, some k, some a, some b, some w, some c =>
      match inPlaceOp d.h (d.vars.map (·.2)) t k [a, b] c w with
      | .ok h => ({ d with h := h }, "ok")
      | .error (e, h) => ({ d with h := h }, e.name)
    | _, _, _, _, _, _ => (d, "bad-op")
  | ["outu", name, k, a, w, c] =>
    match name.toNat?.bind d.tid, parseUn k, parseOperand d a, parseMask w, parseConst c with
    | some t, some k, some a, some w, some c =>
      match inPlaceOp d.h (d.vars.map (·.2)) t k [a] c w with
      | .ok h => ({ d with h := h }, "ok")
      | .error (e, h) => ({ d with h := h }, e.name)
    | _, _, _, _, _ => (d, "bad-op")
  | ["outu", name, k, a, w] =>
    match name.toNat?.bind d.tid, parseUn k, parseOperand d a, parseMask w with
    | some t, some k, some a, some w =>
      match inPlaceOp d.h (d.vars.map (·.2)) t k [a] none w with
      | .ok h => ({ d with h := h }, "ok")
      | .error (e, h) => ({ d with h := h }, e.name)
    | _, _, _, _ => (d, "bad-op")
  | ["back", name, seed] =>
    match name.toNat?.bind d.tid with
    | some t =>
      let sd : Option Seed :=
        if seed = "N" then some .none
        else match seed.splitOn ":" with
          | ["l", sh, data] =>
            match parseShape sh, intList? data with
            | some sh, some data => some (.val (sh, data))
            | _, _ => none
          | _ => none
      match sd with
      | some sd =>
        match backward d.h t sd with
        | .ok h => ({ d with h := h }, "ok")
        | .error (e, h) => ({ d with h := h }, e.name)
      | none => (d, "bad-op")
    | none => (d, "bad-op")
  | ["clear", name] =>
    match name.toNat?.bind d.tid with
    | some t => ({ d with h := clearGraph d.h.fuel d.h t }, "ok")
    | none => (d, "bad-op")
  | ["null", name] =>
    match name.toNat?.bind d.tid with
    | some t => ({ d with h := nullGrad d.h t }, "ok")
    | none => (d, "bad-op")
  | ["del", name] =>
    match name.toNat? with
    | some n => ({ d with vars := d.vars.filter fun p => p.1 ≠ n }, "ok")
    | none => (d, "bad-op")
  | _ => (d, "bad-op")

end MG.Eng
