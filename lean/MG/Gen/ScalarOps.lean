import MG.Proofs.Lemmas.NumpyReal

/-!
# GENERATED — do not edit.  Rewritten by `harness/props/c02_scalar.py` (`regen`) on every `./check C02`.

Every element-wise `Operation` of `/repo/src/mygrad` in one place: `fwd_<Op>` is its forward pass, `bwd_<Op>_<i>` what
`backward_var(grad, i)` returns, both obtained by executing the real methods on symbolic operands and validated
bit-for-bit against those methods.  NumPy ufuncs are read as the real functions of the table in `c02_trace.py`
(`LEAN_UN`, `LEAN_BIN`; `MG.NP.*` are defined in `MG/Proofs/Lemmas/NumpyReal.lean`).  Float literals are printed as the
decimal they denote, except the whitelisted `log 2`, `log 10`, `π`, `π/2` (checked bitwise).
`dom_bwd_<Op>_<i>` states that the selected branches of the backward formula are evaluated inside the domain of every
primitive (Lean's reals are total: `x / 0 = 0`; NumPy's are not) — the convention theorems assert it next to the value.
-/

set_option linter.unusedVariables false

namespace MG.Gen.Scalar


-- mygrad.math.arithmetic.ops.Add
noncomputable def fwd_Add (x y : ℝ) : ℝ :=
  (x + y)
noncomputable def bwd_Add_0 (g x y : ℝ) : ℝ :=
  g
/-- NumPy evaluates the selected branches of `bwd_Add_0` without dividing by zero, taking a logarithm/root outside its domain, ... -/
def dom_bwd_Add_0 (g x y : ℝ) : Prop :=
  True
noncomputable def bwd_Add_1 (g x y : ℝ) : ℝ :=
  g
/-- NumPy evaluates the selected branches of `bwd_Add_1` without dividing by zero, taking a logarithm/root outside its domain, ... -/
def dom_bwd_Add_1 (g x y : ℝ) : Prop :=
  True

-- mygrad.math.arithmetic.ops.Subtract
noncomputable def fwd_Subtract (x y : ℝ) : ℝ :=
  (x - y)
noncomputable def bwd_Subtract_0 (g x y : ℝ) : ℝ :=
  g
/-- NumPy evaluates the selected branches of `bwd_Subtract_0` without dividing by zero, taking a logarithm/root outside its domain, ... -/
def dom_bwd_Subtract_0 (g x y : ℝ) : Prop :=
  True
noncomputable def bwd_Subtract_1 (g x y : ℝ) : ℝ :=
  (-g)
/-- NumPy evaluates the selected branches of `bwd_Subtract_1` without dividing by zero, taking a logarithm/root outside its domain, ... -/
def dom_bwd_Subtract_1 (g x y : ℝ) : Prop :=
  True

-- mygrad.math.arithmetic.ops.Multiply
noncomputable def fwd_Multiply (x y : ℝ) : ℝ :=
  (x * y)
noncomputable def bwd_Multiply_0 (g x y : ℝ) : ℝ :=
  (g * y)
/-- NumPy evaluates the selected branches of `bwd_Multiply_0` without dividing by zero, taking a logarithm/root outside its domain, ... -/
def dom_bwd_Multiply_0 (g x y : ℝ) : Prop :=
  True
noncomputable def bwd_Multiply_1 (g x y : ℝ) : ℝ :=
  (g * x)
/-- NumPy evaluates the selected branches of `bwd_Multiply_1` without dividing by zero, taking a logarithm/root outside its domain, ... -/
def dom_bwd_Multiply_1 (g x y : ℝ) : Prop :=
  True

-- mygrad.math.arithmetic.ops.Divide
noncomputable def fwd_Divide (x y : ℝ) : ℝ :=
  (x / y)
noncomputable def bwd_Divide_0 (g x y : ℝ) : ℝ :=
  (g / y)
/-- NumPy evaluates the selected branches of `bwd_Divide_0` without dividing by zero, taking a logarithm/root outside its domain, ... -/
def dom_bwd_Divide_0 (g x y : ℝ) : Prop :=
  y ≠ 0
noncomputable def bwd_Divide_1 (g x y : ℝ) : ℝ :=
  (((-g) * x) / (y ^ (2:ℕ)))
/-- NumPy evaluates the selected branches of `bwd_Divide_1` without dividing by zero, taking a logarithm/root outside its domain, ... -/
def dom_bwd_Divide_1 (g x y : ℝ) : Prop :=
  (y ^ (2:ℕ)) ≠ 0

-- mygrad.math.arithmetic.ops.Power
noncomputable def fwd_Power (x y : ℝ) : ℝ :=
  (x ^ (y : ℝ))
noncomputable def bwd_Power_0 (g x y : ℝ) : ℝ :=
  ((g * y) * (x ^ ((if y ≠ 0 then (y - (1 : ℝ)) else (1 : ℝ)) : ℝ)))
/-- NumPy evaluates the selected branches of `bwd_Power_0` without dividing by zero, taking a logarithm/root outside its domain, ... -/
def dom_bwd_Power_0 (g x y : ℝ) : Prop :=
  (0 < x ∨ (x = 0 ∧ 0 ≤ (if y ≠ 0 then (y - (1 : ℝ)) else (1 : ℝ))) ∨ ∃ n : ℤ, (if y ≠ 0 then (y - (1 : ℝ)) else (1 : ℝ)) = (n : ℝ))
noncomputable def bwd_Power_1 (g x y : ℝ) : ℝ :=
  ((g * (x ^ (y : ℝ))) * (Real.log (if x ≠ 0 then x else (1 : ℝ))))
/-- NumPy evaluates the selected branches of `bwd_Power_1` without dividing by zero, taking a logarithm/root outside its domain, ... -/
def dom_bwd_Power_1 (g x y : ℝ) : Prop :=
  ((0 < x ∨ (x = 0 ∧ 0 ≤ y) ∨ ∃ n : ℤ, y = (n : ℝ)) ∧ 0 < (if x ≠ 0 then x else (1 : ℝ)))

-- mygrad.math.arithmetic.ops.Reciprocal
noncomputable def fwd_Reciprocal (x : ℝ) : ℝ :=
  (x⁻¹)
noncomputable def bwd_Reciprocal_0 (g x : ℝ) : ℝ :=
  ((-g) * ((x ^ (2:ℕ))⁻¹))
/-- NumPy evaluates the selected branches of `bwd_Reciprocal_0` without dividing by zero, taking a logarithm/root outside its domain, ... -/
def dom_bwd_Reciprocal_0 (g x : ℝ) : Prop :=
  (x ^ (2:ℕ)) ≠ 0

-- mygrad.math.arithmetic.ops.Square
noncomputable def fwd_Square (x : ℝ) : ℝ :=
  (x ^ (2:ℕ))
noncomputable def bwd_Square_0 (g x : ℝ) : ℝ :=
  (((2 : ℝ) * g) * x)
/-- NumPy evaluates the selected branches of `bwd_Square_0` without dividing by zero, taking a logarithm/root outside its domain, ... -/
def dom_bwd_Square_0 (g x : ℝ) : Prop :=
  True

-- mygrad.math.arithmetic.ops.Positive
noncomputable def fwd_Positive (x : ℝ) : ℝ :=
  x
noncomputable def bwd_Positive_0 (g x : ℝ) : ℝ :=
  g
/-- NumPy evaluates the selected branches of `bwd_Positive_0` without dividing by zero, taking a logarithm/root outside its domain, ... -/
def dom_bwd_Positive_0 (g x : ℝ) : Prop :=
  True

-- mygrad.math.arithmetic.ops.Negative
noncomputable def fwd_Negative (x : ℝ) : ℝ :=
  (-x)
noncomputable def bwd_Negative_0 (g x : ℝ) : ℝ :=
  (-g)
/-- NumPy evaluates the selected branches of `bwd_Negative_0` without dividing by zero, taking a logarithm/root outside its domain, ... -/
def dom_bwd_Negative_0 (g x : ℝ) : Prop :=
  True

-- mygrad.math.exp_log.ops.Exp
noncomputable def fwd_Exp (x : ℝ) : ℝ :=
  (Real.exp x)
noncomputable def bwd_Exp_0 (g x : ℝ) : ℝ :=
  (g * (Real.exp x))
/-- NumPy evaluates the selected branches of `bwd_Exp_0` without dividing by zero, taking a logarithm/root outside its domain, ... -/
def dom_bwd_Exp_0 (g x : ℝ) : Prop :=
  True

-- mygrad.math.exp_log.ops.Exp2
noncomputable def fwd_Exp2 (x : ℝ) : ℝ :=
  ((2:ℝ) ^ (x : ℝ))
noncomputable def bwd_Exp2_0 (g x : ℝ) : ℝ :=
  ((g * ((2:ℝ) ^ (x : ℝ))) * (Real.log 2))
/-- NumPy evaluates the selected branches of `bwd_Exp2_0` without dividing by zero, taking a logarithm/root outside its domain, ... -/
def dom_bwd_Exp2_0 (g x : ℝ) : Prop :=
  True

-- mygrad.math.exp_log.ops.Expm1
noncomputable def fwd_Expm1 (x : ℝ) : ℝ :=
  (Real.exp x - 1)
noncomputable def bwd_Expm1_0 (g x : ℝ) : ℝ :=
  (g * (Real.exp x))
/-- NumPy evaluates the selected branches of `bwd_Expm1_0` without dividing by zero, taking a logarithm/root outside its domain, ... -/
def dom_bwd_Expm1_0 (g x : ℝ) : Prop :=
  True

-- mygrad.math.exp_log.ops.Log
noncomputable def fwd_Log (x : ℝ) : ℝ :=
  (Real.log x)
noncomputable def bwd_Log_0 (g x : ℝ) : ℝ :=
  (g / x)
/-- NumPy evaluates the selected branches of `bwd_Log_0` without dividing by zero, taking a logarithm/root outside its domain, ... -/
def dom_bwd_Log_0 (g x : ℝ) : Prop :=
  x ≠ 0

-- mygrad.math.exp_log.ops.Log2
noncomputable def fwd_Log2 (x : ℝ) : ℝ :=
  (Real.log x / Real.log 2)
noncomputable def bwd_Log2_0 (g x : ℝ) : ℝ :=
  (g / (x * (Real.log 2)))
/-- NumPy evaluates the selected branches of `bwd_Log2_0` without dividing by zero, taking a logarithm/root outside its domain, ... -/
def dom_bwd_Log2_0 (g x : ℝ) : Prop :=
  (x * (Real.log 2)) ≠ 0

-- mygrad.math.exp_log.ops.Log10
noncomputable def fwd_Log10 (x : ℝ) : ℝ :=
  (Real.log x / Real.log 10)
noncomputable def bwd_Log10_0 (g x : ℝ) : ℝ :=
  (g / (x * (Real.log 10)))
/-- NumPy evaluates the selected branches of `bwd_Log10_0` without dividing by zero, taking a logarithm/root outside its domain, ... -/
def dom_bwd_Log10_0 (g x : ℝ) : Prop :=
  (x * (Real.log 10)) ≠ 0

-- mygrad.math.exp_log.ops.Log1p
noncomputable def fwd_Log1p (x : ℝ) : ℝ :=
  (Real.log (1 + x))
noncomputable def bwd_Log1p_0 (g x : ℝ) : ℝ :=
  (g / ((1 : ℝ) + x))
/-- NumPy evaluates the selected branches of `bwd_Log1p_0` without dividing by zero, taking a logarithm/root outside its domain, ... -/
def dom_bwd_Log1p_0 (g x : ℝ) : Prop :=
  ((1 : ℝ) + x) ≠ 0

-- mygrad.math.exp_log.ops.Logaddexp
noncomputable def fwd_Logaddexp (x y : ℝ) : ℝ :=
  (Real.log (Real.exp x + Real.exp y))
noncomputable def bwd_Logaddexp_0 (g x y : ℝ) : ℝ :=
  (g / ((1 : ℝ) + (Real.exp (y - x))))
/-- NumPy evaluates the selected branches of `bwd_Logaddexp_0` without dividing by zero, taking a logarithm/root outside its domain, ... -/
def dom_bwd_Logaddexp_0 (g x y : ℝ) : Prop :=
  ((1 : ℝ) + (Real.exp (y - x))) ≠ 0
noncomputable def bwd_Logaddexp_1 (g x y : ℝ) : ℝ :=
  (g / ((1 : ℝ) + (Real.exp (x - y))))
/-- NumPy evaluates the selected branches of `bwd_Logaddexp_1` without dividing by zero, taking a logarithm/root outside its domain, ... -/
def dom_bwd_Logaddexp_1 (g x y : ℝ) : Prop :=
  ((1 : ℝ) + (Real.exp (x - y))) ≠ 0

-- mygrad.math.exp_log.ops.Logaddexp2
noncomputable def fwd_Logaddexp2 (x y : ℝ) : ℝ :=
  (Real.log ((2:ℝ) ^ (x : ℝ) + (2:ℝ) ^ (y : ℝ)) / Real.log 2)
noncomputable def bwd_Logaddexp2_0 (g x y : ℝ) : ℝ :=
  (g / ((1 : ℝ) + ((2 : ℝ) ^ ((y - x) : ℝ))))
/-- NumPy evaluates the selected branches of `bwd_Logaddexp2_0` without dividing by zero, taking a logarithm/root outside its domain, ... -/
def dom_bwd_Logaddexp2_0 (g x y : ℝ) : Prop :=
  ((0 < (2 : ℝ) ∨ ((2 : ℝ) = 0 ∧ 0 ≤ (y - x)) ∨ ∃ n : ℤ, (y - x) = (n : ℝ)) ∧ ((1 : ℝ) + ((2 : ℝ) ^ ((y - x) : ℝ))) ≠ 0)
noncomputable def bwd_Logaddexp2_1 (g x y : ℝ) : ℝ :=
  (g / ((1 : ℝ) + ((2 : ℝ) ^ ((x - y) : ℝ))))
/-- NumPy evaluates the selected branches of `bwd_Logaddexp2_1` without dividing by zero, taking a logarithm/root outside its domain, ... -/
def dom_bwd_Logaddexp2_1 (g x y : ℝ) : Prop :=
  ((0 < (2 : ℝ) ∨ ((2 : ℝ) = 0 ∧ 0 ≤ (x - y)) ∨ ∃ n : ℤ, (x - y) = (n : ℝ)) ∧ ((1 : ℝ) + ((2 : ℝ) ^ ((x - y) : ℝ))) ≠ 0)

-- mygrad.math.trigonometric.ops.Sin
noncomputable def fwd_Sin (x : ℝ) : ℝ :=
  (Real.sin x)
noncomputable def bwd_Sin_0 (g x : ℝ) : ℝ :=
  (g * (Real.cos x))
/-- NumPy evaluates the selected branches of `bwd_Sin_0` without dividing by zero, taking a logarithm/root outside its domain, ... -/
def dom_bwd_Sin_0 (g x : ℝ) : Prop :=
  True

-- mygrad.math.trigonometric.ops.Cos
noncomputable def fwd_Cos (x : ℝ) : ℝ :=
  (Real.cos x)
noncomputable def bwd_Cos_0 (g x : ℝ) : ℝ :=
  (g * (-(Real.sin x)))
/-- NumPy evaluates the selected branches of `bwd_Cos_0` without dividing by zero, taking a logarithm/root outside its domain, ... -/
def dom_bwd_Cos_0 (g x : ℝ) : Prop :=
  True

-- mygrad.math.trigonometric.ops.Tan
noncomputable def fwd_Tan (x : ℝ) : ℝ :=
  (Real.tan x)
noncomputable def bwd_Tan_0 (g x : ℝ) : ℝ :=
  (g / ((Real.cos x) ^ (2:ℕ)))
/-- NumPy evaluates the selected branches of `bwd_Tan_0` without dividing by zero, taking a logarithm/root outside its domain, ... -/
def dom_bwd_Tan_0 (g x : ℝ) : Prop :=
  ((Real.cos x) ^ (2:ℕ)) ≠ 0

-- mygrad.math.trigonometric.ops.Sinc
noncomputable def fwd_Sinc (x : ℝ) : ℝ :=
  (MG.NP.sinc x)
noncomputable def bwd_Sinc_0 (g x : ℝ) : ℝ :=
  ((Real.pi * g) * (if ¬ (|(x - (0 : ℝ))| ≤ ((1e-162 : ℝ) + ((1e-05 : ℝ) * |(0 : ℝ)|))) then ((((x * Real.pi) * (Real.cos (x * Real.pi))) - (Real.sin (x * Real.pi))) / ((x * Real.pi) ^ (2:ℕ))) else (if |(x - (0 : ℝ))| ≤ ((1e-162 : ℝ) + ((1e-05 : ℝ) * |(0 : ℝ)|)) then (0 : ℝ) else (0 : ℝ))))
/-- NumPy evaluates the selected branches of `bwd_Sinc_0` without dividing by zero, taking a logarithm/root outside its domain, ... -/
def dom_bwd_Sinc_0 (g x : ℝ) : Prop :=
  (if ¬ (|(x - (0 : ℝ))| ≤ ((1e-162 : ℝ) + ((1e-05 : ℝ) * |(0 : ℝ)|))) then ((x * Real.pi) ^ (2:ℕ)) ≠ 0 else True)

-- mygrad.math.trigonometric.ops.Csc
noncomputable def fwd_Csc (x : ℝ) : ℝ :=
  ((1 : ℝ) / (Real.sin x))
noncomputable def bwd_Csc_0 (g x : ℝ) : ℝ :=
  ((g * (-(Real.cos x))) / ((Real.sin x) ^ (2:ℕ)))
/-- NumPy evaluates the selected branches of `bwd_Csc_0` without dividing by zero, taking a logarithm/root outside its domain, ... -/
def dom_bwd_Csc_0 (g x : ℝ) : Prop :=
  ((Real.sin x) ^ (2:ℕ)) ≠ 0

-- mygrad.math.trigonometric.ops.Sec
noncomputable def fwd_Sec (x : ℝ) : ℝ :=
  ((1 : ℝ) / (Real.cos x))
noncomputable def bwd_Sec_0 (g x : ℝ) : ℝ :=
  ((g * (Real.sin x)) / ((Real.cos x) ^ (2:ℕ)))
/-- NumPy evaluates the selected branches of `bwd_Sec_0` without dividing by zero, taking a logarithm/root outside its domain, ... -/
def dom_bwd_Sec_0 (g x : ℝ) : Prop :=
  ((Real.cos x) ^ (2:ℕ)) ≠ 0

-- mygrad.math.trigonometric.ops.Cot
noncomputable def fwd_Cot (x : ℝ) : ℝ :=
  ((1 : ℝ) / (Real.tan x))
noncomputable def bwd_Cot_0 (g x : ℝ) : ℝ :=
  ((-g) / ((Real.sin x) ^ (2:ℕ)))
/-- NumPy evaluates the selected branches of `bwd_Cot_0` without dividing by zero, taking a logarithm/root outside its domain, ... -/
def dom_bwd_Cot_0 (g x : ℝ) : Prop :=
  ((Real.sin x) ^ (2:ℕ)) ≠ 0

-- mygrad.math.trigonometric.ops.Arcsin
noncomputable def fwd_Arcsin (x : ℝ) : ℝ :=
  (Real.arcsin x)
noncomputable def bwd_Arcsin_0 (g x : ℝ) : ℝ :=
  (if |x| ≠ (1 : ℝ) then (g / (Real.sqrt ((1 : ℝ) - (x ^ (2:ℕ))))) else (0 : ℝ))
/-- NumPy evaluates the selected branches of `bwd_Arcsin_0` without dividing by zero, taking a logarithm/root outside its domain, ... -/
def dom_bwd_Arcsin_0 (g x : ℝ) : Prop :=
  (if |x| ≠ (1 : ℝ) then (0 ≤ ((1 : ℝ) - (x ^ (2:ℕ))) ∧ (Real.sqrt ((1 : ℝ) - (x ^ (2:ℕ)))) ≠ 0) else True)

-- mygrad.math.trigonometric.ops.Arccos
noncomputable def fwd_Arccos (x : ℝ) : ℝ :=
  (Real.arccos x)
noncomputable def bwd_Arccos_0 (g x : ℝ) : ℝ :=
  (if |x| ≠ (1 : ℝ) then ((-g) / (Real.sqrt ((1 : ℝ) - (x ^ (2:ℕ))))) else (0 : ℝ))
/-- NumPy evaluates the selected branches of `bwd_Arccos_0` without dividing by zero, taking a logarithm/root outside its domain, ... -/
def dom_bwd_Arccos_0 (g x : ℝ) : Prop :=
  (if |x| ≠ (1 : ℝ) then (0 ≤ ((1 : ℝ) - (x ^ (2:ℕ))) ∧ (Real.sqrt ((1 : ℝ) - (x ^ (2:ℕ)))) ≠ 0) else True)

-- mygrad.math.trigonometric.ops.Arctan
noncomputable def fwd_Arctan (x : ℝ) : ℝ :=
  (Real.arctan x)
noncomputable def bwd_Arctan_0 (g x : ℝ) : ℝ :=
  (g / ((1 : ℝ) + (x ^ (2:ℕ))))
/-- NumPy evaluates the selected branches of `bwd_Arctan_0` without dividing by zero, taking a logarithm/root outside its domain, ... -/
def dom_bwd_Arctan_0 (g x : ℝ) : Prop :=
  ((1 : ℝ) + (x ^ (2:ℕ))) ≠ 0

-- mygrad.math.trigonometric.ops.Arccsc
noncomputable def fwd_Arccsc (x : ℝ) : ℝ :=
  (Real.arcsin ((1 : ℝ) / x))
noncomputable def bwd_Arccsc_0 (g x : ℝ) : ℝ :=
  (if |x| ≠ (1 : ℝ) then ((-g) / (|x| * (Real.sqrt ((x ^ (2:ℕ)) - (1 : ℝ))))) else (0 : ℝ))
/-- NumPy evaluates the selected branches of `bwd_Arccsc_0` without dividing by zero, taking a logarithm/root outside its domain, ... -/
def dom_bwd_Arccsc_0 (g x : ℝ) : Prop :=
  (if |x| ≠ (1 : ℝ) then (0 ≤ ((x ^ (2:ℕ)) - (1 : ℝ)) ∧ (|x| * (Real.sqrt ((x ^ (2:ℕ)) - (1 : ℝ)))) ≠ 0) else True)

-- mygrad.math.trigonometric.ops.Arcsec
noncomputable def fwd_Arcsec (x : ℝ) : ℝ :=
  (Real.arccos ((1 : ℝ) / x))
noncomputable def bwd_Arcsec_0 (g x : ℝ) : ℝ :=
  (if |x| ≠ (1 : ℝ) then (g / (|x| * (Real.sqrt ((x ^ (2:ℕ)) - (1 : ℝ))))) else (0 : ℝ))
/-- NumPy evaluates the selected branches of `bwd_Arcsec_0` without dividing by zero, taking a logarithm/root outside its domain, ... -/
def dom_bwd_Arcsec_0 (g x : ℝ) : Prop :=
  (if |x| ≠ (1 : ℝ) then (0 ≤ ((x ^ (2:ℕ)) - (1 : ℝ)) ∧ (|x| * (Real.sqrt ((x ^ (2:ℕ)) - (1 : ℝ)))) ≠ 0) else True)

-- mygrad.math.trigonometric.ops.Arccot
noncomputable def fwd_Arccot (x : ℝ) : ℝ :=
  (if ¬ (x = (0 : ℝ)) then (Real.arctan ((1 : ℝ) / x)) else (if x = (0 : ℝ) then (Real.pi / 2) else (0 : ℝ)))
noncomputable def bwd_Arccot_0 (g x : ℝ) : ℝ :=
  ((-g) / ((1 : ℝ) + (x ^ (2:ℕ))))
/-- NumPy evaluates the selected branches of `bwd_Arccot_0` without dividing by zero, taking a logarithm/root outside its domain, ... -/
def dom_bwd_Arccot_0 (g x : ℝ) : Prop :=
  ((1 : ℝ) + (x ^ (2:ℕ))) ≠ 0

-- mygrad.math.trigonometric.ops.Arctan2
noncomputable def fwd_Arctan2 (x y : ℝ) : ℝ :=
  (MG.NP.arctan2 x y)
noncomputable def bwd_Arctan2_0 (g x y : ℝ) : ℝ :=
  ((g * y) / ((x ^ (2:ℕ)) + (y ^ (2:ℕ))))
/-- NumPy evaluates the selected branches of `bwd_Arctan2_0` without dividing by zero, taking a logarithm/root outside its domain, ... -/
def dom_bwd_Arctan2_0 (g x y : ℝ) : Prop :=
  ((x ^ (2:ℕ)) + (y ^ (2:ℕ))) ≠ 0
noncomputable def bwd_Arctan2_1 (g x y : ℝ) : ℝ :=
  ((((-1 : ℝ) * g) * x) / ((x ^ (2:ℕ)) + (y ^ (2:ℕ))))
/-- NumPy evaluates the selected branches of `bwd_Arctan2_1` without dividing by zero, taking a logarithm/root outside its domain, ... -/
def dom_bwd_Arctan2_1 (g x y : ℝ) : Prop :=
  ((x ^ (2:ℕ)) + (y ^ (2:ℕ))) ≠ 0

-- mygrad.math.hyperbolic_trig.ops.Sinh
noncomputable def fwd_Sinh (x : ℝ) : ℝ :=
  (Real.sinh x)
noncomputable def bwd_Sinh_0 (g x : ℝ) : ℝ :=
  (g * (Real.cosh x))
/-- NumPy evaluates the selected branches of `bwd_Sinh_0` without dividing by zero, taking a logarithm/root outside its domain, ... -/
def dom_bwd_Sinh_0 (g x : ℝ) : Prop :=
  True

-- mygrad.math.hyperbolic_trig.ops.Cosh
noncomputable def fwd_Cosh (x : ℝ) : ℝ :=
  (Real.cosh x)
noncomputable def bwd_Cosh_0 (g x : ℝ) : ℝ :=
  (g * (Real.sinh x))
/-- NumPy evaluates the selected branches of `bwd_Cosh_0` without dividing by zero, taking a logarithm/root outside its domain, ... -/
def dom_bwd_Cosh_0 (g x : ℝ) : Prop :=
  True

-- mygrad.math.hyperbolic_trig.ops.Tanh
noncomputable def fwd_Tanh (x : ℝ) : ℝ :=
  (Real.tanh x)
noncomputable def bwd_Tanh_0 (g x : ℝ) : ℝ :=
  (g * ((1 : ℝ) - ((Real.tanh x) ^ (2:ℕ))))
/-- NumPy evaluates the selected branches of `bwd_Tanh_0` without dividing by zero, taking a logarithm/root outside its domain, ... -/
def dom_bwd_Tanh_0 (g x : ℝ) : Prop :=
  True

-- mygrad.math.hyperbolic_trig.ops.Csch
noncomputable def fwd_Csch (x : ℝ) : ℝ :=
  ((1 : ℝ) / (Real.sinh x))
noncomputable def bwd_Csch_0 (g x : ℝ) : ℝ :=
  ((g * (-(Real.cosh x))) / ((Real.sinh x) ^ (2:ℕ)))
/-- NumPy evaluates the selected branches of `bwd_Csch_0` without dividing by zero, taking a logarithm/root outside its domain, ... -/
def dom_bwd_Csch_0 (g x : ℝ) : Prop :=
  ((Real.sinh x) ^ (2:ℕ)) ≠ 0

-- mygrad.math.hyperbolic_trig.ops.Sech
noncomputable def fwd_Sech (x : ℝ) : ℝ :=
  ((1 : ℝ) / (Real.cosh x))
noncomputable def bwd_Sech_0 (g x : ℝ) : ℝ :=
  ((g * (-(Real.sinh x))) / ((Real.cosh x) ^ (2:ℕ)))
/-- NumPy evaluates the selected branches of `bwd_Sech_0` without dividing by zero, taking a logarithm/root outside its domain, ... -/
def dom_bwd_Sech_0 (g x : ℝ) : Prop :=
  ((Real.cosh x) ^ (2:ℕ)) ≠ 0

-- mygrad.math.hyperbolic_trig.ops.Coth
noncomputable def fwd_Coth (x : ℝ) : ℝ :=
  ((1 : ℝ) / (Real.tanh x))
noncomputable def bwd_Coth_0 (g x : ℝ) : ℝ :=
  ((g * (-1 : ℝ)) / ((Real.sinh x) ^ (2:ℕ)))
/-- NumPy evaluates the selected branches of `bwd_Coth_0` without dividing by zero, taking a logarithm/root outside its domain, ... -/
def dom_bwd_Coth_0 (g x : ℝ) : Prop :=
  ((Real.sinh x) ^ (2:ℕ)) ≠ 0

-- mygrad.math.hyperbolic_trig.ops.Arcsinh
noncomputable def fwd_Arcsinh (x : ℝ) : ℝ :=
  (Real.arsinh x)
noncomputable def bwd_Arcsinh_0 (g x : ℝ) : ℝ :=
  (g / (Real.sqrt ((1 : ℝ) + (x ^ (2:ℕ)))))
/-- NumPy evaluates the selected branches of `bwd_Arcsinh_0` without dividing by zero, taking a logarithm/root outside its domain, ... -/
def dom_bwd_Arcsinh_0 (g x : ℝ) : Prop :=
  (0 ≤ ((1 : ℝ) + (x ^ (2:ℕ))) ∧ (Real.sqrt ((1 : ℝ) + (x ^ (2:ℕ)))) ≠ 0)

-- mygrad.math.hyperbolic_trig.ops.Arccosh
noncomputable def fwd_Arccosh (x : ℝ) : ℝ :=
  (Real.arcosh x)
noncomputable def bwd_Arccosh_0 (g x : ℝ) : ℝ :=
  (g / (Real.sqrt ((x ^ (2:ℕ)) - (1 : ℝ))))
/-- NumPy evaluates the selected branches of `bwd_Arccosh_0` without dividing by zero, taking a logarithm/root outside its domain, ... -/
def dom_bwd_Arccosh_0 (g x : ℝ) : Prop :=
  (0 ≤ ((x ^ (2:ℕ)) - (1 : ℝ)) ∧ (Real.sqrt ((x ^ (2:ℕ)) - (1 : ℝ))) ≠ 0)

-- mygrad.math.hyperbolic_trig.ops.Arctanh
noncomputable def fwd_Arctanh (x : ℝ) : ℝ :=
  (Real.artanh x)
noncomputable def bwd_Arctanh_0 (g x : ℝ) : ℝ :=
  (g / ((1 : ℝ) - (x ^ (2:ℕ))))
/-- NumPy evaluates the selected branches of `bwd_Arctanh_0` without dividing by zero, taking a logarithm/root outside its domain, ... -/
def dom_bwd_Arctanh_0 (g x : ℝ) : Prop :=
  ((1 : ℝ) - (x ^ (2:ℕ))) ≠ 0

-- mygrad.math.hyperbolic_trig.ops.Arccsch
noncomputable def fwd_Arccsch (x : ℝ) : ℝ :=
  (Real.arsinh ((1 : ℝ) / x))
noncomputable def bwd_Arccsch_0 (g x : ℝ) : ℝ :=
  ((-g) / (|x| * (Real.sqrt ((1 : ℝ) + (x ^ (2:ℕ))))))
/-- NumPy evaluates the selected branches of `bwd_Arccsch_0` without dividing by zero, taking a logarithm/root outside its domain, ... -/
def dom_bwd_Arccsch_0 (g x : ℝ) : Prop :=
  (0 ≤ ((1 : ℝ) + (x ^ (2:ℕ))) ∧ (|x| * (Real.sqrt ((1 : ℝ) + (x ^ (2:ℕ))))) ≠ 0)

-- mygrad.math.hyperbolic_trig.ops.Arccoth
noncomputable def fwd_Arccoth (x : ℝ) : ℝ :=
  (Real.artanh ((1 : ℝ) / x))
noncomputable def bwd_Arccoth_0 (g x : ℝ) : ℝ :=
  (g / ((1 : ℝ) - (x ^ (2:ℕ))))
/-- NumPy evaluates the selected branches of `bwd_Arccoth_0` without dividing by zero, taking a logarithm/root outside its domain, ... -/
def dom_bwd_Arccoth_0 (g x : ℝ) : Prop :=
  ((1 : ℝ) - (x ^ (2:ℕ))) ≠ 0

-- mygrad.math.misc.ops.Abs
noncomputable def fwd_Abs (x : ℝ) : ℝ :=
  |x|
noncomputable def bwd_Abs_0 (g x : ℝ) : ℝ :=
  (g * (if x > (0 : ℝ) then (1 : ℝ) else (if x = (0 : ℝ) then (0 : ℝ) else (if x < (0 : ℝ) then (-1 : ℝ) else (0 : ℝ)))))
/-- NumPy evaluates the selected branches of `bwd_Abs_0` without dividing by zero, taking a logarithm/root outside its domain, ... -/
def dom_bwd_Abs_0 (g x : ℝ) : Prop :=
  True

-- mygrad.math.misc.ops.Abs  {'nan_to_num': False}
noncomputable def fwd_AbsNoNanToNum (x : ℝ) : ℝ :=
  |x|
noncomputable def bwd_AbsNoNanToNum_0 (g x : ℝ) : Option ℝ :=
  (MG.NP.o2 (fun a b : ℝ => (a * b)) (some g) (if x > (0 : ℝ) then (some (1 : ℝ)) else (if x = (0 : ℝ) then (none : Option ℝ) else (some (if x < (0 : ℝ) then (-1 : ℝ) else (0 : ℝ))))))
/-- NumPy evaluates the selected branches of `bwd_AbsNoNanToNum_0` without dividing by zero, taking a logarithm/root outside its domain, ... -/
def dom_bwd_AbsNoNanToNum_0 (g x : ℝ) : Prop :=
  (if x > (0 : ℝ) then True else (if x = (0 : ℝ) then False else True))

-- mygrad.math.misc.ops.Sqrt
noncomputable def fwd_Sqrt (x : ℝ) : ℝ :=
  (Real.sqrt x)
noncomputable def bwd_Sqrt_0 (g x : ℝ) : ℝ :=
  (g / ((2 : ℝ) * (Real.sqrt x)))
/-- NumPy evaluates the selected branches of `bwd_Sqrt_0` without dividing by zero, taking a logarithm/root outside its domain, ... -/
def dom_bwd_Sqrt_0 (g x : ℝ) : Prop :=
  (0 ≤ x ∧ ((2 : ℝ) * (Real.sqrt x)) ≠ 0)

-- mygrad.math.misc.ops.Cbrt
noncomputable def fwd_Cbrt (x : ℝ) : ℝ :=
  (MG.NP.cbrt x)
noncomputable def bwd_Cbrt_0 (g x : ℝ) : ℝ :=
  (g / ((3 : ℝ) * (MG.NP.cbrt (x ^ (2:ℕ)))))
/-- NumPy evaluates the selected branches of `bwd_Cbrt_0` without dividing by zero, taking a logarithm/root outside its domain, ... -/
def dom_bwd_Cbrt_0 (g x : ℝ) : Prop :=
  ((3 : ℝ) * (MG.NP.cbrt (x ^ (2:ℕ)))) ≠ 0

-- mygrad.math.misc.ops.Maximum
noncomputable def fwd_Maximum (x y : ℝ) : ℝ :=
  (max x y)
noncomputable def bwd_Maximum_0 (g x y : ℝ) : ℝ :=
  ((if x > y then (1 : ℝ) else 0) * g)
/-- NumPy evaluates the selected branches of `bwd_Maximum_0` without dividing by zero, taking a logarithm/root outside its domain, ... -/
def dom_bwd_Maximum_0 (g x y : ℝ) : Prop :=
  True
noncomputable def bwd_Maximum_1 (g x y : ℝ) : ℝ :=
  ((if (((x = y) ∧ (¬ (¬ (x > y)))) ∨ ((¬ (x = y)) ∧ (¬ (x > y)))) then (1 : ℝ) else 0) * g)
/-- NumPy evaluates the selected branches of `bwd_Maximum_1` without dividing by zero, taking a logarithm/root outside its domain, ... -/
def dom_bwd_Maximum_1 (g x y : ℝ) : Prop :=
  True

-- mygrad.math.misc.ops.Minimum
noncomputable def fwd_Minimum (x y : ℝ) : ℝ :=
  (min x y)
noncomputable def bwd_Minimum_0 (g x y : ℝ) : ℝ :=
  ((if x < y then (1 : ℝ) else 0) * g)
/-- NumPy evaluates the selected branches of `bwd_Minimum_0` without dividing by zero, taking a logarithm/root outside its domain, ... -/
def dom_bwd_Minimum_0 (g x y : ℝ) : Prop :=
  True
noncomputable def bwd_Minimum_1 (g x y : ℝ) : ℝ :=
  ((if (((x = y) ∧ (¬ (¬ (x < y)))) ∨ ((¬ (x = y)) ∧ (¬ (x < y)))) then (1 : ℝ) else 0) * g)
/-- NumPy evaluates the selected branches of `bwd_Minimum_1` without dividing by zero, taking a logarithm/root outside its domain, ... -/
def dom_bwd_Minimum_1 (g x y : ℝ) : Prop :=
  True

-- mygrad.nnet.activations.sigmoid.Sigmoid
noncomputable def fwd_Sigmoid (x : ℝ) : ℝ :=
  (((Real.exp ((-1 : ℝ) * x)) + (1 : ℝ))⁻¹)
noncomputable def bwd_Sigmoid_0 (g x : ℝ) : ℝ :=
  ((g * (((Real.exp ((-1 : ℝ) * x)) + (1 : ℝ))⁻¹)) * ((1 : ℝ) - (((Real.exp ((-1 : ℝ) * x)) + (1 : ℝ))⁻¹)))
/-- NumPy evaluates the selected branches of `bwd_Sigmoid_0` without dividing by zero, taking a logarithm/root outside its domain, ... -/
def dom_bwd_Sigmoid_0 (g x : ℝ) : Prop :=
  (((Real.exp ((-1 : ℝ) * x)) + (1 : ℝ)) ≠ 0 ∧ ((Real.exp ((-1 : ℝ) * x)) + (1 : ℝ)) ≠ 0)

-- mygrad.nnet.activations.relu.ReLu
noncomputable def fwd_ReLu (x : ℝ) : ℝ :=
  (x * (if x > (0 : ℝ) then (1 : ℝ) else 0))
noncomputable def bwd_ReLu_0 (g x : ℝ) : ℝ :=
  (g * (if x > (0 : ℝ) then (1 : ℝ) else 0))
/-- NumPy evaluates the selected branches of `bwd_ReLu_0` without dividing by zero, taking a logarithm/root outside its domain, ... -/
def dom_bwd_ReLu_0 (g x : ℝ) : Prop :=
  True

-- mygrad.nnet.activations.elu.ELU
noncomputable def fwd_ELU (alpha x : ℝ) : ℝ :=
  (if x < (0 : ℝ) then (alpha * ((Real.exp x) - (1 : ℝ))) else x)
noncomputable def bwd_ELU_0 (alpha g x : ℝ) : ℝ :=
  (g * (if x < (0 : ℝ) then ((alpha * ((Real.exp x) - (1 : ℝ))) + alpha) else (1 : ℝ)))
/-- NumPy evaluates the selected branches of `bwd_ELU_0` without dividing by zero, taking a logarithm/root outside its domain, ... -/
def dom_bwd_ELU_0 (alpha g x : ℝ) : Prop :=
  True

-- mygrad.nnet.activations.selu.SELU
noncomputable def fwd_SELU (x : ℝ) : ℝ :=
  ((1.0507009873554805 : ℝ) * (if x < (0 : ℝ) then ((1.6732632423543772 : ℝ) * ((Real.exp x) - (1 : ℝ))) else x))
noncomputable def bwd_SELU_0 (g x : ℝ) : ℝ :=
  ((g * (1.0507009873554805 : ℝ)) * (if x < (0 : ℝ) then (((1.6732632423543772 : ℝ) * ((Real.exp x) - (1 : ℝ))) + (1.6732632423543772 : ℝ)) else (1 : ℝ)))
/-- NumPy evaluates the selected branches of `bwd_SELU_0` without dividing by zero, taking a logarithm/root outside its domain, ... -/
def dom_bwd_SELU_0 (g x : ℝ) : Prop :=
  True

end MG.Gen.Scalar
