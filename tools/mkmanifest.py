#!/venv/bin/python
"""Regenerate /verif/MANIFEST.json from the metadata in harness/props/*.py (keeps it valid at all times)."""
import importlib, json, sys
from pathlib import Path

VERIF = Path(__file__).resolve().parent.parent
sys.path.insert(0, str(VERIF))
ALL = [f"C{i:02d}" for i in range(1, 19)]
PENDING_REASON = "check not yet registered in this revision (under construction; see DESIGN.md §8 for the order)"

READY = set((VERIF / "tools" / "ready.txt").read_text().split())  # checks the coordinator has accepted
checks, na = [], []
for pid in ALL:
    f = VERIF / "harness" / "props" / f"{pid.lower()}.py"
    m = None
    if f.exists():
        try:
            m = importlib.import_module(f"harness.props.{pid.lower()}")
        except Exception as e:  # pragma: no cover
            print("cannot import", pid, e, file=sys.stderr)
    if m is None or not hasattr(m, "MANIFEST") or pid not in READY:
        na.append({"property_id": pid, "reason": PENDING_REASON})
        continue
    M = dict(m.MANIFEST)
    if getattr(m, "MANIFEST_ADDENDUM", ""):
        M["text"] = M["text"].rstrip() + " " + m.MANIFEST_ADDENDUM
    checks.append({
        "property_id": pid,
        "quick_cmd": f"./check {pid} --tier quick",
        "thorough_cmd": f"./check {pid} --tier thorough",
        "evidence_file": f"/verif/evidence/{pid}.json",
        "replay_cmd_template": f"./check {pid} --replay {{path}}",
        "engine": "lean4+harness",
        "level_claimed": {"category": M["category"], "text": M["text"], "design_ref": M.get("design_ref", "DESIGN.md §5")},
        "level_note": M["note"],
        "technique": M["technique"],
    })
man = {
    "version": 1,
    "setup_cmd": "./setup.sh",
    "hooks": {
        "guard": "MYGRAD_VERIF",
        "enable": "no source hooks are needed: every observable is reachable from Python; spies are installed by the harness "
                  "in-process. ./check exports MYGRAD_VERIF=1 for uniformity.",
        "baseline_off_cmd": "cd /repo && /venv/bin/python -m pytest -ra -q -p no:cacheprovider --timeout=900 --continue-on-collection-errors",
        "source_commits": [],
        "add_only": True,
    },
    "engines": [{
        "name": "lean4+harness",
        "path": "/verif/lean (lake project MG: Core models, Gen regenerated files, Proofs) + /verif/harness (Python correspondence and oracles)",
        "serves_properties": [c["property_id"] for c in checks],
        "kind_free_text": "machine-checked proof in Lean 4 of a formal model, tied to /repo on every run by regeneration (translator) or by differential execution of the model's executable definitions against the implementation (correspondence)",
    }],
    "checks": checks,
    "not_applicable": na,
    "notes": "See DESIGN.md. Known findings are in known_findings/*.json; seeded breaking changes in seeded/.",
}
(VERIF / "MANIFEST.json").write_text(json.dumps(man, indent=1) + "\n")
print(f"{len(checks)} checks, {len(na)} pending")
