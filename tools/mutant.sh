#!/bin/bash
# usage: tools/mutant.sh <prop> <file-relative-to-src/mygrad> <python-expr-old> <python-expr-new> [tier]
# Copies /repo/src to a scratch dir, applies one textual replacement, runs the check against it, removes the copy.
set -e
PROP=$1; FILE=$2; OLD=$3; NEW=$4; TIER=${5:-quick}
D=$(mktemp -d /tmp/mut.XXXXXX)
cp -r /repo/src "$D/src"
python3 - "$D/src/mygrad/$FILE" "$OLD" "$NEW" <<'PY'
import sys
p,old,new=sys.argv[1:4]
s=open(p).read()
assert old in s, "pattern not found"
open(p,'w').write(s.replace(old,new,1))
PY
cd /verif
VERIF_NO_EVIDENCE=1 PYTHONPATH="$D/src" ./check "$PROP" --tier "$TIER" $EXTRA 2>&1 | tail -4
rm -rf "$D"
