#!/bin/bash
# run every registered quick (or $1=thorough) check sequentially; print the summary lines
cd "$(dirname "$0")/.."
TIER=${1:-quick}
for p in C01 C02 C03 C04 C05 C06 C07 C08 C09 C10 C11 C12 C13 C14 C15 C16 C17 C18; do
  ./check $p --tier $TIER 2>&1 | grep -v "^KNOWN-FINDING" | tail -1
done
