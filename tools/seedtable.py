#!/usr/bin/env python3
"""print the markdown table of DESIGN.md §9.6(ii) from seeded/*/meta.json"""
import json
from pathlib import Path

rows = []
for d in sorted((Path(__file__).resolve().parent.parent / "seeded").iterdir()):
    m = json.loads((d / "meta.json").read_text())
    s = m["summary"].strip().replace("\n", " ").replace("|", "/")
    s = s[:230] + ("…" if len(s) > 230 else "")
    cb = []
    for c in m.get("caught_by", []):
        if c.get("exit") == 1:
            cb.append(f"{c['check']} ({c['with_failing_input']} failing input{'s' if c['with_failing_input'] != 1 else ''})")
        else:
            cb.append(f"{c['check']}: silent")
    if m.get("neutralised_by"):
        cb = ["no longer breaks the property: " + m["neutralised_by"].split(":")[0]]
    rows.append(f"| {d.name} | {s} | {'; '.join(cb) or 'not run'} |")
print("| change | what it does | checks (quick tier) |\n|---|---|---|")
print("\n".join(rows))
