#!/usr/bin/env python3
"""Run the registered checks against every seeded change under /verif/seeded and record who catches what.

usage: seedmatrix.py [name ...] [--also C02,C11] [--lean]

For each seeded/<name>/patch.diff: a scratch copy of /repo/src is patched (never /repo itself), the check of the
property the change breaks is run against it through PYTHONPATH (quick tier; `--no-lean` unless --lean: the Lean side
does not depend on the patched Python except for the translator-tied properties C02/C11, which are run with Lean), the
copy is removed, and meta.json's `caught_by` is rewritten.  When the property's own check exits 0 the checks named in
meta.json `also_try` (or --also) are tried as well.  Prints one table row per (change, check).
"""
import json
import os
import re
import shutil
import subprocess
import sys
import tempfile
from pathlib import Path

VERIF = Path(__file__).resolve().parent.parent
TRANSLATOR_TIED = {"C02", "C11"}


def run_check(prop, src, lean):
    env = dict(os.environ, PYTHONPATH=str(src), VERIF_NO_EVIDENCE="1")
    args = ["./check", prop, "--tier", "quick"] + ([] if (lean or prop in TRANSLATOR_TIED) else ["--no-lean"])
    r = subprocess.run(args, cwd=VERIF, env=env, capture_output=True, text=True, timeout=3600)
    lines = [l for l in (r.stdout + r.stderr).splitlines() if l.startswith("VIOLATION")]
    concrete = [l for l in lines if "no-failing-input-found" not in l]
    summ = [l for l in r.stdout.splitlines() if l.startswith(f"[{prop}]")]
    return {"check": prop, "tier": "quick", "exit": r.returncode, "violation_lines": len(lines),
            "with_failing_input": len(concrete), "summary": summ[-1] if summ else ""}


def main():
    argv = sys.argv[1:]
    lean = "--lean" in argv
    also = []
    if "--also" in argv:
        also = argv[argv.index("--also") + 1].split(",")
    names = [a for a in argv if not a.startswith("--") and a not in ",".join(also)] or sorted(p.name for p in (VERIF / "seeded").iterdir() if p.is_dir())
    rows = []
    for name in names:
        d = VERIF / "seeded" / name
        meta = json.loads((d / "meta.json").read_text())
        prop = meta["breaks_property"]
        if meta.get("neutralised_by"):
            # a later repair of /repo made this change harmless (its demonstration holds with the change applied)
            print(f"{name:8s} neutralised: not run", flush=True)
            rows.append((name, prop, 1, 0, 0))
            continue
        tmp = Path(tempfile.mkdtemp(prefix="seedrun.", dir="/tmp"))
        try:
            shutil.copytree("/repo/src", tmp / "src")
            r = subprocess.run(f"patch -p1 -s < {d / 'patch.diff'}", shell=True, cwd=tmp, capture_output=True, text=True)
            if r.returncode != 0:
                print(f"{name}: PATCH DOES NOT APPLY: {r.stdout[-300:]}")
                continue
            res = [run_check(prop, tmp / "src", lean)]
            if res[0]["exit"] != 1:
                for other in (also or meta.get("also_try", [])):
                    if other != prop:
                        res.append(run_check(other, tmp / "src", lean))
            else:
                # keep earlier positive results of other checks (they are not re-run here)
                res += [c for c in meta.get("caught_by", []) if c.get("check") != prop and c.get("exit") == 1]
        finally:
            shutil.rmtree(tmp, ignore_errors=True)
        meta["caught_by"] = res
        (d / "meta.json").write_text(json.dumps(meta, indent=1))
        for c in res:
            rows.append((name, c["check"], c["exit"], c["violation_lines"], c["with_failing_input"]))
            print(f"{name:8s} check={c['check']} exit={c['exit']} violations={c['violation_lines']} with_failing_input={c['with_failing_input']}", flush=True)
    if any(r[1] in TRANSLATOR_TIED for r in rows):
        # the translator-tied checks regenerated lean/MG/Gen from the patched copy: regenerate from /repo
        subprocess.run(["/venv/bin/python", "-W", "ignore", "-m", "harness.regen_all"], cwd=VERIF, capture_output=True)
    missed = sorted({n for n in names if not any(r[0] == n and r[2] == 1 for r in rows)})
    print("MISSED:", missed)
    return 0


if __name__ == "__main__":
    sys.exit(main())
