#!/bin/bash
# usage: tools/seedtest.sh <patch.diff> <prop> [tier] [extra check args]
# Apply a seeded change to a scratch copy of /repo (git worktree-free: cp), run the check against it, remove the copy.
set -u
PATCH=$(readlink -f "$1"); PROP=$2; TIER=${3:-quick}; EXTRA=${4:-}
D=$(mktemp -d /tmp/seedrun.XXXXXX)
cp -r /repo/src "$D/src"
( cd "$D" && patch -p1 -s < "$PATCH" ) || { echo "PATCH DOES NOT APPLY"; rm -rf "$D"; exit 2; }
cd /verif
VERIF_NO_EVIDENCE=1 PYTHONPATH="$D/src" ./check "$PROP" --tier "$TIER" $EXTRA 2>&1 | grep -v "^KNOWN-FINDING" | tail -5 | cut -c1-200
rm -rf "$D"
