#!/usr/bin/env python3
"""Confirm an independently produced breaking change and file it under /verif/seeded/<name>/.

usage: confirm_seed.py <PROP> <n> [--src /tmp/wt/<PROP>/_seed] [--no-suite]

Steps (all in a scratch git worktree of /repo at its current HEAD, removed afterwards):
  1. the patch applies (patch -p1, fuzz allowed: the changes were written against an earlier HEAD);
  2. the package still imports (it "compiles");
  3. the demonstration exits 0 on the unchanged tree and non-zero on the changed tree;
  4. the pinned test suite passes on the changed tree (the only tolerated failure is tests/test_version.py, an artefact
     of importing the worktree through PYTHONPATH, which fails identically without the change).
Writes seeded/<PROP>-<n>/{patch.diff, demo.py, meta.json}.
"""
import json
import os
import re
import shutil
import subprocess
import sys
import tempfile
from pathlib import Path

VERIF = Path(__file__).resolve().parent.parent
PY = "/venv/bin/python"


def sh(cmd, **kw):
    return subprocess.run(cmd, shell=True, capture_output=True, text=True, **kw)


def main():
    prop, n = sys.argv[1], sys.argv[2]
    src = Path(sys.argv[sys.argv.index("--src") + 1]) if "--src" in sys.argv else Path(f"/tmp/wt/{prop}/_seed")
    suite = "--no-suite" not in sys.argv
    diff, demo = src / f"change{n}.diff", src / f"demo{n}.py"
    agent_meta = json.loads((src / "meta.json").read_text())
    ch = [c for c in agent_meta["changes"] if c["diff"] == diff.name][0]
    wt = Path(tempfile.mkdtemp(prefix=f"confirm_{prop}_{n}_", dir="/tmp"))
    wt.rmdir()
    r = sh(f"git -C /repo worktree add --detach {wt} HEAD")
    assert r.returncode == 0, r.stderr
    out = {"property": prop, "change": diff.name, "repo_head": sh("git -C /repo rev-parse --short HEAD").stdout.strip()}
    try:
        r = sh(f"patch -p1 --no-backup-if-mismatch < {diff}", cwd=wt)
        out["applies"] = r.returncode == 0
        out["patch_log"] = r.stdout.strip().splitlines()[-3:]
        if r.returncode != 0:
            print(json.dumps(out, indent=1))
            return 1
        env = dict(os.environ, PYTHONPATH=str(wt / "src"))
        r = sh(f"{PY} -c 'import mygrad, mygrad.nnet; print(mygrad.__file__)'", env=env)
        out["imports"] = r.returncode == 0 and str(wt) in r.stdout
        r0 = sh(f"{PY} -W ignore {demo}", env=dict(os.environ, PYTHONPATH="/repo/src"), timeout=1800)
        r1 = sh(f"{PY} -W ignore {demo}", env=env, timeout=1800)
        out["demo_unchanged_exit"] = r0.returncode
        out["demo_changed_exit"] = r1.returncode
        out["demo_changed_tail"] = (r1.stdout + r1.stderr).strip().splitlines()[-3:]
        if suite:
            r = sh(f"{PY} -m pytest -q -p no:cacheprovider --timeout=900 --continue-on-collection-errors tests 2>&1 | tail -15",
                   cwd=wt, env=env, timeout=3600)
            tail = r.stdout.strip().splitlines()
            out["suite_tail"] = tail[-1] if tail else ""
            failed = [l for l in tail if l.startswith("FAILED") or l.startswith("ERROR")]
            out["suite_failures"] = failed
            # a failure other than test_version is re-run on its own (with the change applied): the suite has
            # load-sensitive tests (hypothesis deadlines, statistical initialiser tests); it counts only if it fails again
            rerun = {}
            for l in failed:
                if "test_version" in l:
                    continue
                node = l.split()[1]
                rr = sh(f"{PY} -m pytest -q -p no:cacheprovider --timeout=900 '{node}' 2>&1 | tail -1", cwd=wt, env=env, timeout=1800)
                rerun[node] = rr.stdout.strip()
            out["suite_reruns"] = rerun
            out["suite_ok"] = all(("passed" in v and "failed" not in v) for v in rerun.values()) and bool(re.search(r"\d+ passed", out["suite_tail"]))
        # the patch as it applies to the current HEAD
        patch_now = sh("git diff", cwd=wt).stdout
    finally:
        sh(f"git -C /repo worktree remove --force {wt}")
        shutil.rmtree(wt, ignore_errors=True)
    ok = out["applies"] and out["imports"] and out["demo_unchanged_exit"] == 0 and out["demo_changed_exit"] != 0 and (
        not suite or out["suite_ok"])
    out["confirmed"] = bool(ok)
    print(json.dumps(out, indent=1))
    if ok:
        name = sys.argv[sys.argv.index("--as") + 1] if "--as" in sys.argv else f"{prop}-{n}"
        d = VERIF / "seeded" / name
        d.mkdir(parents=True, exist_ok=True)
        (d / "patch.diff").write_text(patch_now)
        shutil.copy(demo, d / "demo.py")
        meta = {"breaks_property": prop, "summary": ch["summary"], "needs_to_manifest": ch["needs_to_manifest"],
                "origin": "written by an independent sub-agent that was given only the property text and a scratch worktree",
                "agent_tests_run": ch.get("tests_run", ""),
                "confirmed_by_builder": {k: out[k] for k in out if k not in ("patch_log",)},
                "how_to_run": f"git -C /repo apply /verif/seeded/{name}/patch.diff && /verif/check <PROP> --tier quick ; git -C /repo checkout -- .",
                "caught_by": []}
        old = d / "meta.json"
        if old.exists():
            meta["caught_by"] = json.loads(old.read_text()).get("caught_by", [])
        old.write_text(json.dumps(meta, indent=1))
    return 0 if ok else 1


if __name__ == "__main__":
    sys.exit(main())
