#!/bin/bash
# Offline setup after a fresh restore: regenerate the translator-tied Lean files from /repo, then build every
# model, proof and driver (cold: a few minutes on 16 cores; Mathlib is pre-compiled on the toolchain's path).
set -e
cd "$(dirname "$0")"
export PYTHONDONTWRITEBYTECODE=1 PYTHONHASHSEED=0 OMP_NUM_THREADS=1 OPENBLAS_NUM_THREADS=1
/venv/bin/python -W ignore -m harness.regen_all || echo "regen failed (the checks will regenerate and report)"
cd lean
lake build MG MG.Driver MG.DriverEng MG.DriverCtx MG.IO.LockMain 2>&1 | tail -5
