#!/bin/bash
# Offline setup after a fresh restore: build the Lean models, proofs and driver.
set -e
cd "$(dirname "$0")/lean"
lake build MG MG.Driver 2>&1 | tail -5
